import SmppVerif.Model.Driver
import SmppVerif.Props.C10
import SmppVerif.Props.C11
import SmppVerif.Props.C17
import SmppVerif.Props.C20
import SmppVerif.Props.C08
import SmppVerif.Props.C18
import SmppVerif.Props.C09
