import SmppVerif.Model.Driver
import SmppVerif.Props.C10
