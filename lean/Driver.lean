/- Run with `lake env lean --run Driver.lean` (cwd = this directory). -/
import SmppVerif.Model.Driver

def main : IO Unit := SmppVerif.Driver.main
