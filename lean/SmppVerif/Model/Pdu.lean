/-
Tier 1: model of aiosmpplib/protocol.py + state.py: the fifteen message classes, `pdu()`,
`parse_header`, `from_pdu`, constructor validation (`__post_init__`, `check_param`),
OptionalParam (`length`, `tlv`), `smpp_encode` with the UCS2 fall-back.

Strings are lists of code points, bytes lists of octets.  Text codecs: gsm0338,
gsm0338_packed, ucs2, ascii, latin_1 are modelled; every other name is either *missing*
(no codec: LookupError) or *opaque* (a codec the model does not describe: the driver refuses
such inputs, the theorems carry the round-trip law of the codec as a hypothesis).
-/
import SmppVerif.Model.Gsm
import SmppVerif.Model.Packed
import SmppVerif.Model.Utf16
import SmppVerif.Model.Time
import SmppVerif.Gen.Tlv
import SmppVerif.Gen.Enums
import SmppVerif.Gen.Consts

namespace SmppVerif.Pdu
open SmppVerif

/-! ### encodings -/

/-- what `find_codec_info(name)` gives -/
inductive Codec where
  | gsm | gsmPacked | ucs2 | ascii | latin1
  | missing            -- LookupError
  | opaque             -- a Python codec outside the model
  deriving DecidableEq, Repr, Inhabited

/-- an encoding name as the code sees it: the codec behind it and its `SmppDataCoding` value
    (`none` when the name is not an enum member: `SmppDataCoding[name]` raises KeyError) -/
structure Enc where
  name : List Nat
  codec : Codec
  dataCoding : Option Nat
  deriving DecidableEq, Repr, Inhabited

def str (s : String) : List Nat := s.toList.map Char.toNat

def encGsm : Enc := ⟨str "gsm0338", .gsm, some 0⟩
def encGsmPacked : Enc := ⟨str "gsm0338_packed", .gsmPacked, some 0⟩
def encUcs2 : Enc := ⟨str "ucs2", .ucs2, some 8⟩
def encAscii : Enc := ⟨str "ascii", .ascii, some 1⟩
def encLatin1 : Enc := ⟨str "latin_1", .latin1, some 3⟩

/-- Python `str.encode('ascii')` / codec ascii, latin_1 with an error mode -/
def encodeBounded (limit : Nat) (mode : Mode) : List Nat → Except Exc (List Nat)
  | [] => .ok []
  | c :: cs =>
    if c < limit then (encodeBounded limit mode cs).map (c :: ·)
    else match mode with
      | .strict => .error .unicodeEncodeError
      | .replace => (encodeBounded limit mode cs).map (0x3F :: ·)
      | .ignore => encodeBounded limit mode cs

/-- `bytes.decode('ascii')` (strict) -/
def decodeAsciiStrict (b : List Nat) : Except Exc (List Nat) :=
  if b.all (· < 128) then .ok b else .error .unicodeDecodeError

/-- error_handling as the SubmitSm carries it: one of the three modes or any other string -/
inductive ErrH where
  | mode (m : Mode)
  | other
  deriving DecidableEq, Repr, Inhabited

/-- `codec_info.encode(text, error_handling)[0]` -/
def codecEncode (c : Codec) (eh : ErrH) (text : List Nat) : Except Exc (List Nat) :=
  match c, eh with
  | .missing, _ => .error .lookupError
  | .opaque, _ => .error .runtimeError            -- outside the model (driver refuses)
  | .gsm, .mode m => Gsm.encode m text
  | .gsmPacked, .mode m => Packed.encode m text
  | .gsm, .other => .error .valueError            -- 'Unknown error handling'
  | .gsmPacked, .other => .error .valueError
  | .ucs2, .mode m => Utf16.encode m text
  | .ucs2, .other =>
    -- the error handler is looked up only when an error occurs
    match Utf16.encode .strict text with
    | .ok b => .ok b
    | .error _ => .error .lookupError
  | .ascii, .mode m => encodeBounded 128 m text
  | .ascii, .other =>
    match encodeBounded 128 .strict text with
    | .ok b => .ok b
    | .error _ => .error .lookupError
  | .latin1, .mode m => encodeBounded 256 m text
  | .latin1, .other =>
    match encodeBounded 256 .strict text with
    | .ok b => .ok b
    | .error _ => .error .lookupError

/-- `codec_info.decode(bytes)[0]` (strict) -/
def codecDecode (c : Codec) (b : List Nat) : Except Exc (List Nat) :=
  match c with
  | .missing => .error .lookupError
  | .opaque => .error .runtimeError
  | .gsm => Gsm.decode .strict b
  | .gsmPacked => Packed.decode .strict b
  | .ucs2 => Utf16.decode .strict b
  | .ascii => decodeAsciiStrict b
  | .latin1 => .ok b

/-! ### struct.pack / unpack -/

def packU (width : Nat) (v : Int) : Except Exc (List Nat) :=
  if 0 ≤ v ∧ v < (256 : Int) ^ width then
    .ok ((List.range width).reverse.map fun i => (v.toNat / 256 ^ i) % 256)
  else .error .structError

/-- concatenation of byte strings that may each fail: the first failure wins -/
def concatM : List (Except Exc (List Nat)) → Except Exc (List Nat)
  | [] => .ok []
  | x :: xs =>
    match x with
    | .error e => .error e
    | .ok a => (concatM xs).map (a ++ ·)

def beVal : List Nat → Nat
  | [] => 0
  | b :: bs => b * 256 ^ bs.length + beVal bs

/-- `unpack_from(fmt, buf, off)` for an unsigned big-endian integer of `width` octets -/
def unpackU (width : Nat) (buf : List Nat) (off : Nat) : Except Exc Nat :=
  if off + width ≤ buf.length then .ok (beVal ((buf.drop off).take width)) else .error .structError

/-- Python `int.bit_length()` based byte length used by `check_param(maxlen=…)` -/
def byteLen (v : Int) : Nat := (Nat.log2 v.natAbs + (if v = 0 then 0 else 1) + 7) / 8

/-! ### optional parameters -/

inductive TlvVal where
  | int (v : Int)
  | str (s : List Nat)
  | bool (b : Bool)
  deriving DecidableEq, Repr, Inhabited

structure Tlv where
  tag : Int
  val : TlvVal
  deriving DecidableEq, Repr, Inhabited

/-- (kind, width class) of a tag from the generated run-length table; kind 0 int, 1 str,
    2 bool, 3 refused -/
def tagInfo (tag : Nat) : Nat × Nat :=
  match Gen.Tlv.runs.find? (fun r => r.1 ≤ tag ∧ tag < r.1 + r.2.1) with
  | some r => (r.2.2.1, r.2.2.2)
  | none => (1, 0)

/-- `tag_data_type(tag)` for any Python int: negative or oversized tags are plain strings -/
def tagKind (tag : Int) : Nat × Nat :=
  if 0 ≤ tag ∧ tag < 65536 then tagInfo tag.toNat else (1, 0)

/-- `OptionalParam.__post_init__`: tag fits two bytes, value type matches, not message_payload.
    (`bool` is an `int` in Python, so a bool value is accepted for an integer tag.) -/
def tlvValid (t : Tlv) : Bool :=
  byteLen t.tag ≤ 2 &&
  (match (tagKind t.tag).1, t.val with
   | 0, .int _ => true
   | 0, .bool _ => true
   | 1, .str _ => true
   | 2, .bool _ => true
   | _, _ => false) &&
  (tagKind t.tag).1 ≠ 3

/-- `OptionalParam.length` -/
def tlvLength (t : Tlv) : Nat :=
  if (tagKind t.tag).1 = 0 then (tagKind t.tag).2
  else match t.val with
    | .str s => if tagKind t.tag = (1, 1) then s.length + 1 else s.length
    | _ => 0

/-- `OptionalParam.tlv` -/
def tlvBytes (t : Tlv) : Except Exc (List Nat) :=
  match (tagKind t.tag).1 with
  | 0 =>
    let v : Int := match t.val with
      | .int v => v
      | .bool b => if b then 1 else 0
      | .str _ => 0
    concatM [packU 2 t.tag, packU 2 (tlvLength t), packU (tlvLength t) v]
  | 1 =>
    match t.val with
    | .str s =>
      match encodeBounded 128 .strict s with
      | .error e => .error e
      | .ok sb =>
        let body := if (tagKind t.tag).2 = 1 then sb ++ [0] else sb
        concatM [packU 2 t.tag, packU 2 (tlvLength t), .ok body]
    | _ => .error .attributeError
  | _ =>
    match t.val with
    | .bool true =>
      concatM [packU 2 t.tag, packU 2 (tlvLength t)]
    | _ => .ok []

/-! ### messages -/

structure Phone where
  number : List Nat
  ton : Nat
  npi : Nat
  deriving DecidableEq, Repr, Inhabited

/-- SubmitSm / DeliverSm fields (public dataclass fields + the pre-encoded text) -/
structure Sm where
  seq : Int := 0
  status : Nat := 0
  shortMessage : List Nat := []
  source : Phone := ⟨[], 0, 0⟩
  dest : Phone := ⟨[], 0, 0⟩
  serviceType : List Nat := []
  esmClass : Int := 0
  protocolId : Int := 0
  priorityFlag : Int := 0
  schedule : Time.TimeObj := .none
  validity : Time.TimeObj := .none
  registeredDelivery : Int := 1
  replaceIfPresent : Int := 0
  /-- `encoding`: None or a name -/
  encoding : Option Enc := none
  smDefaultMsgId : Int := 0
  messagePayload : List Nat := []
  optionalParams : List Tlv := []
  autoPayload : Bool := true
  errorHandling : ErrH := .mode .strict
  logId : List Nat := []
  extra : List Nat := []
  /-- `_encoded_message` (set by the segmentation code before `pdu()`) -/
  encoded : List Nat := []
  deriving DecidableEq, Repr, Inhabited

structure BindReq where
  seq : Int := 0
  status : Nat := 0
  systemId : List Nat := []
  password : List Nat := []
  systemType : List Nat := []
  interfaceVersion : Int := 0x34
  addrTon : Nat := 0
  addrNpi : Nat := 0
  addressRange : List Nat := []
  deriving DecidableEq, Repr, Inhabited

structure BindResp where
  seq : Int := 0
  status : Nat := 0
  systemId : List Nat := []
  scVersion : Option Int := none
  deriving DecidableEq, Repr, Inhabited

structure SmResp where
  seq : Int := 0
  status : Nat := 0
  messageId : List Nat := []
  logId : List Nat := []
  extra : List Nat := []
  deriving DecidableEq, Repr, Inhabited

/-- the three bind flavours -/
inductive BindKind where
  | trx | tx | rx
  deriving DecidableEq, Repr, Inhabited

inductive Msg where
  | submitSm (m : Sm)
  | deliverSm (m : Sm)
  | submitSmResp (r : SmResp)
  | deliverSmResp (r : SmResp)
  | genericNack (seq : Int) (status : Nat) (logId extra : List Nat)
  | bind (k : BindKind) (b : BindReq)
  | bindResp (k : BindKind) (b : BindResp)
  | enquireLink (seq : Int) (status : Nat)
  | enquireLinkResp (seq : Int) (status : Nat)
  | unbind (seq : Int) (status : Nat)
  | unbindResp (seq : Int) (status : Nat)
  deriving DecidableEq, Repr, Inhabited

def bindCmd : BindKind → Nat
  | .trx => 0x09 | .tx => 0x02 | .rx => 0x01

/-- command id of a message (`smpp_command`) -/
def Msg.command : Msg → Nat
  | .submitSm _ => 0x04 | .deliverSm _ => 0x05
  | .submitSmResp _ => 0x80000004 | .deliverSmResp _ => 0x80000005
  | .genericNack .. => 0x80000000
  | .bind k _ => bindCmd k | .bindResp k _ => 0x80000000 + bindCmd k
  | .enquireLink .. => 0x15 | .enquireLinkResp .. => 0x80000015
  | .unbind .. => 0x06 | .unbindResp .. => 0x80000006

def Msg.seq : Msg → Int
  | .submitSm m | .deliverSm m => m.seq
  | .submitSmResp r | .deliverSmResp r => r.seq
  | .genericNack s .. | .enquireLink s _ | .enquireLinkResp s _ | .unbind s _ | .unbindResp s _ => s
  | .bind _ b => b.seq | .bindResp _ b => b.seq

def Msg.status : Msg → Nat
  | .submitSm m | .deliverSm m => m.status
  | .submitSmResp r | .deliverSmResp r => r.status
  | .genericNack _ s .. | .enquireLink _ s | .enquireLinkResp _ s | .unbind _ s | .unbindResp _ s => s
  | .bind _ b => b.status | .bindResp _ b => b.status

/-! ### pdu() -/

/-- `pack_header(pdu_len)` -/
def packHeader (len : Nat) (m : Msg) : Except Exc (List Nat) :=
  concatM [packU 4 len, packU 4 m.command, packU 4 m.status, packU 4 m.seq]

def cstr (s : List Nat) : Except Exc (List Nat) :=
  (encodeBounded 128 .strict s).map (· ++ [0])

/-- `smpp_encode(text)`: bytes and the (possibly switched) encoding -/
def smppEncode (dflt : Enc) (m : Sm) (text : List Nat) : Except Exc (List Nat × Option Enc) :=
  if (match m.encoding with | none => true | some e => e.name.isEmpty) then
    -- `if not self.encoding`: None or the empty string
    match codecEncode dflt.codec m.errorHandling text with
    | .ok b => .ok (b, m.encoding)
    | .error .unicodeEncodeError =>
      (codecEncode .ucs2 m.errorHandling text).map fun b => (b, some encUcs2)
    | .error e => .error e
  else
    match m.encoding with
    | some enc => (codecEncode enc.codec m.errorHandling text).map fun b => (b, some enc)
    | none => .error .runtimeError

def isSarTag (t : Int) : Bool :=
  t = Gen.Tlv.sarMsgRefNum || t = Gen.Tlv.sarTotalSegments || t = Gen.Tlv.sarSegmentSeqnum

/-- `esm_class & 0b01000000` (two's complement for negative Python ints) -/
def udhi (esm : Int) : Bool := esm % 128 ≥ 64

/-- time field as bytes (ASCII of the SMPP time string) -/
def timeField (t : Time.TimeObj) : Except Exc (List Nat) :=
  match Time.toSmpp t with
  | .error e => .error e
  | .ok s => cstr s

/-- the text part of `pdu()`: (short_message octets, message_payload TLV, encoding afterwards) -/
def smTextPart (dflt : Enc) (m : Sm) : Except Exc (List Nat × List Nat × Option Enc) :=
  if m.encoded.isEmpty then
    match smppEncode dflt m (if m.shortMessage.isEmpty then m.messagePayload else m.shortMessage) with
    | .error e => .error e
    | .ok (enc, encoding) =>
      if enc.length > 254 ∧ ¬ m.shortMessage.isEmpty ∧ ¬ m.autoPayload then .error .valueError
      else if enc.length > 254 ∨ ¬ m.messagePayload.isEmpty then
        match concatM [packU 2 Gen.Tlv.messagePayload, packU 2 enc.length, .ok enc] with
        | .ok tlv => .ok ([], tlv, encoding)
        | .error e => .error e
      else .ok (enc, [], encoding)
  else .ok (m.encoded, [], m.encoding)

/-- `SmppDataCoding[self.encoding].value if self.encoding else 0` -/
def smDataCoding (encoding : Option Enc) : Except Exc Nat :=
  match encoding with
  | none => .ok 0
  | some enc => if enc.name.isEmpty then .ok 0 else
    match enc.dataCoding with
    | some v => .ok v
    | none => .error .keyError

/-- the optional parameters that go on the wire (SAR ones are suppressed under UDHI) -/
def smParams (m : Sm) : List Tlv :=
  if udhi m.esmClass then m.optionalParams.filter (fun t => ¬ isSarTag t.tag) else m.optionalParams

/-- the body expression of `pdu()`: mandatory fields in order, short_message, message_payload,
    optional parameters -/
def smLayout (m : Sm) (sm payloadTlv : List Nat) (dc : Nat) (paramBytes : List Nat) : Except Exc (List Nat) :=
  concatM [
    cstr m.serviceType,
    packU 1 m.source.ton, packU 1 m.source.npi, cstr m.source.number,
    packU 1 m.dest.ton, packU 1 m.dest.npi, cstr m.dest.number,
    packU 1 m.esmClass, packU 1 m.protocolId, packU 1 m.priorityFlag,
    timeField m.schedule, timeField m.validity,
    packU 1 m.registeredDelivery, packU 1 m.replaceIfPresent,
    packU 1 dc, packU 1 m.smDefaultMsgId, packU 1 sm.length,
    .ok sm, .ok payloadTlv, .ok paramBytes]

/-- body of `SubmitSm.pdu()` / `DeliverSm.pdu()` and the encoding the message holds afterwards
    (evaluation order of the code: text, data_coding, optional parameters, body expression) -/
def smBody (dflt : Enc) (m : Sm) : Except Exc (List Nat × Option Enc) :=
  match smTextPart dflt m with
  | .error e => .error e
  | .ok (sm, payloadTlv, encoding) =>
    match smDataCoding encoding with
    | .error e => .error e
    | .ok dc =>
      match concatM ((smParams m).map tlvBytes) with
      | .error e => .error e
      | .ok paramBytes =>
        match smLayout m sm payloadTlv dc paramBytes with
        | .error e => .error e
        | .ok b => .ok (b, encoding)

/-- `SubmitSm.pdu()` / `DeliverSm.pdu()`: header + body -/
def smPdu (dflt : Enc) (wrap : Sm → Msg) (m : Sm) : Except Exc (List Nat × Option Enc) :=
  match smBody dflt m with
  | .error e => .error e
  | .ok (b, encoding) => (packHeader (16 + b.length) (wrap m)).map fun h => (h ++ b, encoding)

/-- `pdu()` of every class: bytes, and for SubmitSm/DeliverSm the encoding held afterwards -/
def pdu (dflt : Enc) (m : Msg) : Except Exc (List Nat × Option Enc) :=
  match m with
  | .submitSm s => smPdu dflt .submitSm s
  | .deliverSm s => smPdu dflt .deliverSm s
  | .submitSmResp r | .deliverSmResp r =>
    match cstr r.messageId with
    | .error e => .error e
    | .ok b => (packHeader (16 + b.length) m).map fun h => (h ++ b, none)
  | .bind _ b =>
    match concatM [cstr b.systemId, cstr b.password, cstr b.systemType,
        packU 1 b.interfaceVersion, packU 1 b.addrTon, packU 1 b.addrNpi,
        cstr b.addressRange] with
    | .error e => .error e
    | .ok body => (packHeader (16 + body.length) m).map fun h => (h ++ body, none)
  | .bindResp _ b =>
    match concatM [cstr b.systemId,
        (match b.scVersion with
         | none => .ok []
         | some v => tlvBytes ⟨Gen.Tlv.scInterfaceVersion, .int v⟩)] with
    | .error e => .error e
    | .ok body => (packHeader (16 + body.length) m).map fun h => (h ++ body, none)
  | _ => (packHeader 16 m).map fun h => (h, none)

/-! ### `pdu()` called again on the same object

`SubmitSm.pdu()` changes the object: `encoding` becomes what `smpp_encode` chose, and `_encoded_message` keeps the
octets when they travel in short_message (it is cleared when they went to message_payload).  A message that is
serialised twice (sent again after a failed attempt, logged by a hook) takes the second path through `pdu()`. -/

/-- `_encoded_message` after a successful `pdu()` -/
def smEncodedAfter (dflt : Enc) (m : Sm) : List Nat :=
  if m.encoded.isEmpty then
    match smppEncode dflt m (if m.shortMessage.isEmpty then m.messagePayload else m.shortMessage) with
    | .ok (enc, _) => if enc.length > 254 ∨ ¬ m.messagePayload.isEmpty then [] else enc
    | .error _ => []
  else m.encoded

/-- the object after a successful `pdu()` that left the encoding `e` -/
def smAfter (dflt : Enc) (m : Sm) (e : Option Enc) : Sm :=
  { m with encoding := e, encoded := smEncodedAfter dflt m }

/-- `m.pdu(); m.pdu()` — the result of the second call -/
def pduAgain (dflt : Enc) (m : Msg) : Except Exc (List Nat × Option Enc) :=
  match pdu dflt m with
  | .error e => .error e
  | .ok (_, e) =>
    match m with
    | .submitSm s => pdu dflt (.submitSm (smAfter dflt s e))
    | .deliverSm s => pdu dflt (.deliverSm (smAfter dflt s e))
    | _ => pdu dflt m

end SmppVerif.Pdu
