/-
Model of CPython's utf_16_be_encode / utf_16_be_decode as aiosmpplib's UCS2Codec calls them
(decode runs with final=False: an incomplete trailing unit or a trailing high surrogate is
left unconsumed without error).  Checked against the real codec by the correspondence.
-/
import SmppVerif.Model.Base

namespace SmppVerif.Utf16
open SmppVerif

def isHigh (u : Nat) : Bool := 0xD800 ≤ u && u ≤ 0xDBFF
def isLow (u : Nat) : Bool := 0xDC00 ≤ u && u ≤ 0xDFFF
def isSurrogate (u : Nat) : Bool := 0xD800 ≤ u && u ≤ 0xDFFF

/-- UTF-16 code units of one code point (strict: lone surrogates are not encodable) -/
def encUnits (mode : Mode) (c : Nat) : Except Exc (List Nat) :=
  if c < 0x10000 then
    if isSurrogate c then
      match mode with
      | .strict => .error .unicodeEncodeError
      | .replace => .ok [0x3F]
      | .ignore => .ok []
    else .ok [c]
  else
    let v := c - 0x10000
    .ok [0xD800 + v / 0x400, 0xDC00 + v % 0x400]

def encodeUnits (mode : Mode) : List Nat → Except Exc (List Nat)
  | [] => .ok []
  | c :: cs =>
    match encUnits mode c with
    | .error e => .error e
    | .ok us =>
      match encodeUnits mode cs with
      | .error e => .error e
      | .ok rest => .ok (us ++ rest)

/-- big-endian octets of code units -/
def unitsToBytes (us : List Nat) : List Nat := us.flatMap fun u => [u / 256 % 256, u % 256]

/-- `utf_16_be_encode(text, errors)[0]` -/
def encode (mode : Mode) (text : List Nat) : Except Exc (List Nat) :=
  (encodeUnits mode text).map unitsToBytes

/-- `utf_16_be_decode(bytes, errors)[0]` (final=False) -/
def decode (mode : Mode) : List Nat → Except Exc (List Nat)
  | [] => .ok []
  | [_] => .ok []
  | a :: b :: rest =>
    let u := a * 256 + b
    if isHigh u then
      match rest with
      | c :: d :: rest' =>
        let v := c * 256 + d
        if isLow v then
          (decode mode rest').map ((0x10000 + (u - 0xD800) * 0x400 + (v - 0xDC00)) :: ·)
        else
          match mode with
          | .strict => .error .unicodeDecodeError
          | .replace => (decode mode (c :: d :: rest')).map (0xFFFD :: ·)
          | .ignore => decode mode (c :: d :: rest')
      | _ => .ok []
    else if isLow u then
      match mode with
      | .strict => .error .unicodeDecodeError
      | .replace => (decode mode rest).map (0xFFFD :: ·)
      | .ignore => decode mode rest
    else (decode mode rest).map (u :: ·)
termination_by l => l.length

end SmppVerif.Utf16
