/-
Model of aiosmpplib/codec.py: GSM7BitCodec (encode, decode, to_gsm_codes, _decode_char,
is_gsm_text).  Text = List Nat of code points, bytes = List Nat.
All tables come from the generated file, i.e. from the running module.
-/
import SmppVerif.Model.Base
import SmppVerif.Gen.GsmTables

namespace SmppVerif.Gsm
open SmppVerif SmppVerif.Gen.Gsm

/-- One character of `to_gsm_codes`: the septets it contributes, or the strict-mode error. -/
def encChar (mode : Mode) (c : Nat) : Except Exc (List Nat) :=
  match alookup basicEncode c with
  | some k => .ok [k]
  | none =>
    match alookup extEncode c with
    | some k => .ok [escape, k]
    | none =>
      match mode with
      | .strict => .error .unicodeEncodeError
      | .replace => .ok [(alookup replaceEncode c).getD questionMark]
      | .ignore => .ok []

/-- `to_gsm_codes(text, errors)`. -/
def toGsmCodes (mode : Mode) : List Nat → Except Exc (List Nat)
  | [] => .ok []
  | c :: cs =>
    match encChar mode c with
    | .error e => .error e
    | .ok ks =>
      match toGsmCodes mode cs with
      | .error e => .error e
      | .ok rest => .ok (ks ++ rest)

/-- `struct.pack('!' + 'B'*n, *codes)`: every code must fit an unsigned octet. -/
def packOctets (codes : List Nat) : Except Exc (List Nat) :=
  if codes.all (· < 256) then .ok codes else .error .structError

/-- `GSM7BitCodec.encode(text, errors)[0]`. -/
def encode (mode : Mode) (text : List Nat) : Except Exc (List Nat) :=
  match toGsmCodes mode text with
  | .error e => .error e
  | .ok codes => packOctets codes

/-- `_decode_char(code, escaped)`: (character or none for the empty string, new flag). -/
def decodeChar (code : Nat) (escaped : Bool) : Option Nat × Bool :=
  if code = escape then (none, true)
  else if escaped then (some ((alookup extDecode code).getD noBreakSpace), false)
  else (alookup basicDecode code, false)

/-- The loop of `GSM7BitCodec.decode` with the end-of-input case. -/
def decodeLoop (mode : Mode) : Bool → List Nat → Except Exc (List Nat)
  | escaped, [] =>
    if escaped then
      match mode with
      | .strict => .error .unicodeDecodeError
      | .replace => .ok [noBreakSpace]
      | .ignore => .ok []
    else .ok []
  | escaped, b :: bs =>
    let (ch, esc') := decodeChar b escaped
    if esc' then decodeLoop mode true bs
    else
      match ch with
      | some c =>
        match decodeLoop mode false bs with
        | .error e => .error e
        | .ok rest => .ok (c :: rest)
      | none =>
        match mode with
        | .strict => .error .unicodeDecodeError
        | .replace =>
          match decodeLoop mode false bs with
          | .error e => .error e
          | .ok rest => .ok (questionMark :: rest)
        | .ignore => decodeLoop mode false bs

/-- `GSM7BitCodec.decode(bytes, errors)[0]`. -/
def decode (mode : Mode) (bytes : List Nat) : Except Exc (List Nat) :=
  decodeLoop mode false bytes

/-- membership in the alphabet as `is_gsm_text` tests it, per character -/
def inAlphabet (c : Nat) : Bool :=
  (alookup basicEncode c).isSome || (alookup extEncode c).isSome

/-- number of septets a text over the alphabet occupies (1 per basic, 2 per extension char) -/
def septetLength (text : List Nat) : Nat :=
  (text.filter fun c => (alookup basicEncode c).isSome).length
    + 2 * (text.filter fun c => !(alookup basicEncode c).isSome).length

/-- `GSM7BitCodec.is_gsm_text`. -/
def isGsmText (text : List Nat) : Bool := text.all inAlphabet

end SmppVerif.Gsm
