/-
Tier 3: wire discipline of a session (C15) as a monitor over the events the environment can
observe — sending-hook calls, writer.write calls, PDUs fed by the peer, received-hook calls and
returns, successful binds, new connections — plus a small transition system of concurrent
`_send_data` invocations whose every interleaving the monitor accepts.
-/
import SmppVerif.Model.Base
import SmppVerif.Gen.Enums

namespace SmppVerif.Discipline
open SmppVerif

abbrev Bytes := List Nat

def be4 (b : Bytes) (o : Nat) : Nat :=
  b.getD o 0 * 16777216 + b.getD (o + 1) 0 * 65536 + b.getD (o + 2) 0 * 256 + b.getD (o + 3) 0

/-- a whole PDU: at least a header, and command_length says how long it is -/
def wholePdu (b : Bytes) : Bool := 16 ≤ b.length && be4 b 0 = b.length

def cmdOf (b : Bytes) : Nat := be4 b 4
def seqOf (b : Bytes) : Nat := be4 b 12

def isResponseCmd (c : Nat) : Bool := 0x80000000 ≤ c
def isBindCmd (c : Nat) : Bool := c = 1 || c = 2 || c = 9
def submitSm : Nat := 4
def deliverSm : Nat := 5
def genericNack : Nat := 0x80000000

inductive Ev where
  | connect (c : Nat)
  | announce (b : Bytes)            -- sending hook called with these bytes
  | write (c : Nat) (b : Bytes)     -- one writer.write call
  | bound (c : Nat)                 -- bind answered with ESME_ROK / ESME_RALYBND
  | fed (c : Nat) (b : Bytes)       -- the peer delivered a whole PDU with a recognised header
  | recv (b : Bytes)                -- received hook called with this PDU
  | recvDone (b : Bytes)            -- received hook returned (header of the PDU)
  deriving DecidableEq, Repr, Inhabited

structure Conn where
  id : Nat
  writes : Nat := 0
  bound : Bool := false
  /-- requests read on this connection and not yet answered: (PDU, received hook returned) -/
  open_ : List (Bytes × Bool) := []
  deriving DecidableEq, Repr, Inhabited

structure Mon where
  /-- bind command of the configured mode (1 receiver, 2 transmitter, 9 transceiver) -/
  bindCmd : Nat
  announced : List Bytes := []
  fed : List Bytes := []
  conns : List Conn := []
  deriving DecidableEq, Repr, Inhabited

def removeFirst (b : Bytes) : List Bytes → Option (List Bytes)
  | [] => none
  | x :: xs => if x = b then some xs else (removeFirst b xs).map (x :: ·)

def updConn (cs : List Conn) (c : Conn) : List Conn := cs.map fun x => if x.id = c.id then c else x

/-- one event; `none` = the discipline is violated -/
def step (m : Mon) : Ev → Option Mon
  | .connect c => some { m with conns := { id := c } :: m.conns.filter (·.id ≠ c) }
  | .announce b => some { m with announced := m.announced ++ [b] }
  | .bound c =>
    match m.conns.find? (·.id = c) with
    | some k => some { m with conns := updConn m.conns { k with bound := true } }
    | none => none
  | .fed c b =>
    match m.conns.find? (·.id = c) with
    | some k =>
      let k' := if isResponseCmd (cmdOf b) then k else { k with open_ := k.open_ ++ [(b, false)] }
      some { m with fed := m.fed ++ [b], conns := updConn m.conns k' }
    | none => none
  | .recv b =>
    -- handed to the hook at most once: it must be a PDU that was fed and not yet handed over
    (removeFirst b m.fed).map fun f => { m with fed := f }
  | .recvDone h =>
    some { m with conns := m.conns.map fun k =>
      { k with open_ := k.open_.map fun p => if p.1.take 16 = h then (p.1, true) else p } }
  | .write c b =>
    match m.conns.find? (·.id = c), removeFirst b m.announced with
    | some k, some ann =>
      let cmd := cmdOf b
      if ¬ wholePdu b then none
      else if k.writes = 0 ∧ cmd ≠ m.bindCmd then none             -- the bind request comes first
      else if k.writes > 0 ∧ ¬ k.bound then none                    -- nothing else before the bind succeeded
      else if m.bindCmd = 1 ∧ cmd = submitSm then none              -- a receiver never submits
      else if isResponseCmd cmd then
        -- echoes the sequence number of a request read on this connection; deliver_sm only after its hook returned
        match k.open_.find? (fun p => seqOf p.1 = seqOf b ∧ (cmd = genericNack ∨ cmd = cmdOf p.1 + 0x80000000)) with
        | some p =>
          if cmdOf p.1 = deliverSm ∧ cmd ≠ genericNack ∧ ¬ p.2 then none
          else some { m with announced := ann,
                             conns := updConn m.conns { k with writes := k.writes + 1, open_ := k.open_.erase p } }
        | none => none
      else some { m with announced := ann, conns := updConn m.conns { k with writes := k.writes + 1 } }
    | _, _ => none

def run (m : Mon) : List Ev → Option Mon
  | [] => some m
  | e :: es => match step m e with | some m' => run m' es | none => none

/-- index of the first event the monitor rejects -/
def firstReject (m : Mon) : Nat → List Ev → Option Nat
  | _, [] => none
  | i, e :: es => match step m e with | some m' => firstReject m' (i + 1) es | none => some i

/-! ### an independent framer -/

/-- split a byte stream by the command_length fields -/
def frame : Nat → Bytes → Option (List Bytes)
  | 0, b => if b.isEmpty then some [] else none
  | fuel + 1, b =>
    if b.isEmpty then some []
    else if 16 ≤ be4 b 0 ∧ be4 b 0 ≤ b.length then (frame fuel (b.drop (be4 b 0))).map (b.take (be4 b 0) :: ·)
    else none

/-! ### concurrent `_send_data` invocations -/

/-- invocation `i` takes its next turn: first the sending hook is called with its PDU (and the
    hook may suspend), then — hook returned — the PDU is written in one call -/
def senderEvents (c : Nat) (pdus : List Bytes) : List Nat → List Nat → List Ev
  | _, [] => []
  | started, i :: rest =>
    match pdus[i]? with
    | none => senderEvents c pdus started rest
    | some b =>
      if started.count i = 0 then .announce b :: senderEvents c pdus (i :: started) rest
      else if started.count i = 1 then .write c b :: senderEvents c pdus (i :: started) rest
      else senderEvents c pdus started rest

end SmppVerif.Discipline
