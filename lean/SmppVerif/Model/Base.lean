/-
Shared conventions of the executable models (DESIGN.md §5).
No imports beyond core Lean: the driver must run under `lake env lean --run`.
-/
namespace SmppVerif

/-- Exception classes the models can raise (class only; message text is never modelled). -/
inductive Exc where
  | valueError | unicodeEncodeError | unicodeDecodeError | structError | keyError
  | indexError | lookupError | typeError | attributeError | unboundLocalError
  | zeroDivisionError | assertionError | osError | connectionError | timeoutError
  | incompleteRead | cancelled | smppError | runtimeError | overflowError
  deriving DecidableEq, Repr, Inhabited

def Exc.name : Exc → String
  | .valueError => "ValueError" | .unicodeEncodeError => "UnicodeEncodeError"
  | .unicodeDecodeError => "UnicodeDecodeError" | .structError => "StructError"
  | .keyError => "KeyError" | .indexError => "IndexError" | .lookupError => "LookupError"
  | .typeError => "TypeError" | .attributeError => "AttributeError"
  | .unboundLocalError => "UnboundLocalError" | .zeroDivisionError => "ZeroDivisionError"
  | .assertionError => "AssertionError" | .osError => "OSError"
  | .connectionError => "ConnectionError" | .timeoutError => "TimeoutError"
  | .incompleteRead => "IncompleteReadError" | .cancelled => "CancelledError"
  | .smppError => "SmppError" | .runtimeError => "RuntimeError" | .overflowError => "OverflowError"

instance {ε α : Type} [DecidableEq ε] [DecidableEq α] : DecidableEq (Except ε α)
  | .ok a, .ok b => if h : a = b then isTrue (by rw [h]) else isFalse (by intro h'; cases h'; exact h rfl)
  | .error a, .error b => if h : a = b then isTrue (by rw [h]) else isFalse (by intro h'; cases h'; exact h rfl)
  | .ok _, .error _ => isFalse (by intro h; cases h)
  | .error _, .ok _ => isFalse (by intro h; cases h)

/-- Python codec error handling modes accepted by the in-built codecs. -/
inductive Mode where
  | strict | ignore | replace
  deriving DecidableEq, Repr, Inhabited

/-- Association-list lookup with Python `dict.get` semantics on a list that holds each
    key at most once (first match). -/
def alookup (tbl : List (Nat × Nat)) (k : Nat) : Option Nat :=
  match tbl with
  | [] => none
  | (a, b) :: rest => if a = k then some b else alookup rest k

theorem alookup_mem {tbl : List (Nat × Nat)} {k v : Nat} (h : alookup tbl k = some v) :
    (k, v) ∈ tbl := by
  induction tbl with
  | nil => simp [alookup] at h
  | cons p rest ih =>
    obtain ⟨a, b⟩ := p
    unfold alookup at h
    split at h
    · rename_i hk; cases h; subst hk; simp
    · exact List.mem_cons_of_mem _ (ih h)

/-- every element below a bound -/
def AllLt (n : Nat) (l : List Nat) : Prop := ∀ x ∈ l, x < n

instance (n : Nat) (l : List Nat) : Decidable (AllLt n l) := by unfold AllLt; infer_instance

end SmppVerif
