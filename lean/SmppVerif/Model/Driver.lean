/-
Line-protocol driver (DESIGN.md Appendix B): one request per line on stdin, one response per
line on stdout.  Rejects what it cannot parse with `bad-op`; never defaults.  `#` lines are echoed.
-/
import SmppVerif.Model.Wire
import SmppVerif.Model.Gsm
import SmppVerif.Model.Packed

namespace SmppVerif.Driver
open SmppVerif SmppVerif.Wire

def step (line : String) : String :=
  let ws := (line.trimAscii.toString.splitOn " ").filter (· ≠ "")
  match ws with
  | ["gsm.enc", m, t] =>
    match parseMode m, parseNats t with
    | some m, some t => resHex (Gsm.encode m t)
    | _, _ => "bad-op"
  | ["gsm.dec", m, b] =>
    match parseMode m, parseHex b with
    | some m, some b => resNats (Gsm.decode m b)
    | _, _ => "bad-op"
  | ["gsm.is", t] =>
    match parseNats t with
    | some t => if Gsm.isGsmText t then "ok 1" else "ok 0"
    | _ => "bad-op"
  | ["pk.enc", m, t] =>
    match parseMode m, parseNats t with
    | some m, some t => resHex (Packed.encode m t)
    | _, _ => "bad-op"
  | ["pk.dec", m, b] =>
    match parseMode m, parseHex b with
    | some m, some b => resNats (Packed.decode m b)
    | _, _ => "bad-op"
  | ["pk.pack", c] =>
    match parseNats c with
    | some c => resHex (Packed.packCodes c)
    | _ => "bad-op"
  | ["pk.unpack", b] =>
    match parseHex b with
    | some b => "ok " ++ showNats (Packed.unpack b)
    | _ => "bad-op"
  | _ => "bad-op"

partial def loop (h : IO.FS.Stream) (out : IO.FS.Stream) : IO Unit := do
  let line ← h.getLine
  if line.isEmpty then return ()
  if line.startsWith "#" then out.putStr line
  else out.putStrLn (step line)
  loop h out

def main : IO Unit := do
  let stdin ← IO.getStdin
  let stdout ← IO.getStdout
  loop stdin stdout

end SmppVerif.Driver
