/-
Line-protocol driver (DESIGN.md Appendix B): one request per line on stdin, one response per
line on stdout.  Rejects what it cannot parse with `bad-op`; never defaults.  `#` lines are echoed.
-/
import SmppVerif.Model.Wire
import SmppVerif.Model.Gsm
import SmppVerif.Model.Packed
import SmppVerif.Model.Time
import SmppVerif.Model.Receipt
import SmppVerif.Model.Split

namespace SmppVerif.Driver
open SmppVerif SmppVerif.Wire

def showTimeObj : Time.TimeObj → String
  | .none => "ok none"
  | .abs d => s!"ok abs {d.year} {d.month} {d.day} {d.hour} {d.minute} {d.second} {d.micro} " ++
      (match d.offset with | none => "-" | some o => toString o)
  | .rel t => s!"ok rel {t.days} {t.seconds} {t.micros}"

def parseTimeObj : List String → Option Time.TimeObj
  | ["none"] => some .none
  | ["abs", y, mo, d, h, mi, s, us, off] =>
    match y.toNat?, mo.toNat?, d.toNat?, h.toNat?, mi.toNat?, s.toNat?, us.toNat? with
    | some y, some mo, some d, some h, some mi, some s, some us =>
      if off = "-" then some (.abs ⟨y, mo, d, h, mi, s, us, none⟩)
      else match off.toInt? with
        | some o => some (.abs ⟨y, mo, d, h, mi, s, us, some o⟩)
        | none => none
    | _, _, _, _, _, _, _ => none
  | ["rel", d, s, us] =>
    match d.toInt?, s.toNat?, us.toNat? with
    | some d, some s, some us => some (.rel ⟨d, s, us⟩)
    | _, _, _ => none
  | _ => none

def showRVal : Receipt.RVal → String
  | .int n => s!"i{n}"
  | .date y mo d h mi => s!"d{y}.{mo}.{d}.{h}.{mi}"
  | .str s => "s" ++ showNats s

def showRDict (d : Receipt.RDict) : String :=
  "ok" ++ String.join (d.map fun (k, v) => " " ++ showNats k ++ "=" ++ showRVal v)

def parseDate (s : String) : Option (Option (Nat × Nat × Nat × Nat × Nat)) :=
  if s = "~" then some none else
  match (s.splitOn ".").mapM (·.toNat?) with
  | some [y, mo, d, h, mi] => some (some (y, mo, d, h, mi))
  | _ => none

def parseEnc (s : String) : Option Split.Enc :=
  match s with
  | "auto" => some .auto | "gsm" => some .gsm | "other" => some .other | _ => none

def resParts : Except Exc (List (List Nat)) → String
  | .ok ps => "ok " ++ "|".intercalate (ps.map showHex)
  | .error e => showExc e

def step (line : String) : String :=
  let ws := (line.trimAscii.toString.splitOn " ").filter (· ≠ "")
  match ws with
  | ["gsm.enc", m, t] =>
    match parseMode m, parseNats t with
    | some m, some t => resHex (Gsm.encode m t)
    | _, _ => "bad-op"
  | ["gsm.dec", m, b] =>
    match parseMode m, parseHex b with
    | some m, some b => resNats (Gsm.decode m b)
    | _, _ => "bad-op"
  | ["gsm.is", t] =>
    match parseNats t with
    | some t => if Gsm.isGsmText t then "ok 1" else "ok 0"
    | _ => "bad-op"
  | ["pk.enc", m, t] =>
    match parseMode m, parseNats t with
    | some m, some t => resHex (Packed.encode m t)
    | _, _ => "bad-op"
  | ["pk.dec", m, b] =>
    match parseMode m, parseHex b with
    | some m, some b => resNats (Packed.decode m b)
    | _, _ => "bad-op"
  | ["pk.pack", c] =>
    match parseNats c with
    | some c => resHex (Packed.packCodes c)
    | _ => "bad-op"
  | ["pk.unpack", b] =>
    match parseHex b with
    | some b => "ok " ++ showNats (Packed.unpack b)
    | _ => "bad-op"
  | "time.to" :: rest =>
    match parseTimeObj rest with
    | some t => resNats (Time.toSmpp t)
    | none => "bad-op"
  | ["time.from", t] =>
    match parseNats t with
    | some t => (match Time.fromSmpp t with | .ok r => showTimeObj r | .error e => showExc e)
    | none => "bad-op"
  | ["rcpt.parse", esm, tlv, t] =>
    match esm.toNat?, (if tlv = "~" then some none else (parseNats tlv).map some), parseNats t with
    | some esm, some tlv, some t =>
      (match Receipt.parse esm t tlv with | .ok d => showRDict d | .error e => showExc e)
    | _, _, _ => "bad-op"
  | ["rcpt.build", id, sub, dlvrd, sd, dd, stat, err, text] =>
    match parseNats id, sub.toInt?, dlvrd.toInt?, parseDate sd, parseDate dd, parseNats stat, err.toInt?,
          parseNats text with
    | some id, some sub, some dlvrd, some sd, some dd, some stat, some err, some text =>
      "ok " ++ showNats (Receipt.build ⟨id, sub, dlvrd, sd, dd, stat, err, text⟩)
    | _, _, _, _, _, _, _, _ => "bad-op"
  | ["u16.enc", m, t] =>
    match parseMode m, parseNats t with
    | some m, some t => resHex (Utf16.encode m t)
    | _, _ => "bad-op"
  | ["u16.dec", m, b] =>
    match parseMode m, parseHex b with
    | some m, some b => resNats (Utf16.decode m b)
    | _, _ => "bad-op"
  | ["split.sar", e, t] =>
    match parseEnc e, parseNats t with
    | some e, some t => resParts (Split.splitSms e t)
    | _, _ => "bad-op"
  | ["split.udh", e, r, t] =>
    match parseEnc e, r.toNat?, parseNats t with
    | some e, some r, some t => resParts (Split.splitSmsUdh e r t)
    | _, _, _ => "bad-op"
  | _ => "bad-op"

partial def loop (h : IO.FS.Stream) (out : IO.FS.Stream) : IO Unit := do
  let line ← h.getLine
  if line.isEmpty then return ()
  if line.startsWith "#" then out.putStr line
  else out.putStrLn (step line)
  loop h out

def main : IO Unit := do
  let stdin ← IO.getStdin
  let stdout ← IO.getStdout
  loop stdin stdout

end SmppVerif.Driver
