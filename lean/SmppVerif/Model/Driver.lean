/-
Line-protocol driver (DESIGN.md Appendix B): one request per line on stdin, one response per
line on stdout.  Rejects what it cannot parse with `bad-op`; never defaults.  `#` lines are echoed.
-/
import SmppVerif.Model.Wire
import SmppVerif.Model.Gsm
import SmppVerif.Model.Packed
import SmppVerif.Model.Time
import SmppVerif.Model.Receipt
import SmppVerif.Model.Split
import SmppVerif.Model.Policy
import SmppVerif.Model.Gate
import SmppVerif.Model.DriverCorr
import SmppVerif.Model.DriverPdu
import SmppVerif.Model.DriverJson
import SmppVerif.Model.DriverPersist
import SmppVerif.Model.DriverSession

namespace SmppVerif.Driver
open SmppVerif SmppVerif.Wire

def showTimeObj : Time.TimeObj → String
  | .none => "ok none"
  | .abs d => s!"ok abs {d.year} {d.month} {d.day} {d.hour} {d.minute} {d.second} {d.micro} " ++
      (match d.offset with | none => "-" | some o => toString o)
  | .rel t => s!"ok rel {t.days} {t.seconds} {t.micros}"

def parseTimeObj : List String → Option Time.TimeObj
  | ["none"] => some .none
  | ["abs", y, mo, d, h, mi, s, us, off] =>
    match y.toNat?, mo.toNat?, d.toNat?, h.toNat?, mi.toNat?, s.toNat?, us.toNat? with
    | some y, some mo, some d, some h, some mi, some s, some us =>
      if off = "-" then some (.abs ⟨y, mo, d, h, mi, s, us, none⟩)
      else match off.toInt? with
        | some o => some (.abs ⟨y, mo, d, h, mi, s, us, some o⟩)
        | none => none
    | _, _, _, _, _, _, _ => none
  | ["rel", d, s, us] =>
    match d.toInt?, s.toNat?, us.toNat? with
    | some d, some s, some us => some (.rel ⟨d, s, us⟩)
    | _, _, _ => none
  | _ => none

def showRVal : Receipt.RVal → String
  | .int n => s!"i{n}"
  | .date y mo d h mi => s!"d{y}.{mo}.{d}.{h}.{mi}"
  | .str s => "s" ++ showNats s

def showRDict (d : Receipt.RDict) : String :=
  "ok" ++ String.join (d.map fun (k, v) => " " ++ showNats k ++ "=" ++ showRVal v)

def parseDate (s : String) : Option (Option (Nat × Nat × Nat × Nat × Nat)) :=
  if s = "~" then some none else
  match (s.splitOn ".").mapM (·.toNat?) with
  | some [y, mo, d, h, mi] => some (some (y, mo, d, h, mi))
  | _ => none

def parseEnc (s : String) : Option Split.Enc :=
  match s with
  | "auto" => some .auto | "gsm" => some .gsm | "other" => some .other | _ => none

def resParts : Except Exc (List (List Nat)) → String
  | .ok ps => "ok " ++ "|".intercalate (ps.map showHex)
  | .error e => showExc e

def parseRat (s : String) : Option Rat :=
  match s.splitOn "/" with
  | [n] => n.toInt?.map fun i => (i : Rat)
  | [n, d] =>
    match n.toInt?, d.toNat? with
    | some n, some d => if d = 0 then none else some ((n : Rat) / (d : Rat))
    | _, _ => none
  | _ => none

def showRat (r : Rat) : String := s!"{r.num}/{r.den}"

def parseGateEv (w : String) : Option Gate.Ev :=
  if w = "ft" then some (.feed true) else if w = "fn" then some (.feed false) else if w = "w" then some .write
  else if w.front = 'c' then
    match ((w.drop 1).toString).splitOn ":" with
    | [t, "1"] => (parseRat t).map (Gate.Ev.consult · true)
    | [t, "0"] => (parseRat t).map (Gate.Ev.consult · false)
    | _ => none
  else none

def parseGateInp (w : String) : Option Gate.Inp :=
  if w = "rt" then some (.resp true) else if w = "rn" then some (.resp false)
  else if w.front = 't' then (parseRat (w.drop 1).toString).map .turn
  else none

def showGateEv : Gate.Ev → String
  | .feed true => "ft"
  | .feed false => "fn"
  | .write => "w"
  | .consult t r => s!"c{showRat t}:{if r then 1 else 0}"

/-- back-off script: 'w' = wait (prints the delay), 'r' = reset -/
def runBackoff (b : Policy.Backoff) : List Char → List String → Option (List String)
  | [], acc => some acc.reverse
  | 'w' :: cs, acc => let (b', d) := b.wait; runBackoff b' cs (toString d :: acc)
  | 'r' :: cs, acc => runBackoff b.reset cs acc
  | _, _ => none

/-- throttle script: a<time> = allow_request at time, t = throttled(), n = not_throttled() -/
def runThrottle (t : Policy.Throttle) : List String → List String → Option (List String)
  | [], acc => some acc.reverse
  | op :: ops, acc =>
    if op = "t" then runThrottle t.throttled ops acc
    else if op = "n" then runThrottle t.notThrottled ops acc
    else if op.startsWith "a" then
      match parseRat (op.drop 1).toString with
      | some now => let (t', ok) := t.allow now; runThrottle t' ops ((if ok then "1" else "0") :: acc)
      | none => none
    else none

def step (line : String) : String :=
  let ws := (line.trimAscii.toString.splitOn " ").filter (· ≠ "")
  match ws with
  | ["gsm.enc", m, t] =>
    match parseMode m, parseNats t with
    | some m, some t => resHex (Gsm.encode m t)
    | _, _ => "bad-op"
  | ["gsm.dec", m, b] =>
    match parseMode m, parseHex b with
    | some m, some b => resNats (Gsm.decode m b)
    | _, _ => "bad-op"
  | ["gsm.is", t] =>
    match parseNats t with
    | some t => if Gsm.isGsmText t then "ok 1" else "ok 0"
    | _ => "bad-op"
  | ["pk.enc", m, t] =>
    match parseMode m, parseNats t with
    | some m, some t => resHex (Packed.encode m t)
    | _, _ => "bad-op"
  | ["pk.dec", m, b] =>
    match parseMode m, parseHex b with
    | some m, some b => resNats (Packed.decode m b)
    | _, _ => "bad-op"
  | ["pk.pack", c] =>
    match parseNats c with
    | some c => resHex (Packed.packCodes c)
    | _ => "bad-op"
  | ["pk.unpack", b] =>
    match parseHex b with
    | some b => "ok " ++ showNats (Packed.unpack b)
    | _ => "bad-op"
  | "time.to" :: rest =>
    match parseTimeObj rest with
    | some t => resNats (Time.toSmpp t)
    | none => "bad-op"
  | ["time.from", t] =>
    match parseNats t with
    | some t => (match Time.fromSmpp t with | .ok r => showTimeObj r | .error e => showExc e)
    | none => "bad-op"
  | ["rcpt.parse", esm, tlv, t] =>
    match esm.toNat?, (if tlv = "~" then some none else (parseNats tlv).map some), parseNats t with
    | some esm, some tlv, some t =>
      (match Receipt.parse esm t tlv with | .ok d => showRDict d | .error e => showExc e)
    | _, _, _ => "bad-op"
  | ["rcpt.build", id, sub, dlvrd, sd, dd, stat, err, text] =>
    match parseNats id, sub.toInt?, dlvrd.toInt?, parseDate sd, parseDate dd, parseNats stat, err.toInt?,
          parseNats text with
    | some id, some sub, some dlvrd, some sd, some dd, some stat, some err, some text =>
      "ok " ++ showNats (Receipt.build ⟨id, sub, dlvrd, sd, dd, stat, err, text⟩)
    | _, _, _, _, _, _, _, _ => "bad-op"
  | ["u16.enc", m, t] =>
    match parseMode m, parseNats t with
    | some m, some t => resHex (Utf16.encode m t)
    | _, _ => "bad-op"
  | ["u16.dec", m, b] =>
    match parseMode m, parseHex b with
    | some m, some b => resNats (Utf16.decode m b)
    | _, _ => "bad-op"
  | ["split.sar", e, t] =>
    match parseEnc e, parseNats t with
    | some e, some t => resParts (Split.splitSms e t)
    | _, _ => "bad-op"
  | ["split.udh", e, r, t] =>
    match parseEnc e, r.toNat?, parseNats t with
    | some e, some r, some t => resParts (Split.splitSmsUdh e r t)
    | _, _, _ => "bad-op"
  | ["seq.take", mn, mx, cur, k] =>
    match mn.toNat?, mx.toNat?, cur.toNat?, k.toNat? with
    | some mn, some mx, some cur, some k => "ok " ++ showNats (Policy.SeqGen.take k ⟨mn, mx, cur⟩)
    | _, _, _, _ => "bad-op"
  | ["seq.valid", n] =>
    match n.toInt? with
    | some n => (match Policy.assertValidSequence n with | .ok _ => "ok" | .error e => showExc e)
    | none => "bad-op"
  | ["bo.run", d, m, ops] =>
    match d.toNat?, m.toNat? with
    | some d, some m =>
      (match runBackoff (Policy.Backoff.init d m) ops.toList [] with
       | some out => "ok " ++ " ".intercalate out
       | none => "bad-op")
    | _, _ => "bad-op"
  | "tb.run" :: rate :: t0 :: times =>
    match parseRat rate, parseRat t0, times.mapM parseRat with
    | some r, some t0, some ts =>
      let rec go (b : Policy.Bucket) : List Rat → List String → List String
        | [], acc => acc.reverse
        | t :: ts, acc => let (b', p) := b.attempt t; go b' ts ((if p then "1" else "0") :: acc)
      "ok " ++ " ".intercalate (go (Policy.Bucket.init r t0) ts [])
    | _, _, _ => "bad-op"
  | "gate.mon" :: period :: sample :: deny :: t0 :: evs =>
    -- the observed gate events of a session: ft / fn feeds, c<time>:<0|1> consultations, w writes
    match parseRat period, parseRat sample, parseRat deny, parseRat t0, evs.mapM parseGateEv with
    | some p, some s, some d, some t0, some evs =>
      (match Gate.firstReject ⟨⟨p, s, d, 0, 0, t0⟩, false⟩ 0 evs with
       | none => "accept"
       | some i => s!"reject {i}")
    | _, _, _, _, _ => "bad-op"
  | "gate.sender" :: period :: sample :: deny :: t0 :: n :: inps =>
    -- the Sender at the gate under a schedule: rt / rn responses, t<time> turns
    match parseRat period, parseRat sample, parseRat deny, parseRat t0, n.toNat?, inps.mapM parseGateInp with
    | some p, some s, some d, some t0, some n, some inps =>
      "ok " ++ " ".intercalate ((Gate.sender ⟨p, s, d, 0, 0, t0⟩ n inps).map showGateEv)
    | _, _, _, _, _, _ => "bad-op"
  | "th.run" :: period :: sample :: deny :: t0 :: ops =>
    match parseRat period, parseRat sample, parseRat deny, parseRat t0 with
    | some p, some s, some d, some t0 =>
      (match runThrottle ⟨p, s, d, 0, 0, t0⟩ ops [] with
       | some out => "ok " ++ " ".intercalate out
       | none => "bad-op")
    | _, _, _, _ => "bad-op"
  | _ => "bad-op"

/-- state carried across lines (tier 2 / tier 3 models) -/
structure DState where
  corr : Corr.CState := { ttlResp := 0, ttlDeliv := 0 }

def stepS (st : DState) (line : String) : DState × String :=
  let ws := (line.trimAscii.toString.splitOn " ").filter (· ≠ "")
  match DriverCorr.step st.corr ws with
  | some (c, out) => ({ st with corr := c }, out)
  | none =>
    match DriverPdu.step ws with
    | some out => (st, out)
    | none =>
      match DriverJson.step ws with
      | some out => (st, out)
      | none =>
        match DriverPersist.step ws with
        | some out => (st, out)
        | none =>
          match DriverSession.step ws with
          | some out => (st, out)
          | none => (st, step line)

partial def loop (h : IO.FS.Stream) (out : IO.FS.Stream) (st : DState) : IO Unit := do
  let line ← h.getLine
  if line.isEmpty then return ()
  if line.startsWith "#" then
    out.putStr line
    loop h out st
  else
    let (st', o) := stepS st line
    out.putStrLn o
    loop h out st'

def main : IO Unit := do
  let stdin ← IO.getStdin
  let stdout ← IO.getStdout
  loop stdin stdout {}

end SmppVerif.Driver
