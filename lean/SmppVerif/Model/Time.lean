/-
Model of aiosmpplib/protocol.py: SubmitSm.datetime_to_smpp_time / smpp_time_to_datetime and
aiosmpplib/utils.py: FixedOffset.from_timezone.  Strings are lists of code points.
A datetime is the record of its fields; its tzinfo is reduced to the UTC offset in seconds
(`none` = naive).  A timedelta is (days, seconds, microseconds) normalised as Python does.
-/
import SmppVerif.Model.Base

namespace SmppVerif.Time
open SmppVerif

structure DateTime where
  year : Nat
  month : Nat
  day : Nat
  hour : Nat
  minute : Nat
  second : Nat
  micro : Nat
  /-- utcoffset in seconds; `none` for a naive datetime -/
  offset : Option Int
  deriving DecidableEq, Repr

structure TimeDelta where
  days : Int
  seconds : Nat
  micros : Nat
  deriving DecidableEq, Repr

inductive TimeObj where
  | none
  | abs (d : DateTime)
  | rel (t : TimeDelta)
  deriving DecidableEq, Repr

/-! ### Python string/number primitives -/

/-- decimal digits of a natural number, most significant first (`str(n)`) -/
def natDigits (n : Nat) : List Nat := (Nat.toDigits 10 n).map Char.toNat

/-- `'{:02d}'.format(n)` / `f'{n:02d}'` for any integer: sign, then zero padding to width 2
    (the width includes the sign). -/
def fmt02 (n : Int) : List Nat :=
  if n < 0 then
    let ds := natDigits n.natAbs
    45 :: ds                                   -- '-' and at least one digit: width ≥ 2
  else
    let ds := natDigits n.toNat
    if ds.length < 2 then 48 :: ds else ds

/-- `strftime('%y')`-style two-digit field of a natural number below 100 (month, day, …) -/
def two (n : Nat) : List Nat := [48 + n / 10 % 10, 48 + n % 10]

def isSpace (c : Nat) : Bool := c = 32 || (9 ≤ c && c ≤ 13)
def isDigit (c : Nat) : Bool := 48 ≤ c && c ≤ 57

/-- digits with single underscores between digits (after the first digit) -/
def parseDigits : List Nat → Nat → Option Nat
  | [], acc => some acc
  | c :: rest, acc =>
    if isDigit c then parseDigits rest (acc * 10 + (c - 48))
    else if c = 95 then
      match rest with
      | d :: rest' => if isDigit d then parseDigits rest' (acc * 10 + (d - 48)) else none
      | [] => none
    else none

def stripLeft : List Nat → List Nat
  | [] => []
  | c :: rest => if isSpace c then stripLeft rest else c :: rest

def strip (s : List Nat) : List Nat := (stripLeft (stripLeft s).reverse).reverse

/-- optional sign of `int(s)` -/
def signSplit : List Nat → Bool × List Nat
  | 45 :: r => (true, r)
  | 43 :: r => (false, r)
  | r => (false, r)

def pyIntBody (neg : Bool) (body : List Nat) : Except Exc Int :=
  match body with
  | c :: rest =>
    if isDigit c then
      match parseDigits rest (c - 48) with
      | some v => .ok (if neg then -(v : Int) else (v : Int))
      | none => .error .valueError
    else .error .valueError
  | [] => .error .valueError

/-- `int(s)` for an ASCII string: optional surrounding white space, optional sign, decimal
    digits with single underscores.  Anything else is ValueError. -/
def pyInt (s : List Nat) : Except Exc Int :=
  pyIntBody (signSplit (strip s)).1 (signSplit (strip s)).2

/-- Python slice `s[i:j]` for 0 ≤ i ≤ j -/
def slice (s : List Nat) (i j : Nat) : List Nat := (s.drop i).take (j - i)

/-! ### datetime_to_smpp_time -/

def maxRelSeconds : Int := 63 * 7 * 86400

/-- `timedelta > timedelta(weeks=63)` on normalised fields -/
def relTooLong (t : TimeDelta) : Bool :=
  let total : Int := t.days * 86400 + t.seconds
  total > maxRelSeconds || (total = maxRelSeconds && t.micros > 0)

/-- offset digits and sign character written for a utcoffset (`not offset` covers both a
    naive datetime and a zero offset) -/
def offsetPart (o : Option Int) : List Nat × Nat :=
  match o with
  | none => ([48, 48], 43)
  | some o =>
    if o = 0 then ([48, 48], 43)
    else (fmt02 (Int.ofNat (o.natAbs / 900)), if o < 0 then 45 else 43)

def toSmpp : TimeObj → Except Exc (List Nat)
  | .none => .ok []
  | .abs d =>
    let tenth := natDigits (d.micro / 100000)
    let p := offsetPart d.offset
    .ok (two (d.year % 100) ++ two d.month ++ two d.day ++ two d.hour ++ two d.minute
          ++ two d.second ++ tenth ++ p.1 ++ [p.2])
  | .rel t =>
    if relTooLong t then .error .valueError
    else
      let years := fmt02 (t.days / 365)
      let rem := t.days % 365
      let months := fmt02 (rem / 30)
      let days := fmt02 (rem % 30)
      let secs : Int := t.seconds
      let hours := fmt02 (secs / 3600)
      let r2 := secs % 3600
      let minutes := fmt02 (r2 / 60)
      let seconds := fmt02 (r2 % 60)
      .ok (years ++ months ++ days ++ hours ++ minutes ++ seconds ++ [48, 48, 48, 82])

/-! ### FixedOffset.from_timezone and smpp_time_to_datetime -/

/-- offset in seconds that `FixedOffset.from_timezone(offset_str).offset` denotes -/
def fromTimezone (s : List Nat) : Except Exc Int :=
  if s.isEmpty then .ok 0
  else
    let sign : Int := if s.contains 43 then 1 else -1
    match pyInt (slice s 1 3) with
    | .error e => .error e
    | .ok hours =>
      match pyInt (s.drop 3) with
      | .error e => .error e
      | .ok minutes =>
        let m := minutes + hours * 60
        .ok (if sign = 1 then m * 60 else (-m) * 60)

def isLeap (y : Int) : Bool := (y % 4 = 0 && y % 100 ≠ 0) || y % 400 = 0

def daysInMonth (y : Int) (m : Int) : Int :=
  if m = 2 then (if isLeap y then 29 else 28)
  else if m = 4 || m = 6 || m = 9 || m = 11 then 30 else 31

/-- the range checks of the `datetime(...)` constructor -/
def validDateTime (y mo d h mi s us : Int) : Bool :=
  1 ≤ y && y ≤ 9999 && 1 ≤ mo && mo ≤ 12 && 1 ≤ d && d ≤ daysInMonth y mo
  && 0 ≤ h && h ≤ 23 && 0 ≤ mi && mi ≤ 59 && 0 ≤ s && s ≤ 59 && 0 ≤ us && us ≤ 999999

/-- `timedelta(days=D, seconds=S)` normalised -/
def mkDelta (days secs : Int) : Except Exc TimeObj :=
  let total := days * 86400 + secs
  let d := total / 86400
  if d.natAbs > 999999999 then .error .overflowError
  else .ok (.rel { days := d, seconds := (total % 86400).toNat, micros := 0 })

def fromSmpp (s : List Nat) : Except Exc TimeObj :=
  if s.isEmpty then .ok .none
  else
    match pyInt (slice s 0 2), pyInt (slice s 2 4), pyInt (slice s 4 6), pyInt (slice s 6 8),
          pyInt (slice s 8 10), pyInt (slice s 10 12) with
    | .ok year, .ok month, .ok day, .ok hour, .ok minute, .ok second =>
      if s.getLast? = some 82 then
        mkDelta (year * 365 + month * 30 + day) (hour * 3600 + minute * 60 + second)
      else
        match pyInt (slice s 12 13) with
        | .error e => .error e
        | .ok tenth =>
          match pyInt (slice s 13 15) with
          | .error e => .error e
          | .ok nn =>
            let om := nn * 15
            let offStr := slice s 15 16 ++ fmt02 (om / 60) ++ fmt02 (om % 60)
            match fromTimezone offStr with
            | .error e => .error e
            | .ok off =>
              if validDateTime (2000 + year) month day hour minute second (tenth * 100000) then
                .ok (.abs { year := (2000 + year).toNat, month := month.toNat, day := day.toNat,
                            hour := hour.toNat, minute := minute.toNat, second := second.toNat,
                            micro := (tenth * 100000).toNat, offset := some off })
              else .error .valueError
    | .error e, _, _, _, _, _ => .error e
    | _, .error e, _, _, _, _ => .error e
    | _, _, .error e, _, _, _ => .error e
    | _, _, _, .error e, _, _ => .error e
    | _, _, _, _, .error e, _ => .error e
    | _, _, _, _, _, .error e => .error e

end SmppVerif.Time
