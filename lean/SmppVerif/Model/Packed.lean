/-
Model of aiosmpplib/codec.py: GSM7BitPackedCodec.encode / .decode.
-/
import SmppVerif.Model.Gsm

namespace SmppVerif.Packed
open SmppVerif SmppVerif.Gsm SmppVerif.Gen.Gsm

/-- The `for index in range(msg_len)` loop: `n` iterations left, current `index`, `count`;
    `codes` is the septet list with the appended 0.  List reads raise IndexError, the
    bytearray store raises ValueError for a value outside range(256). -/
def packLoop (codes : List Nat) : (n index count : Nat) → Except Exc (List Nat)
  | 0, _, _ => .ok []
  | n + 1, index, count =>
    let shift := index % 7
    match codes[count]?, codes[count + 1]? with
    | some a, some b =>
      let byte := (a >>> shift) + ((b <<< (7 - shift)) &&& 0xFF)
      if byte < 256 then
        match packLoop codes n (index + 1) (if shift = 6 then count + 2 else count + 1) with
        | .ok rest => .ok (byte :: rest)
        | .error e => .error e
      else .error .valueError
    | _, _ => .error .indexError

/-- `msg_len = int(len*7 / 8) + int(len*7 % 8 > 0)` -/
def msgLen (nCodes : Nat) : Nat := nCodes * 7 / 8 + (if nCodes * 7 % 8 > 0 then 1 else 0)

/-- packing of a septet list as the code does it (after `to_gsm_codes`) -/
def packCodes (codes : List Nat) : Except Exc (List Nat) :=
  packLoop (codes ++ [0]) (msgLen codes.length) 0 0

/-- `GSM7BitPackedCodec.encode(text, errors)[0]` -/
def encode (mode : Mode) (text : List Nat) : Except Exc (List Nat) :=
  match toGsmCodes mode text with
  | .error e => .error e
  | .ok codes => packCodes codes

/-- The septets the decode loop feeds to `_decode_char`, in order: state `count`, `last`. -/
def unpackLoop : (count last : Nat) → List Nat → List Nat
  | _, _, [] => []
  | count, last, byte :: rest =>
    let mask := 0x7F >>> count
    let out := ((byte &&& mask) <<< count) + last
    let last' := byte >>> (7 - count)
    if count = 6 then out :: last' :: unpackLoop 0 0 rest
    else out :: unpackLoop ((count + 1) % 7) last' rest

def unpack (bytes : List Nat) : List Nat := unpackLoop 0 0 bytes

/-- Character assembly of the packed decoder: like `Gsm.decodeLoop`, but a septet without
    table entry contributes the empty string silently (no error handling in the loop). -/
def decodeSeptets (mode : Mode) : Bool → List Nat → Except Exc (List Nat)
  | escaped, [] =>
    if escaped then
      match mode with
      | .strict => .error .unicodeDecodeError
      | .replace => .ok [noBreakSpace]
      | .ignore => .ok []
    else .ok []
  | escaped, s :: ss =>
    match decodeChar s escaped with
    | (_, true) => decodeSeptets mode true ss
    | (some c, false) =>
      match decodeSeptets mode false ss with
      | .error e => .error e
      | .ok rest => .ok (c :: rest)
    | (none, false) => decodeSeptets mode false ss

/-- `GSM7BitPackedCodec.decode(bytes, errors)[0]` -/
def decode (mode : Mode) (bytes : List Nat) : Except Exc (List Nat) :=
  decodeSeptets mode false (unpack bytes)

end SmppVerif.Packed
