/-
Tier 3: the throttle gate of ESME._dequeue_messages (esme.py: `for message in messages_to_send:
while not await throttle_handler.allow_request(): sleep … ; rate limit; _send_data(message)`) and
the feeding of the handler by _handle_response, as

  * a monitor over what the environment can observe — handler fed with a throttled / other
    status, allow_request() consulted at a time with its answer, a submit_sm PDU written — and
  * a small generator of the Sender's behaviour under any schedule of responses and clock
    readings, all of whose traces the monitor accepts.

The handler itself is `Policy.Throttle` (tier 1, tied to throttle.py by the th.run correspondence).
-/
import SmppVerif.Model.Policy

namespace SmppVerif.Gate
open SmppVerif.Policy

inductive Ev where
  | feed (thr : Bool)                  -- throttled() / not_throttled()
  | consult (now : Rat) (allowed : Bool)   -- allow_request() at `now` returned `allowed`
  | write                              -- one submit_sm PDU handed to the transport
  deriving DecidableEq, Repr, Inhabited

structure Mon where
  th : Throttle
  /-- an allow_request() that returned True since the last write -/
  armed : Bool := false
  deriving Repr

/-- one event; `none` = the gate is violated (a wrong answer of the handler, or a PDU that was
    not let through by a consultation of its own) -/
def step (m : Mon) : Ev → Option Mon
  | .feed true => some { m with th := m.th.throttled }
  | .feed false => some { m with th := m.th.notThrottled }
  | .consult now r =>
    let p := m.th.allow now
    if p.2 = r then some { th := p.1, armed := r } else none
  | .write => if m.armed then some { m with armed := false } else none

def run (m : Mon) : List Ev → Option Mon
  | [] => some m
  | e :: es => match step m e with | some m' => run m' es | none => none

def firstReject (m : Mon) : Nat → List Ev → Option Nat
  | _, [] => none
  | i, e :: es => match step m e with | some m' => firstReject m' (i + 1) es | none => some i

/-! ### the Sender at the gate -/

/-- what the schedule offers the Sender: a response is handled, or the Sender task gets a turn
    at clock reading `now` (a fresh PDU to send, or the end of a throttle_wait sleep) -/
inductive Inp where
  | resp (thr : Bool)
  | turn (now : Rat)
  deriving Repr, Inhabited

/-- `pending` PDUs to send; on its turn the Sender consults the handler and writes the PDU only
    when allowed (nothing suspends between the two in this model) -/
def sender (th : Throttle) : Nat → List Inp → List Ev
  | _, [] => []
  | n, .resp b :: rest => .feed b :: sender (if b then th.throttled else th.notThrottled) n rest
  | 0, .turn _ :: rest => sender th 0 rest
  | n + 1, .turn now :: rest =>
    let p := th.allow now
    if p.2 then .consult now true :: .write :: sender p.1 n rest
    else .consult now false :: sender p.1 (n + 1) rest

/-- the denial condition of the statement on the window counters -/
def Denied (t : Throttle) : Prop :=
  t.sampleSize ≤ ((t.nonThrottle + t.throttle : Nat) : Rat) ∧
    round2 ((t.throttle : Rat) / ((t.nonThrottle + t.throttle : Nat) : Rat) * 100) > t.denyAt

end SmppVerif.Gate
