/- Line-protocol operations of the tier 2 correlator model (stateful). -/
import SmppVerif.Model.Wire
import SmppVerif.Model.Corr
import SmppVerif.Model.SweepTasks

namespace SmppVerif.DriverCorr
open SmppVerif SmppVerif.Wire SmppVerif.Corr

def kindNames : List (String × Kind) :=
  [("submit", .submitSm), ("deliver", .deliverSm), ("submitresp", .submitSmResp), ("nack", .genericNack),
   ("enq", .enquireLink), ("enqresp", .enquireLinkResp), ("unbind", .unbind), ("unbindresp", .unbindResp),
   ("bind", .bind), ("bindresp", .bindResp), ("other", .other)]

def parseKind (s : String) : Option Kind := (kindNames.find? (·.1 = s)).map (·.2)
def showKind (k : Kind) : String := ((kindNames.find? (·.2 = k)).map (·.1)).getD "?"

def parseBool (s : String) : Option Bool :=
  if s = "1" then some true else if s = "0" then some false else none
def showBool (b : Bool) : String := if b then "1" else "0"

/-- kind:seq:status:logId:extra:ref:sseq:total:hasSar:msgId:text:usesShort:isReceipt:rcptId:rcptErr -/
def parseMsg (s : String) : Option Msg :=
  match s.splitOn ":" with
  | [k, seq, st, lg, ex, rf, ss, tot, hs, mid, tx, us, ir, rid, rerr] =>
    match parseKind k, seq.toNat?, st.toNat?, lg.toNat?, ex.toNat?, rf.toNat?, ss.toNat?, tot.toNat? with
    | some k, some seq, some st, some lg, some ex, some rf, some ss, some tot =>
      match parseBool hs, parseNats mid, parseNats tx, parseBool us, parseBool ir, parseNats rid with
      | some hs, some mid, some tx, some us, some ir, some rid =>
        let rerr : Option (Option Int) := if rerr = "~" then some none else rerr.toInt?.map some
        match rerr with
        | some rerr => some ⟨k, seq, st, lg, ex, rf, ss, tot, hs, mid, tx, us, ir, rid, rerr⟩
        | none => none
      | _, _, _, _, _, _ => none
    | _, _, _, _, _, _, _, _ => none
  | _ => none

def showMsg (m : Msg) : String :=
  ":".intercalate [showKind m.kind, toString m.seq, toString m.status, toString m.logId, toString m.extra,
    toString m.sarRef, toString m.sarSeq, toString m.sarTotal, showBool m.hasSar, showNats m.msgId,
    showNats m.text, showBool m.usesShort, showBool m.isReceipt, showNats m.rcptId,
    (match m.rcptErr with | none => "~" | some e => toString e)]

def showOuts (o : List Out) : String :=
  String.join (o.map fun | .sendError m => " E=" ++ showMsg m)

def showOptMsg : Option Msg → String
  | none => "none"
  | some m => showMsg m

def showHandled : Handled → String
  | .msg m => "msg " ++ showMsg m
  | .placeholder => "placeholder"
  | .dropped => "dropped"

def showStatus (l : List (Nat × Int)) : String :=
  ",".intercalate (l.map fun (k, v) => s!"{k}={v}")

/-- canonical dump of the five stores (dict order) -/
def dump (s : CState) : String :=
  "store[" ++ " ".intercalate (s.store.map fun (k, (t, m)) => s!"{k}@{t}={showMsg m}") ++ "] seg[" ++
  " ".intercalate (s.segStore.map fun (k, (r, q)) => s!"{k}={r}.{q}") ++ "] status[" ++
  " ".intercalate (s.segStatus.map fun (k, st) =>
    s!"{k}=({showStatus st.status})/{st.orig.seq}/{showOptMsg st.lastResponse}/{showOptMsg st.lastReceipt}") ++
  "] deliv[" ++ " ".intercalate (s.delivStore.map fun (k, (t, m)) => s!"{showNats k}@{t}={m.seq}/{m.logId}") ++
  "] dseg[" ++ " ".intercalate (s.delivSegStore.map fun (k, (t, segs)) =>
    s!"{k}@{t}=" ++ ",".intercalate (segs.map fun (q, tx) => s!"{q}.{showNats tx}")) ++ "]"

/-- stateful step; `none` when the line is not a correlator operation -/
def step (s : CState) (ws : List String) : Option (CState × String) :=
  match ws with
  | ["c.new", a, b] =>
    match a.toNat?, b.toNat? with
    | some a, some b => some ({ ttlResp := a, ttlDeliv := b }, "ok")
    | _, _ => some (s, "bad-op")
  | ["c.put", now, m] =>
    match now.toNat?, parseMsg m with
    | some now, some m => let (s', o) := put s now m; some (s', "ok" ++ showOuts o)
    | _, _ => some (s, "bad-op")
  | ["c.get", now, m] =>
    match now.toNat?, parseMsg m with
    | some now, some m => let (s', o, r) := get s now m; some (s', "ok" ++ showOuts o ++ " R=" ++ showOptMsg r)
    | _, _ => some (s, "bad-op")
  | ["c.getseg", seq, rm] =>
    match seq.toNat?, parseBool rm with
    | some seq, some rm =>
      let (s', st, code) := getSegmented s seq rm
      some (s', match st with
        | none => s!"ok none {code}"
        | some st => s!"ok some {code} ({showStatus st.status}) {showOptMsg st.lastResponse} {showOptMsg st.lastReceipt}")
    | _, _ => some (s, "bad-op")
  | ["c.putdel", now, id, m] =>
    match now.toNat?, parseNats id, parseMsg m with
    | some now, some id, some m => let (s', o) := putDelivery s now id m; some (s', "ok" ++ showOuts o)
    | _, _, _ => some (s, "bad-op")
  | ["c.getdel", now, m] =>
    match now.toNat?, parseMsg m with
    | some now, some m =>
      let (s', o, r) := getDelivery s now m; some (s', "ok" ++ showOuts o ++ " R=" ++ showOptMsg r)
    | _, _ => some (s, "bad-op")
  | ["c.putdelseg", now, m] =>
    match now.toNat?, parseMsg m with
    | some now, some m =>
      let (s', o, r) := putDeliverySegmented s now m
      some (s', "ok" ++ showOuts o ++ " R=" ++ showOptMsg r)
    | _, _ => some (s, "bad-op")
  | ["c.hresp", now, m] =>
    match now.toNat?, parseMsg m with
    | some now, some m =>
      let (s', o, tc, h) := handleResponse s now m
      let tcs := String.join (tc.map fun | .throttled => " T" | .notThrottled => " N")
      -- chronological order: the sweep of `get`, the throttle-handler call, then the rest
      let n := (Corr.get s now m).2.1.length
      some (s', "ok" ++ showOuts (o.take n) ++ tcs ++ showOuts (o.drop n) ++ " H=" ++ showHandled h)
    | _, _ => some (s, "bad-op")
  | ["c.hdel", now, m] =>
    match now.toNat?, parseMsg m with
    | some now, some m =>
      let (s', o, h) := handleDeliver s now m
      some (s', "ok" ++ showOuts o ++ " H=" ++ showHandled h)
    | _, _ => some (s, "bad-op")
  | "c.sched" :: evs =>
    -- a schedule of turns (Model/SweepTasks.lean): P@clock@msg start put, G@clock@msg start get, R@index@clock resume,
    -- X@index cancel the suspended operation
    let parseEv (w : String) : Option SweepTasks.Ev :=
      match w.splitOn "@" with
      | ["P", c, m] => match c.toNat?, parseMsg m with
        | some c, some m => some (.start (.put m) c)
        | _, _ => none
      | ["G", c, m] => match c.toNat?, parseMsg m with
        | some c, some m => some (.start (.get m) c)
        | _, _ => none
      | ["R", i, c] => match i.toNat?, c.toNat? with
        | some i, some c => some (.resume i c)
        | _, _ => none
      | ["X", i] => i.toNat?.map .cancel
      | _ => none
    match evs.mapM parseEv with
    | none => some (s, "bad-op")
    | some evs =>
      let (w, obs) := SweepTasks.run ⟨s, []⟩ evs
      -- hook calls in the order they were made, then what the responses found (by sequence number: the real `get` only
      -- tells when it returns, which is after its sweep)
      let hooks := String.join (obs.map fun
        | .timeout _ o => showOuts o
        | _ => "")
      let found := obs.filterMap fun
        | .matched k _ => some (k, s!" M={k}")
        | .unmatched k => some (k, s!" U={k}")
        | _ => none
      let sorted := found.toArray.qsort (fun a b => a.1 < b.1 || (a.1 == b.1 && a.2 < b.2))
      some (w.cs, "ok" ++ hooks ++ String.join (sorted.toList.map (·.2)) ++ s!" tasks={w.tasks.length}")
  | ["c.dump"] => some (s, "ok " ++ dump s)
  | _ => none

end SmppVerif.DriverCorr
