/-
Model of aiosmpplib/protocol.py: DeliverSm.is_receipt / parse_receipt / encode_receipt.
The scanner is written on the remaining suffix of the text instead of an index into it
(`find(c, index)` on the whole string = first occurrence in the suffix); the correspondence
check ties the two.
-/
import SmppVerif.Model.Time

namespace SmppVerif.Receipt
open SmppVerif SmppVerif.Time

/-- a parsed value of the receipt dictionary -/
inductive RVal where
  | int (n : Int)
  | date (y mo d h mi : Nat)
  | str (s : List Nat)
  deriving DecidableEq, Repr

/-- insertion-ordered dictionary with Python's overwrite-in-place -/
abbrev RDict := List (List Nat × RVal)

def dictSet (d : RDict) (k : List Nat) (v : RVal) : RDict :=
  match d with
  | [] => [(k, v)]
  | (k', v') :: rest => if k' = k then (k', v) :: rest else (k', v') :: dictSet rest k v

def dictGet (d : RDict) (k : List Nat) : Option RVal :=
  match d with
  | [] => none
  | (k', v') :: rest => if k' = k then some v' else dictGet rest k

/-- split at the first occurrence of `c`: (before, after) -/
def splitAtChar (c : Nat) : List Nat → Option (List Nat × List Nat)
  | [] => none
  | x :: xs =>
    if x = c then some ([], xs)
    else match splitAtChar c xs with
      | some (a, b) => some (x :: a, b)
      | none => none

/-- ASCII lower-casing (str.lower restricted to ASCII; see DESIGN §6 C20) -/
def lowerAscii (s : List Nat) : List Nat := s.map fun c => if 65 ≤ c ∧ c ≤ 90 then c + 32 else c

def kText : List Nat := [116, 101, 120, 116]                               -- "text"
def kId : List Nat := [105, 100]                                           -- "id"
def kSub : List Nat := [115, 117, 98]                                      -- "sub"
def kDlvrd : List Nat := [100, 108, 118, 114, 100]                         -- "dlvrd"
def kErr : List Nat := [101, 114, 114]                                     -- "err"
def kStat : List Nat := [115, 116, 97, 116]                                -- "stat"
def kSubmitDate : List Nat := [115, 117, 98, 109, 105, 116, 32, 100, 97, 116, 101]  -- "submit date"
def kDoneDate : List Nat := [100, 111, 110, 101, 32, 100, 97, 116, 101]              -- "done date"

/-- `get_receipt_param` on the remaining text: (key, value, remaining text) -/
def getParam (rest : List Nat) : Option (List Nat × List Nat × List Nat) :=
  match splitAtChar 58 rest with
  | none => none
  | some (k, after) =>
    let key := lowerAscii k
    if key = kText then some (key, after, [])
    else match splitAtChar 32 after with
      | none => some (key, after, [])
      | some (v, after') => some (key, v, after')

/-! ### `datetime.strptime(value, '%y%m%d%H%M')` -/

def dig (lo hi : Nat) (c : Nat) : Bool := 48 + lo ≤ c && c ≤ 48 + hi
def isCh (x : Nat) (c : Nat) : Bool := c = x

/-- the regular expressions of `_strptime` for %y %m %d %H %M: ordered alternatives, each a
    sequence of character classes -/
def dirY : List (List (Nat → Bool)) := [[dig 0 9, dig 0 9]]
def dirM : List (List (Nat → Bool)) := [[isCh 49, dig 0 2], [isCh 48, dig 1 9], [dig 1 9]]
def dirD : List (List (Nat → Bool)) :=
  [[isCh 51, dig 0 1], [dig 1 2, dig 0 9], [isCh 48, dig 1 9], [dig 1 9], [isCh 32, dig 1 9]]
def dirH : List (List (Nat → Bool)) := [[isCh 50, dig 0 3], [dig 0 1, dig 0 9], [dig 0 9]]
def dirMin : List (List (Nat → Bool)) := [[dig 0 5, dig 0 9], [dig 0 9]]

def matchAlt : List (Nat → Bool) → List Nat → Option (List Nat × List Nat)
  | [], s => some ([], s)
  | _ :: _, [] => none
  | p :: ps, c :: cs =>
    if p c then (matchAlt ps cs).map fun (m, r) => (c :: m, r) else none

/-- try the alternatives of one directive in order; `cont` matches the remaining directives
    (Python `re` backtracks into the next alternative when the continuation fails) -/
def tryAlts (cont : List Nat → Option (List (List Nat) × List Nat)) (s : List Nat) :
    List (List (Nat → Bool)) → Option (List (List Nat) × List Nat)
  | [] => none
  | a :: as =>
    match matchAlt a s with
    | some (m, r) =>
      match cont r with
      | some (ms, r') => some (m :: ms, r')
      | none => tryAlts cont s as
    | none => tryAlts cont s as

/-- backtracking match of a sequence of directives (first match in Python `re` order) -/
def matchDirs : List (List (List (Nat → Bool))) → List Nat → Option (List (List Nat) × List Nat)
  | [], s => some ([], s)
  | d :: ds, s => tryAlts (matchDirs ds) s d

def digitsVal (s : List Nat) : Nat := s.foldl (fun acc c => if isDigit c then acc * 10 + (c - 48) else acc) 0

def strptime (v : List Nat) : Except Exc RVal :=
  match matchDirs [dirY, dirM, dirD, dirH, dirMin] v with
  | some ([y, m, d, h, mi], rest) =>
    if rest.isEmpty then
      let yy := digitsVal y
      let year := if yy ≤ 68 then 2000 + yy else 1900 + yy
      let mo := digitsVal m
      let dd := digitsVal d
      if 1 ≤ dd ∧ (dd : Int) ≤ daysInMonth year mo then
        .ok (.date year mo dd (digitsVal h) (digitsVal mi))
      else .error .valueError
    else .error .valueError
  | _ => .error .valueError

/-- typed conversion of one parameter -/
def convert (key value : List Nat) : Except Exc RVal :=
  if key = kSub ∨ key = kDlvrd ∨ key = kErr then (pyInt value).map .int
  else if key = kSubmitDate ∨ key = kDoneDate then strptime value
  else .ok (.str value)

/-- the `while True` loop of `parse_receipt`; `fuel` bounds the number of parameters by the
    text length (each iteration consumes at least the colon) -/
def scanLoop : Nat → List Nat → RDict → Except Exc RDict
  | 0, _, acc => .ok acc
  | fuel + 1, rest, acc =>
    match getParam rest with
    | none => .ok acc
    | some (key, value, rest') =>
      match convert key value with
      | .error e => .error e
      | .ok v => scanLoop fuel rest' (dictSet acc key v)

def isReceipt (esmClass : Nat) : Bool := (esmClass &&& 0b00111100) >>> 2 = 1

/-- `not smsc_message_id`: no id in the text, or an empty one -/
def idMissing (d : RDict) : Bool :=
  match dictGet d kId with
  | some (.str s) => s.isEmpty
  | some _ => false
  | none => true

/-- fall back to the receipted_message_id parameter when the text carries no id -/
def withTlv (d : RDict) (tlvId : Option (List Nat)) : RDict :=
  if idMissing d then
    match tlvId with
    | some v => dictSet d kId (.str v)
    | none => d
  else d

/-- `DeliverSm.parse_receipt()` (first call): esm_class, short_message, value of the first
    receipted_message_id parameter if any. -/
def parse (esmClass : Nat) (text : List Nat) (tlvId : Option (List Nat)) : Except Exc RDict :=
  if ¬ isReceipt esmClass then .ok []
  else
    match scanLoop (text.length + 1) text [] with
    | .error e => .error e
    | .ok d => .ok (withTlv d tlvId)

/-! ### encode_receipt -/

/-- `f'{n:03d}'` -/
def fmt03 (n : Int) : List Nat :=
  if n < 0 then
    let ds := natDigits n.natAbs
    45 :: (List.replicate (2 - ds.length) 48 ++ ds)
  else
    let ds := natDigits n.toNat
    List.replicate (3 - ds.length) 48 ++ ds

/-- `strftime('%y%m%d%H%M')` of a date (fields) -/
def fmtDate (y mo d h mi : Nat) : List Nat := two (y % 100) ++ two mo ++ two d ++ two h ++ two mi

/-- `f'{text:20}'` -/
def pad20 (t : List Nat) : List Nat := t ++ List.replicate (20 - t.length) 32

structure ReceiptData where
  id : List Nat
  sub : Int
  dlvrd : Int
  submit : Option (Nat × Nat × Nat × Nat × Nat)
  done : Option (Nat × Nat × Nat × Nat × Nat)
  stat : List Nat
  err : Int
  text : List Nat
  deriving DecidableEq, Repr

def optDate : Option (Nat × Nat × Nat × Nat × Nat) → List Nat
  | none => []
  | some (y, mo, d, h, mi) => fmtDate y mo d h mi

/-- "id:" … " Text:" literals of the f-string -/
def lId : List Nat := [105, 100, 58]
def lSub : List Nat := [32, 115, 117, 98, 58]
def lDlvrd : List Nat := [32, 100, 108, 118, 114, 100, 58]
def lSubmit : List Nat := [32, 115, 117, 98, 109, 105, 116, 32, 100, 97, 116, 101, 58]
def lDone : List Nat := [32, 100, 111, 110, 101, 32, 100, 97, 116, 101, 58]
def lStat : List Nat := [32, 115, 116, 97, 116, 58]
def lErr : List Nat := [32, 101, 114, 114, 58]
def lText : List Nat := [32, 84, 101, 120, 116, 58]

def build (r : ReceiptData) : List Nat :=
  lId ++ r.id ++ lSub ++ fmt03 r.sub ++ lDlvrd ++ fmt03 r.dlvrd ++ lSubmit ++ optDate r.submit
    ++ lDone ++ optDate r.done ++ lStat ++ r.stat ++ lErr ++ fmt03 r.err ++ lText ++ pad20 r.text

end SmppVerif.Receipt
