/-
Tier 3: what the receive loop (esme.py `_receive_data` with `_handle_request` / `_handle_response`)
does with one inbound PDU, as far as the wire and the life of the task are concerned: the PDU is
answered with exactly one response, ignored, or an exception leaves the loop.

Which exception classes the two handlers absorb, which ones `_end_task` and the connect cycle of
start() tolerate, and the class hierarchy are regenerated from the source (Gen/Catch.lean).
-/
import SmppVerif.Model.PduDecode
import SmppVerif.Model.Receipt
import SmppVerif.Gen.Catch

namespace SmppVerif.Receiver
open SmppVerif SmppVerif.Pdu

/-- is `e` an instance of one of the classes named in an except clause? -/
def caughtBy (classes : List String) (e : Exc) : Bool :=
  ((Gen.Catch.bases.find? (·.1 = e.name)).map (·.2)).getD [] |>.any (classes.contains ·)

inductive Action where
  | respond (cmd status seq : Nat)     -- exactly one PDU is written in answer
  | ignore                             -- nothing is written, the loop goes on
  | escape (e : Exc)                   -- the exception leaves _receive_data
  deriving DecidableEq, Repr, Inhabited

def responseOf (cmd : Nat) : Option Nat := (Gen.Enums.commandResponseMap.find? (·.1 = cmd)).map (·.2)

def genericNack : Nat := 0x80000000
def rInvCmdId : Nat := 0x03
def rUnknownErr : Nat := 0xFF

/-- text and first receipted_message_id of a decoded deliver_sm, as `parse_receipt` reads them -/
def receiptArgs (m : Sm) : Nat × List Nat × Option (List Nat) :=
  (m.esmClass.toNat, (if m.shortMessage.isEmpty then m.messagePayload else m.shortMessage),
   (m.optionalParams.findSome? fun t => if t.tag = (Gen.Tlv.receiptedMessageId : Int) then
      (match t.val with | .str s => some s | _ => none) else none))

/-- `from_pdu` plus, for deliver_sm, `parse_receipt()` — what sits inside the handlers' `try` -/
def parseBody (pdu : List Nat) (h : Header) (dflt : Enc) : Except Exc Msg :=
  match fromPdu pdu h dflt with
  | .error e => .error e
  | .ok (.deliverSm m) =>
    match Receipt.parse (receiptArgs m).1 (receiptArgs m).2.1 (receiptArgs m).2.2 with
    | .error e => .error e
    | .ok _ => .ok (.deliverSm m)
  | .ok m => .ok m

def receive (pdu : List Nat) (dflt : Enc) : Action :=
  match parseHeader (pdu.take 16) with
  | .error e => .escape e                                    -- _get_pdu re-raises
  | .ok h =>
    match responseOf h.command with
    | some rc =>
      -- a request
      if ¬ Gen.Enums.handledRequests.contains h.command then .respond genericNack rInvCmdId h.seq
      else
        match parseBody pdu h dflt with
        | .error e => if caughtBy Gen.Catch.handleRequest e then .respond genericNack rUnknownErr h.seq else .escape e
        | .ok _ => .respond rc 0 h.seq
    | none =>
      if ¬ Gen.Enums.handledResponses.contains h.command then .ignore
      else
        match fromPdu pdu h dflt with
        | .error e => if caughtBy Gen.Catch.handleResponse e then .ignore else .escape e
        | .ok _ => .ignore

end SmppVerif.Receiver
