/-
Tier 3: the Receiver task over an octet stream — `_receive_data` calling `_get_pdu` again and again: read 16 octets,
parse the header, read command_length - 16 more octets, hand the PDU to the handler (Model/Receiver.lean), write
the response, go on; after an unbind request has been answered the loop returns.  TCP delivers the stream in pieces of
any size: the function below is given what has arrived in total, `readexactly` waits for what is missing.
-/
import SmppVerif.Model.Receiver

namespace SmppVerif.ReceiveLoop
open SmppVerif SmppVerif.Pdu SmppVerif.Receiver

inductive Read where
  | pdu (p rest : List Nat)      -- one whole PDU read, `rest` still in the buffer
  | wait                         -- `readexactly` waits for more octets (IncompleteReadError if the peer closes)
  | bad (e : Exc)                -- the header cannot be used: the exception leaves the loop
  deriving DecidableEq, Repr, Inhabited

/-- `_get_pdu()` on the octets received so far -/
def getPdu (s : List Nat) : Read :=
  if s.length < 16 then .wait
  else
    match parseHeader (s.take 16) with
    | .error e => .bad e
    | .ok h =>
      -- `readexactly(pdu_length - 16)`: a negative count is a ValueError
      if h.pduLength < 16 then .bad .valueError
      else if s.length < h.pduLength then .wait
      else .pdu (s.take h.pduLength) (s.drop h.pduLength)

def unbindCmd : Nat := 0x06

/-- is this PDU an unbind request (after answering it `_receive_data` returns)? -/
def isUnbind (p : List Nat) : Bool :=
  match parseHeader (p.take 16) with
  | .ok h => h.command = unbindCmd
  | .error _ => false

/-- what the Receiver does with everything that has arrived: one action per PDU read, in order -/
def receiveLoop (dflt : Enc) : Nat → List Nat → List Action
  | 0, _ => []
  | fuel + 1, s =>
    match getPdu s with
    | .wait => []
    | .bad e => [.escape e]
    | .pdu p rest =>
      match receive p dflt with
      | .escape e => [.escape e]
      | a => if isUnbind p then [a] else a :: receiveLoop dflt fuel rest

end SmppVerif.ReceiveLoop
