/-
Model of aiosmpplib/utils.py: detect_format, split_sms, split_sms_udh (after repair c0f1520:
both alphabets are chunked on their encoded form).

A *cell* is a septet on the GSM path and a UTF-16 code unit on the other path (the code
chunks octets there, with even chunk sizes; `Gen.Consts` obligations check the evenness).
The loop is modelled on the remaining cells: take L cells, one fewer when the last taken
cell is a lead (escape / high surrogate); a remainder shorter than L is the last chunk.
-/
import SmppVerif.Model.Gsm
import SmppVerif.Model.Utf16
import SmppVerif.Gen.Consts

namespace SmppVerif.Split
open SmppVerif SmppVerif.Gen.Consts

def chunkRec (lead : Nat → Bool) (L : Nat) : Nat → List Nat → List (List Nat)
  | 0, _ => []
  | fuel + 1, rest =>
    if rest.isEmpty then []
    else if rest.length < L then [rest]
    else
      let k := if lead (rest.getD (L - 1) 0) then L - 1 else L
      rest.take k :: chunkRec lead L fuel (rest.drop k)

def chunks (lead : Nat → Bool) (L : Nat) (cells : List Nat) : List (List Nat) :=
  chunkRec lead L (cells.length + 1) cells

def gsmLead (c : Nat) : Bool := c = Gen.Gsm.escape

/-- which alphabet the splitters use: '' → detect_format, 'gsm0338' → GSM, anything else → UCS2 -/
inductive Enc where
  | auto | gsm | other
  deriving DecidableEq, Repr

def useGsm (enc : Enc) (text : List Nat) : Bool :=
  match enc with
  | .auto => Gsm.isGsmText text
  | .gsm => true
  | .other => false

/-- `encode_user_data(data, n)` = pack('!B', n) + data -/
def encodeUserData (data : List Nat) (n : Nat) : Except Exc (List Nat) :=
  if n < 256 then .ok (n :: data) else .error .structError

/-- the encoded cells of the text on the chosen path, the lead test, and cells → octets -/
def cellsOf (enc : Enc) (text : List Nat) : Except Exc (List Nat × (Nat → Bool) × (List Nat → List Nat)) :=
  if useGsm enc text then
    (Gsm.encode .strict text).map fun b => (b, gsmLead, id)
  else
    (Utf16.encodeUnits .strict text).map fun us => (us, Utf16.isHigh, Utf16.unitsToBytes)

/-- `split_sms(text, encoding)` -/
def splitSms (enc : Enc) (text : List Nat) : Except Exc (List (List Nat)) :=
  match cellsOf enc text with
  | .error e => .error e
  | .ok (cells, lead, toBytes) =>
    let octets := toBytes cells
    if octets.length ≤ maxSmSize then
      (encodeUserData octets octets.length).map fun p => [p]
    else
      let L := if useGsm enc text then maxSmSize else maxSmSize / 2
      .ok ((chunks lead L cells).map toBytes)

/-- `bytearray.append(v)`: ValueError outside range(256) -/
def appendByte (acc : List Nat) (v : Nat) : Except Exc (List Nat) :=
  if v < 256 then .ok (acc ++ [v]) else .error .valueError

/-- the UDH of segment `seq` of `total`: `05 00 03 ref tot seq` or `06 08 04 hi lo tot seq` -/
def udhFor (ref total seq : Nat) : List Nat :=
  if ref > 0xFF then [6, ieId16, 4, ref >>> 8, ref &&& 0xFF, total, seq]
  else [5, ieId8, 3, ref, total, seq]

/-- cells per segment after the UDH: `len_without_udh` (GSM: septets; UCS2: octets / 2) -/
def udhLenOf (ref : Nat) : Nat := if ref > 0xFF then 6 else 5

def udhChunkSize (gsm : Bool) (ref : Nat) : Nat :=
  if gsm then maxSeptetSize - udhLenOf ref - 2
  else (maxOctetSize - udhLenOf ref - 1 - ((udhLenOf ref + 1) % 2)) / 2

/-- `split_sms_udh(text, encoding, csms_ref)` -/
def splitSmsUdh (enc : Enc) (ref : Nat) (text : List Nat) : Except Exc (List (List Nat)) :=
  match cellsOf enc text with
  | .error e => .error e
  | .ok (cells, lead, toBytes) =>
    let octets := toBytes cells
    let single := if useGsm enc text then maxSeptetSize else maxOctetSize
    if octets.length ≤ single then
      (encodeUserData octets octets.length).map fun p => [p]
    else
      -- header bytes appended before the split: a 16-bit reference must fit two octets
      if ref > 0xFF ∧ ref >>> 8 ≥ 256 then .error .valueError
      else
        let parts := chunks lead (udhChunkSize (useGsm enc text) ref) cells
        if parts.length ≥ 256 then .error .valueError
        else
          .ok ((List.range parts.length).zipWith
                (fun i p => udhFor ref parts.length (i + 1) ++ toBytes p) parts)

end SmppVerif.Split
