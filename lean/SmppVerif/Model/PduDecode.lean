/-
Tier 1: model of `SmppMessage.parse_header` and of every `from_pdu`, including the
constructor validation that `cls(...)` re-runs.
-/
import SmppVerif.Model.Pdu

namespace SmppVerif.Pdu
open SmppVerif

structure Header where
  pduLength : Nat
  command : Nat
  status : Nat
  seq : Nat
  deriving DecidableEq, Repr, Inhabited

def enumHas (tbl : List (String × Nat)) (v : Nat) : Bool := tbl.any (·.2 = v)

/-- `parse_header(header_data)` -/
def parseHeader (b : List Nat) : Except Exc Header :=
  match unpackU 4 b 0, unpackU 4 b 4, unpackU 4 b 8, unpackU 4 b 12 with
  | .ok l, .ok c, .ok st, .ok sq =>
    if ¬ enumHas Gen.Enums.smppCommand c then .error .valueError
    else if ¬ enumHas Gen.Enums.smppCommandStatus st then .error .valueError
    else .ok ⟨l, c, st, sq⟩
  | _, _, _, _ => .error .structError

/-! ### reading primitives (index-passing) -/

/-- `pdu.index(NULL, index)`: position of the first NUL at or after `index` -/
def indexNul (pdu : List Nat) (index : Nat) : Except Exc Nat :=
  match (pdu.drop index).findIdx? (· = 0) with
  | some i => if index ≤ pdu.length then .ok (index + i) else .error .valueError
  | none => .error .valueError

def slice (pdu : List Nat) (i j : Nat) : List Nat := (pdu.drop i).take (j - i)

/-- `get_c_octet_string()` -/
def getCStr (pdu : List Nat) (index : Nat) : Except Exc (List Nat × Nat) :=
  match indexNul pdu index with
  | .error e => .error e
  | .ok e =>
    match decodeAsciiStrict (slice pdu index e) with
    | .error x => .error x
    | .ok s => .ok (s, e + 1)

/-- `get_integer(count)` -/
def getInt (pdu : List Nat) (index count : Nat) : Except Exc (Nat × Nat) :=
  if count = 1 ∨ count = 2 ∨ count = 4 then
    (unpackU count pdu index).map fun v => (v, index + count)
  else .error .keyError

/-- `get_octet_string(count)`: ASCII, one trailing NUL stripped -/
def getOctetStr (pdu : List Nat) (index count : Nat) : Except Exc (List Nat × Nat) :=
  match decodeAsciiStrict (slice pdu index (index + count)) with
  | .error e => .error e
  | .ok s =>
    let s' := if s.getLast? = some 0 then s.dropLast else s
    .ok (s', index + count)

def checkLen (s : List Nat) (maxlen : Nat) : Except Exc Unit :=
  if s.length ≤ maxlen then .ok () else .error .valueError

/-- `TON(x)` / `NPI(x)` -/
def enumVal (tbl : List (String × Nat)) (v : Nat) : Except Exc Nat :=
  if enumHas tbl v then .ok v else .error .valueError

/-- name and codec of a non-zero data_coding value: `SmppDataCoding(v).name`, then
    `find_codec_info` with the ASCII fall-back for names without codec -/
def encOfDataCoding (v : Nat) : Except Exc Enc :=
  if v = 8 then .ok encUcs2
  else if v = 1 then .ok encAscii
  else if v = 3 then .ok encLatin1
  else
    match Gen.Enums.dataCodingCanonical.find? (·.1 = v) with
    | none => .error .valueError
    | some (_, nm) =>
      -- octet_unspecified_I / II have no codec (ASCII is used); the CJK / ISO-8859 ones are opaque
      if v = 2 ∨ v = 4 then .ok ⟨str nm, .missing, some v⟩ else .ok ⟨str nm, .opaque, some v⟩

/-- the codec `from_pdu` ends up decoding with -/
def decodeCodec (e : Enc) : Codec := if e.codec = .missing then .ascii else e.codec

/-- the element walk of `decode_message`: `while ind + 2 <= udh_len + 1`; the last concatenation
    element (8-bit: id 0, length 3; 16-bit: id 8, length 4) wins, other elements are skipped -/
def udhLoop (raw : List Nat) (udhLen : Nat) :
    Nat → Nat → Option (Nat × Nat × Nat) → Except Exc (Option (Nat × Nat × Nat))
  | 0, _, acc => .ok acc
  | fuel + 1, ind, acc =>
    if ind + 2 ≤ udhLen + 1 then
      if ind + 2 ≤ raw.length then
        let ieId := raw.getD ind 0
        let ieLen := raw.getD (ind + 1) 0
        if ieId = Gen.Consts.ieId16 ∧ ieLen = 4 then
          if ind + 6 ≤ raw.length then
            udhLoop raw udhLen fuel (ind + 2 + ieLen)
              (some (beVal ((raw.drop (ind + 2)).take 2), raw.getD (ind + 4) 0, raw.getD (ind + 5) 0))
          else .error .structError
        else if ieId = Gen.Consts.ieId8 ∧ ieLen = 3 then
          if ind + 5 ≤ raw.length then
            udhLoop raw udhLen fuel (ind + 2 + ieLen)
              (some (raw.getD (ind + 2) 0, raw.getD (ind + 3) 0, raw.getD (ind + 4) 0))
          else .error .structError
        else udhLoop raw udhLen fuel (ind + 2 + ieLen) acc
      else .error .structError
    else .ok acc

/-- `decode_message(raw)`: text and the synthetic SAR parameters of a UDH -/
def decodeMessage (esm : Nat) (codec : Codec) (raw : List Nat) : Except Exc (List Nat × List Tlv) :=
  if esm % 128 ≥ 64 then
    match unpackU 1 raw 0 with
    | .error e => .error e
    | .ok udhLen =>
      match udhLoop raw udhLen 130 1 none with
      | .error e => .error e
      | .ok concat =>
        match codecDecode codec (raw.drop (udhLen + 1)) with
        | .error e => .error e
        | .ok text =>
          match concat with
          | some (ref, total, sq) =>
            .ok (text, [⟨Gen.Tlv.sarMsgRefNum, .int ref⟩, ⟨Gen.Tlv.sarSegmentSeqnum, .int sq⟩,
                        ⟨Gen.Tlv.sarTotalSegments, .int total⟩])
          | none => .ok (text, [])
  else (codecDecode codec raw).map fun t => (t, [])

/-- the TLV loop: `while index < header.pdu_length` -/
def tlvLoop (pdu : List Nat) (pduLength esm : Nat) (codec : Codec) :
    Nat → Nat → List Nat → List Tlv → Except Exc (List Nat × List Tlv)
  | 0, _, payload, acc => .ok (payload, acc)
  | fuel + 1, index, payload, acc =>
    if index < pduLength then
      match getInt pdu index 2 with
      | .error e => .error e
      | .ok (tag, i1) =>
        match getInt pdu i1 2 with
        | .error e => .error e
        | .ok (len, i2) =>
          if tag = Gen.Tlv.messagePayload then
            match decodeMessage esm codec (slice pdu i2 (i2 + len)) with
            | .error e => .error e
            | .ok (text, sar) => tlvLoop pdu pduLength esm codec fuel (i2 + len) text (acc ++ sar)
          else
            match (tagInfo tag).1 with
            | 0 =>
              match getInt pdu i2 len with
              | .error e => .error e
              | .ok (v, i3) => tlvLoop pdu pduLength esm codec fuel i3 payload (acc ++ [⟨tag, .int v⟩])
            | 2 => tlvLoop pdu pduLength esm codec fuel i2 payload (acc ++ [⟨tag, .bool true⟩])
            | _ =>
              match getOctetStr pdu i2 len with
              | .error e => .error e
              | .ok (s, i3) => tlvLoop pdu pduLength esm codec fuel i3 payload (acc ++ [⟨tag, .str s⟩])
    else .ok (payload, acc)

/-- `SubmitSm.__post_init__` on the values `from_pdu` passes (what can still fail) -/
def smValidate (m : Sm) : Except Exc Unit :=
  if m.serviceType.length > 5 then .error .valueError
  else if m.shortMessage.isEmpty ∧ m.messagePayload.isEmpty then .error .valueError
  else if ¬ m.shortMessage.isEmpty ∧ ¬ m.messagePayload.isEmpty then .error .valueError
  else .ok ()

/-- `SubmitSm.from_pdu` / `DeliverSm.from_pdu` -/
def smFromPdu (pdu : List Nat) (h : Header) (dflt : Enc) : Except Exc Sm := do
  let (serviceType, i) ← getCStr pdu 16
  let (ston, i) ← getInt pdu i 1
  let ston ← enumVal Gen.Enums.ton ston
  let (snpi, i) ← getInt pdu i 1
  let snpi ← enumVal Gen.Enums.npi snpi
  let (snum, i) ← getCStr pdu i
  checkLen snum 20
  let (dton, i) ← getInt pdu i 1
  let dton ← enumVal Gen.Enums.ton dton
  let (dnpi, i) ← getInt pdu i 1
  let dnpi ← enumVal Gen.Enums.npi dnpi
  let (dnum, i) ← getCStr pdu i
  checkLen dnum 20
  let (esm, i) ← getInt pdu i 1
  let (pid, i) ← getInt pdu i 1
  let (prio, i) ← getInt pdu i 1
  let (sched, i) ← getCStr pdu i
  let (valid, i) ← getCStr pdu i
  let (reg, i) ← getInt pdu i 1
  let (repl, i) ← getInt pdu i 1
  let (dc, i) ← getInt pdu i 1
  let enc ← (if dc = 0 then .ok dflt else encOfDataCoding dc)
  let codec := decodeCodec enc
  let (defId, i) ← getInt pdu i 1
  let (smLen, i) ← getInt pdu i 1
  let (shortMessage, sar) ← decodeMessage esm codec (slice pdu i (i + smLen))
  let i := i + smLen
  let (payload, params) ← tlvLoop pdu h.pduLength esm codec (pdu.length + 1) i [] sar
  let schedT ← Time.fromSmpp sched
  let validT ← Time.fromSmpp valid
  let m : Sm := {
    seq := h.seq, status := 0, shortMessage := shortMessage,
    source := ⟨snum, ston, snpi⟩, dest := ⟨dnum, dton, dnpi⟩, serviceType := serviceType,
    esmClass := esm, protocolId := pid, priorityFlag := prio, schedule := schedT, validity := validT,
    registeredDelivery := reg, replaceIfPresent := repl,
    encoding := if enc.name = str Gen.Consts.defaultEncoding then none else some enc,
    smDefaultMsgId := defId, messagePayload := payload, optionalParams := params }
  smValidate m
  return m

/-- `BindTransceiver.from_pdu` (and the two subclasses) -/
def bindFromPdu (pdu : List Nat) (h : Header) : Except Exc BindReq := do
  let (sid, i) ← getCStr pdu 16
  let (pw, i) ← getCStr pdu i
  let (sty, i) ← getCStr pdu i
  let iv ← unpackU 1 pdu i
  let ton ← unpackU 1 pdu (i + 1)
  let ton ← enumVal Gen.Enums.ton ton
  let npi ← unpackU 1 pdu (i + 2)
  let npi ← enumVal Gen.Enums.npi npi
  let (range, _) ← getCStr pdu (i + 3)
  checkLen sid 15
  checkLen pw 8
  checkLen sty 12
  checkLen range 40
  return { seq := h.seq, status := 0, systemId := sid, password := pw, systemType := sty,
           interfaceVersion := iv, addrTon := ton, addrNpi := npi, addressRange := range }

/-- `BindTransceiverResp.from_pdu` -/
def bindRespFromPdu (pdu : List Nat) (h : Header) : Except Exc BindResp :=
  if h.pduLength ≤ 16 then .ok { seq := h.seq, status := h.status, systemId := [], scVersion := none }
  else do
  let e ← indexNul pdu 16
  let sid ← decodeAsciiStrict (slice pdu 16 e)
  let i := e + 1
  let sc ← (if i < h.pduLength then
              (if i + 4 + 1 = h.pduLength then (unpackU 1 pdu (i + 4)).map fun v => some (v : Int)
               else .ok none)
            else .ok none)
  checkLen sid 15
  return { seq := h.seq, status := h.status, systemId := sid, scVersion := sc }

/-- `SubmitSmResp.from_pdu` -/
def smRespFromPdu (pdu : List Nat) (h : Header) : Except Exc SmResp := do
  -- `pdu[16 : pdu_length - 1]`: a length field of 0 makes the end index -1 (Python: last octet excluded)
  let mid ← decodeAsciiStrict (slice pdu 16 (if h.pduLength = 0 then pdu.length - 1 else h.pduLength - 1))
  checkLen mid 64
  return { seq := h.seq, status := h.status, messageId := mid }

/-- `MESSAGE_TYPE_MAP[header.smpp_command].from_pdu(pdu, header, default_encoding)` -/
def fromPdu (pdu : List Nat) (h : Header) (dflt : Enc) : Except Exc Msg :=
  match h.command with
  | 0x04 => (smFromPdu pdu h dflt).map .submitSm
  | 0x05 => (smFromPdu pdu h dflt).map .deliverSm
  | 0x80000004 => (smRespFromPdu pdu h).map .submitSmResp
  | 0x80000005 => (smRespFromPdu pdu h).map .deliverSmResp
  | 0x80000000 => .ok (.genericNack h.seq h.status [] [])
  | 0x09 => (bindFromPdu pdu h).map (.bind .trx)
  | 0x02 => (bindFromPdu pdu h).map (.bind .tx)
  | 0x01 => (bindFromPdu pdu h).map (.bind .rx)
  | 0x80000009 => (bindRespFromPdu pdu h).map (.bindResp .trx)
  | 0x80000002 => (bindRespFromPdu pdu h).map (.bindResp .tx)
  | 0x80000001 => (bindRespFromPdu pdu h).map (.bindResp .rx)
  | 0x15 => .ok (.enquireLink h.seq h.status)
  | 0x80000015 => .ok (.enquireLinkResp h.seq h.status)
  | 0x06 => .ok (.unbind h.seq h.status)
  | 0x80000006 => .ok (.unbindResp h.seq h.status)
  | _ => .error .keyError

/-- parse a whole PDU: header, then body -/
def decode (pdu : List Nat) (dflt : Enc) : Except Exc Msg :=
  match parseHeader (pdu.take 16) with
  | .error e => .error e
  | .ok h => fromPdu pdu h dflt

end SmppVerif.Pdu
