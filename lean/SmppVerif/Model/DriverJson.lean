/- Line protocol of the JSON model (C12):
   json.rt <cls> <name>=<val> ...        -> ok <tree> | <object>      (json_encode, then json_decode of it)
   json.dec <key>=<jval> ...             -> ok <object> | exc <Name>   (dict_to_smpp_message on a foreign tree)
   values:  n | b0 | b1 | i<int> | s<codes> | e<int> | d<y>.<mo>.<d>.<h>.<mi>.<s>.<us>.<off or -> |
            t<days>.<secs>.<us> | p<ton>.<npi>.<codes> | P<tag:i:v;tag:s:codes;tag:b:0> or P-
   jvals:   n | b0 | b1 | i<int> | f<us> | s<codes> | {k=leaf,k=leaf} | [{..};{..}] or [] -/
import SmppVerif.Model.Wire
import SmppVerif.Model.Json

namespace SmppVerif.DriverJson
open SmppVerif SmppVerif.Wire SmppVerif.Json

def showPVal : PVal → String
  | .int v => "i:" ++ toString v
  | .str s => "s:" ++ showNats s
  | .bool b => "b:" ++ (if b then "1" else "0")

def parsePVal (k v : String) : Option PVal :=
  match k with
  | "i" => v.toInt?.map .int
  | "s" => (parseNats v).map .str
  | "b" => if v = "1" then some (.bool true) else if v = "0" then some (.bool false) else none
  | _ => none

def showVal : PyVal → String
  | .none => "n"
  | .bool b => if b then "b1" else "b0"
  | .int v => "i" ++ toString v
  | .str s => "s" ++ showNats s
  | .enum v => "e" ++ toString v
  | .dt d => s!"d{d.year}.{d.month}.{d.day}.{d.hour}.{d.minute}.{d.second}.{d.micro}." ++
      (match d.offset with | none => "-" | some o => toString o)
  | .td t => s!"t{t.days}.{t.seconds}.{t.micros}"
  | .phone n t p => s!"p{t}.{p}." ++ showNats n
  | .params l => "P" ++ (if l.isEmpty then "-" else ";".intercalate (l.map fun tv => toString tv.1 ++ ":" ++ showPVal tv.2))

def parseVal (s : String) : Option PyVal :=
  let r := (s.drop 1).toString
  match s.front with
  | 'n' => if r = "" then some .none else none
  | 'b' => if r = "1" then some (.bool true) else if r = "0" then some (.bool false) else none
  | 'i' => r.toInt?.map .int
  | 's' => (parseNats r).map .str
  | 'e' => r.toInt?.map .enum
  | 'd' =>
    match r.splitOn "." with
    | [y, mo, d, h, mi, sc, us, off] =>
      match y.toNat?, mo.toNat?, d.toNat?, h.toNat?, mi.toNat?, sc.toNat?, us.toNat? with
      | some y, some mo, some d, some h, some mi, some sc, some us =>
        if off = "-" then some (.dt ⟨y, mo, d, h, mi, sc, us, none⟩)
        else off.toInt?.map fun o => .dt ⟨y, mo, d, h, mi, sc, us, some o⟩
      | _, _, _, _, _, _, _ => none
    | _ => none
  | 't' =>
    match r.splitOn "." with
    | [d, sc, us] =>
      match d.toInt?, sc.toNat?, us.toNat? with
      | some d, some sc, some us => some (.td ⟨d, sc, us⟩)
      | _, _, _ => none
    | _ => none
  | 'p' =>
    match r.splitOn "." with
    | [t, p, n] =>
      match t.toInt?, p.toInt?, parseNats n with
      | some t, some p, some n => some (.phone n t p)
      | _, _, _ => none
    | _ => none
  | 'P' =>
    if r = "-" then some (.params [])
    else ((r.splitOn ";").mapM fun (e : String) =>
      match e.splitOn ":" with
      | [t, k, v] => match t.toInt?, parsePVal k v with | some t, some v => some (t, v) | _, _ => none
      | _ => none).map .params
  | _ => none

def splitEq (s : String) : Option (String × String) :=
  match s.splitOn "=" with
  | k :: v :: rest => some (k, "=".intercalate (v :: rest))
  | _ => none

def showObj (o : Obj) : String :=
  o.cls ++ " " ++ " ".intercalate (o.attrs.map fun kv => kv.1 ++ "=" ++ showVal kv.2)

def parseObj (ws : List String) : Option Obj :=
  match ws with
  | cls :: rest => (rest.mapM fun w => (splitEq w).bind fun kv => (parseVal kv.2).map fun v => (kv.1, v)).map fun a => ⟨cls, a⟩
  | [] => none

def showLeaf : JLeaf → String
  | .null => "n"
  | .bool b => if b then "b1" else "b0"
  | .int v => "i" ++ toString v
  | .float us => "f" ++ toString us
  | .str s => "s" ++ showNats s

def parseLeaf (s : String) : Option JLeaf :=
  let r := (s.drop 1).toString
  match s.front with
  | 'n' => if r = "" then some .null else none
  | 'b' => if r = "1" then some (.bool true) else if r = "0" then some (.bool false) else none
  | 'i' => r.toInt?.map .int
  | 'f' => r.toInt?.map .float
  | 's' => (parseNats r).map .str
  | _ => none

def showDict (kv : List (String × JLeaf)) : String :=
  "{" ++ "&".intercalate (kv.map fun p => p.1 ++ "=" ++ showLeaf p.2) ++ "}"

def parseDict (s : String) : Option (List (String × JLeaf)) :=
  if s.startsWith "{" ∧ s.endsWith "}" then
    let inner := ((s.drop 1).toString.dropEnd 1).toString
    if inner = "" then some []
    else (inner.splitOn "&").mapM fun e => (splitEq e).bind fun kv => (parseLeaf kv.2).map fun l => (kv.1, l)
  else none

def showJVal : JVal → String
  | .leaf l => showLeaf l
  | .obj kv => showDict kv
  | .arr l => "[" ++ ";".intercalate (l.map showDict) ++ "]"

def parseJVal (s : String) : Option JVal :=
  if s.startsWith "{" then (parseDict s).map .obj
  else if s.startsWith "[" ∧ s.endsWith "]" then
    let inner := ((s.drop 1).toString.dropEnd 1).toString
    if inner = "" then some (.arr []) else ((inner.splitOn ";").mapM parseDict).map .arr
  else (parseLeaf s).map .leaf

def showTop (j : JTop) : String := " ".intercalate (j.map fun kv => kv.1 ++ "=" ++ showJVal kv.2)

def parseTop (ws : List String) : Option JTop :=
  ws.mapM fun w => (splitEq w).bind fun kv => (parseJVal kv.2).map fun v => (kv.1, v)

def step (ws : List String) : Option String :=
  match ws with
  | "json.rt" :: rest =>
    match parseObj rest with
    | none => some "bad-op"
    | some o =>
      match toJson o with
      | .error e => some (showExc e)
      | .ok j =>
        some ("ok " ++ showTop j ++ " | " ++ (match fromJson j with
          | .ok o' => showObj o'
          | .error e => showExc e))
  | "json.dec" :: rest =>
    match parseTop rest with
    | none => some "bad-op"
    | some j =>
      some (match fromJson j with
        | .ok o => "ok " ++ showObj o
        | .error e => showExc e)
  | _ => none

end SmppVerif.DriverJson
