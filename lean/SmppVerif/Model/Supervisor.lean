/-
Tier 3: model of ESME.start() / connect() / stop() as a function of a fault script.

One element of the script is what happens to one connect cycle:
  connFail d        open_connection fails after d ms (refused, unreachable: 0; hangs: socket_timeout)
  bindFail d        connected, bind request written, then the bind fails after d ms (error status, wrong
                    response, EOF, reset, unparsable answer: 0; no answer: socket_timeout)
  session c d g     bound after c ms (connection set-up and bind answer); d ms later the session ends by
                    itself (EOF, reset, peer unbind, keeper time-out, unusable header); its tasks
                    need g ms to end (0.5 s grace each)
`stop` is the time stop() is called (none: never), `lat` the time a bound session needs to wind
down after stop() (unbind written, tasks ended: at most enquire_link_interval + 1 s when the peer is
silent) and `gs` the time the freshly started tasks need to end when stop() was called before the bind
completed (one pending task).
Times in ms.  Events are what the environment can observe.
-/
import SmppVerif.Model.Policy

namespace SmppVerif.Supervisor
open SmppVerif SmppVerif.Policy

inductive Outcome where
  | connFail (d : Nat)
  | bindFail (d : Nat)
  | session (c d g : Nat)
  deriving DecidableEq, Repr, Inhabited

inductive Ev where
  | connect (t : Nat)
  | bound (t : Nat)
  | unbind (t : Nat)          -- unbind written because stop() found the session bound
  | returned (t : Nat)        -- start() returns
  deriving DecidableEq, Repr, Inhabited

structure St where
  t : Nat
  bo : Backoff
  deriving Repr

def stopped (stop : Option Nat) (t : Nat) : Bool :=
  match stop with
  | some ts => ts ≤ t
  | none => false

/-- after a cycle ended at time `t`: the two shutdown checks around `retry_timer.wait()` -/
def afterCycle (stop : Option Nat) (s : St) : St × Option Nat :=
  if stopped stop s.t then (s, some s.t)
  else
    let w := s.bo.wait
    let t' := s.t + w.2
    if stopped stop t' then ({ t := t', bo := w.1 }, some t') else ({ t := t', bo := w.1 }, none)

/-- the connect cycles; returns the events and whether start() returned -/
def run (stop : Option Nat) (lat gs : Nat) : St → List Outcome → List Ev
  | _, [] => []
  | s, o :: rest =>
    match o with
    | .connFail d | .bindFail d =>
      let r := afterCycle stop { s with t := s.t + d }
      .connect s.t :: (match r.2 with
        | some tr => [.returned tr]
        | none => run stop lat gs r.1 rest)
    | .session c d g =>
      -- the bind succeeds at s.t + c; the back-off is reset
      let b := s.bo.reset
      let tb := s.t + c
      if stopped stop tb then
        -- stop() was called before the bind completed: unbind at once, the tasks end
        .connect s.t :: .bound tb :: .unbind tb :: [.returned (tb + gs)]
      else
        match stop with
        | some ts =>
          if ts < tb + d then
            -- stop() while bound
            .connect s.t :: .bound tb :: .unbind ts :: [.returned (ts + lat)]
          else
            let r := afterCycle stop { t := tb + d + g, bo := b }
            .connect s.t :: .bound tb :: (match r.2 with
              | some tr => [.returned tr]
              | none => run stop lat gs r.1 rest)
        | none =>
          let r := afterCycle stop { t := tb + d + g, bo := b }
          .connect s.t :: .bound tb :: run stop lat gs r.1 rest

def connects (evs : List Ev) : List Nat := evs.filterMap fun | .connect t => some t | _ => none
def returnedAt (evs : List Ev) : Option Nat := evs.findSome? fun | .returned t => some t | _ => none

/-! ### the connections of a run -/

/-- a connection is established / closed by the ESME -/
inductive CEv where
  | opened (t : Nat)
  | closed (t : Nat)
  deriving DecidableEq, Repr, Inhabited

/-- the connect cycles again, observing the connections: one is established when `open_connection` returns (not when it
    fails or hangs); it is closed at the end of its cycle - when the bind failed, when the tasks of the session have ended -
    or by stop(): at once when the session is bound, right after the bind when stop() came earlier -/
-- (`early`: see the grace period below)
def conns (stop : Option Nat) (early : Bool) : St → List Outcome → List CEv
  | _, [] => []
  | s, o :: rest =>
    match o with
    | .connFail d =>
      let r := afterCycle stop { s with t := s.t + d }
      (match r.2 with
        | some _ => []
        | none => conns stop early r.1 rest)
    | .bindFail d =>
      let r := afterCycle stop { s with t := s.t + d }
      .opened s.t :: .closed (s.t + d) :: (match r.2 with
        | some _ => []
        | none => conns stop early r.1 rest)
    | .session c d g =>
      let b := s.bo.reset
      let tb := s.t + c
      if stopped stop tb then [.opened tb, .closed tb]
      else
        match stop with
        | some ts =>
          if ts < tb + d then [.opened tb, .closed ts]
          else
            -- stop() while the tasks of a session that ended by itself are still ending closes the connection at once when
            -- it can still be written to (`early`: the peer closed, unbound or sent garbage), not when the peer reset it
            let r := afterCycle stop { t := tb + d + g, bo := b }
            .opened tb :: .closed (if early then min ts (tb + d + g) else tb + d + g) :: (match r.2 with
              | some _ => []
              | none => conns stop early r.1 rest)
        | none =>
          let r := afterCycle stop { t := tb + d + g, bo := b }
          .opened tb :: .closed (tb + d + g) :: conns stop early r.1 rest

end SmppVerif.Supervisor
