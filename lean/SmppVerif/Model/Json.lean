/-
Model of aiosmpplib/jsonutils.py (`_json_default`, `dict_to_smpp_message`) and of the
`from_json` class methods of protocol.py, as an interpreter over the regenerated class shapes
(`Gen/Shape.lean`): which fields a class has and what each `from_json` does with which key is
read from the source on every run; what the five argument patterns *mean* is written here.

Outside the model (trusted, swept by the correspondence): json.dumps / json.loads themselves
(the model works on the tree between them), `datetime.isoformat` / `fromisoformat` (modelled
below on the format isoformat emits, whole-second offsets), float exactness of
`timedelta.total_seconds()` / `timedelta(seconds=…)` (a float is the exact number of
microseconds it denotes).
-/
import SmppVerif.Model.JsonBase
import SmppVerif.Gen.Shape
import SmppVerif.Gen.Enums

namespace SmppVerif.Json
open SmppVerif SmppVerif.Time

def codes (s : String) : List Nat := s.toList.map Char.toNat

/-! ### isoformat / fromisoformat -/

/-- `'%0wd' % n` -/
def fmtW : Nat → Nat → List Nat
  | 0, _ => []
  | w + 1, n => fmtW w (n / 10) ++ [48 + n % 10]

/-- all-digit string to number -/
def parseW (s : List Nat) : Option Nat :=
  s.foldl (fun acc c => acc.bind fun a => if isDigit c then some (a * 10 + (c - 48)) else none) (some 0)

/-- `utcoffset` part of isoformat: sign, HH:MM, and :SS when the offset has seconds -/
def isoOffset (off : Int) : List Nat :=
  let a := off.natAbs
  (if off < 0 then 45 else 43) :: (fmtW 2 (a / 3600) ++ [58] ++ fmtW 2 (a % 3600 / 60)
    ++ (if a % 60 = 0 then [] else 58 :: fmtW 2 (a % 60)))

def offStr : Option Int → List Nat
  | none => []
  | some o => isoOffset o

/-- `datetime.isoformat()` -/
def iso (d : DateTime) : List Nat :=
  fmtW 4 d.year ++ [45] ++ fmtW 2 d.month ++ [45] ++ fmtW 2 d.day ++ [84] ++ fmtW 2 d.hour ++ [58]
    ++ fmtW 2 d.minute ++ [58] ++ fmtW 2 d.second
    ++ (if d.micro = 0 then [] else 46 :: fmtW 6 d.micro)
    ++ offStr d.offset

/-- offset suffix: `±HH:MM` or `±HH:MM:SS`, nothing else -/
def parseOffset (s : List Nat) : Except Exc (Option Int) :=
  match s with
  | [] => .ok none
  | sg :: r =>
    if (sg = 43 ∨ sg = 45) ∧ (r.length = 5 ∨ r.length = 8) ∧ r.getD 2 0 = 58 ∧ (r.length = 8 → r.getD 5 0 = 58) then
      match parseW (r.take 2), parseW ((r.drop 3).take 2), (if r.length = 8 then parseW (r.drop 6) else some 0) with
      | some hh, some mm, some ss =>
        if hh < 24 ∧ mm < 60 ∧ ss < 60 then
          let a : Int := hh * 3600 + mm * 60 + ss
          .ok (some (if sg = 45 then -a else a))
        else .error .valueError
      | _, _, _ => .error .runtimeError
    else .error .runtimeError           -- a form isoformat() does not emit: outside the model

/-- `datetime.fromisoformat(s)` on the strings `isoformat()` emits (anything else:
    RuntimeError = outside the model; out-of-range fields: ValueError as in CPython) -/
def fromIso (s : List Nat) : Except Exc DateTime :=
  if 19 ≤ s.length ∧ s.getD 4 0 = 45 ∧ s.getD 7 0 = 45 ∧ s.getD 10 0 = 84 ∧ s.getD 13 0 = 58 ∧ s.getD 16 0 = 58 then
    match parseW (s.take 4), parseW ((s.drop 5).take 2), parseW ((s.drop 8).take 2),
          parseW ((s.drop 11).take 2), parseW ((s.drop 14).take 2), parseW ((s.drop 17).take 2) with
    | some y, some mo, some d, some h, some mi, some sec =>
      let rest := s.drop 19
      let frac : Except Exc (Nat × List Nat) :=
        if rest.head? = some 46 then
          if 7 ≤ rest.length then
            match parseW ((rest.drop 1).take 6) with
            | some us => .ok (us, rest.drop 7)
            | none => .error .runtimeError
          else .error .runtimeError
        else .ok (0, rest)
      match frac with
      | .error e => .error e
      | .ok (us, rest2) =>
        match parseOffset rest2 with
        | .error e => .error e
        | .ok off =>
          if validDateTime y mo d h mi sec us then
            .ok { year := y, month := mo, day := d, hour := h, minute := mi, second := sec, micro := us, offset := off }
          else .error .valueError
    | _, _, _, _, _, _ => .error .runtimeError
  else .error .runtimeError

/-- microseconds a timedelta denotes (`total_seconds()` as an exact number) -/
def tdMicros (t : TimeDelta) : Int := (t.days * 86400 + t.seconds) * 1000000 + t.micros

/-- `timedelta(seconds=x)` for a float denoting `us` microseconds -/
def tdOfMicros (us : Int) : TimeDelta :=
  { days := us / 86400000000, seconds := ((us % 86400000000) / 1000000).toNat, micros := (us % 1000000).toNat }

/-! ### enums -/

def enumTable (e : String) : List (String × Nat) :=
  if e = "SmppCommandStatus" then Gen.Enums.smppCommandStatus
  else if e = "TON" then Gen.Enums.ton
  else if e = "NPI" then Gen.Enums.npi
  else []

def isMember (e : String) (v : Int) : Bool := 0 ≤ v && (enumTable e).any (·.2 = v.toNat)

/-! ### `_json_default` -/

def pvalToJson : PVal → JLeaf
  | .int v => .int v | .str s => .str s | .bool b => .bool b

def phoneKey (i : Nat) : String := (Gen.Shape.phoneFields.getD i ("", .other)).1
def paramKey (i : Nat) : String := Gen.Shape.paramFields.getD i ""

/-- JSON image of an attribute value: dataclasses become their `__dict__`, a datetime its
    isoformat, a timedelta its total_seconds -/
def valToJson : PyVal → JVal
  | .none => .leaf .null
  | .bool b => .leaf (.bool b)
  | .int v => .leaf (.int v)
  | .str s => .leaf (.str s)
  | .enum v => .leaf (.int v)
  | .dt d => .leaf (.str (iso d))
  | .td t => .leaf (.float (tdMicros t))
  | .phone n t p => .obj [(phoneKey 0, .str n), (phoneKey 1, .int t), (phoneKey 2, .int p)]
  | .params l => .arr (l.map fun tv => [(paramKey 0, .int tv.1), (paramKey 1, pvalToJson tv.2)])

def isPrivate (k : String) : Bool := k.startsWith "_"

def findClass (name : String) : Option ClassInfo := Gen.Shape.classes.find? (·.name = name)

/-- `json_encode(m)` up to `json.dumps`: the type key, then the public attributes -/
def toJson (o : Obj) : Except Exc JTop :=
  match findClass o.cls with
  | none => .error .typeError
  | some c =>
    .ok ((Gen.Shape.typeKeyWritten, .leaf (.str (codes c.command))) ::
         ((if Gen.Shape.privateFiltered then o.attrs.filter (fun kv => !isPrivate kv.1) else o.attrs).map
            fun kv => (kv.1, valToJson kv.2)))

/-! ### `from_json` -/

def jget (j : List (String × α)) (k : String) : Option α := (j.find? (·.1 = k)).map (·.2)

def leafToPy : JLeaf → Except Exc PyVal
  | .null => .ok .none
  | .bool b => .ok (.bool b)
  | .int v => .ok (.int v)
  | .str s => .ok (.str s)
  | .float _ => .error .runtimeError       -- a float where no float is ever written: outside the model

def leafToPVal : JLeaf → Except Exc PVal
  | .int v => .ok (.int v)
  | .str s => .ok (.str s)
  | .bool b => .ok (.bool b)
  | _ => .error .runtimeError

/-- Python truthiness of a JSON value (`if not json_object[k]`) -/
def falsy : JVal → Bool
  | .leaf .null => true
  | .leaf (.bool b) => !b
  | .leaf (.int v) => v = 0
  | .leaf (.float us) => us = 0
  | .leaf (.str s) => s.isEmpty
  | .obj kv => kv.isEmpty
  | .arr l => l.isEmpty

def enumOf (e : String) (l : JLeaf) : Except Exc Int :=
  match l with
  | .int v => if isMember e v then .ok v else .error .valueError
  | .bool b => if isMember e (if b then 1 else 0) then .ok (if b then 1 else 0) else .error .valueError
  | _ => .error .valueError

def paramOf (kt kv : String) (p : List (String × JLeaf)) : Except Exc (Int × PVal) :=
  match jget p kt, jget p kv with
  | some (.int tag), some v => (leafToPVal v).map fun x => (tag, x)
  | none, _ => .error .keyError
  | _, none => .error .keyError
  | _, _ => .error .runtimeError

/-- one constructor argument -/
def applyConv (j : JTop) : Conv → Except Exc PyVal
  | .key k =>
    match jget j k with
    | none => .error .keyError
    | some (.leaf l) => leafToPy l
    | some _ => .error .runtimeError
  | .enum e k =>
    match jget j k with
    | none => .error .keyError
    | some (.leaf l) => (enumOf e l).map .enum
    | some _ => .error .valueError
  | .phone k kn kt kp et ep =>
    match jget j k with
    | none => .error .keyError
    | some (.obj d) =>
      match jget d kn, jget d kt, jget d kp with
      | some (.str n), some t, some p =>
        match enumOf et t, enumOf ep p with
        | .ok tv, .ok pv => .ok (.phone n tv pv)
        | .error e, _ => .error e
        | _, .error e => .error e
      | none, _, _ => .error .keyError
      | _, none, _ => .error .keyError
      | _, _, none => .error .keyError
      | _, _, _ => .error .runtimeError
    | some _ => .error .typeError
  | .time k =>
    match jget j k with
    | none => .error .keyError
    | some (.leaf (.str s)) => (fromIso s).map .dt
    | some (.leaf (.float us)) => .ok (.td (tdOfMicros us))
    | some _ => .ok .none
  | .params k kt kv =>
    match jget j k with
    | none => .error .keyError
    | some v =>
      if falsy v then .ok (.params [])
      else match v with
        | .arr l => (l.mapM (paramOf kt kv)).map .params
        | _ => .error .typeError
  | .unknown => .error .runtimeError

/-- `cls(**kwargs)`: every field from its recipe, else its default -/
def buildField (c : ClassInfo) (j : JTop) (f : Field) : Except Exc (String × PyVal) :=
  match jget c.recipe f.name with
  | some conv => (applyConv j conv).map fun v => (f.name, v)
  | none =>
    match f.dflt with
    | some d => .ok (f.name, d)
    | none => .error .typeError

/-- `dict_to_smpp_message(obj)` -/
def fromJson (j : JTop) : Except Exc Obj :=
  match jget j Gen.Shape.typeKeyRead with
  | some (.leaf (.str name)) =>
    if name.isEmpty then .error .valueError
    else
      -- SmppCommand[name] (KeyError), MESSAGE_TYPE_MAP[command] (KeyError), class.from_json
      match Gen.Enums.smppCommand.find? (fun p => codes p.1 = name) with
      | none => .error .keyError
      | some (cmdName, _) =>
        match jget Gen.Shape.typeMap cmdName with
        | none => .error .keyError
        | some clsName =>
          match findClass clsName with
          | none => .error .runtimeError
          | some c => (c.fields.mapM (buildField c j)).map fun attrs => ⟨c.name, attrs⟩
  | some (.leaf .null) | none => .error .valueError
  | some (.leaf (.int v)) => if v = 0 then .error .valueError else .error .keyError
  | some _ => .error .runtimeError

end SmppVerif.Json
