/-
Types of the JSON model (C12): Python-side values of public message attributes, JSON trees
of the depth `json_encode` produces for a message, and the *shape* of a message class — its
dataclass fields and the recipe by which its `from_json` rebuilds each constructor argument.
`Gen/Shape.lean` (regenerated from the source on every run) instantiates these.
-/
import SmppVerif.Model.Time

namespace SmppVerif.Json
open SmppVerif

/-- value of an OptionalParam -/
inductive PVal where
  | int (v : Int) | str (s : List Nat) | bool (b : Bool)
  deriving DecidableEq, Repr, Inhabited

/-- value of a public attribute -/
inductive PyVal where
  | none
  | bool (b : Bool)
  | int (v : Int)
  | str (s : List Nat)
  | enum (v : Int)                                   -- IntEnum member (its class is the field's kind)
  | dt (d : Time.DateTime)
  | td (t : Time.TimeDelta)
  | phone (number : List Nat) (ton npi : Int)        -- PhoneNumber dataclass
  | params (l : List (Int × PVal))                   -- list of OptionalParam dataclasses
  deriving DecidableEq, Repr, Inhabited

/-- declared type of a dataclass field -/
inductive Kind where
  | int | str | bool | optStr | optInt
  | enum (name : String)
  | phone | time | params
  | other                                            -- an annotation the extractor does not know
  deriving DecidableEq, Repr, Inhabited

/-- how `from_json` computes one constructor argument from the JSON object -/
inductive Conv where
  | key (k : String)                                 -- json_object[k]
  | enum (e : String) (k : String)                   -- E(json_object[k])
  | phone (k kn kt kp : String) (et ep : String)     -- PhoneNumber(d[kn], ET(d[kt]), EP(d[kp])), d = json_object[k]
  | time (k : String)                                -- str → fromisoformat, float → timedelta(seconds=), else None
  | params (k kt kv : String)                        -- [] if falsy else [OptionalParam(p[kt], p[kv]) for p in json_object[k]]
  | unknown                                          -- any other expression
  deriving DecidableEq, Repr, Inhabited

structure Field where
  name : String
  kind : Kind
  /-- the constructor default (used when `from_json` does not pass the argument); `none` = required -/
  dflt : Option PyVal
  deriving DecidableEq, Repr, Inhabited

structure ClassInfo where
  name : String
  /-- `smpp_command.name` -/
  command : String
  fields : List Field
  /-- constructor argument ↦ expression, as written in the `from_json` the class resolves to -/
  recipe : List (String × Conv)
  deriving DecidableEq, Repr, Inhabited

/-- a message object: class and public attributes in `__dict__` order -/
structure Obj where
  cls : String
  attrs : List (String × PyVal)
  deriving DecidableEq, Repr, Inhabited

inductive JLeaf where
  | null | bool (b : Bool) | int (v : Int)
  | float (us : Int)                                 -- a float, as the exact number of microseconds it denotes
  | str (s : List Nat)
  deriving DecidableEq, Repr, Inhabited

inductive JVal where
  | leaf (l : JLeaf)
  | obj (kv : List (String × JLeaf))
  | arr (l : List (List (String × JLeaf)))
  deriving DecidableEq, Repr, Inhabited

abbrev JTop := List (String × JVal)

end SmppVerif.Json
