/-
Models of the small policy objects:
  sequence.py   SimpleSequenceGenerator, assert_valid_sequence
  retrytimer.py SimpleExponentialBackoff
  ratelimiter.py SimpleRateLimiter (token bucket, exact rational arithmetic)
  throttle.py   SimpleThrottleHandler
Time is a rational number of seconds (the harness feeds dyadic values so that the
implementation's doubles are exact, DESIGN §5.5).
-/
import SmppVerif.Model.Base
import SmppVerif.Gen.Consts

namespace SmppVerif.Policy
open SmppVerif

/-! ### sequence.py -/

structure SeqGen where
  minNum : Nat
  maxNum : Nat
  cur : Nat            -- `sequence_num`; starts at min_num - 1
  deriving DecidableEq, Repr

def SeqGen.init (minNum maxNum : Nat) : SeqGen := ⟨minNum, maxNum, minNum - 1⟩

/-- `next_sequence()`: new state and returned number -/
def SeqGen.next (g : SeqGen) : SeqGen × Nat :=
  if g.cur = g.maxNum then ({ g with cur := g.minNum }, g.minNum)
  else ({ g with cur := g.cur + 1 }, g.cur + 1)

/-- `assert_valid_sequence` -/
def assertValidSequence (n : Int) : Except Exc Unit :=
  if (Gen.Consts.minSequenceNumber : Int) ≤ n ∧ n ≤ Gen.Consts.maxSequenceNumber then .ok ()
  else .error .valueError

/-- the numbers returned by `k` consecutive calls -/
def SeqGen.take : Nat → SeqGen → List Nat
  | 0, _ => []
  | k + 1, g => let (g', n) := g.next; n :: SeqGen.take k g'

/-! ### retrytimer.py -/

structure Backoff where
  minDelay : Nat       -- ms
  maxDelay : Nat       -- ms = min_delay * 2^max_increases
  nextDelay : Nat      -- ms; 0 = first retry immediately
  deriving DecidableEq, Repr

def Backoff.init (minDelay maxIncreases : Nat) : Backoff :=
  ⟨minDelay, minDelay * 2 ^ maxIncreases, 0⟩

/-- `wait()`: new state and the delay slept (ms; 0 = returns at once) -/
def Backoff.wait (b : Backoff) : Backoff × Nat :=
  if b.nextDelay = 0 then ({ b with nextDelay := b.minDelay }, 0)
  else ({ b with nextDelay := if b.nextDelay < b.maxDelay then b.nextDelay * 2 else b.nextDelay },
        b.nextDelay)

def Backoff.reset (b : Backoff) : Backoff := { b with nextDelay := 0 }

/-- delays of `k` consecutive waits (no reset in between) -/
def Backoff.delays : Nat → Backoff → List Nat
  | 0, _ => []
  | k + 1, b => let (b', d) := b.wait; d :: Backoff.delays k b'

/-! ### ratelimiter.py -/

structure Bucket where
  rate : Rat           -- send_rate = max_tokens
  tokens : Rat
  updatedAt : Rat
  delivered : Nat      -- messages_delivered
  deriving Repr

def Bucket.init (rate now : Rat) : Bucket := ⟨rate, rate, now, 0⟩

/-- `_add_new_tokens()` at time `now` (after repair 33c88a9 the effective-rate statistic, the
    only place that could fail, is guarded; it does not influence the decision) -/
def Bucket.addNewTokens (b : Bucket) (now : Rat) : Bucket :=
  let newTokens := (now - b.updatedAt) * b.rate
  if newTokens > 1 then
    { b with tokens := min (b.tokens + newTokens) b.rate, updatedAt := now, delivered := 0 }
  else b

/-- one attempt of `limit()` at time `now`: refill, then pass (consume a token, `true`) or
    go to sleep for `delay_for_tokens` = 1 s and retry (`false`) -/
def Bucket.attempt (b : Bucket) (now : Rat) : Bucket × Bool :=
  let b' := b.addNewTokens now
  if b'.tokens < 1 then (b', false)
  else ({ b' with tokens := b'.tokens - 1, delivered := b'.delivered + 1 }, true)

/-- attempts at the given times, counting the passes -/
def Bucket.run (b : Bucket) : List Rat → Bucket × Nat
  | [] => (b, 0)
  | t :: ts =>
    let (b1, p) := b.attempt t
    let (b2, n) := Bucket.run b1 ts
    (b2, n + (if p then 1 else 0))

/-! ### throttle.py -/

structure Throttle where
  samplingPeriod : Rat
  sampleSize : Rat
  denyAt : Rat
  nonThrottle : Nat
  throttle : Nat
  updatedAt : Rat
  deriving Repr

/-- Python `round(x, 2)` on an exact rational: round-half-even to two decimals -/
def round2 (x : Rat) : Rat :=
  let y := x * 100
  let f := y.floor
  let d := y - f
  let n : Int := if d < 1/2 then f else if d > 1/2 then f + 1 else (if f % 2 = 0 then f else f + 1)
  (n : Rat) / 100

/-- `percent_throttles` -/
def Throttle.percent (t : Throttle) : Rat :=
  let total := t.nonThrottle + t.throttle
  if (total : Rat) < t.sampleSize then 0
  else round2 ((t.throttle : Rat) / (total : Rat) * 100)

/-- `allow_request()` at time `now`: percentage computed before the window reset -/
def Throttle.allow (t : Throttle) (now : Rat) : Throttle × Bool :=
  let p := t.percent
  let t' := if now - t.updatedAt > t.samplingPeriod
            then { t with nonThrottle := 0, throttle := 0, updatedAt := now } else t
  (t', decide (p ≤ t.denyAt))

def Throttle.throttled (t : Throttle) : Throttle := { t with throttle := t.throttle + 1 }
def Throttle.notThrottled (t : Throttle) : Throttle := { t with nonThrottle := t.nonThrottle + 1 }

end SmppVerif.Policy
