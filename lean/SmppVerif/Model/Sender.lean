/-
Tier 3: one iteration of ESME._dequeue_messages for a SubmitSm — the segmentation decision
(esme.py 445-490), then `pdu()` of every message to send — as far as the wire and the life of
the Sender task are concerned: the PDUs written, or the exception handed to send_error and
whether the loop goes on.  Which classes let the loop go on is regenerated from esme.py
(Gen/Catch.senderContinues).
-/
import SmppVerif.Model.Pdu
import SmppVerif.Model.Split
import SmppVerif.Model.Receiver

namespace SmppVerif.Sender
open SmppVerif SmppVerif.Pdu

/-- the `encoding` argument of split_sms as the splitters read it -/
def splitEnc (e : Option Enc) : Split.Enc :=
  match e with
  | none => .auto
  | some x => if x.name.isEmpty then .auto else if x.name = encGsm.name then .gsm else .other

/-- `clone()`, `set_encoded_message(part)`, the three SAR parameters appended -/
def segment (m : Sm) (ref total : Nat) (ip : Nat × List Nat) : Sm :=
  { m with encoded := ip.2,
           optionalParams := m.optionalParams ++
             [⟨Gen.Tlv.sarMsgRefNum, .int ref⟩, ⟨Gen.Tlv.sarSegmentSeqnum, .int (ip.1 + 1)⟩,
              ⟨Gen.Tlv.sarTotalSegments, .int total⟩] }

def segments (m : Sm) (ref : Nat) (parts : List (List Nat)) : List Sm :=
  (List.zip (List.range parts.length) parts).map (segment m ref parts.length)

/-- the messages one dequeued SubmitSm turns into; `ref` is the reference number drawn for it -/
def prepare (dflt : Enc) (ref : Nat) (m : Sm) : Except Exc (List Sm) :=
  if m.autoPayload then .ok [m]
  else if udhi m.esmClass then
    let gsm := Gsm.isGsmText m.shortMessage
    match Split.splitSmsUdh (if gsm then .gsm else .other) ref m.shortMessage with
    | .error e => .error e
    | .ok parts =>
      -- `esm_class & 0b10111111` on a Python int (two's complement): the low octet with bit 6 cleared
      if parts.length = 1 then .ok [{ m with esmClass := m.esmClass % 256 - 64 }]
      else
        let m' := { m with encoding := some (if gsm then encGsm else encUcs2) }
        if parts.length > 1 then .ok (segments m' ref parts) else .ok [m']
  else
    match smppEncode dflt m m.shortMessage with
    | .error e => .error e
    | .ok (msg, enc') =>
      let m1 := { m with encoding := enc' }
      match Split.splitSms (splitEnc enc') m.shortMessage with
      | .error e => .error e
      | .ok parts =>
        if parts.length = 1 then .ok [{ m1 with encoded := msg }]
        else if parts.length > 1 then .ok (segments m1 ref parts) else .ok [m1]

inductive Result where
  | sent (pdus : List (List Nat))                 -- every PDU written, no send_error
  | failed (written : List (List Nat)) (e : Exc)  -- send_error(e) after these PDUs
  deriving DecidableEq, Repr, Inhabited

/-- write the PDUs of the prepared messages with consecutive sequence numbers until one fails -/
def sendAll (dflt : Enc) : Int → List Sm → List (List Nat) → Result
  | _, [], acc => .sent acc
  | seq, m :: rest, acc =>
    match pdu dflt (.submitSm { m with seq := seq }) with
    | .error e => .failed acc e
    | .ok (b, _) => sendAll dflt (seq + 1) rest (acc ++ [b])

def iteration (dflt : Enc) (ref : Nat) (seq : Int) (m : Sm) : Result :=
  match prepare dflt ref m with
  | .error e => .failed [] e
  | .ok ms => sendAll dflt seq ms []

/-- does the Sender task survive the iteration? -/
def survives : Result → Bool
  | .sent _ => true
  | .failed _ e => Receiver.caughtBy Gen.Catch.senderContinues e

end SmppVerif.Sender
