/-
Model of aiosmpplib/correlator.py: PersistingDict over an abstract file system (C19).

A file system is a finite map from paths to contents.  `_save` is the sequence of system
calls it performs: open(tmp, 'w') (create / truncate), write(text) (which the operating system
may perform in pieces), close, os.replace(tmp, file) (atomic).  A crash leaves the file system
in the state after any prefix of that sequence, including a partial write.

Values are abstract (`V`): what `json_encode` writes and `json_loads` + `_process_object` read
back is a parameter pair (`ser`, `parse`) whose round-trip law is C12's theorem for messages and
is swept by the correspondence for the containers around them.
-/
import SmppVerif.Model.Base

namespace SmppVerif.Persist
open SmppVerif

abbrev Path := List Nat
abbrev Bytes := List Nat

structure FS where
  files : List (Path × Bytes) := []
  deriving DecidableEq, Repr, Inhabited

def FS.read (fs : FS) (p : Path) : Option Bytes := (fs.files.find? (·.1 = p)).map (·.2)

def FS.put (fs : FS) (p : Path) (b : Bytes) : FS := ⟨(p, b) :: fs.files.filter (·.1 ≠ p)⟩

def FS.remove (fs : FS) (p : Path) : FS := ⟨fs.files.filter (·.1 ≠ p)⟩

/-- system calls of `_save` -/
inductive Sys where
  | openTrunc (p : Path)                 -- open(p, 'w'): create or truncate
  | append (p : Path) (data : Bytes)     -- write(data) reaching the file
  | replace (src dst : Path)             -- os.replace: atomic rename over dst
  deriving DecidableEq, Repr, Inhabited

def FS.step (fs : FS) : Sys → FS
  | .openTrunc p => fs.put p []
  | .append p data => fs.put p ((fs.read p).getD [] ++ data)
  | .replace src dst =>
    match fs.read src with
    | none => fs                          -- FileNotFoundError: nothing changes
    | some b => (fs.remove src).put dst b

def FS.run (fs : FS) (t : List Sys) : FS := t.foldl FS.step fs

/-- `.tmp` -/
def tmpSuffix : Path := [46, 116, 109, 112]
def tmpOf (file : Path) : Path := file ++ tmpSuffix

/-- the system calls of one `_save()` -/
def saveTrace (file : Path) (text : Bytes) : List Sys :=
  [.openTrunc (tmpOf file), .append (tmpOf file) text, .replace (tmpOf file) file]

/-- file systems a crash during `t` can leave: the state after a completed prefix, or after a
    prefix followed by a partial write -/
def crashStates (fs : FS) : List Sys → List FS
  | [] => [fs]
  | c :: rest =>
    fs :: (match c with
      | .append p data => (List.range (data.length + 1)).map fun k => fs.step (.append p (data.take k))
      | _ => []) ++ crashStates (fs.step c) rest

/-! ### the dictionary -/

/-- dictionary operations as the correlator uses them; `mutate` is a change made in place to a
    value obtained from the dictionary (no `_save`) -/
inductive Op (V : Type) where
  | set (k : List Nat) (v : V)
  | del (k : List Nat)
  | pop (k : List Nat)
  | mutate (k : List Nat) (v : V)
  deriving Repr

abbrev Mem (V : Type) := List (List Nat × V)

def mget {V} (m : Mem V) (k : List Nat) : Option V := (m.find? (·.1 = k)).map (·.2)

/-- `dict[k] = v`: an existing key keeps its position -/
def mset {V} : Mem V → List Nat → V → Mem V
  | [], k, v => [(k, v)]
  | (a, b) :: r, k, v => if a = k then (k, v) :: r else (a, b) :: mset r k v

def mdel {V} (m : Mem V) (k : List Nat) : Mem V := m.filter (·.1 ≠ k)

/-- one operation: new memory, the system calls performed, KeyError or not -/
def opStep {V} (ser : Mem V → Bytes) (file : Path) (m : Mem V) : Op V → Mem V × List Sys × Bool
  | .set k v => let m' := mset m k v; (m', if file.isEmpty then [] else saveTrace file (ser m'), true)
  | .del k =>
    match mget m k with
    | none => (m, [], false)                                    -- KeyError before `_save`
    | some _ => let m' := mdel m k; (m', if file.isEmpty then [] else saveTrace file (ser m'), true)
  | .pop k =>
    match mget m k with
    | none => (m, [], true)                                     -- default returned, nothing saved
    | some _ => let m' := mdel m k; (m', if file.isEmpty then [] else saveTrace file (ser m'), true)
  | .mutate k v =>
    match mget m k with
    | none => (m, [], true)
    | some _ => (mset m k v, [], true)

/-- `PersistingDict.__init__`: a missing or unreadable file gives the empty dictionary -/
def load {V} (parse : Bytes → Option (Mem V)) (fs : FS) (file : Path) : Mem V :=
  match fs.read file with
  | none => []
  | some b => (parse b).getD []

/-! ### store files of a SimpleCorrelator -/

def str (s : String) : List Nat := s.toList.map Char.toNat

def storeSuffixes : List Path :=
  [str "_store.json", str "_segment_store.json", str "_segment_status_store.json",
   str "_delivery_store.json", str "_delivery_segment_store.json"]

/-- os.path.join(directory, name + suffix) for a directory without trailing separator -/
def storeFile (dir name suffix : Path) : Path := dir ++ [47] ++ name ++ suffix

end SmppVerif.Persist
