/-
Tier 2: model of aiosmpplib/correlator.py SimpleCorrelator (five stores, lazy expiry with
hook calls) and of the correlation logic of esme.py `_handle_response` / `_handle_request`
(the part after a PDU has been parsed), each operation taken atomically.

Messages are abstract records: what the correlation logic reads (class, sequence number,
status, tracking fields, segmentation data, message id, text).  Dictionaries are
insertion-ordered association lists with Python's overwrite-in-place.  Time is a natural
number of quanta.
-/
import SmppVerif.Model.Base
import SmppVerif.Gen.Consts

namespace SmppVerif.Corr
open SmppVerif

/-- message classes the correlation logic distinguishes -/
inductive Kind where
  | submitSm | deliverSm | submitSmResp | genericNack | enquireLink | enquireLinkResp
  | unbind | unbindResp | bind | bindResp | other
  deriving DecidableEq, Repr, Inhabited

structure Msg where
  kind : Kind
  seq : Nat
  /-- command_status (0 = ESME_ROK) -/
  status : Nat := 0
  /-- log_id and extra_data as tokens (0 = the empty string) -/
  logId : Nat := 0
  extra : Nat := 0
  /-- `get_segmentation_data()`: (ref, segment seq, total); total = 0 when not segmented -/
  sarRef : Nat := 0
  sarSeq : Nat := 0
  sarTotal : Nat := 0
  /-- does the message carry any SAR tag (`is_segmented()`) -/
  hasSar : Bool := false
  /-- SubmitSmResp.message_id -/
  msgId : List Nat := []
  /-- text (short_message or message_payload) and which of the two carries it -/
  text : List Nat := []
  usesShort : Bool := true
  /-- receipt data of a DeliverSm: is it a receipt, the id and err the parser found -/
  isReceipt : Bool := false
  rcptId : List Nat := []
  rcptErr : Option Int := none
  deriving DecidableEq, Repr, Inhabited

/-- `isinstance(m, SubmitSm)` (DeliverSm is a subclass) -/
def Msg.isSubmitLike (m : Msg) : Bool := m.kind = .submitSm || m.kind = .deliverSm

/-! ### insertion-ordered dictionaries -/

def aget {κ ν : Type} [DecidableEq κ] (d : List (κ × ν)) (k : κ) : Option ν :=
  match d with
  | [] => none
  | (k', v) :: rest => if k' = k then some v else aget rest k

def aset {κ ν : Type} [DecidableEq κ] (d : List (κ × ν)) (k : κ) (v : ν) : List (κ × ν) :=
  match d with
  | [] => [(k, v)]
  | (k', v') :: rest => if k' = k then (k', v) :: rest else (k', v') :: aset rest k v

def adel {κ ν : Type} [DecidableEq κ] (d : List (κ × ν)) (k : κ) : List (κ × ν) :=
  d.filter fun p => p.1 ≠ k

/-! ### state -/

def sSending : Int := Gen.Consts.statusSending
def sFailed : Int := Gen.Consts.statusFailed
def sExpired : Int := Gen.Consts.statusExpired
def sSent : Int := Gen.Consts.statusSent

structure SegStatus where
  status : List (Nat × Int)
  orig : Msg
  lastResponse : Option Msg := none
  lastReceipt : Option Msg := none
  deriving DecidableEq, Repr

structure CState where
  ttlResp : Nat
  ttlDeliv : Nat
  store : List (Nat × (Nat × Msg)) := []
  segStore : List (Nat × (Nat × Nat)) := []
  segStatus : List (Nat × SegStatus) := []
  delivStore : List (List Nat × (Nat × Msg)) := []
  delivSegStore : List (Nat × (Nat × List (Nat × List Nat))) := []
  deriving DecidableEq, Repr

/-- observable effects -/
inductive Out where
  | sendError (m : Msg)                 -- hook.send_error(m, TimeoutError)
  deriving DecidableEq, Repr

/-- `max(values)`; the list is non-empty where this is used -/
def maxCode (l : List (Nat × Int)) : Int :=
  match l with
  | [] => 0
  | (_, c) :: rest => rest.foldl (fun m p => if p.2 > m then p.2 else m) c

/-- `get_cumulated_status(ref)`; the entry must exist (callers check) -/
def cumulated (s : CState) (ref : Nat) : CState × Int :=
  match aget s.segStatus ref with
  | none => (s, sSending)                -- unreachable: callers look the entry up first
  | some st =>
    if st.status.isEmpty then (s, sSending)
    else
      let code := maxCode st.status
      if code ≠ sSending ∧ code ≠ sSent then ({ s with segStatus := adel s.segStatus ref }, code)
      else (s, code)

/-- `expired(message)` -/
def expired (s : CState) (m : Msg) : CState × List Out :=
  if m.isSubmitLike then
    match aget s.segStore m.seq with
    | some (ref, sseq) =>
      let s1 := { s with segStore := adel s.segStore m.seq }
      match aget s1.segStatus ref with
      | some st =>
        let st' := { st with status := aset st.status sseq sExpired }
        let s2 := { s1 with segStatus := aset s1.segStatus ref st' }
        let (s3, code) := cumulated s2 ref
        if code = sExpired ∨ code = sFailed then (s3, [.sendError st'.orig]) else (s3, [])
      | none => (s1, [])
    | none => (s, [.sendError m])
  else (s, [])

/-- first loop of `_remove_expired`: over a snapshot of the keys, in order -/
def sweepStore (now : Nat) : List Nat → CState → CState × List Out
  | [], s => (s, [])
  | k :: ks, s =>
    match aget s.store k with
    | none => sweepStore now ks s       -- (sequentially unreachable: KeyError under interleaving)
    | some (at_, m) =>
      if now - at_ > s.ttlResp then
        let s1 := { s with store := adel s.store k }
        let (s2, o1) := expired s1 m
        let (s3, o2) := sweepStore now ks s2
        (s3, o1 ++ o2)
      else sweepStore now ks s

/-- `_remove_expired()` -/
def removeExpired (s : CState) (now : Nat) : CState × List Out :=
  let (s1, outs) := sweepStore now (s.store.map (·.1)) s
  let s2 := { s1 with
    delivStore := s1.delivStore.filter (fun p => ¬ (now - p.2.1 > s1.ttlDeliv)),
    delivSegStore := s1.delivSegStore.filter (fun p => ¬ (now - p.2.1 > s1.ttlDeliv)) }
  (s2, outs)

/-- `put(message)` -/
def put (s : CState) (now : Nat) (m : Msg) : CState × List Out :=
  let (s1, outs) := removeExpired s now
  let s2 := { s1 with store := aset s1.store m.seq (now, m) }
  if m.isSubmitLike ∧ m.sarTotal > 0 then
    let s3 := { s2 with segStore := aset s2.segStore m.seq (m.sarRef, m.sarSeq) }
    let st := match aget s3.segStatus m.sarRef with
      | some st => st
      | none => { status := (List.range' 1 m.sarTotal).map fun q => (q, sSending), orig := m }
    let st' := { st with status := aset st.status m.sarSeq sSending }
    ({ s3 with segStatus := aset s3.segStatus m.sarRef st' }, outs)
  else (s2, outs)

/-- `put_delivery(id, submit_sm)` -/
def putDelivery (s : CState) (now : Nat) (id : List Nat) (m : Msg) : CState × List Out :=
  ({ (removeExpired s now).1 with delivStore := aset (removeExpired s now).1.delivStore id (now, m) },
   (removeExpired s now).2)

/-- the segment status after a response for segment `sseq` -/
def respStatus (st : SegStatus) (sseq : Nat) (resp : Msg) : SegStatus :=
  if resp.kind = .genericNack then
    { st with status := aset st.status sseq sFailed, lastResponse := some resp }
  else if resp.status = 0 then
    { st with status := aset st.status sseq sSent,
              lastResponse := if st.lastResponse.isSome then st.lastResponse else some resp }
  else
    { st with status := aset st.status sseq sFailed, lastResponse := some resp }

/-- the per-segment status update `get` makes for a response to a registered segment -/
def updateSegOnResponse (s0 : CState) (resp m : Msg) : CState :=
  if m.isSubmitLike then
    match aget s0.segStore resp.seq with
    | some (ref, sseq) =>
      match aget s0.segStatus ref with
      | some st => { s0 with segStatus := aset s0.segStatus ref (respStatus st sseq resp) }
      | none => s0
    | none => s0
  else s0

/-- `isinstance(m, Trackable)`: carries log_id / extra_data -/
def Msg.isTrackable (m : Msg) : Bool :=
  m.kind = .submitSm || m.kind = .deliverSm || m.kind = .submitSmResp || m.kind = .genericNack

/-- the response as `get` keeps it in a segment status: with the tracking data of its request -/
def track (resp m : Msg) : Msg :=
  if resp.isTrackable then { resp with logId := m.logId, extra := m.extra } else resp

/-- `get(response)` -/
def get (s : CState) (now : Nat) (resp : Msg) : CState × List Out × Option Msg :=
  match aget s.store resp.seq with
  | none => ((removeExpired s now).1, (removeExpired s now).2, none)
  | some (_, m) =>
    ((removeExpired (updateSegOnResponse { s with store := adel s.store resp.seq } (track resp m) m) now).1,
     (removeExpired (updateSegOnResponse { s with store := adel s.store resp.seq } (track resp m) m) now).2,
     some m)

/-- `get_segmented(seq, remove)` -/
def getSegmented (s : CState) (seq : Nat) (remove : Bool) : CState × Option SegStatus × Int :=
  match aget s.segStore seq with
  | none => (s, none, 0)
  | some (ref, _) =>
    let s1 := if remove then { s with segStore := adel s.segStore seq } else s
    match aget s1.segStatus ref with
    | none => (s1, none, 0)
    | some st =>
      let (s2, code) := cumulated s1 ref
      (s2, some st, code)

/-- `get_delivery(receipt)` -/
def getDelivery (s : CState) (now : Nat) (rcpt : Msg) : CState × List Out × Option Msg :=
  let item := aget s.delivStore rcpt.rcptId
  let s0 := { s with delivStore := adel s.delivStore rcpt.rcptId }
  let s1 :=
    match item with
    | some (_, sub) =>
      match aget s0.segStore sub.seq with
      | some (ref, sseq) =>
        match aget s0.segStatus ref with
        | some st =>
          let code : Int := rcpt.rcptErr.getD Gen.Consts.dlrErrorOtherError
          let st' := { st with status := aset st.status sseq code,
                               lastReceipt := if code > 0 ∨ st.lastReceipt.isNone then some rcpt
                                              else st.lastReceipt }
          { s0 with segStatus := aset s0.segStatus ref st' }
        | none => s0
      | none => s0
    | none => s0
  let (s2, outs) := removeExpired s1 now
  (s2, outs, item.map (·.2))

/-- insertion sort of the collected segments by numeric sequence (after repair 035d175) -/
def insertSeg (p : Nat × List Nat) : List (Nat × List Nat) → List (Nat × List Nat)
  | [] => [p]
  | q :: qs => if p.1 ≤ q.1 then p :: q :: qs else q :: insertSeg p qs

def sortSegs (l : List (Nat × List Nat)) : List (Nat × List Nat) := l.foldr insertSeg []

/-- the segment dictionary for the reference of `d` after `d` has been added -/
def nextSegs (s : CState) (d : Msg) : List (Nat × List Nat) :=
  match aget s.delivSegStore d.sarRef with
  | some (_, segs) => aset segs d.sarSeq d.text
  | none => [(d.sarSeq, d.text)]

def dropSeg (s : CState) (ref : Nat) : CState := { s with delivSegStore := adel s.delivSegStore ref }

def storeSeg (s : CState) (ref now : Nat) (segs : List (Nat × List Nat)) : CState :=
  { s with delivSegStore := aset s.delivSegStore ref (now, segs) }

/-- `put_delivery_segmented(deliver_sm)`: the completed message (same object, text replaced)
    or none (after repair a281261 a first segment that already completes the message is fine). -/
def putDeliverySegmented (s : CState) (now : Nat) (d : Msg) : CState × List Out × Option Msg :=
  if (nextSegs s d).length = d.sarTotal then
    ((removeExpired (dropSeg s d.sarRef) now).1, (removeExpired (dropSeg s d.sarRef) now).2,
     some { d with text := (sortSegs (nextSegs s d)).flatMap (·.2) })
  else
    ((removeExpired (storeSeg s d.sarRef now (nextSegs s d)) now).1,
     (removeExpired (storeSeg s d.sarRef now (nextSegs s d)) now).2, none)

/-! ### esme.py: correlation part of the two handlers -/

/-- what `_handle_response` / `_handle_request` hand to the received hook -/
inductive Handled where
  | msg (m : Msg)            -- the message (possibly replaced, with tracking fields copied)
  | placeholder              -- `_SUBMIT_SM_SEGMENT`: hook gets None, request is still answered
  | dropped                  -- handler returned None
  deriving DecidableEq, Repr

/-- command a response answers (`RESPONSE_COMMAND_MAP`), as message kinds -/
def requestKindOf : Kind → Option Kind
  | .submitSmResp => some .submitSm
  | .enquireLinkResp => some .enquireLink
  | .unbindResp => some .unbind
  | .bindResp => some .bind
  | _ => none

/-- throttle-handler calls made by `_handle_response` -/
inductive ThrottleCall where
  | throttled | notThrottled
  deriving DecidableEq, Repr

def isThrottleStatus (st : Nat) : Bool := st = 0x58 || st = 0x14   -- ESME_RTHROTTLED, ESME_RMSGQFUL

/-- the response object stored as `last_response` by `get` is the very object the handler
    then copies the tracking fields onto -/
def fixLast (s : CState) (resp resp' : Msg) : CState :=
  match aget s.segStore resp.seq with
  | some (ref, _) =>
    match aget s.segStatus ref with
    | some st =>
      if st.lastResponse = some resp then
        { s with segStatus := aset s.segStatus ref { st with lastResponse := some resp' } }
      else s
    | none => s
  | none => s

/-- wrong response type for the request found under the number (`generic_nack` fits all) -/
def mismatch (resp o : Msg) : Bool :=
  if resp.kind = .genericNack then false
  else match requestKindOf resp.kind with
    | some k => o.kind ≠ k
    | none => false

/-- `isinstance(resp, (SubmitSmResp, GenericNack)) and isinstance(original, SubmitSm)` -/
def attributable (resp o : Msg) : Bool :=
  (resp.kind = .submitSmResp || resp.kind = .genericNack) && o.isSubmitLike

/-- `_handle_response` after a successful parse of an accepted response type:
    (state, hook calls of the sweeps, throttle-handler calls, what the hook is handed) -/
def handleResponse (s : CState) (now : Nat) (resp : Msg) :
    CState × List Out × List ThrottleCall × Handled :=
  match (get s now resp).2.2 with
  | none => ((get s now resp).1, (get s now resp).2.1, [], .msg resp)
  | some o =>
    if mismatch resp o then ((get s now resp).1, (get s now resp).2.1, [], .dropped)
    else if attributable resp o then
      let tc := if isThrottleStatus resp.status then [ThrottleCall.throttled] else [.notThrottled]
      let resp' := { resp with logId := o.logId, extra := o.extra }
      let s1 := fixLast (get s now resp).1 resp resp'
      -- accepted: remember the SMSC message id for the delivery receipt
      let pd := if resp.kind = .submitSmResp ∧ resp.status = 0 then putDelivery s1 now resp.msgId o
                else (s1, [])
      -- every response to a registered segment goes through the segment status (repair 30f1721)
      let gs := getSegmented pd.1 resp.seq false
      (gs.1,
        (get s now resp).2.1 ++ pd.2 ++
          (match gs.2.1 with
           | some st => if gs.2.2 = sExpired then [Out.sendError st.orig] else []
           | none => []),
        tc,
        match gs.2.1 with
        | some st =>
          if gs.2.2 = sSending then .placeholder
          else if gs.2.2 = sExpired then .placeholder          -- reported by send_error (repair dec7b5c)
          else .msg (st.lastResponse.getD resp')
        | none =>
          -- a segment whose message status is gone was reported already (repair 9f0c...)
          if o.sarTotal > 0 then .placeholder else .msg resp')
    else ((get s now resp).1, (get s now resp).2.1, [], .msg resp)

/-- `_handle_request` for a parsed DeliverSm (state, hook calls of the sweep, result) -/
def handleDeliver (s : CState) (now : Nat) (d : Msg) : CState × List Out × Handled :=
  if d.isReceipt then
    if d.rcptId.isEmpty then (s, [], .msg d)
    else
      let g := getDelivery s now d
      match g.2.2 with
      | none => (g.1, g.2.1, .msg { d with logId := 0, extra := 0 })
      | some o =>
        let gs := getSegmented g.1 o.seq true
        (gs.1, g.2.1,
          match gs.2.1 with
          | some st =>
            if gs.2.2 = sSending ∨ gs.2.2 = sSent then .placeholder
            else .msg { (st.lastReceipt.getD d) with logId := o.logId, extra := o.extra }
          | none => .msg { d with logId := o.logId, extra := o.extra })
  else if d.hasSar then
    let r := putDeliverySegmented s now d
    (r.1, r.2.1, match r.2.2 with
                 | some full => .msg full
                 | none => .placeholder)
  else (s, [], .msg d)

end SmppVerif.Corr
