/-
Tier 3 for the correlator: its operations as the event loop really runs them.  `put` and `get` are coroutines;
the only place where they give up control is the `send_error` hook awaited by the expiry sweep (`_remove_expired`
→ `expired` → `hook.send_error`).  While one operation is suspended there, other tasks run their own operations —
the Receiver handles a response, the keeper's probe or the Sender stores a request, each starting a sweep of its own
over its own snapshot of the keys.  A *turn* is what one task does between two suspensions; turns are atomic
(asyncio is cooperative), their order is the scheduler's choice.

The model keeps, per operation in flight, the sweep's clock value and the keys of its snapshot not yet visited, and
what the operation does when its sweep is through.  The tier 2 model (Model/Corr.lean) is the special case in which
every operation runs to completion before the next one starts.
-/
import SmppVerif.Model.Corr

namespace SmppVerif.SweepTasks
open SmppVerif SmppVerif.Corr

/-- a sweep that has started: the clock value it read, the keys of its snapshot not yet visited -/
structure Sweep where
  now : Nat
  keys : List Nat
  deriving DecidableEq, Repr

/-- what an operation does once its sweep is through -/
inductive After where
  | store (m : Msg)        -- `put`: the request is stored (with the clock value read then)
  | nothing                -- `get`: the lookup was made before the sweep started
  deriving DecidableEq, Repr

structure Task where
  sweep : Sweep
  after : After
  deriving DecidableEq, Repr

/-- what can be observed -/
inductive Obs where
  | timeout (key : Nat) (outs : List Out)     -- the request stored under `key` was swept out; hook calls made for it
  | matched (key : Nat) (req : Msg)           -- a response found the request stored under its number
  | unmatched (key : Nat)                     -- a response found nothing
  | stored (key : Nat) (at_ : Nat)            -- `put` stored its request
  deriving DecidableEq, Repr

/-- the two delivery stores are cleaned at the end of a sweep (nothing is awaited there) -/
def finish (s : CState) (now : Nat) : CState :=
  { s with
    delivStore := s.delivStore.filter (fun p => ¬ (now - p.2.1 > s.ttlDeliv)),
    delivSegStore := s.delivSegStore.filter (fun p => ¬ (now - p.2.1 > s.ttlDeliv)) }

/-- one turn of a sweep: visit keys until a request is swept out WITH a hook call (the sweep then awaits the hook:
    `some rest`) or the snapshot is exhausted (`none`).  A key that is no longer in the store — removed by another task
    meanwhile — is skipped.  A request swept out without a hook call (`expired` awaits nothing for a request that is
    not a submit_sm, or for a segment whose message has other segments open) does not end the turn: the code gives up
    control only where it awaits the hook. -/
def sweepTurn (now : Nat) : List Nat → CState → CState × List Obs × Option Sweep
  | [], s => (finish s now, [], none)
  | k :: ks, s =>
    match aget s.store k with
    | none => sweepTurn now ks s
    | some (at_, m) =>
      if now - at_ > s.ttlResp then
        if (expired { s with store := adel s.store k } m).2 = [] then
          ((sweepTurn now ks (expired { s with store := adel s.store k } m).1).1,
           .timeout k [] :: (sweepTurn now ks (expired { s with store := adel s.store k } m).1).2.1,
           (sweepTurn now ks (expired { s with store := adel s.store k } m).1).2.2)
        else
          ((expired { s with store := adel s.store k } m).1,
           [.timeout k (expired { s with store := adel s.store k } m).2], some ⟨now, ks⟩)
      else sweepTurn now ks s

/-- `put` after its sweep: the request is stored under its sequence number with the clock value read then; a segment is
    registered in the segment store and in its message's status -/
def storeReq (s1 : CState) (clock : Nat) (m : Msg) : CState :=
  let s2 := { s1 with store := aset s1.store m.seq (clock, m) }
  if m.isSubmitLike ∧ m.sarTotal > 0 then
    let s' := { s2 with segStore := aset s2.segStore m.seq (m.sarRef, m.sarSeq) }
    let st := match aget s'.segStatus m.sarRef with
      | some st => st
      | none => { status := (List.range' 1 m.sarTotal).map fun q => (q, sSending), orig := m }
    { s' with segStatus := aset s'.segStatus m.sarRef { st with status := aset st.status m.sarSeq sSending } }
  else s2

/-- the turn of a task: its sweep goes on; when the sweep is through, the operation completes in the same turn -/
def taskTurn (t : Task) (clock : Nat) (s : CState) : CState × List Obs × Option Task :=
  match sweepTurn t.sweep.now t.sweep.keys s with
  | (s1, obs, some rest) => (s1, obs, some { t with sweep := rest })
  | (s1, obs, none) =>
    match t.after with
    | .nothing => (s1, obs, none)
    | .store m => (storeReq s1 clock m, obs ++ [.stored m.seq clock], none)

inductive Op where
  | put (m : Msg)
  | get (resp : Msg)
  deriving DecidableEq, Repr

/-- scheduler events: a task starts an operation, or a suspended operation gets its next turn; each carries the clock -/
inductive Ev where
  | start (op : Op) (clock : Nat)
  | resume (i : Nat) (clock : Nat)
  | cancel (i : Nat)         -- the task of the suspended operation `i` is cancelled (its session ends): it takes no more turns
  deriving DecidableEq, Repr

structure World where
  cs : CState
  tasks : List Task := []
  deriving DecidableEq, Repr

/-- the lookup `get` makes before its sweep (it awaits nothing): pop, per-segment status -/
def lookup (s : CState) (resp : Msg) : CState × Obs :=
  match aget s.store resp.seq with
  | none => (s, .unmatched resp.seq)
  | some (_, m) =>
    (updateSegOnResponse { s with store := adel s.store resp.seq } (track resp m) m, .matched resp.seq m)

/-- book-keeping of the operations in flight after a turn: a new operation (`none`) or the one at index `i` -/
def place (w : World) (idx : Option Nat) (r : CState × List Obs × Option Task) : World × List Obs :=
  match idx, r.2.2 with
  | none, some t' => (⟨r.1, w.tasks ++ [t']⟩, r.2.1)
  | none, none => (⟨r.1, w.tasks⟩, r.2.1)
  | some i, some t' => (⟨r.1, w.tasks.set i t'⟩, r.2.1)
  | some i, none => (⟨r.1, w.tasks.eraseIdx i⟩, r.2.1)

def step (w : World) : Ev → World × List Obs
  | .start (.put m) clock => place w none (taskTurn ⟨⟨clock, w.cs.store.map (·.1)⟩, .store m⟩ clock w.cs)
  | .start (.get resp) clock =>
    let p := place w none (taskTurn ⟨⟨clock, (lookup w.cs resp).1.store.map (·.1)⟩, .nothing⟩ clock (lookup w.cs resp).1)
    (p.1, (lookup w.cs resp).2 :: p.2)
  | .resume i clock =>
    match w.tasks[i]? with
    | none => (w, [])
    | some t => place w (some i) (taskTurn t clock w.cs)
  | .cancel i => ({ w with tasks := w.tasks.eraseIdx i }, [])

def run (w : World) : List Ev → World × List Obs
  | [] => (w, [])
  | e :: es =>
    let (w1, o1) := step w e
    let (w2, o2) := run w1 es
    (w2, o1 ++ o2)

end SmppVerif.SweepTasks
