/- Line-protocol (de)serialisation of PDU messages and the pdu.* operations. -/
import SmppVerif.Model.Wire
import SmppVerif.Model.PduDecode

namespace SmppVerif.DriverPdu
open SmppVerif SmppVerif.Wire SmppVerif.Pdu

def showCodec : Codec → String
  | .gsm => "gsm" | .gsmPacked => "gsmp" | .ucs2 => "ucs2" | .ascii => "ascii" | .latin1 => "latin1"
  | .missing => "missing" | .opaque => "opaque"

def parseCodec : String → Option Codec
  | "gsm" => some .gsm | "gsmp" => some .gsmPacked | "ucs2" => some .ucs2 | "ascii" => some .ascii
  | "latin1" => some .latin1 | "missing" => some .missing | "opaque" => some .opaque | _ => none

/-- `name-nats/codec/dc` -/
def showEnc (e : Enc) : String :=
  showNats e.name ++ "/" ++ showCodec e.codec ++ "/" ++ (match e.dataCoding with | none => "~" | some v => toString v)

def parseEnc (s : String) : Option Enc :=
  match s.splitOn "/" with
  | [n, c, d] =>
    match parseNats n, parseCodec c with
    | some n, some c =>
      if d = "~" then some ⟨n, c, none⟩ else d.toNat?.map fun v => ⟨n, c, some v⟩
    | _, _ => none
  | _ => none

def showOptEnc : Option Enc → String
  | none => "~"
  | some e => showEnc e

def parseOptEnc (s : String) : Option (Option Enc) :=
  if s = "~" then some none else (parseEnc s).map some

def showTime : Time.TimeObj → String
  | .none => "~"
  | .abs d => s!"a.{d.year}.{d.month}.{d.day}.{d.hour}.{d.minute}.{d.second}.{d.micro}." ++
      (match d.offset with | none => "-" | some o => toString o)
  | .rel t => s!"r.{t.days}.{t.seconds}.{t.micros}"

def parseTime (s : String) : Option Time.TimeObj :=
  if s = "~" then some .none else
  match s.splitOn "." with
  | ["a", y, mo, d, h, mi, sc, us, off] =>
    match y.toNat?, mo.toNat?, d.toNat?, h.toNat?, mi.toNat?, sc.toNat?, us.toNat? with
    | some y, some mo, some d, some h, some mi, some sc, some us =>
      if off = "-" then some (.abs ⟨y, mo, d, h, mi, sc, us, none⟩)
      else off.toInt?.map fun o => .abs ⟨y, mo, d, h, mi, sc, us, some o⟩
    | _, _, _, _, _, _, _ => none
  | ["r", d, sc, us] =>
    match d.toInt?, sc.toNat?, us.toNat? with
    | some d, some sc, some us => some (.rel ⟨d, sc, us⟩)
    | _, _, _ => none
  | _ => none

def showPhone (p : Phone) : String := s!"{p.ton}.{p.npi}." ++ showNats p.number

def parsePhone (s : String) : Option Phone :=
  match s.splitOn "." with
  | [t, n, num] =>
    match t.toNat?, n.toNat?, parseNats num with
    | some t, some n, some num => some ⟨num, t, n⟩
    | _, _, _ => none
  | _ => none

def showTlv (t : Tlv) : String :=
  toString t.tag ++ ":" ++ (match t.val with
    | .int v => "i:" ++ toString v
    | .str s => "s:" ++ showNats s
    | .bool b => "b:" ++ (if b then "1" else "0"))

def showTlvs (l : List Tlv) : String := if l.isEmpty then "-" else ";".intercalate (l.map showTlv)

def parseTlv (s : String) : Option Tlv :=
  match s.splitOn ":" with
  | [t, "i", v] => match t.toInt?, v.toInt? with | some t, some v => some ⟨t, .int v⟩ | _, _ => none
  | [t, "s", v] => match t.toInt?, parseNats v with | some t, some v => some ⟨t, .str v⟩ | _, _ => none
  | [t, "b", v] => match t.toInt? with
    | some t => if v = "1" then some ⟨t, .bool true⟩ else if v = "0" then some ⟨t, .bool false⟩ else none
    | none => none
  | _ => none

def parseTlvs (s : String) : Option (List Tlv) :=
  if s = "-" then some [] else (s.splitOn ";").mapM parseTlv

def showErrH : ErrH → String
  | .mode .strict => "strict" | .mode .ignore => "ignore" | .mode .replace => "replace" | .other => "other"

def parseErrH (s : String) : Option ErrH :=
  match s with
  | "strict" => some (.mode .strict) | "ignore" => some (.mode .ignore)
  | "replace" => some (.mode .replace) | "other" => some .other | _ => none

def showSm (m : Sm) : String :=
  " ".intercalate [toString m.seq, toString m.status, showNats m.shortMessage, showPhone m.source,
    showPhone m.dest, showNats m.serviceType, toString m.esmClass, toString m.protocolId,
    toString m.priorityFlag, showTime m.schedule, showTime m.validity, toString m.registeredDelivery,
    toString m.replaceIfPresent, showOptEnc m.encoding, toString m.smDefaultMsgId, showNats m.messagePayload,
    showTlvs m.optionalParams, (if m.autoPayload then "1" else "0"), showErrH m.errorHandling,
    showNats m.logId, showNats m.extra, showHex m.encoded]

def parseSm (ws : List String) : Option Sm :=
  match ws with
  | [seq, st, sm, src, dst, svc, esm, pid, prio, sched, valid, reg, repl, enc, defid, payload, tlvs, auto,
     errh, log, extra, encoded] =>
    match seq.toInt?, st.toNat?, parseNats sm, parsePhone src, parsePhone dst, parseNats svc, esm.toInt?,
          pid.toInt?, prio.toInt? with
    | some seq, some st, some sm, some src, some dst, some svc, some esm, some pid, some prio =>
      match parseTime sched, parseTime valid, reg.toInt?, repl.toInt?, parseOptEnc enc, defid.toInt?,
            parseNats payload, parseTlvs tlvs with
      | some sched, some valid, some reg, some repl, some enc, some defid, some payload, some tlvs =>
        match parseErrH errh, parseNats log, parseNats extra, parseHex encoded with
        | some errh, some log, some extra, some encoded =>
          some { seq := seq, status := st, shortMessage := sm, source := src, dest := dst, serviceType := svc,
                 esmClass := esm, protocolId := pid, priorityFlag := prio, schedule := sched, validity := valid,
                 registeredDelivery := reg, replaceIfPresent := repl, encoding := enc, smDefaultMsgId := defid,
                 messagePayload := payload, optionalParams := tlvs, autoPayload := (auto = "1"),
                 errorHandling := errh, logId := log, extra := extra, encoded := encoded }
        | _, _, _, _ => none
      | _, _, _, _, _, _, _, _ => none
    | _, _, _, _, _, _, _, _, _ => none
  | _ => none

def bindName : BindKind → String
  | .trx => "trx" | .tx => "tx" | .rx => "rx"

def parseBindKind : String → Option BindKind
  | "trx" => some .trx | "tx" => some .tx | "rx" => some .rx | _ => none

def showMsg : Msg → String
  | .submitSm m => "submit " ++ showSm m
  | .deliverSm m => "deliver " ++ showSm m
  | .submitSmResp r => s!"submitresp {r.seq} {r.status} " ++ showNats r.messageId ++ " " ++ showNats r.logId ++ " " ++ showNats r.extra
  | .deliverSmResp r => s!"deliverresp {r.seq} {r.status} " ++ showNats r.messageId ++ " " ++ showNats r.logId ++ " " ++ showNats r.extra
  | .genericNack s st l e => s!"nack {s} {st} " ++ showNats l ++ " " ++ showNats e
  | .bind k b => s!"bind{bindName k} {b.seq} {b.status} " ++ showNats b.systemId ++ " " ++ showNats b.password ++ " " ++
      showNats b.systemType ++ s!" {b.interfaceVersion} {b.addrTon} {b.addrNpi} " ++ showNats b.addressRange
  | .bindResp k b => s!"bindresp{bindName k} {b.seq} {b.status} " ++ showNats b.systemId ++ " " ++
      (match b.scVersion with | none => "~" | some v => toString v)
  | .enquireLink s st => s!"enq {s} {st}"
  | .enquireLinkResp s st => s!"enqresp {s} {st}"
  | .unbind s st => s!"unbind {s} {st}"
  | .unbindResp s st => s!"unbindresp {s} {st}"

def parseSmResp (ws : List String) : Option SmResp :=
  match ws with
  | [seq, st, mid, log, extra] =>
    match seq.toInt?, st.toNat?, parseNats mid, parseNats log, parseNats extra with
    | some seq, some st, some mid, some log, some extra => some ⟨seq, st, mid, log, extra⟩
    | _, _, _, _, _ => none
  | _ => none

def parseSimple (ws : List String) : Option (Int × Nat) :=
  match ws with
  | [seq, st] => match seq.toInt?, st.toNat? with | some a, some b => some (a, b) | _, _ => none
  | _ => none

def parseMsg (ws : List String) : Option Msg :=
  match ws with
  | "submit" :: rest => (parseSm rest).map .submitSm
  | "deliver" :: rest => (parseSm rest).map .deliverSm
  | "submitresp" :: rest => (parseSmResp rest).map .submitSmResp
  | "deliverresp" :: rest => (parseSmResp rest).map .deliverSmResp
  | ["nack", seq, st, log, extra] =>
    match seq.toInt?, st.toNat?, parseNats log, parseNats extra with
    | some a, some b, some c, some d => some (.genericNack a b c d)
    | _, _, _, _ => none
  | "enq" :: rest => (parseSimple rest).map fun (a, b) => .enquireLink a b
  | "enqresp" :: rest => (parseSimple rest).map fun (a, b) => .enquireLinkResp a b
  | "unbind" :: rest => (parseSimple rest).map fun (a, b) => .unbind a b
  | "unbindresp" :: rest => (parseSimple rest).map fun (a, b) => .unbindResp a b
  | [kind, seq, st, sid, pw, sty, iv, ton, npi, range] =>
    if kind.startsWith "bind" ∧ ¬ kind.startsWith "bindresp" then
      match parseBindKind (kind.drop 4).toString, seq.toInt?, st.toNat?, parseNats sid, parseNats pw, parseNats sty,
            iv.toInt?, ton.toNat?, npi.toNat?, parseNats range with
      | some k, some seq, some st, some sid, some pw, some sty, some iv, some ton, some npi, some range =>
        some (.bind k ⟨seq, st, sid, pw, sty, iv, ton, npi, range⟩)
      | _, _, _, _, _, _, _, _, _, _ => none
    else none
  | [kind, seq, st, sid, sc] =>
    if kind.startsWith "bindresp" then
      match parseBindKind (kind.drop 8).toString, seq.toInt?, st.toNat?, parseNats sid with
      | some k, some seq, some st, some sid =>
        if sc = "~" then some (.bindResp k ⟨seq, st, sid, none⟩)
        else sc.toInt?.map fun v => .bindResp k ⟨seq, st, sid, some v⟩
      | _, _, _, _ => none
    else none
  | _ => none

def step (ws : List String) : Option String :=
  match ws with
  | "pdu.enc" :: dflt :: rest =>
    match parseEnc dflt, parseMsg rest with
    | some d, some m =>
      some (match pdu d m with
        | .ok (b, e) => "ok " ++ showHex b ++ " " ++ showOptEnc e
        | .error e => showExc e)
    | _, _ => some "bad-op"
  | "pdu.enc2" :: dflt :: rest =>
    match parseEnc dflt, parseMsg rest with
    | some d, some m =>
      some (match pduAgain d m with
        | .ok (b, e) => "ok " ++ showHex b ++ " " ++ showOptEnc e
        | .error e => showExc e)
    | _, _ => some "bad-op"
  | ["pdu.dec", dflt, hex] =>
    match parseEnc dflt, parseHex hex with
    | some d, some b =>
      some (match decode b d with
        | .ok m => "ok " ++ showMsg m
        | .error e => showExc e)
    | _, _ => some "bad-op"
  | ["pdu.hdr", hex] =>
    match parseHex hex with
    | some b => some (match parseHeader b with
        | .ok h => s!"ok {h.pduLength} {h.command} {h.status} {h.seq}"
        | .error e => showExc e)
    | none => some "bad-op"
  | _ => none

end SmppVerif.DriverPdu
