/- Line protocol of the tier 3 models.
   keeper <I> <T> <start> <end> <arrivals a,b,..|->  -> ok probes=<..> drop=<t|-> tie=<0|1> -/
import SmppVerif.Model.Wire
import SmppVerif.Model.Keeper

namespace SmppVerif.DriverSession
open SmppVerif SmppVerif.Wire

/-- does any comparison of the keeper run hit an exact tie? (driver only) -/
def keeperTie (I T : Nat) : Nat → List Nat → Bool
  | _, [] => false
  | s, a :: rest =>
    if a ≤ s then keeperTie I T s rest
    else if a < s + I then keeperTie I T a rest
    else if a < s + I + T then keeperTie I T a rest
    else a = s + I + T

def step (ws : List String) : Option String :=
  match ws with
  | ["keeper", i, t, s, e, arr] =>
    match i.toNat?, t.toNat?, s.toNat?, e.toNat?, parseNats arr with
    | some i, some t, some s, some e, some arr =>
      let r := Keeper.cutAt e (Keeper.keeper i t s arr)
      some ("ok probes=" ++ showNats r.1 ++ " drop=" ++ (match r.2 with | some d => toString d | none => "-")
        ++ " tie=" ++ (if keeperTie i t s arr then "1" else "0"))
    | _, _, _, _, _ => some "bad-op"
  | _ => none

end SmppVerif.DriverSession
