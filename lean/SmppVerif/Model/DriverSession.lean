/- Line protocol of the tier 3 models.
   keeper <I> <T> <start> <end> <arrivals a,b,..|->  -> ok probes=<..> drop=<t|-> tie=<0|1> -/
import SmppVerif.Model.Wire
import SmppVerif.Model.Keeper
import SmppVerif.Model.Supervisor
import SmppVerif.Model.Receiver
import SmppVerif.Model.ReceiveLoop
import SmppVerif.Model.Sender
import SmppVerif.Model.SenderLoop
import SmppVerif.Model.Discipline
import SmppVerif.Model.DriverPdu

namespace SmppVerif.DriverSession
open SmppVerif SmppVerif.Wire

/-- does any comparison of the keeper run hit an exact tie? (driver only) -/
def keeperTie (I T : Nat) : Nat → List Nat → Bool
  | _, [] => false
  | s, a :: rest =>
    if a ≤ s then keeperTie I T s rest
    else if a < s + I then keeperTie I T a rest
    else if a < s + I + T then keeperTie I T a rest
    else a = s + I + T

def parseOutcome (w : String) : Option Supervisor.Outcome :=
  match w.splitOn ":" with
  | ["cf", d] => d.toNat?.map .connFail
  | ["bf", d] => d.toNat?.map .bindFail
  | ["se", c, d, g] => match c.toNat?, d.toNat?, g.toNat? with
    | some c, some d, some g => some (.session c d g)
    | _, _, _ => none
  | _ => none

def showEv : Supervisor.Ev → String
  | .connect t => s!"connect@{t}"
  | .bound t => s!"bound@{t}"
  | .unbind t => s!"unbind@{t}"
  | .returned t => s!"returned@{t}"

def parseDEv (w : String) : Option Discipline.Ev :=
  let r := (w.drop 1).toString
  match w.front with
  | 'C' => r.toNat?.map .connect
  | 'B' => r.toNat?.map .bound
  | 'A' => (parseHex r).map .announce
  | 'R' => (parseHex r).map .recv
  | 'D' => (parseHex r).map .recvDone
  | 'W' => match r.splitOn ":" with
    | [c, h] => match c.toNat?, parseHex h with | some c, some b => some (.write c b) | _, _ => none
    | _ => none
  | 'F' => match r.splitOn ":" with
    | [c, h] => match c.toNat?, parseHex h with | some c, some b => some (.fed c b) | _, _ => none
    | _ => none
  | _ => none

def step (ws : List String) : Option String :=
  match ws with
  | "mon" :: bc :: evs =>
    match bc.toNat?, evs.mapM parseDEv with
    | some bc, some evs =>
      some (match Discipline.firstReject { bindCmd := bc } 0 evs with
        | none => "accept"
        | some i => s!"reject {i}")
    | _, _ => some "bad-op"
  | "tx" :: dflt :: ref :: seq :: "submit" :: rest =>
    match DriverPdu.parseEnc dflt, ref.toNat?, seq.toInt?, DriverPdu.parseSm rest with
    | some d, some ref, some seq, some m =>
      some (match Sender.iteration d ref seq m with
        | .sent ps => "sent " ++ (if ps.isEmpty then "-" else ";".intercalate (ps.map showHex))
        | .failed ps e => "failed " ++ (if ps.isEmpty then "-" else ";".intercalate (ps.map showHex)) ++ " " ++ e.name
            ++ (if Sender.survives (.failed ps e) then " continues" else " ends"))
    | _, _, _, _ => some "bad-op"
  | "txq" :: dflt :: smin :: smax :: scur :: rcur :: rest =>
    -- the whole queue: messages separated by "|", each "submit <fields>"
    let groups := (rest.splitBy (fun a b => a ≠ "|" ∧ b ≠ "|")).filter (· ≠ ["|"])
    let msgs := groups.mapM (fun g => match g with
      | "submit" :: f => DriverPdu.parseSm f
      | _ => none)
    match DriverPdu.parseEnc dflt, smin.toNat?, smax.toNat?, scur.toNat?, rcur.toInt?, msgs with
    | some d, some smin, some smax, some scur, some rcur, some ms =>
      let gs : SenderLoop.Gens := ⟨⟨smin, smax, scur⟩, ⟨if rcur < 0 then none else some rcur.toNat⟩⟩
      some (" / ".intercalate ((SenderLoop.loop d gs ms).map fun r => match r with
        | .sent ps => "sent " ++ (if ps.isEmpty then "-" else ";".intercalate (ps.map showHex))
        | .failed ps e => "failed " ++ (if ps.isEmpty then "-" else ";".intercalate (ps.map showHex)) ++ " " ++ e.name
            ++ (if Sender.survives (.failed ps e) then " continues" else " ends")))
    | _, _, _, _, _, _ => some "bad-op"
  | ["rxs", dflt, hex] =>
    -- the whole inbound stream: one action per PDU read
    match DriverPdu.parseEnc dflt, parseHex hex with
    | some d, some b =>
      -- what can be seen from outside: the responses written, and whether the loop was left
      some ("ok " ++ " / ".intercalate ((ReceiveLoop.receiveLoop d (b.length + 1) b).filterMap fun a => match a with
        | .respond c st sq => some s!"respond {c} {st} {sq}"
        | .ignore => none
        | .escape _ => some "escape"))
    | _, _ => some "bad-op"
  | ["rx", dflt, hex] =>
    match DriverPdu.parseEnc dflt, parseHex hex with
    | some d, some b =>
      some (match Receiver.receive b d with
        | .respond c st sq => s!"respond {c} {st} {sq}"
        | .ignore => "ignore"
        | .escape _ => "escape")
    | _, _ => some "bad-op"
  | "sup" :: mn :: inc :: stop :: lat :: gs :: outs =>
    match mn.toNat?, inc.toNat?, lat.toNat?, gs.toNat?, outs.mapM parseOutcome with
    | some mn, some inc, some lat, some gs, some outs =>
      let stop := if stop = "-" then some none else stop.toNat?.map some
      match stop with
      | some stop =>
        some ("ok " ++ " ".intercalate ((Supervisor.run stop lat gs ⟨0, Policy.Backoff.init mn inc⟩ outs).map showEv))
      | none => some "bad-op"
    | _, _, _, _, _ => some "bad-op"
  | "supc" :: mn :: inc :: stop :: early :: outs =>
    match mn.toNat?, inc.toNat?, outs.mapM parseOutcome with
    | some mn, some inc, some outs =>
      let stop := if stop = "-" then some none else stop.toNat?.map some
      match stop with
      | some stop =>
        some ("ok " ++ " ".intercalate ((Supervisor.conns stop (early == "1") ⟨0, Policy.Backoff.init mn inc⟩ outs).map fun
          | .opened t => s!"opened@{t}"
          | .closed t => s!"closed@{t}"))
      | none => some "bad-op"
    | _, _, _ => some "bad-op"
  | ["keeper", i, t, s, e, arr] =>
    match i.toNat?, t.toNat?, s.toNat?, e.toNat?, parseNats arr with
    | some i, some t, some s, some e, some arr =>
      let r := Keeper.cutAt e (Keeper.keeper i t s arr)
      some ("ok probes=" ++ showNats r.1 ++ " drop=" ++ (match r.2 with | some d => toString d | none => "-")
        ++ " tie=" ++ (if keeperTie i t s arr then "1" else "0"))
    | _, _, _, _, _ => some "bad-op"
  | _ => none

end SmppVerif.DriverSession
