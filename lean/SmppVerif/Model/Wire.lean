/- Line-protocol helpers shared by the driver: parsing and printing of fields. -/
import SmppVerif.Model.Base

namespace SmppVerif.Wire

def hexDigit (c : Char) : Option Nat :=
  if '0' ≤ c ∧ c ≤ '9' then some (c.toNat - '0'.toNat)
  else if 'a' ≤ c ∧ c ≤ 'f' then some (c.toNat - 'a'.toNat + 10)
  else if 'A' ≤ c ∧ c ≤ 'F' then some (c.toNat - 'A'.toNat + 10)
  else none

/-- hex string ("-" = empty) to octets -/
def parseHex (s : String) : Option (List Nat) :=
  if s = "-" then some [] else
  let rec go : List Char → List Nat → Option (List Nat)
    | [], acc => some acc.reverse
    | [_], _ => none
    | a :: b :: rest, acc =>
      match hexDigit a, hexDigit b with
      | some x, some y => go rest ((x * 16 + y) :: acc)
      | _, _ => none
  go s.toList []

/-- comma separated decimal numbers ("-" = empty list) -/
def parseNats (s : String) : Option (List Nat) :=
  if s = "-" then some [] else
  (s.splitOn ",").mapM (·.toNat?)

def hexOf (b : Nat) : String :=
  let d (n : Nat) : Char := if n < 10 then Char.ofNat (48 + n) else Char.ofNat (87 + n)
  String.ofList [d (b / 16 % 16), d (b % 16)]

def showHex (l : List Nat) : String :=
  if l.isEmpty then "-" else String.join (l.map hexOf)

def showNats (l : List Nat) : String :=
  if l.isEmpty then "-" else ",".intercalate (l.map toString)

def parseMode (s : String) : Option Mode :=
  match s with
  | "strict" => some .strict | "ignore" => some .ignore | "replace" => some .replace
  | _ => none

def showExc (e : Exc) : String := "exc " ++ e.name

def resHex : Except Exc (List Nat) → String
  | .ok l => "ok " ++ showHex l
  | .error e => showExc e

def resNats : Except Exc (List Nat) → String
  | .ok l => "ok " ++ showNats l
  | .error e => showExc e

def parseInt (s : String) : Option Int := s.toInt?

end SmppVerif.Wire
