/-
Tier 3: the Sender task over a whole queue — `_dequeue_messages` iterating over the messages the broker hands out,
with the two generators it draws from threaded through: the sequence-number generator (one number per `_send_data`
call, drawn BEFORE `pdu()` is built, so a PDU that cannot be built still consumes its number) and the 0..255
reference generator (one number per message queued with auto_message_payload off, split or not).  A failure whose
class is not in the isinstance tuple of esme.py is re-raised: the task ends there (the session reconnects).
-/
import SmppVerif.Model.Sender
import SmppVerif.Model.Policy

namespace SmppVerif.SenderLoop
open SmppVerif SmppVerif.Pdu SmppVerif.Sender SmppVerif.Policy

/-- `ESME._ref_seq_generator = SimpleSequenceGenerator(0, 255)`: Python's `sequence_num` starts at -1 (`none` here,
    the generators of Model/Policy.lean hold a natural number because their minimum is at least 1) -/
structure RefGen where
  cur : Option Nat
  deriving DecidableEq, Repr

def RefGen.next (g : RefGen) : RefGen × Nat :=
  match g.cur with
  | none => (⟨some 0⟩, 0)
  | some c => if c = 255 then (⟨some 0⟩, 0) else (⟨some (c + 1)⟩, c + 1)

structure Gens where
  seq : SeqGen          -- ESME.sequence_generator
  ref : RefGen          -- ESME._ref_seq_generator (0..255)
  deriving DecidableEq, Repr

/-- `_send_data` for each prepared message in turn: draw the sequence number, check it, build the PDU, write it -/
def sendAllG (dflt : Enc) : SeqGen → List Sm → List (List Nat) → SeqGen × Result
  | g, [], acc => (g, .sent acc)
  | g, m :: rest, acc =>
    let (g', n) := g.next
    match assertValidSequence n with
    | .error e => (g', .failed acc e)
    | .ok () =>
      match pdu dflt (.submitSm { m with seq := n }) with
      | .error e => (g', .failed acc e)
      | .ok (b, _) => sendAllG dflt g' rest (acc ++ [b])

/-- one iteration of the loop on the generators' current state -/
def iterationG (dflt : Enc) (gs : Gens) (m : Sm) : Gens × Result :=
  let (refGen, ref) := if m.autoPayload then (gs.ref, 0) else gs.ref.next
  match prepare dflt ref m with
  | .error e => ({ gs with ref := refGen }, .failed [] e)
  | .ok ms =>
    let (g', r) := sendAllG dflt gs.seq ms []
    ({ seq := g', ref := refGen }, r)

/-- the loop over the queue: one result per message taken from the broker; it stops after a failure that is re-raised -/
def loop (dflt : Enc) : Gens → List Sm → List Result
  | _, [] => []
  | gs, m :: ms =>
    let (gs', r) := iterationG dflt gs m
    if survives r then r :: loop dflt gs' ms else [r]

/-- the generator states the loop passes through (before each message) -/
def states (dflt : Enc) : Gens → List Sm → List Gens
  | _, [] => []
  | gs, m :: ms => gs :: states dflt (iterationG dflt gs m).1 ms

/-- what one result put on the wire -/
def wireOf : Result → List (List Nat)
  | .sent ps => ps
  | .failed ps _ => ps

end SmppVerif.SenderLoop
