/-
Tier 3: model of ESME._connection_keeper as a function of the arrival times of inbound PDUs.

Times are natural numbers (quanta of the virtual clock).  The keeper (re)starts its idle timer
at `s` — the moment it was created or the moment it last saw the data event.  The next arrival
`a` decides the iteration:
  a < s + I            the event wins the race: timer cancelled, restart at a;
  s + I ≤ a < s+I+T    the timer fired: enquire_link sent at s + I, the bounded wait ends at a;
  otherwise            enquire_link at s + I, TimeoutError at s + I + T: the keeper returns and
                       the supervisor reconnects.
Arrivals at or before `s` were consumed by the same `clear()`.  Exact ties (a = s + I,
a = s + I + T) are decided as written here; the real outcome of a tie depends on the order of
two callbacks in one loop iteration and is outside the theorems (see Props/C16).
-/
import SmppVerif.Model.Base

namespace SmppVerif.Keeper

/-- probes sent and, if the keeper gives up, when -/
def keeper (I T : Nat) : Nat → List Nat → List Nat × Option Nat
  | s, [] => ([s + I], some (s + I + T))
  | s, a :: rest =>
    if a ≤ s then keeper I T s rest
    else if a < s + I then keeper I T a rest
    else if a < s + I + T then ((s + I) :: (keeper I T a rest).1, (keeper I T a rest).2)
    else ([s + I], some (s + I + T))

/-- the keeper is interrupted (stop, session end for another reason) at `stopAt`: what it did until then -/
def cutAt (stopAt : Nat) (r : List Nat × Option Nat) : List Nat × Option Nat :=
  (r.1.filter (· < stopAt), match r.2 with | some d => if d < stopAt then some d else none | none => none)

end SmppVerif.Keeper
