/- Line protocol of the persistence model (C19):
   pd.run <file codes or -> <op> ...     ops: s:<key>:<val>  d:<key>  p:<key>  m:<key>:<val>
   -> ok <per-op: S (saved) | - (nothing written) | K (KeyError)> | mem=<k=v,..> | disk=<k=v,..|absent>
   pd.crash <file> <op>... ; the last op is crashed at every point: prints for each crash state whether the
   file loads as the dictionary before (B), after (A) or something else (X) -/
import SmppVerif.Model.Wire
import SmppVerif.Model.Persist

namespace SmppVerif.DriverPersist
open SmppVerif SmppVerif.Wire SmppVerif.Persist

/-- a concrete serialisation for the driver: (key length, key, value) triples -/
def ser (m : Mem Nat) : Bytes := m.flatMap fun kv => kv.1.length :: (kv.1 ++ [kv.2])

def parse : Nat → Bytes → Option (Mem Nat)
  | _, [] => some []
  | 0, _ => none
  | fuel + 1, n :: rest =>
    if rest.length < n + 1 then none
    else (parse fuel (rest.drop (n + 1))).map fun m => (rest.take n, rest.getD n 0) :: m

def parseAll (b : Bytes) : Option (Mem Nat) := parse (b.length + 1) b

def parseOp (s : String) : Option (Op Nat) :=
  match s.splitOn ":" with
  | ["s", k, v] => match parseNats k, v.toNat? with | some k, some v => some (.set k v) | _, _ => none
  | ["m", k, v] => match parseNats k, v.toNat? with | some k, some v => some (.mutate k v) | _, _ => none
  | ["d", k] => (parseNats k).map .del
  | ["p", k] => (parseNats k).map .pop
  | _ => none

def showMem (m : Mem Nat) : String :=
  if m.isEmpty then "-" else ";".intercalate (m.map fun kv => showNats kv.1 ++ "=" ++ toString kv.2)

def runAll (file : Path) : Mem Nat × FS × List String → List (Op Nat) → Mem Nat × FS × List String
  | s, [] => s
  | (m, fs, out), op :: rest =>
    let r := opStep ser file m op
    let tag := if !r.2.2 then "K" else if r.2.1.isEmpty then "-" else "S"
    runAll file (r.1, fs.run r.2.1, out ++ [tag]) rest

def step (ws : List String) : Option String :=
  match ws with
  | "pd.run" :: f :: ops =>
    match parseNats f, ops.mapM parseOp with
    | some file, some ops =>
      let (m, fs, out) := runAll file ([], {}, []) ops
      let disk := match fs.read file with
        | none => "absent"
        | some b => match parseAll b with | some d => showMem d | none => "unreadable"
      let tmp := match fs.read (tmpOf file) with | none => "no" | some _ => "yes"
      some ("ok " ++ " ".intercalate out ++ " | mem=" ++ showMem m ++ " | disk=" ++ disk ++ " | tmp=" ++ tmp)
    | _, _ => some "bad-op"
  | "pd.crash" :: f :: ops =>
    match parseNats f, ops.mapM parseOp with
    | some file, some ops =>
      match ops.reverse with
      | [] => some "bad-op"
      | last :: revInit =>
        let (m, fs, _) := runAll file ([], {}, []) revInit.reverse
        let r := opStep ser file m last
        let before := load parseAll fs file
        let states := crashStates fs r.2.1
        some ("ok " ++ " ".intercalate (states.map fun fs' =>
          let l := load parseAll fs' file
          -- compare by rendering (memory values are plain numbers)
          if showMem l = showMem r.1 ∧ showMem l = showMem before then "AB"
          else if showMem l = showMem before then "B" else if showMem l = showMem r.1 then "A" else "X"))
    | _, _ => some "bad-op"
  | _ => none

end SmppVerif.DriverPersist
