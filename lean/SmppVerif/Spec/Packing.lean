/-
3GPP TS 23.038 §6.1.2.1.1 — SMS packing of 7-bit characters into octets — stated as a change
of radix, a shape that shares nothing with the index/shift bookkeeping of the code:

  "the septets are laid, least significant bit first, into one bit stream, which is then cut
   into octets, least significant bit first"

Reading a bit stream LSB-first as a natural number, the septets are the base-128 digits of
that number and the octets are its base-256 digits (both little-endian).
-/
namespace SmppVerif.Spec.Packing

/-- little-endian base-128 value of a septet list -/
def val128 : List Nat → Nat
  | [] => 0
  | a :: t => a + 128 * val128 t

/-- little-endian base-256 value of an octet list -/
def val256 : List Nat → Nat
  | [] => 0
  | a :: t => a + 256 * val256 t

/-- the first `n` little-endian base-256 digits of `v` -/
def bytesOf : Nat → Nat → List Nat
  | 0, _ => []
  | n + 1, v => (v % 256) :: bytesOf n (v / 256)

/-- the first `n` little-endian base-128 digits of `v` -/
def septetsOf : Nat → Nat → List Nat
  | 0, _ => []
  | n + 1, v => (v % 128) :: septetsOf n (v / 128)

/-- number of octets needed for `n` septets: ⌈7n/8⌉ -/
def octetCount (n : Nat) : Nat := (7 * n + 7) / 8

/-- number of whole septets contained in `n` octets: ⌊8n/7⌋ -/
def septetCount (n : Nat) : Nat := 8 * n / 7

/-- the standard's packing of a septet sequence -/
def pack (s : List Nat) : List Nat := bytesOf (octetCount s.length) (val128 s)

/-- the standard's unpacking of an octet sequence (all whole septets) -/
def unpack (b : List Nat) : List Nat := septetsOf (septetCount b.length) (val256 b)

end SmppVerif.Spec.Packing
