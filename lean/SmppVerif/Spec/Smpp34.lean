/-
SMPP 3.4 (Issue 1.2) tables, transcribed by hand from the specification:
  §5.1.2.1 command ids, §5.2.19 data_coding, §5.3.2 optional parameter tags with the type and
  size of their value.  Shape unlike the code (one table of records instead of membership
  tests and two tuples).
-/
namespace SmppVerif.Spec.Smpp

/-- value kinds of optional parameters -/
inductive ValKind where
  | int (octets : Nat)      -- Integer of the given size
  | cstr                    -- C-Octet String (NUL terminated)
  | octets                  -- Octet String
  | flag                    -- no value (length 0)
  deriving DecidableEq, Repr

/-- §5.3.2.x: tag, value kind -/
def tlvTable : List (Nat × ValKind) := [
  (0x0005, .int 1),   -- dest_addr_subunit
  (0x0006, .int 1),   -- dest_network_type
  (0x0007, .int 1),   -- dest_bearer_type
  (0x0008, .int 2),   -- dest_telematics_id
  (0x000D, .int 1),   -- source_addr_subunit
  (0x000E, .int 1),   -- source_network_type
  (0x000F, .int 1),   -- source_bearer_type
  (0x0010, .int 1),   -- source_telematics_id
  (0x0017, .int 4),   -- qos_time_to_live
  (0x0019, .int 1),   -- payload_type
  (0x001D, .cstr),    -- additional_status_info_text
  (0x001E, .cstr),    -- receipted_message_id
  (0x0030, .int 1),   -- ms_msg_wait_facilities
  (0x0201, .int 1),   -- privacy_indicator
  (0x0202, .octets),  -- source_subaddress
  (0x0203, .octets),  -- dest_subaddress
  (0x0204, .int 2),   -- user_message_reference
  (0x0205, .int 1),   -- user_response_code
  (0x020A, .int 2),   -- source_port
  (0x020B, .int 2),   -- destination_port
  (0x020C, .int 2),   -- sar_msg_ref_num
  (0x020D, .int 1),   -- language_indicator
  (0x020E, .int 1),   -- sar_total_segments
  (0x020F, .int 1),   -- sar_segment_seqnum
  (0x0210, .int 1),   -- sc_interface_version
  (0x0302, .int 1),   -- callback_num_pres_ind
  (0x0303, .octets),  -- callback_num_atag
  (0x0304, .int 1),   -- number_of_messages
  (0x0381, .octets),  -- callback_num
  (0x0420, .int 1),   -- dpf_result
  (0x0421, .int 1),   -- set_dpf
  (0x0422, .int 1),   -- ms_availability_status
  (0x0423, .octets),  -- network_error_code
  (0x0424, .octets),  -- message_payload
  (0x0425, .int 1),   -- delivery_failure_reason
  (0x0426, .int 1),   -- more_messages_to_send
  (0x0427, .int 1),   -- message_state
  (0x0501, .octets),  -- ussd_service_op
  (0x1201, .int 1),   -- display_time
  (0x1203, .int 2),   -- sms_signal
  (0x1204, .int 1),   -- ms_validity
  (0x130C, .flag),    -- alert_on_message_delivery
  (0x1380, .int 1),   -- its_reply_type
  (0x1383, .octets)]  -- its_session_info

/-- kind of any tag: listed ones from the table, all others (reserved / vendor specific)
    are treated as octet strings -/
def kindOf (tag : Nat) : ValKind :=
  match tlvTable.find? (·.1 = tag) with
  | some p => p.2
  | none => .octets

/-- §5.1.2.1 command ids of the PDUs this library supports -/
def commandIds : List (String × Nat) := [
  ("generic_nack", 0x80000000), ("bind_receiver", 0x00000001), ("bind_receiver_resp", 0x80000001),
  ("bind_transmitter", 0x00000002), ("bind_transmitter_resp", 0x80000002),
  ("submit_sm", 0x00000004), ("submit_sm_resp", 0x80000004),
  ("deliver_sm", 0x00000005), ("deliver_sm_resp", 0x80000005),
  ("unbind", 0x00000006), ("unbind_resp", 0x80000006),
  ("bind_transceiver", 0x00000009), ("bind_transceiver_resp", 0x80000009),
  ("enquire_link", 0x00000015), ("enquire_link_resp", 0x80000015)]

/-- §5.2.19 data_coding values of the alphabets the model describes -/
def dataCoding : List (String × Nat) := [
  ("gsm0338", 0), ("ascii", 1), ("latin_1", 3), ("ucs2", 8)]

end SmppVerif.Spec.Smpp

namespace SmppVerif.Spec.Smpp

/-! ### generic, table-driven encoder (§3.2 PDU format, §4 PDU definitions) -/

/-- big-endian unsigned integer of `w` octets -/
def be (w v : Nat) : List Nat := (List.range w).reverse.map fun i => (v / 256 ^ i) % 256

/-- a mandatory field value -/
inductive Field where
  | int (octets : Nat) (v : Nat)     -- Integer
  | cstr (s : List Nat)              -- C-Octet String: the characters, then NUL
  | raw (b : List Nat)               -- Octet String
  deriving DecidableEq, Repr

def Field.bytes : Field → List Nat
  | .int w v => be w v
  | .cstr s => s ++ [0]
  | .raw b => b

/-- an optional parameter: tag, value octets -/
structure OptParam where
  tag : Nat
  value : List Nat
  deriving DecidableEq, Repr

def OptParam.bytes (p : OptParam) : List Nat := be 2 p.tag ++ be 2 p.value.length ++ p.value

/-- §3.2: command_length, command_id, command_status, sequence_number, then the body -/
def encodePdu (cmd status seq : Nat) (fields : List Field) (opts : List OptParam) : List Nat :=
  let body := fields.flatMap Field.bytes ++ opts.flatMap OptParam.bytes
  be 4 (16 + body.length) ++ be 4 cmd ++ be 4 status ++ be 4 seq ++ body

/-- §4.4.1 / §4.6.1: mandatory parameters of submit_sm and deliver_sm, in order -/
structure SmFields where
  serviceType : List Nat
  (sourceTon sourceNpi : Nat)
  sourceAddr : List Nat
  (destTon destNpi : Nat)
  destAddr : List Nat
  (esmClass protocolId priorityFlag : Nat)
  (scheduleDeliveryTime validityPeriod : List Nat)
  (registeredDelivery replaceIfPresent dataCoding smDefaultMsgId : Nat)
  shortMessage : List Nat

def SmFields.fields (f : SmFields) : List Field := [
  .cstr f.serviceType, .int 1 f.sourceTon, .int 1 f.sourceNpi, .cstr f.sourceAddr,
  .int 1 f.destTon, .int 1 f.destNpi, .cstr f.destAddr,
  .int 1 f.esmClass, .int 1 f.protocolId, .int 1 f.priorityFlag,
  .cstr f.scheduleDeliveryTime, .cstr f.validityPeriod,
  .int 1 f.registeredDelivery, .int 1 f.replaceIfPresent, .int 1 f.dataCoding, .int 1 f.smDefaultMsgId,
  .int 1 f.shortMessage.length, .raw f.shortMessage]

/-- §4.1.x: bind_transmitter / bind_receiver / bind_transceiver -/
def bindFields (systemId password systemType : List Nat) (interfaceVersion ton npi : Nat)
    (addressRange : List Nat) : List Field :=
  [.cstr systemId, .cstr password, .cstr systemType, .int 1 interfaceVersion, .int 1 ton, .int 1 npi,
   .cstr addressRange]

end SmppVerif.Spec.Smpp
