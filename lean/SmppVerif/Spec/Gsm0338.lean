/-
3GPP TS 23.038 §6.2.1 (GSM 7 bit default alphabet) and §6.2.1.1 (default alphabet
extension table), transcribed by hand from the standard's code chart — *not* from the
repository.  Shape deliberately unlike the code: the ASCII-identical ranges are given by
formula, the national/Greek positions by an exception list.
-/
namespace SmppVerif.Spec.Gsm

/-- Positions of the default alphabet whose character is not the ASCII character with the
    same number: (septet, Unicode code point). -/
def exceptions : List (Nat × Nat) := [
  (0x00, 0x0040), -- COMMERCIAL AT
  (0x01, 0x00A3), -- POUND SIGN
  (0x02, 0x0024), -- DOLLAR SIGN
  (0x03, 0x00A5), -- YEN SIGN
  (0x04, 0x00E8), -- e grave
  (0x05, 0x00E9), -- e acute
  (0x06, 0x00F9), -- u grave
  (0x07, 0x00EC), -- i grave
  (0x08, 0x00F2), -- o grave
  (0x09, 0x00C7), -- C cedilla (capital)
  (0x0B, 0x00D8), -- O stroke
  (0x0C, 0x00F8), -- o stroke
  (0x0E, 0x00C5), -- A ring
  (0x0F, 0x00E5), -- a ring
  (0x10, 0x0394), -- DELTA
  (0x11, 0x005F), -- LOW LINE
  (0x12, 0x03A6), -- PHI
  (0x13, 0x0393), -- GAMMA
  (0x14, 0x039B), -- LAMDA
  (0x15, 0x03A9), -- OMEGA
  (0x16, 0x03A0), -- PI
  (0x17, 0x03A8), -- PSI
  (0x18, 0x03A3), -- SIGMA
  (0x19, 0x0398), -- THETA
  (0x1A, 0x039E), -- XI
  (0x1C, 0x00C6), -- AE
  (0x1D, 0x00E6), -- ae
  (0x1E, 0x00DF), -- sharp s
  (0x1F, 0x00C9), -- E acute
  (0x24, 0x00A4), -- CURRENCY SIGN
  (0x40, 0x00A1), -- INVERTED EXCLAMATION MARK
  (0x5B, 0x00C4), -- A diaeresis
  (0x5C, 0x00D6), -- O diaeresis
  (0x5D, 0x00D1), -- N tilde
  (0x5E, 0x00DC), -- U diaeresis
  (0x5F, 0x00A7), -- SECTION SIGN
  (0x60, 0x00BF), -- INVERTED QUESTION MARK
  (0x7B, 0x00E4), -- a diaeresis
  (0x7C, 0x00F6), -- o diaeresis
  (0x7D, 0x00F1), -- n tilde
  (0x7E, 0x00FC), -- u diaeresis
  (0x7F, 0x00E0)] -- a grave

/-- The escape to the extension table. -/
def esc : Nat := 0x1B

/-- Default alphabet: septet ↦ code point (`none` for the escape position and anything
    that is not a septet). LF (0x0A), CR (0x0D), SP and the ASCII ranges map to themselves. -/
def basic (k : Nat) : Option Nat :=
  if k = esc ∨ 128 ≤ k then none
  else match exceptions.find? (·.1 == k) with
    | some p => some p.2
    | none => some k

/-- Extension table: septet after the escape ↦ code point. -/
def ext : List (Nat × Nat) := [
  (0x0A, 0x000C), -- FORM FEED
  (0x14, 0x005E), -- CIRCUMFLEX ACCENT
  (0x28, 0x007B), -- LEFT CURLY BRACKET
  (0x29, 0x007D), -- RIGHT CURLY BRACKET
  (0x2F, 0x005C), -- REVERSE SOLIDUS
  (0x3C, 0x005B), -- LEFT SQUARE BRACKET
  (0x3D, 0x007E), -- TILDE
  (0x3E, 0x005D), -- RIGHT SQUARE BRACKET
  (0x40, 0x007C), -- VERTICAL LINE
  (0x65, 0x20AC)] -- EURO SIGN

/-- The standard's encoding of one character of the alphabet: its septet(s). -/
def encodeChar (c : Nat) : Option (List Nat) :=
  match (List.range 128).find? (fun k => basic k == some c) with
  | some k => some [k]
  | none =>
    match ext.find? (·.2 == c) with
    | some p => some [esc, p.1]
    | none => none

end SmppVerif.Spec.Gsm
