/-
SMPP 3.4 §7.1.1 — time formats — written from the standard.

  Absolute:  "YYMMDDhhmmsstnnp"   YY last two digits of the year (00-99), MM 01-12, DD 01-31,
             hh 00-23, mm 00-59, ss 00-59, t tenths of second 0-9, nn time difference in quarter
             hours between local time and UTC 00-48, p '+' local time is in advance of UTC,
             '-' local time is behind UTC.
  Relative:  "YYMMDDhhmmss000R"  the same fields read as a count of years, months, days, hours,
             minutes, seconds from the current SMSC time.
-/
namespace SmppVerif.Spec.TimeFormat

/-- two decimal digits (ASCII) of a number below 100 -/
def dec2 (n : Nat) : List Nat := [48 + n / 10, 48 + n % 10]

/-- Gregorian leap year -/
def leap (y : Nat) : Bool := y % 400 = 0 || (y % 4 = 0 && y % 100 != 0)

/-- days in a month of the Gregorian calendar -/
def monthDays (y m : Nat) : Nat :=
  match m with
  | 1 => 31 | 2 => if leap y then 29 else 28 | 3 => 31 | 4 => 30 | 5 => 31 | 6 => 30
  | 7 => 31 | 8 => 31 | 9 => 30 | 10 => 31 | 11 => 30 | 12 => 31
  | _ => 0

/-- Absolute time from calendar fields, tenth of second, UTC offset in seconds
    (a multiple of 900, |offset| ≤ 12 h). -/
def renderAbs (year month day hour minute second tenth : Nat) (offset : Int) : List Nat :=
  dec2 (year % 100) ++ dec2 month ++ dec2 day ++ dec2 hour ++ dec2 minute ++ dec2 second
    ++ [48 + tenth] ++ dec2 (offset.natAbs / 900) ++ [if offset < 0 then 45 else 43]

/-- Relative time from counts. -/
def renderRel (years months days hours minutes seconds : Nat) : List Nat :=
  dec2 years ++ dec2 months ++ dec2 days ++ dec2 hours ++ dec2 minutes ++ dec2 seconds
    ++ [48, 48, 48, 82]

end SmppVerif.Spec.TimeFormat
