/- Helper lemmas for C20. -/
import SmppVerif.Model.Receipt
import SmppVerif.Lemmas.Time

namespace SmppVerif.Lemmas.Receipt
open SmppVerif SmppVerif.Receipt SmppVerif.Time

/-! ### scanner on structured text -/

theorem splitAtChar_append (c : Nat) (a b : List Nat) (h : c ∉ a) :
    splitAtChar c (a ++ c :: b) = some (a, b) := by
  induction a with
  | nil => simp [splitAtChar]
  | cons x xs ih =>
    have hx : x ≠ c := fun e => h (by simp [e])
    have hxs : c ∉ xs := fun e => h (by simp [e])
    simp [splitAtChar, hx, ih hxs]

theorem splitAtChar_none (c : Nat) (a : List Nat) (h : c ∉ a) : splitAtChar c a = none := by
  induction a with
  | nil => rfl
  | cons x xs ih =>
    have hx : x ≠ c := fun e => h (by simp [e])
    have hxs : c ∉ xs := fun e => h (by simp [e])
    simp [splitAtChar, hx, ih hxs]

/-- a field `name:value ` followed by more text -/
theorem getParam_field (k v R : List Nat) (hk : 58 ∉ k) (hv : 32 ∉ v) (hkt : lowerAscii k ≠ kText) :
    getParam (k ++ 58 :: (v ++ 32 :: R)) = some (lowerAscii k, v, R) := by
  unfold getParam
  rw [splitAtChar_append 58 k _ hk]
  simp only [hkt, if_false]
  rw [splitAtChar_append 32 v R hv]

/-- the `text` field swallows the rest, spaces and colons included -/
theorem getParam_text (k v : List Nat) (hk : 58 ∉ k) (hkt : lowerAscii k = kText) :
    getParam (k ++ 58 :: v) = some (kText, v, []) := by
  unfold getParam
  rw [splitAtChar_append 58 k _ hk]
  simp only [hkt, if_true]

theorem getParam_nil : getParam [] = none := rfl

theorem scanLoop_field (fuel : Nat) (k v R : List Nat) (acc : RDict) (val : RVal)
    (hk : 58 ∉ k) (hv : 32 ∉ v) (hkt : lowerAscii k ≠ kText)
    (hc : convert (lowerAscii k) v = .ok val) :
    scanLoop (fuel + 1) (k ++ 58 :: (v ++ 32 :: R)) acc
      = scanLoop fuel R (dictSet acc (lowerAscii k) val) := by
  rw [scanLoop, getParam_field k v R hk hv hkt]
  simp only [hc]

/-! ### typed conversions (finite facts by kernel evaluation) -/

theorem int_fields : ∀ n ∈ List.range 1000,
    pyInt (fmt03 (Int.ofNat n)) = .ok (Int.ofNat n) ∧ 32 ∉ fmt03 (Int.ofNat n) := by
  decide +kernel

theorem convert_int (key : List Nat) (hkey : key = kSub ∨ key = kDlvrd ∨ key = kErr)
    (n : Int) (h0 : 0 ≤ n) (h1 : n ≤ 999) :
    convert key (fmt03 n) = .ok (.int n) ∧ 32 ∉ fmt03 n := by
  have hn : n = Int.ofNat n.toNat := by simp; omega
  have := int_fields n.toNat (List.mem_range.mpr (by omega))
  rw [← hn] at this
  refine ⟨?_, this.2⟩
  unfold convert
  simp only [hkey, if_true, this.1]
  rfl

/-! ### strptime on a formatted date -/

theorem matchAlt2 (p q : Nat → Bool) (c1 c0 : Nat) (rest : List Nat)
    (hp : p c1 = true) (hq : q c0 = true) :
    matchAlt [p, q] (c1 :: c0 :: rest) = some ([c1, c0], rest) := by
  simp [matchAlt, hp, hq]

theorem matchAlt_fail (p : Nat → Bool) (ps : List (Nat → Bool)) (c1 : Nat) (rest : List Nat)
    (hp : p c1 = false) : matchAlt (p :: ps) (c1 :: rest) = none := by
  simp [matchAlt, hp]

theorem tryAlts_hit (cont : List Nat → Option (List (List Nat) × List Nat)) (s : List Nat)
    (a : List (Nat → Bool)) (as : List (List (Nat → Bool))) (m r : List Nat)
    (ms : List (List Nat)) (r' : List Nat)
    (h1 : matchAlt a s = some (m, r)) (h2 : cont r = some (ms, r')) :
    tryAlts cont s (a :: as) = some (m :: ms, r') := by
  simp [tryAlts, h1, h2]

theorem tryAlts_skip (cont : List Nat → Option (List (List Nat) × List Nat)) (s : List Nat)
    (a : List (Nat → Bool)) (as : List (List (Nat → Bool)))
    (h1 : matchAlt a s = none) :
    tryAlts cont s (a :: as) = tryAlts cont s as := by
  simp [tryAlts, h1]

/-- two ASCII digits of a number below 100 -/
theorem two_digits (n : Nat) (h : n < 100) :
    two n = [48 + n / 10, 48 + n % 10] := by
  unfold two
  have : n / 10 % 10 = n / 10 := by omega
  rw [this]

theorem dig_iff (lo hi c : Nat) : dig lo hi c = true ↔ 48 + lo ≤ c ∧ c ≤ 48 + hi := by
  simp [dig]

theorem dig_false (lo hi c : Nat) (h : c < 48 + lo ∨ 48 + hi < c) : dig lo hi c = false := by
  cases hd : dig lo hi c with
  | false => rfl
  | true => have := (dig_iff lo hi c).mp hd; omega

theorem isCh_iff (x c : Nat) : isCh x c = true ↔ c = x := by simp [isCh]

theorem isCh_false (x c : Nat) (h : c ≠ x) : isCh x c = false := by
  cases hd : isCh x c with
  | false => rfl
  | true => exact absurd ((isCh_iff x c).mp hd) h

theorem digitsVal_two (a b : Nat) (ha : a < 10) (hb : b < 10) :
    digitsVal [48 + a, 48 + b] = a * 10 + b := by
  have h1 : isDigit (48 + a) = true := by simp [isDigit]; omega
  have h2 : isDigit (48 + b) = true := by simp [isDigit]; omega
  simp [digitsVal, h1, h2]

/-- step lemmas: a two-digit field in front of the rest of the text -/
theorem stepY (n : Nat) (h : n < 100) (ds : List (List (List (Nat → Bool)))) (rest : List Nat)
    (ms : List (List Nat)) (r' : List Nat) (hr : matchDirs ds rest = some (ms, r')) :
    matchDirs (dirY :: ds) (two n ++ rest) = some (two n :: ms, r') := by
  rw [two_digits n h]
  show tryAlts (matchDirs ds) ((48 + n / 10) :: (48 + n % 10) :: rest) dirY = _
  unfold dirY
  exact tryAlts_hit _ _ _ _ _ _ _ _
    (matchAlt2 _ _ _ _ _ ((dig_iff _ _ _).mpr (by omega)) ((dig_iff _ _ _).mpr (by omega))) hr

theorem stepM (n : Nat) (h1 : 1 ≤ n) (h : n ≤ 12) (ds : List (List (List (Nat → Bool)))) (rest : List Nat)
    (ms : List (List Nat)) (r' : List Nat) (hr : matchDirs ds rest = some (ms, r')) :
    matchDirs (dirM :: ds) (two n ++ rest) = some (two n :: ms, r') := by
  rw [two_digits n (by omega)]
  show tryAlts (matchDirs ds) ((48 + n / 10) :: (48 + n % 10) :: rest) dirM = _
  unfold dirM
  by_cases hge : 10 ≤ n
  · exact tryAlts_hit _ _ _ _ _ _ _ _
      (matchAlt2 _ _ _ _ _ ((isCh_iff _ _).mpr (by omega)) ((dig_iff _ _ _).mpr (by omega))) hr
  · rw [tryAlts_skip _ _ _ _ (matchAlt_fail _ _ _ _ (isCh_false _ _ (by omega)))]
    exact tryAlts_hit _ _ _ _ _ _ _ _
      (matchAlt2 _ _ _ _ _ ((isCh_iff _ _).mpr (by omega)) ((dig_iff _ _ _).mpr (by omega))) hr

theorem stepD (n : Nat) (h1 : 1 ≤ n) (h : n ≤ 31) (ds : List (List (List (Nat → Bool)))) (rest : List Nat)
    (ms : List (List Nat)) (r' : List Nat) (hr : matchDirs ds rest = some (ms, r')) :
    matchDirs (dirD :: ds) (two n ++ rest) = some (two n :: ms, r') := by
  rw [two_digits n (by omega)]
  show tryAlts (matchDirs ds) ((48 + n / 10) :: (48 + n % 10) :: rest) dirD = _
  unfold dirD
  by_cases h30 : 30 ≤ n
  · exact tryAlts_hit _ _ _ _ _ _ _ _
      (matchAlt2 _ _ _ _ _ ((isCh_iff _ _).mpr (by omega)) ((dig_iff _ _ _).mpr (by omega))) hr
  · rw [tryAlts_skip _ _ _ _ (matchAlt_fail _ _ _ _ (isCh_false _ _ (by omega)))]
    by_cases h10 : 10 ≤ n
    · exact tryAlts_hit _ _ _ _ _ _ _ _
        (matchAlt2 _ _ _ _ _ ((dig_iff _ _ _).mpr (by omega)) ((dig_iff _ _ _).mpr (by omega))) hr
    · rw [tryAlts_skip _ _ _ _ (matchAlt_fail _ _ _ _ (dig_false _ _ _ (by omega)))]
      exact tryAlts_hit _ _ _ _ _ _ _ _
        (matchAlt2 _ _ _ _ _ ((isCh_iff _ _).mpr (by omega)) ((dig_iff _ _ _).mpr (by omega))) hr

theorem stepH (n : Nat) (h : n ≤ 23) (ds : List (List (List (Nat → Bool)))) (rest : List Nat)
    (ms : List (List Nat)) (r' : List Nat) (hr : matchDirs ds rest = some (ms, r')) :
    matchDirs (dirH :: ds) (two n ++ rest) = some (two n :: ms, r') := by
  rw [two_digits n (by omega)]
  show tryAlts (matchDirs ds) ((48 + n / 10) :: (48 + n % 10) :: rest) dirH = _
  unfold dirH
  by_cases h20 : 20 ≤ n
  · exact tryAlts_hit _ _ _ _ _ _ _ _
      (matchAlt2 _ _ _ _ _ ((isCh_iff _ _).mpr (by omega)) ((dig_iff _ _ _).mpr (by omega))) hr
  · rw [tryAlts_skip _ _ _ _ (matchAlt_fail _ _ _ _ (isCh_false _ _ (by omega)))]
    exact tryAlts_hit _ _ _ _ _ _ _ _
      (matchAlt2 _ _ _ _ _ ((dig_iff _ _ _).mpr (by omega)) ((dig_iff _ _ _).mpr (by omega))) hr

theorem stepMin (n : Nat) (h : n ≤ 59) (ds : List (List (List (Nat → Bool)))) (rest : List Nat)
    (ms : List (List Nat)) (r' : List Nat) (hr : matchDirs ds rest = some (ms, r')) :
    matchDirs (dirMin :: ds) (two n ++ rest) = some (two n :: ms, r') := by
  rw [two_digits n (by omega)]
  show tryAlts (matchDirs ds) ((48 + n / 10) :: (48 + n % 10) :: rest) dirMin = _
  unfold dirMin
  exact tryAlts_hit _ _ _ _ _ _ _ _
    (matchAlt2 _ _ _ _ _ ((dig_iff _ _ _).mpr (by omega)) ((dig_iff _ _ _).mpr (by omega))) hr

/-- a valid calendar date to the minute within the two-digit-year window -/
structure WFdate (y mo d h mi : Nat) : Prop where
  year : 1969 ≤ y ∧ y ≤ 2068
  month : 1 ≤ mo ∧ mo ≤ 12
  day : 1 ≤ d ∧ d ≤ Spec.TimeFormat.monthDays y mo
  hour : h ≤ 23
  minute : mi ≤ 59

theorem monthDays_eq' : ∀ y ∈ List.range 100, ∀ m ∈ List.range 13,
    daysInMonth (1969 + (y : Int)) (m : Int) =
      (if m = 0 then 31 else (Spec.TimeFormat.monthDays (1969 + y) m : Int)) := by
  decide +kernel

theorem digitsVal_of_two (n : Nat) (h : n < 100) : digitsVal (two n) = n := by
  rw [two_digits n h, digitsVal_two _ _ (by omega) (by omega)]; omega

theorem strptime_fmtDate (y mo d h mi : Nat) (w : WFdate y mo d h mi) :
    strptime (fmtDate y mo d h mi) = .ok (.date y mo d h mi) := by
  have hmd := Lemmas.Time.monthDays_le y mo
  have hy := w.year; have hm := w.month; have hd := w.day; have hh := w.hour; have hmi := w.minute
  have hmatch : matchDirs [dirY, dirM, dirD, dirH, dirMin] (fmtDate y mo d h mi)
      = some ([two (y % 100), two mo, two d, two h, two mi], []) := by
    unfold fmtDate
    have e5 : matchDirs [] ([] : List Nat) = some ([], []) := rfl
    have e4 := stepMin mi hmi [] [] [] [] e5
    have e3 := stepH h hh [dirMin] _ _ _ e4
    have e2 := stepD d hd.1 (by omega) [dirH, dirMin] _ _ _ e3
    have e1 := stepM mo hm.1 hm.2 [dirD, dirH, dirMin] _ _ _ e2
    have e0 := stepY (y % 100) (by omega) [dirM, dirD, dirH, dirMin] _ _ _ e1
    simpa [List.append_assoc] using e0
  unfold strptime
  rw [hmatch]
  simp only [List.isEmpty_nil, if_true]
  rw [digitsVal_of_two (y % 100) (by omega), digitsVal_of_two mo (by omega),
    digitsVal_of_two d (by omega), digitsVal_of_two h (by omega), digitsVal_of_two mi (by omega)]
  have hyear : (if y % 100 ≤ 68 then 2000 + y % 100 else 1900 + y % 100) = y := by
    split <;> omega
  rw [hyear]
  have hdm := monthDays_eq' (y - 1969) (List.mem_range.mpr (by omega)) mo (List.mem_range.mpr (by omega))
  have hyy : (1969 + ((y - 1969 : Nat) : Int)) = (y : Int) := by omega
  have hyn : 1969 + (y - 1969) = y := by omega
  rw [hyy, hyn] at hdm
  have hm0 : ¬ mo = 0 := by omega
  simp only [hm0, if_false] at hdm
  have hvalid : 1 ≤ d ∧ (d : Int) ≤ daysInMonth (y : Int) (mo : Int) := by
    rw [hdm]; constructor <;> omega
  simp only [hvalid, and_self, if_true]

theorem fmtDate_no_space (y mo d h mi : Nat) : 32 ∉ fmtDate y mo d h mi := by
  unfold fmtDate two
  simp only [List.cons_append, List.nil_append, List.mem_cons, List.mem_nil_iff, or_false, not_or]
  refine ⟨?_, ?_, ?_, ?_, ?_, ?_, ?_, ?_, ?_, ?_⟩ <;> omega

theorem convert_date (key : List Nat) (hkey : key = kSubmitDate ∨ key = kDoneDate)
    (y mo d h mi : Nat) (w : WFdate y mo d h mi) :
    convert key (fmtDate y mo d h mi) = .ok (.date y mo d h mi) := by
  unfold convert
  have h1 : ¬ (key = kSub ∨ key = kDlvrd ∨ key = kErr) := by
    rcases hkey with rfl | rfl <;> decide
  simp only [h1, if_false, hkey, if_true]
  exact strptime_fmtDate y mo d h mi w

theorem convert_str (key v : List Nat)
    (h1 : ¬ (key = kSub ∨ key = kDlvrd ∨ key = kErr)) (h2 : ¬ (key = kSubmitDate ∨ key = kDoneDate)) :
    convert key v = .ok (.str v) := by
  unfold convert; simp only [h1, h2, if_false]

end SmppVerif.Lemmas.Receipt

namespace SmppVerif.Lemmas.Receipt
open SmppVerif SmppVerif.Receipt SmppVerif.Time

/-- Domain of the round-trip property: id and state without blanks (colons allowed), counts
    and error code 0..999, both dates present and valid to the minute within 1969..2068, any
    text. -/
structure WFr (r : ReceiptData) (sd dd : Nat × Nat × Nat × Nat × Nat) : Prop where
  id : 32 ∉ r.id
  stat : 32 ∉ r.stat
  sub : 0 ≤ r.sub ∧ r.sub ≤ 999
  dlvrd : 0 ≤ r.dlvrd ∧ r.dlvrd ≤ 999
  err : 0 ≤ r.err ∧ r.err ≤ 999
  submit : r.submit = some sd ∧ WFdate sd.1 sd.2.1 sd.2.2.1 sd.2.2.2.1 sd.2.2.2.2
  done : r.done = some dd ∧ WFdate dd.1 dd.2.1 dd.2.2.1 dd.2.2.2.1 dd.2.2.2.2

/-- field names as they appear in a receipt text (any casing) -/
structure Names where
  id : List Nat
  sub : List Nat
  dlvrd : List Nat
  submit : List Nat
  done : List Nat
  stat : List Nat
  err : List Nat
  text : List Nat

/-- names that differ from the library's only in the case of ASCII letters -/
structure Names.Ok (n : Names) : Prop where
  id : lowerAscii n.id = kId ∧ 58 ∉ n.id
  sub : lowerAscii n.sub = kSub ∧ 58 ∉ n.sub
  dlvrd : lowerAscii n.dlvrd = kDlvrd ∧ 58 ∉ n.dlvrd
  submit : lowerAscii n.submit = kSubmitDate ∧ 58 ∉ n.submit
  done : lowerAscii n.done = kDoneDate ∧ 58 ∉ n.done
  stat : lowerAscii n.stat = kStat ∧ 58 ∉ n.stat
  err : lowerAscii n.err = kErr ∧ 58 ∉ n.err
  text : lowerAscii n.text = kText ∧ 58 ∉ n.text

/-- the names `encode_receipt` writes -/
def libNames : Names :=
  ⟨[105, 100], [115, 117, 98], [100, 108, 118, 114, 100],
   [115, 117, 98, 109, 105, 116, 32, 100, 97, 116, 101], [100, 111, 110, 101, 32, 100, 97, 116, 101],
   [115, 116, 97, 116], [101, 114, 114], [84, 101, 120, 116]⟩

theorem libNames_ok : libNames.Ok := by
  refine ⟨?_, ?_, ?_, ?_, ?_, ?_, ?_, ?_⟩ <;> decide

/-- the receipt text with the field structure made explicit, for any field names -/
def nested (n : Names) (r : ReceiptData) : List Nat :=
  n.id ++ 58 :: (r.id ++ 32 ::
  (n.sub ++ 58 :: (fmt03 r.sub ++ 32 ::
  (n.dlvrd ++ 58 :: (fmt03 r.dlvrd ++ 32 ::
  (n.submit ++ 58 :: (optDate r.submit ++ 32 ::
  (n.done ++ 58 :: (optDate r.done ++ 32 ::
  (n.stat ++ 58 :: (r.stat ++ 32 ::
  (n.err ++ 58 :: (fmt03 r.err ++ 32 ::
  (n.text ++ 58 :: pad20 r.text))))))))))))))

theorem build_eq_nested (r : ReceiptData) : build r = nested libNames r := by
  simp [build, nested, libNames, lId, lSub, lDlvrd, lSubmit, lDone, lStat, lErr, lText, List.append_assoc]

theorem nested_length (n : Names) (r : ReceiptData) : 9 ≤ (nested n r).length + 1 := by
  simp [nested]; omega

/-- the dictionary the scanner produces from a built receipt -/
def expected (r : ReceiptData) (sd dd : Nat × Nat × Nat × Nat × Nat) (idv : List Nat) : RDict :=
  [(kId, .str idv), (kSub, .int r.sub), (kDlvrd, .int r.dlvrd),
   (kSubmitDate, .date sd.1 sd.2.1 sd.2.2.1 sd.2.2.2.1 sd.2.2.2.2),
   (kDoneDate, .date dd.1 dd.2.1 dd.2.2.1 dd.2.2.2.1 dd.2.2.2.2),
   (kStat, .str r.stat), (kErr, .int r.err), (kText, .str (pad20 r.text))]

theorem scan_nested (n : Names) (hn : n.Ok) (r : ReceiptData) (sd dd : Nat × Nat × Nat × Nat × Nat)
    (w : WFr r sd dd) (fuel : Nat) (hfuel : 9 ≤ fuel) :
    scanLoop fuel (nested n r) [] = .ok (expected r sd dd r.id) := by
  obtain ⟨f, hf⟩ : ∃ f, fuel = f + 9 := ⟨fuel - 9, by omega⟩
  rw [hf]
  unfold nested
  obtain ⟨sy, smo, sd', sh, smi⟩ := sd
  obtain ⟨dy, dmo, dd', dh, dmi⟩ := dd
  have hs := w.submit; have hd := w.done
  simp only at hs hd
  have o1 : optDate r.submit = fmtDate sy smo sd' sh smi := by rw [hs.1]; rfl
  have o2 : optDate r.done = fmtDate dy dmo dd' dh dmi := by rw [hd.1]; rfl
  rw [o1, o2]
  have c1 := convert_int kSub (Or.inl rfl) r.sub w.sub.1 w.sub.2
  have c2 := convert_int kDlvrd (Or.inr (Or.inl rfl)) r.dlvrd w.dlvrd.1 w.dlvrd.2
  have c3 := convert_int kErr (Or.inr (Or.inr rfl)) r.err w.err.1 w.err.2
  have c4 := convert_date kSubmitDate (Or.inl rfl) sy smo sd' sh smi hs.2
  have c5 := convert_date kDoneDate (Or.inr rfl) dy dmo dd' dh dmi hd.2
  have c0 : convert kId r.id = .ok (.str r.id) := convert_str _ _ (by decide) (by decide)
  have c6 : convert kStat r.stat = .ok (.str r.stat) := convert_str _ _ (by decide) (by decide)
  have c7 : convert kText (pad20 r.text) = .ok (.str (pad20 r.text)) :=
    convert_str _ _ (by decide) (by decide)
  rw [← hn.id.1] at c0; rw [← hn.sub.1] at c1; rw [← hn.dlvrd.1] at c2; rw [← hn.err.1] at c3
  rw [← hn.submit.1] at c4; rw [← hn.done.1] at c5; rw [← hn.stat.1] at c6
  have t0 : lowerAscii n.id ≠ kText := by rw [hn.id.1]; decide
  have t1 : lowerAscii n.sub ≠ kText := by rw [hn.sub.1]; decide
  have t2 : lowerAscii n.dlvrd ≠ kText := by rw [hn.dlvrd.1]; decide
  have t3 : lowerAscii n.err ≠ kText := by rw [hn.err.1]; decide
  have t4 : lowerAscii n.submit ≠ kText := by rw [hn.submit.1]; decide
  have t5 : lowerAscii n.done ≠ kText := by rw [hn.done.1]; decide
  have t6 : lowerAscii n.stat ≠ kText := by rw [hn.stat.1]; decide
  rw [scanLoop_field (f + 8) n.id r.id _ [] _ hn.id.2 w.id t0 c0]
  rw [scanLoop_field (f + 7) n.sub _ _ _ _ hn.sub.2 c1.2 t1 c1.1]
  rw [scanLoop_field (f + 6) n.dlvrd _ _ _ _ hn.dlvrd.2 c2.2 t2 c2.1]
  rw [scanLoop_field (f + 5) n.submit _ _ _ _ hn.submit.2 (fmtDate_no_space _ _ _ _ _) t4 c4]
  rw [scanLoop_field (f + 4) n.done _ _ _ _ hn.done.2 (fmtDate_no_space _ _ _ _ _) t5 c5]
  rw [scanLoop_field (f + 3) n.stat r.stat _ _ _ hn.stat.2 w.stat t6 c6]
  rw [scanLoop_field (f + 2) n.err _ _ _ _ hn.err.2 c3.2 t3 c3.1]
  rw [scanLoop, getParam_text n.text _ hn.text.2 hn.text.1]
  simp only [c7]
  rw [scanLoop, getParam_nil]
  rw [hn.id.1, hn.sub.1, hn.dlvrd.1, hn.submit.1, hn.done.1, hn.stat.1, hn.err.1]
  rfl

/-- `parse` on a text whose scan result is known -/
theorem parse_of_scan (esm : Nat) (text : List Nat) (tlv : Option (List Nat)) (d : RDict)
    (hesm : isReceipt esm = true) (hs : scanLoop (text.length + 1) text [] = .ok d) :
    parse esm text tlv = .ok (withTlv d tlv) := by
  unfold parse
  simp only [hesm, not_true_eq_false, if_false, hs]

theorem parse_nested (n : Names) (hn : n.Ok) (r : ReceiptData) (sd dd : Nat × Nat × Nat × Nat × Nat)
    (w : WFr r sd dd) (esm : Nat) (hesm : isReceipt esm = true) (tlv : Option (List Nat)) :
    parse esm (nested n r) tlv
      = .ok (expected r sd dd (if r.id.isEmpty then tlv.getD [] else r.id)) := by
  rw [parse_of_scan esm _ tlv _ hesm
    (scan_nested n hn r sd dd w _ (nested_length n r))]
  have hg : dictGet (expected r sd dd r.id) kId = some (.str r.id) := by
    simp [expected, dictGet]
  unfold withTlv idMissing
  rw [hg]
  cases hid : r.id.isEmpty with
  | false =>
    have hne : r.id ≠ [] := by intro e; rw [e] at hid; simp at hid
    simp [hne]
  | true =>
    have : r.id = [] := by simpa using hid
    cases tlv with
    | none => simp [this]
    | some v => simp [expected, dictSet, this]

theorem not_receipt (esm : Nat) (text : List Nat) (tlv : Option (List Nat))
    (h : isReceipt esm = false) : parse esm text tlv = .ok [] := by
  unfold parse; simp [h]

end SmppVerif.Lemmas.Receipt
