/- Helper lemmas for C03/C04: big-endian packing, header, C-octet strings. -/
import SmppVerif.Model.PduDecode

namespace SmppVerif.Lemmas.Pdu
open SmppVerif SmppVerif.Pdu

/-! ### struct.pack / unpack are inverse on the representable range -/

/-- big-endian digits of `v`, `w` octets -/
def beDigits (w v : Nat) : List Nat := (List.range w).reverse.map fun i => (v / 256 ^ i) % 256

theorem beDigits_succ (w v : Nat) : beDigits (w + 1) v = (v / 256 ^ w) % 256 :: beDigits w v := by
  unfold beDigits
  rw [List.range_succ, List.reverse_append]
  simp

theorem beDigits_length (w v : Nat) : (beDigits w v).length = w := by
  unfold beDigits; simp

theorem beVal_beDigits : ∀ (w v : Nat), beVal (beDigits w v) = v % 256 ^ w
  | 0, v => by simp [beDigits, beVal, Nat.mod_one]
  | w + 1, v => by
    rw [beDigits_succ, beVal, beDigits_length, beVal_beDigits w v]
    have h1 : v % 256 ^ (w + 1) = v % 256 ^ w + 256 ^ w * (v / 256 ^ w % 256) := by
      rw [Nat.pow_succ, Nat.mod_mul]
    rw [h1, Nat.mul_comm]; omega

theorem packU_ok (w : Nat) (v : Int) (l : List Nat) (h : packU w v = .ok l) :
    0 ≤ v ∧ v < (256 : Int) ^ w ∧ l = beDigits w v.toNat := by
  unfold packU at h
  split at h
  · rename_i hv
    cases h
    exact ⟨hv.1, hv.2, rfl⟩
  · cases h

theorem packU_length (w : Nat) (v : Int) (l : List Nat) (h : packU w v = .ok l) : l.length = w := by
  rw [(packU_ok w v l h).2.2, beDigits_length]

theorem toNat_lt_pow (w : Nat) (v : Int) (h0 : 0 ≤ v) (h1 : v < (256 : Int) ^ w) : v.toNat < 256 ^ w := by
  have e : (256 : Int) ^ w = ((256 ^ w : Nat) : Int) := (Int.natCast_pow 256 w).symm
  rw [e] at h1
  have hv : ((v.toNat : Nat) : Int) = v := Int.toNat_of_nonneg h0
  rw [← hv] at h1
  exact Int.ofNat_lt.mp h1

theorem packU_beVal (w : Nat) (v : Int) (l : List Nat) (h : packU w v = .ok l) : beVal l = v.toNat := by
  obtain ⟨h0, h1, h2⟩ := packU_ok w v l h
  rw [h2, beVal_beDigits, Nat.mod_eq_of_lt (toNat_lt_pow w v h0 h1)]

theorem packU_nat (w v : Nat) (hv : v < 256 ^ w) : packU w (v : Int) = .ok (beDigits w v) := by
  unfold packU
  have e : (256 : Int) ^ w = ((256 ^ w : Nat) : Int) := (Int.natCast_pow 256 w).symm
  have : (0 : Int) ≤ (v : Int) ∧ (v : Int) < (256 : Int) ^ w :=
    ⟨Int.natCast_nonneg v, by rw [e]; exact Int.ofNat_lt.mpr hv⟩
  rw [if_pos this]
  simp [beDigits]

/-- reading back what was packed, wherever it sits in the buffer -/
theorem unpackU_pack (w : Nat) (v : Int) (l pre post : List Nat) (h : packU w v = .ok l) :
    unpackU w (pre ++ l ++ post) pre.length = .ok v.toNat := by
  have hl := packU_length w v l h
  unfold unpackU
  have hlen : pre.length + w ≤ (pre ++ l ++ post).length := by
    simp only [List.length_append, hl]; omega
  rw [if_pos hlen]
  have : ((pre ++ l ++ post).drop pre.length).take w = l := by
    rw [List.append_assoc, List.drop_left, ← hl, List.take_left]
  rw [this, packU_beVal w v l h]

/-! ### concatM -/

theorem concatM_cons_ok (x : Except Exc (List Nat)) (xs : List (Except Exc (List Nat))) (r : List Nat)
    (h : concatM (x :: xs) = .ok r) : ∃ a rest, x = .ok a ∧ concatM xs = .ok rest ∧ r = a ++ rest := by
  unfold concatM at h
  cases x with
  | error e => cases h
  | ok a =>
    dsimp only at h
    cases hx : concatM xs with
    | error e => rw [hx] at h; cases h
    | ok rest => rw [hx] at h; cases h; exact ⟨a, rest, rfl, rfl, rfl⟩

theorem concatM_nil : concatM [] = .ok [] := rfl

/-! ### the header -/

theorem packHeader_spec (len : Nat) (m : Msg) (hd : List Nat) (h : packHeader len m = .ok hd) :
    hd.length = 16 ∧ beVal (hd.take 4) = len ∧
    unpackU 4 hd 0 = .ok len ∧ unpackU 4 hd 4 = .ok m.command ∧ unpackU 4 hd 8 = .ok m.status ∧
    unpackU 4 hd 12 = .ok m.seq.toNat := by
  unfold packHeader at h
  obtain ⟨a, r1, ha, h1, e1⟩ := concatM_cons_ok _ _ _ h
  obtain ⟨b, r2, hb, h2, e2⟩ := concatM_cons_ok _ _ _ h1
  obtain ⟨c, r3, hc, h3, e3⟩ := concatM_cons_ok _ _ _ h2
  obtain ⟨d, r4, hdd, h4, e4⟩ := concatM_cons_ok _ _ _ h3
  rw [concatM_nil] at h4
  cases h4
  subst e4 e3 e2 e1
  have la := packU_length _ _ _ ha
  have lb := packU_length _ _ _ hb
  have lc := packU_length _ _ _ hc
  have ld := packU_length _ _ _ hdd
  have hlen : (a ++ (b ++ (c ++ (d ++ [])))).length = 16 := by
    simp only [List.length_append, List.length_nil, la, lb, lc, ld]
  have t1 : (a ++ (b ++ (c ++ (d ++ [])))).take 4 = a := by
    rw [← la, List.take_left]
  have u0 := unpackU_pack 4 _ a [] (b ++ (c ++ (d ++ []))) ha
  have u1 := unpackU_pack 4 _ b a (c ++ (d ++ [])) hb
  have u2 := unpackU_pack 4 _ c (a ++ b) (d ++ []) hc
  have u3 := unpackU_pack 4 _ d (a ++ b ++ c) [] hdd
  rw [la] at u1
  rw [List.length_append, la, lb] at u2
  rw [List.length_append, List.length_append, la, lb, lc] at u3
  simp only [List.nil_append, List.length_nil, Int.toNat_natCast] at u0
  simp only [Int.toNat_natCast, List.append_assoc] at u1 u2
  simp only [List.append_assoc] at u3
  refine ⟨hlen, ?_, u0, u1, u2, u3⟩
  rw [t1, packU_beVal _ _ _ ha, Int.toNat_natCast]

/-- `command_length`: for every message class, the first four octets of what `pdu()` returns
    are the number of octets returned. -/
theorem header_then_body (len : Nat) (m : Msg) (hd body : List Nat) (h : packHeader len m = .ok hd)
    (hl : len = 16 + body.length) : beVal ((hd ++ body).take 4) = (hd ++ body).length := by
  obtain ⟨h16, hv, _⟩ := packHeader_spec len m hd h
  have : (hd ++ body).take 4 = hd.take 4 := by
    rw [List.take_append_of_le_length (by omega)]
  rw [this, hv, List.length_append, h16, hl]

end SmppVerif.Lemmas.Pdu

namespace SmppVerif.Lemmas.Pdu
open SmppVerif SmppVerif.Pdu

theorem map_header_len (len : Nat) (m : Msg) (body b : List Nat) (e e' : Option Enc)
    (h : (packHeader len m).map (fun hd => (hd ++ body, e')) = .ok (b, e)) (hl : len = 16 + body.length) :
    beVal (b.take 4) = b.length := by
  cases hp : packHeader len m with
  | error x => rw [hp] at h; cases h
  | ok hd =>
    rw [hp] at h
    simp only [Except.map] at h
    cases h
    exact header_then_body len m hd body hp hl

theorem smPdu_len (dflt : Enc) (wrap : Sm → Msg) (m : Sm) (b : List Nat) (e : Option Enc)
    (h : smPdu dflt wrap m = .ok (b, e)) : beVal (b.take 4) = b.length := by
  unfold smPdu at h
  cases hb : smBody dflt m with
  | error x => rw [hb] at h; cases h
  | ok pr =>
    obtain ⟨body, enc⟩ := pr
    rw [hb] at h
    exact map_header_len _ _ _ _ _ _ h rfl

/-- `command_length` for all fifteen classes and every field assignment on which `pdu()`
    succeeds. -/
theorem pdu_len (dflt : Enc) (m : Msg) (b : List Nat) (e : Option Enc) (h : pdu dflt m = .ok (b, e)) :
    beVal (b.take 4) = b.length := by
  unfold pdu at h
  cases m with
  | submitSm s => exact smPdu_len dflt _ s b e h
  | deliverSm s => exact smPdu_len dflt _ s b e h
  | submitSmResp r =>
    dsimp only at h
    split at h
    · cases h
    · exact map_header_len _ _ _ _ _ _ h rfl
  | deliverSmResp r =>
    dsimp only at h
    split at h
    · cases h
    · exact map_header_len _ _ _ _ _ _ h rfl
  | bind k bq =>
    dsimp only at h
    split at h
    · cases h
    · exact map_header_len _ _ _ _ _ _ h rfl
  | bindResp k bq =>
    dsimp only at h
    split at h
    · cases h
    · exact map_header_len _ _ _ _ _ _ h rfl
  | genericNack s st l x => exact map_header_len 16 _ [] b e none (by simpa using h) rfl
  | enquireLink s st => exact map_header_len 16 _ [] b e none (by simpa using h) rfl
  | enquireLinkResp s st => exact map_header_len 16 _ [] b e none (by simpa using h) rfl
  | unbind s st => exact map_header_len 16 _ [] b e none (by simpa using h) rfl
  | unbindResp s st => exact map_header_len 16 _ [] b e none (by simpa using h) rfl

end SmppVerif.Lemmas.Pdu

namespace SmppVerif.Lemmas.Pdu
open SmppVerif SmppVerif.Pdu

/-! ### round trips of the simple classes -/

theorem commands_known : ∀ c ∈ [0x04, 0x05, 0x80000004, 0x80000005, 0x80000000, 0x09, 0x02, 0x01,
    0x80000009, 0x80000002, 0x80000001, 0x15, 0x80000015, 0x06, 0x80000006],
    enumHas Gen.Enums.smppCommand c = true := by decide +kernel

theorem command_known (m : Msg) : enumHas Gen.Enums.smppCommand m.command = true := by
  cases m with
  | bind k b => cases k <;> exact commands_known _ (by simp [Msg.command, bindCmd])
  | bindResp k b => cases k <;> exact commands_known _ (by simp [Msg.command, bindCmd])
  | _ => exact commands_known _ (by simp [Msg.command])

/-- the header of what `pdu()` produced parses back to the message's own header fields -/
theorem parseHeader_of_packHeader (len : Nat) (m : Msg) (hd body : List Nat)
    (h : packHeader len m = .ok hd) (hst : enumHas Gen.Enums.smppCommandStatus m.status = true) :
    parseHeader ((hd ++ body).take 16) = .ok ⟨len, m.command, m.status, m.seq.toNat⟩ := by
  obtain ⟨h16, _, u0, u1, u2, u3⟩ := packHeader_spec len m hd h
  have : (hd ++ body).take 16 = hd := by rw [← h16, List.take_left]
  rw [this]
  unfold parseHeader
  rw [u0, u1, u2, u3]
  simp [command_known m, hst]

theorem seq_nonneg_of_packHeader (len : Nat) (m : Msg) (hd : List Nat) (h : packHeader len m = .ok hd) :
    0 ≤ m.seq := by
  unfold packHeader at h
  obtain ⟨a, r1, ha, h1, e1⟩ := concatM_cons_ok _ _ _ h
  obtain ⟨b, r2, hb, h2, e2⟩ := concatM_cons_ok _ _ _ h1
  obtain ⟨c, r3, hc, h3, e3⟩ := concatM_cons_ok _ _ _ h2
  obtain ⟨d, r4, hdd, h4, e4⟩ := concatM_cons_ok _ _ _ h3
  exact (packU_ok _ _ _ hdd).1

set_option maxRecDepth 4000 in
/-- what the wire carries of a response: everything but the tracking fields -/
def untracked : Msg → Msg
  | .genericNack s st _ _ => .genericNack s st [] []
  | .submitSmResp r => .submitSmResp { r with logId := [], extra := [] }
  | .deliverSmResp r => .deliverSmResp { r with logId := [], extra := [] }
  | m => m

/-- Round trip of the body-less classes: enquire_link, enquire_link_resp, unbind,
    unbind_resp and generic_nack decode to themselves (tracking fields are not transmitted). -/
theorem bodyless_round_trip (dflt : Enc) (m : Msg) (b : List Nat) (e : Option Enc)
    (hm : (∃ s st, m = .enquireLink s st) ∨ (∃ s st, m = .enquireLinkResp s st) ∨
          (∃ s st, m = .unbind s st) ∨ (∃ s st, m = .unbindResp s st) ∨
          (∃ s st l x, m = .genericNack s st l x))
    (h : pdu dflt m = .ok (b, e)) (hst : enumHas Gen.Enums.smppCommandStatus m.status = true) :
    decode b dflt = .ok (untracked m) := by
  have hp : ∃ hd, packHeader 16 m = .ok hd ∧ b = hd := by
    rcases hm with ⟨s, st, rfl⟩ | ⟨s, st, rfl⟩ | ⟨s, st, rfl⟩ | ⟨s, st, rfl⟩ | ⟨s, st, l, x, rfl⟩ <;>
    · unfold pdu at h
      dsimp only at h
      cases hh : packHeader 16 _ with
      | error x => rw [hh] at h; cases h
      | ok hd0 => rw [hh] at h; simp only [Except.map, List.append_nil] at h; cases h; exact ⟨_, rfl, rfl⟩
  obtain ⟨hd, hph, rfl⟩ := hp
  have hs := seq_nonneg_of_packHeader 16 m b hph
  have hph' := parseHeader_of_packHeader 16 m b [] hph hst
  rw [List.append_nil] at hph'
  unfold decode
  rw [hph']
  dsimp only
  have hsq : ((m.seq.toNat : Nat) : Int) = m.seq := Int.toNat_of_nonneg hs
  rcases hm with ⟨s, st, rfl⟩ | ⟨s, st, rfl⟩ | ⟨s, st, rfl⟩ | ⟨s, st, rfl⟩ | ⟨s, st, l, x, rfl⟩
  · show Except.ok (Msg.enquireLink ((s.toNat : Nat) : Int) st) = _
    rw [show ((s.toNat : Nat) : Int) = s from hsq]; rfl
  · show Except.ok (Msg.enquireLinkResp ((s.toNat : Nat) : Int) st) = _
    rw [show ((s.toNat : Nat) : Int) = s from hsq]; rfl
  · show Except.ok (Msg.unbind ((s.toNat : Nat) : Int) st) = _
    rw [show ((s.toNat : Nat) : Int) = s from hsq]; rfl
  · show Except.ok (Msg.unbindResp ((s.toNat : Nat) : Int) st) = _
    rw [show ((s.toNat : Nat) : Int) = s from hsq]; rfl
  · show Except.ok (Msg.genericNack ((s.toNat : Nat) : Int) st [] []) = _
    rw [show ((s.toNat : Nat) : Int) = s from hsq]; rfl

end SmppVerif.Lemmas.Pdu

namespace SmppVerif.Lemmas.Pdu
open SmppVerif SmppVerif.Pdu

theorem encodeBounded_strict_ok (limit : Nat) : ∀ (s sb : List Nat),
    encodeBounded limit .strict s = .ok sb → sb = s ∧ ∀ c ∈ s, c < limit
  | [], sb, h => by simp [encodeBounded] at h; subst h; exact ⟨rfl, fun c hc => by cases hc⟩
  | c :: cs, sb, h => by
    unfold encodeBounded at h
    by_cases hc : c < limit
    · simp only [hc, if_true] at h
      cases hr : encodeBounded limit .strict cs with
      | error e => rw [hr] at h; cases h
      | ok r =>
        rw [hr] at h
        simp only [Except.map] at h
        cases h
        obtain ⟨e1, e2⟩ := encodeBounded_strict_ok limit cs r hr
        refine ⟨by rw [e1], ?_⟩
        intro x hx
        rcases List.mem_cons.mp hx with rfl | hx
        · exact hc
        · exact e2 x hx
    · simp only [hc, if_false] at h; cases h

theorem decodeAscii_of_lt (s : List Nat) (h : ∀ c ∈ s, c < 128) : decodeAsciiStrict s = .ok s := by
  unfold decodeAsciiStrict
  have : s.all (· < 128) = true := by
    rw [List.all_eq_true]; intro x hx; simpa using h x hx
  simp [this]

theorem slice_mid (pre mid post : List Nat) :
    slice (pre ++ mid ++ post) pre.length (pre.length + mid.length) = mid := by
  unfold slice
  rw [List.append_assoc, List.drop_left]
  have : pre.length + mid.length - pre.length = mid.length := by omega
  rw [this, List.take_left]

/-- Round trip of submit_sm_resp / deliver_sm_resp: status, sequence number and message id
    come back; the tracking fields are not on the wire. -/
theorem smResp_round_trip (dflt : Enc) (r : SmResp) (deliver : Bool) (b : List Nat) (e : Option Enc)
    (h : pdu dflt (if deliver then .deliverSmResp r else .submitSmResp r) = .ok (b, e))
    (hst : enumHas Gen.Enums.smppCommandStatus r.status = true) (hlen : r.messageId.length ≤ 64) :
    decode b dflt = .ok (untracked (if deliver then .deliverSmResp r else .submitSmResp r)) := by
  have key : ∀ m : Msg, (m = .submitSmResp r ∨ m = .deliverSmResp r) → pdu dflt m = .ok (b, e) →
      decode b dflt = .ok (untracked m) := by
    intro m hm hp
    have hstm : enumHas Gen.Enums.smppCommandStatus m.status = true := by
      rcases hm with rfl | rfl <;> exact hst
    have hbody : ∃ sb hd, cstr r.messageId = .ok sb ∧ packHeader (16 + sb.length) m = .ok hd ∧ b = hd ++ sb := by
      rcases hm with rfl | rfl <;>
      · unfold pdu at hp
        dsimp only at hp
        cases hc : cstr r.messageId with
        | error x => rw [hc] at hp; cases hp
        | ok sb =>
          rw [hc] at hp; dsimp only at hp
          cases hh : packHeader (16 + sb.length) _ with
          | error x => rw [hh] at hp; cases hp
          | ok hd0 => rw [hh] at hp; simp only [Except.map] at hp; cases hp; exact ⟨sb, _, rfl, hh, rfl⟩
    obtain ⟨sb, hd, hc, hph, rfl⟩ := hbody
    unfold cstr at hc
    cases he : encodeBounded 128 .strict r.messageId with
    | error x => rw [he] at hc; cases hc
    | ok s0 =>
      rw [he] at hc; simp only [Except.map] at hc; cases hc
      obtain ⟨rfl, hlt⟩ := encodeBounded_strict_ok 128 _ _ he
      have hs := seq_nonneg_of_packHeader _ m hd hph
      have h16 := (packHeader_spec _ m hd hph).1
      have hph' := parseHeader_of_packHeader _ m hd (r.messageId ++ [0]) hph hstm
      unfold decode
      rw [hph']
      dsimp only
      have hsq : ((m.seq.toNat : Nat) : Int) = m.seq := Int.toNat_of_nonneg hs
      have hsl : slice (hd ++ (r.messageId ++ [0])) 16
          (if 16 + (r.messageId ++ [0]).length = 0 then (hd ++ (r.messageId ++ [0])).length - 1
           else 16 + (r.messageId ++ [0]).length - 1) = r.messageId := by
        have hne : ¬ (16 + (r.messageId ++ [0]).length = 0) := by omega
        rw [if_neg hne]
        have := slice_mid hd r.messageId [0]
        rw [h16] at this
        have e2 : 16 + (r.messageId ++ [0]).length - 1 = 16 + r.messageId.length := by simp
        rw [e2, ← List.append_assoc]; exact this
      rcases hm with rfl | rfl
      · show (smRespFromPdu _ _).map Msg.submitSmResp = _
        unfold smRespFromPdu
        simp only [bind, Except.bind, pure, Except.pure] 
        rw [hsl, decodeAscii_of_lt _ hlt]
        simp only [checkLen, hlen, if_true, Except.map]
        simp only [Msg.seq, Msg.status] at hsq ⊢
        rw [hsq]; rfl
      · show (smRespFromPdu _ _).map Msg.deliverSmResp = _
        unfold smRespFromPdu
        simp only [bind, Except.bind, pure, Except.pure]
        rw [hsl, decodeAscii_of_lt _ hlt]
        simp only [checkLen, hlen, if_true, Except.map]
        simp only [Msg.seq, Msg.status] at hsq ⊢
        rw [hsq]; rfl
  cases deliver with
  | true => exact key _ (Or.inr rfl) h
  | false => exact key _ (Or.inl rfl) h

end SmppVerif.Lemmas.Pdu
