/- C15 ∧ C05: what the Receiver model (Model/Receiver.lean) does with ANY sequence of inbound PDUs is accepted by the
   wire-discipline monitor (Model/Discipline.lean): every response it writes is a whole PDU, echoes the sequence number of a
   request read on that connection, answers that request's command (or is a generic_nack), and a deliver_sm is answered
   only after the received hook returned. -/
import SmppVerif.Model.Receiver
import SmppVerif.Lemmas.Discipline

namespace SmppVerif.Lemmas.ReceiverDiscipline
open SmppVerif SmppVerif.Pdu SmppVerif.Discipline SmppVerif.Receiver SmppVerif.Lemmas.Discipline

/-! ### the response PDU -/

def b4 (n : Nat) : Bytes := [n / 16777216 % 256, n / 65536 % 256, n / 256 % 256, n % 256]

/-- header (command_length, command, status, sequence number) and a body -/
def respPdu (cmd status seq : Nat) (body : Bytes) : Bytes :=
  b4 (16 + body.length) ++ b4 cmd ++ b4 status ++ b4 seq ++ body

theorem respPdu_facts (cmd status seq : Nat) (body : Bytes) (hc : cmd < 4294967296) (hs : seq < 4294967296)
    (hb : 16 + body.length < 4294967296) :
    wholePdu (respPdu cmd status seq body) = true ∧ cmdOf (respPdu cmd status seq body) = cmd ∧
    seqOf (respPdu cmd status seq body) = seq := by
  refine ⟨?_, ?_, ?_⟩
  · simp only [wholePdu, respPdu, b4, be4, List.cons_append, List.nil_append, List.getD_cons_zero, List.getD_cons_succ,
      List.length_cons, Bool.and_eq_true, decide_eq_true_eq]
    refine ⟨by simp, by omega⟩
  · simp only [cmdOf, respPdu, b4, be4, List.cons_append, List.nil_append, List.getD_cons_zero, List.getD_cons_succ]
    omega
  · simp only [seqOf, respPdu, b4, be4, List.cons_append, List.nil_append, List.getD_cons_zero, List.getD_cons_succ]
    omega

/-! ### what `receive` answers -/

theorem split16 (p : Bytes) (h : 16 ≤ p.length) :
    ∃ a0 a1 a2 a3 a4 a5 a6 a7 a8 a9 a10 a11 a12 a13 a14 a15 rest,
      p = a0 :: a1 :: a2 :: a3 :: a4 :: a5 :: a6 :: a7 :: a8 :: a9 :: a10 :: a11 :: a12 :: a13 :: a14 :: a15 :: rest := by
  rcases p with _ | ⟨a0, p⟩; · simp at h
  rcases p with _ | ⟨a1, p⟩; · simp at h
  rcases p with _ | ⟨a2, p⟩; · simp at h
  rcases p with _ | ⟨a3, p⟩; · simp at h
  rcases p with _ | ⟨a4, p⟩; · simp at h
  rcases p with _ | ⟨a5, p⟩; · simp at h
  rcases p with _ | ⟨a6, p⟩; · simp at h
  rcases p with _ | ⟨a7, p⟩; · simp at h
  rcases p with _ | ⟨a8, p⟩; · simp at h
  rcases p with _ | ⟨a9, p⟩; · simp at h
  rcases p with _ | ⟨a10, p⟩; · simp at h
  rcases p with _ | ⟨a11, p⟩; · simp at h
  rcases p with _ | ⟨a12, p⟩; · simp at h
  rcases p with _ | ⟨a13, p⟩; · simp at h
  rcases p with _ | ⟨a14, p⟩; · simp at h
  rcases p with _ | ⟨a15, p⟩; · simp at h
  exact ⟨a0, a1, a2, a3, a4, a5, a6, a7, a8, a9, a10, a11, a12, a13, a14, a15, p, rfl⟩

/-- the header fields `parse_header` reads are the ones the monitor reads -/
theorem parseHeader_fields (p : Bytes) (h16 : 16 ≤ p.length) (h : Header) (hp : parseHeader (p.take 16) = .ok h) :
    h.command = cmdOf p ∧ h.seq = seqOf p := by
  obtain ⟨a0, a1, a2, a3, a4, a5, a6, a7, a8, a9, a10, a11, a12, a13, a14, a15, rest, rfl⟩ := split16 p h16
  unfold parseHeader at hp
  simp only [List.take, unpackU, List.length_cons, List.length_nil, List.drop, beVal] at hp
  simp at hp
  split at hp
  · cases hp
  · split at hp
    · cases hp
    · cases hp
      simp only [cmdOf, seqOf, be4, List.getD_cons_zero, List.getD_cons_succ]
      constructor <;> omega

/-- the response command of the table is the request command with the top bit set -/
theorem responseOf_form (c rc : Nat) (h : responseOf c = some rc) : rc = c + 0x80000000 ∧ c < 0x80000000 := by
  unfold responseOf at h
  cases hf : Gen.Enums.commandResponseMap.find? (·.1 = c) with
  | none => rw [hf] at h; cases h
  | some pr =>
    rw [hf] at h
    have hmem := List.mem_of_find?_eq_some hf
    have hpred := List.find?_some hf
    have hall : ∀ q ∈ Gen.Enums.commandResponseMap, q.2 = q.1 + 0x80000000 ∧ q.1 < 0x80000000 := by decide
    have := hall pr hmem
    simp only [Option.map_some, Option.some.injEq] at h
    simp only [decide_eq_true_eq] at hpred
    rw [← h, ← hpred]
    exact this

/-- an unmapped command is not deliver_sm -/
theorem deliver_mapped : responseOf deliverSm ≠ none := by decide

/-- ONE RESPONSE PER REQUEST, IN THE MONITOR'S TERMS: if `receive` answers, the PDU was a request, the answer echoes its
    sequence number and is the response to its command or a generic_nack -/
theorem respond_facts (p : Bytes) (dflt : Enc) (h16 : 16 ≤ p.length) (cmd st sq : Nat)
    (h : receive p dflt = .respond cmd st sq) :
    isResponseCmd (cmdOf p) = false ∧ sq = seqOf p ∧ (cmd = Discipline.genericNack ∨ cmd = cmdOf p + 0x80000000) := by
  unfold receive at h
  cases hp : parseHeader (p.take 16) with
  | error e => rw [hp] at h; cases h
  | ok hd =>
    rw [hp] at h
    dsimp only at h
    obtain ⟨hc, hs⟩ := parseHeader_fields p h16 hd hp
    cases hr : responseOf hd.command with
    | none =>
      rw [hr] at h
      dsimp only at h
      split at h
      · cases h
      · split at h
        · split at h <;> cases h
        · cases h
    | some rc =>
      rw [hr] at h
      dsimp only at h
      obtain ⟨hrc, hlt⟩ := responseOf_form hd.command rc hr
      have hnr : isResponseCmd (cmdOf p) = false := by
        unfold isResponseCmd; rw [← hc]; simp; omega
      split at h
      · cases h
        exact ⟨hnr, hs, Or.inl rfl⟩
      · split at h
        · split at h
          · cases h; exact ⟨hnr, hs, Or.inl rfl⟩
          · cases h
        · cases h
          exact ⟨hnr, hs, Or.inr (by rw [← hc]; exact hrc)⟩

/-- … and what it ignores is not a request that has a response -/
theorem ignore_facts (p : Bytes) (dflt : Enc) (h16 : 16 ≤ p.length) (h : receive p dflt = .ignore) :
    responseOf (cmdOf p) = none := by
  unfold receive at h
  cases hp : parseHeader (p.take 16) with
  | error e => rw [hp] at h; cases h
  | ok hd =>
    rw [hp] at h
    dsimp only at h
    obtain ⟨hc, _⟩ := parseHeader_fields p h16 hd hp
    cases hr : responseOf hd.command with
    | none => rw [← hc]; exact hr
    | some rc =>
      rw [hr] at h
      dsimp only at h
      split at h
      · cases h
      · split at h
        · split at h <;> cases h
        · cases h

/-! ### the events of the Receiver, and the monitor -/

/-- what the environment observes when the Receiver has handled one inbound PDU on connection `c` -/
def reaction (c : Nat) (p body : Bytes) : Action → List Ev
  | .respond cmd st sq =>
    [.fed c p, .recv p, .recvDone (p.take 16), .announce (respPdu cmd st sq body), .write c (respPdu cmd st sq body)]
  | .ignore => [.fed c p, .recv p]
  | .escape _ => []

/-- … a whole sequence of inbound PDUs, until an exception leaves the loop -/
def receiverEvents (c : Nat) (dflt : Enc) (body : Bytes → Bytes) : List Bytes → List Ev
  | [] => []
  | p :: ps =>
    match receive p dflt with
    | .escape _ => []
    | a => reaction c p (body p) a ++ receiverEvents c dflt body ps

/-- the session is bound on its one connection, the bind has been written, and no deliver_sm read earlier is still
    waiting for its hook -/
structure Ready (c : Nat) (m : Mon) : Prop where
  conn : ∃ k, m.conns = [k] ∧ k.id = c ∧ k.bound = true ∧ 0 < k.writes ∧
    ∀ q ∈ k.open_, cmdOf q.1 = deliverSm → q.2 = true

theorem run_append (m : Mon) (a b : List Ev) :
    run m (a ++ b) = match run m a with | some m' => run m' b | none => none := by
  induction a generalizing m with
  | nil => rfl
  | cons e es ih =>
    simp only [List.cons_append, run]
    cases step m e with
    | none => rfl
    | some m' => exact ih m'

/-! ### single steps of the monitor on a session with one connection -/

theorem updConn_single (k k' : Conn) (h : k'.id = k.id) : updConn [k] k' = [k'] := by
  simp [updConn, h]

/-- the monitor after the peer delivered `p` on the connection `k` -/
def fedState (m : Mon) (k : Conn) (p : Bytes) : Mon :=
  { m with fed := m.fed ++ [p],
           conns := [if isResponseCmd (cmdOf p) then k else { k with open_ := k.open_ ++ [(p, false)] }] }

theorem step_fed (m : Mon) (k : Conn) (c : Nat) (p : Bytes) (hc : m.conns = [k]) (hid : k.id = c) :
    step m (.fed c p) = some (fedState m k p) := by
  unfold fedState
  simp only [step, hc, List.find?, hid, decide_true]
  congr 2
  by_cases h : isResponseCmd (cmdOf p) = true
  · simp [h, updConn]
  · simp [h, updConn, hid]

theorem step_recv (m : Mon) (p : Bytes) (hp : p ∈ m.fed) :
    ∃ f, step m (.recv p) = some { m with fed := f } := by
  obtain ⟨f, hf⟩ := removeFirst_of_mem p m.fed hp
  exact ⟨f, by simp [step, hf]⟩

theorem getD_lt (p : Bytes) (hb : ∀ x ∈ p, x < 256) (i : Nat) : p.getD i 0 < 256 := by
  rw [List.getD_eq_getElem?_getD]
  cases h : p[i]? with
  | none => decide
  | some x => exact hb x (List.mem_of_getElem? h)

/-- bytes are octets: the header fields are 32-bit numbers -/
theorem fields_lt (p : Bytes) (hb : ∀ x ∈ p, x < 256) :
    cmdOf p < 4294967296 ∧ seqOf p < 4294967296 := by
  have h4 := getD_lt p hb 4; have h5 := getD_lt p hb (4 + 1); have h6 := getD_lt p hb (4 + 2); have h7 := getD_lt p hb (4 + 3)
  have h12 := getD_lt p hb 12; have h13 := getD_lt p hb (12 + 1); have h14 := getD_lt p hb (12 + 2)
  have h15 := getD_lt p hb (12 + 3)
  simp only [cmdOf, seqOf, be4]
  constructor <;> omega

/-- the hook-returned mark `recvDone` sets -/
def mark (p : Bytes) (q : Bytes × Bool) : Bytes × Bool := if q.1.take 16 = p.take 16 then (q.1, true) else q

theorem step_recvDone (m : Mon) (k : Conn) (p : Bytes) (hc : m.conns = [k]) :
    step m (.recvDone (p.take 16)) = some { m with conns := [{ k with open_ := k.open_.map (mark p) }] } := by
  simp only [step, hc, List.map_cons, List.map_nil]
  rfl

theorem step_announce (m : Mon) (r : Bytes) :
    step m (.announce r) = some { m with announced := m.announced ++ [r] } := rfl

/-- writing a response on a bound connection: accepted when a request it answers is open and, for a deliver_sm, its hook
    has returned -/
theorem step_write_resp (m : Mon) (k : Conn) (c : Nat) (r : Bytes) (ann : List Bytes) (q : Bytes × Bool)
    (hc : m.conns = [k]) (hid : k.id = c) (hbound : k.bound = true) (hwr : 0 < k.writes)
    (hann : removeFirst r m.announced = some ann) (hwhole : wholePdu r = true) (hresp : isResponseCmd (cmdOf r) = true)
    (hfind : k.open_.find? (fun p => seqOf p.1 = seqOf r ∧ (cmdOf r = Discipline.genericNack ∨ cmdOf r = cmdOf p.1 + 0x80000000)) = some q)
    (hflag : cmdOf q.1 = deliverSm → q.2 = true) :
    step m (.write c r) =
      some { m with announced := ann, conns := [{ k with writes := k.writes + 1, open_ := k.open_.erase q }] } := by
  have hw0 : ¬ (k.writes = 0 ∧ cmdOf r ≠ m.bindCmd) := by omega
  have hw1 : ¬ (k.writes > 0 ∧ ¬ k.bound = true) := by simp [hbound]
  have hw2 : ¬ (m.bindCmd = 1 ∧ cmdOf r = submitSm) := by
    intro h
    unfold isResponseCmd at hresp
    rw [h.2] at hresp
    revert hresp; decide
  have hdel : ¬ (cmdOf q.1 = deliverSm ∧ cmdOf r ≠ Discipline.genericNack ∧ ¬ q.2 = true) := fun h => h.2.2 (hflag h.1)
  simp only [step, hc, List.find?, hid, decide_true, hann, hwhole, not_true_eq_false, if_false, hw0, hw1, hw2, hresp,
    if_true, hfind, hdel]
  simp [updConn, hid]

/-- ONE INBOUND PDU: the events of the Receiver's reaction are accepted, and the session is ready for the next one -/
theorem reaction_accepted (c : Nat) (dflt : Enc) (p body : Bytes) (m : Mon) (hr : Ready c m)
    (h16 : 16 ≤ p.length) (hoct : ∀ x ∈ p, x < 256) (hb : 16 + body.length < 4294967296) :
    ∃ m', run m (reaction c p body (receive p dflt)) = some m' ∧ Ready c m' := by
  obtain ⟨k, hconns, hid, hbound, hwr, hopen⟩ := hr.conn
  cases hrc : receive p dflt with
  | escape e => exact ⟨m, rfl, hr⟩
  | ignore =>
    have hun := ignore_facts p dflt h16 hrc
    have hnd : cmdOf p ≠ deliverSm := by
      intro e; rw [e] at hun; exact deliver_mapped hun
    obtain ⟨f, hf⟩ := step_recv (fedState m k p) p (by simp [fedState])
    refine ⟨{ fedState m k p with fed := f }, by simp only [reaction, run, step_fed m k c p hconns hid, hf], ?_⟩
    unfold fedState
    refine ⟨_, rfl, ?_, ?_, ?_, ?_⟩
    · split <;> exact hid
    · split <;> exact hbound
    · split <;> exact hwr
    · intro q hq hqd
      split at hq
      · exact hopen q hq hqd
      · rcases List.mem_append.mp hq with h | h
        · exact hopen q h hqd
        · simp only [List.mem_singleton] at h
          rw [h] at hqd
          exact absurd hqd hnd
  | respond cmd st sq =>
    obtain ⟨hnr, hsq, hcmd⟩ := respond_facts p dflt h16 cmd st sq hrc
    obtain ⟨hcl, hsl⟩ := fields_lt p hoct
    have hreq : cmdOf p < 0x80000000 := by
      unfold isResponseCmd at hnr; simp at hnr; omega
    have hgn : Discipline.genericNack = 0x80000000 := rfl
    have hcmdlt : cmd < 4294967296 := by
      rcases hcmd with h | h <;> omega
    have hcmdresp : isResponseCmd cmd = true := by
      unfold isResponseCmd
      rcases hcmd with h | h <;> (simp; omega)
    obtain ⟨hwhole, hrcmd, hrseq⟩ := respPdu_facts cmd st sq body hcmdlt (by rw [hsq]; exact hsl) hb
    generalize hr' : respPdu cmd st sq body = r at hwhole hrcmd hrseq
    -- the five steps, each with its explicit result
    have h1 := step_fed m k c p hconns hid
    have hk1 : fedState m k p = { m with fed := m.fed ++ [p], conns := [{ k with open_ := k.open_ ++ [(p, false)] }] } := by
      unfold fedState; simp [hnr]
    rw [hk1] at h1
    obtain ⟨f, h2⟩ := step_recv { m with fed := m.fed ++ [p], conns := [{ k with open_ := k.open_ ++ [(p, false)] }] } p (by simp)
    have h3 := step_recvDone { m with fed := f, conns := [{ k with open_ := k.open_ ++ [(p, false)] }] }
      { k with open_ := k.open_ ++ [(p, false)] } p rfl
    have h4 := step_announce { m with fed := f, conns := [{ k with open_ := (k.open_ ++ [(p, false)]).map (mark p) }] } r
    obtain ⟨ann, hann, _⟩ := removeFirst_of_mem r (m.announced ++ [r]) (by simp)
    -- the request just read is open, flagged, and matches the response
    have hmem : (p, true) ∈ (k.open_ ++ [(p, false)]).map (mark p) := by
      rw [List.map_append]
      apply List.mem_append_right
      simp [mark]
    have hflagall : ∀ q ∈ (k.open_ ++ [(p, false)]).map (mark p), cmdOf q.1 = deliverSm → q.2 = true := by
      intro q hq hqd
      obtain ⟨q0, hq0, rfl⟩ := List.mem_map.mp hq
      by_cases e : q0.1.take 16 = p.take 16
      · simp [mark, e]
      · have hme : mark p q0 = q0 := by simp [mark, e]
        rw [hme] at hqd ⊢
        rcases List.mem_append.mp hq0 with h | h
        · exact hopen q0 h hqd
        · simp only [List.mem_singleton] at h
          rw [h] at e
          exact absurd rfl e
    cases hfind : ((k.open_ ++ [(p, false)]).map (mark p)).find?
        (fun q => seqOf q.1 = seqOf r ∧ (cmdOf r = Discipline.genericNack ∨ cmdOf r = cmdOf q.1 + 0x80000000)) with
    | none =>
      have := List.find?_eq_none.mp hfind (p, true) hmem
      simp only [decide_eq_true_eq, hrseq, hsq, hrcmd, true_and] at this
      exact absurd hcmd this
    | some q =>
      have hqmem := List.mem_of_find?_eq_some hfind
      have h5 := step_write_resp
        { m with announced := m.announced ++ [r], fed := f, conns := [{ k with open_ := (k.open_ ++ [(p, false)]).map (mark p) }] }
        { k with open_ := (k.open_ ++ [(p, false)]).map (mark p) } c r ann q rfl hid hbound hwr hann hwhole
        (by rw [hrcmd]; exact hcmdresp) hfind (hflagall q hqmem)
      have hrun : run m (reaction c p body (.respond cmd st sq)) =
          some { bindCmd := m.bindCmd, announced := ann, fed := f,
                 conns := [{ id := k.id, writes := k.writes + 1, bound := k.bound,
                             open_ := ((k.open_ ++ [(p, false)]).map (mark p)).erase q }] } := by
        simp only [reaction, run, hr', h1, h2, h3, h4, h5]
      refine ⟨_, hrun, ?_⟩
      refine ⟨_, rfl, hid, hbound, Nat.succ_pos _, ?_⟩
      intro q' hq' hqd
      exact hflagall q' (List.mem_of_mem_erase hq') hqd

/-- ANY SEQUENCE OF INBOUND PDUs: the events of the Receiver model are accepted by the wire-discipline monitor -/
theorem receiver_accepted (c : Nat) (dflt : Enc) (body : Bytes → Bytes) : ∀ (ps : List Bytes) (m : Mon), Ready c m →
    (∀ p ∈ ps, 16 ≤ p.length ∧ (∀ x ∈ p, x < 256) ∧ 16 + (body p).length < 4294967296) →
    ∃ m', run m (receiverEvents c dflt body ps) = some m'
  | [], m, _, _ => ⟨m, rfl⟩
  | p :: ps, m, hr, hps => by
    obtain ⟨h16, hoct, hb⟩ := hps p (by simp)
    obtain ⟨m1, hrun, hr1⟩ := reaction_accepted c dflt p (body p) m hr h16 hoct hb
    simp only [receiverEvents]
    cases hrc : receive p dflt with
    | escape e => exact ⟨m, rfl⟩
    | ignore =>
      rw [hrc] at hrun
      dsimp only
      rw [run_append, hrun]
      exact receiver_accepted c dflt body ps m1 hr1 (fun q hq => hps q (by simp [hq]))
    | respond cmd st sq =>
      rw [hrc] at hrun
      dsimp only
      rw [run_append, hrun]
      exact receiver_accepted c dflt body ps m1 hr1 (fun q hq => hps q (by simp [hq]))

end SmppVerif.Lemmas.ReceiverDiscipline
