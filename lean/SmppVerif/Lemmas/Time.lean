/- Helper lemmas for C17. -/
import SmppVerif.Model.Time
import SmppVerif.Spec.TimeFormat

namespace SmppVerif.Lemmas.Time
open SmppVerif SmppVerif.Time

/-! Finite facts, by kernel evaluation over the whole range. -/

theorem pyInt_two : ∀ n ∈ List.range 100, pyInt (two n) = .ok (n : Int) := by decide +kernel

theorem two_eq_dec2 : ∀ n ∈ List.range 100, two n = Spec.TimeFormat.dec2 n := by decide +kernel

theorem fmt02_small : ∀ n ∈ List.range 100, fmt02 (Int.ofNat n) = two n := by decide +kernel

theorem digit_one : ∀ t ∈ List.range 10, natDigits t = [48 + t] ∧ pyInt [48 + t] = .ok (t : Int) := by
  decide +kernel

/-- the offset string the decoder rebuilds from `nn` quarter hours and the sign character
    denotes exactly ±nn·900 seconds -/
theorem offset_back : ∀ q ∈ List.range 49,
    fromTimezone ([43] ++ fmt02 ((q : Int) * 15 / 60) ++ fmt02 ((q : Int) * 15 % 60)) = .ok ((q : Int) * 900) ∧
    fromTimezone ([45] ++ fmt02 ((q : Int) * 15 / 60) ++ fmt02 ((q : Int) * 15 % 60)) = .ok (-((q : Int) * 900)) := by
  decide +kernel

theorem monthDays_eq : ∀ y ∈ List.range 100, ∀ m ∈ List.range 13,
    daysInMonth (2000 + (y : Int)) (m : Int) = (if m = 0 then 31 else (Spec.TimeFormat.monthDays (2000 + y) m : Int)) := by
  decide +kernel

theorem mem_range {n k : Nat} (h : k < n) : k ∈ List.range n := List.mem_range.mpr h

end SmppVerif.Lemmas.Time

namespace SmppVerif.Lemmas.Time
open SmppVerif SmppVerif.Time

/-- Domain of the absolute-time property: calendar dates of 2000–2099, any tenth, naive or
    an offset that is a multiple of 15 minutes within ±12 h. -/
structure WFabs (d : DateTime) : Prop where
  year : 2000 ≤ d.year ∧ d.year ≤ 2099
  month : 1 ≤ d.month ∧ d.month ≤ 12
  day : 1 ≤ d.day ∧ d.day ≤ Spec.TimeFormat.monthDays d.year d.month
  hour : d.hour < 24
  minute : d.minute < 60
  second : d.second < 60
  micro : d.micro < 1000000
  offset : ∀ o, d.offset = some o → o % 900 = 0 ∧ -43200 ≤ o ∧ o ≤ 43200

theorem monthDays_le (y m : Nat) : Spec.TimeFormat.monthDays y m ≤ 31 := by
  unfold Spec.TimeFormat.monthDays; split <;> (try split) <;> omega

/-- the offset part the encoder writes: two digits of |o|/900 and the sign -/
theorem offset_part (o : Option Int)
    (h : ∀ x, o = some x → x % 900 = 0 ∧ -43200 ≤ x ∧ x ≤ 43200) :
    offsetPart o
    = (two ((o.getD 0).natAbs / 900), if o.getD 0 < 0 then 45 else 43) := by
  unfold offsetPart
  cases o with
  | none => rfl
  | some x =>
    obtain ⟨_, h2, h3⟩ := h x rfl
    by_cases hx : x = 0
    · subst hx; rfl
    · have hq : x.natAbs / 900 < 100 := by omega
      simp only [hx, if_false, Option.getD_some]
      rw [fmt02_small _ (mem_range hq)]

theorem abs_format (d : DateTime) (h : WFabs d) :
    toSmpp (.abs d) = .ok (Spec.TimeFormat.renderAbs d.year d.month d.day d.hour d.minute d.second
      (d.micro / 100000) (d.offset.getD 0)) := by
  have hmd := monthDays_le d.year d.month
  have ht : d.micro / 100000 < 10 := by have := h.micro; omega
  unfold toSmpp Spec.TimeFormat.renderAbs
  simp only
  rw [offset_part d.offset h.offset]
  simp only
  have hq : (d.offset.getD 0).natAbs / 900 < 100 := by
    cases ho : d.offset with
    | none => simp
    | some x => have := h.offset x ho; simp only [Option.getD_some]; omega
  rw [two_eq_dec2 _ (mem_range (show d.year % 100 < 100 by omega)),
    two_eq_dec2 _ (mem_range (show d.month < 100 by have := h.month; omega)),
    two_eq_dec2 _ (mem_range (show d.day < 100 by have := h.day; omega)),
    two_eq_dec2 _ (mem_range (show d.hour < 100 by have := h.hour; omega)),
    two_eq_dec2 _ (mem_range (show d.minute < 100 by have := h.minute; omega)),
    two_eq_dec2 _ (mem_range (show d.second < 100 by have := h.second; omega)),
    two_eq_dec2 _ (mem_range hq), (digit_one _ (mem_range ht)).1]

end SmppVerif.Lemmas.Time

namespace SmppVerif.Lemmas.Time
open SmppVerif SmppVerif.Time Spec.TimeFormat

theorem pyInt_dec2 (n : Nat) (h : n < 100) : pyInt [48 + n / 10, 48 + n % 10] = .ok (n : Int) := by
  have h1 := pyInt_two n (mem_range h)
  have h2 := two_eq_dec2 n (mem_range h)
  rw [h2] at h1; exact h1

theorem pyInt_dig (t : Nat) (h : t < 10) : pyInt [48 + t] = .ok (t : Int) :=
  (digit_one t (mem_range h)).2

/-- decoding of a rendered absolute time, field by field -/
theorem fromSmpp_render (y mo d h mi s t q sg : Nat)
    (hy : y < 100) (hmo : mo < 100) (hd : d < 100) (hh : h < 100) (hmi : mi < 100) (hs : s < 100)
    (ht : t < 10) (hq : q < 49) (hsg : sg = 43 ∨ sg = 45)
    (hv : validDateTime (2000 + (y : Int)) mo d h mi s ((t : Int) * 100000) = true) :
    fromSmpp (dec2 y ++ dec2 mo ++ dec2 d ++ dec2 h ++ dec2 mi ++ dec2 s ++ [48 + t] ++ dec2 q ++ [sg])
      = .ok (.abs { year := 2000 + y, month := mo, day := d, hour := h, minute := mi, second := s,
                    micro := t * 100000,
                    offset := some (if sg = 43 then (q : Int) * 900 else -((q : Int) * 900)) }) := by
  simp only [dec2, List.cons_append, List.nil_append]
  unfold fromSmpp
  simp only [List.isEmpty_cons, Bool.false_eq_true, if_false]
  have e0 : ∀ (a0 a1 a2 a3 a4 a5 a6 a7 a8 a9 a10 a11 a12 a13 a14 a15 : Nat),
      let L := [a0, a1, a2, a3, a4, a5, a6, a7, a8, a9, a10, a11, a12, a13, a14, a15]
      slice L 0 2 = [a0, a1] ∧ slice L 2 4 = [a2, a3] ∧ slice L 4 6 = [a4, a5] ∧
      slice L 6 8 = [a6, a7] ∧ slice L 8 10 = [a8, a9] ∧ slice L 10 12 = [a10, a11] ∧
      slice L 12 13 = [a12] ∧ slice L 13 15 = [a13, a14] ∧ slice L 15 16 = [a15] ∧
      L.getLast? = some a15 := by
    intros; exact ⟨rfl, rfl, rfl, rfl, rfl, rfl, rfl, rfl, rfl, rfl⟩
  obtain ⟨s0, s1, s2, s3, s4, s5, s6, s7, s8, s9⟩ :=
    e0 (48 + y / 10) (48 + y % 10) (48 + mo / 10) (48 + mo % 10) (48 + d / 10) (48 + d % 10)
      (48 + h / 10) (48 + h % 10) (48 + mi / 10) (48 + mi % 10) (48 + s / 10) (48 + s % 10)
      (48 + t) (48 + q / 10) (48 + q % 10) sg
  rw [s0, s1, s2, s3, s4, s5, s6, s7, s8, s9]
  rw [pyInt_dec2 y hy, pyInt_dec2 mo hmo, pyInt_dec2 d hd, pyInt_dec2 h hh, pyInt_dec2 mi hmi,
    pyInt_dec2 s hs, pyInt_dig t ht, pyInt_dec2 q (by omega)]
  simp only
  have hne : ¬ (some sg = some 82) := by rcases hsg with rfl | rfl <;> simp
  simp only [hne, if_false]
  obtain ⟨ob1, ob2⟩ := offset_back q (mem_range hq)
  rcases hsg with rfl | rfl
  · simp only [List.cons_append, List.nil_append] at ob1 ⊢
    rw [ob1]; simp only [hv, if_true]
    congr 3 <;> omega
  · simp only [List.cons_append, List.nil_append] at ob2 ⊢
    rw [ob2]; simp only [hv, if_true]
    congr 3 <;> omega

end SmppVerif.Lemmas.Time

namespace SmppVerif.Lemmas.Time
open SmppVerif SmppVerif.Time Spec.TimeFormat

theorem abs_round_trip (d : DateTime) (h : WFabs d) :
    ∃ s, toSmpp (.abs d) = .ok s ∧
      fromSmpp s = .ok (.abs { d with
        micro := d.micro / 100000 * 100000, offset := some (d.offset.getD 0) }) := by
  refine ⟨_, abs_format d h, ?_⟩
  unfold renderAbs
  have hmd := monthDays_le d.year d.month
  have hy := h.year; have hm := h.month; have hd := h.day
  have hh := h.hour; have hmi := h.minute; have hs := h.second; have hus := h.micro
  have ho : (d.offset.getD 0) % 900 = 0 ∧ -43200 ≤ d.offset.getD 0 ∧ d.offset.getD 0 ≤ 43200 := by
    cases hoo : d.offset with
    | none => simp
    | some x => simpa using h.offset x hoo
  have hq : (d.offset.getD 0).natAbs / 900 < 49 := by omega
  have hdm := monthDays_eq (d.year % 100) (mem_range (by omega)) d.month (mem_range (by omega))
  have hyy : 2000 + d.year % 100 = d.year := by omega
  have hv : validDateTime (2000 + ((d.year % 100 : Nat) : Int)) d.month d.day d.hour d.minute d.second
      (((d.micro / 100000 : Nat) : Int) * 100000) = true := by
    unfold validDateTime
    rw [hyy] at hdm
    rw [hdm]
    have hm0 : ¬ d.month = 0 := by omega
    simp only [hm0, if_false]
    simp only [Bool.and_eq_true, decide_eq_true_eq]
    refine ⟨⟨⟨⟨⟨⟨⟨⟨⟨⟨⟨⟨⟨?_, ?_⟩, ?_⟩, ?_⟩, ?_⟩, ?_⟩, ?_⟩, ?_⟩, ?_⟩, ?_⟩, ?_⟩, ?_⟩, ?_⟩, ?_⟩ <;> omega
  have := fromSmpp_render (d.year % 100) d.month d.day d.hour d.minute d.second (d.micro / 100000)
    ((d.offset.getD 0).natAbs / 900) (if d.offset.getD 0 < 0 then 45 else 43)
    (by omega) (by omega) (by omega) (by omega) (by omega) (by omega) (by omega) hq
    (by split <;> simp) hv
  rw [this]
  have e_off : (if (if d.offset.getD 0 < 0 then (45 : Nat) else 43) = 43
      then (((d.offset.getD 0).natAbs / 900 : Nat) : Int) * 900
      else -((((d.offset.getD 0).natAbs / 900 : Nat) : Int) * 900)) = d.offset.getD 0 := by
    split
    · have : ¬ ((45 : Nat) = 43) := by omega
      simp only [this, if_false]; omega
    · simp only [if_true]; omega
  rw [e_off, hyy]

/-- decoding of a rendered relative time -/
theorem fromSmpp_renderRel (y mo d h mi s : Nat)
    (hy : y < 100) (hmo : mo < 100) (hd : d < 100) (hh : h < 100) (hmi : mi < 100) (hs : s < 100) :
    fromSmpp (renderRel y mo d h mi s)
      = mkDelta ((y : Int) * 365 + (mo : Int) * 30 + d) ((h : Int) * 3600 + (mi : Int) * 60 + s) := by
  unfold renderRel
  simp only [dec2, List.cons_append, List.nil_append]
  unfold fromSmpp
  simp only [List.isEmpty_cons, Bool.false_eq_true, if_false]
  have e0 : ∀ (a0 a1 a2 a3 a4 a5 a6 a7 a8 a9 a10 a11 : Nat),
      let L := [a0, a1, a2, a3, a4, a5, a6, a7, a8, a9, a10, a11, 48, 48, 48, 82]
      slice L 0 2 = [a0, a1] ∧ slice L 2 4 = [a2, a3] ∧ slice L 4 6 = [a4, a5] ∧
      slice L 6 8 = [a6, a7] ∧ slice L 8 10 = [a8, a9] ∧ slice L 10 12 = [a10, a11] ∧
      L.getLast? = some 82 := by
    intros; exact ⟨rfl, rfl, rfl, rfl, rfl, rfl, rfl⟩
  obtain ⟨s0, s1, s2, s3, s4, s5, s6⟩ :=
    e0 (48 + y / 10) (48 + y % 10) (48 + mo / 10) (48 + mo % 10) (48 + d / 10) (48 + d % 10)
      (48 + h / 10) (48 + h % 10) (48 + mi / 10) (48 + mi % 10) (48 + s / 10) (48 + s % 10)
  rw [s0, s1, s2, s3, s4, s5, s6]
  rw [pyInt_dec2 y hy, pyInt_dec2 mo hmo, pyInt_dec2 d hd, pyInt_dec2 h hh, pyInt_dec2 mi hmi,
    pyInt_dec2 s hs]
  simp only [if_true]

/-- Domain of the relative-time property: a normalised, non-negative timedelta of at most
    63 weeks. -/
structure WFrel (t : TimeDelta) : Prop where
  days : 0 ≤ t.days
  seconds : t.seconds < 86400
  bound : relTooLong t = false

theorem fmt02_nat (n : Nat) (h : n < 100) (z : Int) (hz : z = (n : Int)) : fmt02 z = dec2 n := by
  subst hz
  have := fmt02_small n (mem_range h)
  rw [two_eq_dec2 n (mem_range h)] at this
  exact this

theorem rel_format (t : TimeDelta) (h : WFrel t) :
    toSmpp (.rel t) = .ok (renderRel (t.days.toNat / 365) (t.days.toNat % 365 / 30)
      (t.days.toNat % 365 % 30) (t.seconds / 3600) (t.seconds % 3600 / 60) (t.seconds % 3600 % 60)) := by
  have hd := h.days; have hs := h.seconds
  have hb : t.days * 86400 + (t.seconds : Int) ≤ maxRelSeconds := by
    have := h.bound
    unfold relTooLong at this
    simp only [Bool.or_eq_false_iff, decide_eq_false_iff_not] at this
    omega
  unfold maxRelSeconds at hb
  unfold toSmpp
  simp only [h.bound, Bool.false_eq_true, if_false]
  unfold renderRel
  rw [fmt02_nat (t.days.toNat / 365) (by omega) _ (by omega),
    fmt02_nat (t.days.toNat % 365 / 30) (by omega) _ (by omega),
    fmt02_nat (t.days.toNat % 365 % 30) (by omega) _ (by omega),
    fmt02_nat (t.seconds / 3600) (by omega) _ (by omega),
    fmt02_nat (t.seconds % 3600 / 60) (by omega) _ (by omega),
    fmt02_nat (t.seconds % 3600 % 60) (by omega) _ (by omega)]

theorem rel_round_trip (t : TimeDelta) (h : WFrel t) :
    ∃ s, toSmpp (.rel t) = .ok s ∧ fromSmpp s = .ok (.rel { t with micros := 0 }) := by
  refine ⟨_, rel_format t h, ?_⟩
  have hd := h.days; have hs := h.seconds
  have hb : t.days * 86400 + (t.seconds : Int) ≤ maxRelSeconds := by
    have := h.bound
    unfold relTooLong at this
    simp only [Bool.or_eq_false_iff, decide_eq_false_iff_not] at this
    omega
  unfold maxRelSeconds at hb
  rw [fromSmpp_renderRel _ _ _ _ _ _ (by omega) (by omega) (by omega) (by omega) (by omega) (by omega)]
  unfold mkDelta
  have e1 : (((t.days.toNat / 365 : Nat) : Int) * 365 + ((t.days.toNat % 365 / 30 : Nat) : Int) * 30
      + ((t.days.toNat % 365 % 30 : Nat) : Int)) = t.days := by omega
  have e2 : (((t.seconds / 3600 : Nat) : Int) * 3600 + ((t.seconds % 3600 / 60 : Nat) : Int) * 60
      + ((t.seconds % 3600 % 60 : Nat) : Int)) = (t.seconds : Int) := by omega
  rw [e1, e2]
  have e3 : (t.days * 86400 + (t.seconds : Int)) / 86400 = t.days := by omega
  have e4 : ((t.days * 86400 + (t.seconds : Int)) % 86400).toNat = t.seconds := by omega
  simp only [e3, e4]
  have : ¬ t.days.natAbs > 999999999 := by omega
  simp only [this, if_false]

theorem rel_reject (t : TimeDelta) (h : relTooLong t = true) :
    toSmpp (.rel t) = .error .valueError := by
  unfold toSmpp; simp [h]

end SmppVerif.Lemmas.Time
