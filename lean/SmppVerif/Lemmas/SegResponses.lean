/- C02 (and C01), segmented messages, the RESPONSE phase: from the state in which the `n` segments of a message are stored
   and awaiting their responses, the `n` accepting responses — in ANY order — each record the SMSC's id for their segment;
   all but the last yield a placeholder, the last hands over one response with the message's identity, and the state
   reached is the one the receipt theorem of Lemmas/SegReceipts.lean starts from (`Inv A [] none`). -/
import SmppVerif.Lemmas.SegReceipts
import SmppVerif.Lemmas.SegHistory
import SmppVerif.Lemmas.History

namespace SmppVerif.Lemmas.SegResponses
open SmppVerif SmppVerif.Corr SmppVerif.Lemmas.Corr SmppVerif.Lemmas.Expiry SmppVerif.Lemmas.Ledger
open SmppVerif.Lemmas.SegReceipts

/-! ### association lists, the sweep when nothing is due -/

section AList
variable {κ ν : Type} [DecidableEq κ]

theorem aset_aset (d : List (κ × ν)) (k : κ) (v v' : ν) : aset (aset d k v) k v' = aset d k v' := by
  induction d with
  | nil => simp [aset]
  | cons p rest ih =>
    obtain ⟨k0, v0⟩ := p
    by_cases h : k0 = k
    · simp [aset, h]
    · simp [aset, h, ih]

theorem mem_aset (d : List (κ × ν)) (k : κ) (v : ν) (p : κ × ν) (h : p ∈ aset d k v) : p ∈ d ∨ p = (k, v) := by
  induction d with
  | nil => simp [aset] at h; exact Or.inr h
  | cons q rest ih =>
    obtain ⟨k0, v0⟩ := q
    by_cases e : k0 = k
    · simp only [aset, e, if_true] at h
      rcases List.mem_cons.mp h with h | h
      · exact Or.inr h
      · exact Or.inl (List.mem_cons_of_mem _ h)
    · simp only [aset, e, if_false] at h
      rcases List.mem_cons.mp h with h | h
      · exact Or.inl (by rw [h]; exact List.mem_cons_self)
      · rcases ih h with h | h
        · exact Or.inl (List.mem_cons_of_mem _ h)
        · exact Or.inr h

theorem eq_nil_of_aget_none (d : List (κ × ν)) (h : ∀ k, aget d k = none) : d = [] := by
  cases d with
  | nil => rfl
  | cons p rest =>
    obtain ⟨k0, v0⟩ := p
    have := h k0
    simp [aget] at this

end AList

/-- the sweep finds nothing to remove -/
theorem sweepStore_none (now : Nat) : ∀ (ks : List Nat) (s : CState),
    (∀ k at_ m, aget s.store k = some (at_, m) → now - at_ ≤ s.ttlResp) → sweepStore now ks s = (s, [])
  | [], _, _ => rfl
  | k :: ks, s, h => by
    rw [sweepStore_cons]
    cases h1 : aget s.store k with
    | none => exact sweepStore_none now ks s h
    | some pr =>
      obtain ⟨at_, m⟩ := pr
      dsimp only
      have := h k at_ m h1
      rw [if_neg (by omega)]
      exact sweepStore_none now ks s h

/-- nothing is due anywhere: `_remove_expired` changes nothing and calls no hook -/
theorem removeExpired_none (s : CState) (now : Nat)
    (hs : ∀ k at_ m, aget s.store k = some (at_, m) → now - at_ ≤ s.ttlResp)
    (hd : ∀ p ∈ s.delivStore, now - p.2.1 ≤ s.ttlDeliv) (hds : s.delivSegStore = []) :
    removeExpired s now = (s, []) := by
  unfold removeExpired
  rw [sweepStore_none now _ s hs]
  dsimp only
  have h1 : s.delivStore.filter (fun p => ¬ (now - p.2.1 > s.ttlDeliv)) = s.delivStore := by
    rw [List.filter_eq_self]; intro p hp; have := hd p hp; simp; omega
  have h2 : s.delivSegStore.filter (fun p => ¬ (now - p.2.1 > s.ttlDeliv)) = s.delivSegStore := by
    rw [hds]; rfl
  rw [h1, h2]

/-! ### one accepting response to a registered segment, computed -/

/-- the segment status after the accepting response `r'` (with the request's tracking data) for segment `i` -/
def acceptStatus (st : SegStatus) (i : Nat) (r' : Msg) : SegStatus :=
  { st with status := aset st.status i sSent,
            lastResponse := if st.lastResponse.isSome then st.lastResponse else some r' }

/-- the state after it: request popped, status updated, the SMSC's id recorded -/
def acceptState (s : CState) (now : Nat) (r o : Msg) (ref : Nat) (st2 : SegStatus) : CState :=
  { s with store := adel s.store r.seq,
           segStatus := aset s.segStatus ref st2,
           delivStore := aset s.delivStore r.msgId (now, o) }

theorem accept_compute (s : CState) (now tq : Nat) (r o : Msg) (ref i : Nat) (st : SegStatus)
    (hk : r.kind = .submitSmResp) (hstat : r.status = 0) (hok : o.kind = .submitSm)
    (hstore : aget s.store r.seq = some (tq, o))
    (hseg : aget s.segStore r.seq = some (ref, i))
    (hst : aget s.segStatus ref = some st)
    (hfreshS : ∀ k at_ m, k ≠ r.seq → aget s.store k = some (at_, m) → now - at_ ≤ s.ttlResp)
    (hfreshD : ∀ p ∈ s.delivStore, now - p.2.1 ≤ s.ttlDeliv) (hds : s.delivSegStore = [])
    (hnot : st.lastResponse.isSome = true → st.lastResponse ≠ some r)
    (hcode : maxCode (aset st.status i sSent) = sSending ∨ maxCode (aset st.status i sSent) = sSent)
    (hne : (aset st.status i sSent).isEmpty = false) :
    handleResponse s now r =
      (acceptState s now r o ref (acceptStatus st i { r with logId := o.logId, extra := o.extra }), [],
       [ThrottleCall.notThrottled],
       if maxCode (aset st.status i sSent) = sSending then Handled.placeholder
       else .msg ((acceptStatus st i { r with logId := o.logId, extra := o.extra }).lastResponse.getD
              { r with logId := o.logId, extra := o.extra })) := by
  have htrack : track r o = { r with logId := o.logId, extra := o.extra } := by
    unfold track Msg.isTrackable
    simp [hk]
  have hlike : o.isSubmitLike = true := by unfold Msg.isSubmitLike; simp [hok]
  have hrs : respStatus st i { r with logId := o.logId, extra := o.extra } =
      acceptStatus st i { r with logId := o.logId, extra := o.extra } := by
    unfold respStatus acceptStatus
    simp [hk, hstat]
  obtain ⟨r', hr'⟩ : ∃ r' : Msg, r' = { r with logId := o.logId, extra := o.extra } := ⟨_, rfl⟩
  rw [← hr'] at htrack hrs ⊢
  have hr'seq : r'.seq = r.seq := by rw [hr']
  obtain ⟨st2, hst2⟩ : ∃ x, x = acceptStatus st i r' := ⟨_, rfl⟩
  rw [← hst2] at hrs ⊢
  have hst2s : st2.status = aset st.status i sSent := by rw [hst2]; rfl
  have hst2l : st2.lastResponse = if st.lastResponse.isSome then st.lastResponse else some r' := by rw [hst2]; rfl
  obtain ⟨sb, hsb⟩ : ∃ x : CState, x = { s with store := adel s.store r.seq, segStatus := aset s.segStatus ref st2 } :=
    ⟨_, rfl⟩
  have hupd : updateSegOnResponse { s with store := adel s.store r.seq } (track r o) o = sb := by
    unfold updateSegOnResponse
    rw [htrack]
    simp only [hlike, if_true, hr'seq, hseg, hst, hrs]
    exact hsb.symm
  have hsbfresh : ∀ k at_ m, aget sb.store k = some (at_, m) → now - at_ ≤ sb.ttlResp := by
    intro k at_ m hget
    rw [hsb] at hget ⊢
    dsimp only at hget ⊢
    by_cases e : k = r.seq
    · subst e; rw [aget_adel_same] at hget; cases hget
    · rw [aget_adel_other _ _ _ e] at hget
      exact hfreshS k at_ m e hget
  have hsbD : ∀ p ∈ sb.delivStore, now - p.2.1 ≤ sb.ttlDeliv := by rw [hsb]; exact hfreshD
  have hsbds : sb.delivSegStore = [] := by rw [hsb]; exact hds
  have hget : Corr.get s now r = (sb, [], some o) := by
    unfold Corr.get
    simp only [hstore, hupd]
    rw [removeExpired_none sb now hsbfresh hsbD hsbds]
  have hsbseg : aget sb.segStore r.seq = some (ref, i) := by rw [hsb]; exact hseg
  have hsbst : aget sb.segStatus ref = some st2 := by rw [hsb]; exact aget_aset_same _ _ _
  have hfix : fixLast sb r r' = sb := by
    unfold fixLast
    simp only [hsbseg, hsbst]
    by_cases hc : st2.lastResponse = some r
    · rw [if_pos hc]
      have hsame : r' = r := by
        rw [hst2l] at hc
        by_cases hs : st.lastResponse.isSome
        · rw [if_pos hs] at hc; exact absurd hc (hnot hs)
        · rw [if_neg hs] at hc; exact Option.some.inj hc
      rw [hsame]
      have : ({ st2 with lastResponse := some r } : SegStatus) = st2 := by
        cases st2 with
        | mk a b c d =>
          have : c = some r := hc
          rw [this]
      rw [this, hsb]
      show ({ s with store := adel s.store r.seq, segStatus := aset (aset s.segStatus ref st2) ref st2 } : CState) = _
      rw [aset_aset]
    · rw [if_neg hc]
  obtain ⟨s2, hs2⟩ : ∃ x : CState, x = acceptState s now r o ref st2 := ⟨_, rfl⟩
  have hpd : putDelivery sb now r.msgId o = (s2, []) := by
    unfold putDelivery
    rw [removeExpired_none sb now hsbfresh hsbD hsbds, hs2, hsb]
    rfl
  have hs2seg : aget s2.segStore r.seq = some (ref, i) := by rw [hs2]; exact hseg
  have hs2st : aget s2.segStatus ref = some st2 := by rw [hs2]; exact aget_aset_same _ _ _
  have hgs : getSegmented s2 r.seq false = (s2, some st2, maxCode st2.status) := by
    unfold getSegmented
    simp only [hs2seg, Bool.false_eq_true, if_false, hs2st]
    unfold cumulated
    simp only [hs2st]
    have hne' : st2.status.isEmpty = false := by rw [hst2s]; exact hne
    simp only [hne', Bool.false_eq_true, if_false]
    have : ¬ (maxCode st2.status ≠ sSending ∧ maxCode st2.status ≠ sSent) := by
      rw [hst2s]
      rcases hcode with h | h <;> simp [h]
    rw [if_neg this]
  have hmis : mismatch r o = false := by
    unfold mismatch requestKindOf
    simp [hk, hok]
  have hattr : attributable r o = true := by
    unfold attributable
    simp [hk, hlike]
  have hthr : isThrottleStatus r.status = false := by
    unfold isThrottleStatus; simp [hstat]
  have hcond : r.kind = .submitSmResp ∧ r.status = 0 := ⟨hk, hstat⟩
  have hexp : ¬ maxCode st2.status = sExpired := by
    rw [hst2s]
    rcases hcode with h | h <;> rw [h] <;> decide
  rw [History.handleResponse_eq]
  simp only [hget]
  rw [hmis, hattr]
  simp only [Bool.false_eq_true, if_false, if_true, History.attrBranch, ← hr', hfix]
  rw [if_pos hcond, hpd]
  simp only [hgs, hthr, Bool.false_eq_true, if_false, hst2s]
  have hexp' : ¬ maxCode (aset st.status i sSent) = sExpired := by rw [← hst2s]; exact hexp
  simp only [hexp', if_false, List.append_nil, ← hs2]

/-! ### the message and its responses -/

/-- a segmented message on its way: the `n` segments are stored (segment `i` at `tq i`), the SMSC accepts each
    (`resp i`, handled at `t i`, carrying the id `ident i`), nothing reaches a time-to-live meanwhile -/
structure Sent extends Accepted where
  TR : Nat
  TD : Nat
  tq : Nat → Nat
  resp : Nat → Msg
  hsub : ∀ i, (sub i).kind = .submitSm
  hresp : ∀ i, (resp i).kind = .submitSmResp ∧ (resp i).seq = q i ∧ (resp i).status = 0 ∧ (resp i).msgId = ident i
  hR : ∀ i j, t i - tq j ≤ TR
  hD : ∀ i j, t i - t j ≤ TD

/-- per-segment status while the responses come in: SENT for the segments in `R`, SENDING for the others -/
def rstatus (A : Sent) (R : List Nat) : List (Nat × Int) :=
  (List.range' 1 A.n).map fun i => (i, if i ∈ R then sSent else sSending)

theorem aset_rstatus (A : Sent) (R : List Nat) (i : Nat) (h1 : 1 ≤ i) (h2 : i ≤ A.n) :
    aset (rstatus A R) i sSent = rstatus A (i :: R) := by
  unfold rstatus
  rw [aset_map_range _ _ i _ ((mem_range' i A.n).mpr ⟨h1, h2⟩) (List.nodup_range' (s := 1) (n := A.n) 1)]
  apply List.map_congr_left
  intro j _
  by_cases e : j = i
  · subst e; simp
  · simp [e]

theorem rstatus_ne (A : Sent) (R : List Nat) : rstatus A R ≠ [] := by
  unfold rstatus
  have := A.hn
  cases hn : A.n with
  | zero => omega
  | succ k => simp [List.range'_succ]

theorem rstatus_isEmpty (A : Sent) (R : List Nat) : (rstatus A R).isEmpty = false := by
  have := rstatus_ne A R
  cases h : rstatus A R with
  | nil => exact absurd h this
  | cons _ _ => rfl

/-- the aggregated code is SENDING or SENT -/
theorem rstatus_code (A : Sent) (R : List Nat) :
    maxCode (rstatus A R) = sSending ∨ maxCode (rstatus A R) = sSent := by
  obtain ⟨p, hp, he⟩ := SegHistory.maxCode_mem (rstatus A R) (rstatus_ne A R)
  unfold rstatus at hp
  obtain ⟨j, _, rfl⟩ := List.mem_map.mp hp
  dsimp only at he
  rw [← he]
  split
  · exact Or.inr rfl
  · exact Or.inl rfl

/-- … SENDING exactly while a response is outstanding -/
theorem rstatus_sending_iff (A : Sent) (R : List Nat) :
    maxCode (rstatus A R) = sSending ↔ ∃ j, 1 ≤ j ∧ j ≤ A.n ∧ j ∉ R := by
  have hss : sSent < sSending := by decide
  constructor
  · intro h
    obtain ⟨p, hp, he⟩ := SegHistory.maxCode_mem (rstatus A R) (rstatus_ne A R)
    unfold rstatus at hp
    obtain ⟨j, hj, rfl⟩ := List.mem_map.mp hp
    have hjr := (mem_range' j A.n).mp hj
    dsimp only at he
    by_cases hm : j ∈ R
    · rw [if_pos hm, h] at he; omega
    · exact ⟨j, hjr.1, hjr.2, hm⟩
  · rintro ⟨j, h1, h2, hj⟩
    have hmem : (j, sSending) ∈ rstatus A R := by
      unfold rstatus
      refine List.mem_map.mpr ⟨j, (mem_range' j A.n).mpr ⟨h1, h2⟩, ?_⟩
      simp [hj]
    have := maxCode_ge (rstatus A R) (j, sSending) hmem
    dsimp only at this
    rcases rstatus_code A R with h | h
    · exact h
    · omega

/-- responses for the segments in `R` are in, the others are outstanding -/
structure PInv (A : Sent) (R : List Nat) (s : CState) : Prop where
  ttl : s.ttlResp = A.TR ∧ s.ttlDeliv = A.TD
  storeOnly : ∀ k at_ m, aget s.store k = some (at_, m) →
    ∃ i, 1 ≤ i ∧ i ≤ A.n ∧ i ∉ R ∧ k = A.q i ∧ at_ = A.tq i ∧ m = A.sub i
  stored : ∀ i, 1 ≤ i → i ≤ A.n → i ∉ R → aget s.store (A.q i) = some (A.tq i, A.sub i)
  seg : ∀ i, 1 ≤ i → i ≤ A.n → aget s.segStore (A.q i) = some (A.ref, i)
  deliv : ∀ i, 1 ≤ i → i ≤ A.n → i ∈ R → aget s.delivStore (A.ident i) = some (A.t i, A.sub i)
  delivT : ∀ p ∈ s.delivStore, ∃ j, p.2.1 = A.t j
  dseg : s.delivSegStore = []
  status : ∃ orig lresp, aget s.segStatus A.ref = some ⟨rstatus A R, orig, lresp, none⟩ ∧
    (∀ m, lresp = some m → m.logId = A.L ∧ m.extra = A.X) ∧
    (∀ m, lresp = some m → ∃ j ∈ R, m.seq = A.q j) ∧ (R ≠ [] → lresp.isSome = true)

/-- `last_response` after the response for segment `i`: the first response stays -/
def lastAfter (A : Sent) (lresp : Option Msg) (i : Nat) : Option Msg :=
  if lresp.isSome then lresp else some { A.resp i with logId := A.L, extra := A.X }

/-- the state after the response for segment `i` -/
def afterResp (A : Sent) (s : CState) (i : Nat) (st2 : SegStatus) : CState :=
  { s with store := adel s.store (A.q i),
           segStatus := aset s.segStatus A.ref st2,
           delivStore := aset s.delivStore (A.ident i) (A.t i, A.sub i) }

/-- ONE RESPONSE under the invariant, computed: the state and what the hook is handed -/
theorem resp_compute (A : Sent) (R : List Nat) (s : CState) (i : Nat) (orig : Msg) (lresp : Option Msg)
    (hinv : PInv A R s) (h1 : 1 ≤ i) (h2 : i ≤ A.n) (hi : i ∉ R)
    (hst : aget s.segStatus A.ref = some ⟨rstatus A R, orig, lresp, none⟩)
    (hlq : ∀ m, lresp = some m → ∃ j ∈ R, m.seq = A.q j) :
    handleResponse s (A.t i) (A.resp i) =
      (afterResp A s i ⟨rstatus A (i :: R), orig, lastAfter A lresp i, none⟩, [], [ThrottleCall.notThrottled],
       if maxCode (rstatus A (i :: R)) = sSending then Handled.placeholder
       else .msg ((lastAfter A lresp i).getD { A.resp i with logId := A.L, extra := A.X })) := by
  obtain ⟨hk, hsq, hstat, hmid⟩ := A.hresp i
  have hL := A.hL i
  have hstore : aget s.store (A.resp i).seq = some (A.tq i, A.sub i) := by rw [hsq]; exact hinv.stored i h1 h2 hi
  have hseg : aget s.segStore (A.resp i).seq = some (A.ref, i) := by rw [hsq]; exact hinv.seg i h1 h2
  have hfreshS : ∀ k at_ m, k ≠ (A.resp i).seq → aget s.store k = some (at_, m) → A.t i - at_ ≤ s.ttlResp := by
    intro k at_ m _ hget
    obtain ⟨j, _, _, _, _, hat, _⟩ := hinv.storeOnly k at_ m hget
    rw [hinv.ttl.1, hat]; exact A.hR i j
  have hfreshD : ∀ p ∈ s.delivStore, A.t i - p.2.1 ≤ s.ttlDeliv := by
    intro p hp
    obtain ⟨j, hj⟩ := hinv.delivT p hp
    rw [hj, hinv.ttl.2]; exact A.hD i j
  have hnot : (⟨rstatus A R, orig, lresp, none⟩ : SegStatus).lastResponse.isSome = true →
      (⟨rstatus A R, orig, lresp, none⟩ : SegStatus).lastResponse ≠ some (A.resp i) := by
    intro _ hc
    obtain ⟨j, hj, hjq⟩ := hlq _ hc
    rw [hsq] at hjq
    have := A.qinj i j hjq
    subst this
    exact hi hj
  have hasr : aset (rstatus A R) i sSent = rstatus A (i :: R) := aset_rstatus A R i h1 h2
  have := accept_compute s (A.t i) (A.tq i) (A.resp i) (A.sub i) A.ref i ⟨rstatus A R, orig, lresp, none⟩
    hk hstat (A.hsub i) hstore hseg hst hfreshS hfreshD hinv.dseg hnot
    (by rw [hasr]; exact rstatus_code A (i :: R)) (by rw [hasr]; exact rstatus_isEmpty A (i :: R))
  rw [this]
  unfold acceptState acceptStatus afterResp lastAfter
  simp only [hasr, hL.1, hL.2, hsq, hmid]

/-- ONE RESPONSE under the invariant: the invariant moves on, no hook call from a sweep; a placeholder while a response
    is outstanding, otherwise one response with the message's identity -/
theorem resp_step (A : Sent) (R : List Nat) (s : CState) (i : Nat)
    (hinv : PInv A R s) (h1 : 1 ≤ i) (h2 : i ≤ A.n) (hi : i ∉ R) :
    PInv A (i :: R) (handleResponse s (A.t i) (A.resp i)).1 ∧
    (handleResponse s (A.t i) (A.resp i)).2.1 = [] ∧
    ((∃ j, 1 ≤ j ∧ j ≤ A.n ∧ j ∉ i :: R) → (handleResponse s (A.t i) (A.resp i)).2.2.2 = .placeholder) ∧
    ((¬ ∃ j, 1 ≤ j ∧ j ≤ A.n ∧ j ∉ i :: R) →
      ∃ m, (handleResponse s (A.t i) (A.resp i)).2.2.2 = .msg m ∧ m.logId = A.L ∧ m.extra = A.X) := by
  obtain ⟨orig, lresp, hst, hlL, hlq, hlsome⟩ := hinv.status
  rw [resp_compute A R s i orig lresp hinv h1 h2 hi hst hlq]
  obtain ⟨hk, hsq, hstat, hmid⟩ := A.hresp i
  have hlast : ∀ m, lastAfter A lresp i = some m →
      (m.logId = A.L ∧ m.extra = A.X) ∧ ∃ j ∈ i :: R, m.seq = A.q j := by
    intro m hm
    unfold lastAfter at hm
    by_cases hs : lresp.isSome
    · rw [if_pos hs] at hm
      obtain ⟨j, hj, hjq⟩ := hlq m hm
      exact ⟨hlL m hm, j, List.mem_cons_of_mem _ hj, hjq⟩
    · rw [if_neg hs] at hm
      have := Option.some.inj hm
      subst this
      exact ⟨⟨rfl, rfl⟩, i, List.mem_cons_self, hsq⟩
  have hlastSome : (lastAfter A lresp i).isSome = true := by
    unfold lastAfter; split
    · assumption
    · rfl
  refine ⟨?_, rfl, ?_, ?_⟩
  · refine ⟨hinv.ttl, ?_, ?_, hinv.seg, ?_, ?_, hinv.dseg, ⟨orig, lastAfter A lresp i, ?_, ?_, ?_, ?_⟩⟩
    · intro k at_ m hget
      unfold afterResp at hget
      dsimp only at hget
      by_cases e : k = A.q i
      · subst e; rw [aget_adel_same] at hget; cases hget
      · rw [aget_adel_other _ _ _ e] at hget
        obtain ⟨j, hj1, hj2, hjR, hkq, hat, hm⟩ := hinv.storeOnly k at_ m hget
        refine ⟨j, hj1, hj2, ?_, hkq, hat, hm⟩
        intro hmem
        rcases List.mem_cons.mp hmem with e' | h
        · subst e'; exact e hkq
        · exact hjR h
    · intro j hj1 hj2 hjR
      have hji : j ≠ i := fun e => hjR (by simp [e])
      have hjR' : j ∉ R := fun h => hjR (List.mem_cons_of_mem _ h)
      unfold afterResp
      dsimp only
      rw [aget_adel_other _ _ _ (fun e => hji (A.qinj j i e))]
      exact hinv.stored j hj1 hj2 hjR'
    · intro j hj1 hj2 hjR
      unfold afterResp
      dsimp only
      by_cases e : j = i
      · subst e; exact aget_aset_same _ _ _
      · rw [aget_aset_other _ _ _ _ (fun e' => e (A.idinj j i e'))]
        rcases List.mem_cons.mp hjR with e' | h
        · exact absurd e' e
        · exact hinv.deliv j hj1 hj2 h
    · intro p hp
      unfold afterResp at hp
      dsimp only at hp
      rcases mem_aset _ _ _ _ hp with h | h
      · exact hinv.delivT p h
      · exact ⟨i, by rw [h]⟩
    · unfold afterResp
      dsimp only
      exact aget_aset_same _ _ _
    · intro m hm; exact (hlast m hm).1
    · intro m hm; exact (hlast m hm).2
    · intro _; exact hlastSome
  · intro hex
    dsimp only
    rw [if_pos ((rstatus_sending_iff A (i :: R)).mpr hex)]
  · intro hno
    dsimp only
    rw [if_neg (fun h => hno ((rstatus_sending_iff A (i :: R)).mp h))]
    obtain ⟨m, hm⟩ := Option.isSome_iff_exists.mp hlastSome
    refine ⟨m, by rw [hm]; rfl, (hlast m hm).1.1, (hlast m hm).1.2⟩

/-! ### all responses, in any order -/

/-- responses handled one after the other (each at its own clock value) -/
def runResponses (A : Sent) : CState → List Nat → CState × List Out × List Handled
  | s, [] => (s, [], [])
  | s, i :: rest =>
    let h := handleResponse s (A.t i) (A.resp i)
    let r := runResponses A h.1 rest
    (r.1, h.2.1 ++ r.2.1, h.2.2.2 :: r.2.2)

theorem runResponses_append (A : Sent) : ∀ (a b : List Nat) (s : CState),
    runResponses A s (a ++ b) =
      ((runResponses A (runResponses A s a).1 b).1,
       (runResponses A s a).2.1 ++ (runResponses A (runResponses A s a).1 b).2.1,
       (runResponses A s a).2.2 ++ (runResponses A (runResponses A s a).1 b).2.2)
  | [], b, s => by simp [runResponses]
  | i :: a, b, s => by
    simp only [List.cons_append, runResponses]
    rw [runResponses_append A a b]
    simp [List.append_assoc]

/-- while a response is still outstanding after the whole list: placeholders only, the invariant moves on -/
theorem run_outstanding (A : Sent) : ∀ (order R : List Nat) (s : CState),
    PInv A R s → (∀ i ∈ order, 1 ≤ i ∧ i ≤ A.n) → (order ++ R).Nodup →
    (∃ j, 1 ≤ j ∧ j ≤ A.n ∧ j ∉ order ++ R) →
    (runResponses A s order).2.2 = order.map (fun _ => Handled.placeholder) ∧
    (runResponses A s order).2.1 = [] ∧
    PInv A (order.reverse ++ R) (runResponses A s order).1
  | [], R, s, hinv, _, _, _ => ⟨rfl, rfl, by simpa [runResponses] using hinv⟩
  | i :: rest, R, s, hinv, hr, hnd, hex => by
    have hir := hr i (by simp)
    have hnd' : i ∉ rest ++ R ∧ (rest ++ R).Nodup := List.nodup_cons.mp hnd
    have hiR : i ∉ R := fun h => hnd'.1 (List.mem_append_right _ h)
    obtain ⟨j, hj1, hj2, hjn⟩ := hex
    have hjn' : j ∉ i :: R := by
      intro h
      apply hjn
      rcases List.mem_cons.mp h with e | h
      · simp [e]
      · exact List.mem_append_right _ h
    obtain ⟨hinv', houts, hph, _⟩ := resp_step A R s i hinv hir.1 hir.2 hiR
    have hnd2 : (rest ++ i :: R).Nodup := by
      have : (rest ++ i :: R).Perm (i :: rest ++ R) := by
        exact List.perm_middle
      exact this.nodup_iff.mpr hnd
    have hex2 : ∃ j, 1 ≤ j ∧ j ≤ A.n ∧ j ∉ rest ++ i :: R := by
      refine ⟨j, hj1, hj2, ?_⟩
      intro h
      apply hjn
      rcases List.mem_append.mp h with h | h
      · simp [h]
      · rcases List.mem_cons.mp h with e | h
        · simp [e]
        · simp [h]
    obtain ⟨ih1, ih2, ih3⟩ := run_outstanding A rest (i :: R) _ hinv'
      (fun k hk => hr k (List.mem_cons_of_mem _ hk)) hnd2 hex2
    simp only [runResponses, List.map_cons]
    refine ⟨by rw [hph ⟨j, hj1, hj2, hjn'⟩, ih1], by rw [houts, ih2]; rfl, ?_⟩
    simpa [List.reverse_cons, List.append_assoc] using ih3

/-- the invariant with every segment answered IS the accepted state the receipt theorem starts from -/
theorem pinv_all (A : Sent) (R : List Nat) (s : CState) (hinv : PInv A R s)
    (hall : ∀ j, 1 ≤ j → j ≤ A.n → j ∈ R) : Inv A.toAccepted [] none s := by
  obtain ⟨orig, lresp, hst, _, _, _⟩ := hinv.status
  refine ⟨?_, ?_, ⟨orig, lresp, ?_⟩⟩
  · apply eq_nil_of_aget_none
    intro k
    cases h : aget s.store k with
    | none => rfl
    | some pr =>
      obtain ⟨at_, m⟩ := pr
      obtain ⟨j, hj1, hj2, hjR, _⟩ := hinv.storeOnly k at_ m h
      exact absurd (hall j hj1 hj2) hjR
  · intro i h1 h2 _
    exact ⟨hinv.deliv i h1 h2 (hall i h1 h2), hinv.seg i h1 h2⟩
  · rw [hst]
    have : rstatus A R = statusOf A.toAccepted [] := by
      unfold rstatus statusOf
      apply List.map_congr_left
      intro j hj
      have hjr := (mem_range' j A.n).mp hj
      simp [hall j hjr.1 hjr.2]
    rw [this]

/-- ANY ORDER: the `n` accepting responses to the segments of a stored message, handled in any order (any permutation
    of 1..n), cause no hook call from a sweep, give `n - 1` placeholders and then exactly one response carrying the
    message's log_id and extra_data, and leave the state from which the receipts are awaited. -/
theorem all_orders_resp (A : Sent) (order : List Nat) (s : CState)
    (hperm : order.Perm (List.range' 1 A.n)) (hinv : PInv A [] s) :
    (∃ m, (runResponses A s order).2.2 = List.replicate (A.n - 1) Handled.placeholder ++ [.msg m] ∧
      m.logId = A.L ∧ m.extra = A.X) ∧
    (runResponses A s order).2.1 = [] ∧
    Inv A.toAccepted [] none (runResponses A s order).1 ∧
    (runResponses A s order).1.ttlDeliv = A.TD := by
  have hlen : order.length = A.n := by rw [hperm.length_eq]; simp
  have hnd : order.Nodup := hperm.nodup_iff.mpr (List.nodup_range' (s := 1) (n := A.n) 1)
  have hmem : ∀ i, i ∈ order ↔ 1 ≤ i ∧ i ≤ A.n := fun i => by rw [hperm.mem_iff]; exact mem_range' i A.n
  have hne : order ≠ [] := by
    intro h; rw [h] at hlen; have := A.hn; simp at hlen; omega
  obtain ⟨init, last, rfl⟩ : ∃ init last, order = init ++ [last] :=
    ⟨order.dropLast, order.getLast hne, (List.dropLast_append_getLast hne).symm⟩
  have hli : last ∉ init := by
    have := List.nodup_append.mp hnd
    intro h
    exact this.2.2 last h last (by simp) rfl
  have hlr := (hmem last).mp (by simp)
  obtain ⟨hph, houts, hinv'⟩ := run_outstanding A init [] s hinv
    (fun i hi => (hmem i).mp (by simp [hi])) (by simpa using (List.nodup_append.mp hnd).1)
    ⟨last, hlr.1, hlr.2, by simpa using hli⟩
  have hiR : last ∉ init.reverse ++ [] := by simpa using hli
  have hall : ∀ j, 1 ≤ j → j ≤ A.n → j ∈ last :: (init.reverse ++ []) := by
    intro j h1 h2
    have := (hmem j).mpr ⟨h1, h2⟩
    rcases List.mem_append.mp this with h | h
    · simp [h]
    · simp at h; simp [h]
  have hno : ¬ ∃ j, 1 ≤ j ∧ j ≤ A.n ∧ j ∉ last :: (init.reverse ++ []) := by
    rintro ⟨j, h1, h2, hj⟩; exact hj (hall j h1 h2)
  obtain ⟨hinv'', houts', _, hfin⟩ := resp_step A (init.reverse ++ []) _ last hinv' hlr.1 hlr.2 hiR
  obtain ⟨m, hm, hmL, hmX⟩ := hfin hno
  rw [runResponses_append]
  dsimp only
  refine ⟨⟨m, ?_, hmL, hmX⟩, ?_, ?_, ?_⟩
  · rw [hph]
    simp only [runResponses, hm]
    have hil : init.length = A.n - 1 := by simp at hlen; omega
    rw [← hil]
    simp [List.map_const']
  · rw [houts]; simp only [runResponses, houts']; rfl
  · simp only [runResponses]
    exact pinv_all A _ _ hinv'' hall
  · simp only [runResponses]
    exact hinv''.ttl.2

/-! ### the PUT phase: the segments are stored one after the other -/

/-- … and the segments as the Sender stores them: segment `i` of `n` under the message's reference -/
structure Queued extends Sent where
  hsar : ∀ i, (sub i).sarRef = ref ∧ (sub i).sarSeq = i ∧ (sub i).sarTotal = n
  hQ : ∀ i j, tq i - tq j ≤ TR

theorem aset_same_value (f : Nat → Int) (i : Nat) (l : List Nat) (hi : i ∈ l) (hnd : l.Nodup) :
    aset (l.map fun j => (j, f j)) i (f i) = l.map fun j => (j, f j) := by
  rw [aset_map_range f (f i) i l hi hnd]
  apply List.map_congr_left
  intro j _
  by_cases e : j = i
  · subst e; simp
  · simp [e]

/-- segments 1..k are stored, nothing else is -/
structure PutInv (A : Queued) (k : Nat) (s : CState) : Prop where
  ttl : s.ttlResp = A.TR ∧ s.ttlDeliv = A.TD
  storeOnly : ∀ key at_ m, aget s.store key = some (at_, m) →
    ∃ i, 1 ≤ i ∧ i ≤ k ∧ key = A.q i ∧ at_ = A.tq i ∧ m = A.sub i
  stored : ∀ i, 1 ≤ i → i ≤ k → aget s.store (A.q i) = some (A.tq i, A.sub i)
  seg : ∀ i, 1 ≤ i → i ≤ k → aget s.segStore (A.q i) = some (A.ref, i)
  deliv : s.delivStore = []
  dseg : s.delivSegStore = []
  status0 : k = 0 → aget s.segStatus A.ref = none
  status : 1 ≤ k → aget s.segStatus A.ref = some ⟨rstatus A.toSent [], A.sub 1, none, none⟩

/-- the state after `put` of segment `k + 1` -/
def afterPut (A : Queued) (s : CState) (k : Nat) (st : SegStatus) : CState :=
  { s with store := aset s.store (A.q (k + 1)) (A.tq (k + 1), A.sub (k + 1)),
           segStore := aset s.segStore (A.q (k + 1)) (A.ref, k + 1),
           segStatus := aset s.segStatus A.ref st }

theorem put_step (A : Queued) (k : Nat) (s : CState) (hinv : PutInv A k s) (hk : k + 1 ≤ A.n) :
    PutInv A (k + 1) (put s (A.tq (k + 1)) (A.sub (k + 1))).1 ∧ (put s (A.tq (k + 1)) (A.sub (k + 1))).2 = [] := by
  obtain ⟨hr, hsq, htot⟩ := A.hsar (k + 1)
  have hlike : (A.sub (k + 1)).isSubmitLike = true := by unfold Msg.isSubmitLike; simp [A.hsub (k + 1)]
  have hfresh : removeExpired s (A.tq (k + 1)) = (s, []) := by
    apply removeExpired_none
    · intro key at_ m hget
      obtain ⟨j, _, _, _, hat, _⟩ := hinv.storeOnly key at_ m hget
      rw [hinv.ttl.1, hat]; exact A.hQ (k + 1) j
    · rw [hinv.deliv]; intro p hp; cases hp
    · exact hinv.dseg
  have hsame : aset (rstatus A.toSent []) (k + 1) sSending = rstatus A.toSent [] := by
    have := aset_same_value (fun _ => sSending) (k + 1) (List.range' 1 A.n)
      ((mem_range' (k + 1) A.n).mpr ⟨by omega, hk⟩) (List.nodup_range' (s := 1) (n := A.n) 1)
    unfold rstatus
    simpa using this
  have hput : put s (A.tq (k + 1)) (A.sub (k + 1)) =
      (afterPut A s k ⟨rstatus A.toSent [], A.sub 1, none, none⟩, []) := by
    unfold put
    rw [hfresh]
    have hc : (A.sub (k + 1)).isSubmitLike = true ∧ A.n > 0 := ⟨hlike, by omega⟩
    simp only [hr, hsq, htot, A.hq (k + 1), if_pos hc]
    unfold afterPut
    by_cases hk0 : k = 0
    · subst hk0
      simp only [hinv.status0 rfl]
      have : ((List.range' 1 A.n).map fun q => (q, sSending)) = rstatus A.toSent [] := by
        unfold rstatus; simp
      rw [this, hsame]
    · simp only [hinv.status (by omega)]
      rw [hsame]
  rw [hput]
  refine ⟨⟨hinv.ttl, ?_, ?_, ?_, hinv.deliv, hinv.dseg, by omega, ?_⟩, rfl⟩
  · intro key at_ m hget
    unfold afterPut at hget
    dsimp only at hget
    by_cases e : key = A.q (k + 1)
    · subst e
      rw [aget_aset_same] at hget
      have := Option.some.inj hget
      exact ⟨k + 1, by omega, Nat.le_refl _, rfl, (Prod.mk.inj this).1.symm, (Prod.mk.inj this).2.symm⟩
    · rw [aget_aset_other _ _ _ _ e] at hget
      obtain ⟨j, hj1, hj2, h3⟩ := hinv.storeOnly key at_ m hget
      exact ⟨j, hj1, by omega, h3⟩
  · intro j hj1 hj2
    unfold afterPut
    dsimp only
    by_cases e : j = k + 1
    · subst e; exact aget_aset_same _ _ _
    · rw [aget_aset_other _ _ _ _ (fun e' => e (A.qinj j (k + 1) e'))]
      exact hinv.stored j hj1 (by omega)
  · intro j hj1 hj2
    unfold afterPut
    dsimp only
    by_cases e : j = k + 1
    · subst e; exact aget_aset_same _ _ _
    · rw [aget_aset_other _ _ _ _ (fun e' => e (A.qinj j (k + 1) e'))]
      exact hinv.seg j hj1 (by omega)
  · intro _
    unfold afterPut
    dsimp only
    exact aget_aset_same _ _ _

/-- the Sender stores segments 1..k in turn -/
def runPuts (A : Queued) (s : CState) : Nat → CState × List Out
  | 0 => (s, [])
  | k + 1 =>
    let r := runPuts A s k
    let p := put r.1 (A.tq (k + 1)) (A.sub (k + 1))
    (p.1, r.2 ++ p.2)

theorem runPuts_inv (A : Queued) (s : CState) (h0 : PutInv A 0 s) : ∀ k, k ≤ A.n →
    PutInv A k (runPuts A s k).1 ∧ (runPuts A s k).2 = []
  | 0, _ => ⟨h0, rfl⟩
  | k + 1, hk => by
    obtain ⟨ih, iho⟩ := runPuts_inv A s h0 k (by omega)
    obtain ⟨h1, h2⟩ := put_step A k _ ih hk
    simp only [runPuts]
    exact ⟨h1, by rw [iho, h2]; rfl⟩

/-- a correlator that holds nothing (the delivery stores empty, nothing under the message's reference) -/
theorem putInv_empty (A : Queued) (s : CState) (httl : s.ttlResp = A.TR ∧ s.ttlDeliv = A.TD)
    (hs : s.store = []) (hd : s.delivStore = []) (hds : s.delivSegStore = [])
    (hst : aget s.segStatus A.ref = none) : PutInv A 0 s :=
  ⟨httl, (by intro key at_ m h; rw [hs] at h; cases h), (by intro i h1 h2; omega), (by intro i h1 h2; omega),
   hd, hds, fun _ => hst, (by intro h; omega)⟩

/-- all `n` segments stored: the state the responses are awaited in -/
theorem putInv_all (A : Queued) (s : CState) (h : PutInv A A.n s) : PInv A.toSent [] s := by
  refine ⟨h.ttl, ?_, ?_, h.seg, ?_, ?_, h.dseg, ⟨A.sub 1, none, h.status A.hn, ?_, ?_, ?_⟩⟩
  · intro key at_ m hget
    obtain ⟨i, h1, h2, h3⟩ := h.storeOnly key at_ m hget
    exact ⟨i, h1, h2, by simp, h3⟩
  · intro i h1 h2 _; exact h.stored i h1 h2
  · intro i _ _ hi; cases hi
  · rw [h.deliv]; intro p hp; cases hp
  · intro m hm; cases hm
  · intro m hm; cases hm
  · intro hne; exact absurd rfl hne

end SmppVerif.Lemmas.SegResponses
