import SmppVerif.Model.Supervisor

namespace SmppVerif.Lemmas.Supervisor
open SmppVerif SmppVerif.Policy SmppVerif.Supervisor

/-! ### without stop() the supervisor goes through every cycle of any fault script -/

theorem afterCycle_none (s : St) : (afterCycle none s).2 = none ∧
    (afterCycle none s).1 = { t := s.t + s.bo.wait.2, bo := s.bo.wait.1 } := by
  simp [afterCycle, stopped]

theorem never_returns (lat gs : Nat) : ∀ (script : List Outcome) (s : St),
    returnedAt (run none lat gs s script) = none ∧ (connects (run none lat gs s script)).length = script.length
  | [], _ => by simp [run, returnedAt, connects]
  | o :: rest, s => by
    cases o with
    | connFail d =>
      have ih := never_returns lat gs rest (afterCycle none { s with t := s.t + d }).1
      simp only [run, (afterCycle_none _).1]
      simp only [returnedAt, connects, List.findSome?_cons, List.filterMap_cons, List.length_cons] at ih ⊢
      exact ⟨ih.1, by rw [ih.2]⟩
    | bindFail d =>
      have ih := never_returns lat gs rest (afterCycle none { s with t := s.t + d }).1
      simp only [run, (afterCycle_none _).1]
      simp only [returnedAt, connects, List.findSome?_cons, List.filterMap_cons, List.length_cons] at ih ⊢
      exact ⟨ih.1, by rw [ih.2]⟩
    | session c d g =>
      have ih := never_returns lat gs rest (afterCycle none { t := s.t + c + d + g, bo := s.bo.reset }).1
      simp only [run, stopped, Bool.false_eq_true, if_false]
      simp only [returnedAt, connects, List.findSome?_cons, List.filterMap_cons, List.length_cons] at ih ⊢
      exact ⟨ih.1, by rw [ih.2]⟩

/-! ### back-off between consecutive failures -/

/-- connect times of consecutive failing cycles: each starts after the previous one's duration
    plus the back-off delay -/
def connTimes : Nat → List Nat → List Nat → List Nat
  | _, [], _ => []
  | t, d :: ds, w :: ws => t :: connTimes (t + d + w) ds ws
  | t, _ :: _, [] => [t]

theorem failures_backoff (lat gs : Nat) : ∀ (ds : List Nat) (s : St),
    connects (run none lat gs s (ds.map .connFail)) = connTimes s.t ds (Backoff.delays ds.length s.bo)
  | [], _ => by simp [run, connects, connTimes]
  | d :: ds, s => by
    have ih := failures_backoff lat gs ds (afterCycle none { s with t := s.t + d }).1
    simp only [List.map_cons, run, (afterCycle_none _).1, List.length_cons, Backoff.delays]
    simp only [connects, List.filterMap_cons] at ih ⊢
    rw [ih, (afterCycle_none _).2]
    rfl

/-- a successful bind makes the back-off start over: what follows a session does not depend on the
    failures before it -/
theorem session_resets (lat gs : Nat) (s : St) (c d g : Nat) (rest : List Outcome) :
    run none lat gs s (.session c d g :: rest) =
      .connect s.t :: .bound (s.t + c) ::
        run none lat gs { t := s.t + c + d + g, bo := { s.bo with nextDelay := s.bo.minDelay } } rest := by
  simp only [run, stopped, Bool.false_eq_true, if_false, afterCycle]
  simp [Backoff.reset, Backoff.wait]

/-! ### stop() -/

theorem stopped_some (ts t : Nat) : stopped (some ts) t = decide (ts ≤ t) := rfl

/-- what `afterCycle` can return when stop() was called at `ts` -/
theorem afterCycle_ret (ts : Nat) (s : St) (tr : Nat) (h : (afterCycle (some ts) s).2 = some tr) :
    ts ≤ tr ∧ (tr = s.t ∨ (s.t < ts ∧ tr = s.t + s.bo.wait.2)) := by
  unfold afterCycle at h
  by_cases h1 : ts ≤ s.t
  · simp only [stopped, h1, decide_true, if_true] at h
    cases h
    exact ⟨h1, Or.inl rfl⟩
  · by_cases h2 : ts ≤ s.t + s.bo.wait.2
    · simp only [stopped, h1, h2, decide_true, decide_false, if_true, Bool.false_eq_true, if_false] at h
      cases h
      exact ⟨h2, Or.inr ⟨by omega, rfl⟩⟩
    · simp only [stopped, h1, h2, decide_false, Bool.false_eq_true, if_false] at h
      cases h

/-- start() never returns before stop() was called -/
theorem returns_after_stop (ts lat gs : Nat) : ∀ (script : List Outcome) (s : St) (tr : Nat),
    returnedAt (run (some ts) lat gs s script) = some tr → ts ≤ tr
  | [], _, _, h => by simp [run, returnedAt] at h
  | o :: rest, s, tr, h => by
    cases o with
    | connFail d =>
      simp only [run] at h
      cases hr : (afterCycle (some ts) { s with t := s.t + d }).2 with
      | some t1 =>
        simp only [hr, returnedAt, List.findSome?_cons] at h
        cases h
        exact (afterCycle_ret ts _ _ hr).1
      | none =>
        simp only [hr, returnedAt, List.findSome?_cons] at h
        exact returns_after_stop ts lat gs rest _ tr h
    | bindFail d =>
      simp only [run] at h
      cases hr : (afterCycle (some ts) { s with t := s.t + d }).2 with
      | some t1 =>
        simp only [hr, returnedAt, List.findSome?_cons] at h
        cases h
        exact (afterCycle_ret ts _ _ hr).1
      | none =>
        simp only [hr, returnedAt, List.findSome?_cons] at h
        exact returns_after_stop ts lat gs rest _ tr h
    | session c d g =>
      simp only [run, stopped_some] at h
      split at h
      · rename_i hs
        simp only [returnedAt, List.findSome?_cons] at h
        cases h
        simp at hs; omega
      · split at h
        · simp only [returnedAt, List.findSome?_cons] at h
          cases h; omega
        · cases hr : (afterCycle (some ts) { t := s.t + c + d + g, bo := s.bo.reset }).2 with
          | some t1 =>
            simp only [hr, returnedAt, List.findSome?_cons] at h
            cases h
            exact (afterCycle_ret ts _ _ hr).1
          | none =>
            simp only [hr, returnedAt, List.findSome?_cons] at h
            exact returns_after_stop ts lat gs rest _ tr h

/-! ### bounded shutdown -/

/-- the states a SimpleExponentialBackoff can be in: the cap is min·2^m, the next delay 0 or min·2^j, j ≤ m -/
def BoWF (b : Backoff) : Prop :=
  ∃ m, b.maxDelay = b.minDelay * 2 ^ m ∧ (b.nextDelay = 0 ∨ ∃ j, j ≤ m ∧ b.nextDelay = b.minDelay * 2 ^ j)

theorem init_wf (d m : Nat) : BoWF (Backoff.init d m) := ⟨m, rfl, Or.inl rfl⟩

theorem reset_wf (b : Backoff) (h : BoWF b) : BoWF b.reset ∧ b.reset.maxDelay = b.maxDelay := by
  obtain ⟨m, hm, _⟩ := h
  exact ⟨⟨m, hm, Or.inl rfl⟩, rfl⟩

theorem pow_le (d j m : Nat) (h : j ≤ m) : d * 2 ^ j ≤ d * 2 ^ m :=
  Nat.mul_le_mul_left d (Nat.pow_le_pow_right (by decide) h)

theorem wait_le (b : Backoff) (h : BoWF b) : b.wait.2 ≤ b.maxDelay := by
  obtain ⟨m, hm, hn⟩ := h
  unfold Backoff.wait
  split
  · simp
  · rcases hn with h0 | ⟨j, hj, hn⟩
    · simp_all
    · simp only
      rw [hn, hm]; exact pow_le _ _ _ hj

theorem wait_wf (b : Backoff) (h : BoWF b) : BoWF b.wait.1 ∧ b.wait.1.maxDelay = b.maxDelay := by
  obtain ⟨m, hm, hn⟩ := h
  unfold Backoff.wait
  split
  · exact ⟨⟨m, hm, Or.inr ⟨0, Nat.zero_le _, by simp⟩⟩, rfl⟩
  · rename_i hne
    rcases hn with h0 | ⟨j, hj, hn⟩
    · exact absurd h0 hne
    · refine ⟨⟨m, hm, Or.inr ?_⟩, rfl⟩
      simp only
      split
      · rename_i hlt
        have hjm : j < m := by
          rcases Nat.lt_or_ge j m with h | h
          · exact h
          · have : j = m := Nat.le_antisymm hj h
            subst this
            rw [hn, hm] at hlt
            exact absurd hlt (Nat.lt_irrefl _)
        exact ⟨j + 1, hjm, by rw [hn, Nat.pow_succ, Nat.mul_assoc]⟩
      · exact ⟨j, hj, hn⟩

theorem afterCycle_cont (ts : Nat) (s : St) (h : (afterCycle (some ts) s).2 = none) :
    (afterCycle (some ts) s).1.t < ts ∧ (afterCycle (some ts) s).1.bo = s.bo.wait.1 := by
  unfold afterCycle at h ⊢
  by_cases h1 : ts ≤ s.t
  · simp [stopped, h1] at h
  · by_cases h2 : ts ≤ s.t + s.bo.wait.2
    · simp [stopped, h1, h2] at h
    · simp only [stopped, h1, h2, decide_false, Bool.false_eq_true, if_false]
      simp only [and_true]
      omega

/-- the script respects the configuration: no connect / bind step outlasts socket_timeout `S`,
    ending a session's tasks takes at most `G` -/
def ScriptWF (S G : Nat) : List Outcome → Prop
  | [] => True
  | .connFail d :: rest => d ≤ S ∧ ScriptWF S G rest
  | .bindFail d :: rest => d ≤ S ∧ ScriptWF S G rest
  | .session c _ g :: rest => c ≤ S ∧ g ≤ G ∧ ScriptWF S G rest

/-- BOUNDED SHUTDOWN: whenever stop() is called, start() returns at most B later, where B covers a
    connect or bind step in progress plus the task grace (S + G), a back-off sleep in progress (the
    cap) and the wind-down of a bound session (lat). -/
theorem stop_bounded (ts lat gs S G B : Nat) (hS : S + G ≤ B) (hL : lat ≤ B) (hgs : gs ≤ G) :
    ∀ (script : List Outcome) (s : St) (tr : Nat), s.t ≤ ts → BoWF s.bo → s.bo.maxDelay ≤ B →
      ScriptWF S G script → returnedAt (run (some ts) lat gs s script) = some tr → tr ≤ ts + B
  | [], _, _, _, _, _, _, h => by simp [run, returnedAt] at h
  | o :: rest, s, tr, ht, hb, hc, hw, h => by
    cases o with
    | connFail d =>
      obtain ⟨hd, hw'⟩ := hw
      simp only [run] at h
      cases hr : (afterCycle (some ts) { s with t := s.t + d }).2 with
      | some t1 =>
        simp only [hr, returnedAt, List.findSome?_cons] at h
        cases h
        rcases (afterCycle_ret ts _ _ hr).2 with h1 | ⟨h1, h2⟩
        · simp only at h1; omega
        · have := wait_le s.bo hb
          simp only at h1 h2; omega
      | none =>
        simp only [hr, returnedAt, List.findSome?_cons] at h
        have hc' := afterCycle_cont ts _ hr
        refine stop_bounded ts lat gs S G B hS hL hgs rest _ tr (Nat.le_of_lt hc'.1) ?_ ?_ hw' h
        · rw [hc'.2]; exact (wait_wf s.bo hb).1
        · rw [hc'.2, (wait_wf s.bo hb).2]; exact hc
    | bindFail d =>
      obtain ⟨hd, hw'⟩ := hw
      simp only [run] at h
      cases hr : (afterCycle (some ts) { s with t := s.t + d }).2 with
      | some t1 =>
        simp only [hr, returnedAt, List.findSome?_cons] at h
        cases h
        rcases (afterCycle_ret ts _ _ hr).2 with h1 | ⟨h1, h2⟩
        · simp only at h1; omega
        · have := wait_le s.bo hb
          simp only at h1 h2; omega
      | none =>
        simp only [hr, returnedAt, List.findSome?_cons] at h
        have hc' := afterCycle_cont ts _ hr
        refine stop_bounded ts lat gs S G B hS hL hgs rest _ tr (Nat.le_of_lt hc'.1) ?_ ?_ hw' h
        · rw [hc'.2]; exact (wait_wf s.bo hb).1
        · rw [hc'.2, (wait_wf s.bo hb).2]; exact hc
    | session c d g =>
      obtain ⟨hcS, hg, hw'⟩ := hw
      simp only [run, stopped_some] at h
      split at h
      · simp only [returnedAt, List.findSome?_cons] at h
        cases h; omega
      · split at h
        · simp only [returnedAt, List.findSome?_cons] at h
          cases h; omega
        · rename_i hns hnb
          cases hr : (afterCycle (some ts) { t := s.t + c + d + g, bo := s.bo.reset }).2 with
          | some t1 =>
            simp only [hr, returnedAt, List.findSome?_cons] at h
            cases h
            have hrw := (reset_wf s.bo hb)
            rcases (afterCycle_ret ts _ _ hr).2 with h1 | ⟨h1, h2⟩
            · simp only at h1; omega
            · have := wait_le s.bo.reset hrw.1
              rw [hrw.2] at this
              simp only at h1 h2; omega
          | none =>
            simp only [hr, returnedAt, List.findSome?_cons] at h
            have hc' := afterCycle_cont ts _ hr
            have hrw := (reset_wf s.bo hb)
            refine stop_bounded ts lat gs S G B hS hL hgs rest _ tr (Nat.le_of_lt hc'.1) ?_ ?_ hw' h
            · rw [hc'.2]; exact (wait_wf _ hrw.1).1
            · rw [hc'.2, (wait_wf _ hrw.1).2, hrw.2]; exact hc

/-! ### connections: opened, closed, one at a time -/

/-- a list of (opened a, closed b) pairs in time order: `lo ≤ a ≤ b ≤ next a …` -/
def Balanced : Nat → List CEv → Prop
  | _, [] => True
  | lo, .opened a :: .closed b :: rest => lo ≤ a ∧ a ≤ b ∧ Balanced b rest
  | _, _ => False

theorem Balanced.mono {lo lo' : Nat} (h : lo' ≤ lo) : ∀ {l : List CEv}, Balanced lo l → Balanced lo' l
  | [], _ => trivial
  | .opened _ :: .closed _ :: _, hb => ⟨Nat.le_trans h hb.1, hb.2.1, hb.2.2⟩
  | [.opened _], hb => hb.elim
  | .opened _ :: .opened _ :: _, hb => hb.elim
  | .closed _ :: _, hb => hb.elim

theorem afterCycle_time (stop : Option Nat) (s : St) : s.t ≤ (afterCycle stop s).1.t := by
  unfold afterCycle
  split
  · exact Nat.le_refl _
  · dsimp only
    split <;> exact Nat.le_add_right _ _

/-- EVERY CONNECTION THAT IS ESTABLISHED IS CLOSED, AND ONLY ONE IS OPEN AT A TIME: whatever the faults and whenever stop()
    is called, the connections of a run are a sequence of (opened, closed) pairs in time order - each closed before the
    next is opened and before start() returns. -/
theorem conns_balanced (stop : Option Nat) (early : Bool) : ∀ (script : List Outcome) (s : St), Balanced s.t (conns stop early s script)
  | [], _ => trivial
  | o :: rest, s => by
    cases o with
    | connFail d =>
      simp only [conns]
      cases hr : (afterCycle stop { s with t := s.t + d }).2 with
      | some tr => trivial
      | none =>
        dsimp only
        have ht := afterCycle_time stop { s with t := s.t + d }
        exact Balanced.mono (by simp only at ht; omega) (conns_balanced stop early rest _)
    | bindFail d =>
      simp only [conns]
      refine ⟨Nat.le_refl _, Nat.le_add_right _ _, ?_⟩
      cases hr : (afterCycle stop { s with t := s.t + d }).2 with
      | some tr => trivial
      | none =>
        dsimp only
        have ht := afterCycle_time stop { s with t := s.t + d }
        exact Balanced.mono (by simpa using ht) (conns_balanced stop early rest _)
    | session c d g =>
      simp only [conns]
      by_cases hst : stopped stop (s.t + c) = true
      · rw [if_pos hst]
        exact ⟨Nat.le_add_right _ _, Nat.le_refl _, trivial⟩
      · rw [if_neg hst]
        cases stop with
        | none =>
          dsimp only
          refine ⟨Nat.le_add_right _ _, by omega, ?_⟩
          have ht := afterCycle_time none { t := s.t + c + d + g, bo := s.bo.reset }
          exact Balanced.mono (by simpa using ht) (conns_balanced none early rest _)
        | some ts =>
          dsimp only
          have hlt : s.t + c < ts := by
            simp only [stopped, decide_eq_true_eq] at hst; omega
          by_cases h2 : ts < s.t + c + d
          · rw [if_pos h2]
            exact ⟨Nat.le_add_right _ _, Nat.le_of_lt hlt, trivial⟩
          · rw [if_neg h2]
            refine ⟨Nat.le_add_right _ _, by split <;> omega, ?_⟩
            cases hr : (afterCycle (some ts) { t := s.t + c + d + g, bo := s.bo.reset }).2 with
            | some tr => trivial
            | none =>
              dsimp only
              have ht := afterCycle_time (some ts) { t := s.t + c + d + g, bo := s.bo.reset }
              exact Balanced.mono (by simp only at ht; split <;> omega) (conns_balanced (some ts) early rest _)

/-- … and without stop() every cycle in which `open_connection` succeeded contributes exactly one such pair -/
theorem conns_count (early : Bool) : ∀ (script : List Outcome) (s : St),
    (conns none early s script).length = 2 * (script.filter fun o => match o with | .connFail _ => false | _ => true).length
  | [], _ => rfl
  | o :: rest, s => by
    cases o with
    | connFail d =>
      simp only [conns, (afterCycle_none _).1, List.filter_cons]
      exact conns_count early rest _
    | bindFail d =>
      simp only [conns, (afterCycle_none _).1, List.filter_cons, List.length_cons]
      rw [conns_count early rest _]
      simp; omega
    | session c d g =>
      simp only [conns, stopped, Bool.false_eq_true, if_false, List.filter_cons, List.length_cons]
      rw [conns_count early rest _]
      simp; omega

end SmppVerif.Lemmas.Supervisor
