/- C03: the submit_sm / deliver_sm round trip for UCS2 text with NO codec hypothesis left: the UTF-16-BE round trip on
   Unicode scalar values is `u16_piece` / `u16_decode_piece` (Lemmas/Split.lean).  Two configurations:
   * default alphabet GSM 03.38, automatic encoding, text with a character outside the alphabet: the encoder falls back
     to UCS2, announces data_coding 8, and the decoder gives the text back and names the encoding `ucs2`;
   * default alphabet UCS2, automatic encoding: data_coding 0, decoded with the default alphabet.
   Text in short_message (≤ 254 octets, i.e. ≤ 127 code units) or in message_payload (≤ 65535 octets). -/
import SmppVerif.Lemmas.SmRead
import SmppVerif.Lemmas.Split

namespace SmppVerif.Lemmas.SmUcs2
open SmppVerif SmppVerif.Pdu SmppVerif.Lemmas.Pdu SmppVerif.Lemmas.PduRead SmppVerif.Lemmas.SmRead
open SmppVerif.Lemmas.Split SmppVerif.Utf16

/-- the code units of a text of scalar values -/
def units (t : List Nat) : List Nat := (t.map u16UnitOf).flatten

/-- what the UCS2 codec writes for a text of scalar values, and that it reads back -/
theorem ucs2_codec (t : List Nat) (h : ∀ c ∈ t, Scalar c) :
    Utf16.encode .strict t = .ok (unitsToBytes (units t)) ∧ Utf16.decode .strict (unitsToBytes (units t)) = .ok t := by
  refine ⟨?_, u16_decode_piece t h⟩
  unfold Utf16.encode
  rw [(u16_piece t h).1]
  rfl

set_option maxRecDepth 8000 in
/-- FALL-BACK TO UCS2: default alphabet GSM 03.38, automatic encoding, a text of Unicode scalar values that is NOT over the
    GSM alphabet and whose UTF-16 form fits short_message. -/
theorem sm_round_trip_ucs2_fallback (deliver : Bool) (m : Sm) (w : SmRT m) (bytes : List Nat) (e : Option Enc)
    (hp : pdu encGsm (if deliver then Msg.deliverSm m else Msg.submitSm m) = .ok (bytes, e))
    (henc : m.encoding = none) (hpre : m.encoded = []) (hpay : m.messagePayload = [])
    (heh : m.errorHandling = .mode .strict)
    (hsc : ∀ c ∈ m.shortMessage, Scalar c) (hnot : Gsm.isGsmText m.shortMessage = false)
    (hlen : (unitsToBytes (units m.shortMessage)).length ≤ 254)
    (hudhi : m.esmClass.toNat % 128 < 64)
    (htime : m.schedule = .none ∧ m.validity = .none)
    (hst : enumHas Gen.Enums.smppCommandStatus m.status = true) :
    decode bytes encGsm = .ok (if deliver then Msg.deliverSm (readBack m m.shortMessage [] .none .none encUcs2)
                               else Msg.submitSm (readBack m m.shortMessage [] .none .none encUcs2)) := by
  obtain ⟨hb, hd⟩ := ucs2_codec m.shortMessage hsc
  have hrej := (Lemmas.Gsm.encode_strict_rejects m.shortMessage).mpr hnot
  have hne : m.shortMessage ≠ [] := by
    intro h0; rw [h0] at hnot; revert hnot; decide
  have hsne : m.shortMessage.isEmpty = false := by
    cases hm : m.shortMessage with
    | nil => exact absurd hm hne
    | cons _ _ => rfl
  have htp : smTextPart encGsm m = .ok (unitsToBytes (units m.shortMessage), [], some encUcs2) := by
    unfold smTextPart
    rw [hpre]
    simp only [List.isEmpty_nil, if_true, hsne, Bool.false_eq_true, if_false]
    unfold smppEncode
    rw [henc]
    simp only [if_true, encGsm, codecEncode, heh, hrej, hb, Except.map]
    rw [hpay]
    simp only [List.isEmpty_nil]
    rw [if_neg (by omega), if_neg (by simp; omega)]
  have hcodec : decodeCodec encUcs2 = Codec.ucs2 := by decide
  have hdm : decodeMessage m.esmClass.toNat (decodeCodec encUcs2) (unitsToBytes (units m.shortMessage)) =
      .ok (m.shortMessage, []) := by
    rw [hcodec]
    unfold decodeMessage
    rw [if_neg (by omega)]
    simp only [codecDecode, hd, Except.map]
  have hnil : CStrOK ([] : List Nat) := by intro c hc; simp at hc
  exact sm_round_trip_short encGsm deliver m w bytes e (unitsToBytes (units m.shortMessage)) [] [] m.shortMessage
    (some encUcs2) encUcs2 8 .none .none hp htp rfl (by decide) (by omega) (by rw [htime.1]; rfl) (by rw [htime.2]; rfl)
    ⟨hnil, hnil⟩ rfl rfl rfl hdm hne hst

set_option maxRecDepth 8000 in
/-- DEFAULT ALPHABET UCS2, automatic encoding: every non-empty text of Unicode scalar values whose UTF-16 form fits
    short_message; data_coding 0 is written and read with the default alphabet. -/
theorem sm_round_trip_ucs2_default (deliver : Bool) (m : Sm) (w : SmRT m) (bytes : List Nat) (e : Option Enc)
    (hp : pdu encUcs2 (if deliver then Msg.deliverSm m else Msg.submitSm m) = .ok (bytes, e))
    (henc : m.encoding = none) (hpre : m.encoded = []) (hpay : m.messagePayload = [])
    (heh : m.errorHandling = .mode .strict)
    (hsc : ∀ c ∈ m.shortMessage, Scalar c) (hne : m.shortMessage ≠ [])
    (hlen : (unitsToBytes (units m.shortMessage)).length ≤ 254)
    (hudhi : m.esmClass.toNat % 128 < 64)
    (htime : m.schedule = .none ∧ m.validity = .none)
    (hst : enumHas Gen.Enums.smppCommandStatus m.status = true) :
    decode bytes encUcs2 = .ok (if deliver then Msg.deliverSm (readBack m m.shortMessage [] .none .none encUcs2)
                                else Msg.submitSm (readBack m m.shortMessage [] .none .none encUcs2)) := by
  obtain ⟨hb, hd⟩ := ucs2_codec m.shortMessage hsc
  have hsne : m.shortMessage.isEmpty = false := by
    cases hm : m.shortMessage with
    | nil => exact absurd hm hne
    | cons _ _ => rfl
  have htp : smTextPart encUcs2 m = .ok (unitsToBytes (units m.shortMessage), [], none) := by
    unfold smTextPart
    rw [hpre]
    simp only [List.isEmpty_nil, if_true, hsne, Bool.false_eq_true, if_false]
    unfold smppEncode
    rw [henc]
    simp only [if_true, encUcs2, codecEncode, heh, hb]
    rw [hpay]
    simp only [List.isEmpty_nil]
    rw [if_neg (by omega), if_neg (by simp; omega)]
  have hcodec : decodeCodec encUcs2 = Codec.ucs2 := by decide
  have hdm : decodeMessage m.esmClass.toNat (decodeCodec encUcs2) (unitsToBytes (units m.shortMessage)) =
      .ok (m.shortMessage, []) := by
    rw [hcodec]
    unfold decodeMessage
    rw [if_neg (by omega)]
    simp only [codecDecode, hd, Except.map]
  have hnil : CStrOK ([] : List Nat) := by intro c hc; simp at hc
  exact sm_round_trip_short encUcs2 deliver m w bytes e (unitsToBytes (units m.shortMessage)) [] [] m.shortMessage
    none encUcs2 0 .none .none hp htp rfl (by decide) (by omega) (by rw [htime.1]; rfl) (by rw [htime.2]; rfl)
    ⟨hnil, hnil⟩ rfl rfl rfl hdm hne hst

set_option maxRecDepth 8000 in
/-- FALL-BACK TO UCS2, text in message_payload (given as payload): up to 65535 octets. -/
theorem sm_round_trip_ucs2_fallback_payload (deliver : Bool) (m : Sm) (w : SmRT m) (bytes : List Nat) (e : Option Enc)
    (hp : pdu encGsm (if deliver then Msg.deliverSm m else Msg.submitSm m) = .ok (bytes, e))
    (henc : m.encoding = none) (hpre : m.encoded = []) (hshort : m.shortMessage = [])
    (heh : m.errorHandling = .mode .strict)
    (hsc : ∀ c ∈ m.messagePayload, Scalar c) (hnot : Gsm.isGsmText m.messagePayload = false)
    (hlen : (unitsToBytes (units m.messagePayload)).length < 65536)
    (hudhi : m.esmClass.toNat % 128 < 64)
    (htime : m.schedule = .none ∧ m.validity = .none)
    (hst : enumHas Gen.Enums.smppCommandStatus m.status = true) :
    decode bytes encGsm = .ok (if deliver then Msg.deliverSm (readBack m [] m.messagePayload .none .none encUcs2)
                               else Msg.submitSm (readBack m [] m.messagePayload .none .none encUcs2)) := by
  obtain ⟨hb, hd⟩ := ucs2_codec m.messagePayload hsc
  have hrej := (Lemmas.Gsm.encode_strict_rejects m.messagePayload).mpr hnot
  have hne : m.messagePayload ≠ [] := by
    intro h0; rw [h0] at hnot; revert hnot; decide
  have hpne : m.messagePayload.isEmpty = false := by
    cases hm : m.messagePayload with
    | nil => exact absurd hm hne
    | cons _ _ => rfl
  have htp : smTextPart encGsm m = .ok ([], Gen.Tlv.messagePayload / 256 % 256 :: Gen.Tlv.messagePayload % 256 ::
      (unitsToBytes (units m.messagePayload)).length / 256 % 256 :: (unitsToBytes (units m.messagePayload)).length % 256 ::
      unitsToBytes (units m.messagePayload), some encUcs2) := by
    unfold smTextPart
    rw [hpre, hshort]
    simp only [List.isEmpty_nil, if_true]
    unfold smppEncode
    rw [henc]
    simp only [if_true, encGsm, codecEncode, heh, hrej, hb, Except.map]
    rw [if_neg (by simp), if_pos (Or.inr (by simp [hpne])), payloadTlv_form _ hlen]
  have hcodec : decodeCodec encUcs2 = Codec.ucs2 := by decide
  have hdm : decodeMessage m.esmClass.toNat (decodeCodec encUcs2) (unitsToBytes (units m.messagePayload)) =
      .ok (m.messagePayload, []) := by
    rw [hcodec]
    unfold decodeMessage
    rw [if_neg (by omega)]
    simp only [codecDecode, hd, Except.map]
  have hdm0 : decodeMessage m.esmClass.toNat (decodeCodec encUcs2) [] = .ok ([], []) := by
    rw [hcodec]
    unfold decodeMessage
    rw [if_neg (by omega)]
    simp only [codecDecode]
    rw [Utf16.decode.eq_def]
    rfl
  have hnil : CStrOK ([] : List Nat) := by intro c hc; simp at hc
  exact sm_round_trip_payload encGsm deliver m w bytes e (unitsToBytes (units m.messagePayload)) [] [] m.messagePayload
    (some encUcs2) encUcs2 8 .none .none hp htp rfl (by decide) hlen (by rw [htime.1]; rfl) (by rw [htime.2]; rfl)
    ⟨hnil, hnil⟩ rfl rfl rfl hdm0 hdm hne hst

end SmppVerif.Lemmas.SmUcs2
