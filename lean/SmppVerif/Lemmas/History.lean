/- Helper lemmas for C01 at history level: an unsegmented message amid arbitrary other traffic gets
   at most one outcome, and exactly one once it is answered or overdue. -/
import SmppVerif.Lemmas.Ledger

namespace SmppVerif.Lemmas.History
open SmppVerif SmppVerif.Corr SmppVerif.Lemmas.Corr SmppVerif.Lemmas.Expiry SmppVerif.Lemmas.Ledger

theorem aget_adel_some {κ ν : Type} [DecidableEq κ] (d : List (κ × ν)) (k k' : κ) (v : ν)
    (h : aget (adel d k) k' = some v) : aget d k' = some v := by
  by_cases e : k' = k
  · subst e; rw [aget_adel_same] at h; cases h
  · rw [aget_adel_other _ _ _ e] at h; exact h

/-- nothing in the state carries the log id `L`, except possibly the request stored under `q` -/
structure Quiet (L q : Nat) (s : CState) : Prop where
  store : ∀ k v, k ≠ q → aget s.store k = some v → v.2.logId ≠ L
  segq : aget s.segStore q = none
  stat : ∀ r st, aget s.segStatus r = some st →
    st.orig.logId ≠ L ∧ ∀ x, st.lastResponse = some x → x.logId ≠ L

def isL (L : Nat) : Out → Bool
  | .sendError x => x.logId == L

def countL (L : Nat) (outs : List Out) : Nat := outs.countP (isL L)

theorem countL_append (L : Nat) (a b : List Out) : countL L (a ++ b) = countL L a + countL L b := by
  simp [countL, List.countP_append]

theorem countL_zero (L : Nat) (outs : List Out) (h : ∀ x, Out.sendError x ∈ outs → x.logId ≠ L) :
    countL L outs = 0 := by
  unfold countL
  rw [List.countP_eq_zero]
  intro o ho
  cases o with
  | sendError x => simp [isL, h x ho]

/-- what an operation does to the request under `q` and how many outcomes for `L` it reports; `G` says that
    every response of the history that carries the number `q` is a submit_sm_resp or a generic_nack -/
def Alt (G : Prop) (q : Nat) (m : Msg) (s s' : CState) (n : Nat) : Prop :=
  (aget s'.store q = aget s.store q ∧ n = 0) ∨
  ((∃ t, aget s.store q = some (t, m)) ∧ aget s'.store q = none ∧ (n = 1 ∨ (n = 0 ∧ ¬ G)))

theorem Alt.refl (G : Prop) (q : Nat) (m : Msg) (s : CState) : Alt G q m s s 0 := Or.inl ⟨rfl, rfl⟩

theorem Alt.comp {G : Prop} {q : Nat} {m : Msg} {s s' s'' : CState} {n k : Nat}
    (h1 : Alt G q m s s' n) (h2 : Alt G q m s' s'' k) : Alt G q m s s'' (n + k) := by
  rcases h1 with ⟨e1, rfl⟩ | ⟨⟨t, ht⟩, e1, hn⟩
  · rcases h2 with ⟨e2, rfl⟩ | ⟨⟨t, ht⟩, e2, hk⟩
    · exact Or.inl ⟨e2.trans e1, rfl⟩
    · exact Or.inr ⟨⟨t, e1 ▸ ht⟩, e2, by simpa using hk⟩
  · rcases h2 with ⟨e2, rfl⟩ | ⟨⟨t', ht'⟩, _, _⟩
    · exact Or.inr ⟨⟨t, ht⟩, e2.trans e1, by simpa using hn⟩
    · rw [e1] at ht'; cases ht'

theorem Alt.same {G : Prop} {q : Nat} {m : Msg} {s s' : CState} (h : aget s'.store q = aget s.store q) :
    Alt G q m s s' 0 := Or.inl ⟨h, rfl⟩

theorem Alt.to {G : Prop} {q : Nat} {m : Msg} {s s1 s2 : CState} {n : Nat} (h : Alt G q m s s1 n)
    (e : aget s2.store q = aget s1.store q) : Alt G q m s s2 n := by
  rcases h with ⟨e1, e2⟩ | ⟨ht, e1, e2⟩
  · exact Or.inl ⟨e.trans e1, e2⟩
  · exact Or.inr ⟨ht, e.trans e1, e2⟩

theorem Alt.from {G : Prop} {q : Nat} {m : Msg} {s0 s s' : CState} {n : Nat} (h : Alt G q m s s' n)
    (e : aget s.store q = aget s0.store q) : Alt G q m s0 s' n := by
  rcases h with ⟨e1, e2⟩ | ⟨⟨t, ht⟩, e1, e2⟩
  · exact Or.inl ⟨e1.trans e, e2⟩
  · exact Or.inr ⟨⟨t, e ▸ ht⟩, e1, e2⟩

/-- from a state without a request under `q` nothing is reported and nothing appears -/
theorem Alt.dead {G : Prop} {q : Nat} {m : Msg} {s s' : CState} {n : Nat} (h : Alt G q m s s' n)
    (hd : aget s.store q = none) : aget s'.store q = none ∧ n = 0 := by
  rcases h with ⟨e1, e2⟩ | ⟨⟨t, ht⟩, _, _⟩
  · exact ⟨e1.trans hd, e2⟩
  · rw [hd] at ht; cases ht

theorem cumulated_quiet (L q : Nat) (s : CState) (ref : Nat) (h : Quiet L q s) :
    Quiet L q (cumulated s ref).1 := by
  have hs := cumulated_store s ref
  have hg := cumulated_segStore s ref
  refine ⟨fun k v hk hv => h.store k v hk (by rw [← hs.1]; exact hv), by rw [hg]; exact h.segq, ?_⟩
  intro r st hst
  apply h.stat r st
  unfold cumulated at hst
  cases h0 : aget s.segStatus ref with
  | none => rw [h0] at hst; exact hst
  | some st0 =>
    rw [h0] at hst
    dsimp only at hst
    split at hst
    · exact hst
    · split at hst
      · exact aget_adel_some _ _ _ _ hst
      · exact hst

/-- expiry of a request that does not carry `L` -/
theorem expired_quiet (L q : Nat) (s : CState) (m0 : Msg) (h : Quiet L q s) (hm : m0.logId ≠ L) :
    Quiet L q (expired s m0).1 ∧ (∀ x, Out.sendError x ∈ (expired s m0).2 → x.logId ≠ L) := by
  unfold expired
  by_cases hsub : m0.isSubmitLike = true
  · simp only [hsub, if_true]
    cases h1 : aget s.segStore m0.seq with
    | none =>
      refine ⟨h, ?_⟩
      intro x hx
      simp only [List.mem_singleton, Out.sendError.injEq] at hx
      subst hx; exact hm
    | some pr =>
      obtain ⟨ref, sseq⟩ := pr
      dsimp only
      have hq1 : Quiet L q { s with segStore := adel s.segStore m0.seq } :=
        ⟨h.store, by
          by_cases e : q = m0.seq
          · rw [e]; exact aget_adel_same _ _
          · dsimp only; rw [aget_adel_other _ _ _ e]; exact h.segq, h.stat⟩
      cases h2 : aget s.segStatus ref with
      | none =>
        refine ⟨hq1, ?_⟩
        intro x hx; simp at hx
      | some st =>
        dsimp only
        have hst := h.stat ref st h2
        let st1 : SegStatus := { st with status := aset st.status sseq sExpired }
        let s2 : CState := { s with segStore := adel s.segStore m0.seq, segStatus := aset s.segStatus ref st1 }
        have hq2 : Quiet L q s2 := by
          refine ⟨h.store, hq1.segq, ?_⟩
          intro r st' hst0
          have hst' : aget (aset s.segStatus ref st1) r = some st' := hst0
          by_cases e : r = ref
          · subst e
            rw [aget_aset_same] at hst'
            cases hst'
            exact hst
          · rw [aget_aset_other _ _ _ _ e] at hst'
            exact h.stat r st' hst'
        have hc := cumulated_quiet L q s2 ref hq2
        split
        · refine ⟨hc, ?_⟩
          intro x hx
          simp only [List.mem_singleton, Out.sendError.injEq] at hx
          subst hx; exact hst.1
        · refine ⟨hc, ?_⟩
          intro x hx; simp at hx
  · simp only [hsub]
    refine ⟨h, ?_⟩
    intro x hx; simp at hx

theorem Quiet.congr {L q : Nat} {s s' : CState} (h : Quiet L q s) (h1 : s'.store = s.store)
    (h2 : s'.segStore = s.segStore) (h3 : s'.segStatus = s.segStatus) : Quiet L q s' :=
  ⟨by rw [h1]; exact h.store, by rw [h2]; exact h.segq, by rw [h3]; exact h.stat⟩

/-- the invariant of a history around the message `m` stored under `q` -/
structure Inv (L q : Nat) (m : Msg) (s : CState) : Prop where
  quiet : Quiet L q s
  hq : aget s.store q = none ∨ ∃ t, aget s.store q = some (t, m)

theorem Inv.congr {L q : Nat} {m : Msg} {s s' : CState} (h : Inv L q m s) (h1 : s'.store = s.store)
    (h2 : s'.segStore = s.segStore) (h3 : s'.segStatus = s.segStatus) : Inv L q m s' :=
  ⟨h.quiet.congr h1 h2 h3, by rw [h1]; exact h.hq⟩

/-- the plain message under observation -/
structure Plain (L q : Nat) (m : Msg) : Prop where
  kind : m.kind = .submitSm
  seq : m.seq = q
  log : m.logId = L
  tot : m.sarTotal = 0

theorem Plain.sub {L q : Nat} {m : Msg} (pm : Plain L q m) : m.isSubmitLike = true := by
  simp [Msg.isSubmitLike, pm.kind]

theorem sweep_step (G : Prop) (L q : Nat) (m : Msg) (pm : Plain L q m) (now : Nat) : ∀ (ks : List Nat) (s : CState),
    Inv L q m s →
      Inv L q m (sweepStore now ks s).1 ∧ Alt G q m s (sweepStore now ks s).1 (countL L (sweepStore now ks s).2)
  | [], s, h => ⟨h, by simpa [sweepStore, countL] using Alt.refl G q m s⟩
  | k :: ks, s, h => by
    rw [sweepStore_cons]
    cases h1 : aget s.store k with
    | none => exact sweep_step G L q m pm now ks s h
    | some pr =>
      obtain ⟨at0, m0⟩ := pr
      dsimp only
      by_cases h2 : now - at0 > s.ttlResp
      · rw [if_pos h2]; dsimp only
        by_cases e : k = q
        · subst e
          have hm0 : m0 = m := by
            rcases h.hq with hn | ⟨t, ht⟩
            · rw [hn] at h1; cases h1
            · rw [ht] at h1; cases h1; rfl
          subst hm0
          let s1 : CState := { s with store := adel s.store k }
          have hi1 : Inv L k m0 s1 := by
            refine ⟨⟨?_, h.quiet.segq, h.quiet.stat⟩, Or.inl (aget_adel_same _ _)⟩
            intro k' v hk' hv
            exact h.quiet.store k' v hk' (aget_adel_some _ _ _ _ hv)
          have hp := expired_plain s1 m0 pm.sub (by rw [pm.seq]; exact h.quiet.segq)
          have hp1 : (expired s1 m0).1 = s1 := hp.2
          have hp2 : (expired s1 m0).2 = [.sendError m0] := hp.1
          change Inv L k m0 (sweepStore now ks (expired s1 m0).1).1 ∧
            Alt G k m0 s (sweepStore now ks (expired s1 m0).1).1
              (countL L ((expired s1 m0).2 ++ (sweepStore now ks (expired s1 m0).1).2))
          rw [hp1, hp2]
          obtain ⟨hi', ha'⟩ := sweep_step G L k m0 pm now ks s1 hi1
          refine ⟨hi', ?_⟩
          have hnone : aget s1.store k = none := aget_adel_same _ _
          rw [countL_append]
          have hc1 : countL L [Out.sendError m0] = 1 := by simp [countL, isL, pm.log]
          obtain ⟨e1, e2⟩ := ha'.dead hnone
          rw [hc1, e2]
          exact Or.inr ⟨⟨at0, h1⟩, e1, Or.inl rfl⟩
        · have hm0 : m0.logId ≠ L := h.quiet.store k (at0, m0) e h1
          let s1 : CState := { s with store := adel s.store k }
          have hq1 : aget s1.store q = aget s.store q := aget_adel_other _ _ _ (fun h' => e h'.symm)
          have hi1 : Inv L q m s1 := by
            refine ⟨⟨?_, h.quiet.segq, h.quiet.stat⟩, by rw [hq1]; exact h.hq⟩
            intro k' v hk' hv
            exact h.quiet.store k' v hk' (aget_adel_some _ _ _ _ hv)
          obtain ⟨hqe, hoe⟩ := expired_quiet L q s1 m0 hi1.quiet hm0
          have hse := expired_store s1 m0
          have hi2 : Inv L q m (expired s1 m0).1 := ⟨hqe, by rw [hse.1]; exact hi1.hq⟩
          obtain ⟨hi', ha'⟩ := sweep_step G L q m pm now ks _ hi2
          change Inv L q m (sweepStore now ks (expired s1 m0).1).1 ∧
            Alt G q m s (sweepStore now ks (expired s1 m0).1).1
              (countL L ((expired s1 m0).2 ++ (sweepStore now ks (expired s1 m0).1).2))
          refine ⟨hi', ?_⟩
          rw [countL_append, countL_zero L _ hoe]
          have ha0 : Alt G q m s (expired s1 m0).1 0 := Or.inl ⟨by rw [hse.1]; exact hq1, rfl⟩
          exact ha0.comp ha'
      · rw [if_neg h2]; exact sweep_step G L q m pm now ks s h

theorem sweep_kills (q : Nat) (m : Msg) (now t : Nat) (ks : List Nat) (s : CState)
    (h : aget s.store q = some (t, m)) (hov : now - t > s.ttlResp) (hk : q ∈ ks) :
    aget (sweepStore now ks s).1.store q = none := by
  cases h' : aget (sweepStore now ks s).1.store q with
  | none => rfl
  | some v =>
    obtain ⟨at_, m'⟩ := v
    have h1 := sweepStore_fresh now ks s q hk at_ m' h'
    have h2 := (sweepStore_sub now ks s).1 _ _ h'
    rw [h] at h2; cases h2
    omega

theorem removeExpired_step (G : Prop) (L q : Nat) (m : Msg) (pm : Plain L q m) (s : CState) (now : Nat) (h : Inv L q m s) :
    Inv L q m (removeExpired s now).1 ∧ Alt G q m s (removeExpired s now).1 (countL L (removeExpired s now).2) ∧
      (removeExpired s now).1.ttlResp = s.ttlResp := by
  unfold removeExpired
  dsimp only
  obtain ⟨hi, ha⟩ := sweep_step G L q m pm now (s.store.map (·.1)) s h
  refine ⟨hi.congr rfl rfl rfl, ?_, (sweepStore_sub now _ s).2⟩
  rcases ha with ⟨e1, e2⟩ | ⟨ht, e1, e2⟩
  · exact Or.inl ⟨e1, e2⟩
  · exact Or.inr ⟨ht, e1, e2⟩

theorem removeExpired_kills (q : Nat) (m : Msg) (now t : Nat) (s : CState)
    (h : aget s.store q = some (t, m)) (hov : now - t > s.ttlResp) :
    aget (removeExpired s now).1.store q = none := by
  unfold removeExpired
  dsimp only
  exact sweep_kills q m now t _ s h hov (aget_some_mem_keys _ _ _ h)

/-! ### the correlator operations -/

theorem put_step (G : Prop) (L q : Nat) (m : Msg) (pm : Plain L q m) (s : CState) (now : Nat) (m' : Msg)
    (h : Inv L q m s) (hs : m'.seq ≠ q) (hl : m'.logId ≠ L) :
    Inv L q m (put s now m').1 ∧ Alt G q m s (put s now m').1 (countL L (put s now m').2) ∧
      (put s now m').1.ttlResp = s.ttlResp ∧
      (∀ t, aget s.store q = some (t, m) → now - t > s.ttlResp → aget (put s now m').1.store q = none) := by
  have hr := removeExpired_step G L q m pm s now h
  have hk : ∀ t, aget s.store q = some (t, m) → now - t > s.ttlResp → aget (removeExpired s now).1.store q = none :=
    fun t h1 h2 => removeExpired_kills q m now t s h1 h2
  unfold put
  generalize removeExpired s now = r at hr hk ⊢
  obtain ⟨s1, outs⟩ := r
  dsimp only at hr hk ⊢
  obtain ⟨hi1, ha1, ht1⟩ := hr
  have hstore : ∀ k v, k ≠ q → aget (aset s1.store m'.seq (now, m')) k = some v → v.2.logId ≠ L := by
    intro k v hk hv
    by_cases e : k = m'.seq
    · subst e; rw [aget_aset_same] at hv; cases hv; exact hl
    · rw [aget_aset_other _ _ _ _ e] at hv; exact hi1.quiet.store k v hk hv
  have hqe : aget (aset s1.store m'.seq (now, m')) q = aget s1.store q :=
    aget_aset_other _ _ _ _ (fun e => hs e.symm)
  split
  · dsimp only
    refine ⟨⟨⟨hstore, ?_, ?_⟩, ?_⟩, ?_, ht1, fun t h1 h2 => hqe.trans (hk t h1 h2)⟩
    · show aget (aset s1.segStore m'.seq (m'.sarRef, m'.sarSeq)) q = none
      rw [aget_aset_other _ _ _ _ (fun e => hs e.symm)]; exact hi1.quiet.segq
    · intro r st hst
      dsimp only at hst
      by_cases e : r = m'.sarRef
      · subst e
        rw [aget_aset_same] at hst
        cases hst
        dsimp only
        cases h0 : aget s1.segStatus m'.sarRef with
        | some st0 => exact hi1.quiet.stat _ st0 h0
        | none => exact ⟨hl, fun x hx => by cases hx⟩
      · rw [aget_aset_other _ _ _ _ e] at hst
        exact hi1.quiet.stat r st hst
    · show aget (aset s1.store m'.seq (now, m')) q = none ∨ ∃ t, aget (aset s1.store m'.seq (now, m')) q = some (t, m)
      rw [hqe]; exact hi1.hq
    · exact ha1.to hqe
  · refine ⟨⟨⟨hstore, hi1.quiet.segq, hi1.quiet.stat⟩, ?_⟩, ?_, ht1, fun t h1 h2 => hqe.trans (hk t h1 h2)⟩
    · show aget (aset s1.store m'.seq (now, m')) q = none ∨ ∃ t, aget (aset s1.store m'.seq (now, m')) q = some (t, m)
      rw [hqe]; exact hi1.hq
    · exact ha1.to hqe

/-- the put of the observed message itself -/
theorem put_self (G : Prop) (L q : Nat) (m : Msg) (pm : Plain L q m) (s : CState) (now : Nat)
    (h : Inv L q m s) (hd : aget s.store q = none) :
    Inv L q m (put s now m).1 ∧ aget (put s now m).1.store q = some (now, m) ∧ countL L (put s now m).2 = 0 ∧
      (put s now m).1.ttlResp = s.ttlResp := by
  have hr := removeExpired_step G L q m pm s now h
  unfold put
  generalize removeExpired s now = r at hr ⊢
  obtain ⟨s1, outs⟩ := r
  dsimp only at hr ⊢
  obtain ⟨hi1, ha1, ht1⟩ := hr
  obtain ⟨_, hn⟩ := ha1.dead hd
  have hns : ¬ (m.isSubmitLike = true ∧ m.sarTotal > 0) := by rw [pm.tot]; simp
  rw [if_neg hns]
  dsimp only
  have hget : aget (aset s1.store m.seq (now, m)) q = some (now, m) := by rw [pm.seq]; exact aget_aset_same _ _ _
  refine ⟨⟨⟨?_, hi1.quiet.segq, hi1.quiet.stat⟩, Or.inr ⟨now, hget⟩⟩, hget, hn, ht1⟩
  intro k v hk hv
  dsimp only at hv
  rw [pm.seq, aget_aset_other _ _ _ _ hk] at hv
  exact hi1.quiet.store k v hk hv

theorem putDelivery_step (G : Prop) (L q : Nat) (m : Msg) (pm : Plain L q m) (s : CState) (now : Nat)
    (id : List Nat) (o : Msg) (h : Inv L q m s) :
    Inv L q m (putDelivery s now id o).1 ∧ Alt G q m s (putDelivery s now id o).1 (countL L (putDelivery s now id o).2) ∧
      (putDelivery s now id o).1.ttlResp = s.ttlResp := by
  obtain ⟨hi, ha, ht⟩ := removeExpired_step G L q m pm s now h
  unfold putDelivery
  refine ⟨hi.congr rfl rfl rfl, ?_, ht⟩
  rcases ha with ⟨e1, e2⟩ | ⟨ht', e1, e2⟩
  · exact Or.inl ⟨e1, e2⟩
  · exact Or.inr ⟨ht', e1, e2⟩

theorem track_logId (L : Nat) (resp o : Msg) (h1 : resp.logId ≠ L) (h2 : o.logId ≠ L) : (track resp o).logId ≠ L := by
  unfold track; split <;> assumption

theorem respStatus_quiet (L : Nat) (st : SegStatus) (sseq : Nat) (tr : Msg) (htr : tr.logId ≠ L)
    (h : st.orig.logId ≠ L ∧ ∀ x, st.lastResponse = some x → x.logId ≠ L) :
    (respStatus st sseq tr).orig.logId ≠ L ∧ ∀ x, (respStatus st sseq tr).lastResponse = some x → x.logId ≠ L := by
  unfold respStatus
  split
  · exact ⟨h.1, fun x hx => by cases hx; exact htr⟩
  · split
    · refine ⟨h.1, fun x hx => ?_⟩
      dsimp only at hx
      split at hx
      · exact h.2 x hx
      · cases hx; exact htr
    · exact ⟨h.1, fun x hx => by cases hx; exact htr⟩

theorem updateSeg_quiet (L q : Nat) (s0 : CState) (tr o : Msg) (h : Quiet L q s0) (htr : tr.logId ≠ L) :
    Quiet L q (updateSegOnResponse s0 tr o) := by
  have h1 := updateSeg_store s0 tr o
  have h2 := updateSeg_segStore s0 tr o
  refine ⟨by rw [h1.1]; exact h.store, by rw [h2]; exact h.segq, ?_⟩
  unfold updateSegOnResponse
  split
  · split
    · rename_i ref sseq _
      split
      · rename_i st hst
        intro r st' hst'
        dsimp only at hst'
        by_cases e : r = ref
        · subst e
          rw [aget_aset_same] at hst'
          cases hst'
          exact respStatus_quiet L st sseq tr htr (h.stat _ st hst)
        · rw [aget_aset_other _ _ _ _ e] at hst'
          exact h.stat r st' hst'
      · exact h.stat
    · exact h.stat
  · exact h.stat

theorem updateSeg_none (s0 : CState) (tr o : Msg) (h : aget s0.segStore tr.seq = none) :
    updateSegOnResponse s0 tr o = s0 := by
  unfold updateSegOnResponse
  rw [h]
  split <;> rfl

theorem track_seq (resp o : Msg) : (track resp o).seq = resp.seq := by
  unfold track; split <;> rfl

theorem fixLast_quiet (L q : Nat) (s : CState) (a b : Msg) (h : Quiet L q s) (hb : b.logId ≠ L) :
    Quiet L q (fixLast s a b) := by
  unfold fixLast
  split
  · rename_i ref _ _
    split
    · rename_i st hst
      split
      · refine ⟨h.store, h.segq, ?_⟩
        intro r st' hst'
        dsimp only at hst'
        by_cases e : r = ref
        · subst e
          rw [aget_aset_same] at hst'
          cases hst'
          exact ⟨(h.stat _ st hst).1, fun x hx => by cases hx; exact hb⟩
        · rw [aget_aset_other _ _ _ _ e] at hst'
          exact h.stat r st' hst'
      · exact h
    · exact h
  · exact h

theorem fixLast_none (s : CState) (a b : Msg) (h : aget s.segStore a.seq = none) : fixLast s a b = s := by
  unfold fixLast; rw [h]

theorem fixLast_store (s : CState) (a b : Msg) : (fixLast s a b).store = s.store ∧ (fixLast s a b).ttlResp = s.ttlResp := by
  unfold fixLast
  split
  · split
    · split <;> exact ⟨rfl, rfl⟩
    · exact ⟨rfl, rfl⟩
  · exact ⟨rfl, rfl⟩

theorem getSegmented_false (L q : Nat) (s : CState) (x : Nat) (h : Quiet L q s) :
    Quiet L q (getSegmented s x false).1 ∧ (getSegmented s x false).1.store = s.store ∧
      (getSegmented s x false).1.ttlResp = s.ttlResp ∧
      (∀ st, (getSegmented s x false).2.1 = some st →
        st.orig.logId ≠ L ∧ ∀ y, st.lastResponse = some y → y.logId ≠ L) := by
  unfold getSegmented
  cases h1 : aget s.segStore x with
  | none => exact ⟨h, rfl, rfl, fun st hst => by cases hst⟩
  | some pr =>
    obtain ⟨ref, sq⟩ := pr
    dsimp only
    simp only [Bool.false_eq_true, if_false]
    cases h2 : aget s.segStatus ref with
    | none => exact ⟨h, rfl, rfl, fun st hst => by cases hst⟩
    | some st0 =>
      dsimp only
      have hc := cumulated_store s ref
      refine ⟨cumulated_quiet L q s ref h, hc.1, hc.2, ?_⟩
      intro st hst
      cases hst
      exact h.stat ref st0 h2

theorem get_step (G : Prop) (L q : Nat) (m : Msg) (pm : Plain L q m) (s : CState) (now : Nat) (resp : Msg)
    (h : Inv L q m s) (hl : resp.logId ≠ L) :
    Inv L q m (Corr.get s now resp).1 ∧ (Corr.get s now resp).1.ttlResp = s.ttlResp ∧
    (resp.seq ≠ q → Alt G q m s (Corr.get s now resp).1 (countL L (Corr.get s now resp).2.1) ∧
        ∀ o, (Corr.get s now resp).2.2 = some o → o.logId ≠ L) ∧
    (resp.seq = q → aget (Corr.get s now resp).1.store q = none ∧ countL L (Corr.get s now resp).2.1 = 0 ∧
        (Corr.get s now resp).2.2 = (aget s.store q).map (·.2)) ∧
    (∀ t, aget s.store q = some (t, m) → now - t > s.ttlResp → aget (Corr.get s now resp).1.store q = none) := by
  unfold Corr.get
  cases h1 : aget s.store resp.seq with
  | none =>
    dsimp only
    obtain ⟨hi, ha, ht⟩ := removeExpired_step G L q m pm s now h
    refine ⟨hi, ht, fun _ => ⟨ha, fun o ho => by cases ho⟩, ?_, fun t h1 h2 => removeExpired_kills q m now t s h1 h2⟩
    intro e
    rw [e] at h1
    obtain ⟨e1, e2⟩ := ha.dead h1
    exact ⟨e1, e2, by rw [h1]; rfl⟩
  | some pr =>
    obtain ⟨t0, o⟩ := pr
    dsimp only
    let s0 : CState := { s with store := adel s.store resp.seq }
    by_cases e : resp.seq = q
    · -- the request under observation is popped
      have hd0 : aget s0.store q = none := by rw [← e]; exact aget_adel_same _ _
      have hu : updateSegOnResponse s0 (track resp o) o = s0 :=
        updateSeg_none s0 _ o (by rw [track_seq, e]; exact h.quiet.segq)
      have hi0 : Inv L q m s0 := by
        refine ⟨⟨?_, h.quiet.segq, h.quiet.stat⟩, Or.inl hd0⟩
        intro k v hk hv
        exact h.quiet.store k v hk (aget_adel_some _ _ _ _ hv)
      change Inv L q m (removeExpired (updateSegOnResponse s0 (track resp o) o) now).1 ∧
        (removeExpired (updateSegOnResponse s0 (track resp o) o) now).1.ttlResp = s.ttlResp ∧ _ ∧ _
      rw [hu]
      obtain ⟨hi, ha, ht⟩ := removeExpired_step G L q m pm s0 now hi0
      obtain ⟨e1, e2⟩ := ha.dead hd0
      refine ⟨hi, ht, fun ne => absurd e ne, fun _ => ⟨e1, e2, ?_⟩, fun _ _ _ => e1⟩
      rw [← e, h1]; rfl
    · have ho : o.logId ≠ L := h.quiet.store _ (t0, o) e h1
      have hq0 : aget s0.store q = aget s.store q := aget_adel_other _ _ _ (fun h' => e h'.symm)
      have hQ0 : Quiet L q s0 := by
        refine ⟨?_, h.quiet.segq, h.quiet.stat⟩
        intro k v hk hv
        exact h.quiet.store k v hk (aget_adel_some _ _ _ _ hv)
      have hQu := updateSeg_quiet L q s0 (track resp o) o hQ0 (track_logId L resp o hl ho)
      have hsu := updateSeg_store s0 (track resp o) o
      have hiu : Inv L q m (updateSegOnResponse s0 (track resp o) o) :=
        ⟨hQu, by rw [hsu.1, hq0]; exact h.hq⟩
      obtain ⟨hi, ha, ht⟩ := removeExpired_step G L q m pm _ now hiu
      refine ⟨hi, by rw [ht, hsu.2], fun _ => ⟨?_, ?_⟩, fun e' => absurd e' e, ?_⟩
      rotate_left 2
      · intro t h1' h2'
        exact removeExpired_kills q m now t _ (by rw [hsu.1, hq0]; exact h1') (by rw [hsu.2]; exact h2')
      · exact ha.from (by rw [hsu.1, hq0])
      · intro o' ho'
        cases ho'
        exact ho

/-! ### `_handle_response` -/

def hL (L : Nat) : Handled → Nat
  | .msg x => if x.logId = L then 1 else 0
  | _ => 0

/-- the attributable branch of `handleResponse`, from the state `get` left -/
def attrBranch (g1 : CState) (now : Nat) (resp o : Msg) : CState × List Out × Handled :=
  let resp' := { resp with logId := o.logId, extra := o.extra }
  let s1 := fixLast g1 resp resp'
  let pd := if resp.kind = .submitSmResp ∧ resp.status = 0 then putDelivery s1 now resp.msgId o else (s1, [])
  let gs := getSegmented pd.1 resp.seq false
  (gs.1,
    pd.2 ++ (match gs.2.1 with
             | some st => if gs.2.2 = sExpired then [Out.sendError st.orig] else []
             | none => []),
    match gs.2.1 with
    | some st =>
      if gs.2.2 = sSending then .placeholder
      else if gs.2.2 = sExpired then .placeholder
      else .msg (st.lastResponse.getD resp')
    | none => if o.sarTotal > 0 then .placeholder else .msg resp')

theorem handleResponse_eq (s : CState) (now : Nat) (resp : Msg) :
    handleResponse s now resp =
      match (Corr.get s now resp).2.2 with
      | none => ((Corr.get s now resp).1, (Corr.get s now resp).2.1, [], .msg resp)
      | some o =>
        if mismatch resp o then ((Corr.get s now resp).1, (Corr.get s now resp).2.1, [], .dropped)
        else if attributable resp o then
          ((attrBranch (Corr.get s now resp).1 now resp o).1,
           (Corr.get s now resp).2.1 ++ (attrBranch (Corr.get s now resp).1 now resp o).2.1,
           (if isThrottleStatus resp.status then [ThrottleCall.throttled] else [.notThrottled]),
           (attrBranch (Corr.get s now resp).1 now resp o).2.2)
        else ((Corr.get s now resp).1, (Corr.get s now resp).2.1, [], .msg resp) := by
  unfold handleResponse attrBranch
  cases (Corr.get s now resp).2.2 with
  | none => rfl
  | some o =>
    dsimp only
    split
    · rfl
    · split
      · refine Prod.ext rfl (Prod.ext ?_ rfl)
        exact List.append_assoc _ _ _
      · rfl

/-- the branch on a response to another request -/
theorem attrBranch_other (G : Prop) (L q : Nat) (m : Msg) (pm : Plain L q m) (g1 : CState) (now : Nat) (resp o : Msg)
    (h : Inv L q m g1) (ho : o.logId ≠ L) :
    Inv L q m (attrBranch g1 now resp o).1 ∧ (attrBranch g1 now resp o).1.ttlResp = g1.ttlResp ∧
      Alt G q m g1 (attrBranch g1 now resp o).1 (countL L (attrBranch g1 now resp o).2.1) ∧
      hL L (attrBranch g1 now resp o).2.2 = 0 := by
  have hr' : ({ resp with logId := o.logId, extra := o.extra } : Msg).logId ≠ L := ho
  generalize hrd : ({ resp with logId := o.logId, extra := o.extra } : Msg) = resp' at hr'
  have hQ1 := fixLast_quiet L q g1 resp resp' h.quiet hr'
  have hS1 := fixLast_store g1 resp resp'
  have hI1 : Inv L q m (fixLast g1 resp resp') := ⟨hQ1, by rw [hS1.1]; exact h.hq⟩
  -- the put_delivery step
  have hpd : ∃ pd : CState × List Out,
      pd = (if resp.kind = .submitSmResp ∧ resp.status = 0 then putDelivery (fixLast g1 resp resp') now resp.msgId o
            else (fixLast g1 resp resp', [])) ∧
      Inv L q m pd.1 ∧ pd.1.ttlResp = g1.ttlResp ∧ Alt G q m g1 pd.1 (countL L pd.2) := by
    refine ⟨_, rfl, ?_⟩
    split
    · obtain ⟨a, b, c⟩ := putDelivery_step G L q m pm _ now resp.msgId o hI1
      exact ⟨a, by rw [c, hS1.2], b.from (by rw [hS1.1])⟩
    · exact ⟨hI1, hS1.2, by simpa [countL] using (Alt.same (G := G) (m := m) (by rw [hS1.1]))⟩
  obtain ⟨pd, hpdeq, hIp, hTp, hAp⟩ := hpd
  obtain ⟨hQg, hSg, hTg, hstg⟩ := getSegmented_false L q pd.1 resp.seq hIp.quiet
  unfold attrBranch
  rw [hrd]
  dsimp only
  rw [← hpdeq]
  refine ⟨⟨hQg, by rw [hSg]; exact hIp.hq⟩, by rw [hTg, hTp], ?_, ?_⟩
  · rw [countL_append]
    have hz : countL L (match (getSegmented pd.1 resp.seq false).2.1 with
        | some st => if (getSegmented pd.1 resp.seq false).2.2 = sExpired then [Out.sendError st.orig] else []
        | none => []) = 0 := by
      apply countL_zero
      intro x hx
      cases hgs : (getSegmented pd.1 resp.seq false).2.1 with
      | none => rw [hgs] at hx; simp at hx
      | some st =>
        rw [hgs] at hx
        dsimp only at hx
        split at hx
        · simp only [List.mem_singleton, Out.sendError.injEq] at hx
          subst hx; exact (hstg st hgs).1
        · simp at hx
    rw [hz]
    exact hAp.to (by rw [hSg])
  · cases hgs : (getSegmented pd.1 resp.seq false).2.1 with
    | none =>
      dsimp only
      split
      · rfl
      · simp [hL, hr']
    | some st =>
      dsimp only
      split
      · rfl
      · split
        · rfl
        · have : (st.lastResponse.getD resp').logId ≠ L := by
            cases hlr : st.lastResponse with
            | none => exact hr'
            | some x => exact (hstg st hgs).2 x hlr
          simp [hL, this]

/-- the branch on the response to the observed message -/
theorem attrBranch_self (G : Prop) (L q : Nat) (m : Msg) (pm : Plain L q m) (g1 : CState) (now : Nat) (resp : Msg)
    (h : Inv L q m g1) (hd : aget g1.store q = none) (hs : resp.seq = q) :
    Inv L q m (attrBranch g1 now resp m).1 ∧ (attrBranch g1 now resp m).1.ttlResp = g1.ttlResp ∧
      aget (attrBranch g1 now resp m).1.store q = none ∧
      countL L (attrBranch g1 now resp m).2.1 = 0 ∧ hL L (attrBranch g1 now resp m).2.2 = 1 := by
  generalize hrd : ({ resp with logId := m.logId, extra := m.extra } : Msg) = resp'
  have hr' : resp'.logId = L := by rw [← hrd]; exact pm.log
  have hf : fixLast g1 resp resp' = g1 := fixLast_none g1 resp resp' (by rw [hs]; exact h.quiet.segq)
  have hpd : ∃ pd : CState × List Out,
      pd = (if resp.kind = .submitSmResp ∧ resp.status = 0 then putDelivery g1 now resp.msgId m else (g1, [])) ∧
      Inv L q m pd.1 ∧ pd.1.ttlResp = g1.ttlResp ∧ aget pd.1.store q = none ∧ countL L pd.2 = 0 := by
    refine ⟨_, rfl, ?_⟩
    split
    · obtain ⟨a, b, c⟩ := putDelivery_step G L q m pm g1 now resp.msgId m h
      obtain ⟨e1, e2⟩ := b.dead hd
      exact ⟨a, c, e1, e2⟩
    · exact ⟨h, rfl, hd, by simp [countL]⟩
  obtain ⟨pd, hpdeq, hIp, hTp, hDp, hCp⟩ := hpd
  have hgs : getSegmented pd.1 resp.seq false = (pd.1, none, 0) :=
    getSegmented_none pd.1 resp.seq false (by rw [hs]; exact hIp.quiet.segq)
  unfold attrBranch
  rw [hrd]
  dsimp only
  rw [hf, ← hpdeq, hgs]
  dsimp only
  refine ⟨hIp, hTp, hDp, ?_, ?_⟩
  · rw [countL_append, hCp]; simp [countL]
  · have : ¬ m.sarTotal > 0 := by rw [pm.tot]; simp
    rw [if_neg this]
    simp [hL, hr']

theorem handleResponse_step (G : Prop) (L q : Nat) (m : Msg) (pm : Plain L q m) (s : CState) (now : Nat) (resp : Msg)
    (h : Inv L q m s) (hl : resp.logId ≠ L)
    (hG : G → resp.seq = q → resp.kind = .submitSmResp ∨ resp.kind = .genericNack) :
    Inv L q m (handleResponse s now resp).1 ∧ (handleResponse s now resp).1.ttlResp = s.ttlResp ∧
      Alt G q m s (handleResponse s now resp).1
        (countL L (handleResponse s now resp).2.1 + hL L (handleResponse s now resp).2.2.2) ∧
      (resp.seq = q → aget (handleResponse s now resp).1.store q = none) ∧
      (∀ t, aget s.store q = some (t, m) → now - t > s.ttlResp → aget (handleResponse s now resp).1.store q = none) := by
  obtain ⟨hgi, hgt, hne, heq, hgk⟩ := get_step G L q m pm s now resp h hl
  rw [handleResponse_eq]
  have hmsg : hL L (Handled.msg resp) = 0 := by simp [hL, hl]
  cases hres : (Corr.get s now resp).2.2 with
  | none =>
    dsimp only
    refine ⟨hgi, hgt, ?_, fun e => (heq e).1, hgk⟩
    rw [hmsg, Nat.add_zero]
    by_cases e : resp.seq = q
    · obtain ⟨e1, e2, e3⟩ := heq e
      rw [hres] at e3
      have hsn : aget s.store q = none := by
        cases hq : aget s.store q with
        | none => rfl
        | some v => rw [hq] at e3; cases e3
      rw [e2]
      exact Or.inl ⟨e1.trans hsn.symm, rfl⟩
    · exact (hne e).1
  | some o =>
    dsimp only
    -- when the response carries `q`, what was found is the observed message
    have hself : resp.seq = q → (∃ t, aget s.store q = some (t, m)) ∧ o = m := by
      intro e
      obtain ⟨_, _, e3⟩ := heq e
      rw [hres] at e3
      rcases h.hq with hn | ⟨t, ht⟩
      · rw [hn] at e3; cases e3
      · rw [ht] at e3
        simp only [Option.map_some, Option.some.injEq] at e3
        exact ⟨⟨t, ht⟩, e3⟩
    by_cases hmm : mismatch resp o = true
    · rw [if_pos hmm]
      dsimp only
      refine ⟨hgi, hgt, ?_, fun e => (heq e).1, hgk⟩
      have : hL L Handled.dropped = 0 := rfl
      rw [this, Nat.add_zero]
      by_cases e : resp.seq = q
      · obtain ⟨e1, e2, _⟩ := heq e
        obtain ⟨hlive, hom⟩ := hself e
        subst hom
        rw [e2]
        refine Or.inr ⟨hlive, e1, Or.inr ⟨rfl, ?_⟩⟩
        intro hg
        rcases hG hg e with hk | hk
        · simp [mismatch, hk, requestKindOf, pm.kind] at hmm
        · simp [mismatch, hk] at hmm
      · exact (hne e).1
    · rw [if_neg hmm]
      by_cases hat : attributable resp o = true
      · rw [if_pos hat]
        dsimp only
        by_cases e : resp.seq = q
        · obtain ⟨e1, e2, _⟩ := heq e
          obtain ⟨hlive, hom⟩ := hself e
          subst hom
          obtain ⟨a, b, c, d, f⟩ := attrBranch_self G L q o pm (Corr.get s now resp).1 now resp hgi e1 e
          refine ⟨a, by rw [b, hgt], ?_, fun _ => c, fun _ _ _ => c⟩
          rw [countL_append, e2, d, f]
          exact Or.inr ⟨hlive, c, Or.inl rfl⟩
        · obtain ⟨hA, hO⟩ := hne e
          obtain ⟨a, b, c, d⟩ := attrBranch_other G L q m pm (Corr.get s now resp).1 now resp o hgi (hO o hres)
          refine ⟨a, by rw [b, hgt], ?_, fun e' => absurd e' e, fun t h1 h2 => (c.dead (hgk t h1 h2)).1⟩
          rw [countL_append, d, Nat.add_zero]
          exact hA.comp c
      · rw [if_neg hat]
        dsimp only
        refine ⟨hgi, hgt, ?_, fun e => (heq e).1, hgk⟩
        rw [hmsg, Nat.add_zero]
        by_cases e : resp.seq = q
        · obtain ⟨e1, e2, _⟩ := heq e
          obtain ⟨hlive, hom⟩ := hself e
          subst hom
          rw [e2]
          refine Or.inr ⟨hlive, e1, Or.inr ⟨rfl, ?_⟩⟩
          intro hg
          apply hat
          rcases hG hg e with hk | hk <;> simp [attributable, hk, pm.sub]
        · exact (hne e).1

/-! ### `_handle_request` for deliver_sm (receipts and inbound segments run the same sweeps) -/

/-- the state `get_delivery` sweeps: the receipt's code entered into the segment status -/
def rcptState (s : CState) (d : Msg) : CState :=
  let item := aget s.delivStore d.rcptId
  let s0 := { s with delivStore := adel s.delivStore d.rcptId }
  match item with
  | some (_, sub) =>
    match aget s0.segStore sub.seq with
    | some (ref, sseq) =>
      match aget s0.segStatus ref with
      | some st =>
        let code : Int := d.rcptErr.getD Gen.Consts.dlrErrorOtherError
        let st' := { st with status := aset st.status sseq code,
                             lastReceipt := if code > 0 ∨ st.lastReceipt.isNone then some d
                                            else st.lastReceipt }
        { s0 with segStatus := aset s0.segStatus ref st' }
      | none => s0
    | none => s0
  | none => s0

theorem getDelivery_eq (s : CState) (now : Nat) (d : Msg) :
    getDelivery s now d = ((removeExpired (rcptState s d) now).1, (removeExpired (rcptState s d) now).2,
      (aget s.delivStore d.rcptId).map (·.2)) := by
  unfold getDelivery rcptState
  rfl

theorem rcptState_inv (L q : Nat) (m : Msg) (s : CState) (d : Msg) (h : Inv L q m s) :
    Inv L q m (rcptState s d) ∧ (rcptState s d).store = s.store ∧ (rcptState s d).ttlResp = s.ttlResp := by
  have hI0 : Inv L q m ({ s with delivStore := adel s.delivStore d.rcptId } : CState) := h.congr rfl rfl rfl
  unfold rcptState
  dsimp only
  split
  · split
    · rename_i ref sseq _
      split
      · rename_i st hst
        refine ⟨⟨⟨h.quiet.store, h.quiet.segq, ?_⟩, h.hq⟩, rfl, rfl⟩
        intro r st' hst'
        dsimp only at hst'
        by_cases e : r = ref
        · subst e
          rw [aget_aset_same] at hst'
          cases hst'
          exact h.quiet.stat _ st hst
        · rw [aget_aset_other _ _ _ _ e] at hst'
          exact h.quiet.stat r st' hst'
      · exact ⟨hI0, rfl, rfl⟩
    · exact ⟨hI0, rfl, rfl⟩
  · exact ⟨hI0, rfl, rfl⟩

theorem getDelivery_step (G : Prop) (L q : Nat) (m : Msg) (pm : Plain L q m) (s : CState) (now : Nat) (d : Msg)
    (h : Inv L q m s) :
    Inv L q m (getDelivery s now d).1 ∧ (getDelivery s now d).1.ttlResp = s.ttlResp ∧
      Alt G q m s (getDelivery s now d).1 (countL L (getDelivery s now d).2.1) := by
  rw [getDelivery_eq]
  obtain ⟨hI1, hS1, hT1⟩ := rcptState_inv L q m s d h
  obtain ⟨a, b, c⟩ := removeExpired_step G L q m pm (rcptState s d) now hI1
  exact ⟨a, by rw [c, hT1], b.from (by rw [hS1])⟩

theorem getSegmented_true (L q : Nat) (s : CState) (x : Nat) (h : Quiet L q s) :
    Quiet L q (getSegmented s x true).1 ∧ (getSegmented s x true).1.store = s.store ∧
      (getSegmented s x true).1.ttlResp = s.ttlResp := by
  unfold getSegmented
  cases h1 : aget s.segStore x with
  | none => exact ⟨h, rfl, rfl⟩
  | some pr =>
    obtain ⟨ref, sq⟩ := pr
    dsimp only
    simp only [if_true]
    have hQ1 : Quiet L q ({ s with segStore := adel s.segStore x } : CState) :=
      ⟨h.store, by
        by_cases e : q = x
        · rw [e]; exact aget_adel_same _ _
        · dsimp only; rw [aget_adel_other _ _ _ e]; exact h.segq, h.stat⟩
    cases h2 : aget s.segStatus ref with
    | none => exact ⟨hQ1, rfl, rfl⟩
    | some st0 =>
      dsimp only
      have hc := cumulated_store ({ s with segStore := adel s.segStore x } : CState) ref
      exact ⟨cumulated_quiet L q _ ref hQ1, hc.1, hc.2⟩

theorem handleDeliver_step (G : Prop) (L q : Nat) (m : Msg) (pm : Plain L q m) (s : CState) (now : Nat) (d : Msg)
    (h : Inv L q m s) :
    Inv L q m (handleDeliver s now d).1 ∧ (handleDeliver s now d).1.ttlResp = s.ttlResp ∧
      Alt G q m s (handleDeliver s now d).1 (countL L (handleDeliver s now d).2.1) := by
  unfold handleDeliver
  split
  · split
    · exact ⟨h, rfl, by simpa [countL] using Alt.refl G q m s⟩
    · dsimp only
      obtain ⟨a, b, c⟩ := getDelivery_step G L q m pm s now d h
      cases hres : (getDelivery s now d).2.2 with
      | none => exact ⟨a, b, c⟩
      | some o =>
        dsimp only
        obtain ⟨x, y, z⟩ := getSegmented_true L q (getDelivery s now d).1 o.seq a.quiet
        exact ⟨⟨x, by rw [y]; exact a.hq⟩, by rw [z, b], c.to (by rw [y])⟩
  · split
    · dsimp only
      unfold putDeliverySegmented
      split
      · have hI : Inv L q m (dropSeg s d.sarRef) := h.congr rfl rfl rfl
        obtain ⟨a, b, c⟩ := removeExpired_step G L q m pm _ now hI
        exact ⟨a, c, b⟩
      · have hI : Inv L q m (storeSeg s d.sarRef now (nextSegs s d)) := h.congr rfl rfl rfl
        obtain ⟨a, b, c⟩ := removeExpired_step G L q m pm _ now hI
        exact ⟨a, c, b⟩
    · exact ⟨h, rfl, by simpa [countL] using Alt.refl G q m s⟩

/-! ### histories -/

/-- one atomic correlator-level operation of a session -/
inductive Op where
  | put (now : Nat) (m : Msg)          -- a request is stored (`_send_data` → `correlator.put`)
  | resp (now : Nat) (r : Msg)         -- a response is handled (`_handle_response`)
  | deliver (now : Nat) (d : Msg)      -- a deliver_sm is handled (`_handle_request`)
  deriving Repr

/-- new state, time-out reports, and what the received hook is handed for a response -/
def stepOp (s : CState) : Op → CState × List Out × Option Handled
  | .put now m => ((put s now m).1, (put s now m).2, none)
  | .resp now r => ((handleResponse s now r).1, (handleResponse s now r).2.1, some (handleResponse s now r).2.2.2)
  | .deliver now d => ((handleDeliver s now d).1, (handleDeliver s now d).2.1, none)

/-- outcomes carrying the log id `L` among what one operation reports: send_error(TimeoutError) calls for a
    message with that log id, and a response handed over with that log id -/
def outcomes (L : Nat) (o : List Out × Option Handled) : Nat :=
  countL L o.1 + (match o.2 with | some h => hL L h | none => 0)

/-- final state and number of outcomes for `L` over a whole history -/
def runOps (L : Nat) (s : CState) : List Op → CState × Nat
  | [] => (s, 0)
  | op :: ops => ((runOps L (stepOp s op).1 ops).1, outcomes L (stepOp s op).2 + (runOps L (stepOp s op).1 ops).2)

/-- the rest of the traffic: other requests have other sequence numbers and log ids; PDUs from the wire carry no log id -/
def Clean (L q : Nat) : Op → Prop
  | .put _ m' => m'.seq ≠ q ∧ m'.logId ≠ L
  | .resp _ r => r.logId ≠ L
  | .deliver _ _ => True

/-- a response that carries the number `q` is a submit_sm_resp or a generic_nack -/
def GoodResp (q : Nat) : Op → Prop
  | .resp _ r => r.seq = q → r.kind = .submitSmResp ∨ r.kind = .genericNack
  | _ => True

/-- the operation settles the request under `q` stored at `t`: it is the response to it, or a put / response
    handled after the time-to-live has passed -/
def Settles (q t ttl : Nat) : Op → Prop
  | .put now _ => now - t > ttl
  | .resp now r => r.seq = q ∨ now - t > ttl
  | .deliver _ _ => False

theorem runOps_append (L : Nat) (s : CState) (a b : List Op) :
    runOps L s (a ++ b) = ((runOps L (runOps L s a).1 b).1, (runOps L s a).2 + (runOps L (runOps L s a).1 b).2) := by
  induction a generalizing s with
  | nil => simp [runOps]
  | cons op ops ih =>
    simp only [List.cons_append, runOps]
    rw [ih]
    simp only [Nat.add_assoc]

theorem step_any (G : Prop) (L q : Nat) (m : Msg) (pm : Plain L q m) (s : CState) (op : Op)
    (h : Inv L q m s) (hc : Clean L q op) (hg : G → GoodResp q op) :
    Inv L q m (stepOp s op).1 ∧ (stepOp s op).1.ttlResp = s.ttlResp ∧
      Alt G q m s (stepOp s op).1 (outcomes L (stepOp s op).2) ∧
      (∀ t, aget s.store q = some (t, m) → Settles q t s.ttlResp op → aget (stepOp s op).1.store q = none) := by
  cases op with
  | put now m' =>
    obtain ⟨a, b, c, d⟩ := put_step G L q m pm s now m' h hc.1 hc.2
    refine ⟨a, c, ?_, fun t h1 h2 => d t h1 h2⟩
    simpa [stepOp, outcomes] using b
  | resp now r =>
    obtain ⟨a, b, c, d, e⟩ := handleResponse_step G L q m pm s now r h hc hg
    refine ⟨a, b, ?_, ?_⟩
    · simpa [stepOp, outcomes] using c
    · intro t h1 h2
      rcases h2 with h2 | h2
      · exact d h2
      · exact e t h1 h2
  | deliver now d =>
    obtain ⟨a, b, c⟩ := handleDeliver_step G L q m pm s now d h
    refine ⟨a, b, ?_, fun t _ h2 => absurd h2 (by simp [Settles])⟩
    simpa [stepOp, outcomes] using c

theorem run_any (G : Prop) (L q : Nat) (m : Msg) (pm : Plain L q m) : ∀ (ops : List Op) (s : CState),
    Inv L q m s → (∀ op ∈ ops, Clean L q op) → (G → ∀ op ∈ ops, GoodResp q op) →
    Inv L q m (runOps L s ops).1 ∧ (runOps L s ops).1.ttlResp = s.ttlResp ∧
      Alt G q m s (runOps L s ops).1 (runOps L s ops).2
  | [], s, h, _, _ => ⟨h, rfl, Alt.refl G q m s⟩
  | op :: ops, s, h, hc, hg => by
    obtain ⟨a, b, c, _⟩ := step_any G L q m pm s op h (hc op (by simp)) (fun g => hg g op (by simp))
    obtain ⟨a', b', c'⟩ := run_any G L q m pm ops _ a (fun o ho => hc o (by simp [ho]))
      (fun g o ho => hg g o (by simp [ho]))
    exact ⟨a', by rw [← b]; exact b', c.comp c'⟩

/-- once an operation settles the request, it is gone at the end of the history -/
theorem run_settles (G : Prop) (L q : Nat) (m : Msg) (pm : Plain L q m) (t : Nat) : ∀ (ops : List Op) (s : CState),
    Inv L q m s → (∀ op ∈ ops, Clean L q op) → (G → ∀ op ∈ ops, GoodResp q op) →
    aget s.store q = some (t, m) → (∃ op ∈ ops, Settles q t s.ttlResp op) →
    aget (runOps L s ops).1.store q = none
  | [], _, _, _, _, _, hex => by obtain ⟨op, hop, _⟩ := hex; cases hop
  | op :: ops, s, h, hc, hg, hlive, hex => by
    obtain ⟨a, b, c, d⟩ := step_any G L q m pm s op h (hc op (by simp)) (fun g => hg g op (by simp))
    have hrest := run_any G L q m pm ops _ a (fun o ho => hc o (by simp [ho])) (fun g o ho => hg g o (by simp [ho]))
    show aget (runOps L (stepOp s op).1 ops).1.store q = none
    cases hq' : aget (stepOp s op).1.store q with
    | none => exact (hrest.2.2.dead hq').1
    | some v =>
      -- still stored: this operation did not settle it, so a later one does
      have hsame : aget (stepOp s op).1.store q = some (t, m) := by
        rcases c with ⟨e1, _⟩ | ⟨_, e1, _⟩
        · rw [e1]; exact hlive
        · rw [e1] at hq'; cases hq'
      obtain ⟨op', hop', hs'⟩ := hex
      rcases List.mem_cons.mp hop' with rfl | hin
      · have := d t hlive hs'
        rw [this] at hq'; cases hq'
      · exact run_settles G L q m pm t ops _ a (fun o ho => hc o (by simp [ho]))
          (fun g o ho => hg g o (by simp [ho])) hsame ⟨op', hin, by rw [b]; exact hs'⟩

def initState (ttlR ttlD : Nat) : CState := { ttlResp := ttlR, ttlDeliv := ttlD }

theorem init_inv (L q : Nat) (m : Msg) (ttlR ttlD : Nat) : Inv L q m (initState ttlR ttlD) :=
  ⟨⟨fun k v _ hv => by simp [initState, aget] at hv, rfl, fun r st hst => by simp [initState, aget] at hst⟩, Or.inl rfl⟩

/-- HISTORY-LEVEL LEDGER for an unsegmented message. -/
theorem plain_ledger (G : Prop) (L q : Nat) (m : Msg) (pm : Plain L q m) (ttlR ttlD t : Nat) (pre post : List Op)
    (hc : ∀ op ∈ pre ++ post, Clean L q op) (hg : G → ∀ op ∈ post, GoodResp q op) :
    let n := (runOps L (initState ttlR ttlD) (pre ++ Op.put t m :: post)).2
    n ≤ 1 ∧ (G → (∃ op ∈ post, Settles q t ttlR op) → n = 1) := by
  intro n
  have hn : n = (runOps L (initState ttlR ttlD) (pre ++ Op.put t m :: post)).2 := rfl
  rw [runOps_append] at hn
  dsimp only at hn
  -- before the message is stored nothing carries its log id
  obtain ⟨a, b, c⟩ := run_any False L q m pm pre _ (init_inv L q m ttlR ttlD)
    (fun o ho => hc o (by simp [ho])) (fun g => g.elim)
  obtain ⟨hd, h0⟩ := c.dead (by rfl)
  -- the put
  generalize hs1 : (runOps L (initState ttlR ttlD) pre).1 = s1 at a b hd hn
  obtain ⟨a2, b2, c2, d2⟩ := put_self G L q m pm s1 t a hd
  have hrun : runOps L s1 (Op.put t m :: post) =
      ((runOps L (put s1 t m).1 post).1, countL L (put s1 t m).2 + (runOps L (put s1 t m).1 post).2) := by
    simp [runOps, stepOp, outcomes]
  rw [hrun, h0, c2] at hn
  dsimp only at hn
  -- afterwards
  obtain ⟨a3, b3, c3⟩ := run_any G L q m pm post _ a2 (fun o ho => hc o (by simp [ho])) hg
  have hn' : n = (runOps L (put s1 t m).1 post).2 := by omega
  refine ⟨?_, ?_⟩
  · rcases c3 with ⟨_, e⟩ | ⟨_, _, e | ⟨e, _⟩⟩ <;> omega
  · intro g hex
    have hgone := run_settles G L q m pm t post _ a2 (fun o ho => hc o (by simp [ho])) hg b2
      (by
        obtain ⟨op, hop, hs⟩ := hex
        exact ⟨op, hop, by rw [d2, b]; exact hs⟩)
    rcases c3 with ⟨e1, _⟩ | ⟨_, _, e | ⟨_, ng⟩⟩
    · rw [hgone, b2] at e1; cases e1
    · omega
    · exact absurd g ng

/-- sequence number of the request an operation stores -/
def Op.putSeq : Op → Nat
  | .put _ m => m.seq
  | _ => 0

/-- no request of the history carries the log id `L`; PDUs from the wire carry none -/
def Foreign (L : Nat) : Op → Prop
  | .put _ m' => m'.logId ≠ L
  | .resp _ r => r.logId ≠ L
  | .deliver _ _ => True

theorem exists_fresh_seq (ops : List Op) : ∃ q, ∀ op ∈ ops, op.putSeq < q := by
  induction ops with
  | nil => exact ⟨0, fun _ h => by cases h⟩
  | cons o os ih =>
    obtain ⟨q, hq⟩ := ih
    refine ⟨max q (o.putSeq + 1), ?_⟩
    intro op hop
    rcases List.mem_cons.mp hop with rfl | h
    · omega
    · have := hq op h; omega

/-- NO INVENTED ATTRIBUTION: a log id that no stored request carries never shows up in an outcome. -/
theorem foreign_ledger (L ttlR ttlD : Nat) (ops : List Op) (hf : ∀ op ∈ ops, Foreign L op) :
    (runOps L (initState ttlR ttlD) ops).2 = 0 := by
  obtain ⟨q, hq⟩ := exists_fresh_seq ops
  let m : Msg := { kind := .submitSm, seq := q, logId := L }
  have pm : Plain L q m := ⟨rfl, rfl, rfl, rfl⟩
  have hc : ∀ op ∈ ops, Clean L q op := by
    intro op hop
    have h1 := hf op hop
    have h2 := hq op hop
    cases op with
    | put now m' => exact ⟨Nat.ne_of_lt h2, h1⟩
    | resp now r => exact h1
    | deliver now d => trivial
  obtain ⟨_, _, c⟩ := run_any False L q m pm ops _ (init_inv L q m ttlR ttlD) hc (fun g => g.elim)
  exact (c.dead (by rfl)).2

end SmppVerif.Lemmas.History
