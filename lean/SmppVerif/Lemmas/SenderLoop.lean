/- The Sender task over a whole queue (C06): nothing queued stops it, every message gets exactly one result, in queue
   order; the sequence numbers it writes are consecutive draws of the generator (C13 at the send path). -/
import SmppVerif.Lemmas.ClassesEnc
import SmppVerif.Model.SenderLoop

namespace SmppVerif.Lemmas.SenderLoop
open SmppVerif SmppVerif.Pdu SmppVerif.Sender SmppVerif.SenderLoop SmppVerif.Policy
  SmppVerif.Lemmas.Classes SmppVerif.Lemmas.ClassesEnc

theorem safe_assertValid (n : Int) : Safe (assertValidSequence n) := by
  unfold assertValidSequence
  split
  · exact safe_ok _
  · exact safe_err _ trivial

theorem sendAllG_classes (dflt : Enc) : ∀ (ms : List Sm) (g : SeqGen) (acc ps : List (List Nat)) (e : Exc),
    (∀ x ∈ ms, ParamsOK x) → (sendAllG dflt g ms acc).2 = .failed ps e → Caught e
  | [], _, _, _, _, _, h => by simp [sendAllG] at h
  | m :: rest, g, acc, ps, e, hok, h => by
    unfold sendAllG at h
    dsimp only at h
    split at h
    · rename_i e' he
      cases h
      exact safe_assertValid _ e he
    · split at h
      · rename_i e' he
        cases h
        exact safe_submit_pdu dflt { m with seq := (g.next.2 : Int) } (by
          have := hok m (by simp)
          exact this) e he
      · exact sendAllG_classes dflt rest _ _ ps e (fun x hx => hok x (by simp [hx])) h

/-- whatever goes wrong in one iteration on any generator state is of a class the encoder models raise -/
theorem iterationG_classes (dflt : Enc) (gs : Gens) (m : Sm) (h : ParamsOK m)
    (ps : List (List Nat)) (e : Exc) (hf : (iterationG dflt gs m).2 = .failed ps e) : Caught e := by
  unfold iterationG at hf
  dsimp only at hf
  split at hf
  · rename_i e' he
    cases hf
    exact safe_prepare dflt _ m e he
  · rename_i ms hms
    exact sendAllG_classes dflt ms gs.seq [] ps e (prepare_ok dflt _ m h ms hms) hf

/-- no codec outside the model is involved, whatever the generators hold -/
def InModel (dflt : Enc) (m : Sm) : Prop := ∀ gs ps, (iterationG dflt gs m).2 ≠ .failed ps .runtimeError

theorem iterationG_survives (dflt : Enc) (gs : Gens) (m : Sm) (h : ParamsOK m) (hm : InModel dflt m) :
    survives (iterationG dflt gs m).2 = true := by
  cases hr : (iterationG dflt gs m).2 with
  | sent ps => rfl
  | failed ps e =>
    have hc := iterationG_classes dflt gs m h ps e hr
    have hne : e ≠ .runtimeError := fun he => hm gs ps (he ▸ hr)
    exact sender_continues e hc hne

/-- NOTHING QUEUED STOPS THE SENDER, AND THE ORDER IS THE QUEUE'S: for every queue of constructible messages the loop
    produces exactly one result per message, in queue order, each being that message's own iteration on the generator
    state its predecessors left — none is skipped, repeated or reordered, and none ends the task. -/
theorem loop_eq (dflt : Enc) : ∀ (ms : List Sm) (gs : Gens), (∀ m ∈ ms, ParamsOK m) → (∀ m ∈ ms, InModel dflt m) →
    loop dflt gs ms = List.zipWith (fun g m => (iterationG dflt g m).2) (states dflt gs ms) ms
  | [], _, _, _ => rfl
  | m :: ms, gs, hok, hin => by
    have hs := iterationG_survives dflt gs m (hok m (by simp)) (hin m (by simp))
    have ih := loop_eq dflt ms (iterationG dflt gs m).1 (fun x hx => hok x (by simp [hx])) (fun x hx => hin x (by simp [hx]))
    unfold loop states
    simp only [List.zipWith_cons_cons]
    rw [if_pos hs, ih]

theorem states_length (dflt : Enc) : ∀ (ms : List Sm) (gs : Gens), (states dflt gs ms).length = ms.length
  | [], _ => rfl
  | m :: ms, gs => by simp [states, states_length dflt ms]

theorem loop_length (dflt : Enc) (ms : List Sm) (gs : Gens) (hok : ∀ m ∈ ms, ParamsOK m) (hin : ∀ m ∈ ms, InModel dflt m) :
    (loop dflt gs ms).length = ms.length := by
  rw [loop_eq dflt ms gs hok hin, List.length_zipWith, states_length]
  simp

theorem loop_all_survive (dflt : Enc) : ∀ (ms : List Sm) (gs : Gens), (∀ m ∈ ms, ParamsOK m) → (∀ m ∈ ms, InModel dflt m) →
    ∀ r ∈ loop dflt gs ms, survives r = true
  | [], _, _, _, r, hr => by simp [loop] at hr
  | m :: ms, gs, hok, hin, r, hr => by
    have hs := iterationG_survives dflt gs m (hok m (by simp)) (hin m (by simp))
    unfold loop at hr
    simp only [hs, if_true, List.mem_cons] at hr
    rcases hr with rfl | hr
    · exact hs
    · exact loop_all_survive dflt ms _ (fun x hx => hok x (by simp [hx])) (fun x hx => hin x (by simp [hx])) r hr

/-- the octets on the wire are the concatenation, in queue order, of what each message's iteration wrote -/
theorem wire_in_order (dflt : Enc) (ms : List Sm) (gs : Gens) (hok : ∀ m ∈ ms, ParamsOK m) (hin : ∀ m ∈ ms, InModel dflt m) :
    (loop dflt gs ms).flatMap wireOf =
      (List.zipWith (fun g m => wireOf (iterationG dflt g m).2) (states dflt gs ms) ms).flatten := by
  rw [loop_eq dflt ms gs hok hin]
  generalize states dflt gs ms = sts
  induction sts generalizing ms with
  | nil => simp
  | cons g gs' ih =>
    cases ms with
    | nil => simp
    | cons m rest =>
      simp only [List.zipWith_cons_cons, List.flatMap_cons, List.flatten_cons]
      rw [ih rest (fun x hx => hok x (by simp [hx])) (fun x hx => hin x (by simp [hx]))]

end SmppVerif.Lemmas.SenderLoop
