/- The Sender task over a whole queue (C06): nothing queued stops it, every message gets exactly one result, in queue
   order; the sequence numbers it writes are consecutive draws of the generator (C13 at the send path). -/
import SmppVerif.Lemmas.ClassesEnc
import SmppVerif.Lemmas.Pdu
import SmppVerif.Lemmas.Policy
import SmppVerif.Model.SenderLoop

namespace SmppVerif.Lemmas.SenderLoop
open SmppVerif SmppVerif.Pdu SmppVerif.Sender SmppVerif.SenderLoop SmppVerif.Policy
  SmppVerif.Lemmas.Classes SmppVerif.Lemmas.ClassesEnc

theorem safe_assertValid (n : Int) : Safe (assertValidSequence n) := by
  unfold assertValidSequence
  split
  · exact safe_ok _
  · exact safe_err _ trivial

theorem sendAllG_classes (dflt : Enc) : ∀ (ms : List Sm) (g : SeqGen) (acc ps : List (List Nat)) (e : Exc),
    (∀ x ∈ ms, ParamsOK x) → (sendAllG dflt g ms acc).2 = .failed ps e → Caught e
  | [], _, _, _, _, _, h => by simp [sendAllG] at h
  | m :: rest, g, acc, ps, e, hok, h => by
    unfold sendAllG at h
    dsimp only at h
    split at h
    · rename_i e' he
      cases h
      exact safe_assertValid _ e he
    · split at h
      · rename_i e' he
        cases h
        exact safe_submit_pdu dflt { m with seq := (g.next.2 : Int) } (by
          have := hok m (by simp)
          exact this) e he
      · exact sendAllG_classes dflt rest _ _ ps e (fun x hx => hok x (by simp [hx])) h

/-- whatever goes wrong in one iteration on any generator state is of a class the encoder models raise -/
theorem iterationG_classes (dflt : Enc) (gs : Gens) (m : Sm) (h : ParamsOK m)
    (ps : List (List Nat)) (e : Exc) (hf : (iterationG dflt gs m).2 = .failed ps e) : Caught e := by
  unfold iterationG at hf
  dsimp only at hf
  split at hf
  · rename_i e' he
    cases hf
    exact safe_prepare dflt _ m e he
  · rename_i ms hms
    exact sendAllG_classes dflt ms gs.seq [] ps e (prepare_ok dflt _ m h ms hms) hf

/-- no codec outside the model is involved, whatever the generators hold -/
def InModel (dflt : Enc) (m : Sm) : Prop := ∀ gs ps, (iterationG dflt gs m).2 ≠ .failed ps .runtimeError

theorem iterationG_survives (dflt : Enc) (gs : Gens) (m : Sm) (h : ParamsOK m) (hm : InModel dflt m) :
    survives (iterationG dflt gs m).2 = true := by
  cases hr : (iterationG dflt gs m).2 with
  | sent ps => rfl
  | failed ps e =>
    have hc := iterationG_classes dflt gs m h ps e hr
    have hne : e ≠ .runtimeError := fun he => hm gs ps (he ▸ hr)
    exact sender_continues e hc hne

/-- NOTHING QUEUED STOPS THE SENDER, AND THE ORDER IS THE QUEUE'S: for every queue of constructible messages the loop
    produces exactly one result per message, in queue order, each being that message's own iteration on the generator
    state its predecessors left — none is skipped, repeated or reordered, and none ends the task. -/
theorem loop_eq (dflt : Enc) : ∀ (ms : List Sm) (gs : Gens), (∀ m ∈ ms, ParamsOK m) → (∀ m ∈ ms, InModel dflt m) →
    loop dflt gs ms = List.zipWith (fun g m => (iterationG dflt g m).2) (states dflt gs ms) ms
  | [], _, _, _ => rfl
  | m :: ms, gs, hok, hin => by
    have hs := iterationG_survives dflt gs m (hok m (by simp)) (hin m (by simp))
    have ih := loop_eq dflt ms (iterationG dflt gs m).1 (fun x hx => hok x (by simp [hx])) (fun x hx => hin x (by simp [hx]))
    unfold loop states
    simp only [List.zipWith_cons_cons]
    rw [if_pos hs, ih]

theorem states_length (dflt : Enc) : ∀ (ms : List Sm) (gs : Gens), (states dflt gs ms).length = ms.length
  | [], _ => rfl
  | m :: ms, gs => by simp [states, states_length dflt ms]

theorem loop_length (dflt : Enc) (ms : List Sm) (gs : Gens) (hok : ∀ m ∈ ms, ParamsOK m) (hin : ∀ m ∈ ms, InModel dflt m) :
    (loop dflt gs ms).length = ms.length := by
  rw [loop_eq dflt ms gs hok hin, List.length_zipWith, states_length]
  simp

theorem loop_all_survive (dflt : Enc) : ∀ (ms : List Sm) (gs : Gens), (∀ m ∈ ms, ParamsOK m) → (∀ m ∈ ms, InModel dflt m) →
    ∀ r ∈ loop dflt gs ms, survives r = true
  | [], _, _, _, r, hr => by simp [loop] at hr
  | m :: ms, gs, hok, hin, r, hr => by
    have hs := iterationG_survives dflt gs m (hok m (by simp)) (hin m (by simp))
    unfold loop at hr
    simp only [hs, if_true, List.mem_cons] at hr
    rcases hr with rfl | hr
    · exact hs
    · exact loop_all_survive dflt ms _ (fun x hx => hok x (by simp [hx])) (fun x hx => hin x (by simp [hx])) r hr

/-- the octets on the wire are the concatenation, in queue order, of what each message's iteration wrote -/
theorem wire_in_order (dflt : Enc) (ms : List Sm) (gs : Gens) (hok : ∀ m ∈ ms, ParamsOK m) (hin : ∀ m ∈ ms, InModel dflt m) :
    (loop dflt gs ms).flatMap wireOf =
      (List.zipWith (fun g m => wireOf (iterationG dflt g m).2) (states dflt gs ms) ms).flatten := by
  rw [loop_eq dflt ms gs hok hin]
  generalize states dflt gs ms = sts
  induction sts generalizing ms with
  | nil => simp
  | cons g gs' ih =>
    cases ms with
    | nil => simp
    | cons m rest =>
      simp only [List.zipWith_cons_cons, List.flatMap_cons, List.flatten_cons]
      rw [ih rest (fun x hx => hok x (by simp [hx])) (fun x hx => hin x (by simp [hx]))]

end SmppVerif.Lemmas.SenderLoop

/-! ### the sequence numbers on the wire (C13 at the send path) -/

namespace SmppVerif.Lemmas.SenderLoop
open SmppVerif SmppVerif.Pdu SmppVerif.Sender SmppVerif.SenderLoop SmppVerif.Policy SmppVerif.Lemmas.Pdu
  SmppVerif.Lemmas.Policy

/-- the sequence_number field of a PDU (octets 12..15 of the header) -/
def seqOf (b : List Nat) : Nat := beVal ((b.drop 12).take 4)

/-- `n` further draws -/
def advance : Nat → SeqGen → SeqGen
  | 0, g => g
  | n + 1, g => advance n g.next.1

theorem take_add : ∀ (a b : Nat) (g : SeqGen), g.take (a + b) = g.take a ++ (advance a g).take b
  | 0, b, g => by simp [SeqGen.take, advance]
  | a + 1, b, g => by
    have : a + 1 + b = (a + b) + 1 := by omega
    rw [this, SeqGen.take, SeqGen.take]
    simp only [List.cons_append, advance]
    rw [take_add a b g.next.1]

theorem advance_add : ∀ (a b : Nat) (g : SeqGen), advance (a + b) g = advance b (advance a g)
  | 0, b, g => by simp [advance]
  | a + 1, b, g => by
    have : a + 1 + b = (a + b) + 1 := by omega
    rw [this, advance, advance, advance_add a b g.next.1]

/-- a submit_sm PDU carries the sequence number it was built with -/
theorem submit_pdu_seq (dflt : Enc) (m : Sm) (n : Nat) (b : List Nat) (e : Option Enc)
    (h : pdu dflt (.submitSm { m with seq := (n : Int) }) = .ok (b, e)) : seqOf b = n := by
  generalize hm : ({ m with seq := (n : Int) } : Sm) = m' at h
  have hseq : m'.seq = (n : Int) := by rw [← hm]
  replace h : smPdu dflt Msg.submitSm m' = .ok (b, e) := h
  unfold smPdu at h
  cases hb : smBody dflt m' with
  | error x => rw [hb] at h; cases h
  | ok pr =>
    obtain ⟨body, enc⟩ := pr
    rw [hb] at h
    dsimp only at h
    cases hh : packHeader (16 + body.length) (Msg.submitSm m') with
    | error x => rw [hh] at h; cases h
    | ok hd =>
      rw [hh] at h
      simp only [Except.map, Except.ok.injEq, Prod.mk.injEq] at h
      obtain ⟨rfl, _⟩ := h
      obtain ⟨h16, _, _, _, _, h12⟩ := packHeader_spec _ _ hd hh
      unfold unpackU at h12
      rw [if_pos (by omega)] at h12
      simp only [Msg.seq, hseq, Int.toNat_natCast, Except.ok.injEq] at h12
      unfold seqOf
      have : ((hd ++ body).drop 12).take 4 = (hd.drop 12).take 4 := by
        rw [List.drop_append_of_le_length (by omega), List.take_append_of_le_length (by simp; omega)]
      rw [this, h12]

/-- the PDUs `sendAllG` adds to the wire carry the generator's next numbers, in order; what it leaves in the generator
    is the state after as many draws as PDUs were attempted -/
theorem sendAllG_seqs (dflt : Enc) : ∀ (ms : List Sm) (g : SeqGen) (acc : List (List Nat)),
    ∃ n new, wireOf (sendAllG dflt g ms acc).2 = acc ++ new ∧ (sendAllG dflt g ms acc).1 = advance n g ∧
      new.map seqOf = g.take new.length ∧ new.length ≤ n
  | [], g, acc => ⟨0, [], by simp [sendAllG, wireOf], rfl, rfl, Nat.le_refl _⟩
  | m :: rest, g, acc => by
    unfold sendAllG
    dsimp only
    cases hv : assertValidSequence (g.next.2 : Int) with
    | error e => exact ⟨1, [], by simp [wireOf], rfl, rfl, by simp⟩
    | ok u =>
      dsimp only
      cases hp : pdu dflt (.submitSm { m with seq := (g.next.2 : Int) }) with
      | error e => exact ⟨1, [], by simp [wireOf], rfl, rfl, by simp⟩
      | ok r =>
        obtain ⟨b, enc⟩ := r
        dsimp only
        obtain ⟨n, new, hw, hg, hs, hn⟩ := sendAllG_seqs dflt rest g.next.1 (acc ++ [b])
        refine ⟨n + 1, b :: new, ?_, ?_, ?_, ?_⟩
        · rw [hw]; simp
        · rw [hg]; rfl
        · have hb := submit_pdu_seq dflt m g.next.2 b enc hp
          simp only [List.map_cons, List.length_cons, SeqGen.take, hb, hs]
        · simp; omega

/-- … the same for one iteration of the loop -/
theorem iterationG_seqs (dflt : Enc) (gs : Gens) (m : Sm) :
    ∃ n, (iterationG dflt gs m).1.seq = advance n gs.seq ∧
      ((wireOf (iterationG dflt gs m).2).map seqOf).Sublist (gs.seq.take n) := by
  unfold iterationG
  dsimp only
  cases hp : prepare dflt (if m.autoPayload then (gs.ref, 0) else gs.ref.next).2 m with
  | error e => exact ⟨0, rfl, by simp [wireOf, SeqGen.take]⟩
  | ok ms =>
    dsimp only
    obtain ⟨n, new, hw, hg, hs, hn⟩ := sendAllG_seqs dflt ms gs.seq []
    refine ⟨n, hg, ?_⟩
    rw [hw, List.nil_append, hs]
    have : n = new.length + (n - new.length) := by omega
    rw [this, take_add]
    exact List.sublist_append_left _ _

/-- SEQUENCE NUMBERS ON THE WIRE: over a whole queue the submit_sm PDUs carry, in order, numbers drawn one after the
    other from the generator (a PDU that could not be built leaves a gap) — so as long as fewer numbers are drawn than the
    generator's period, no two PDUs carry the same number, also across the wrap-around. -/
theorem loop_seqs (dflt : Enc) : ∀ (ms : List Sm) (gs : Gens),
    ∃ n, (((loop dflt gs ms).flatMap wireOf).map seqOf).Sublist (gs.seq.take n)
  | [], gs => ⟨0, by simp [loop]⟩
  | m :: ms, gs => by
    obtain ⟨n1, hg, hs1⟩ := iterationG_seqs dflt gs m
    unfold loop
    dsimp only
    split
    · obtain ⟨n2, hs2⟩ := loop_seqs dflt ms (iterationG dflt gs m).1
      refine ⟨n1 + n2, ?_⟩
      rw [List.flatMap_cons, List.map_append, take_add, ← hg]
      exact List.Sublist.append hs1 hs2
    · refine ⟨n1, ?_⟩
      simpa using hs1

theorem loop_seqs_nodup (dflt : Enc) (ms : List Sm) (gs : Gens) (hinv : SeqInv gs.seq) :
    ∃ n, (((loop dflt gs ms).flatMap wireOf).map seqOf).Sublist (gs.seq.take n) ∧
      (n ≤ period gs.seq → (((loop dflt gs ms).flatMap wireOf).map seqOf).Nodup) := by
  obtain ⟨n, hs⟩ := loop_seqs dflt ms gs
  exact ⟨n, hs, fun hn => List.Sublist.nodup hs (take_nodup n gs.seq hinv hn)⟩

end SmppVerif.Lemmas.SenderLoop
