/- Helper lemmas for C18: token bucket window bound and progress (exact rational arithmetic). -/
import SmppVerif.Model.Policy
import Mathlib.Tactic.Linarith
import Mathlib.Tactic.Ring
import Mathlib.Algebra.Order.Field.Rat

namespace SmppVerif.Lemmas.Limiter
open SmppVerif SmppVerif.Policy

/-- reachable bucket states at time `t` -/
structure Inv (b : Bucket) (t : Rat) : Prop where
  rate : 0 < b.rate
  lo : 0 ≤ b.tokens
  hi : b.tokens ≤ b.rate
  upd : b.updatedAt ≤ t

/-- tokens plus the credit accrued since the last refill -/
def Φ (b : Bucket) (t : Rat) : Rat := b.tokens + b.rate * (t - b.updatedAt)

theorem init_inv (r now : Rat) (h : 0 < r) : Inv (Bucket.init r now) now :=
  ⟨h, by simp [Bucket.init]; linarith, by simp [Bucket.init], by simp [Bucket.init]⟩

theorem phi_nonneg (b : Bucket) (t : Rat) (h : Inv b t) : 0 ≤ Φ b t := by
  unfold Φ
  have := h.rate; have := h.lo; have := h.upd
  have : 0 ≤ b.rate * (t - b.updatedAt) := mul_nonneg (le_of_lt h.rate) (by linarith)
  linarith

/-- One attempt: the invariant is kept, the potential pays for a pass, and a pass together
    with what is left never exceeds `rate + 1`. -/
theorem attempt_step (b : Bucket) (t t' : Rat) (h : Inv b t) (htt : t ≤ t') :
    Inv (b.attempt t').1 t' ∧ (b.attempt t').1.rate = b.rate ∧
    Φ (b.attempt t').1 t' + (if (b.attempt t').2 then 1 else 0) ≤ Φ b t + b.rate * (t' - t) ∧
    Φ (b.attempt t').1 t' + (if (b.attempt t').2 then 1 else 0) ≤ b.rate + 1 := by
  obtain ⟨hr, hlo, hhi, hu⟩ := h
  unfold Bucket.attempt Bucket.addNewTokens Φ
  simp only
  by_cases hnew : (t' - b.updatedAt) * b.rate > 1
  · simp only [hnew, if_true]
    have hm1 : min (b.tokens + (t' - b.updatedAt) * b.rate) b.rate ≤ b.rate := min_le_right _ _
    have hm2 : min (b.tokens + (t' - b.updatedAt) * b.rate) b.rate
        ≤ b.tokens + (t' - b.updatedAt) * b.rate := min_le_left _ _
    have hm0 : 0 ≤ min (b.tokens + (t' - b.updatedAt) * b.rate) b.rate :=
      le_min (by linarith) (le_of_lt hr)
    have e : b.rate * (t' - b.updatedAt) = (t' - b.updatedAt) * b.rate := mul_comm _ _
    by_cases hlt : min (b.tokens + (t' - b.updatedAt) * b.rate) b.rate < 1
    · simp only [hlt, if_true]
      refine ⟨⟨hr, hm0, hm1, le_refl _⟩, by first | rfl | trivial, ?_, ?_⟩
      · simp only [sub_self, mul_zero, add_zero, Bool.false_eq_true, if_false]
        have : b.rate * (t' - t) + b.rate * (t - b.updatedAt) = (t' - b.updatedAt) * b.rate := by ring
        linarith
      · simp only [sub_self, mul_zero, add_zero, Bool.false_eq_true, if_false]; linarith
    · simp only [hlt, if_false]
      have hge : 1 ≤ min (b.tokens + (t' - b.updatedAt) * b.rate) b.rate := not_lt.mp hlt
      refine ⟨⟨hr, by simp only; linarith, by simp only; linarith, le_refl _⟩, by first | rfl | trivial, ?_, ?_⟩
      · simp only [sub_self, mul_zero, add_zero, if_true]
        have : b.rate * (t' - t) + b.rate * (t - b.updatedAt) = (t' - b.updatedAt) * b.rate := by ring
        linarith
      · simp only [sub_self, mul_zero, add_zero, if_true]; linarith
  · simp only [hnew, if_false]
    have hle : (t' - b.updatedAt) * b.rate ≤ 1 := not_lt.mp hnew
    have e : b.rate * (t' - b.updatedAt) = (t' - b.updatedAt) * b.rate := mul_comm _ _
    by_cases hlt : b.tokens < 1
    · simp only [hlt, if_true]
      refine ⟨⟨hr, hlo, hhi, by linarith⟩, by first | rfl | trivial, ?_, ?_⟩
      · simp only [Bool.false_eq_true, if_false, add_zero]
        have : b.rate * (t' - t) + b.rate * (t - b.updatedAt) = b.rate * (t' - b.updatedAt) := by ring
        linarith
      · simp only [Bool.false_eq_true, if_false, add_zero]; linarith
    · simp only [hlt, if_false]
      have hge : 1 ≤ b.tokens := not_lt.mp hlt
      refine ⟨⟨hr, by simp only; linarith, by simp only; linarith, by simp only; linarith⟩, by first | rfl | trivial, ?_, ?_⟩
      · simp only [if_true]
        have : b.rate * (t' - t) + b.rate * (t - b.updatedAt) = b.rate * (t' - b.updatedAt) := by ring
        linarith
      · simp only [if_true]; linarith

/-- `times` is non-decreasing and starts no earlier than `t` -/
def Ascending : Rat → List Rat → Prop
  | _, [] => True
  | t, x :: xs => t ≤ x ∧ Ascending x xs

def lastTime : Rat → List Rat → Rat
  | t, [] => t
  | _, x :: xs => lastTime x xs

/-- Accumulated over a run: passes are paid for by the potential. -/
theorem run_accumulate : ∀ (times : List Rat) (b : Bucket) (t : Rat), Inv b t → Ascending t times →
    Inv (b.run times).1 (lastTime t times) ∧ (b.run times).1.rate = b.rate ∧
    ((b.run times).2 : Rat) + Φ (b.run times).1 (lastTime t times)
      ≤ Φ b t + b.rate * (lastTime t times - t)
  | [], b, t, h, _ => by simp [Bucket.run, lastTime, h]
  | x :: xs, b, t, h, hasc => by
    obtain ⟨htx, hrest⟩ := hasc
    obtain ⟨hinv1, hrate1, hpay, _⟩ := attempt_step b t x h htx
    obtain ⟨hinv2, hrate2, hacc⟩ := run_accumulate xs (b.attempt x).1 x hinv1 hrest
    simp only [Bucket.run, lastTime]
    refine ⟨hinv2, by rw [hrate2, hrate1], ?_⟩
    rw [hrate1] at hacc
    have hcast : (((Bucket.run (b.attempt x).1 xs).2 + (if (b.attempt x).2 = true then 1 else 0) : Nat) : Rat)
        = ((Bucket.run (b.attempt x).1 xs).2 : Rat) + (if (b.attempt x).2 = true then (1 : Rat) else 0) := by
      split <;> simp
    rw [hcast]
    have : b.rate * (lastTime x xs - t) = b.rate * (lastTime x xs - x) + b.rate * (x - t) := by ring
    linarith

/-- Window bound: from any reachable state, the attempts made at times `t0 ≤ t1 ≤ … ≤ tn`
    let through at most `rate·(tn − t0) + rate + 1` of them. -/
theorem passes_window (b : Bucket) (t t0 : Rat) (ts : List Rat) (h : Inv b t) (ht : t ≤ t0)
    (hasc : Ascending t0 ts) :
    ((b.run (t0 :: ts)).2 : Rat) ≤ b.rate * (lastTime t0 ts - t0) + b.rate + 1 := by
  obtain ⟨hinv1, hrate1, _, hcap⟩ := attempt_step b t t0 h ht
  obtain ⟨hinv2, _, hacc⟩ := run_accumulate ts (b.attempt t0).1 t0 hinv1 hasc
  have hnn := phi_nonneg _ _ hinv2
  simp only [Bucket.run]
  rw [hrate1] at hacc
  have hcast : (((Bucket.run (b.attempt t0).1 ts).2 + (if (b.attempt t0).2 = true then 1 else 0) : Nat) : Rat)
      = ((Bucket.run (b.attempt t0).1 ts).2 : Rat) + (if (b.attempt t0).2 = true then (1 : Rat) else 0) := by
    split <;> simp
  rw [hcast]
  linarith

/-- Progress for rates of at least one message per second: a caller that was refused and
    retries after sleeps of at least one second passes at the first or the second retry. -/
theorem progress (b : Bucket) (t t1 t2 : Rat) (h : Inv b t) (hr : 1 ≤ b.rate)
    (h1 : t + 1 ≤ t1) (h2 : t1 + 1 ≤ t2) :
    (b.attempt t1).2 = true ∨ ((b.attempt t1).1.attempt t2).2 = true := by
  obtain ⟨hr0, hlo, hhi, hu⟩ := h
  by_cases hnew : (t1 - b.updatedAt) * b.rate > 1
  · left
    unfold Bucket.attempt Bucket.addNewTokens
    simp only [hnew, if_true]
    have : ¬ min (b.tokens + (t1 - b.updatedAt) * b.rate) b.rate < 1 := by
      rw [not_lt]; exact le_min (by linarith) hr
    simp [this]
  · by_cases hp : (b.attempt t1).2 = true
    · exact Or.inl hp
    · right
      have hb1 : (b.attempt t1).1 = b := by
        unfold Bucket.attempt Bucket.addNewTokens at hp ⊢
        simp only [hnew, if_false] at hp ⊢
        by_cases hlt : b.tokens < 1
        · simp [hlt]
        · simp [hlt] at hp
      rw [hb1]
      have hdt : 2 ≤ t2 - b.updatedAt := by linarith
      have hnew2 : (t2 - b.updatedAt) * b.rate > 1 := by nlinarith
      unfold Bucket.attempt Bucket.addNewTokens
      simp only [hnew2, if_true]
      have : ¬ min (b.tokens + (t2 - b.updatedAt) * b.rate) b.rate < 1 := by
        rw [not_lt]; exact le_min (by linarith) hr
      simp [this]

/-- Below one message per second the bucket can never hold a whole token: nobody passes
    (known finding `limiter-rate-below-one`). -/
theorem starves (b : Bucket) (t t' : Rat) (h : Inv b t) (hr : b.rate < 1) :
    (b.attempt t').2 = false ∧ Inv (b.attempt t').1 (max t t') := by
  obtain ⟨hr0, hlo, hhi, hu⟩ := h
  unfold Bucket.attempt Bucket.addNewTokens
  by_cases hnew : (t' - b.updatedAt) * b.rate > 1
  · simp only [hnew, if_true]
    have hm1 : min (b.tokens + (t' - b.updatedAt) * b.rate) b.rate ≤ b.rate := min_le_right _ _
    have hlt : min (b.tokens + (t' - b.updatedAt) * b.rate) b.rate < 1 := by linarith
    simp only [hlt, if_true]
    refine ⟨trivial, ⟨hr0, le_min (by linarith) (le_of_lt hr0), hm1, le_max_right _ _⟩⟩
  · simp only [hnew, if_false]
    have hlt : b.tokens < 1 := by linarith
    simp only [hlt, if_true]
    exact ⟨trivial, ⟨hr0, hlo, hhi, le_trans hu (le_max_left _ _)⟩⟩

end SmppVerif.Lemmas.Limiter

namespace SmppVerif.Lemmas.Limiter
open SmppVerif SmppVerif.Policy

/-! ### throttle handler -/

/-- `round(x, 2)` stays within half a hundredth of `x`. -/
theorem round2_close (x : Rat) : x - 1 / 200 ≤ round2 x ∧ round2 x ≤ x + 1 / 200 := by
  unfold round2
  simp only
  have h1 := Rat.floor_le (x * 100)
  have h2 := Rat.lt_floor_add_one (x * 100)
  have h2' : x * 100 < ((x * 100).floor : Rat) + 1 := by
    have : (((x * 100).floor + 1 : Int) : Rat) = ((x * 100).floor : Rat) + 1 := by push_cast; ring
    rw [this] at h2; exact h2
  by_cases hd1 : x * 100 - ((x * 100).floor : Rat) < 1 / 2
  · simp only [hd1, if_true]
    constructor <;> linarith
  · simp only [hd1, if_false]
    by_cases hd2 : x * 100 - ((x * 100).floor : Rat) > 1 / 2
    · simp only [hd2, if_true]
      push_cast
      constructor <;> linarith
    · simp only [hd2, if_false]
      have heq : x * 100 - ((x * 100).floor : Rat) = 1 / 2 := by
        have := not_lt.mp hd1; have := not_lt.mp hd2; linarith
      split
      · constructor <;> linarith
      · push_cast
        constructor <;> linarith

/-- The decision of `allow_request`: a request is denied exactly when the window holds at
    least `sample_size` responses and the (rounded) percentage of throttled ones exceeds
    `deny_request_at`; it is never denied otherwise. -/
theorem deny_iff (t : Throttle) (now : Rat) (hd : 0 ≤ t.denyAt) :
    (t.allow now).2 = false ↔
      (t.sampleSize ≤ ((t.nonThrottle + t.throttle : Nat) : Rat) ∧
       round2 ((t.throttle : Rat) / ((t.nonThrottle + t.throttle : Nat) : Rat) * 100) > t.denyAt) := by
  unfold Throttle.allow Throttle.percent
  simp only
  by_cases hs : ((t.nonThrottle + t.throttle : Nat) : Rat) < t.sampleSize
  · simp only [hs, if_true]
    constructor
    · intro h; simp [hd] at h
    · rintro ⟨h1, _⟩; exact absurd hs (not_lt.mpr h1)
  · simp only [hs, if_false]
    constructor
    · intro h
      refine ⟨not_lt.mp hs, ?_⟩
      simpa using h
    · rintro ⟨_, h2⟩
      simpa using h2

/-- The window: the counters are reset exactly when more than `sampling_period` has passed
    since the last reset (after the percentage of the old window was used for this decision);
    otherwise the state is untouched. -/
theorem window_reset (t : Throttle) (now : Rat) :
    (now - t.updatedAt > t.samplingPeriod →
        (t.allow now).1.nonThrottle = 0 ∧ (t.allow now).1.throttle = 0 ∧ (t.allow now).1.updatedAt = now) ∧
    (¬ now - t.updatedAt > t.samplingPeriod → (t.allow now).1 = t) := by
  unfold Throttle.allow
  constructor
  · intro h; simp [h]
  · intro h; simp [h]

/-- After a reset, with a positive sample size, sending resumes. -/
theorem allowed_after_reset (t : Throttle) (now now' : Rat) (hs : 0 < t.sampleSize) (hd : 0 ≤ t.denyAt)
    (h : now - t.updatedAt > t.samplingPeriod) : ((t.allow now).1.allow now').2 = true := by
  unfold Throttle.allow Throttle.percent
  simp [h, hs, hd]

/-! ### back-off -/

theorem backoff_delays_from (d m : Nat) (hd : 1 ≤ d) : ∀ (k j : Nat), j ≤ m →
    Backoff.delays k ⟨d, d * 2 ^ m, d * 2 ^ j⟩ = (List.range k).map fun i => d * 2 ^ (min (j + i) m)
  | 0, _, _ => rfl
  | k + 1, j, hj => by
    have hpos : d * 2 ^ j ≠ 0 := Nat.mul_ne_zero (by omega) (Nat.pos_iff_ne_zero.mp (Nat.two_pow_pos j))
    rw [Backoff.delays, Backoff.wait]
    simp only [hpos, if_false]
    rw [List.range_succ_eq_map, List.map_cons, List.map_map]
    by_cases hlt : j < m
    · have h1 : d * 2 ^ j < d * 2 ^ m :=
        Nat.mul_lt_mul_of_pos_left (Nat.pow_lt_pow_right (by omega) hlt) (by omega)
      simp only [h1, if_true]
      have h2 : d * 2 ^ j * 2 = d * 2 ^ (j + 1) := by rw [Nat.pow_succ, Nat.mul_assoc]
      rw [h2, backoff_delays_from d m hd k (j + 1) (by omega)]
      congr 1
      · simp [Nat.min_eq_left hj]
      · apply List.map_congr_left; intro i _; simp only [Function.comp]; congr 2; omega
    · have hjm : j = m := by omega
      subst hjm
      simp only [Nat.lt_irrefl, if_false]
      rw [backoff_delays_from d j hd k j (le_refl _)]
      congr 1
      · simp
      · apply List.map_congr_left; intro i _; simp only [Function.comp]; congr 2; omega

/-- Consecutive failures are delayed by 0, d, 2d, 4d, …, 2^m·d, 2^m·d, … (milliseconds). -/
theorem backoff_sequence (d m k : Nat) (hd : 1 ≤ d) :
    Backoff.delays (k + 1) (Backoff.init d m)
      = 0 :: (List.range k).map fun i => d * 2 ^ (min i m) := by
  rw [Backoff.delays, Backoff.wait]
  simp only [Backoff.init, if_true]
  have := backoff_delays_from d m hd k 0 (Nat.zero_le _)
  simp only [Nat.pow_zero, Nat.mul_one, Nat.zero_add] at this
  rw [this]

/-- A successful bind resets the sequence. -/
theorem backoff_reset (b : Backoff) : (b.reset).wait.2 = 0 ∧ (b.reset).wait.1.nextDelay = b.minDelay := by
  simp [Backoff.reset, Backoff.wait]

end SmppVerif.Lemmas.Limiter
