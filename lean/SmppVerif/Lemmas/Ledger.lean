/- Helper lemmas for C01/C02: what a sweep leaves alone, and the aggregation of segment codes. -/
import SmppVerif.Lemmas.Expiry

namespace SmppVerif.Lemmas.Ledger
open SmppVerif SmppVerif.Corr SmppVerif.Lemmas.Corr SmppVerif.Lemmas.Expiry

/-- the sweep never adds segment registrations -/
theorem sweepStore_segStore_none (now : Nat) : ∀ (ks : List Nat) (s : CState) (x : Nat),
    aget s.segStore x = none → aget (sweepStore now ks s).1.segStore x = none
  | [], _, _, h => h
  | k :: ks, s, x, h => by
    rw [sweepStore_cons]
    cases h1 : aget s.store k with
    | none => exact sweepStore_segStore_none now ks s x h
    | some pr =>
      obtain ⟨at_, m⟩ := pr
      dsimp only
      by_cases h2 : now - at_ > s.ttlResp
      · rw [if_pos h2]; dsimp only
        exact sweepStore_segStore_none now ks _ x (expired_segStore_none _ m x h)
      · rw [if_neg h2]; exact sweepStore_segStore_none now ks s x h

theorem removeExpired_segStore_none (s : CState) (now x : Nat) (h : aget s.segStore x = none) :
    aget (removeExpired s now).1.segStore x = none := by
  unfold removeExpired; dsimp only
  exact sweepStore_segStore_none now _ s x h

theorem fixLast_segStore (s : CState) (a b : Msg) : (fixLast s a b).segStore = s.segStore := by
  unfold fixLast
  split
  · split
    · split <;> rfl
    · rfl
  · rfl

theorem updateSeg_segStore (s : CState) (resp m : Msg) :
    (updateSegOnResponse s resp m).segStore = s.segStore := by
  unfold updateSegOnResponse
  split
  · split
    · split <;> rfl
    · rfl
  · rfl

theorem getSegmented_none (s : CState) (q : Nat) (rm : Bool) (h : aget s.segStore q = none) :
    getSegmented s q rm = (s, none, 0) := by
  unfold getSegmented; rw [h]

/-! ### aggregation of per-segment codes -/

theorem foldl_max_ge (l : List (Nat × Int)) (c : Int) :
    c ≤ l.foldl (fun m p => if p.2 > m then p.2 else m) c := by
  induction l generalizing c with
  | nil => exact Int.le_refl c
  | cons p ps ih =>
    simp only [List.foldl_cons]
    split
    · exact Int.le_trans (Int.le_of_lt (by assumption)) (ih _)
    · exact ih c

theorem foldl_max_mem_ge (l : List (Nat × Int)) (c : Int) : ∀ p ∈ l,
    p.2 ≤ l.foldl (fun m p => if p.2 > m then p.2 else m) c := by
  induction l generalizing c with
  | nil => intro p hp; cases hp
  | cons q qs ih =>
    intro p hp
    simp only [List.foldl_cons]
    rcases List.mem_cons.mp hp with rfl | hp'
    · split
      · exact foldl_max_ge qs _
      · rename_i h; exact Int.le_trans (Int.not_lt.mp h) (foldl_max_ge qs c)
    · exact ih _ p hp'

theorem foldl_max_le (l : List (Nat × Int)) (c b : Int) (hc : c ≤ b) (hl : ∀ p ∈ l, p.2 ≤ b) :
    l.foldl (fun m p => if p.2 > m then p.2 else m) c ≤ b := by
  induction l generalizing c with
  | nil => exact hc
  | cons q qs ih =>
    simp only [List.foldl_cons]
    split
    · exact ih _ (hl q (by simp)) (fun p hp => hl p (by simp [hp]))
    · exact ih c hc (fun p hp => hl p (by simp [hp]))

/-- the cumulated code is an upper bound of all segment codes … -/
theorem maxCode_ge (l : List (Nat × Int)) : ∀ p ∈ l, p.2 ≤ maxCode l := by
  intro p hp
  cases l with
  | nil => cases hp
  | cons q qs =>
    unfold maxCode
    rcases List.mem_cons.mp hp with rfl | hp'
    · exact foldl_max_ge qs _
    · exact foldl_max_mem_ge qs _ p hp'

/-- … and is attained. -/
theorem maxCode_le (l : List (Nat × Int)) (b : Int) (hne : l ≠ []) (hl : ∀ p ∈ l, p.2 ≤ b) :
    maxCode l ≤ b := by
  cases l with
  | nil => exact absurd rfl hne
  | cons q qs =>
    unfold maxCode
    exact foldl_max_le qs q.2 b (hl q (by simp)) (fun p hp => hl p (by simp [hp]))

/-- A message is "still sending" exactly while some segment is: with all codes at most
    SENDING, the cumulated code is SENDING iff some segment's is. -/
theorem maxCode_sending_iff (l : List (Nat × Int)) (hne : l ≠ []) (hl : ∀ p ∈ l, p.2 ≤ sSending) :
    maxCode l = sSending ↔ ∃ p ∈ l, p.2 = sSending := by
  constructor
  · intro h
    by_contra hno
    have hlt : ∀ p ∈ l, p.2 ≤ sSending - 1 := by
      intro p hp
      have h1 := hl p hp
      have h2 : p.2 ≠ sSending := fun e => hno ⟨p, hp, e⟩
      omega
    have := maxCode_le l (sSending - 1) hne hlt
    omega
  · rintro ⟨p, hp, he⟩
    have h1 := maxCode_ge l p hp
    have h2 := maxCode_le l sSending hne hl
    omega

/-- Failure dominates: once no segment is sending, the cumulated code is FAILED iff some
    segment failed (given every code is SENT, EXPIRED, FAILED or a receipt code below SENT). -/
theorem maxCode_failed_iff (l : List (Nat × Int)) (hne : l ≠ []) (hl : ∀ p ∈ l, p.2 ≤ sFailed) :
    maxCode l = sFailed ↔ ∃ p ∈ l, p.2 = sFailed := by
  constructor
  · intro h
    by_contra hno
    have hlt : ∀ p ∈ l, p.2 ≤ sFailed - 1 := by
      intro p hp
      have h1 := hl p hp
      have h2 : p.2 ≠ sFailed := fun e => hno ⟨p, hp, e⟩
      omega
    have := maxCode_le l (sFailed - 1) hne hlt
    omega
  · rintro ⟨p, hp, he⟩
    have h1 := maxCode_ge l p hp
    have h2 := maxCode_le l sFailed hne hl
    omega

theorem codes_order : sSent < sExpired ∧ sExpired < sFailed ∧ sFailed < sSending ∧ 0 ≤ sSent := by
  decide

end SmppVerif.Lemmas.Ledger
