/- Helper lemmas for C13 (sequence generator), C07 (back-off), C18 (limiter, throttle). -/
import SmppVerif.Model.Policy

namespace SmppVerif.Lemmas.Policy
open SmppVerif SmppVerif.Policy

/-! ### sequence generator -/

/-- reachable generator states: `min ≥ 1`, `min ≤ max`, counter in `[min-1, max]` -/
structure SeqInv (g : SeqGen) : Prop where
  minPos : 1 ≤ g.minNum
  le : g.minNum ≤ g.maxNum
  lo : g.minNum ≤ g.cur + 1
  hi : g.cur ≤ g.maxNum

def period (g : SeqGen) : Nat := g.maxNum - g.minNum + 1
def pos (g : SeqGen) : Nat := g.cur + 1 - g.minNum

theorem init_inv (mn mx : Nat) (h1 : 1 ≤ mn) (h2 : mn ≤ mx) : SeqInv (SeqGen.init mn mx) :=
  ⟨h1, h2, by simp [SeqGen.init]; omega, by simp [SeqGen.init]; omega⟩

theorem next_spec (g : SeqGen) (h : SeqInv g) :
    SeqInv g.next.1 ∧ g.next.1.minNum = g.minNum ∧ g.next.1.maxNum = g.maxNum ∧
    g.next.2 = g.minNum + pos g % period g ∧ pos g.next.1 = pos g % period g + 1 := by
  obtain ⟨h1, h2, h3, h4⟩ := h
  unfold SeqGen.next pos period
  by_cases hc : g.cur = g.maxNum
  · simp only [hc, if_true]
    have e : g.maxNum + 1 - g.minNum = g.maxNum - g.minNum + 1 := by omega
    refine ⟨⟨h1, h2, by simp, by simpa using h2⟩, by simp, by simp, ?_, ?_⟩
    · rw [e, Nat.mod_self]; rfl
    · rw [e, Nat.mod_self]; simp
  · simp only [hc, if_false]
    have hlt : g.cur + 1 - g.minNum < g.maxNum - g.minNum + 1 := by omega
    refine ⟨⟨h1, h2, by simp; omega, by simp; omega⟩, by simp, by simp, ?_, ?_⟩
    · rw [Nat.mod_eq_of_lt hlt]; omega
    · rw [Nat.mod_eq_of_lt hlt]; omega

theorem take_getElem? : ∀ (k : Nat) (g : SeqGen) (i : Nat), SeqInv g → i < k →
    (g.take k)[i]? = some (g.minNum + (pos g + i) % period g)
  | 0, _, _, _, h => by omega
  | k + 1, g, i, hinv, hi => by
    obtain ⟨hinv', hmin, hmax, hval, hpos⟩ := next_spec g hinv
    rw [SeqGen.take]
    cases i with
    | zero => simp [hval]
    | succ j =>
      simp only [List.getElem?_cons_succ]
      rw [take_getElem? k g.next.1 j hinv' (by omega), hmin]
      have hper : period g.next.1 = period g := by unfold period; rw [hmin, hmax]
      rw [hper, hpos]
      congr 2
      have hp : 0 < period g := by unfold period; omega
      rw [Nat.add_assoc, Nat.add_comm 1 j, Nat.mod_add_mod]

theorem take_length : ∀ (k : Nat) (g : SeqGen), (g.take k).length = k
  | 0, _ => rfl
  | k + 1, g => by rw [SeqGen.take]; simp [take_length k]

/-- Every number handed out lies in `[min, max]`. -/
theorem take_in_range (k : Nat) (g : SeqGen) (h : SeqInv g) :
    ∀ n ∈ g.take k, g.minNum ≤ n ∧ n ≤ g.maxNum := by
  intro n hn
  obtain ⟨i, hi, hget⟩ := List.getElem_of_mem hn
  rw [take_length] at hi
  have := take_getElem? k g i h hi
  rw [List.getElem?_eq_getElem (by rw [take_length]; exact hi)] at this
  have hv : n = g.minNum + (pos g + i) % period g := by
    rw [← hget]; exact Option.some.inj this
  have hp : 0 < period g := by unfold period; omega
  have := Nat.mod_lt (pos g + i) hp
  have hper : period g = g.maxNum - g.minNum + 1 := rfl
  have := h.le
  omega

/-- Any `max - min + 1` consecutive calls return pairwise distinct numbers, from any
    reachable state (including just below the maximum: wrap-around goes to `min`, never 0). -/
theorem take_nodup (k : Nat) (g : SeqGen) (h : SeqInv g) (hk : k ≤ period g) :
    (g.take k).Nodup := by
  unfold List.Nodup
  rw [List.pairwise_iff_getElem]
  intro i j hi hj hij
  rw [take_length] at hi hj
  have e1 := take_getElem? k g i h hi
  have e2 := take_getElem? k g j h hj
  rw [List.getElem?_eq_getElem (by rw [take_length]; exact hi)] at e1
  rw [List.getElem?_eq_getElem (by rw [take_length]; exact hj)] at e2
  have v1 := Option.some.inj e1
  have v2 := Option.some.inj e2
  rw [v1, v2]
  intro heq
  have hp : 0 < period g := by unfold period; omega
  have hmod : (pos g + i) % period g = (pos g + j) % period g := by omega
  have hd := Nat.sub_mod_eq_zero_of_mod_eq hmod.symm
  have hji : pos g + j - (pos g + i) = j - i := by omega
  rw [hji] at hd
  have : j - i < period g := by omega
  rw [Nat.mod_eq_of_lt this] at hd
  omega

end SmppVerif.Lemmas.Policy
