/- Reader lemmas: the index-passing primitives of from_pdu applied to a buffer of known shape. -/
import SmppVerif.Lemmas.Pdu

namespace SmppVerif.Lemmas.PduRead
open SmppVerif SmppVerif.Pdu SmppVerif.Lemmas.Pdu

/-- a C-octet string as the wire wants it: ASCII, no NUL inside -/
def CStrOK (s : List Nat) : Prop := ∀ c ∈ s, c < 128 ∧ c ≠ 0

theorem findIdx_first_zero (s post : List Nat) (h : ∀ c ∈ s, c ≠ 0) :
    (s ++ 0 :: post).findIdx? (· = 0) = some s.length := by
  induction s with
  | nil => simp [List.findIdx?_cons]
  | cons c cs ih =>
    have hc : c ≠ 0 := h c (by simp)
    have := ih (fun x hx => h x (by simp [hx]))
    simp [List.findIdx?_cons, hc, this]

theorem indexNul_at (pre s post : List Nat) (h : ∀ c ∈ s, c ≠ 0) :
    indexNul (pre ++ (s ++ 0 :: post)) pre.length = .ok (pre.length + s.length) := by
  unfold indexNul
  rw [List.drop_left, findIdx_first_zero s post h]
  simp

theorem getCStr_at (pre s post : List Nat) (h : CStrOK s) :
    getCStr (pre ++ (s ++ 0 :: post)) pre.length = .ok (s, pre.length + s.length + 1) := by
  unfold getCStr
  rw [indexNul_at pre s post (fun c hc => (h c hc).2)]
  dsimp only
  have hsl : slice (pre ++ (s ++ 0 :: post)) pre.length (pre.length + s.length) = s := by
    have := slice_mid pre s (0 :: post)
    rwa [List.append_assoc] at this
  rw [hsl, decodeAscii_of_lt s (fun c hc => (h c hc).1)]

theorem unpackU1_at (pre : List Nat) (v : Nat) (post : List Nat) :
    unpackU 1 (pre ++ v :: post) pre.length = .ok v := by
  unfold unpackU
  rw [if_pos (by simp)]
  rw [List.drop_left]
  simp [beVal]

theorem getInt1_at (pre : List Nat) (v : Nat) (post : List Nat) :
    getInt (pre ++ v :: post) pre.length 1 = .ok (v, pre.length + 1) := by
  unfold getInt
  rw [if_pos (Or.inl rfl), unpackU1_at]
  rfl

end SmppVerif.Lemmas.PduRead
