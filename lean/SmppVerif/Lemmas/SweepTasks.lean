/- Correlator operations interleaved at their suspension points (Model/SweepTasks.lean): whatever the scheduler does,
   a stored request leaves the store at most once — swept out (time-out report) or matched by a response, never both,
   never twice; a sweep never reports early and never passes over an overdue request that is still stored. -/
import SmppVerif.Lemmas.Expiry
import SmppVerif.Model.SweepTasks

namespace SmppVerif.Lemmas.SweepTasks
open SmppVerif SmppVerif.Corr SmppVerif.SweepTasks SmppVerif.Lemmas.Corr SmppVerif.Lemmas.Expiry

theorem aget_adel_some' {κ ν : Type} [DecidableEq κ] (d : List (κ × ν)) (k k' : κ) (v : ν)
    (h : aget (adel d k) k' = some v) : aget d k' = some v := by
  by_cases e : k' = k
  · subst e; rw [aget_adel_same] at h; cases h
  · rw [aget_adel_other d k k' e] at h; exact h

/-- 1 if a request is stored under `k` -/
def live (s : CState) (k : Nat) : Nat := if (aget s.store k).isSome then 1 else 0

def isRemoval (k : Nat) : Obs → Bool
  | .timeout k' _ => k' = k
  | .matched k' _ => k' = k
  | _ => false

def isInsertion (k : Nat) : Obs → Bool
  | .stored k' _ => k' = k
  | _ => false

/-- how often the request under `k` left the store / was stored, in a list of observations -/
def removed (k : Nat) (obs : List Obs) : Nat := obs.countP (isRemoval k)
def inserted (k : Nat) (obs : List Obs) : Nat := obs.countP (isInsertion k)

theorem removed_append' (k : Nat) (a b : List Obs) : removed k (a ++ b) = removed k a + removed k b := by
  simp [removed, List.countP_append]
theorem inserted_append' (k : Nat) (a b : List Obs) : inserted k (a ++ b) = inserted k a + inserted k b := by
  simp [inserted, List.countP_append]

theorem removed_cons_timeout (k k0 : Nat) (o : List Out) (l : List Obs) :
    removed k (Obs.timeout k0 o :: l) = (if k0 = k then 1 else 0) + removed k l := by
  by_cases e : k0 = k
  · simp [removed, isRemoval, List.countP_cons, e]; omega
  · simp [removed, isRemoval, List.countP_cons, e]

theorem inserted_cons_timeout (k k0 : Nat) (o : List Out) (l : List Obs) :
    inserted k (Obs.timeout k0 o :: l) = inserted k l := by
  simp [inserted, isInsertion, List.countP_cons]

theorem live_le_one (s : CState) (k : Nat) : live s k ≤ 1 := by unfold live; split <;> omega

theorem live_of_store_eq {a b : CState} (h : a.store = b.store) (k : Nat) : live a k = live b k := by
  unfold live; rw [h]

theorem live_adel (s : CState) (k k' : Nat) :
    live { s with store := adel s.store k' } k = if k = k' then 0 else live s k := by
  unfold live
  by_cases e : k = k'
  · subst e
    simp [aget_adel_same]
  · simp only [e, if_false]
    rw [aget_adel_other s.store k' k e]

theorem live_aset (s : CState) (k k' : Nat) (v : Nat × Msg) :
    live { s with store := aset s.store k' v } k = if k = k' then 1 else live s k := by
  unfold live
  by_cases e : k = k'
  · subst e
    simp [aget_aset_same]
  · simp only [e, if_false]
    rw [aget_aset_other s.store k' k v e]

theorem finish_store (s : CState) (now : Nat) : (finish s now).store = s.store := rfl

/-- one turn of a sweep removes at most the one request it reports, and stores nothing -/
theorem sweepTurn_bal (now k : Nat) : ∀ (ks : List Nat) (s : CState),
    removed k (sweepTurn now ks s).2.1 + live (sweepTurn now ks s).1 k ≤ live s k ∧
    inserted k (sweepTurn now ks s).2.1 = 0
  | [], s => by
    simp only [sweepTurn, removed, inserted, List.countP_nil, Nat.zero_add]
    exact ⟨Nat.le_of_eq (live_of_store_eq (finish_store s now) k), trivial⟩
  | k0 :: ks, s => by
    unfold sweepTurn
    cases hg : aget s.store k0 with
    | none => exact sweepTurn_bal now k ks s
    | some p =>
      obtain ⟨at_, m⟩ := p
      dsimp only
      by_cases hexp : now - at_ > s.ttlResp
      · rw [if_pos hexp]
        have hst := (expired_store { s with store := adel s.store k0 } m).1
        have hl : live s k0 = 1 := by unfold live; rw [hg]; rfl
        by_cases hno : (expired { s with store := adel s.store k0 } m).2 = []
        · -- no hook call: the sweep goes on in this turn
          rw [if_pos hno]
          dsimp only
          have ih := sweepTurn_bal now k ks (expired { s with store := adel s.store k0 } m).1
          rw [live_of_store_eq hst k, live_adel s k k0] at ih
          have ih1 := ih.1
          refine ⟨?_, ?_⟩
          · rw [removed_cons_timeout]
            by_cases e : k = k0
            · subst e
              rw [if_pos rfl] at ih1
              rw [if_pos rfl]
              omega
            · have e' : ¬ (k0 = k) := fun h => e h.symm
              rw [if_neg e] at ih1
              rw [if_neg e']
              omega
          · rw [inserted_cons_timeout]
            exact ih.2
        · rw [if_neg hno]
          dsimp only
          rw [live_of_store_eq hst k, live_adel s k k0]
          refine ⟨?_, by simp [inserted, isInsertion]⟩
          by_cases e : k = k0
          · subst e
            simp [removed, isRemoval, hl]
          · have : (k0 = k) = False := by simp; exact fun h => e h.symm
            simp [removed, isRemoval, e, this]
      · rw [if_neg hexp]
        exact sweepTurn_bal now k ks s

theorem storeReq_store (s1 : CState) (clock : Nat) (m : Msg) :
    (storeReq s1 clock m).store = aset s1.store m.seq (clock, m) := by
  unfold storeReq
  dsimp only
  split <;> rfl

/-- … and so does one turn of an operation -/
theorem taskTurn_bal (t : Task) (clock k : Nat) (s : CState) :
    removed k (taskTurn t clock s).2.1 + live (taskTurn t clock s).1 k ≤ inserted k (taskTurn t clock s).2.1 + live s k := by
  have hb := sweepTurn_bal t.sweep.now k t.sweep.keys s
  unfold taskTurn
  rcases hsw : sweepTurn t.sweep.now t.sweep.keys s with ⟨s1, obs, r⟩
  rw [hsw] at hb
  dsimp only at hb
  cases r with
  | some rest =>
    dsimp only
    omega
  | none =>
    cases ha : t.after with
    | nothing =>
      dsimp only
      omega
    | store m =>
      dsimp only
      have hl : live (storeReq s1 clock m) k = if k = m.seq then 1 else live s1 k := by
        rw [← live_aset s1 k m.seq (clock, m)]
        exact live_of_store_eq (storeReq_store s1 clock m) k
      rw [hl, removed_append', inserted_append']
      have h1 := live_le_one s1 m.seq
      by_cases e : k = m.seq
      · subst e
        simp [removed, inserted, isRemoval, isInsertion] at hb ⊢
        omega
      · have e' : ¬ (m.seq = k) := fun h => e h.symm
        simp [removed, inserted, isRemoval, isInsertion, e, e'] at hb ⊢
        omega

theorem lookup_bal (s : CState) (resp : Msg) (k : Nat) :
    removed k [(lookup s resp).2] + live (lookup s resp).1 k ≤ live s k ∧ inserted k [(lookup s resp).2] = 0 := by
  unfold lookup
  cases hg : aget s.store resp.seq with
  | none => simp [removed, inserted, isRemoval, isInsertion]
  | some p =>
    obtain ⟨at_, m⟩ := p
    dsimp only
    have hst := (updateSeg_store { s with store := adel s.store resp.seq } (track resp m) m).1
    rw [live_of_store_eq hst k, live_adel s k resp.seq]
    have hlr : live s resp.seq = 1 := by unfold live; rw [hg]; rfl
    by_cases e : k = resp.seq
    · subst e
      simp [removed, inserted, isRemoval, isInsertion, hlr]
    · have e' : ¬ (resp.seq = k) := fun h => e h.symm
      simp [removed, inserted, isRemoval, isInsertion, e, e']

theorem place_cs (w : World) (idx : Option Nat) (r : CState × List Obs × Option Task) :
    (place w idx r).1.cs = r.1 ∧ (place w idx r).2 = r.2.1 := by
  unfold place
  cases idx <;> cases r.2.2 <;> exact ⟨rfl, rfl⟩

theorem step_bal (w : World) (e : Ev) (k : Nat) :
    removed k (step w e).2 + live (step w e).1.cs k ≤ inserted k (step w e).2 + live w.cs k := by
  cases e with
  | start op clock =>
    cases op with
    | put m =>
      have hb := taskTurn_bal ⟨⟨clock, w.cs.store.map (·.1)⟩, .store m⟩ clock k w.cs
      have hp := place_cs w none (taskTurn ⟨⟨clock, w.cs.store.map (·.1)⟩, .store m⟩ clock w.cs)
      simp only [step]
      rw [hp.1, hp.2]
      exact hb
    | get resp =>
      have hl := lookup_bal w.cs resp k
      have hb := taskTurn_bal ⟨⟨clock, (lookup w.cs resp).1.store.map (·.1)⟩, .nothing⟩ clock k (lookup w.cs resp).1
      have hp := place_cs w none (taskTurn ⟨⟨clock, (lookup w.cs resp).1.store.map (·.1)⟩, .nothing⟩ clock (lookup w.cs resp).1)
      simp only [step]
      rw [hp.1, hp.2]
      have r1 : ∀ (x : Obs) (l : List Obs), removed k (x :: l) = removed k [x] + removed k l := by
        intro x l; simp [removed, List.countP_cons]; omega
      have r2 : ∀ (x : Obs) (l : List Obs), inserted k (x :: l) = inserted k [x] + inserted k l := by
        intro x l; simp [inserted, List.countP_cons]; omega
      rw [r1, r2]
      omega
  | resume i clock =>
    simp only [step]
    cases hi : w.tasks[i]? with
    | none => simp [removed, inserted]
    | some t =>
      dsimp only
      have hb := taskTurn_bal t clock k w.cs
      have hp := place_cs w (some i) (taskTurn t clock w.cs)
      rw [hp.1, hp.2]
      exact hb
  | cancel i => simp [step, removed, inserted]

theorem removed_append (k : Nat) (a b : List Obs) : removed k (a ++ b) = removed k a + removed k b := by
  simp [removed, List.countP_append]
theorem inserted_append (k : Nat) (a b : List Obs) : inserted k (a ++ b) = inserted k a + inserted k b := by
  simp [inserted, List.countP_append]

/-- over ANY schedule: removals of the request under `k`, plus whether it is still stored, never exceed the times it was
    stored, plus whether it was stored to begin with -/
theorem run_bal (k : Nat) : ∀ (evs : List Ev) (w : World),
    removed k (run w evs).2 + live (run w evs).1.cs k ≤ inserted k (run w evs).2 + live w.cs k
  | [], w => by simp [run, removed, inserted]
  | e :: es, w => by
    have h1 := step_bal w e k
    have h2 := run_bal k es (step w e).1
    unfold run
    dsimp only
    rw [removed_append, inserted_append]
    omega

/-- EXACTLY-ONCE UNDER EVERY INTERLEAVING (safety half): a request that was not stored before and is stored at most
    once leaves the store at most once over the whole run — whichever operations start while others are suspended in
    the send_error hook, in whatever order they are resumed: it is never reported as timed out twice, and never both
    reported and matched by a response. -/
theorem at_most_once (k : Nat) (evs : List Ev) (w : World) (hnew : aget w.cs.store k = none)
    (hput : inserted k (run w evs).2 ≤ 1) : removed k (run w evs).2 ≤ 1 := by
  have h := run_bal k evs w
  have hl : live w.cs k = 0 := by unfold live; rw [hnew]; rfl
  omega

/-- NEVER EARLY, turn level: a request is swept out only by a sweep whose clock value is more than the time-to-live past
    the moment it was stored -/
theorem timeout_never_early (now : Nat) : ∀ (ks : List Nat) (s : CState) (k : Nat) (o : List Out),
    Obs.timeout k o ∈ (sweepTurn now ks s).2.1 → ∃ at_ m, aget s.store k = some (at_, m) ∧ now - at_ > s.ttlResp
  | [], s, k, o, h => by simp [sweepTurn] at h
  | k0 :: ks, s, k, o, h => by
    unfold sweepTurn at h
    cases hg : aget s.store k0 with
    | none => rw [hg] at h; exact timeout_never_early now ks s k o h
    | some p =>
      obtain ⟨at_, m⟩ := p
      rw [hg] at h
      dsimp only at h
      by_cases hexp : now - at_ > s.ttlResp
      · rw [if_pos hexp] at h
        by_cases hno : (expired { s with store := adel s.store k0 } m).2 = []
        · rw [if_pos hno] at h
          dsimp only at h
          rcases List.mem_cons.mp h with h0 | h1
          · simp only [Obs.timeout.injEq] at h0
            obtain ⟨rfl, _⟩ := h0
            exact ⟨at_, m, hg, hexp⟩
          · obtain ⟨a1, m1, hg1, hx1⟩ :=
              timeout_never_early now ks (expired { s with store := adel s.store k0 } m).1 k o h1
            have hst := expired_store { s with store := adel s.store k0 } m
            rw [hst.1] at hg1
            rw [hst.2] at hx1
            exact ⟨a1, m1, aget_adel_some' s.store k0 k (a1, m1) hg1, hx1⟩
        · rw [if_neg hno] at h
          simp only [List.mem_singleton, Obs.timeout.injEq] at h
          obtain ⟨rfl, _⟩ := h
          exact ⟨at_, m, hg, hexp⟩
      · rw [if_neg hexp] at h
        exact timeout_never_early now ks s k o h

/-- NOTHING OVERDUE IS PASSED OVER, turn level: a request of the snapshot that is still stored and overdue when a turn
    starts is either swept out in this turn or is still among the keys the suspended sweep will visit — so when the sweep
    is through, every overdue request of its snapshot has left the store (by it, by another sweep or by a response) -/
theorem overdue_not_skipped (now : Nat) : ∀ (ks : List Nat) (s : CState) (k at_ : Nat) (m : Msg),
    k ∈ ks → aget s.store k = some (at_, m) → now - at_ > s.ttlResp →
    (∃ o, Obs.timeout k o ∈ (sweepTurn now ks s).2.1) ∨
    (∃ rest, (sweepTurn now ks s).2.2 = some rest ∧ k ∈ rest.keys)
  | [], _, _, _, _, hk, _, _ => by cases hk
  | k0 :: ks, s, k, at_, m, hk, hg, hexp => by
    unfold sweepTurn
    by_cases e : k0 = k
    · subst e
      rw [hg]
      dsimp only
      rw [if_pos hexp]
      by_cases hno : (expired { s with store := adel s.store k0 } m).2 = []
      · rw [if_pos hno]
        exact Or.inl ⟨[], by simp⟩
      · rw [if_neg hno]
        exact Or.inl ⟨(expired { s with store := adel s.store k0 } m).2, by simp⟩
    · have hk' : k ∈ ks := by
        rcases List.mem_cons.mp hk with h | h
        · exact absurd h.symm e
        · exact h
      cases hg0 : aget s.store k0 with
      | none => exact overdue_not_skipped now ks s k at_ m hk' hg hexp
      | some p =>
        obtain ⟨a0, m0⟩ := p
        dsimp only
        by_cases hexp0 : now - a0 > s.ttlResp
        · rw [if_pos hexp0]
          by_cases hno : (expired { s with store := adel s.store k0 } m0).2 = []
          · rw [if_pos hno]
            dsimp only
            have hst := expired_store { s with store := adel s.store k0 } m0
            have hg' : aget (expired { s with store := adel s.store k0 } m0).1.store k = some (at_, m) := by
              rw [hst.1]
              show aget (adel s.store k0) k = some (at_, m)
              rw [aget_adel_other s.store k0 k (fun h => e h.symm)]
              exact hg
            have hexp' : now - at_ > (expired { s with store := adel s.store k0 } m0).1.ttlResp := by
              rw [hst.2]; exact hexp
            rcases overdue_not_skipped now ks (expired { s with store := adel s.store k0 } m0).1 k at_ m hk' hg' hexp'
              with ⟨o, ho⟩ | hr
            · exact Or.inl ⟨o, List.mem_cons_of_mem _ ho⟩
            · exact Or.inr hr
          · rw [if_neg hno]
            exact Or.inr ⟨⟨now, ks⟩, rfl, hk'⟩
        · rw [if_neg hexp0]
          exact overdue_not_skipped now ks s k at_ m hk' hg hexp

end SmppVerif.Lemmas.SweepTasks

/-! ### the tier 2 model is the special case without interleaving -/

namespace SmppVerif.Lemmas.SweepTasks
open SmppVerif SmppVerif.Corr SmppVerif.SweepTasks SmppVerif.Lemmas.Corr SmppVerif.Lemmas.Expiry

/-- hook calls of an observation -/
def outsOf : Obs → List Out
  | .timeout _ o => o
  | _ => []

/-- CONTROL IS GIVEN UP ONLY AT A HOOK CALL (1): a turn of a sweep that ends with the sweep through made no hook call -/
theorem turn_through_no_hook (now : Nat) : ∀ (ks : List Nat) (s : CState),
    (sweepTurn now ks s).2.2 = none → ∀ x ∈ (sweepTurn now ks s).2.1, outsOf x = []
  | [], s, _, x, hx => by simp [sweepTurn] at hx
  | k :: ks, s, h, x, hx => by
    unfold sweepTurn at h hx
    cases hg : aget s.store k with
    | none => rw [hg] at h hx; exact turn_through_no_hook now ks s h x hx
    | some p =>
      obtain ⟨at_, m⟩ := p
      rw [hg] at h hx
      dsimp only at h hx
      by_cases hexp : now - at_ > s.ttlResp
      · rw [if_pos hexp] at h hx
        by_cases hno : (expired { s with store := adel s.store k } m).2 = []
        · rw [if_pos hno] at h hx
          dsimp only at h hx
          rcases List.mem_cons.mp hx with h0 | h1
          · rw [h0]; rfl
          · exact turn_through_no_hook now ks _ h x h1
        · rw [if_neg hno] at h
          cases h
      · rw [if_neg hexp] at h hx
        exact turn_through_no_hook now ks s h x hx

/-- CONTROL IS GIVEN UP ONLY AT A HOOK CALL (2): a turn that ends with the sweep suspended ends with a removal that called
    the hook, and nothing before it in the turn did -/
theorem turn_suspended_at_hook (now : Nat) : ∀ (ks : List Nat) (s : CState) (rest : Sweep),
    (sweepTurn now ks s).2.2 = some rest →
    ∃ pre k o, (sweepTurn now ks s).2.1 = pre ++ [Obs.timeout k o] ∧ o ≠ [] ∧ ∀ x ∈ pre, outsOf x = []
  | [], s, rest, h => by simp [sweepTurn] at h
  | k :: ks, s, rest, h => by
    unfold sweepTurn at h ⊢
    cases hg : aget s.store k with
    | none => rw [hg] at h; exact turn_suspended_at_hook now ks s rest h
    | some p =>
      obtain ⟨at_, m⟩ := p
      rw [hg] at h
      dsimp only at h ⊢
      by_cases hexp : now - at_ > s.ttlResp
      · rw [if_pos hexp] at h ⊢
        by_cases hno : (expired { s with store := adel s.store k } m).2 = []
        · rw [if_pos hno] at h ⊢
          dsimp only at h ⊢
          obtain ⟨pre, k1, o1, he, hne, hpre⟩ := turn_suspended_at_hook now ks _ rest h
          refine ⟨Obs.timeout k [] :: pre, k1, o1, ?_, hne, ?_⟩
          · rw [he]; rfl
          · intro x hx
            rcases List.mem_cons.mp hx with h0 | h1
            · rw [h0]; rfl
            · exact hpre x h1
        · rw [if_neg hno]
          exact ⟨[], k, _, rfl, hno, fun x hx => by cases hx⟩
      · rw [if_neg hexp] at h ⊢
        exact turn_suspended_at_hook now ks s rest h

/-- an operation is suspended only in a hook call: if a turn leaves the operation in flight, the turn ended with a removal
    that called the hook (nothing before it in the turn did), and what the operation does after its sweep is unchanged -/
theorem taskTurn_suspended_at_hook (t : Task) (clock : Nat) (s : CState) (t' : Task)
    (h : (taskTurn t clock s).2.2 = some t') :
    (∃ pre k o, (taskTurn t clock s).2.1 = pre ++ [Obs.timeout k o] ∧ o ≠ [] ∧ ∀ x ∈ pre, outsOf x = []) ∧
    t'.after = t.after := by
  have hs := turn_suspended_at_hook t.sweep.now t.sweep.keys s
  unfold taskTurn at h ⊢
  rcases hsw : sweepTurn t.sweep.now t.sweep.keys s with ⟨s1, obs, r⟩
  rw [hsw] at h hs
  cases r with
  | some rest =>
    dsimp only at h ⊢
    cases h
    exact ⟨hs rest rfl, rfl⟩
  | none =>
    cases ha : t.after <;> rw [ha] at h <;> cases h

/-- ... and an operation that is not left in flight is through: a `put` has stored its request with the clock value of
    this turn as the last thing it did; a `get` (its lookup was made before the sweep) called no hook in this turn -/
theorem taskTurn_through (t : Task) (clock : Nat) (s : CState) (h : (taskTurn t clock s).2.2 = none) :
    match t.after with
    | .store m => ∃ pre, (taskTurn t clock s).2.1 = pre ++ [Obs.stored m.seq clock] ∧ ∀ x ∈ pre, outsOf x = []
    | .nothing => ∀ x ∈ (taskTurn t clock s).2.1, outsOf x = [] := by
  have hs := turn_through_no_hook t.sweep.now t.sweep.keys s
  unfold taskTurn at h ⊢
  rcases hsw : sweepTurn t.sweep.now t.sweep.keys s with ⟨s1, obs, r⟩
  rw [hsw] at h hs
  cases r with
  | some rest => cases h
  | none =>
    cases ha : t.after with
    | store m => exact ⟨obs, rfl, hs rfl⟩
    | nothing => exact hs rfl

/-- a sweep resumed at once every time it suspends, until it is through -/
def sweepAll (now : Nat) : Nat → List Nat → CState → CState × List Obs
  | 0, _, s => (s, [])
  | f + 1, ks, s =>
    match sweepTurn now ks s with
    | (s1, obs, some rest) => ((sweepAll now f rest.keys s1).1, obs ++ (sweepAll now f rest.keys s1).2)
    | (s1, obs, none) => (s1, obs)

theorem sweepAll_skip (now f k : Nat) (ks : List Nat) (s : CState)
    (h : sweepTurn now (k :: ks) s = sweepTurn now ks s) :
    sweepAll now (f + 1) (k :: ks) s = sweepAll now (f + 1) ks s := by
  simp only [sweepAll, h]

/-- resumed at once, the turns of a sweep add up to the atomic sweep of the tier 2 model (`sweepStore`, then the cleaning
    of the delivery stores) -/
theorem sweepAll_eq (now : Nat) : ∀ (ks : List Nat) (s : CState) (fuel : Nat), ks.length < fuel →
    (sweepAll now fuel ks s).1 = finish (sweepStore now ks s).1 now ∧
    (sweepAll now fuel ks s).2.flatMap outsOf = (sweepStore now ks s).2
  | [], s, fuel, hf => by
    cases fuel with
    | zero => simp at hf
    | succ f => simp [sweepAll, sweepTurn, sweepStore]
  | k :: ks, s, fuel, hf => by
    cases fuel with
    | zero => simp at hf
    | succ f =>
      have hf' : ks.length < f := by simp at hf; omega
      cases hg : aget s.store k with
      | none =>
        have h1 : sweepTurn now (k :: ks) s = sweepTurn now ks s := by rw [sweepTurn, hg]
        have h2 : sweepStore now (k :: ks) s = sweepStore now ks s := by rw [sweepStore, hg]
        rw [sweepAll_skip now f k ks s h1, h2]
        exact sweepAll_eq now ks s (f + 1) (by omega)
      | some p =>
        obtain ⟨at_, m⟩ := p
        by_cases hexp : now - at_ > s.ttlResp
        · have h2 : sweepStore now (k :: ks) s =
              ((sweepStore now ks (expired { s with store := adel s.store k } m).1).1,
               (expired { s with store := adel s.store k } m).2 ++
                 (sweepStore now ks (expired { s with store := adel s.store k } m).1).2) := by
            rw [sweepStore, hg]; dsimp only; rw [if_pos hexp]
          by_cases hno : (expired { s with store := adel s.store k } m).2 = []
          · -- swept out without a hook call: this turn goes on
            have ih := sweepAll_eq now ks (expired { s with store := adel s.store k } m).1 (f + 1) (by omega)
            have h1 : sweepTurn now (k :: ks) s =
                ((sweepTurn now ks (expired { s with store := adel s.store k } m).1).1,
                 .timeout k [] :: (sweepTurn now ks (expired { s with store := adel s.store k } m).1).2.1,
                 (sweepTurn now ks (expired { s with store := adel s.store k } m).1).2.2) := by
              rw [sweepTurn, hg]; dsimp only; rw [if_pos hexp, if_pos hno]
            have h3 : sweepAll now (f + 1) (k :: ks) s =
                ((sweepAll now (f + 1) ks (expired { s with store := adel s.store k } m).1).1,
                 .timeout k [] :: (sweepAll now (f + 1) ks (expired { s with store := adel s.store k } m).1).2) := by
              simp only [sweepAll, h1]
              rcases sweepTurn now ks (expired { s with store := adel s.store k } m).1 with ⟨q1, q2, q3⟩
              cases q3 <;> rfl
            rw [h3, h2, hno]
            refine ⟨ih.1, ?_⟩
            rw [List.flatMap_cons, ih.2]
            simp [outsOf]
          · have ih := sweepAll_eq now ks (expired { s with store := adel s.store k } m).1 f hf'
            have h1 : sweepTurn now (k :: ks) s =
                ((expired { s with store := adel s.store k } m).1,
                 [.timeout k (expired { s with store := adel s.store k } m).2], some ⟨now, ks⟩) := by
              rw [sweepTurn, hg]; dsimp only; rw [if_pos hexp, if_neg hno]
            simp only [sweepAll, h1, h2]
            refine ⟨ih.1, ?_⟩
            rw [List.flatMap_append, ih.2]
            simp [outsOf]
        · have h1 : sweepTurn now (k :: ks) s = sweepTurn now ks s := by
            rw [sweepTurn, hg]; dsimp only; rw [if_neg hexp]
          have h2 : sweepStore now (k :: ks) s = sweepStore now ks s := by
            rw [sweepStore, hg]; dsimp only; rw [if_neg hexp]
          rw [sweepAll_skip now f k ks s h1, h2]
          exact sweepAll_eq now ks s (f + 1) (by omega)

/-- `_remove_expired()` of the tier 2 model = the sweep of the turn-level model when nobody else runs in between -/
theorem removeExpired_eq_sweepAll (s : CState) (now : Nat) :
    (removeExpired s now).1 = (sweepAll now (s.store.length + 1) (s.store.map (·.1)) s).1 ∧
    (removeExpired s now).2 = (sweepAll now (s.store.length + 1) (s.store.map (·.1)) s).2.flatMap outsOf := by
  have h := sweepAll_eq now (s.store.map (·.1)) s (s.store.length + 1) (by simp)
  unfold removeExpired
  dsimp only
  exact ⟨h.1.symm, h.2.symm⟩

end SmppVerif.Lemmas.SweepTasks
