/- Optional parameters of submit_sm / deliver_sm written by `pdu()` and read back by `from_pdu`:
   every list of conformant parameters round-trips, up to the documented normalisations
   (an unset flag is absent, a Python bool given for an integer parameter reads back as 0 / 1). C03. -/
import SmppVerif.Lemmas.TlvRead

namespace SmppVerif.Lemmas.TlvRound
open SmppVerif SmppVerif.Pdu SmppVerif.Lemmas.Pdu SmppVerif.Lemmas.PduRead SmppVerif.Lemmas.SmRead
  SmppVerif.Lemmas.TlvRead SmppVerif.Lemmas.SpecEncode SmppVerif.Spec.Smpp

/-- tag and value octets a parameter puts on the wire; `none`: nothing is written (an unset flag) -/
def wireOf (t : Tlv) : Option (Nat × List Nat) :=
  match (tagInfo t.tag.toNat).1, t.val with
  | 0, .int v => some (t.tag.toNat, be (tagInfo t.tag.toNat).2 v.toNat)
  | 0, .bool b => some (t.tag.toNat, be (tagInfo t.tag.toNat).2 (if b then 1 else 0))
  | 1, .str s => some (t.tag.toNat, if (tagInfo t.tag.toNat).2 = 1 then s ++ [0] else s)
  | 2, .bool true => some (t.tag.toNat, [])
  | _, _ => none

/-- the parameter as it reads back: itself, except that a bool held for an integer parameter becomes 0 / 1 and an
    unset flag disappears -/
def normal (t : Tlv) : Option Tlv :=
  match (tagInfo t.tag.toNat).1, t.val with
  | 0, .int v => some ⟨t.tag.toNat, .int v.toNat⟩
  | 0, .bool b => some ⟨t.tag.toNat, .int (if b then 1 else 0)⟩
  | 1, .str s => some ⟨t.tag.toNat, .str s⟩
  | 2, .bool true => some ⟨t.tag.toNat, .bool true⟩
  | _, _ => none

/-- a parameter SMPP 3.4 §5.3.2 allows: a two-octet tag other than message_payload, a value of the tag's type
    and width; an octet string (not NUL-terminated on the wire) must not itself end in NUL, which the reader
    strips -/
def TlvOK (t : Tlv) : Prop :=
  0 ≤ t.tag ∧ t.tag < 65536 ∧ t.tag.toNat ≠ Gen.Tlv.messagePayload ∧
  (match (tagInfo t.tag.toNat).1, t.val with
   | 0, .int v => ((tagInfo t.tag.toNat).2 = 1 ∨ (tagInfo t.tag.toNat).2 = 2 ∨ (tagInfo t.tag.toNat).2 = 4) ∧
                  0 ≤ v ∧ v < (256 : Int) ^ (tagInfo t.tag.toNat).2
   | 0, .bool _ => ((tagInfo t.tag.toNat).2 = 1 ∨ (tagInfo t.tag.toNat).2 = 2 ∨ (tagInfo t.tag.toNat).2 = 4)
   | 1, .str s => (∀ c ∈ s, c < 128) ∧ s.length + 1 < 65536 ∧
                  ((tagInfo t.tag.toNat).2 = 1 ∨ s.getLast? ≠ some 0)
   | 2, .bool _ => True
   | _, _ => False)

instance (t : Tlv) : Decidable (TlvOK t) := by
  unfold TlvOK
  refine @instDecidableAnd _ _ _ (@instDecidableAnd _ _ _ (@instDecidableAnd _ _ _ ?_))
  split <;> infer_instance

theorem be2 (x : Nat) (h : x < 65536) : be 2 x = [x / 256, x % 256] := by
  have : x / 256 % 256 = x / 256 := by omega
  simp [be, List.range_succ, this]

theorem tagKind_nat (t : Tlv) (h0 : 0 ≤ t.tag) (h1 : t.tag < 65536) : tagKind t.tag = tagInfo t.tag.toNat := by
  unfold tagKind
  rw [if_pos ⟨h0, h1⟩]

theorem concat3 (a b c : List Nat) : concatM [.ok a, .ok b, .ok c] = .ok (a ++ b ++ c) := by
  have := concatM_oks [a, b, c]
  simpa using this

theorem concat2 (a b : List Nat) : concatM [.ok a, .ok b] = .ok (a ++ b) := by
  have := concatM_oks [a, b]
  simpa using this

theorem encodeBounded_of_lt (s : List Nat) (h : ∀ c ∈ s, c < 128) : encodeBounded 128 .strict s = .ok s := by
  induction s with
  | nil => rfl
  | cons c cs ih =>
    have hc : c < 128 := h c (by simp)
    unfold encodeBounded
    rw [if_pos hc, ih (fun x hx => h x (by simp [hx]))]
    rfl

theorem stripNul_snoc (s : List Nat) : stripNul (s ++ [0]) = s := by
  unfold stripNul
  simp

/-- what `OptionalParam.tlv` writes for a conformant parameter -/
theorem tlvBytes_ok (t : Tlv) (h : TlvOK t) :
    tlvBytes t = .ok (match wireOf t with | some p => tlvWire p.1 p.2 | none => []) := by
  obtain ⟨h0, h1, _, hv⟩ := h
  have hk := tagKind_nat t h0 h1
  have htn : ((t.tag.toNat : Nat) : Int) = t.tag := Int.toNat_of_nonneg h0
  have htl : t.tag.toNat < 65536 := by omega
  have hp2 : packU 2 t.tag = .ok [t.tag.toNat / 256, t.tag.toNat % 256] := by
    rw [← htn, packU_nat_be 2 t.tag.toNat (by simpa using htl), be2 _ htl, htn]
  unfold tlvBytes tlvLength wireOf
  rw [hk]
  obtain ⟨tag, val⟩ := t
  dsimp only at *
  rcases hkk : (tagInfo tag.toNat).1 with _ | _ | _ | k
  · -- integer
    rw [hkk] at hv
    cases val with
    | int v =>
      obtain ⟨hw, hv0, hv1⟩ := hv
      have hwl : (tagInfo tag.toNat).2 < 65536 := by rcases hw with e | e | e <;> rw [e] <;> decide
      have hvn : ((v.toNat : Nat) : Int) = v := Int.toNat_of_nonneg hv0
      have hvl : v.toNat < 256 ^ (tagInfo tag.toNat).2 := toNat_lt_pow _ v hv0 hv1
      simp only [if_true]
      rw [hp2, packU_nat_be 2 _ (by simpa using hwl), be2 _ hwl]
      have : packU (tagInfo tag.toNat).2 v = .ok (be (tagInfo tag.toNat).2 v.toNat) := by
        rw [← hvn, packU_nat_be _ _ hvl, hvn]
      rw [this, concat3]
      have hbl : (be (tagInfo tag.toNat).2 v.toNat).length = (tagInfo tag.toNat).2 := beDigits_length _ _
      simp [tlvWire, hbl]
    | bool b =>
      have hw := hv
      have hwl : (tagInfo tag.toNat).2 < 65536 := by rcases hw with e | e | e <;> rw [e] <;> decide
      have hvl : (if b then 1 else 0 : Nat) < 256 ^ (tagInfo tag.toNat).2 := by
        rcases hw with e | e | e <;> rw [e] <;> cases b <;> decide
      simp only [if_true]
      rw [hp2, packU_nat_be 2 _ (by simpa using hwl), be2 _ hwl]
      have : packU (tagInfo tag.toNat).2 (if b = true then 1 else 0) = .ok (be (tagInfo tag.toNat).2 (if b then 1 else 0)) := by
        have := packU_nat_be (tagInfo tag.toNat).2 (if b then 1 else 0) hvl
        cases b <;> simpa using this
      rw [this, concat3]
      have hbl : (be (tagInfo tag.toNat).2 (if b then 1 else 0)).length = (tagInfo tag.toNat).2 := beDigits_length _ _
      simp [tlvWire, hbl]
    | str s => exact absurd hv (by simp)
  · -- string
    rw [hkk] at hv
    cases val with
    | str s =>
      obtain ⟨ha, hl, _⟩ := hv
      simp only
      rw [encodeBounded_of_lt s ha]
      simp only [Nat.succ_ne_zero, if_false]
      by_cases hc : (tagInfo tag.toNat).2 = 1
      · have hpair : tagInfo tag.toNat = (1, 1) := Prod.ext hkk hc
        rw [if_pos hpair, if_pos hc]
        rw [hp2, packU_nat_be 2 (s.length + 1) (by simpa using hl), be2 _ hl, concat3]
        simp [tlvWire]
      · have hpair : ¬ tagInfo tag.toNat = (1, 1) := fun e => hc (by rw [e])
        rw [if_neg hpair, if_neg hc]
        have hl' : s.length < 65536 := by omega
        rw [hp2, packU_nat_be 2 s.length (by simpa using hl'), be2 _ hl', concat3]
        simp [tlvWire]
    | int v => exact absurd hv (by simp)
    | bool b => exact absurd hv (by simp)
  · -- flag
    rw [hkk] at hv
    cases val with
    | bool b =>
      cases b with
      | true =>
        simp only [Nat.succ_ne_zero, if_false]
        rw [hp2, packU_nat_be 2 0 (by decide), be2 _ (by decide), concat2]
        simp [tlvWire]
      | false => simp
    | int v => exact absurd hv (by simp)
    | str s => exact absurd hv (by simp)
  · rw [hkk] at hv
    exact absurd hv (by simp)

/-- … and the TLV loop reads it back as `normal` says -/
theorem paramOK_of (t : Tlv) (h : TlvOK t) (p : Nat × List Nat) (hw : wireOf t = some p) :
    ∃ t', normal t = some t' ∧ ParamOK p t' := by
  obtain ⟨h0, h1, hmp, hv⟩ := h
  have htl : t.tag.toNat < 65536 := by omega
  obtain ⟨tag, val⟩ := t
  dsimp only at *
  unfold wireOf at hw
  unfold normal
  dsimp only at hw ⊢
  rcases hkk : (tagInfo tag.toNat).1 with _ | _ | _ | k
  · rw [hkk] at hv hw
    cases val with
    | int v =>
      obtain ⟨hwd, hv0, hv1⟩ := hv
      simp only [Option.some.injEq] at hw
      subst hw
      refine ⟨_, rfl, htl, ?_, ?_⟩
      · have : (be (tagInfo tag.toNat).2 v.toNat).length = (tagInfo tag.toNat).2 := beDigits_length _ _
        dsimp only; rw [this]; rcases hwd with e | e | e <;> rw [e] <;> decide
      · have hbl : (be (tagInfo tag.toNat).2 v.toNat).length = (tagInfo tag.toNat).2 := beDigits_length _ _
        have hvl : v.toNat < 256 ^ (tagInfo tag.toNat).2 := toNat_lt_pow _ v hv0 hv1
        unfold TlvRead.readBack
        dsimp only
        rw [if_neg hmp, if_pos hkk, hbl, if_pos hwd, be_eq_beDigits, beVal_beDigits, Nat.mod_eq_of_lt hvl]
    | bool b =>
      have hwd : (tagInfo tag.toNat).2 = 1 ∨ (tagInfo tag.toNat).2 = 2 ∨ (tagInfo tag.toNat).2 = 4 := hv
      simp only [Option.some.injEq] at hw
      subst hw
      have hbl : (be (tagInfo tag.toNat).2 (if b then 1 else 0)).length = (tagInfo tag.toNat).2 := beDigits_length _ _
      have hvl : (if b then 1 else 0 : Nat) < 256 ^ (tagInfo tag.toNat).2 := by
        rcases hwd with e | e | e <;> rw [e] <;> cases b <;> decide
      refine ⟨_, rfl, htl, ?_, ?_⟩
      · dsimp only; rw [hbl]; rcases hwd with e | e | e <;> rw [e] <;> decide
      · unfold TlvRead.readBack
        dsimp only
        rw [if_neg hmp, if_pos hkk, hbl, if_pos hwd, be_eq_beDigits, beVal_beDigits, Nat.mod_eq_of_lt hvl]
        cases b <;> rfl
    | str s => exact absurd hv (by simp)
  · rw [hkk] at hv hw
    cases val with
    | str s =>
      obtain ⟨ha, hl, hz⟩ := hv
      simp only [Option.some.injEq] at hw
      subst hw
      have h10 : ¬ ((1 : Nat) = 0) := by decide
      have h12 : ¬ ((1 : Nat) = 2) := by decide
      by_cases hc : (tagInfo tag.toNat).2 = 1
      · refine ⟨_, rfl, htl, ?_, ?_⟩
        · dsimp only; rw [if_pos hc]; simp; omega
        · unfold TlvRead.readBack
          dsimp only
          rw [if_neg hmp, hkk, if_neg h10, if_neg h12, if_pos hc]
          have : (s ++ [0]).all (· < 128) = true := by
            rw [List.all_eq_true]; intro x hx
            rcases List.mem_append.mp hx with hx | hx
            · simpa using ha x hx
            · simp at hx; subst hx; decide
          rw [if_pos this, stripNul_snoc]
      · have hz' : s.getLast? ≠ some 0 := by
          rcases hz with e | e
          · exact absurd e hc
          · exact e
        refine ⟨_, rfl, htl, ?_, ?_⟩
        · dsimp only; rw [if_neg hc]; omega
        · unfold TlvRead.readBack
          dsimp only
          rw [if_neg hmp, hkk, if_neg h10, if_neg h12, if_neg hc]
          have : s.all (· < 128) = true := by
            rw [List.all_eq_true]; intro x hx; simpa using ha x hx
          rw [if_pos this]
          unfold stripNul
          rw [if_neg hz']
    | int v => exact absurd hv (by simp)
    | bool b => exact absurd hv (by simp)
  · rw [hkk] at hv hw
    cases val with
    | bool b =>
      cases b with
      | true =>
        simp only [Option.some.injEq] at hw
        subst hw
        refine ⟨_, rfl, htl, by simp, ?_⟩
        unfold TlvRead.readBack
        dsimp only
        have h20 : ¬ ((2 : Nat) = 0) := by decide
        rw [if_neg hmp, hkk, if_neg h20, if_pos rfl, if_pos rfl]
      | false => simp at hw
    | int v => exact absurd hv (by simp)
    | str s => exact absurd hv (by simp)
  · rw [hkk] at hv
    exact absurd hv (by simp)

/-- the reader's view of a wire parameter -/
def back (p : Nat × List Nat) : Tlv := (TlvRead.readBack p.1 p.2).getD default

/-- all parameters of a message: what is written is the wire form of those that write anything -/
theorem params_bytes : ∀ (ts : List Tlv), (∀ t ∈ ts, TlvOK t) →
    concatM (ts.map tlvBytes) = .ok (wire (ts.filterMap wireOf))
  | [], _ => rfl
  | t :: ts, h => by
    have ih := params_bytes ts (fun x hx => h x (by simp [hx]))
    have ht := tlvBytes_ok t (h t (by simp))
    simp only [List.map_cons, concatM]
    rw [ht]
    simp only
    rw [ih]
    simp only [Except.map]
    cases hw : wireOf t with
    | none => simp [hw]
    | some p => simp [hw, wire]

theorem params_ok : ∀ (ts : List Tlv), (∀ t ∈ ts, TlvOK t) →
    (∀ p ∈ ts.filterMap wireOf, ParamOK p (back p)) ∧ (ts.filterMap wireOf).map back = ts.filterMap normal
  | [], _ => ⟨fun p hp => (by cases hp), rfl⟩
  | t :: ts, h => by
    obtain ⟨ih1, ih2⟩ := params_ok ts (fun x hx => h x (by simp [hx]))
    have hok := h t (by simp)
    cases hw : wireOf t with
    | none =>
      have hn : normal t = none := by
        unfold wireOf at hw
        unfold normal
        split at hw <;> simp_all
      simp only [List.filterMap_cons, hw, hn]
      exact ⟨ih1, ih2⟩
    | some p =>
      obtain ⟨t', hn, hp⟩ := paramOK_of t hok p hw
      have hb : back p = t' := by unfold back; rw [hp.2.2]; rfl
      simp only [List.filterMap_cons, hw, hn, List.map_cons, hb, ih2]
      refine ⟨?_, trivial⟩
      intro q hq
      rcases List.mem_cons.mp hq with rfl | hq
      · rw [hb]; exact hp
      · exact ih1 q hq

/-- MANDATORY FIELDS, MESSAGE_PAYLOAD AND OPTIONAL PARAMETERS READ BACK: text in a message_payload parameter (short_message
    empty), followed by any list of conformant optional parameters. -/
theorem smFromPdu_payload_params (hd : List Nat) (h16 : hd.length = 16) (h : Header) (dflt enc : Enc)
    (svc : List Nat) (ston snpi : Nat) (snum : List Nat) (dton dnpi : Nat) (dnum : List Nat)
    (esm pid prio : Nat) (sched valid : List Nat) (reg repl dc defId : Nat) (pbytes text : List Nat)
    (thi tlo lhi llo : Nat)
    (schedT validT : Time.TimeObj) (ps : List (Nat × List Nat)) (g : Nat × List Nat → Tlv)
    (hps : ∀ p ∈ ps, ParamOK p (g p))
    (w : FieldsOK svc ston snpi snum dton dnpi dnum sched valid)
    (henc : (if dc = 0 then Except.ok dflt else encOfDataCoding dc) = .ok enc)
    (hdm0 : decodeMessage esm (decodeCodec enc) [] = .ok ([], []))
    (hdm : decodeMessage esm (decodeCodec enc) pbytes = .ok (text, []))
    (htag : thi * 256 + tlo = Gen.Tlv.messagePayload) (hl : lhi * 256 + llo = pbytes.length)
    (hts : Time.fromSmpp sched = .ok schedT) (htv : Time.fromSmpp valid = .ok validT)
    (hsvc : svc.length ≤ 5) (htext : text ≠ [])
    (hlen : h.pduLength = (hd ++ mandatory svc ston snpi snum dton dnpi dnum esm pid prio sched valid reg repl dc defId []
        (thi :: tlo :: lhi :: llo :: (pbytes ++ wire ps))).length) :
    smFromPdu (hd ++ mandatory svc ston snpi snum dton dnpi dnum esm pid prio sched valid reg repl dc defId []
        (thi :: tlo :: lhi :: llo :: (pbytes ++ wire ps))) h dflt =
      .ok { seq := h.seq, status := 0, shortMessage := [],
            source := ⟨snum, ston, snpi⟩, dest := ⟨dnum, dton, dnpi⟩, serviceType := svc,
            esmClass := esm, protocolId := pid, priorityFlag := prio, schedule := schedT, validity := validT,
            registeredDelivery := reg, replaceIfPresent := repl,
            encoding := if enc.name = str Gen.Consts.defaultEncoding then none else some enc,
            smDefaultMsgId := defId, messagePayload := text, optionalParams := ps.map g } := by
  have c0 := cur_start hd (mandatory svc ston snpi snum dton dnpi dnum esm pid prio sched valid reg repl dc defId []
    (thi :: tlo :: lhi :: llo :: (pbytes ++ wire ps)))
  rw [h16] at c0
  generalize hbuf : hd ++ mandatory svc ston snpi snum dton dnpi dnum esm pid prio sched valid reg repl dc defId []
    (thi :: tlo :: lhi :: llo :: (pbytes ++ wire ps)) = buf at *
  unfold mandatory at c0
  simp only [List.nil_append, List.length_nil] at c0
  obtain ⟨r1, c1⟩ := cur_cstr c0 w.svc
  obtain ⟨r2, c2⟩ := cur_int1 c1
  obtain ⟨r3, c3⟩ := cur_int1 c2
  obtain ⟨r4, c4⟩ := cur_cstr c3 w.snum.1
  obtain ⟨r5, c5⟩ := cur_int1 c4
  obtain ⟨r6, c6⟩ := cur_int1 c5
  obtain ⟨r7, c7⟩ := cur_cstr c6 w.dnum.1
  obtain ⟨r8, c8⟩ := cur_int1 c7
  obtain ⟨r9, c9⟩ := cur_int1 c8
  obtain ⟨r10, c10⟩ := cur_int1 c9
  obtain ⟨r11, c11⟩ := cur_cstr c10 w.sched
  obtain ⟨r12, c12⟩ := cur_cstr c11 w.valid
  obtain ⟨r13, c13⟩ := cur_int1 c12
  obtain ⟨r14, c14⟩ := cur_int1 c13
  obtain ⟨r15, c15⟩ := cur_int1 c14
  obtain ⟨r16, c16⟩ := cur_int1 c15
  obtain ⟨r17, c17⟩ := cur_int1 c16
  obtain ⟨t1, c18⟩ := cur_int2 c17
  obtain ⟨t2, c19⟩ := cur_int2 c18
  obtain ⟨hsl, c20⟩ := cur_slice c19
  have hbl : h.pduLength = buf.length := hlen
  have hge : 16 + svc.length + 1 + 1 + 1 + snum.length + 1 + 1 + 1 + dnum.length + 1 + 1 + 1 + 1 + sched.length + 1 +
      valid.length + 1 + 1 + 1 + 1 + 1 + 1 + 2 + 2 + pbytes.length + (wire ps).length = buf.length := by
    obtain ⟨pre, hb, hpl⟩ := c20
    rw [hb, List.length_append, hpl]
  unfold smFromPdu
  simp only [bind, Except.bind, pure, Except.pure]
  rw [r1]; simp only
  rw [r2]; simp only [enumVal, w.ston, if_true]
  rw [r3]; simp only [w.snpi, if_true]
  rw [r4]; simp only [checkLen, w.snum.2, if_true]
  rw [r5]; simp only [w.dton, if_true]
  rw [r6]; simp only [w.dnpi, if_true]
  rw [r7]; simp only [w.dnum.2, if_true]
  rw [r8]; simp only
  rw [r9]; simp only
  rw [r10]; simp only
  rw [r11]; simp only
  rw [r12]; simp only
  rw [r13]; simp only
  rw [r14]; simp only
  rw [r15]; simp only
  rw [henc]; simp only
  rw [r16]; simp only
  rw [r17]; simp only
  have hs0 : slice buf (16 + svc.length + 1 + 1 + 1 + snum.length + 1 + 1 + 1 + dnum.length + 1 + 1 + 1 + 1 + sched.length + 1 +
      valid.length + 1 + 1 + 1 + 1 + 1 + 1) (16 + svc.length + 1 + 1 + 1 + snum.length + 1 + 1 + 1 + dnum.length + 1 + 1 + 1 + 1 + sched.length + 1 +
      valid.length + 1 + 1 + 1 + 1 + 1 + 1 + 0) = [] := by simp [slice]
  rw [hs0, hdm0]; simp only [Nat.add_zero]
  -- message_payload first, then the remaining parameters
  have hlt : 16 + svc.length + 1 + 1 + 1 + snum.length + 1 + 1 + 1 + dnum.length + 1 + 1 + 1 + 1 + sched.length + 1 +
      valid.length + 1 + 1 + 1 + 1 + 1 + 1 < buf.length := by omega
  have hfuel : buf.length + 1 = (buf.length - 1) + 1 + 1 := by omega
  rw [hbl, hfuel]
  rw [tlvLoop]
  rw [if_pos hlt, t1]
  simp only
  rw [t2]
  simp only
  rw [htag, if_pos rfl, hl, hsl, hdm]
  simp only [List.append_nil]
  have hf2 : ps.length < buf.length - 1 + 1 := by
    have := wire_length_ge ps
    omega
  rw [tlvLoop_wire esm (decodeCodec enc) g ps hps buf _ _ text [] c20 hf2]
  simp only
  rw [hts, htv]
  simp only [smValidate]
  have h5 : ¬ svc.length > 5 := by omega
  have hte : text.isEmpty = false := by
    cases text with
    | nil => exact absurd rfl htext
    | cons _ _ => rfl
  simp [h5, hte]

/-! ### the round trip with optional parameters -/

open SmppVerif.Lemmas.SpecEncode SmppVerif.Spec.Smpp in
/-- the specification's field list, flattened, followed by message_payload and the optional parameters -/
theorem layout_eq_mandatory_params (m : Sm) (w : SmWF m) (sm payloadTlv paramBytes ts tv : List Nat) (dc : Nat)
    (hdc : dc < 256) (hsm : sm.length < 256)
    (hts : Time.toSmpp m.schedule = .ok ts) (htv : Time.toSmpp m.validity = .ok tv)
    (hta : (∀ c ∈ ts, c < 128) ∧ (∀ c ∈ tv, c < 128)) :
    smLayout m sm payloadTlv dc paramBytes =
      .ok (mandatory m.serviceType m.source.ton m.source.npi m.source.number m.dest.ton m.dest.npi m.dest.number
        m.esmClass.toNat m.protocolId.toNat m.priorityFlag.toNat ts tv m.registeredDelivery.toNat
        m.replaceIfPresent.toNat dc m.smDefaultMsgId.toNat sm (payloadTlv ++ paramBytes)) := by
  rw [smLayout_eq_spec m w sm payloadTlv paramBytes ts tv dc hdc hsm hts htv hta]
  have b := fun (v : Int) (h : 0 ≤ v ∧ v < 256) => be1' v.toNat (by omega)
  simp only [SmFields.fields, List.flatMap_cons, List.flatMap_nil, Field.bytes, mandatory,
    be1' _ w.source.2.1, be1' _ w.source.2.2, be1' _ w.dest.2.1, be1' _ w.dest.2.2,
    b _ w.esm, b _ w.pid, b _ w.prio, b _ w.reg, b _ w.repl, b _ w.defId, be1' _ hdc, be1' _ hsm]
  simp

/-- field values of a submit_sm / deliver_sm that SMPP 3.4 allows and that can be read back, optional parameters
    included (those that go on the wire: the SAR parameters are withheld while the UDH indicator is set) -/
structure SmRTP (m : Sm) : Prop where
  wf : SpecEncode.SmWF m
  svc : CStrOK m.serviceType ∧ m.serviceType.length ≤ 5
  snum : CStrOK m.source.number ∧ m.source.number.length ≤ 20
  dnum : CStrOK m.dest.number ∧ m.dest.number.length ≤ 20
  ston : enumHas Gen.Enums.ton m.source.ton = true
  snpi : enumHas Gen.Enums.npi m.source.npi = true
  dton : enumHas Gen.Enums.ton m.dest.ton = true
  dnpi : enumHas Gen.Enums.npi m.dest.npi = true
  params : ∀ t ∈ smParams m, TlvOK t

/-- what comes back: the fields on the wire; what is not transmitted takes its default; the optional parameters
    in the order given, normalised -/
def readBackP (m : Sm) (text : List Nat) (schedT validT : Time.TimeObj) (encD : Enc) : Sm :=
  { SmRead.readBack m text [] schedT validT encD with optionalParams := (smParams m).filterMap normal }

set_option maxRecDepth 8000 in
/-- ROUND TRIP of submit_sm / deliver_sm WITH any list of conformant optional parameters, text in short_message. -/
theorem sm_round_trip_short_params (dflt : Enc) (deliver : Bool) (m : Sm) (w : SmRTP m) (bytes : List Nat) (e : Option Enc)
    (sm ts tv text : List Nat) (enc' : Option Enc) (encD : Enc) (dc : Nat) (schedT validT : Time.TimeObj)
    (hp : pdu dflt (if deliver then Msg.deliverSm m else Msg.submitSm m) = .ok (bytes, e))
    (htp : smTextPart dflt m = .ok (sm, [], enc')) (hdcv : smDataCoding enc' = .ok dc) (hdc : dc < 256)
    (hsm : sm.length < 256)
    (hts : Time.toSmpp m.schedule = .ok ts) (htv : Time.toSmpp m.validity = .ok tv)
    (hcs : CStrOK ts ∧ CStrOK tv)
    (hfs : Time.fromSmpp ts = .ok schedT) (hfv : Time.fromSmpp tv = .ok validT)
    (henc : (if dc = 0 then Except.ok dflt else encOfDataCoding dc) = .ok encD)
    (hdm : decodeMessage m.esmClass.toNat (decodeCodec encD) sm = .ok (text, []))
    (htext : text ≠ []) (hst : enumHas Gen.Enums.smppCommandStatus m.status = true) :
    decode bytes dflt = .ok (if deliver then Msg.deliverSm (readBackP m text schedT validT encD)
                             else Msg.submitSm (readBackP m text schedT validT encD)) := by
  have hta : (∀ c ∈ ts, c < 128) ∧ (∀ c ∈ tv, c < 128) :=
    ⟨fun c hc => (hcs.1 c hc).1, fun c hc => (hcs.2 c hc).1⟩
  have hlay := layout_eq_mandatory_params m w.wf sm [] (wire ((smParams m).filterMap wireOf)) ts tv dc hdc hsm hts htv hta
  obtain ⟨hpok, hpmap⟩ := params_ok (smParams m) w.params
  generalize hps : (smParams m).filterMap wireOf = ps at hlay hpok hpmap
  have hbody : smBody dflt m = .ok (mandatory m.serviceType m.source.ton m.source.npi m.source.number m.dest.ton m.dest.npi
      m.dest.number m.esmClass.toNat m.protocolId.toNat m.priorityFlag.toNat ts tv m.registeredDelivery.toNat
      m.replaceIfPresent.toNat dc m.smDefaultMsgId.toNat sm (wire ps), enc') := by
    unfold smBody
    rw [htp]; simp only
    rw [hdcv]; simp only
    rw [params_bytes (smParams m) w.params, hps]
    simp only
    rw [hlay]
    simp
  have key : ∀ wrap : Sm → Msg, (wrap = Msg.submitSm ∨ wrap = Msg.deliverSm) → smPdu dflt wrap m = .ok (bytes, e) →
      decode bytes dflt = .ok (wrap (readBackP m text schedT validT encD)) := by
    intro wrap hwrap hpdu
    unfold smPdu at hpdu
    rw [hbody] at hpdu
    simp only at hpdu
    cases hh : packHeader (16 + (mandatory m.serviceType m.source.ton m.source.npi m.source.number m.dest.ton m.dest.npi
      m.dest.number m.esmClass.toNat m.protocolId.toNat m.priorityFlag.toNat ts tv m.registeredDelivery.toNat
      m.replaceIfPresent.toNat dc m.smDefaultMsgId.toNat sm (wire ps)).length) (wrap m) with
    | error x => rw [hh] at hpdu; cases hpdu
    | ok hd =>
      rw [hh] at hpdu
      simp only [Except.map, Except.ok.injEq, Prod.mk.injEq] at hpdu
      obtain ⟨rfl, _⟩ := hpdu
      have h16 := (packHeader_spec _ _ hd hh).1
      have hs := seq_nonneg_of_packHeader _ _ hd hh
      have hstw : enumHas Gen.Enums.smppCommandStatus (wrap m).status = true := by
        rcases hwrap with rfl | rfl <;> exact hst
      have hph := parseHeader_of_packHeader _ (wrap m) hd (mandatory m.serviceType m.source.ton m.source.npi m.source.number
        m.dest.ton m.dest.npi m.dest.number m.esmClass.toNat m.protocolId.toNat m.priorityFlag.toNat ts tv
        m.registeredDelivery.toNat m.replaceIfPresent.toNat dc m.smDefaultMsgId.toNat sm (wire ps)) hh hstw
      unfold decode
      rw [hph]
      simp only
      have hrd := fun (hdr : Header) (hl : hdr.pduLength = (hd ++ mandatory m.serviceType m.source.ton m.source.npi
          m.source.number m.dest.ton m.dest.npi m.dest.number m.esmClass.toNat m.protocolId.toNat m.priorityFlag.toNat ts tv
          m.registeredDelivery.toNat m.replaceIfPresent.toNat dc m.smDefaultMsgId.toNat sm (wire ps)).length) =>
        smFromPdu_short_params hd h16 hdr dflt encD
          m.serviceType m.source.ton m.source.npi m.source.number m.dest.ton m.dest.npi m.dest.number
          m.esmClass.toNat m.protocolId.toNat m.priorityFlag.toNat ts tv m.registeredDelivery.toNat m.replaceIfPresent.toNat
          dc m.smDefaultMsgId.toNat sm text schedT validT ps back hpok
          ⟨w.svc.1, w.snum, w.dnum, hcs.1, hcs.2, w.ston, w.snpi, w.dton, w.dnpi⟩ henc hdm hfs hfv w.svc.2 htext hl
      have hsq : (((wrap m).seq.toNat : Nat) : Int) = m.seq := by
        rcases hwrap with rfl | rfl <;> exact Int.toNat_of_nonneg hs
      rcases hwrap with rfl | rfl
      · simp only [fromPdu, Msg.command]
        rw [hrd _ (by simp [h16])]
        simp only [Except.map, readBackP, SmRead.readBack, Msg.seq] at hsq ⊢
        rw [hsq, hpmap]
      · simp only [fromPdu, Msg.command]
        rw [hrd _ (by simp [h16])]
        simp only [Except.map, readBackP, SmRead.readBack, Msg.seq] at hsq ⊢
        rw [hsq, hpmap]
  cases deliver with
  | true => exact key Msg.deliverSm (Or.inr rfl) hp
  | false => exact key Msg.submitSm (Or.inl rfl) hp

/-- what comes back when the text travelled in message_payload -/
def readBackPP (m : Sm) (text : List Nat) (schedT validT : Time.TimeObj) (encD : Enc) : Sm :=
  { SmRead.readBack m [] text schedT validT encD with optionalParams := (smParams m).filterMap normal }

set_option maxRecDepth 8000 in
/-- ROUND TRIP of submit_sm / deliver_sm WITH any list of conformant optional parameters, text in message_payload
    (given as payload, or longer than 254 octets and moved there by `pdu()`): the payload parameter comes first on the
    wire, the other parameters follow in the order given. -/
theorem sm_round_trip_payload_params (dflt : Enc) (deliver : Bool) (m : Sm) (w : SmRTP m) (bytes : List Nat) (e : Option Enc)
    (pbytes ts tv text : List Nat) (enc' : Option Enc) (encD : Enc) (dc : Nat) (schedT validT : Time.TimeObj)
    (hp : pdu dflt (if deliver then Msg.deliverSm m else Msg.submitSm m) = .ok (bytes, e))
    (htp : smTextPart dflt m = .ok ([], Gen.Tlv.messagePayload / 256 % 256 :: Gen.Tlv.messagePayload % 256 ::
      pbytes.length / 256 % 256 :: pbytes.length % 256 :: pbytes, enc'))
    (hdcv : smDataCoding enc' = .ok dc) (hdc : dc < 256) (hpl : pbytes.length < 65536)
    (hts : Time.toSmpp m.schedule = .ok ts) (htv : Time.toSmpp m.validity = .ok tv)
    (hcs : CStrOK ts ∧ CStrOK tv)
    (hfs : Time.fromSmpp ts = .ok schedT) (hfv : Time.fromSmpp tv = .ok validT)
    (henc : (if dc = 0 then Except.ok dflt else encOfDataCoding dc) = .ok encD)
    (hdm0 : decodeMessage m.esmClass.toNat (decodeCodec encD) [] = .ok ([], []))
    (hdm : decodeMessage m.esmClass.toNat (decodeCodec encD) pbytes = .ok (text, []))
    (htext : text ≠ []) (hst : enumHas Gen.Enums.smppCommandStatus m.status = true) :
    decode bytes dflt = .ok (if deliver then Msg.deliverSm (readBackPP m text schedT validT encD)
                             else Msg.submitSm (readBackPP m text schedT validT encD)) := by
  have hta : (∀ c ∈ ts, c < 128) ∧ (∀ c ∈ tv, c < 128) :=
    ⟨fun c hc => (hcs.1 c hc).1, fun c hc => (hcs.2 c hc).1⟩
  have hlay := layout_eq_mandatory_params m w.wf [] (Gen.Tlv.messagePayload / 256 % 256 :: Gen.Tlv.messagePayload % 256 ::
    pbytes.length / 256 % 256 :: pbytes.length % 256 :: pbytes) (wire ((smParams m).filterMap wireOf)) ts tv dc hdc (by simp) hts htv hta
  obtain ⟨hpok, hpmap⟩ := params_ok (smParams m) w.params
  generalize hps : (smParams m).filterMap wireOf = ps at hlay hpok hpmap
  have hbody : smBody dflt m = .ok (mandatory m.serviceType m.source.ton m.source.npi m.source.number m.dest.ton m.dest.npi
      m.dest.number m.esmClass.toNat m.protocolId.toNat m.priorityFlag.toNat ts tv m.registeredDelivery.toNat
      m.replaceIfPresent.toNat dc m.smDefaultMsgId.toNat [] (Gen.Tlv.messagePayload / 256 % 256 :: Gen.Tlv.messagePayload % 256 ::
      pbytes.length / 256 % 256 :: pbytes.length % 256 :: (pbytes ++ wire ps)), enc') := by
    unfold smBody
    rw [htp]; simp only
    rw [hdcv]; simp only
    rw [params_bytes (smParams m) w.params, hps]
    simp only
    rw [hlay]
    simp
  have key : ∀ wrap : Sm → Msg, (wrap = Msg.submitSm ∨ wrap = Msg.deliverSm) → smPdu dflt wrap m = .ok (bytes, e) →
      decode bytes dflt = .ok (wrap (readBackPP m text schedT validT encD)) := by
    intro wrap hwrap hpdu
    unfold smPdu at hpdu
    rw [hbody] at hpdu
    simp only at hpdu
    cases hh : packHeader (16 + (mandatory m.serviceType m.source.ton m.source.npi m.source.number m.dest.ton m.dest.npi
      m.dest.number m.esmClass.toNat m.protocolId.toNat m.priorityFlag.toNat ts tv m.registeredDelivery.toNat
      m.replaceIfPresent.toNat dc m.smDefaultMsgId.toNat [] (Gen.Tlv.messagePayload / 256 % 256 :: Gen.Tlv.messagePayload % 256 ::
      pbytes.length / 256 % 256 :: pbytes.length % 256 :: (pbytes ++ wire ps))).length) (wrap m) with
    | error x => rw [hh] at hpdu; cases hpdu
    | ok hd =>
      rw [hh] at hpdu
      simp only [Except.map, Except.ok.injEq, Prod.mk.injEq] at hpdu
      obtain ⟨rfl, _⟩ := hpdu
      have h16 := (packHeader_spec _ _ hd hh).1
      have hs := seq_nonneg_of_packHeader _ _ hd hh
      have hstw : enumHas Gen.Enums.smppCommandStatus (wrap m).status = true := by
        rcases hwrap with rfl | rfl <;> exact hst
      have hph := parseHeader_of_packHeader _ (wrap m) hd (mandatory m.serviceType m.source.ton m.source.npi m.source.number
        m.dest.ton m.dest.npi m.dest.number m.esmClass.toNat m.protocolId.toNat m.priorityFlag.toNat ts tv
        m.registeredDelivery.toNat m.replaceIfPresent.toNat dc m.smDefaultMsgId.toNat [] (Gen.Tlv.messagePayload / 256 % 256 :: Gen.Tlv.messagePayload % 256 ::
      pbytes.length / 256 % 256 :: pbytes.length % 256 :: (pbytes ++ wire ps))) hh hstw
      unfold decode
      rw [hph]
      simp only
      have hrd := fun (hdr : Header) (hl : hdr.pduLength = (hd ++ mandatory m.serviceType m.source.ton m.source.npi
          m.source.number m.dest.ton m.dest.npi m.dest.number m.esmClass.toNat m.protocolId.toNat m.priorityFlag.toNat ts tv
          m.registeredDelivery.toNat m.replaceIfPresent.toNat dc m.smDefaultMsgId.toNat [] (Gen.Tlv.messagePayload / 256 % 256 :: Gen.Tlv.messagePayload % 256 ::
      pbytes.length / 256 % 256 :: pbytes.length % 256 :: (pbytes ++ wire ps))).length) =>
        smFromPdu_payload_params hd h16 hdr dflt encD
          m.serviceType m.source.ton m.source.npi m.source.number m.dest.ton m.dest.npi m.dest.number
          m.esmClass.toNat m.protocolId.toNat m.priorityFlag.toNat ts tv m.registeredDelivery.toNat m.replaceIfPresent.toNat
          dc m.smDefaultMsgId.toNat pbytes text (Gen.Tlv.messagePayload / 256 % 256) (Gen.Tlv.messagePayload % 256)
          (pbytes.length / 256 % 256) (pbytes.length % 256) schedT validT ps back hpok
          ⟨w.svc.1, w.snum, w.dnum, hcs.1, hcs.2, w.ston, w.snpi, w.dton, w.dnpi⟩ henc hdm0 hdm
          (by decide +kernel) (by omega) hfs hfv w.svc.2 htext hl
      have hsq : (((wrap m).seq.toNat : Nat) : Int) = m.seq := by
        rcases hwrap with rfl | rfl <;> exact Int.toNat_of_nonneg hs
      rcases hwrap with rfl | rfl
      · simp only [fromPdu, Msg.command]
        rw [hrd _ (by simp [h16])]
        simp only [Except.map, readBackPP, SmRead.readBack, Msg.seq] at hsq ⊢
        rw [hsq, hpmap]
      · simp only [fromPdu, Msg.command]
        rw [hrd _ (by simp [h16])]
        simp only [Except.map, readBackPP, SmRead.readBack, Msg.seq] at hsq ⊢
        rw [hsq, hpmap]
  cases deliver with
  | true => exact key Msg.deliverSm (Or.inr rfl) hp
  | false => exact key Msg.submitSm (Or.inl rfl) hp

set_option maxRecDepth 8000 in
/-- … with no codec hypothesis left: default alphabet GSM 03.38, automatic encoding, text in short_message, any list
    of conformant optional parameters. -/
theorem sm_round_trip_gsm_params (deliver : Bool) (m : Sm) (w : SmRTP m) (bytes : List Nat) (e : Option Enc)
    (hp : pdu encGsm (if deliver then Msg.deliverSm m else Msg.submitSm m) = .ok (bytes, e))
    (henc : m.encoding = none) (hpre : m.encoded = []) (hpay : m.messagePayload = [])
    (heh : m.errorHandling = .mode .strict)
    (htext : Gsm.isGsmText m.shortMessage = true) (hne : m.shortMessage ≠ [])
    (hlen : ∀ b, Gsm.encode .strict m.shortMessage = .ok b → b.length ≤ 254)
    (hudhi : m.esmClass.toNat % 128 < 64)
    (htime : m.schedule = .none ∧ m.validity = .none)
    (hst : enumHas Gen.Enums.smppCommandStatus m.status = true) :
    decode bytes encGsm = .ok (if deliver then Msg.deliverSm (readBackP m m.shortMessage .none .none encGsm)
                               else Msg.submitSm (readBackP m m.shortMessage .none .none encGsm)) := by
  obtain ⟨b, hb, hd, _⟩ := Lemmas.Gsm.decode_encode m.shortMessage htext
  have hbl := hlen b hb
  have hsne : m.shortMessage.isEmpty = false := by
    cases hm : m.shortMessage with
    | nil => exact absurd hm hne
    | cons _ _ => rfl
  have htp : smTextPart encGsm m = .ok (b, [], none) := by
    unfold smTextPart
    rw [hpre]
    simp only [List.isEmpty_nil, if_true, hsne, Bool.false_eq_true, if_false]
    unfold smppEncode
    rw [henc]
    simp only [if_true, encGsm, codecEncode, heh, hb]
    have h1 : ¬ (b.length > 254 ∧ ¬ false = true ∧ ¬ m.autoPayload = true) := by omega
    rw [hpay]
    simp only [List.isEmpty_nil]
    rw [if_neg (by omega), if_neg (by simp; omega)]
  have hcodec : decodeCodec encGsm = Codec.gsm := by decide
  have hdm : decodeMessage m.esmClass.toNat (decodeCodec encGsm) b = .ok (m.shortMessage, []) := by
    rw [hcodec]
    unfold decodeMessage
    rw [if_neg (by omega)]
    simp only [codecDecode, hd, Except.map]
  have hnil : CStrOK ([] : List Nat) := by intro c hc; simp at hc
  have hcs : CStrOK ([] : List Nat) ∧ CStrOK ([] : List Nat) := ⟨hnil, hnil⟩
  exact sm_round_trip_short_params encGsm deliver m w bytes e b [] [] m.shortMessage none encGsm 0 .none .none hp htp rfl
    (by decide) (by omega) (by rw [htime.1]; rfl) (by rw [htime.2]; rfl)
    hcs rfl rfl rfl hdm hne hst

set_option maxRecDepth 8000 in
/-- … and with the text in message_payload (up to 65535 octets). -/
theorem sm_round_trip_gsm_payload_params (deliver : Bool) (m : Sm) (w : SmRTP m) (bytes : List Nat) (e : Option Enc)
    (hp : pdu encGsm (if deliver then Msg.deliverSm m else Msg.submitSm m) = .ok (bytes, e))
    (henc : m.encoding = none) (hpre : m.encoded = []) (hshort : m.shortMessage = [])
    (heh : m.errorHandling = .mode .strict)
    (htext : Gsm.isGsmText m.messagePayload = true) (hne : m.messagePayload ≠ [])
    (hlen : ∀ b, Gsm.encode .strict m.messagePayload = .ok b → b.length < 65536)
    (hudhi : m.esmClass.toNat % 128 < 64)
    (htime : m.schedule = .none ∧ m.validity = .none)
    (hst : enumHas Gen.Enums.smppCommandStatus m.status = true) :
    decode bytes encGsm = .ok (if deliver then Msg.deliverSm (readBackPP m m.messagePayload .none .none encGsm)
                               else Msg.submitSm (readBackPP m m.messagePayload .none .none encGsm)) := by
  obtain ⟨b, hb, hd, _⟩ := Lemmas.Gsm.decode_encode m.messagePayload htext
  have hbl := hlen b hb
  have hpne : m.messagePayload.isEmpty = false := by
    cases hm : m.messagePayload with
    | nil => exact absurd hm hne
    | cons _ _ => rfl
  have htp : smTextPart encGsm m = .ok ([], Gen.Tlv.messagePayload / 256 % 256 :: Gen.Tlv.messagePayload % 256 ::
      b.length / 256 % 256 :: b.length % 256 :: b, none) := by
    unfold smTextPart
    rw [hpre, hshort]
    simp only [List.isEmpty_nil, if_true]
    unfold smppEncode
    rw [henc]
    simp only [if_true, encGsm, codecEncode, heh, hb]
    rw [if_neg (by simp), if_pos (Or.inr (by simp [hpne])), payloadTlv_form b hbl]
  have hcodec : decodeCodec encGsm = Codec.gsm := by decide
  have hdm : decodeMessage m.esmClass.toNat (decodeCodec encGsm) b = .ok (m.messagePayload, []) := by
    rw [hcodec]
    unfold decodeMessage
    rw [if_neg (by omega)]
    simp only [codecDecode, hd, Except.map]
  have hdm0 : decodeMessage m.esmClass.toNat (decodeCodec encGsm) [] = .ok ([], []) := by
    rw [hcodec]
    unfold decodeMessage
    rw [if_neg (by omega)]
    rfl
  have hnil : CStrOK ([] : List Nat) := by intro c hc; simp at hc
  exact sm_round_trip_payload_params encGsm deliver m w bytes e b [] [] m.messagePayload none encGsm 0 .none .none hp htp rfl
    (by decide) hbl (by rw [htime.1]; rfl) (by rw [htime.2]; rfl) ⟨hnil, hnil⟩ rfl rfl rfl hdm0 hdm hne hst

/-- non-vacuity: parameters of all four shapes are conformant — a one-octet integer, a NUL-terminated string, an octet
    string, a flag (set and unset) -/
example : TlvOK ⟨0x0204, .int 513⟩ ∧ TlvOK ⟨0x001D, .str [104, 105]⟩ ∧ TlvOK ⟨0x001E, .str [49, 50]⟩ ∧
    TlvOK ⟨0x130C, .bool true⟩ ∧ TlvOK ⟨0x130C, .bool false⟩ ∧ TlvOK ⟨0x0005, .bool true⟩ := by
  decide +kernel

end SmppVerif.Lemmas.TlvRound
