/- Round trip of the JSON model over the regenerated class shapes (C12). -/
import SmppVerif.Lemmas.JsonIso

namespace SmppVerif.Lemmas.Json
open SmppVerif SmppVerif.Time SmppVerif.Json SmppVerif.Lemmas.JsonIso

/-- enum class of the i-th PhoneNumber field -/
def phoneEnum (i : Nat) : String :=
  match (Gen.Shape.phoneFields.getD i ("", .other)).2 with
  | .enum e => e
  | _ => ""

/-- the values a field of a declared type can hold (SMPP-independent: Python-level typing,
    datetimes the constructor accepts, normalised timedeltas, enum members) -/
def KindWF : Kind → PyVal → Prop
  | .int, .int _ => True
  | .str, .str _ => True
  | .bool, .bool _ => True
  | .optStr, .none => True
  | .optStr, .str _ => True
  | .optInt, .none => True
  | .optInt, .int _ => True
  | .enum e, .enum v => isMember e v = true
  | .phone, .phone _ t p => isMember (phoneEnum 1) t = true ∧ isMember (phoneEnum 2) p = true
  | .time, .none => True
  | .time, .dt d => IsoWF d
  | .time, .td t => TdWF t
  | .params, .params _ => True
  | _, _ => False

/-- does the expression `from_json` passes for a field restore a value of the field's type
    from the key `_json_default` wrote it under? -/
def convFits (f : Field) : Conv → Bool
  | .key k => k = f.name && (f.kind = .int || f.kind = .str || f.kind = .bool || f.kind = .optStr || f.kind = .optInt)
  | .enum e k => k = f.name && f.kind = .enum e
  | .phone k kn kt kp et ep =>
    k = f.name && f.kind = .phone && kn = phoneKey 0 && kt = phoneKey 1 && kp = phoneKey 2
      && et = phoneEnum 1 && ep = phoneEnum 2
  | .time k => k = f.name && f.kind = .time
  | .params k kt kv => k = f.name && f.kind = .params && kt = paramKey 0 && kv = paramKey 1
  | .unknown => false

theorem phoneKeys_distinct : phoneKey 0 ≠ phoneKey 1 ∧ phoneKey 0 ≠ phoneKey 2 ∧ phoneKey 1 ≠ phoneKey 2 := by decide +kernel
theorem paramKeys_distinct : paramKey 0 ≠ paramKey 1 := by decide +kernel

theorem jget_cons_self {α} (k : String) (x : α) (r : List (String × α)) : jget ((k, x) :: r) k = some x := by
  simp [jget]

theorem jget_cons_ne {α} (k k' : String) (x : α) (r : List (String × α)) (h : k' ≠ k) :
    jget ((k', x) :: r) k = jget r k := by
  simp [jget, List.find?_cons, h]

theorem enumOf_int (e : String) (v : Int) (h : isMember e v = true) : enumOf e (.int v) = .ok v := by
  simp [enumOf, h]

theorem leafToPVal_pval (v : PVal) : leafToPVal (pvalToJson v) = .ok v := by
  cases v <;> rfl

theorem mapM_ok {α β : Type} (f : α → Except Exc β) (g : α → β) :
    ∀ l : List α, (∀ a ∈ l, f a = .ok (g a)) → l.mapM f = .ok (l.map g)
  | [], _ => rfl
  | a :: l, h => by
    rw [List.mapM_cons, h a (by simp), mapM_ok f g l (fun b hb => h b (by simp [hb]))]
    rfl

theorem mapM_map_ok {α β : Type} (enc : α → β) (f : β → Except Exc α) (h : ∀ a, f (enc a) = .ok a) :
    ∀ l : List α, (l.map enc).mapM f = .ok l
  | [] => rfl
  | a :: l => by
    rw [List.map_cons, List.mapM_cons, h a, mapM_map_ok enc f h l]
    rfl

theorem paramOf_ok (tv : Int × PVal) :
    paramOf (paramKey 0) (paramKey 1) [(paramKey 0, .int tv.1), (paramKey 1, pvalToJson tv.2)] = .ok tv := by
  unfold paramOf
  rw [jget_cons_self, jget_cons_ne _ _ _ _ paramKeys_distinct, jget_cons_self]
  simp only [leafToPVal_pval]
  rfl

theorem conv_key (j : JTop) (f : Field) (v : PyVal)
    (hk : f.kind = .int ∨ f.kind = .str ∨ f.kind = .bool ∨ f.kind = .optStr ∨ f.kind = .optInt)
    (hwf : KindWF f.kind v) (hget : jget j f.name = some (valToJson v)) :
    applyConv j (.key f.name) = .ok v := by
  simp only [applyConv, hget]
  rcases hk with hk | hk | hk | hk | hk <;> rw [hk] at hwf <;> cases v <;> simp only [KindWF] at hwf <;> rfl

theorem conv_enum (j : JTop) (f : Field) (e : String) (v : PyVal) (hk : f.kind = .enum e)
    (hwf : KindWF f.kind v) (hget : jget j f.name = some (valToJson v)) :
    applyConv j (.enum e f.name) = .ok v := by
  simp only [applyConv, hget]
  rw [hk] at hwf
  cases v <;> simp only [KindWF] at hwf
  rename_i x
  simp only [valToJson, enumOf_int e x hwf]
  rfl

theorem conv_phone (j : JTop) (f : Field) (v : PyVal) (hk : f.kind = .phone)
    (hwf : KindWF f.kind v) (hget : jget j f.name = some (valToJson v)) :
    applyConv j (.phone f.name (phoneKey 0) (phoneKey 1) (phoneKey 2) (phoneEnum 1) (phoneEnum 2)) = .ok v := by
  simp only [applyConv, hget]
  rw [hk] at hwf
  cases v <;> simp only [KindWF] at hwf
  rename_i n t p
  obtain ⟨d01, d02, d12⟩ := phoneKeys_distinct
  simp only [valToJson]
  rw [jget_cons_self, jget_cons_ne _ _ _ _ d01, jget_cons_self, jget_cons_ne _ _ _ _ d02,
    jget_cons_ne _ _ _ _ d12, jget_cons_self]
  simp only [enumOf_int _ _ hwf.1, enumOf_int _ _ hwf.2]

theorem conv_time (j : JTop) (f : Field) (v : PyVal) (hk : f.kind = .time)
    (hwf : KindWF f.kind v) (hget : jget j f.name = some (valToJson v)) :
    applyConv j (.time f.name) = .ok v := by
  simp only [applyConv, hget]
  rw [hk] at hwf
  cases v <;> simp only [KindWF] at hwf
  · rfl
  · rename_i d
    simp only [valToJson, fromIso_iso d hwf]; rfl
  · rename_i t
    simp only [valToJson, td_round_trip t hwf]

theorem conv_params (j : JTop) (f : Field) (v : PyVal) (hk : f.kind = .params)
    (hwf : KindWF f.kind v) (hget : jget j f.name = some (valToJson v)) :
    applyConv j (.params f.name (paramKey 0) (paramKey 1)) = .ok v := by
  simp only [applyConv, hget]
  rw [hk] at hwf
  cases v <;> simp only [KindWF] at hwf
  rename_i l
  simp only [valToJson]
  cases l with
  | nil => rfl
  | cons a l =>
    have hm := mapM_map_ok (fun tv : Int × PVal => [(paramKey 0, JLeaf.int tv.1), (paramKey 1, pvalToJson tv.2)])
      (paramOf (paramKey 0) (paramKey 1)) paramOf_ok (a :: l)
    simp only [falsy, List.map_cons, List.isEmpty_cons, Bool.false_eq_true, if_false]
    rw [List.map_cons] at hm
    rw [hm]
    rfl

theorem applyConv_ok (j : JTop) (f : Field) (conv : Conv) (v : PyVal)
    (hfit : convFits f conv = true) (hwf : KindWF f.kind v) (hget : jget j f.name = some (valToJson v)) :
    applyConv j conv = .ok v := by
  cases conv with
  | key k =>
    simp only [convFits, Bool.and_eq_true, Bool.or_eq_true, decide_eq_true_eq] at hfit
    obtain ⟨rfl, hk⟩ := hfit
    exact conv_key j f v (by
      rcases hk with (((hk | hk) | hk) | hk) | hk
      · exact Or.inl hk
      · exact Or.inr (Or.inl hk)
      · exact Or.inr (Or.inr (Or.inl hk))
      · exact Or.inr (Or.inr (Or.inr (Or.inl hk)))
      · exact Or.inr (Or.inr (Or.inr (Or.inr hk)))) hwf hget
  | enum e k =>
    simp only [convFits, Bool.and_eq_true, decide_eq_true_eq] at hfit
    obtain ⟨rfl, hk⟩ := hfit
    exact conv_enum j f e v hk hwf hget
  | phone k kn kt kp et ep =>
    simp only [convFits, Bool.and_eq_true, decide_eq_true_eq] at hfit
    obtain ⟨⟨⟨⟨⟨⟨rfl, hk⟩, rfl⟩, rfl⟩, rfl⟩, rfl⟩, rfl⟩ := hfit
    exact conv_phone j f v hk hwf hget
  | time k =>
    simp only [convFits, Bool.and_eq_true, decide_eq_true_eq] at hfit
    obtain ⟨rfl, hk⟩ := hfit
    exact conv_time j f v hk hwf hget
  | params k kt kv =>
    simp only [convFits, Bool.and_eq_true, decide_eq_true_eq] at hfit
    obtain ⟨⟨⟨rfl, hk⟩, rfl⟩, rfl⟩ := hfit
    exact conv_params j f v hk hwf hget
  | unknown => simp [convFits] at hfit

/-! ### whole objects -/

/-- attributes of an object of class `c` holding the values `vs` -/
def attrsOf (fs : List Field) (vs : List PyVal) : List (String × PyVal) :=
  (List.zip fs vs).map fun p => (p.1.name, p.2)

/-- a field value is admissible: of the declared type, and — when `from_json` does not pass the
    argument at all — equal to the constructor default -/
def FieldOK (c : ClassInfo) (f : Field) (v : PyVal) : Prop :=
  KindWF f.kind v ∧ (jget c.recipe f.name = none → f.dflt = some v)

/-- per-class facts about the regenerated shape, all decidable -/
def classOK (c : ClassInfo) : Bool :=
  !(codes c.command).isEmpty
  && (Gen.Enums.smppCommand.find? (fun p => codes p.1 = codes c.command)).map (·.1) = some c.command
  && jget Gen.Shape.typeMap c.command = some c.name
  && findClass c.name = some c
  && decide (c.fields.map (·.name)).Nodup
  && c.fields.all (fun f => !isPrivate f.name && f.name != Gen.Shape.typeKeyWritten
        && (match jget c.recipe f.name with | some conv => convFits f conv | none => true))

theorem jget_attrs (g : PyVal → JVal) : ∀ (fs : List Field) (vs : List PyVal), (fs.map (·.name)).Nodup →
    ∀ p ∈ List.zip fs vs, jget ((attrsOf fs vs).map fun kv => (kv.1, g kv.2)) p.1.name = some (g p.2)
  | [], _, _, p, hp => by simp at hp
  | _ :: _, [], _, p, hp => by simp at hp
  | f :: fs, v :: vs, hnd, p, hp => by
    rw [List.map_cons, List.nodup_cons] at hnd
    rw [List.zip_cons_cons, List.mem_cons] at hp
    unfold attrsOf
    rw [List.zip_cons_cons, List.map_cons, List.map_cons]
    rcases hp with rfl | hp
    · exact jget_cons_self _ _ _
    · have hne : f.name ≠ p.1.name := by
        intro e
        apply hnd.1
        rw [e]
        exact List.mem_map_of_mem (List.of_mem_zip hp).1
      rw [jget_cons_ne _ _ _ _ hne]
      exact jget_attrs g fs vs hnd.2 p hp

theorem build_all (c : ClassInfo) (j : JTop) : ∀ (fs : List Field) (vs : List PyVal), fs.length = vs.length →
    (∀ p ∈ List.zip fs vs, buildField c j p.1 = .ok (p.1.name, p.2)) →
    fs.mapM (buildField c j) = .ok (attrsOf fs vs)
  | [], [], _, _ => rfl
  | [], _ :: _, h, _ => by simp at h
  | _ :: _, [], h, _ => by simp at h
  | f :: fs, v :: vs, h, hb => by
    have h1 := hb (f, v) (by simp)
    have h2 := build_all c j fs vs (by simpa using h) (fun p hp => hb p (by simp [hp]))
    rw [List.mapM_cons, h1, h2]
    rfl

theorem filter_public (fs : List Field) (vs : List PyVal) (h : ∀ f ∈ fs, isPrivate f.name = false) :
    (attrsOf fs vs).filter (fun kv => !isPrivate kv.1) = attrsOf fs vs := by
  rw [List.filter_eq_self]
  intro kv hkv
  unfold attrsOf at hkv
  rw [List.mem_map] at hkv
  obtain ⟨p, hp, rfl⟩ := hkv
  simp [h p.1 (List.of_mem_zip hp).1]

/-- Round trip of one class: if the shape passes `classOK`, every object of the class whose
    values are admissible comes back from `fromJson (toJson o)` unchanged. -/
theorem class_round_trip (c : ClassInfo) (hc : classOK c = true) (hkey : Gen.Shape.typeKeyWritten = Gen.Shape.typeKeyRead)
    (vs : List PyVal) (hlen : c.fields.length = vs.length)
    (hv : ∀ p ∈ List.zip c.fields vs, FieldOK c p.1 p.2) :
    (toJson ⟨c.name, attrsOf c.fields vs⟩).bind fromJson = .ok ⟨c.name, attrsOf c.fields vs⟩ := by
  simp only [classOK, Bool.and_eq_true, decide_eq_true_eq, Bool.not_eq_true', List.all_eq_true, bne_iff_ne, ne_eq] at hc
  obtain ⟨⟨⟨⟨⟨hne, hcmd⟩, htm⟩, hfc⟩, hnd⟩, hf⟩ := hc
  have hpub : ∀ f ∈ c.fields, isPrivate f.name = false := fun f hf' => (hf f hf').1.1
  have hj : toJson ⟨c.name, attrsOf c.fields vs⟩ =
      .ok ((Gen.Shape.typeKeyWritten, .leaf (.str (codes c.command))) ::
        (attrsOf c.fields vs).map fun kv => (kv.1, valToJson kv.2)) := by
    unfold toJson
    simp only [hfc]
    split
    · rw [filter_public c.fields vs hpub]
    · rfl
  rw [hj]
  simp only [Except.bind]
  unfold fromJson
  rw [← hkey, jget_cons_self]
  simp only [hne, Bool.false_eq_true, if_false]
  obtain ⟨p, hp, hp1⟩ := Option.map_eq_some_iff.mp hcmd
  rw [hp]
  obtain ⟨cn, num⟩ := p
  simp only at hp1
  subst hp1
  simp only [htm, hfc]
  rw [build_all c _ c.fields vs hlen]
  · rfl
  · intro p hp
    obtain ⟨hwf, hdf⟩ := hv p hp
    have hmem := (List.of_mem_zip hp).1
    obtain ⟨⟨_, hnk⟩, hrec⟩ := hf p.1 hmem
    have hget : jget ((Gen.Shape.typeKeyWritten, JVal.leaf (.str (codes c.command))) ::
        (attrsOf c.fields vs).map fun kv => (kv.1, valToJson kv.2)) p.1.name = some (valToJson p.2) := by
      rw [jget_cons_ne _ _ _ _ (fun e => hnk e.symm)]
      exact jget_attrs valToJson c.fields vs hnd p hp
    unfold buildField
    cases hr : jget c.recipe p.1.name with
    | none =>
      simp only
      rw [hdf hr]
    | some conv =>
      simp only
      rw [hr] at hrec
      rw [applyConv_ok _ p.1 conv p.2 hrec hwf hget]
      rfl

end SmppVerif.Lemmas.Json
