/- The Receiver over a stream (C05): a stream made of PDUs with recognised headers is handled PDU by PDU, in order,
   whatever their bodies are; nothing in it ends the loop. -/
import SmppVerif.Lemmas.Classes
import SmppVerif.Model.ReceiveLoop

namespace SmppVerif.Lemmas.ReceiveLoop
open SmppVerif SmppVerif.Pdu SmppVerif.Receiver SmppVerif.ReceiveLoop SmppVerif.Lemmas.Classes

/-- no codec outside the model is involved in reading this PDU -/
def InModel (dflt : Enc) (p : List Nat) : Prop :=
  ∀ hd, parseBody p hd dflt ≠ .error .runtimeError ∧ fromPdu p hd dflt ≠ .error .runtimeError

/-- a PDU as the peer frames it: a header the library recognises whose command_length is the length of the PDU -/
structure Framed (dflt : Enc) (p : List Nat) : Prop where
  len : 16 ≤ p.length
  hdr : ∃ hd, parseHeader (p.take 16) = .ok hd ∧ hd.pduLength = p.length
  inModel : InModel dflt p

/-- with a recognised header nothing leaves the loop -/
theorem receive_not_escape (p : List Nat) (dflt : Enc) (hd : Header) (hh : parseHeader (p.take 16) = .ok hd)
    (hop : InModel dflt p) (e : Exc) : receive p dflt ≠ .escape e := by
  unfold receive
  rw [hh]
  dsimp only
  cases hr : responseOf hd.command with
  | some rc =>
    dsimp only
    split
    · intro h; cases h
    · split
      · rename_i e' he
        have hc := safe_parseBody p hd dflt e' he
        have hne : e' ≠ .runtimeError := fun h => (hop hd).1 (h ▸ he)
        rw [(caught_by_handlers e' hc hne).1]
        intro h; cases h
      · intro h; cases h
  | none =>
    dsimp only
    split
    · intro h; cases h
    · split
      · rename_i e' he
        have hc := safe_fromPdu p hd dflt e' he
        have hne : e' ≠ .runtimeError := fun h => (hop hd).2 (h ▸ he)
        rw [(caught_by_handlers e' hc hne).2]
        intro h; cases h
      · intro h; cases h

theorem getPdu_framed (dflt : Enc) (p rest : List Nat) (h : Framed dflt p) : getPdu (p ++ rest) = .pdu p rest := by
  obtain ⟨hd, hh, hl⟩ := h.hdr
  have h16 := h.len
  unfold getPdu
  have h1 : ¬ (p ++ rest).length < 16 := by simp; omega
  rw [if_neg h1]
  have ht : (p ++ rest).take 16 = p.take 16 := List.take_append_of_le_length h16
  rw [ht, hh]
  dsimp only
  rw [if_neg (by omega), if_neg (by simp; omega), hl]
  simp

/-- A STREAM OF PDUs IS HANDLED PDU BY PDU: for every list of framed PDUs (recognised header, any body) none of which is
    an unbind request, followed by an incomplete remainder, the Receiver's actions are the per-PDU actions in order —
    what one PDU contains has no effect on how the following ones are read and answered. -/
theorem receiveLoop_pdus (dflt : Enc) : ∀ (pdus : List (List Nat)) (fuel : Nat) (tail : List Nat),
    pdus.length < fuel → (∀ p ∈ pdus, Framed dflt p ∧ isUnbind p = false) → getPdu tail = .wait →
    receiveLoop dflt fuel (pdus.flatten ++ tail) = pdus.map (fun p => receive p dflt)
  | [], fuel, tail, hf, _, ht => by
    cases fuel with
    | zero => simp at hf
    | succ f => simp [receiveLoop, ht]
  | p :: ps, fuel, tail, hf, hw, ht => by
    cases fuel with
    | zero => simp at hf
    | succ f =>
      obtain ⟨hfr, hub⟩ := hw p (by simp)
      have ih := receiveLoop_pdus dflt ps f tail (by simp at hf; omega) (fun q hq => hw q (by simp [hq])) ht
      obtain ⟨hd, hh, _⟩ := hfr.hdr
      have hne := receive_not_escape p dflt hd hh hfr.inModel
      rw [List.flatten_cons, List.append_assoc, receiveLoop, getPdu_framed dflt p _ hfr]
      dsimp only
      cases hr : receive p dflt with
      | escape e => exact absurd hr (hne e)
      | respond c st sq => simp only [hub, Bool.false_eq_true, if_false, List.map_cons, hr, ih]
      | ignore => simp only [hub, Bool.false_eq_true, if_false, List.map_cons, hr, ih]

/-- … and none of these actions is an escape: the loop is still running after the last of them -/
theorem receiveLoop_no_escape (dflt : Enc) (pdus : List (List Nat)) (fuel : Nat) (tail : List Nat)
    (hf : pdus.length < fuel) (hw : ∀ p ∈ pdus, Framed dflt p ∧ isUnbind p = false) (ht : getPdu tail = .wait) :
    ∀ a ∈ receiveLoop dflt fuel (pdus.flatten ++ tail), ∀ e, a ≠ .escape e := by
  rw [receiveLoop_pdus dflt pdus fuel tail hf hw ht]
  intro a ha e
  obtain ⟨p, hp, rfl⟩ := List.mem_map.mp ha
  obtain ⟨hd, hh, _⟩ := (hw p hp).1.hdr
  exact receive_not_escape p dflt hd hh (hw p hp).1.inModel e

end SmppVerif.Lemmas.ReceiveLoop
