/- C04: the generated tables of the code equal the hand-transcribed SMPP 3.4 tables. -/
import SmppVerif.Model.Pdu
import SmppVerif.Spec.Smpp34

namespace SmppVerif.Lemmas.SpecTables
open SmppVerif SmppVerif.Pdu SmppVerif.Spec.Smpp

/-- code (`tag_data_type`, `OptionalParam.length`) and specification agree on one tag -/
def agree (tag : Nat) : Bool :=
  match tagInfo tag, kindOf tag with
  | (0, w), .int w' => w = w'
  | (1, 1), .cstr => true
  | (1, 0), .octets => tag ≠ 0x0424
  | (3, _), .octets => tag = 0x0424
  | (2, 0), .flag => true
  | _, _ => false

theorem listed_agree : ∀ p ∈ tlvTable, agree p.1 = true := by decide +kernel

theorem special_runs_agree : ∀ r ∈ Gen.Tlv.runs, (r.2.2.1, r.2.2.2) ≠ (1, 0) →
    ∀ t ∈ List.range' r.1 r.2.1, agree t = true := by decide +kernel

theorem payload_listed : (0x0424, ValKind.octets) ∈ tlvTable := by decide

/-- Every one of the 65,536 tags: the type and width the code assigns equal those of
    SMPP 3.4 §5.3.2 (unlisted tags are octet strings on both sides). -/
theorem tlv_table_eq_spec (tag : Nat) : agree tag = true := by
  cases hf : tlvTable.find? (·.1 = tag) with
  | some p =>
    have hm := List.mem_of_find?_eq_some hf
    have hp : p.1 = tag := by simpa using List.find?_some hf
    rw [← hp]; exact listed_agree p hm
  | none =>
    have hk : kindOf tag = .octets := by unfold kindOf; rw [hf]
    have hne : tag ≠ 0x0424 := by
      intro e
      have := List.find?_eq_none.mp hf (0x0424, .octets) payload_listed
      simp [e] at this
    cases hr : Gen.Tlv.runs.find? (fun r => r.1 ≤ tag ∧ tag < r.1 + r.2.1) with
    | none =>
      unfold agree tagInfo
      rw [hr, hk]; simp [hne]
    | some r =>
      have hm := List.mem_of_find?_eq_some hr
      have hin : r.1 ≤ tag ∧ tag < r.1 + r.2.1 := by simpa using List.find?_some hr
      by_cases hd : (r.2.2.1, r.2.2.2) = (1, 0)
      · unfold agree tagInfo
        rw [hr, hk]
        simp only
        rw [hd]; simp [hne]
      · exact special_runs_agree r hm hd tag (by rw [List.mem_range']; exact ⟨tag - r.1, by omega, by omega⟩)

/-- command ids of the fifteen supported PDUs (§5.1.2.1) -/
theorem command_ids_eq_spec : ∀ p ∈ commandIds,
    (Gen.Enums.smppCommand.find? (fun q => q.1.toLower = p.1)).map (·.2) = some p.2 := by
  decide +kernel

/-- data_coding values of the modelled alphabets (§5.2.19) -/
theorem data_coding_eq_spec : ∀ p ∈ dataCoding,
    (Gen.Enums.smppDataCoding.find? (fun q => q.1 = p.1)).map (·.2) = some p.2 := by
  decide +kernel

end SmppVerif.Lemmas.SpecTables
