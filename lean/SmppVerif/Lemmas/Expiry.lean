/- Helper lemmas for C14: the lazy expiry sweep of the request store. -/
import SmppVerif.Lemmas.Corr

namespace SmppVerif.Lemmas.Expiry
open SmppVerif SmppVerif.Corr SmppVerif.Lemmas.Corr

/-- the sweep only ever removes request-store entries, and leaves the ttl alone -/
def StoreSub (a b : CState) : Prop :=
  (∀ k v, aget a.store k = some v → aget b.store k = some v) ∧ a.ttlResp = b.ttlResp

theorem StoreSub.refl (a : CState) : StoreSub a a := ⟨fun _ _ h => h, rfl⟩
theorem StoreSub.trans {a b c : CState} (h1 : StoreSub a b) (h2 : StoreSub b c) : StoreSub a c :=
  ⟨fun k v h => h2.1 k v (h1.1 k v h), h1.2.trans h2.2⟩

/-- same request store and ttl -/
def SameStore (a b : CState) : Prop := a.store = b.store ∧ a.ttlResp = b.ttlResp

theorem SameStore.sub {a b : CState} (h : SameStore a b) : StoreSub a b :=
  ⟨fun k v hk => by rw [← h.1]; exact hk, h.2⟩

theorem cumulated_store (s : CState) (ref : Nat) : SameStore (cumulated s ref).1 s := by
  unfold cumulated
  cases aget s.segStatus ref with
  | none => exact ⟨rfl, rfl⟩
  | some st =>
    dsimp only
    by_cases h1 : st.status.isEmpty = true
    · simp only [h1, if_true]; exact ⟨rfl, rfl⟩
    · simp only [h1]
      by_cases h2 : maxCode st.status ≠ sSending ∧ maxCode st.status ≠ sSent
      · rw [if_pos h2]; exact ⟨rfl, rfl⟩
      · rw [if_neg h2]; exact ⟨rfl, rfl⟩

theorem cumulated_segStore (s : CState) (ref : Nat) : (cumulated s ref).1.segStore = s.segStore := by
  unfold cumulated
  cases aget s.segStatus ref with
  | none => rfl
  | some st =>
    dsimp only
    by_cases h1 : st.status.isEmpty = true
    · simp only [h1, if_true]
    · have h1' : st.status.isEmpty = false := by cases h : st.status.isEmpty <;> simp_all
      rw [h1']
      simp only [Bool.false_eq_true, if_false]
      by_cases h2 : maxCode st.status ≠ sSending ∧ maxCode st.status ≠ sSent
      · rw [if_pos h2]
      · rw [if_neg h2]

theorem expired_store (s : CState) (m : Msg) : SameStore (expired s m).1 s := by
  unfold expired
  by_cases hsub : m.isSubmitLike = true
  · simp only [hsub, if_true]
    cases h1 : aget s.segStore m.seq with
    | none => exact ⟨rfl, rfl⟩
    | some pr =>
      obtain ⟨ref, sseq⟩ := pr
      dsimp only
      cases h2 : aget s.segStatus ref with
      | none => exact ⟨rfl, rfl⟩
      | some st =>
        dsimp only
        have := cumulated_store
          { s with segStore := adel s.segStore m.seq,
                   segStatus := aset s.segStatus ref { st with status := aset st.status sseq sExpired } } ref
        split <;> exact ⟨this.1, this.2⟩
  · simp only [hsub]; exact ⟨rfl, rfl⟩

theorem updateSeg_store (s0 : CState) (resp m : Msg) : SameStore (updateSegOnResponse s0 resp m) s0 := by
  unfold updateSegOnResponse
  split
  · split
    · split <;> exact ⟨rfl, rfl⟩
    · exact ⟨rfl, rfl⟩
  · exact ⟨rfl, rfl⟩

/-- what one step of the sweep does -/
theorem sweepStore_cons (now k : Nat) (ks : List Nat) (s : CState) :
    sweepStore now (k :: ks) s =
      match aget s.store k with
      | none => sweepStore now ks s
      | some (at_, m) =>
        if now - at_ > s.ttlResp then
          ((sweepStore now ks (expired { s with store := adel s.store k } m).1).1,
           (expired { s with store := adel s.store k } m).2 ++
             (sweepStore now ks (expired { s with store := adel s.store k } m).1).2)
        else sweepStore now ks s := by
  rw [sweepStore]
  cases aget s.store k with
  | none => rfl
  | some pr => obtain ⟨at_, m⟩ := pr; first | rfl | (dsimp only; split <;> rfl)

theorem sweepStore_sub (now : Nat) : ∀ (ks : List Nat) (s : CState), StoreSub (sweepStore now ks s).1 s
  | [], s => StoreSub.refl s
  | k :: ks, s => by
    rw [sweepStore_cons]
    cases h1 : aget s.store k with
    | none => exact sweepStore_sub now ks s
    | some pr =>
      obtain ⟨at_, m⟩ := pr
      dsimp only
      by_cases h2 : now - at_ > s.ttlResp
      · rw [if_pos h2]
        dsimp only
        refine (sweepStore_sub now ks _).trans ((expired_store _ m).sub.trans ⟨?_, rfl⟩)
        intro k' v hk'
        dsimp only at hk'
        by_cases e : k' = k
        · subst e; rw [aget_adel_same] at hk'; cases hk'
        · rw [aget_adel_other _ _ _ e] at hk'; exact hk'
      · rw [if_neg h2]; exact sweepStore_sub now ks s

/-- After the sweep over the keys `ks`, every surviving entry under one of those keys is
    within its time-to-live. -/
theorem sweepStore_fresh (now : Nat) : ∀ (ks : List Nat) (s : CState) (k : Nat), k ∈ ks →
    ∀ at_ m, aget (sweepStore now ks s).1.store k = some (at_, m) → now - at_ ≤ s.ttlResp
  | [], _, _, hk, _, _, _ => by cases hk
  | k0 :: ks, s, k, hk, at_, m, hget => by
    rw [sweepStore_cons] at hget
    cases h1 : aget s.store k0 with
    | none =>
      rw [h1] at hget; dsimp only at hget
      rcases List.mem_cons.mp hk with rfl | hk'
      · have := (sweepStore_sub now ks s).1 _ _ hget
        rw [h1] at this; cases this
      · exact sweepStore_fresh now ks s k hk' at_ m hget
    | some pr =>
      obtain ⟨at0, m0⟩ := pr
      rw [h1] at hget; dsimp only at hget
      by_cases h2 : now - at0 > s.ttlResp
      · rw [if_pos h2] at hget; dsimp only at hget
        have hsame := expired_store { s with store := adel s.store k0 } m0
        rcases List.mem_cons.mp hk with rfl | hk'
        · -- the entry was deleted and nothing re-inserts it
          have := (sweepStore_sub now ks _).1 _ _ hget
          rw [hsame.1] at this
          dsimp only at this
          rw [aget_adel_same] at this; cases this
        · have := sweepStore_fresh now ks _ k hk' at_ m hget
          rw [hsame.2] at this; exact this
      · rw [if_neg h2] at hget
        rcases List.mem_cons.mp hk with rfl | hk'
        · have := (sweepStore_sub now ks s).1 _ _ hget
          rw [h1] at this; cases this; omega
        · exact sweepStore_fresh now ks s k hk' at_ m hget

theorem aget_some_mem_keys {ν : Type} (d : List (Nat × ν)) (k : Nat) (v : ν) (h : aget d k = some v) :
    k ∈ d.map (·.1) := by
  induction d with
  | nil => simp [aget] at h
  | cons p rest ih =>
    obtain ⟨k0, v0⟩ := p
    by_cases e : k0 = k
    · simp [e]
    · simp only [aget, e, if_false] at h
      simp [ih h]

/-- C14 core: after any sweep at time `now`, every request still stored is within its
    time-to-live — a time-out is delivered no later than the first sweep after expiry. -/
theorem removeExpired_fresh (s : CState) (now : Nat) (k at_ : Nat) (m : Msg)
    (h : aget (removeExpired s now).1.store k = some (at_, m)) : now - at_ ≤ s.ttlResp := by
  unfold removeExpired at h
  dsimp only at h
  have hsub := (sweepStore_sub now (s.store.map (·.1)) s).1 _ _ h
  exact sweepStore_fresh now _ s k (aget_some_mem_keys _ _ _ hsub) at_ m h

/-- Never early: every `send_error` a sweep makes is produced by the expiry of a stored
    request whose age exceeds the time-to-live. -/
theorem sweepStore_never_early (now : Nat) : ∀ (ks : List Nat) (s : CState) (o : Out),
    o ∈ (sweepStore now ks s).2 →
    ∃ k at_ m s', aget s.store k = some (at_, m) ∧ now - at_ > s.ttlResp ∧ o ∈ (expired s' m).2
  | [], _, o, h => by simp [sweepStore] at h
  | k0 :: ks, s, o, h => by
    rw [sweepStore_cons] at h
    cases h1 : aget s.store k0 with
    | none => rw [h1] at h; exact sweepStore_never_early now ks s o h
    | some pr =>
      obtain ⟨at0, m0⟩ := pr
      rw [h1] at h; dsimp only at h
      by_cases h2 : now - at0 > s.ttlResp
      · rw [if_pos h2] at h; dsimp only at h
        rcases List.mem_append.mp h with h | h
        · exact ⟨k0, at0, m0, _, h1, h2, h⟩
        · obtain ⟨k, at_, m, s', hk, hov, ho⟩ := sweepStore_never_early now ks _ o h
          have hsame := expired_store { s with store := adel s.store k0 } m0
          rw [hsame.1] at hk
          rw [hsame.2] at hov
          dsimp only at hk hov
          by_cases e : k = k0
          · subst e; rw [aget_adel_same] at hk; cases hk
          · rw [aget_adel_other _ _ _ e] at hk
            exact ⟨k, at_, m, s', hk, hov, ho⟩
      · rw [if_neg h2] at h; exact sweepStore_never_early now ks s o h

/-- the expiry of a request that is not a registered segment reports exactly that request -/
theorem expired_plain (s : CState) (m : Msg) (h1 : m.isSubmitLike = true)
    (h2 : aget s.segStore m.seq = none) : (expired s m).2 = [.sendError m] ∧ (expired s m).1 = s := by
  unfold expired
  simp only [h1, if_true, h2]
  refine ⟨?_, ?_⟩ <;> first | rfl | trivial

/-- the sweep never adds segment registrations -/
theorem expired_segStore_none (s : CState) (m : Msg) (x : Nat) (h : aget s.segStore x = none) :
    aget (expired s m).1.segStore x = none := by
  unfold expired
  by_cases hsub : m.isSubmitLike = true
  · simp only [hsub, if_true]
    cases h1 : aget s.segStore m.seq with
    | none => exact h
    | some pr =>
      obtain ⟨ref, sseq⟩ := pr
      dsimp only
      have hdel : aget (adel s.segStore m.seq) x = none := by
        by_cases e : x = m.seq
        · rw [e]; exact aget_adel_same _ _
        · rw [aget_adel_other _ _ _ e]; exact h
      cases h2 : aget s.segStatus ref with
      | none => exact hdel
      | some st =>
        dsimp only
        have hc : ∀ s0 : CState, (cumulated s0 ref).1.segStore = s0.segStore := fun s0 => cumulated_segStore s0 ref
        split <;> (rw [hc]; exact hdel)
  · simp only [hsub]; exact h

/-- Delivered by the next sweep: a stored, overdue, unsegmented request is reported by the
    sweep (so by the next correlator operation, e.g. the `put` of the next request sent). -/
theorem sweepStore_emits (now : Nat) : ∀ (ks : List Nat) (s : CState) (k at_ : Nat) (m : Msg),
    k ∈ ks → aget s.store k = some (at_, m) → now - at_ > s.ttlResp →
    m.isSubmitLike = true → aget s.segStore m.seq = none →
    Out.sendError m ∈ (sweepStore now ks s).2
  | [], _, _, _, _, hk, _, _, _, _ => by cases hk
  | k0 :: ks, s, k, at_, m, hk, hget, hov, hsub, hseg => by
    rw [sweepStore_cons]
    by_cases e : k0 = k
    · subst e
      rw [hget]; dsimp only
      rw [if_pos hov]; dsimp only
      apply List.mem_append_left
      have hp := expired_plain { s with store := adel s.store k0 } m hsub hseg
      rw [hp.1]; simp
    · have hk' : k ∈ ks := by
        rcases List.mem_cons.mp hk with h | h
        · exact absurd h.symm e
        · exact h
      cases h1 : aget s.store k0 with
      | none => exact sweepStore_emits now ks s k at_ m hk' hget hov hsub hseg
      | some pr =>
        obtain ⟨at0, m0⟩ := pr
        dsimp only
        by_cases h2 : now - at0 > s.ttlResp
        · rw [if_pos h2]; dsimp only
          apply List.mem_append_right
          have hsame := expired_store { s with store := adel s.store k0 } m0
          apply sweepStore_emits now ks _ k at_ m hk'
          · rw [hsame.1]; dsimp only
            rw [aget_adel_other _ _ _ (fun h => e h.symm)]; exact hget
          · rw [hsame.2]; exact hov
          · exact hsub
          · exact expired_segStore_none _ m0 _ hseg
        · rw [if_neg h2]
          exact sweepStore_emits now ks s k at_ m hk' hget hov hsub hseg

/-- `removeExpired` reports every overdue unsegmented request that is in the store. -/
theorem removeExpired_emits (s : CState) (now k at_ : Nat) (m : Msg)
    (hget : aget s.store k = some (at_, m)) (hov : now - at_ > s.ttlResp)
    (hsub : m.isSubmitLike = true) (hseg : aget s.segStore m.seq = none) :
    Out.sendError m ∈ (removeExpired s now).2 := by
  unfold removeExpired
  dsimp only
  exact sweepStore_emits now _ s k at_ m (aget_some_mem_keys _ _ _ hget) hget hov hsub hseg

theorem removeExpired_never_early (s : CState) (now : Nat) (o : Out) (h : o ∈ (removeExpired s now).2) :
    ∃ k at_ m s', aget s.store k = some (at_, m) ∧ now - at_ > s.ttlResp ∧ o ∈ (expired s' m).2 := by
  unfold removeExpired at h
  dsimp only at h
  exact sweepStore_never_early now _ s o h

end SmppVerif.Lemmas.Expiry
