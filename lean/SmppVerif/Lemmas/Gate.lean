/- Helper lemmas for C18 at the session level: the throttle gate monitor and the Sender at the gate. -/
import SmppVerif.Model.Gate
import SmppVerif.Lemmas.Limiter

namespace SmppVerif.Lemmas.Gate
open SmppVerif SmppVerif.Policy SmppVerif.Gate

def IsFeed : Ev → Prop
  | .feed _ => True
  | _ => False

theorem run_append (m : Mon) (a b : List Ev) :
    run m (a ++ b) = (run m a).bind (fun m' => run m' b) := by
  induction a generalizing m with
  | nil => simp [run]
  | cons e es ih =>
    simp only [List.cons_append, run]
    cases step m e with
    | none => simp
    | some m' => simpa using ih m'

/-- whenever the monitor is armed, the last non-feed event was a consultation answered True, or
    nothing but feeds happened and it was armed from the start -/
theorem armed_shape (m m1 : Mon) (pre : List Ev) (h : run m pre = some m1) (ha : m1.armed = true) :
    (∃ p1 now p2 mm, pre = p1 ++ Ev.consult now true :: p2 ∧ (∀ e ∈ p2, IsFeed e) ∧
        run m p1 = some mm ∧ (mm.th.allow now).2 = true) ∨
    ((∀ e ∈ pre, IsFeed e) ∧ m.armed = true) := by
  induction pre generalizing m with
  | nil =>
    simp only [run, Option.some.injEq] at h
    subst h
    exact Or.inr ⟨by simp, ha⟩
  | cons e es ih =>
    simp only [run] at h
    cases hs : step m e with
    | none => simp [hs] at h
    | some m' =>
      simp only [hs] at h
      rcases ih m' h with ⟨p1, now, p2, mm, he, hf, hr, hal⟩ | ⟨hf, harm⟩
      · refine Or.inl ⟨e :: p1, now, p2, mm, by simp [he], hf, ?_, hal⟩
        simp [run, hs, hr]
      · cases e with
        | feed b =>
          refine Or.inr ⟨?_, ?_⟩
          · intro x hx
            rcases List.mem_cons.mp hx with rfl | hx
            · trivial
            · exact hf x hx
          · cases b <;> simp only [step, Option.some.injEq] at hs <;> subst hs <;> exact harm
        | consult now r =>
          simp only [step] at hs
          split at hs
          · rename_i hr
            simp only [Option.some.injEq] at hs
            subst hs
            simp only at harm
            subst harm
            exact Or.inl ⟨[], now, es, m, by simp, hf, by simp [run], hr⟩
          · cases hs
        | write =>
          simp only [step] at hs
          split at hs
          · simp only [Option.some.injEq] at hs
            subst hs
            simp at harm
          · cases hs

theorem denyAt_step (m m' : Mon) (e : Ev) (h : step m e = some m') : m'.th.denyAt = m.th.denyAt := by
  cases e with
  | feed b => cases b <;> simp only [step, Option.some.injEq] at h <;> subst h <;> rfl
  | consult now r =>
    simp only [step] at h
    split at h
    · simp only [Option.some.injEq] at h
      subst h
      simp only [Throttle.allow]
      split <;> rfl
    · cases h
  | write =>
    simp only [step] at h
    split at h
    · simp only [Option.some.injEq] at h; subst h; rfl
    · cases h

theorem denyAt_run (m m' : Mon) (es : List Ev) (h : run m es = some m') : m'.th.denyAt = m.th.denyAt := by
  induction es generalizing m with
  | nil => simp only [run, Option.some.injEq] at h; subst h; rfl
  | cons e es ih =>
    simp only [run] at h
    cases hs : step m e with
    | none => simp [hs] at h
    | some m1 =>
      simp only [hs] at h
      rw [ih m1 h, denyAt_step m m1 e hs]

/-- a written PDU was let through by a consultation of its own -/
theorem write_gated (m m' : Mon) (pre post : List Ev) (h0 : m.armed = false)
    (h : run m (pre ++ Ev.write :: post) = some m') :
    ∃ p1 now p2 mm, pre = p1 ++ Ev.consult now true :: p2 ∧ (∀ e ∈ p2, IsFeed e) ∧
      run m p1 = some mm ∧ (mm.th.allow now).2 = true := by
  rw [run_append] at h
  cases hp : run m pre with
  | none => simp [hp] at h
  | some m1 =>
    simp only [hp, Option.bind_some, run] at h
    have harm : m1.armed = true := by
      cases ha : m1.armed with
      | true => rfl
      | false => simp [step, ha] at h
    rcases armed_shape m m1 pre hp harm with r | ⟨_, h1⟩
    · exact r
    · rw [h0] at h1; cases h1

/-- every behaviour of the Sender at the gate is accepted by the monitor -/
theorem sender_accepted (th : Throttle) (a : Bool) (n : Nat) (inps : List Inp) :
    (run ⟨th, a⟩ (sender th n inps)).isSome = true := by
  induction inps generalizing th a n with
  | nil => simp [sender, run]
  | cons i rest ih =>
    cases i with
    | resp b =>
      cases b <;> simp only [sender, run, step] <;> exact ih _ _ _
    | turn now =>
      cases n with
      | zero => simpa only [sender] using ih th a 0
      | succ k =>
        simp only [sender]
        split
        · rename_i hal
          simp only [run, step, hal, if_true]
          exact ih _ _ _
        · rename_i hal
          have : (th.allow now).2 = false := by simpa using hal
          simp only [run, step, this, if_true]
          exact ih _ _ _

/-- in the Sender's own traces a write follows its consultation immediately -/
theorem sender_write_immediate (th : Throttle) (n : Nat) (inps : List Inp) (pre post : List Ev)
    (h : sender th n inps = pre ++ Ev.write :: post) :
    ∃ p1 now, pre = p1 ++ [Ev.consult now true] := by
  induction inps generalizing th n pre with
  | nil => simp [sender] at h; 
  | cons i rest ih =>
    cases i with
    | resp b =>
      simp only [sender] at h
      cases pre with
      | nil => simp at h
      | cons x xs =>
        simp only [List.cons_append, List.cons.injEq] at h
        obtain ⟨p1, now, hp⟩ := ih _ _ _ h.2
        exact ⟨x :: p1, now, by simp [hp]⟩
    | turn now =>
      cases n with
      | zero => simp only [sender] at h; exact ih _ _ _ h
      | succ k =>
        simp only [sender] at h
        split at h
        · cases pre with
          | nil => simp at h
          | cons x xs =>
            simp only [List.cons_append, List.cons.injEq] at h
            cases xs with
            | nil => exact ⟨[], now, by simp [h.1]⟩
            | cons y ys =>
              simp only [List.cons_append, List.cons.injEq] at h
              obtain ⟨p1, now', hp⟩ := ih _ _ _ h.2.2
              exact ⟨x :: y :: p1, now', by simp [hp]⟩
        · cases pre with
          | nil => simp at h
          | cons x xs =>
            simp only [List.cons_append, List.cons.injEq] at h
            obtain ⟨p1, now', hp⟩ := ih _ _ _ h.2
            exact ⟨x :: p1, now', by simp [hp]⟩

def writes : List Ev → Nat
  | [] => 0
  | .write :: es => writes es + 1
  | _ :: es => writes es

/-- never more PDUs than there were to send -/
theorem sender_writes_le (th : Throttle) (n : Nat) (inps : List Inp) : writes (sender th n inps) ≤ n := by
  induction inps generalizing th n with
  | nil => simp [sender, writes]
  | cons i rest ih =>
    cases i with
    | resp b => simp only [sender, writes]; exact ih _ _
    | turn now =>
      cases n with
      | zero => simp only [sender]; exact ih _ _
      | succ k =>
        simp only [sender]
        split
        · simp only [writes]; have := ih (th.allow now).1 k; omega
        · simp only [writes]; exact ih _ _

end SmppVerif.Lemmas.Gate
