import SmppVerif.Model.Discipline

namespace SmppVerif.Lemmas.Discipline
open SmppVerif SmppVerif.Discipline

theorem be4_append (p r : Bytes) (h : 4 ≤ p.length) : be4 (p ++ r) 0 = be4 p 0 := by
  unfold be4
  have g : ∀ i, i < 4 → (p ++ r).getD i 0 = p.getD i 0 := by
    intro i hi
    simp only [List.getD_eq_getElem?_getD]
    rw [List.getElem?_append_left (by omega)]
  rw [g 0 (by decide), g 1 (by decide), g 2 (by decide), g 3 (by decide)]

theorem frame_cons (fuel : Nat) (p r : Bytes) (hw : wholePdu p = true) :
    frame (fuel + 1) (p ++ r) = (frame fuel r).map (p :: ·) := by
  simp only [wholePdu, Bool.and_eq_true, decide_eq_true_eq] at hw
  obtain ⟨h16, hlen⟩ := hw
  have hb : be4 (p ++ r) 0 = p.length := by rw [be4_append p _ (by omega)]; exact hlen
  rw [frame.eq_2]
  have hne : (p ++ r).isEmpty = false := by
    cases p with
    | nil => simp at h16
    | cons x xs => rfl
  rw [hne, hb]
  simp only [Bool.false_eq_true, if_false]
  rw [if_pos ⟨h16, by simp⟩]
  simp

/-- FRAMING: a stream that is a concatenation of whole PDUs is split by an independent framer into
    exactly those PDUs. -/
theorem frame_concat : ∀ (pdus : List Bytes) (fuel : Nat), pdus.length ≤ fuel → (∀ p ∈ pdus, wholePdu p = true) →
    frame fuel pdus.flatten = some pdus
  | [], fuel, _, _ => by cases fuel <;> simp [frame]
  | p :: ps, 0, h, _ => by simp at h
  | p :: ps, fuel + 1, h, hw => by
    rw [List.flatten_cons, frame_cons fuel p _ (hw p (by simp)),
      frame_concat ps fuel (by simp at h; omega) (fun q hq => hw q (by simp [hq]))]
    rfl

def writesOf (c : Nat) (evs : List Ev) : List Bytes :=
  evs.filterMap fun | .write c' b => if c' = c then some b else none | _ => none

def announcesOf (evs : List Ev) : List Bytes := evs.filterMap fun | .announce b => some b | _ => none

theorem removeFirst_mem (b : Bytes) : ∀ (l l' : List Bytes), removeFirst b l = some l' → b ∈ l ∧ ∀ x ∈ l', x ∈ l
  | [], _, h => by simp [removeFirst] at h
  | x :: xs, l', h => by
    unfold removeFirst at h
    split at h
    · rename_i hx; cases h; exact ⟨by simp [hx], fun y hy => by simp [hy]⟩
    · cases hr : removeFirst b xs with
      | none => simp [hr] at h
      | some r =>
        simp only [hr, Option.map_some, Option.some.injEq] at h
        subst h
        have := removeFirst_mem b xs r hr
        exact ⟨by simp [this.1], fun y hy => by
          simp only [List.mem_cons] at hy ⊢
          rcases hy with rfl | hy
          · exact Or.inl rfl
          · exact Or.inr (this.2 y hy)⟩

/-- what the monitor demands of a single write -/
theorem step_write (m m' : Mon) (c : Nat) (b : Bytes) (h : step m (.write c b) = some m') :
    wholePdu b = true ∧ b ∈ m.announced ∧ ∀ x ∈ m'.announced, x ∈ m.announced := by
  simp only [step] at h
  split at h
  · rename_i k ann hk hann
    have hm := removeFirst_mem b _ _ hann
    by_cases hw : wholePdu b = true
    · refine ⟨hw, hm.1, ?_⟩
      simp only [hw, not_true_eq_false, if_false] at h
      repeat' (first | split at h | cases h)
      all_goals (first | exact hm.2 | (intro x hx; exact hm.2 x hx))
    · simp [hw] at h
  · cases h

/-- announcements only grow by announce events; nothing else adds to the pending list -/
theorem step_announced (m m' : Mon) (e : Ev) (h : step m e = some m') :
    ∀ x ∈ m'.announced, x ∈ m.announced ∨ e = .announce x := by
  cases e with
  | announce b =>
    simp only [step, Option.some.injEq] at h; subst h
    intro x hx; simp only [List.mem_append, List.mem_singleton] at hx
    rcases hx with hx | rfl
    · exact Or.inl hx
    · exact Or.inr rfl
  | write c b => intro x hx; exact Or.inl ((step_write m m' c b h).2.2 x hx)
  | connect c => simp only [step, Option.some.injEq] at h; subst h; intro x hx; exact Or.inl hx
  | bound c =>
    simp only [step] at h
    split at h
    · cases h; intro x hx; exact Or.inl hx
    · cases h
  | fed c b =>
    simp only [step] at h
    split at h
    · cases h; intro x hx; exact Or.inl hx
    · cases h
  | recv b =>
    simp only [step] at h
    cases hr : removeFirst b m.fed with
    | none => simp [hr] at h
    | some f => simp only [hr, Option.map_some, Option.some.injEq] at h; subst h; intro x hx; exact Or.inl hx
  | recvDone b => simp only [step, Option.some.injEq] at h; subst h; intro x hx; exact Or.inl hx

/-- WHOLE, ANNOUNCED PDUs: in a run the monitor accepts, every write call carries exactly one whole
    PDU, and these very bytes were handed to the sending hook earlier in the run (or were pending). -/
theorem accepted_writes : ∀ (evs : List Ev) (m m' : Mon), run m evs = some m' →
    ∀ (pre post : List Ev) (c : Nat) (b : Bytes), evs = pre ++ .write c b :: post →
      wholePdu b = true ∧ (b ∈ m.announced ∨ b ∈ announcesOf pre)
  | [], _, _, _, pre, post, c, b, h => by cases pre <;> simp at h
  | e :: es, m, m', hr, pre, post, c, b, h => by
    unfold run at hr
    cases hs : step m e with
    | none => simp [hs] at hr
    | some m1 =>
      simp only [hs] at hr
      cases pre with
      | nil =>
        simp only [List.nil_append, List.cons.injEq] at h
        obtain ⟨rfl, rfl⟩ := h
        have := step_write m m1 c b hs
        exact ⟨this.1, Or.inl this.2.1⟩
      | cons p pre' =>
        simp only [List.cons_append, List.cons.injEq] at h
        obtain ⟨rfl, rfl⟩ := h
        have ih := accepted_writes _ m1 m' hr pre' post c b rfl
        refine ⟨ih.1, ?_⟩
        rcases ih.2 with h1 | h2
        · rcases step_announced m m1 e hs b h1 with h3 | h3
          · exact Or.inl h3
          · right; subst h3; simp [announcesOf]
        · right
          simp only [announcesOf, List.filterMap_cons] at h2 ⊢
          split <;> simp_all

theorem writesOf_whole : ∀ (evs : List Ev) (m m' : Mon) (c : Nat), run m evs = some m' →
    ∀ b ∈ writesOf c evs, wholePdu b = true := by
  intro evs m m' c hr b hb
  simp only [writesOf, List.mem_filterMap] at hb
  obtain ⟨e, he, hsome⟩ := hb
  cases e with
  | write c' b' =>
    simp only at hsome
    split at hsome
    · cases hsome
      obtain ⟨pre, post, rfl⟩ := List.append_of_mem he
      exact (accepted_writes _ m m' hr pre post c' b rfl).1
    · cases hsome
  | _ => simp at hsome

/-- THE WIRE IS A CONCATENATION OF WHOLE PDUs: what was written on a connection during an accepted
    run is split by the independent framer into exactly the PDUs of the write calls. -/
theorem accepted_stream_frames (evs : List Ev) (m m' : Mon) (c : Nat) (h : run m evs = some m') :
    frame (writesOf c evs).length (writesOf c evs).flatten = some (writesOf c evs) :=
  frame_concat _ _ (Nat.le_refl _) (writesOf_whole evs m m' c h)

/-! ### every interleaving of concurrent `_send_data` invocations is accepted -/

theorem removeFirst_of_mem (b : Bytes) : ∀ (l : List Bytes), b ∈ l →
    ∃ l', removeFirst b l = some l' ∧ ∀ x ∈ l, x ≠ b → x ∈ l'
  | [], h => by simp at h
  | x :: xs, h => by
    unfold removeFirst
    by_cases hx : x = b
    · rw [if_pos hx]
      exact ⟨xs, rfl, fun y hy hne => by
        simp only [List.mem_cons] at hy
        rcases hy with rfl | hy
        · exact absurd hx hne
        · exact hy⟩
    · rw [if_neg hx]
      have hb : b ∈ xs := by
        simp only [List.mem_cons] at h
        rcases h with rfl | h
        · exact absurd rfl hx
        · exact h
      obtain ⟨l', hl, hk⟩ := removeFirst_of_mem b xs hb
      refine ⟨x :: l', by rw [hl]; rfl, fun y hy hne => ?_⟩
      simp only [List.mem_cons] at hy ⊢
      rcases hy with rfl | hy
      · exact Or.inl rfl
      · exact Or.inr (hk y hy hne)

/-- the requests (not responses) a bound transmitter / transceiver sends -/
def Sendable (bindCmd : Nat) (b : Bytes) : Prop :=
  wholePdu b = true ∧ isResponseCmd (cmdOf b) = false ∧ ¬ (bindCmd = 1 ∧ cmdOf b = submitSm)

structure Inv (c : Nat) (pdus : List Bytes) (started : List Nat) (m : Mon) : Prop where
  conn : ∃ k, m.conns = [k] ∧ k.id = c ∧ k.bound = true ∧ 0 < k.writes
  pending : ∀ i b, started.count i = 1 → pdus[i]? = some b → b ∈ m.announced

/-- ALL INTERLEAVINGS: however the turns of any number of concurrent `_send_data` invocations on a
    bound connection are ordered — each invocation calls the sending hook, may stay suspended in it
    for any time, and on return writes its PDU in one call — the run obeys the discipline. -/
theorem interleavings_accepted (c : Nat) (pdus : List Bytes) (hd : pdus.Nodup) :
    ∀ (sched started : List Nat) (m : Mon), (∀ b ∈ pdus, Sendable m.bindCmd b) → Inv c pdus started m →
      ∃ m', run m (senderEvents c pdus started sched) = some m'
  | [], _, m, _, _ => ⟨m, rfl⟩
  | i :: rest, started, m, hs, inv => by
    unfold senderEvents
    cases hp : pdus[i]? with
    | none => exact interleavings_accepted c pdus hd rest started m hs inv
    | some b =>
      simp only
      have hbm : b ∈ pdus := List.mem_of_getElem? hp
      by_cases h0 : started.count i = 0
      · rw [if_pos h0]
        -- the sending hook is called
        have inv' : Inv c pdus (i :: started) { m with announced := m.announced ++ [b] } := by
          refine ⟨inv.conn, ?_⟩
          intro j bj hj hpj
          simp only [List.mem_append, List.mem_singleton]
          by_cases hji : j = i
          · subst hji
            rw [hp] at hpj; cases hpj
            exact Or.inr rfl
          · have : started.count j = 1 := by
              rw [List.count_cons] at hj
              simp only [beq_iff_eq] at hj
              rw [if_neg (fun e => hji e.symm)] at hj
              simpa using hj
            exact Or.inl (inv.pending j bj this hpj)
        obtain ⟨m', hm'⟩ := interleavings_accepted c pdus hd rest (i :: started)
          { m with announced := m.announced ++ [b] } hs inv'
        exact ⟨m', by rw [run]; simp only [step]; exact hm'⟩
      · rw [if_neg h0]
        by_cases h1 : started.count i = 1
        · rw [if_pos h1]
          -- the hook returned: one write of the whole PDU
          obtain ⟨k, hk, hid, hbound, hw⟩ := inv.conn
          obtain ⟨hwhole, hnr, hrx⟩ := hs b hbm
          obtain ⟨ann, hann, hkeep⟩ := removeFirst_of_mem b m.announced (inv.pending i b h1 hp)
          let k' : Conn := { k with writes := k.writes + 1 }
          have hstep : step m (.write c b) = some { m with announced := ann, conns := [k'] } := by
            simp only [step, hk, List.find?_cons, hid, decide_true, hann]
            simp only [hwhole, not_true_eq_false, if_false]
            rw [if_neg (by omega), if_neg (by simp [hbound]), if_neg hrx]
            simp only [hnr, Bool.false_eq_true, if_false, updConn, List.map_cons, List.map_nil, k']
            simp [hid]
          have inv' : Inv c pdus (i :: started) { m with announced := ann, conns := [k'] } := by
            refine ⟨⟨k', rfl, hid, hbound, by simp [k']⟩, ?_⟩
            intro j bj hj hpj
            have hji : j ≠ i := by
              intro e; subst e
              rw [List.count_cons_self] at hj
              omega
            have hcj : started.count j = 1 := by
              rw [List.count_cons] at hj
              simp only [beq_iff_eq] at hj
              rw [if_neg (fun e => hji e.symm)] at hj
              simpa using hj
            have hbj := inv.pending j bj hcj hpj
            apply hkeep bj hbj
            -- distinct invocations carry distinct PDUs
            intro e
            subst e
            have hjl : j < pdus.length := (List.getElem?_eq_some_iff.mp hpj).1
            exact hji ((List.getElem?_inj hjl hd).mp (hpj.trans hp.symm))
          obtain ⟨m', hm'⟩ := interleavings_accepted c pdus hd rest (i :: started)
            { m with announced := ann, conns := [k'] } hs inv'
          exact ⟨m', by rw [run, hstep]; exact hm'⟩
        · rw [if_neg h1]
          exact interleavings_accepted c pdus hd rest started m hs inv

end SmppVerif.Lemmas.Discipline
