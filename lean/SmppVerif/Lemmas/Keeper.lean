import SmppVerif.Model.Keeper

namespace SmppVerif.Lemmas.Keeper
open SmppVerif.Keeper

/-- consecutive arrivals (starting from `s`) are strictly increasing and closer than `g` -/
def Gaps (g : Nat) : Nat → List Nat → Prop
  | _, [] => True
  | s, a :: rest => s < a ∧ a < s + g ∧ Gaps g a rest

def lastOr (s : Nat) : List Nat → Nat
  | [] => s
  | a :: rest => lastOr a rest

/-- LIVE PEER KEPT: as long as consecutive PDUs arrive less than I + T apart, the keeper does not
    give up before I + T after the last one. -/
theorem live_peer_kept (I T : Nat) : ∀ (arr : List Nat) (s : Nat), Gaps (I + T) s arr →
    (keeper I T s arr).2 = some (lastOr s arr + I + T)
  | [], s, _ => rfl
  | a :: rest, s, h => by
    obtain ⟨h1, h2, h3⟩ := h
    unfold keeper
    rw [if_neg (by omega)]
    by_cases hI : a < s + I
    · rw [if_pos hI]; exact live_peer_kept I T rest a h3
    · rw [if_neg hI, if_pos (by omega)]; exact live_peer_kept I T rest a h3

/-- DEAD PEER DROPPED: if nothing arrives within I + T of a (re)start, the keeper gives up exactly
    then, having sent the probe at I. -/
theorem dead_peer_dropped (I T s : Nat) (arr : List Nat) (h : ∀ a ∈ arr, s + I + T ≤ a) (hT : 0 < I + T) :
    keeper I T s arr = ([s + I], some (s + I + T)) := by
  cases arr with
  | nil => rfl
  | cons a rest =>
    have := h a (by simp)
    unfold keeper
    rw [if_neg (by omega), if_neg (by omega), if_neg (by omega)]

/-- PROBE ON IDLE: when the next PDU comes I or more after a (re)start, an enquire_link goes out
    exactly I after that (re)start. -/
theorem probe_on_idle (I T s a : Nat) (rest : List Nat) (hI : 0 < I) (h : s + I ≤ a) :
    s + I ∈ (keeper I T s (a :: rest)).1 := by
  unfold keeper
  rw [if_neg (by omega), if_neg (by omega)]
  by_cases hT : a < s + I + T
  · rw [if_pos hT]; simp
  · rw [if_neg hT]; simp

/-- NO SPURIOUS PROBE: while PDUs keep arriving less than I apart, no enquire_link is sent before
    I after the last one. -/
theorem no_probe_while_busy (I T : Nat) : ∀ (arr : List Nat) (s : Nat), Gaps I s arr →
    (keeper I T s arr).1 = [lastOr s arr + I]
  | [], s, _ => rfl
  | a :: rest, s, h => by
    obtain ⟨h1, h2, h3⟩ := h
    unfold keeper
    rw [if_neg (by omega), if_pos h2]
    exact no_probe_while_busy I T rest a h3

/-- every probe is sent I after a (re)start point: the start or some arrival -/
theorem probes_at_restarts (I T : Nat) : ∀ (arr : List Nat) (s : Nat),
    ∀ p ∈ (keeper I T s arr).1, p = s + I ∨ ∃ a ∈ arr, p = a + I
  | [], s, p, hp => by simp [keeper] at hp; exact Or.inl hp
  | a :: rest, s, p, hp => by
    unfold keeper at hp
    split at hp
    · rcases probes_at_restarts I T rest s p hp with h | ⟨b, hb, h⟩
      · exact Or.inl h
      · exact Or.inr ⟨b, by simp [hb], h⟩
    · split at hp
      · rcases probes_at_restarts I T rest a p hp with h | ⟨b, hb, h⟩
        · exact Or.inr ⟨a, by simp, h⟩
        · exact Or.inr ⟨b, by simp [hb], h⟩
      · split at hp
        · simp only [List.mem_cons] at hp
          rcases hp with h | hp
          · exact Or.inl h
          · rcases probes_at_restarts I T rest a p hp with h | ⟨b, hb, h⟩
            · exact Or.inr ⟨a, by simp, h⟩
            · exact Or.inr ⟨b, by simp [hb], h⟩
        · simp at hp; exact Or.inl hp

end SmppVerif.Lemmas.Keeper
