/- Helper lemmas for the tier 2 correlator model (C09, C13, C14, C01, C02). -/
import SmppVerif.Model.Corr
import Mathlib.Data.List.Sort

namespace SmppVerif.Lemmas.Corr
open SmppVerif SmppVerif.Corr

/-! ### association lists -/

section AList
variable {κ ν : Type} [DecidableEq κ]

theorem aget_aset_same (d : List (κ × ν)) (k : κ) (v : ν) : aget (aset d k v) k = some v := by
  induction d with
  | nil => simp [aset, aget]
  | cons p rest ih =>
    obtain ⟨k', v'⟩ := p
    by_cases h : k' = k
    · simp [aset, aget, h]
    · simp [aset, aget, h, ih]

theorem aget_aset_other (d : List (κ × ν)) (k k' : κ) (v : ν) (h : k' ≠ k) :
    aget (aset d k v) k' = aget d k' := by
  induction d with
  | nil => simp [aset, aget, h.symm]
  | cons p rest ih =>
    obtain ⟨k0, v0⟩ := p
    by_cases h0 : k0 = k
    · subst h0; simp [aset, aget, h.symm]
    · by_cases h1 : k0 = k'
      · subst h1; simp [aset, aget, h0]
      · simp [aset, aget, h0, h1, ih]

theorem aget_adel_same (d : List (κ × ν)) (k : κ) : aget (adel d k) k = none := by
  induction d with
  | nil => rfl
  | cons p rest ih =>
    obtain ⟨k0, v0⟩ := p
    by_cases h0 : k0 = k
    · simp [adel, List.filter, h0] at ih ⊢; exact ih
    · simp [adel, List.filter, h0, aget] at ih ⊢; exact ih

theorem aget_adel_other (d : List (κ × ν)) (k k' : κ) (h : k' ≠ k) :
    aget (adel d k) k' = aget d k' := by
  induction d with
  | nil => rfl
  | cons p rest ih =>
    obtain ⟨k0, v0⟩ := p
    by_cases h0 : k0 = k
    · subst h0
      have : k0 ≠ k' := fun e => h e.symm
      simp [adel, List.filter, aget, this] at ih ⊢; exact ih
    · by_cases h1 : k0 = k'
      · subst h1; simp [adel, List.filter, h0, aget]
      · simp [adel, List.filter, h0, aget, h1] at ih ⊢; exact ih

theorem aget_filter_all (d : List (κ × ν)) (f : κ × ν → Bool) (h : ∀ p ∈ d, f p = true) (k : κ) :
    aget (d.filter f) k = aget d k := by
  rw [List.filter_eq_self.mpr h]

/-- appending a fresh key puts it last -/
theorem aset_fresh (d : List (κ × ν)) (k : κ) (v : ν) (h : ∀ p ∈ d, p.1 ≠ k) :
    aset d k v = d ++ [(k, v)] := by
  induction d with
  | nil => rfl
  | cons p rest ih =>
    obtain ⟨k0, v0⟩ := p
    have h0 : k0 ≠ k := h (k0, v0) (by simp)
    simp [aset, h0, ih (fun q hq => h q (by simp [hq]))]

end AList

/-! ### sorting the collected segments -/

theorem insertSeg_eq (p : Nat × List Nat) (l : List (Nat × List Nat)) :
    insertSeg p l = List.orderedInsert (fun a b : Nat × List Nat => a.1 ≤ b.1) p l := by
  induction l with
  | nil => rfl
  | cons q qs ih => simp [insertSeg, List.orderedInsert, ih]

theorem sortSegs_eq (l : List (Nat × List Nat)) :
    sortSegs l = List.insertionSort (fun a b : Nat × List Nat => a.1 ≤ b.1) l := by
  induction l with
  | nil => rfl
  | cons p ps ih =>
    unfold sortSegs at ih ⊢
    simp only [List.foldr_cons, List.insertionSort_cons, ih, insertSeg_eq]

/-- Sorting segments that arrived in any order `arr` (a permutation of 1..n) yields them in
    numeric order. -/
theorem sortSegs_perm (p : Nat → List Nat) (n : Nat) (arr : List Nat)
    (hperm : arr.Perm (List.range' 1 n)) :
    sortSegs (arr.map fun i => (i, p i)) = (List.range' 1 n).map fun i => (i, p i) := by
  rw [sortSegs_eq]
  have hmap := List.map_insertionSort (r := fun a b : Nat => a ≤ b)
    (s := fun a b : Nat × List Nat => a.1 ≤ b.1) (fun i => (i, p i)) arr
    (by intro a _ b _; simp)
  rw [← hmap]
  congr 1
  have hp : (arr.insertionSort (fun a b : Nat => a ≤ b)).Perm (List.range' 1 n) :=
    (List.perm_insertionSort _ arr).trans hperm
  have hs1 : (arr.insertionSort (fun a b : Nat => a ≤ b)).Pairwise (fun a b : Nat => a ≤ b) :=
    List.pairwise_insertionSort _ arr
  have hs2 : (List.range' 1 n).Pairwise (fun a b : Nat => a ≤ b) := by
    have := List.pairwise_lt_range' (s := 1) (n := n)
    exact this.imp (fun h => Nat.le_of_lt h)
  exact List.Perm.eq_of_pairwise' (r := fun a b : Nat => a ≤ b) hs1 hs2 hp

end SmppVerif.Lemmas.Corr

namespace SmppVerif.Lemmas.Corr
open SmppVerif SmppVerif.Corr

/-! ### frame lemmas: the response-side sweep never touches the delivery stores -/

/-- the parts of the state the expiry of requests leaves alone -/
def SameDeliv (a b : CState) : Prop :=
  a.delivSegStore = b.delivSegStore ∧ a.delivStore = b.delivStore ∧
  a.ttlDeliv = b.ttlDeliv ∧ a.ttlResp = b.ttlResp

theorem SameDeliv.refl (a : CState) : SameDeliv a a := ⟨rfl, rfl, rfl, rfl⟩
theorem SameDeliv.trans {a b c : CState} (h1 : SameDeliv a b) (h2 : SameDeliv b c) : SameDeliv a c :=
  ⟨h1.1.trans h2.1, h1.2.1.trans h2.2.1, h1.2.2.1.trans h2.2.2.1, h1.2.2.2.trans h2.2.2.2⟩

theorem cumulated_frame (s : CState) (ref : Nat) : SameDeliv (cumulated s ref).1 s := by
  unfold cumulated
  cases aget s.segStatus ref with
  | none => exact SameDeliv.refl s
  | some st =>
    dsimp only
    by_cases h1 : st.status.isEmpty = true
    · simp only [h1, if_true]; exact SameDeliv.refl s
    · simp only [h1, if_false]
      by_cases h2 : maxCode st.status ≠ sSending ∧ maxCode st.status ≠ sSent
      · rw [if_pos h2]; exact ⟨rfl, rfl, rfl, rfl⟩
      · rw [if_neg h2]; exact SameDeliv.refl s

theorem expired_frame (s : CState) (m : Msg) : SameDeliv (expired s m).1 s := by
  unfold expired
  by_cases hsub : m.isSubmitLike = true
  · simp only [hsub, if_true]
    cases h1 : aget s.segStore m.seq with
    | none => exact SameDeliv.refl s
    | some pr =>
      obtain ⟨ref, sseq⟩ := pr
      dsimp only
      cases h2 : aget s.segStatus ref with
      | none => exact ⟨rfl, rfl, rfl, rfl⟩
      | some st =>
        dsimp only
        have := cumulated_frame
          { s with segStore := adel s.segStore m.seq,
                   segStatus := aset s.segStatus ref { st with status := aset st.status sseq sExpired } } ref
        split <;> exact this.trans ⟨rfl, rfl, rfl, rfl⟩
  · simp only [hsub, if_false]; exact SameDeliv.refl s

theorem sweepStore_frame (now : Nat) : ∀ (ks : List Nat) (s : CState), SameDeliv (sweepStore now ks s).1 s
  | [], s => SameDeliv.refl s
  | k :: ks, s => by
    rw [sweepStore]
    cases h1 : aget s.store k with
    | none => exact sweepStore_frame now ks s
    | some pr =>
      obtain ⟨at_, m⟩ := pr
      dsimp only
      by_cases h2 : now - at_ > s.ttlResp
      · simp only [h2, if_true]
        exact (sweepStore_frame now ks _).trans ((expired_frame _ _).trans ⟨rfl, rfl, rfl, rfl⟩)
      · simp only [h2, if_false]
        exact sweepStore_frame now ks s

/-- While `now` does not exceed the delivery time-to-live nothing is dropped from the
    delivery stores. -/
theorem removeExpired_deliv (s : CState) (now : Nat) (h : now ≤ s.ttlDeliv) :
    SameDeliv (removeExpired s now).1 s := by
  unfold removeExpired
  simp only
  obtain ⟨h1, h2, h3, h4⟩ := sweepStore_frame now (s.store.map (·.1)) s
  refine ⟨?_, ?_, h3, h4⟩
  · simp only
    rw [List.filter_eq_self.mpr, h1]
    intro p _; simp; rw [h3]; omega
  · simp only
    rw [List.filter_eq_self.mpr, h2]
    intro p _; simp; rw [h3]; omega

end SmppVerif.Lemmas.Corr

namespace SmppVerif.Lemmas.Corr
open SmppVerif SmppVerif.Corr

/-! ### inbound reassembly (C09) -/

/-- only the delivery-segment store and the delivery time-to-live matter here -/
def SameDSeg (a b : CState) : Prop := a.delivSegStore = b.delivSegStore ∧ a.ttlDeliv = b.ttlDeliv

theorem SameDeliv.dseg {a b : CState} (h : SameDeliv a b) : SameDSeg a b := ⟨h.1, h.2.2.1⟩

theorem getSegmented_dseg (s : CState) (seq : Nat) (rm : Bool) : SameDSeg (getSegmented s seq rm).1 s := by
  unfold getSegmented
  cases aget s.segStore seq with
  | none => exact ⟨rfl, rfl⟩
  | some pr =>
    obtain ⟨ref, q⟩ := pr
    dsimp only
    cases rm with
    | true =>
      simp only [if_true]
      cases aget s.segStatus ref with
      | none => exact ⟨rfl, rfl⟩
      | some st =>
        dsimp only
        exact ((cumulated_frame { s with segStore := adel s.segStore seq } ref).trans ⟨rfl, rfl, rfl, rfl⟩).dseg
    | false =>
      simp only [Bool.false_eq_true, if_false]
      cases aget s.segStatus ref with
      | none => exact ⟨rfl, rfl⟩
      | some st =>
        dsimp only
        exact (cumulated_frame s ref).dseg

theorem getDelivery_dseg (s : CState) (now : Nat) (d : Msg) (h : now ≤ s.ttlDeliv) :
    SameDSeg (getDelivery s now d).1 s := by
  unfold getDelivery
  dsimp only
  -- whatever the segment-status update is, it leaves the delivery-segment store and ttl alone
  have key : ∀ s1 : CState, s1.delivSegStore = s.delivSegStore → s1.ttlDeliv = s.ttlDeliv →
      SameDSeg (removeExpired s1 now).1 s := by
    intro s1 h1 h2
    have := (removeExpired_deliv s1 now (by rw [h2]; exact h)).dseg
    exact ⟨this.1.trans h1, this.2.trans h2⟩
  apply key
  · cases aget s.delivStore d.rcptId with
    | none => rfl
    | some pr =>
      dsimp only
      cases aget s.segStore pr.2.seq with
      | none => rfl
      | some q =>
        dsimp only
        cases aget s.segStatus q.1 <;> rfl
  · cases aget s.delivStore d.rcptId with
    | none => rfl
    | some pr =>
      dsimp only
      cases aget s.segStore pr.2.seq with
      | none => rfl
      | some q =>
        dsimp only
        cases aget s.segStatus q.1 <;> rfl

def IsSegOf (r : Nat) (d : Msg) : Bool := !d.isReceipt && d.hasSar && d.sarRef == r

theorem putDeliverySegmented_other (s : CState) (now : Nat) (d : Msg) (r : Nat) (hne : r ≠ d.sarRef)
    (hnow : now ≤ s.ttlDeliv) :
    aget (putDeliverySegmented s now d).1.delivSegStore r = aget s.delivSegStore r ∧
    (putDeliverySegmented s now d).1.ttlDeliv = s.ttlDeliv := by
  unfold putDeliverySegmented
  split
  · have := (removeExpired_deliv (dropSeg s d.sarRef) now hnow).dseg
    exact ⟨by rw [this.1]; exact aget_adel_other _ _ _ hne, this.2⟩
  · have := (removeExpired_deliv (storeSeg s d.sarRef now (nextSegs s d)) now hnow).dseg
    exact ⟨by rw [this.1]; exact aget_aset_other _ _ _ _ hne, this.2⟩

/-- Handling anything that is not a segment with reference `r` leaves the segments collected
    for `r` alone (as long as the delivery time-to-live is not exceeded). -/
theorem other_op (s : CState) (now : Nat) (d : Msg) (r : Nat) (hseg : IsSegOf r d = false)
    (hnow : now ≤ s.ttlDeliv) :
    aget (handleDeliver s now d).1.delivSegStore r = aget s.delivSegStore r ∧
    (handleDeliver s now d).1.ttlDeliv = s.ttlDeliv := by
  unfold handleDeliver
  by_cases hr : d.isReceipt = true
  · simp only [hr, if_true]
    by_cases hid : d.rcptId.isEmpty = true
    · simp only [hid, if_true]; exact ⟨trivial, trivial⟩
    · simp only [hid, Bool.false_eq_true, if_false]
      have h1 := getDelivery_dseg s now d hnow
      cases ho : (getDelivery s now d).2.2 with
      | none => exact ⟨by rw [h1.1], h1.2⟩
      | some o =>
        have h2 := getSegmented_dseg (getDelivery s now d).1 o.seq true
        exact ⟨by dsimp only; rw [h2.1, h1.1], by dsimp only; rw [h2.2, h1.2]⟩
  · have hr' : d.isReceipt = false := by cases h : d.isReceipt <;> simp_all
    simp only [hr', Bool.false_eq_true, if_false]
    by_cases hs : d.hasSar = true
    · simp only [hs, if_true]
      have hne : r ≠ d.sarRef := by
        intro e; unfold IsSegOf at hseg; simp [hr', hs, e] at hseg
      exact putDeliverySegmented_other s now d r hne hnow
    · simp only [hs, Bool.false_eq_true, if_false]; exact ⟨trivial, trivial⟩

/-- handling a list of deliver_sm, keeping what the received hook is given for each -/
def runDelivers (s : CState) : List (Nat × Msg) → CState × List (Msg × Handled)
  | [] => (s, [])
  | (now, d) :: ops =>
    ((runDelivers (handleDeliver s now d).1 ops).1,
     (d, (handleDeliver s now d).2.2) :: (runDelivers (handleDeliver s now d).1 ops).2)

/-- what the hook saw for the segments with reference `r`, in arrival order -/
def resultsFor (r : Nat) (l : List (Msg × Handled)) : List Handled :=
  (l.filter fun x => IsSegOf r x.1).map (·.2)

theorem resultsFor_none (r : Nat) : ∀ (ops : List (Nat × Msg)) (s : CState),
    (∀ op ∈ ops, IsSegOf r op.2 = false) → resultsFor r (runDelivers s ops).2 = []
  | [], _, _ => rfl
  | (now, d) :: ops, s, h => by
    have hd : IsSegOf r d = false := h (now, d) (by simp)
    rw [runDelivers]
    unfold resultsFor
    simp only [List.filter_cons, hd, Bool.false_eq_true, if_false]
    exact resultsFor_none r ops _ (fun op hop => h op (by simp [hop]))

/-- the collected-segments entry for `r` after the segments `done` (in arrival order) -/
def EntryIs (s : CState) (r : Nat) (p : Nat → List Nat) (done : List Nat) : Prop :=
  match done with
  | [] => aget s.delivSegStore r = none
  | _ :: _ => ∃ t, aget s.delivSegStore r = some (t, done.map fun i => (i, p i))

theorem nextSegs_of_entry (s : CState) (r : Nat) (p : Nat → List Nat) (done : List Nat) (d : Msg)
    (he : EntryIs s r p done) (hr : d.sarRef = r) (ht : d.text = p d.sarSeq) (hfresh : d.sarSeq ∉ done) :
    nextSegs s d = (done ++ [d.sarSeq]).map fun i => (i, p i) := by
  unfold nextSegs
  rw [hr]
  cases done with
  | nil =>
    unfold EntryIs at he
    rw [he]; simp [ht]
  | cons a as =>
    obtain ⟨t, he⟩ := he
    rw [he]
    dsimp only
    rw [aset_fresh]
    · simp [ht]
    · intro q hq
      simp only [List.mem_map] at hq
      obtain ⟨j, hj, rfl⟩ := hq
      intro e
      have e' : j = d.sarSeq := e
      exact hfresh (e' ▸ hj)

theorem handleDeliver_seg (s : CState) (now : Nat) (d : Msg) (h1 : d.isReceipt = false)
    (h2 : d.hasSar = true) :
    handleDeliver s now d =
      ((putDeliverySegmented s now d).1, (putDeliverySegmented s now d).2.1,
        match (putDeliverySegmented s now d).2.2 with
        | some full => Handled.msg full
        | none => Handled.placeholder) := by
  unfold handleDeliver
  rw [if_neg (by simp [h1]), if_pos h2]
  rfl

theorem seg_last (s : CState) (now : Nat) (d : Msg) (h1 : d.isReceipt = false) (h2 : d.hasSar = true)
    (L : List (Nat × List Nat)) (hL : nextSegs s d = L) (hlen : L.length = d.sarTotal) :
    (handleDeliver s now d).2.2 = .msg { d with text := (sortSegs L).flatMap (·.2) } ∧
    (handleDeliver s now d).1 = (removeExpired (dropSeg s d.sarRef) now).1 := by
  rw [handleDeliver_seg s now d h1 h2]
  unfold putDeliverySegmented
  rw [hL, if_pos hlen]
  exact ⟨rfl, rfl⟩

theorem seg_more (s : CState) (now : Nat) (d : Msg) (h1 : d.isReceipt = false) (h2 : d.hasSar = true)
    (L : List (Nat × List Nat)) (hL : nextSegs s d = L) (hlen : L.length ≠ d.sarTotal) :
    (handleDeliver s now d).2.2 = .placeholder ∧
    (handleDeliver s now d).1 = (removeExpired (storeSeg s d.sarRef now L) now).1 := by
  rw [handleDeliver_seg s now d h1 h2]
  unfold putDeliverySegmented
  rw [hL, if_neg hlen]
  exact ⟨rfl, rfl⟩

/-- Order independence of inbound reassembly, any number of segments, any interleaving:
    while no delivery time-to-live passes, if the segments of one message (reference `r`,
    `n` segments with texts `p 1 … p n`) arrive each exactly once in ANY order `rest`, mixed
    with ANY other deliver_sm traffic (other references, unsegmented messages, receipts),
    the hook is handed a placeholder for all but the last of them and, for the last, one
    message whose text is `p 1 ++ … ++ p n`. -/
theorem reassemble (r n : Nat) (p : Nat → List Nat) (T : Nat) :
    ∀ (ops : List (Nat × Msg)) (s : CState) (done rest : List Nat),
      s.ttlDeliv = T → (∀ op ∈ ops, op.1 ≤ T) →
      (done ++ rest).Perm (List.range' 1 n) → EntryIs s r p done →
      (∀ op ∈ ops, IsSegOf r op.2 = true → op.2.sarTotal = n ∧ op.2.text = p op.2.sarSeq) →
      (ops.filter fun op => IsSegOf r op.2).map (·.2.sarSeq) = rest → rest ≠ [] →
      ∃ dl, resultsFor r (runDelivers s ops).2
              = List.replicate (rest.length - 1) Handled.placeholder ++ [Handled.msg dl] ∧
            dl.text = (List.range' 1 n).flatMap p
  | [], s, done, rest, _, _, _, _, _, hfil, hne => by
    simp at hfil
    first | exact absurd hfil hne | exact absurd hfil.symm hne
  | (now, d) :: ops, s, done, rest, hT, hnow, hperm, hent, hM, hfil, hne => by
    have hnow0 : now ≤ s.ttlDeliv := by rw [hT]; exact hnow (now, d) (by simp)
    have hnow' : ∀ op ∈ ops, op.1 ≤ T := fun op hop => hnow op (by simp [hop])
    have hM' : ∀ op ∈ ops, IsSegOf r op.2 = true → op.2.sarTotal = n ∧ op.2.text = p op.2.sarSeq :=
      fun op hop => hM op (by simp [hop])
    rw [runDelivers]
    by_cases hseg : IsSegOf r d = true
    · -- a segment of our message
      obtain ⟨htot, htext⟩ := hM (now, d) (by simp) hseg
      dsimp only at htot htext
      have hflags : d.isReceipt = false ∧ d.hasSar = true ∧ d.sarRef = r := by
        unfold IsSegOf at hseg
        simp only [Bool.and_eq_true, Bool.not_eq_true', beq_iff_eq] at hseg
        exact ⟨hseg.1.1, hseg.1.2, hseg.2⟩
      simp only [List.filter_cons, hseg, if_true, List.map_cons] at hfil
      cases rest with
      | nil => exact absurd rfl hne
      | cons i rest' =>
        simp only [List.cons.injEq] at hfil
        obtain ⟨hi, hfil'⟩ := hfil
        have hnodup : (done ++ i :: rest').Nodup :=
          hperm.nodup_iff.mpr (List.nodup_range' (s := 1) (n := n))
        have hfresh : d.sarSeq ∉ done := by
          rw [hi]
          have := (List.nodup_append.mp hnodup).2.2
          intro hmem
          exact this i hmem i (by simp) rfl
        have hnext := nextSegs_of_entry s r p done d hent hflags.2.2 htext hfresh
        have hlenperm : (done ++ i :: rest').length = n := by
          rw [hperm.length_eq]; simp
        unfold resultsFor
        simp only [List.filter_cons, hseg, if_true, List.map_cons]
        by_cases hlast : rest' = []
        · -- last segment: complete
          subst hlast
          have hlen : ((done ++ [d.sarSeq]).map fun i => (i, p i)).length = d.sarTotal := by
            rw [htot, List.length_map, hi]; simpa using hlenperm
          obtain ⟨hres, hstate⟩ := seg_last s now d hflags.1 hflags.2.1 _ hnext hlen
          have hrest0 : ∀ op ∈ ops, IsSegOf r op.2 = false := by
            intro op hop
            cases h : IsSegOf r op.2 with
            | false => rfl
            | true =>
              have hmem : op ∈ ops.filter fun op => IsSegOf r op.2 := List.mem_filter.mpr ⟨hop, h⟩
              have hm : op.2.sarSeq ∈ (ops.filter fun op => IsSegOf r op.2).map (·.2.sarSeq) :=
                List.mem_map.mpr ⟨op, hmem, rfl⟩
              rw [hfil'] at hm; simp at hm
          have h0 := resultsFor_none r ops (handleDeliver s now d).1 hrest0
          unfold resultsFor at h0
          rw [h0, hres]
          refine ⟨{ d with text := (sortSegs ((done ++ [d.sarSeq]).map fun i => (i, p i))).flatMap (·.2) },
            by simp, ?_⟩
          dsimp only
          have hp2 : (done ++ [d.sarSeq]).Perm (List.range' 1 n) := by rw [hi]; exact hperm
          rw [sortSegs_perm p n _ hp2]
          simp [List.flatMap_map]
        · -- not the last one: stored, placeholder
          have hrl : rest'.length ≠ 0 := fun e => hlast (List.length_eq_zero_iff.mp e)
          have hlen : ((done ++ [d.sarSeq]).map fun i => (i, p i)).length ≠ d.sarTotal := by
            rw [htot, List.length_map, hi]
            simp at hlenperm ⊢; omega
          obtain ⟨hres, hstate⟩ := seg_more s now d hflags.1 hflags.2.1 _ hnext hlen
          have hsd := (removeExpired_deliv
            (storeSeg s d.sarRef now ((done ++ [d.sarSeq]).map fun i => (i, p i))) now hnow0).dseg
          have hent' : EntryIs (handleDeliver s now d).1 r p (done ++ [i]) := by
            rw [hstate]
            unfold EntryIs
            cases hdn : done ++ [i] with
            | nil => simp at hdn
            | cons a as =>
              refine ⟨now, ?_⟩
              rw [hsd.1, ← hdn, ← hflags.2.2, ← hi]
              exact aget_aset_same _ _ _
          have hperm' : ((done ++ [i]) ++ rest').Perm (List.range' 1 n) := by simpa using hperm
          have hT' : (handleDeliver s now d).1.ttlDeliv = T := by
            rw [hstate, hsd.2]; exact hT
          obtain ⟨dl, hres2, htxt⟩ := reassemble r n p T ops _ (done ++ [i]) rest'
            hT' hnow' hperm' hent' hM' hfil' hlast
          unfold resultsFor at hres2
          rw [hres2, hres]
          refine ⟨dl, ?_, htxt⟩
          have e : (i :: rest').length - 1 = (rest'.length - 1) + 1 := by simp; omega
          rw [e, List.replicate_succ]; simp
    · -- something else
      have hseg' : IsSegOf r d = false := by cases h : IsSegOf r d <;> simp_all
      obtain ⟨he1, he2⟩ := other_op s now d r hseg' hnow0
      have hent' : EntryIs (handleDeliver s now d).1 r p done := by
        unfold EntryIs at hent ⊢
        cases done with
        | nil => simpa [he1] using hent
        | cons a as => obtain ⟨t, ht⟩ := hent; exact ⟨t, by rw [he1]; exact ht⟩
      simp only [List.filter_cons, hseg', Bool.false_eq_true, if_false] at hfil
      obtain ⟨dl, hres, htxt⟩ := reassemble r n p T ops _ done rest
        (by rw [he2]; exact hT) hnow' hperm hent' hM' hfil hne
      refine ⟨dl, ?_, htxt⟩
      unfold resultsFor at hres ⊢
      simp only [List.filter_cons, hseg', Bool.false_eq_true, if_false]
      exact hres

end SmppVerif.Lemmas.Corr
