/- File-system and PersistingDict lemmas (C19). -/
import SmppVerif.Model.Persist

namespace SmppVerif.Lemmas.Persist
open SmppVerif SmppVerif.Persist

theorem find_filter_ne (l : List (Path × Bytes)) (p q : Path) (h : q ≠ p) :
    (l.filter (·.1 ≠ p)).find? (·.1 = q) = l.find? (·.1 = q) := by
  rw [List.find?_filter]
  congr 1
  funext a
  by_cases hq : a.1 = q
  · have : a.1 ≠ p := fun e => h (hq.symm.trans e)
    simp [hq, this]
    exact fun e => h e
  · simp [hq]

theorem read_put_same (fs : FS) (p : Path) (b : Bytes) : (fs.put p b).read p = some b := by
  simp [FS.read, FS.put]

theorem read_put_ne (fs : FS) (p q : Path) (b : Bytes) (h : q ≠ p) : (fs.put p b).read q = fs.read q := by
  simp only [FS.read, FS.put, List.find?_cons]
  have : decide ((p, b).1 = q) = false := by simp; exact fun e => h e.symm
  rw [this]
  simp only
  rw [find_filter_ne _ p q h]

theorem read_remove_ne (fs : FS) (p q : Path) (h : q ≠ p) : (fs.remove p).read q = fs.read q := by
  simp only [FS.read, FS.remove]
  rw [find_filter_ne _ p q h]

theorem tmp_ne (file : Path) : tmpOf file ≠ file := by
  intro h
  have := congrArg List.length h
  simp [tmpOf, tmpSuffix] at this

/-- a step on the temporary file leaves every other file alone -/
theorem step_tmp_other (fs : FS) (t q : Path) (c : Sys) (hq : q ≠ t)
    (hc : c = .openTrunc t ∨ ∃ d, c = .append t d) : (fs.step c).read q = fs.read q := by
  rcases hc with rfl | ⟨d, rfl⟩
  · exact read_put_ne fs t q [] hq
  · exact read_put_ne fs t q _ hq

/-- CRASH ATOMICITY of `_save`: whatever prefix of its system calls was performed — including
    any partial write — the store file reads either as before or as the complete new text, and
    no file other than the store and its temporary is touched. -/
theorem crash_atomic (fs : FS) (file : Path) (text : Bytes) (fs' : FS)
    (h : fs' ∈ crashStates fs (saveTrace file text)) :
    (fs'.read file = fs.read file ∨ fs'.read file = some text) ∧
    ∀ q, q ≠ file → q ≠ tmpOf file → fs'.read q = fs.read q := by
  have hne : file ≠ tmpOf file := fun e => tmp_ne file e.symm
  simp only [saveTrace, crashStates, List.mem_cons, List.mem_append, List.mem_map, List.mem_range, List.nil_append,
    List.not_mem_nil, or_false] at h
  have o1 : ∀ q, q ≠ tmpOf file → (fs.step (.openTrunc (tmpOf file))).read q = fs.read q :=
    fun q hq => read_put_ne fs _ q [] hq
  have a1 : ∀ d q, q ≠ tmpOf file →
      ((fs.step (.openTrunc (tmpOf file))).step (.append (tmpOf file) d)).read q = fs.read q :=
    fun d q hq => (read_put_ne _ _ q _ hq).trans (o1 q hq)
  rcases h with rfl | (rfl | ⟨k, _, rfl⟩) | rfl | h
  · exact ⟨Or.inl rfl, fun _ _ _ => rfl⟩
  · exact ⟨Or.inl (o1 file hne), fun q _ hq => o1 q hq⟩
  · exact ⟨Or.inl (a1 _ file hne), fun q _ hq => a1 _ q hq⟩
  · exact ⟨Or.inl (a1 _ file hne), fun q _ hq => a1 _ q hq⟩
  · -- after os.replace
    rcases h with rfl
    have hsrc : ((fs.step (.openTrunc (tmpOf file))).step (.append (tmpOf file) text)).read (tmpOf file) = some text := by
      simp only [FS.step]
      rw [read_put_same, read_put_same]
      simp
    constructor
    · right
      simp only [FS.step] at hsrc ⊢
      rw [hsrc]
      exact read_put_same _ _ _
    · intro q hqf hqt
      have : ((fs.step (.openTrunc (tmpOf file))).step (.append (tmpOf file) text)).read q = fs.read q := a1 text q hqt
      simp only [FS.step] at hsrc this ⊢
      rw [hsrc]
      simp only
      rw [read_put_ne _ _ q _ hqf, read_remove_ne _ _ q hqt]
      exact this

theorem save_result (fs : FS) (file : Path) (text : Bytes) :
    (fs.run (saveTrace file text)).read file = some text := by
  simp only [saveTrace, FS.run, List.foldl, FS.step]
  rw [read_put_same, read_put_same]
  rw [read_put_same]
  rfl

end SmppVerif.Lemmas.Persist
