/- File-system and PersistingDict lemmas (C19). -/
import SmppVerif.Model.Persist

namespace SmppVerif.Lemmas.Persist
open SmppVerif SmppVerif.Persist

theorem find_filter_ne (l : List (Path × Bytes)) (p q : Path) (h : q ≠ p) :
    (l.filter (·.1 ≠ p)).find? (·.1 = q) = l.find? (·.1 = q) := by
  rw [List.find?_filter]
  congr 1
  funext a
  by_cases hq : a.1 = q
  · have : a.1 ≠ p := fun e => h (hq.symm.trans e)
    simp [hq, this]
    exact fun e => h e
  · simp [hq]

theorem read_put_same (fs : FS) (p : Path) (b : Bytes) : (fs.put p b).read p = some b := by
  simp [FS.read, FS.put]

theorem read_put_ne (fs : FS) (p q : Path) (b : Bytes) (h : q ≠ p) : (fs.put p b).read q = fs.read q := by
  simp only [FS.read, FS.put, List.find?_cons]
  have : decide ((p, b).1 = q) = false := by simp; exact fun e => h e.symm
  rw [this]
  simp only
  rw [find_filter_ne _ p q h]

theorem read_remove_ne (fs : FS) (p q : Path) (h : q ≠ p) : (fs.remove p).read q = fs.read q := by
  simp only [FS.read, FS.remove]
  rw [find_filter_ne _ p q h]

theorem tmp_ne (file : Path) : tmpOf file ≠ file := by
  intro h
  have := congrArg List.length h
  simp [tmpOf, tmpSuffix] at this

/-- a step on the temporary file leaves every other file alone -/
theorem step_tmp_other (fs : FS) (t q : Path) (c : Sys) (hq : q ≠ t)
    (hc : c = .openTrunc t ∨ ∃ d, c = .append t d) : (fs.step c).read q = fs.read q := by
  rcases hc with rfl | ⟨d, rfl⟩
  · exact read_put_ne fs t q [] hq
  · exact read_put_ne fs t q _ hq

/-- CRASH ATOMICITY of `_save`: whatever prefix of its system calls was performed — including
    any partial write — the store file reads either as before or as the complete new text, and
    no file other than the store and its temporary is touched. -/
theorem crash_atomic (fs : FS) (file : Path) (text : Bytes) (fs' : FS)
    (h : fs' ∈ crashStates fs (saveTrace file text)) :
    (fs'.read file = fs.read file ∨ fs'.read file = some text) ∧
    ∀ q, q ≠ file → q ≠ tmpOf file → fs'.read q = fs.read q := by
  have hne : file ≠ tmpOf file := fun e => tmp_ne file e.symm
  simp only [saveTrace, crashStates, List.mem_cons, List.mem_append, List.mem_map, List.mem_range, List.nil_append,
    List.not_mem_nil, or_false] at h
  have o1 : ∀ q, q ≠ tmpOf file → (fs.step (.openTrunc (tmpOf file))).read q = fs.read q :=
    fun q hq => read_put_ne fs _ q [] hq
  have a1 : ∀ d q, q ≠ tmpOf file →
      ((fs.step (.openTrunc (tmpOf file))).step (.append (tmpOf file) d)).read q = fs.read q :=
    fun d q hq => (read_put_ne _ _ q _ hq).trans (o1 q hq)
  rcases h with rfl | (rfl | ⟨k, _, rfl⟩) | rfl | h
  · exact ⟨Or.inl rfl, fun _ _ _ => rfl⟩
  · exact ⟨Or.inl (o1 file hne), fun q _ hq => o1 q hq⟩
  · exact ⟨Or.inl (a1 _ file hne), fun q _ hq => a1 _ q hq⟩
  · exact ⟨Or.inl (a1 _ file hne), fun q _ hq => a1 _ q hq⟩
  · -- after os.replace
    rcases h with rfl
    have hsrc : ((fs.step (.openTrunc (tmpOf file))).step (.append (tmpOf file) text)).read (tmpOf file) = some text := by
      simp only [FS.step]
      rw [read_put_same, read_put_same]
      simp
    constructor
    · right
      simp only [FS.step] at hsrc ⊢
      rw [hsrc]
      exact read_put_same _ _ _
    · intro q hqf hqt
      have : ((fs.step (.openTrunc (tmpOf file))).step (.append (tmpOf file) text)).read q = fs.read q := a1 text q hqt
      simp only [FS.step] at hsrc this ⊢
      rw [hsrc]
      simp only
      rw [read_put_ne _ _ q _ hqf, read_remove_ne _ _ q hqt]
      exact this

theorem save_result (fs : FS) (file : Path) (text : Bytes) :
    (fs.run (saveTrace file text)).read file = some text := by
  simp only [saveTrace, FS.run, List.foldl, FS.step]
  rw [read_put_same, read_put_same]
  rw [read_put_same]
  rfl

/-! ### the dictionary -/

/-- the trace of an operation is empty or one `_save` of the new memory -/
theorem trace_shape {V} (ser : Mem V → Bytes) (file : Path) (m : Mem V) (op : Op V) :
    (opStep ser file m op).2.1 = [] ∨
    (opStep ser file m op).2.1 = saveTrace file (ser (opStep ser file m op).1) := by
  cases op with
  | set k v => simp only [opStep]; split <;> simp
  | del k =>
    simp only [opStep]
    split
    · simp
    · dsimp only; split <;> simp
  | pop k =>
    simp only [opStep]
    split
    · simp
    · dsimp only; split <;> simp
  | mutate k v => simp only [opStep]; split <;> simp

theorem load_of_read {V} (parse : Bytes → Option (Mem V)) (fs fs' : FS) (file : Path)
    (h : fs'.read file = fs.read file) : load parse fs' file = load parse fs file := by
  unfold load; rw [h]

/-- CRASH CONSISTENCY of a dictionary operation: a crash at any point of it (any prefix of its
    system calls, any partial write) leaves a file that loads as the dictionary before the operation
    or as the dictionary after it — never empty, never unreadable. -/
theorem op_crash_atomic {V} (ser : Mem V → Bytes) (parse : Bytes → Option (Mem V))
    (hrt : ∀ m, parse (ser m) = some m) (file : Path) (m : Mem V) (fs : FS) (op : Op V)
    (fs' : FS) (h : fs' ∈ crashStates fs (opStep ser file m op).2.1) :
    load parse fs' file = load parse fs file ∨ load parse fs' file = (opStep ser file m op).1 := by
  rcases trace_shape ser file m op with ht | ht
  · rw [ht] at h
    simp only [crashStates, List.mem_singleton] at h
    subst h
    exact Or.inl rfl
  · rw [ht] at h
    rcases (crash_atomic fs file _ fs' h).1 with hr | hr
    · exact Or.inl (load_of_read parse fs fs' file hr)
    · right
      unfold load
      rw [hr]
      simp only [hrt]
      rfl

/-- Every operation that saves at all leaves file and memory in agreement — whatever was changed
    in place before it. -/
theorem save_resyncs {V} (ser : Mem V → Bytes) (parse : Bytes → Option (Mem V))
    (hrt : ∀ m, parse (ser m) = some m) (file : Path) (m : Mem V) (fs : FS) (op : Op V)
    (h : (opStep ser file m op).2.1 ≠ []) :
    load parse (fs.run (opStep ser file m op).2.1) file = (opStep ser file m op).1 := by
  rcases trace_shape ser file m op with ht | ht
  · exact absurd ht h
  · rw [ht]
    unfold load
    rw [save_result]
    simp only [hrt]
    rfl

def isMutate {V} : Op V → Bool
  | .mutate .. => true
  | _ => false

/-- run a history of operations: memory and file system -/
def runOps {V} (ser : Mem V → Bytes) (file : Path) : Mem V × FS → List (Op V) → Mem V × FS
  | s, [] => s
  | (m, fs), op :: rest =>
    runOps ser file ((opStep ser file m op).1, fs.run (opStep ser file m op).2.1) rest

theorem step_sync {V} (ser : Mem V → Bytes) (parse : Bytes → Option (Mem V))
    (hrt : ∀ m, parse (ser m) = some m) (file : Path) (hf : file ≠ []) (m : Mem V) (fs : FS) (op : Op V)
    (hop : isMutate op = false) (hs : load parse fs file = m) :
    load parse (fs.run (opStep ser file m op).2.1) file = (opStep ser file m op).1 := by
  by_cases ht : (opStep ser file m op).2.1 = []
  · rw [ht]
    have hm : (opStep ser file m op).1 = m := by
      have hfe : file.isEmpty = false := by cases file <;> simp_all
      cases op with
      | set k v => simp [opStep, hfe, saveTrace] at ht
      | del k =>
        simp only [opStep] at ht ⊢
        split <;> rename_i hg
        · rfl
        · simp [hg, hfe, saveTrace] at ht
      | pop k =>
        simp only [opStep] at ht ⊢
        split <;> rename_i hg
        · rfl
        · simp [hg, hfe, saveTrace] at ht
      | mutate k v => simp [isMutate] at hop
    rw [hm]
    exact hs
  · exact save_resyncs ser parse hrt file m fs op ht

/-- RESTART: after any history of assignments, deletions and pops, a new instance loading the
    file holds exactly the dictionary the old instance held. -/
theorem restart_sees_all {V} (ser : Mem V → Bytes) (parse : Bytes → Option (Mem V))
    (hrt : ∀ m, parse (ser m) = some m) (file : Path) (hf : file ≠ []) :
    ∀ (ops : List (Op V)) (m : Mem V) (fs : FS), (∀ op ∈ ops, isMutate op = false) →
      load parse fs file = m →
      load parse (runOps ser file (m, fs) ops).2 file = (runOps ser file (m, fs) ops).1
  | [], m, fs, _, hs => hs
  | op :: rest, m, fs, hops, hs => by
    unfold runOps
    exact restart_sees_all ser parse hrt file hf rest _ _ (fun o ho => hops o (by simp [ho]))
      (step_sync ser parse hrt file hf m fs op (hops op (by simp)) hs)

/-! ### the five store files -/

theorem store_files_distinct (dir name : Path) :
    ∀ s ∈ storeSuffixes, ∀ t ∈ storeSuffixes,
      (storeFile dir name s = storeFile dir name t → s = t) ∧
      tmpOf (storeFile dir name s) ≠ storeFile dir name t := by
  have key : ∀ s ∈ storeSuffixes, ∀ t ∈ storeSuffixes, s ++ tmpSuffix ≠ t := by decide +kernel
  intro s hs t ht
  constructor
  · intro h
    unfold storeFile at h
    exact List.append_cancel_left h
  · intro h
    unfold tmpOf storeFile at h
    rw [List.append_assoc] at h
    exact key s hs t ht (List.append_cancel_left h)

end SmppVerif.Lemmas.Persist
