/- Reading back the body of submit_sm / deliver_sm from a buffer laid out as SMPP 3.4 prescribes
   (C03 round trip, C04 decoding direction). -/
import SmppVerif.Lemmas.PduRead
import SmppVerif.Lemmas.SpecEncode

namespace SmppVerif.Lemmas.SmRead
open SmppVerif SmppVerif.Pdu SmppVerif.Lemmas.Pdu SmppVerif.Lemmas.PduRead

/-- the reader stands at index `i` of `buf`, with `post` still to come -/
def Cur (buf : List Nat) (i : Nat) (post : List Nat) : Prop := ∃ pre, buf = pre ++ post ∧ pre.length = i

theorem cur_start (hd body : List Nat) : Cur (hd ++ body) hd.length body := ⟨hd, rfl, rfl⟩

theorem cur_cstr {buf : List Nat} {i : Nat} {s post : List Nat} (c : Cur buf i (s ++ 0 :: post)) (h : CStrOK s) :
    getCStr buf i = .ok (s, i + s.length + 1) ∧ Cur buf (i + s.length + 1) post := by
  obtain ⟨pre, rfl, rfl⟩ := c
  refine ⟨getCStr_at pre s post h, pre ++ s ++ [0], by simp, by simp; omega⟩

theorem cur_int1 {buf : List Nat} {i v : Nat} {post : List Nat} (c : Cur buf i (v :: post)) :
    getInt buf i 1 = .ok (v, i + 1) ∧ Cur buf (i + 1) post := by
  obtain ⟨pre, rfl, rfl⟩ := c
  exact ⟨getInt1_at pre v post, pre ++ [v], by simp, by simp⟩

theorem cur_int2 {buf : List Nat} {i a b : Nat} {post : List Nat} (c : Cur buf i (a :: b :: post)) :
    getInt buf i 2 = .ok (a * 256 + b, i + 2) ∧ Cur buf (i + 2) post := by
  obtain ⟨pre, rfl, rfl⟩ := c
  refine ⟨?_, pre ++ [a, b], by simp, by simp⟩
  unfold getInt
  rw [if_pos (Or.inr (Or.inl rfl))]
  unfold unpackU
  rw [if_pos (by simp), List.drop_left]
  simp [beVal, Except.map]

theorem cur_slice {buf : List Nat} {i : Nat} {mid post : List Nat} (c : Cur buf i (mid ++ post)) :
    slice buf i (i + mid.length) = mid ∧ Cur buf (i + mid.length) post := by
  obtain ⟨pre, rfl, rfl⟩ := c
  refine ⟨?_, pre ++ mid, by simp, by simp⟩
  have := slice_mid pre mid post
  rwa [List.append_assoc] at this

theorem cur_end {buf : List Nat} {i : Nat} (c : Cur buf i []) : i = buf.length := by
  obtain ⟨pre, rfl, rfl⟩ := c
  simp

/-- the mandatory part of a submit_sm / deliver_sm body, as SMPP 3.4 §4.4.1 lays it out -/
def mandatory (svc : List Nat) (ston snpi : Nat) (snum : List Nat) (dton dnpi : Nat) (dnum : List Nat)
    (esm pid prio : Nat) (sched valid : List Nat) (reg repl dc defId : Nat) (sm tlvs : List Nat) : List Nat :=
  svc ++ 0 :: ston :: snpi :: (snum ++ 0 :: dton :: dnpi :: (dnum ++ 0 :: esm :: pid :: prio ::
    (sched ++ 0 :: (valid ++ 0 :: reg :: repl :: dc :: defId :: sm.length :: (sm ++ tlvs)))))

structure FieldsOK (svc : List Nat) (ston snpi : Nat) (snum : List Nat) (dton dnpi : Nat) (dnum : List Nat)
    (sched valid : List Nat) : Prop where
  svc : CStrOK svc
  snum : CStrOK snum ∧ snum.length ≤ 20
  dnum : CStrOK dnum ∧ dnum.length ≤ 20
  sched : CStrOK sched
  valid : CStrOK valid
  ston : enumHas Gen.Enums.ton ston = true
  snpi : enumHas Gen.Enums.npi snpi = true
  dton : enumHas Gen.Enums.ton dton = true
  dnpi : enumHas Gen.Enums.npi dnpi = true

/-- MANDATORY FIELDS READ BACK, text in short_message, no optional parameters: `from_pdu` on a body
    laid out as the specification prescribes returns the field values it was built from. -/
theorem smFromPdu_short (hd : List Nat) (h16 : hd.length = 16) (h : Header) (dflt enc : Enc)
    (svc : List Nat) (ston snpi : Nat) (snum : List Nat) (dton dnpi : Nat) (dnum : List Nat)
    (esm pid prio : Nat) (sched valid : List Nat) (reg repl dc defId : Nat) (sm text : List Nat)
    (schedT validT : Time.TimeObj)
    (w : FieldsOK svc ston snpi snum dton dnpi dnum sched valid)
    (henc : (if dc = 0 then Except.ok dflt else encOfDataCoding dc) = .ok enc)
    (hdm : decodeMessage esm (decodeCodec enc) sm = .ok (text, []))
    (hts : Time.fromSmpp sched = .ok schedT) (htv : Time.fromSmpp valid = .ok validT)
    (hsvc : svc.length ≤ 5) (htext : text ≠ [])
    (hlen : h.pduLength = (hd ++ mandatory svc ston snpi snum dton dnpi dnum esm pid prio sched valid reg repl dc defId sm []).length) :
    smFromPdu (hd ++ mandatory svc ston snpi snum dton dnpi dnum esm pid prio sched valid reg repl dc defId sm []) h dflt =
      .ok { seq := h.seq, status := 0, shortMessage := text,
            source := ⟨snum, ston, snpi⟩, dest := ⟨dnum, dton, dnpi⟩, serviceType := svc,
            esmClass := esm, protocolId := pid, priorityFlag := prio, schedule := schedT, validity := validT,
            registeredDelivery := reg, replaceIfPresent := repl,
            encoding := if enc.name = str Gen.Consts.defaultEncoding then none else some enc,
            smDefaultMsgId := defId, messagePayload := [], optionalParams := [] } := by
  have c0 := cur_start hd (mandatory svc ston snpi snum dton dnpi dnum esm pid prio sched valid reg repl dc defId sm [])
  rw [h16] at c0
  generalize hbuf : hd ++ mandatory svc ston snpi snum dton dnpi dnum esm pid prio sched valid reg repl dc defId sm [] = buf at *
  unfold mandatory at c0
  obtain ⟨r1, c1⟩ := cur_cstr c0 w.svc
  obtain ⟨r2, c2⟩ := cur_int1 c1
  obtain ⟨r3, c3⟩ := cur_int1 c2
  obtain ⟨r4, c4⟩ := cur_cstr c3 w.snum.1
  obtain ⟨r5, c5⟩ := cur_int1 c4
  obtain ⟨r6, c6⟩ := cur_int1 c5
  obtain ⟨r7, c7⟩ := cur_cstr c6 w.dnum.1
  obtain ⟨r8, c8⟩ := cur_int1 c7
  obtain ⟨r9, c9⟩ := cur_int1 c8
  obtain ⟨r10, c10⟩ := cur_int1 c9
  obtain ⟨r11, c11⟩ := cur_cstr c10 w.sched
  obtain ⟨r12, c12⟩ := cur_cstr c11 w.valid
  obtain ⟨r13, c13⟩ := cur_int1 c12
  obtain ⟨r14, c14⟩ := cur_int1 c13
  obtain ⟨r15, c15⟩ := cur_int1 c14
  obtain ⟨r16, c16⟩ := cur_int1 c15
  obtain ⟨r17, c17⟩ := cur_int1 c16
  obtain ⟨hsl, c18⟩ := cur_slice c17
  have hend := cur_end c18
  unfold smFromPdu
  simp only [bind, Except.bind, pure, Except.pure]
  rw [r1]; simp only
  rw [r2]; simp only [enumVal, w.ston, if_true]
  rw [r3]; simp only [w.snpi, if_true]
  rw [r4]; simp only [checkLen, w.snum.2, if_true]
  rw [r5]; simp only [w.dton, if_true]
  rw [r6]; simp only [w.dnpi, if_true]
  rw [r7]; simp only [w.dnum.2, if_true]
  rw [r8]; simp only
  rw [r9]; simp only
  rw [r10]; simp only
  rw [r11]; simp only
  rw [r12]; simp only
  rw [r13]; simp only
  rw [r14]; simp only
  rw [r15]; simp only
  rw [henc]; simp only
  rw [r16]; simp only
  rw [r17]; simp only
  rw [hsl, hdm]; simp only
  -- no optional parameters: the TLV loop stops at once
  have hidx : ¬ (16 + svc.length + 1 + 1 + 1 + snum.length + 1 + 1 + 1 + dnum.length + 1 + 1 + 1 + 1 + sched.length + 1 +
      valid.length + 1 + 1 + 1 + 1 + 1 + 1 + sm.length < h.pduLength) := by
    rw [hlen, ← hend]; omega
  unfold tlvLoop
  rw [if_neg hidx]
  simp only
  rw [hts, htv]
  simp only [smValidate]
  have h5 : ¬ svc.length > 5 := by omega
  have hte : text.isEmpty = false := by cases text <;> simp_all
  simp [h5, hte]

end SmppVerif.Lemmas.SmRead
