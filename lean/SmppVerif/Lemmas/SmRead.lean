/- Reading back the body of submit_sm / deliver_sm from a buffer laid out as SMPP 3.4 prescribes
   (C03 round trip, C04 decoding direction). -/
import SmppVerif.Lemmas.PduRead
import SmppVerif.Lemmas.SpecEncode
import SmppVerif.Lemmas.Gsm
import SmppVerif.Lemmas.Time

namespace SmppVerif.Lemmas.SmRead
open SmppVerif SmppVerif.Pdu SmppVerif.Lemmas.Pdu SmppVerif.Lemmas.PduRead

/-- the reader stands at index `i` of `buf`, with `post` still to come -/
def Cur (buf : List Nat) (i : Nat) (post : List Nat) : Prop := ∃ pre, buf = pre ++ post ∧ pre.length = i

theorem cur_start (hd body : List Nat) : Cur (hd ++ body) hd.length body := ⟨hd, rfl, rfl⟩

theorem cur_cstr {buf : List Nat} {i : Nat} {s post : List Nat} (c : Cur buf i (s ++ 0 :: post)) (h : CStrOK s) :
    getCStr buf i = .ok (s, i + s.length + 1) ∧ Cur buf (i + s.length + 1) post := by
  obtain ⟨pre, rfl, rfl⟩ := c
  refine ⟨getCStr_at pre s post h, pre ++ s ++ [0], by simp, by simp; omega⟩

theorem cur_int1 {buf : List Nat} {i v : Nat} {post : List Nat} (c : Cur buf i (v :: post)) :
    getInt buf i 1 = .ok (v, i + 1) ∧ Cur buf (i + 1) post := by
  obtain ⟨pre, rfl, rfl⟩ := c
  exact ⟨getInt1_at pre v post, pre ++ [v], by simp, by simp⟩

theorem cur_int2 {buf : List Nat} {i a b : Nat} {post : List Nat} (c : Cur buf i (a :: b :: post)) :
    getInt buf i 2 = .ok (a * 256 + b, i + 2) ∧ Cur buf (i + 2) post := by
  obtain ⟨pre, rfl, rfl⟩ := c
  refine ⟨?_, pre ++ [a, b], by simp, by simp⟩
  unfold getInt
  rw [if_pos (Or.inr (Or.inl rfl))]
  unfold unpackU
  rw [if_pos (by simp), List.drop_left]
  simp [beVal, Except.map]

theorem cur_slice {buf : List Nat} {i : Nat} {mid post : List Nat} (c : Cur buf i (mid ++ post)) :
    slice buf i (i + mid.length) = mid ∧ Cur buf (i + mid.length) post := by
  obtain ⟨pre, rfl, rfl⟩ := c
  refine ⟨?_, pre ++ mid, by simp, by simp⟩
  have := slice_mid pre mid post
  rwa [List.append_assoc] at this

theorem cur_end {buf : List Nat} {i : Nat} (c : Cur buf i []) : i = buf.length := by
  obtain ⟨pre, rfl, rfl⟩ := c
  simp

/-- the mandatory part of a submit_sm / deliver_sm body, as SMPP 3.4 §4.4.1 lays it out -/
def mandatory (svc : List Nat) (ston snpi : Nat) (snum : List Nat) (dton dnpi : Nat) (dnum : List Nat)
    (esm pid prio : Nat) (sched valid : List Nat) (reg repl dc defId : Nat) (sm tlvs : List Nat) : List Nat :=
  svc ++ 0 :: ston :: snpi :: (snum ++ 0 :: dton :: dnpi :: (dnum ++ 0 :: esm :: pid :: prio ::
    (sched ++ 0 :: (valid ++ 0 :: reg :: repl :: dc :: defId :: sm.length :: (sm ++ tlvs)))))

structure FieldsOK (svc : List Nat) (ston snpi : Nat) (snum : List Nat) (dton dnpi : Nat) (dnum : List Nat)
    (sched valid : List Nat) : Prop where
  svc : CStrOK svc
  snum : CStrOK snum ∧ snum.length ≤ 20
  dnum : CStrOK dnum ∧ dnum.length ≤ 20
  sched : CStrOK sched
  valid : CStrOK valid
  ston : enumHas Gen.Enums.ton ston = true
  snpi : enumHas Gen.Enums.npi snpi = true
  dton : enumHas Gen.Enums.ton dton = true
  dnpi : enumHas Gen.Enums.npi dnpi = true

/-- MANDATORY FIELDS READ BACK, text in short_message, no optional parameters: `from_pdu` on a body
    laid out as the specification prescribes returns the field values it was built from. -/
theorem smFromPdu_short (hd : List Nat) (h16 : hd.length = 16) (h : Header) (dflt enc : Enc)
    (svc : List Nat) (ston snpi : Nat) (snum : List Nat) (dton dnpi : Nat) (dnum : List Nat)
    (esm pid prio : Nat) (sched valid : List Nat) (reg repl dc defId : Nat) (sm text : List Nat)
    (schedT validT : Time.TimeObj)
    (w : FieldsOK svc ston snpi snum dton dnpi dnum sched valid)
    (henc : (if dc = 0 then Except.ok dflt else encOfDataCoding dc) = .ok enc)
    (hdm : decodeMessage esm (decodeCodec enc) sm = .ok (text, []))
    (hts : Time.fromSmpp sched = .ok schedT) (htv : Time.fromSmpp valid = .ok validT)
    (hsvc : svc.length ≤ 5) (htext : text ≠ [])
    (hlen : h.pduLength = (hd ++ mandatory svc ston snpi snum dton dnpi dnum esm pid prio sched valid reg repl dc defId sm []).length) :
    smFromPdu (hd ++ mandatory svc ston snpi snum dton dnpi dnum esm pid prio sched valid reg repl dc defId sm []) h dflt =
      .ok { seq := h.seq, status := 0, shortMessage := text,
            source := ⟨snum, ston, snpi⟩, dest := ⟨dnum, dton, dnpi⟩, serviceType := svc,
            esmClass := esm, protocolId := pid, priorityFlag := prio, schedule := schedT, validity := validT,
            registeredDelivery := reg, replaceIfPresent := repl,
            encoding := if enc.name = str Gen.Consts.defaultEncoding then none else some enc,
            smDefaultMsgId := defId, messagePayload := [], optionalParams := [] } := by
  have c0 := cur_start hd (mandatory svc ston snpi snum dton dnpi dnum esm pid prio sched valid reg repl dc defId sm [])
  rw [h16] at c0
  generalize hbuf : hd ++ mandatory svc ston snpi snum dton dnpi dnum esm pid prio sched valid reg repl dc defId sm [] = buf at *
  unfold mandatory at c0
  obtain ⟨r1, c1⟩ := cur_cstr c0 w.svc
  obtain ⟨r2, c2⟩ := cur_int1 c1
  obtain ⟨r3, c3⟩ := cur_int1 c2
  obtain ⟨r4, c4⟩ := cur_cstr c3 w.snum.1
  obtain ⟨r5, c5⟩ := cur_int1 c4
  obtain ⟨r6, c6⟩ := cur_int1 c5
  obtain ⟨r7, c7⟩ := cur_cstr c6 w.dnum.1
  obtain ⟨r8, c8⟩ := cur_int1 c7
  obtain ⟨r9, c9⟩ := cur_int1 c8
  obtain ⟨r10, c10⟩ := cur_int1 c9
  obtain ⟨r11, c11⟩ := cur_cstr c10 w.sched
  obtain ⟨r12, c12⟩ := cur_cstr c11 w.valid
  obtain ⟨r13, c13⟩ := cur_int1 c12
  obtain ⟨r14, c14⟩ := cur_int1 c13
  obtain ⟨r15, c15⟩ := cur_int1 c14
  obtain ⟨r16, c16⟩ := cur_int1 c15
  obtain ⟨r17, c17⟩ := cur_int1 c16
  obtain ⟨hsl, c18⟩ := cur_slice c17
  have hend := cur_end c18
  unfold smFromPdu
  simp only [bind, Except.bind, pure, Except.pure]
  rw [r1]; simp only
  rw [r2]; simp only [enumVal, w.ston, if_true]
  rw [r3]; simp only [w.snpi, if_true]
  rw [r4]; simp only [checkLen, w.snum.2, if_true]
  rw [r5]; simp only [w.dton, if_true]
  rw [r6]; simp only [w.dnpi, if_true]
  rw [r7]; simp only [w.dnum.2, if_true]
  rw [r8]; simp only
  rw [r9]; simp only
  rw [r10]; simp only
  rw [r11]; simp only
  rw [r12]; simp only
  rw [r13]; simp only
  rw [r14]; simp only
  rw [r15]; simp only
  rw [henc]; simp only
  rw [r16]; simp only
  rw [r17]; simp only
  rw [hsl, hdm]; simp only
  -- no optional parameters: the TLV loop stops at once
  have hidx : ¬ (16 + svc.length + 1 + 1 + 1 + snum.length + 1 + 1 + 1 + dnum.length + 1 + 1 + 1 + 1 + sched.length + 1 +
      valid.length + 1 + 1 + 1 + 1 + 1 + 1 + sm.length < h.pduLength) := by
    rw [hlen, ← hend]; omega
  unfold tlvLoop
  rw [if_neg hidx]
  simp only
  rw [hts, htv]
  simp only [smValidate]
  have h5 : ¬ svc.length > 5 := by omega
  have hte : text.isEmpty = false := by
    cases text with
    | nil => exact absurd rfl htext
    | cons _ _ => rfl
  simp [h5, hte]

/-- MANDATORY FIELDS READ BACK, text in a message_payload parameter (short_message empty). -/
theorem smFromPdu_payload (hd : List Nat) (h16 : hd.length = 16) (h : Header) (dflt enc : Enc)
    (svc : List Nat) (ston snpi : Nat) (snum : List Nat) (dton dnpi : Nat) (dnum : List Nat)
    (esm pid prio : Nat) (sched valid : List Nat) (reg repl dc defId : Nat) (pbytes text : List Nat)
    (thi tlo lhi llo : Nat)
    (schedT validT : Time.TimeObj)
    (w : FieldsOK svc ston snpi snum dton dnpi dnum sched valid)
    (henc : (if dc = 0 then Except.ok dflt else encOfDataCoding dc) = .ok enc)
    (hdm0 : decodeMessage esm (decodeCodec enc) [] = .ok ([], []))
    (hdm : decodeMessage esm (decodeCodec enc) pbytes = .ok (text, []))
    (htag : thi * 256 + tlo = Gen.Tlv.messagePayload) (hl : lhi * 256 + llo = pbytes.length)
    (hts : Time.fromSmpp sched = .ok schedT) (htv : Time.fromSmpp valid = .ok validT)
    (hsvc : svc.length ≤ 5) (htext : text ≠ [])
    (hlen : h.pduLength = (hd ++ mandatory svc ston snpi snum dton dnpi dnum esm pid prio sched valid reg repl dc defId []
        (thi :: tlo :: lhi :: llo :: pbytes)).length) :
    smFromPdu (hd ++ mandatory svc ston snpi snum dton dnpi dnum esm pid prio sched valid reg repl dc defId []
        (thi :: tlo :: lhi :: llo :: pbytes)) h dflt =
      .ok { seq := h.seq, status := 0, shortMessage := [],
            source := ⟨snum, ston, snpi⟩, dest := ⟨dnum, dton, dnpi⟩, serviceType := svc,
            esmClass := esm, protocolId := pid, priorityFlag := prio, schedule := schedT, validity := validT,
            registeredDelivery := reg, replaceIfPresent := repl,
            encoding := if enc.name = str Gen.Consts.defaultEncoding then none else some enc,
            smDefaultMsgId := defId, messagePayload := text, optionalParams := [] } := by
  have c0 := cur_start hd (mandatory svc ston snpi snum dton dnpi dnum esm pid prio sched valid reg repl dc defId []
    (thi :: tlo :: lhi :: llo :: pbytes))
  rw [h16] at c0
  generalize hbuf : hd ++ mandatory svc ston snpi snum dton dnpi dnum esm pid prio sched valid reg repl dc defId []
    (thi :: tlo :: lhi :: llo :: pbytes) = buf at *
  unfold mandatory at c0
  simp only [List.nil_append, List.length_nil] at c0
  obtain ⟨r1, c1⟩ := cur_cstr c0 w.svc
  obtain ⟨r2, c2⟩ := cur_int1 c1
  obtain ⟨r3, c3⟩ := cur_int1 c2
  obtain ⟨r4, c4⟩ := cur_cstr c3 w.snum.1
  obtain ⟨r5, c5⟩ := cur_int1 c4
  obtain ⟨r6, c6⟩ := cur_int1 c5
  obtain ⟨r7, c7⟩ := cur_cstr c6 w.dnum.1
  obtain ⟨r8, c8⟩ := cur_int1 c7
  obtain ⟨r9, c9⟩ := cur_int1 c8
  obtain ⟨r10, c10⟩ := cur_int1 c9
  obtain ⟨r11, c11⟩ := cur_cstr c10 w.sched
  obtain ⟨r12, c12⟩ := cur_cstr c11 w.valid
  obtain ⟨r13, c13⟩ := cur_int1 c12
  obtain ⟨r14, c14⟩ := cur_int1 c13
  obtain ⟨r15, c15⟩ := cur_int1 c14
  obtain ⟨r16, c16⟩ := cur_int1 c15
  obtain ⟨r17, c17⟩ := cur_int1 c16
  obtain ⟨t1, c18⟩ := cur_int2 c17
  obtain ⟨t2, c19⟩ := cur_int2 c18
  have c19' : Cur buf (16 + svc.length + 1 + 1 + 1 + snum.length + 1 + 1 + 1 + dnum.length + 1 + 1 + 1 + 1 + sched.length + 1 +
      valid.length + 1 + 1 + 1 + 1 + 1 + 1 + 2 + 2) (pbytes ++ []) := by simpa using c19
  obtain ⟨hsl, c20⟩ := cur_slice c19'
  have hend := cur_end c20
  unfold smFromPdu
  simp only [bind, Except.bind, pure, Except.pure]
  rw [r1]; simp only
  rw [r2]; simp only [enumVal, w.ston, if_true]
  rw [r3]; simp only [w.snpi, if_true]
  rw [r4]; simp only [checkLen, w.snum.2, if_true]
  rw [r5]; simp only [w.dton, if_true]
  rw [r6]; simp only [w.dnpi, if_true]
  rw [r7]; simp only [w.dnum.2, if_true]
  rw [r8]; simp only
  rw [r9]; simp only
  rw [r10]; simp only
  rw [r11]; simp only
  rw [r12]; simp only
  rw [r13]; simp only
  rw [r14]; simp only
  rw [r15]; simp only
  rw [henc]; simp only
  rw [r16]; simp only
  rw [r17]; simp only
  have hs0 : slice buf (16 + svc.length + 1 + 1 + 1 + snum.length + 1 + 1 + 1 + dnum.length + 1 + 1 + 1 + 1 + sched.length + 1 +
      valid.length + 1 + 1 + 1 + 1 + 1 + 1) (16 + svc.length + 1 + 1 + 1 + snum.length + 1 + 1 + 1 + dnum.length + 1 + 1 + 1 + 1 + sched.length + 1 +
      valid.length + 1 + 1 + 1 + 1 + 1 + 1 + 0) = [] := by simp [slice]
  rw [hs0, hdm0]; simp only [Nat.add_zero]
  -- one optional parameter: message_payload
  have hlt : 16 + svc.length + 1 + 1 + 1 + snum.length + 1 + 1 + 1 + dnum.length + 1 + 1 + 1 + 1 + sched.length + 1 +
      valid.length + 1 + 1 + 1 + 1 + 1 + 1 < h.pduLength := by
    rw [hlen, ← hend]; omega
  have hfuel : buf.length + 1 = (buf.length - 1) + 1 + 1 := by rw [← hend]; omega
  rw [hfuel]
  rw [tlvLoop]
  rw [if_pos hlt, t1]
  simp only
  rw [t2]
  simp only
  rw [htag, if_pos rfl, hl, hsl, hdm]
  simp only [List.append_nil]
  have hstop : ¬ (16 + svc.length + 1 + 1 + 1 + snum.length + 1 + 1 + 1 + dnum.length + 1 + 1 + 1 + 1 + sched.length + 1 +
      valid.length + 1 + 1 + 1 + 1 + 1 + 1 + 2 + 2 + pbytes.length < h.pduLength) := by
    rw [hlen, ← hend]; omega
  rw [tlvLoop, if_neg hstop]
  simp only
  rw [hts, htv]
  simp only [smValidate]
  have h5 : ¬ svc.length > 5 := by omega
  have hte : text.isEmpty = false := by
    cases text with
    | nil => exact absurd rfl htext
    | cons _ _ => rfl
  simp [h5, hte]

/-! ### the layout `pdu()` writes is the layout read back -/

open SmppVerif.Spec.Smpp in
theorem be1' (v : Nat) (h : v < 256) : be 1 v = [v] := by
  simp [be, Nat.mod_eq_of_lt h]

open SmppVerif.Lemmas.SpecEncode SmppVerif.Spec.Smpp in
/-- the specification's field list, flattened, is the `mandatory` layout -/
theorem layout_eq_mandatory (m : Sm) (w : SmWF m) (sm payloadTlv ts tv : List Nat) (dc : Nat)
    (hdc : dc < 256) (hsm : sm.length < 256)
    (hts : Time.toSmpp m.schedule = .ok ts) (htv : Time.toSmpp m.validity = .ok tv)
    (hta : (∀ c ∈ ts, c < 128) ∧ (∀ c ∈ tv, c < 128)) :
    smLayout m sm payloadTlv dc [] =
      .ok (mandatory m.serviceType m.source.ton m.source.npi m.source.number m.dest.ton m.dest.npi m.dest.number
        m.esmClass.toNat m.protocolId.toNat m.priorityFlag.toNat ts tv m.registeredDelivery.toNat
        m.replaceIfPresent.toNat dc m.smDefaultMsgId.toNat sm payloadTlv) := by
  rw [smLayout_eq_spec m w sm payloadTlv [] ts tv dc hdc hsm hts htv hta]
  have b := fun (v : Int) (h : 0 ≤ v ∧ v < 256) => be1' v.toNat (by omega)
  simp only [SmFields.fields, List.flatMap_cons, List.flatMap_nil, Field.bytes, mandatory,
    be1' _ w.source.2.1, be1' _ w.source.2.2, be1' _ w.dest.2.1, be1' _ w.dest.2.2,
    b _ w.esm, b _ w.pid, b _ w.prio, b _ w.reg, b _ w.repl, b _ w.defId, be1' _ hdc, be1' _ hsm]
  simp

/-- field values of a submit_sm / deliver_sm that SMPP 3.4 allows and that can be read back -/
structure SmRT (m : Sm) : Prop where
  wf : SpecEncode.SmWF m
  svc : CStrOK m.serviceType ∧ m.serviceType.length ≤ 5
  snum : CStrOK m.source.number ∧ m.source.number.length ≤ 20
  dnum : CStrOK m.dest.number ∧ m.dest.number.length ≤ 20
  ston : enumHas Gen.Enums.ton m.source.ton = true
  snpi : enumHas Gen.Enums.npi m.source.npi = true
  dton : enumHas Gen.Enums.ton m.dest.ton = true
  dnpi : enumHas Gen.Enums.npi m.dest.npi = true
  noParams : m.optionalParams = []

/-- what comes back: the fields on the wire; what is not transmitted takes its default -/
def readBack (m : Sm) (text payload : List Nat) (schedT validT : Time.TimeObj) (encD : Enc) : Sm :=
  { seq := m.seq, status := 0, shortMessage := text,
    source := ⟨m.source.number, m.source.ton, m.source.npi⟩, dest := ⟨m.dest.number, m.dest.ton, m.dest.npi⟩,
    serviceType := m.serviceType, esmClass := m.esmClass.toNat, protocolId := m.protocolId.toNat,
    priorityFlag := m.priorityFlag.toNat, schedule := schedT, validity := validT,
    registeredDelivery := m.registeredDelivery.toNat, replaceIfPresent := m.replaceIfPresent.toNat,
    encoding := if encD.name = str Gen.Consts.defaultEncoding then none else some encD,
    smDefaultMsgId := m.smDefaultMsgId.toNat, messagePayload := payload, optionalParams := [] }

set_option maxRecDepth 8000 in
/-- ROUND TRIP of submit_sm / deliver_sm without optional parameters, text carried in short_message.
    The text codec and the time format enter as their round-trip facts (C10/C11, C17). -/
theorem sm_round_trip_short (dflt : Enc) (deliver : Bool) (m : Sm) (w : SmRT m) (bytes : List Nat) (e : Option Enc)
    (sm ts tv text : List Nat) (enc' : Option Enc) (encD : Enc) (dc : Nat) (schedT validT : Time.TimeObj)
    (hp : pdu dflt (if deliver then Msg.deliverSm m else Msg.submitSm m) = .ok (bytes, e))
    (htp : smTextPart dflt m = .ok (sm, [], enc')) (hdcv : smDataCoding enc' = .ok dc) (hdc : dc < 256)
    (hsm : sm.length < 256)
    (hts : Time.toSmpp m.schedule = .ok ts) (htv : Time.toSmpp m.validity = .ok tv)
    (hcs : CStrOK ts ∧ CStrOK tv)
    (hfs : Time.fromSmpp ts = .ok schedT) (hfv : Time.fromSmpp tv = .ok validT)
    (henc : (if dc = 0 then Except.ok dflt else encOfDataCoding dc) = .ok encD)
    (hdm : decodeMessage m.esmClass.toNat (decodeCodec encD) sm = .ok (text, []))
    (htext : text ≠ []) (hst : enumHas Gen.Enums.smppCommandStatus m.status = true) :
    decode bytes dflt = .ok (if deliver then Msg.deliverSm (readBack m text [] schedT validT encD)
                             else Msg.submitSm (readBack m text [] schedT validT encD)) := by
  have hta : (∀ c ∈ ts, c < 128) ∧ (∀ c ∈ tv, c < 128) :=
    ⟨fun c hc => (hcs.1 c hc).1, fun c hc => (hcs.2 c hc).1⟩
  have hlay := layout_eq_mandatory m w.wf sm [] ts tv dc hdc hsm hts htv hta
  have hbody : smBody dflt m = .ok (mandatory m.serviceType m.source.ton m.source.npi m.source.number m.dest.ton m.dest.npi
      m.dest.number m.esmClass.toNat m.protocolId.toNat m.priorityFlag.toNat ts tv m.registeredDelivery.toNat
      m.replaceIfPresent.toNat dc m.smDefaultMsgId.toNat sm [], enc') := by
    unfold smBody
    rw [htp]; simp only
    rw [hdcv]; simp only
    have : smParams m = [] := by unfold smParams; rw [w.noParams]; simp
    rw [this]
    simp only [List.map_nil, concatM]
    rw [hlay]
  have key : ∀ wrap : Sm → Msg, (wrap = Msg.submitSm ∨ wrap = Msg.deliverSm) → smPdu dflt wrap m = .ok (bytes, e) →
      decode bytes dflt = .ok (wrap (readBack m text [] schedT validT encD)) := by
    intro wrap hwrap hpdu
    unfold smPdu at hpdu
    rw [hbody] at hpdu
    simp only at hpdu
    cases hh : packHeader (16 + (mandatory m.serviceType m.source.ton m.source.npi m.source.number m.dest.ton m.dest.npi
      m.dest.number m.esmClass.toNat m.protocolId.toNat m.priorityFlag.toNat ts tv m.registeredDelivery.toNat
      m.replaceIfPresent.toNat dc m.smDefaultMsgId.toNat sm []).length) (wrap m) with
    | error x => rw [hh] at hpdu; cases hpdu
    | ok hd =>
      rw [hh] at hpdu
      simp only [Except.map, Except.ok.injEq, Prod.mk.injEq] at hpdu
      obtain ⟨rfl, _⟩ := hpdu
      have h16 := (packHeader_spec _ _ hd hh).1
      have hs := seq_nonneg_of_packHeader _ _ hd hh
      have hstw : enumHas Gen.Enums.smppCommandStatus (wrap m).status = true := by
        rcases hwrap with rfl | rfl <;> exact hst
      have hph := parseHeader_of_packHeader _ (wrap m) hd (mandatory m.serviceType m.source.ton m.source.npi m.source.number
        m.dest.ton m.dest.npi m.dest.number m.esmClass.toNat m.protocolId.toNat m.priorityFlag.toNat ts tv
        m.registeredDelivery.toNat m.replaceIfPresent.toNat dc m.smDefaultMsgId.toNat sm []) hh hstw
      unfold decode
      rw [hph]
      simp only
      have hrd := fun (hdr : Header) (hl : hdr.pduLength = (hd ++ mandatory m.serviceType m.source.ton m.source.npi
          m.source.number m.dest.ton m.dest.npi m.dest.number m.esmClass.toNat m.protocolId.toNat m.priorityFlag.toNat ts tv
          m.registeredDelivery.toNat m.replaceIfPresent.toNat dc m.smDefaultMsgId.toNat sm []).length) =>
        smFromPdu_short hd h16 hdr dflt encD
          m.serviceType m.source.ton m.source.npi m.source.number m.dest.ton m.dest.npi m.dest.number
          m.esmClass.toNat m.protocolId.toNat m.priorityFlag.toNat ts tv m.registeredDelivery.toNat m.replaceIfPresent.toNat
          dc m.smDefaultMsgId.toNat sm text schedT validT
          ⟨w.svc.1, w.snum, w.dnum, hcs.1, hcs.2, w.ston, w.snpi, w.dton, w.dnpi⟩ henc hdm hfs hfv w.svc.2 htext hl
      have hsq : (((wrap m).seq.toNat : Nat) : Int) = m.seq := by
        rcases hwrap with rfl | rfl <;> exact Int.toNat_of_nonneg hs
      rcases hwrap with rfl | rfl
      · simp only [fromPdu, Msg.command]
        rw [hrd _ (by simp [h16])]
        simp only [Except.map, readBack, Msg.seq] at hsq ⊢
        rw [hsq]
      · simp only [fromPdu, Msg.command]
        rw [hrd _ (by simp [h16])]
        simp only [Except.map, readBack, Msg.seq] at hsq ⊢
        rw [hsq]
  cases deliver with
  | true => exact key Msg.deliverSm (Or.inr rfl) hp
  | false => exact key Msg.submitSm (Or.inl rfl) hp

set_option maxRecDepth 8000 in
/-- ROUND TRIP of submit_sm / deliver_sm without optional parameters, text carried in message_payload
    (given as payload, or longer than 254 octets and moved there by `pdu()`). -/
theorem sm_round_trip_payload (dflt : Enc) (deliver : Bool) (m : Sm) (w : SmRT m) (bytes : List Nat) (e : Option Enc)
    (pbytes ts tv text : List Nat) (enc' : Option Enc) (encD : Enc) (dc : Nat) (schedT validT : Time.TimeObj)
    (hp : pdu dflt (if deliver then Msg.deliverSm m else Msg.submitSm m) = .ok (bytes, e))
    (htp : smTextPart dflt m = .ok ([], Gen.Tlv.messagePayload / 256 % 256 :: Gen.Tlv.messagePayload % 256 ::
      pbytes.length / 256 % 256 :: pbytes.length % 256 :: pbytes, enc'))
    (hdcv : smDataCoding enc' = .ok dc) (hdc : dc < 256) (hpl : pbytes.length < 65536)
    (hts : Time.toSmpp m.schedule = .ok ts) (htv : Time.toSmpp m.validity = .ok tv)
    (hcs : CStrOK ts ∧ CStrOK tv)
    (hfs : Time.fromSmpp ts = .ok schedT) (hfv : Time.fromSmpp tv = .ok validT)
    (henc : (if dc = 0 then Except.ok dflt else encOfDataCoding dc) = .ok encD)
    (hdm0 : decodeMessage m.esmClass.toNat (decodeCodec encD) [] = .ok ([], []))
    (hdm : decodeMessage m.esmClass.toNat (decodeCodec encD) pbytes = .ok (text, []))
    (htext : text ≠ []) (hst : enumHas Gen.Enums.smppCommandStatus m.status = true) :
    decode bytes dflt = .ok (if deliver then Msg.deliverSm (readBack m [] text schedT validT encD)
                             else Msg.submitSm (readBack m [] text schedT validT encD)) := by
  have hta : (∀ c ∈ ts, c < 128) ∧ (∀ c ∈ tv, c < 128) :=
    ⟨fun c hc => (hcs.1 c hc).1, fun c hc => (hcs.2 c hc).1⟩
  have hlay := layout_eq_mandatory m w.wf [] (Gen.Tlv.messagePayload / 256 % 256 :: Gen.Tlv.messagePayload % 256 ::
    pbytes.length / 256 % 256 :: pbytes.length % 256 :: pbytes) ts tv dc hdc (by simp) hts htv hta
  have hbody : smBody dflt m = .ok (mandatory m.serviceType m.source.ton m.source.npi m.source.number m.dest.ton m.dest.npi
      m.dest.number m.esmClass.toNat m.protocolId.toNat m.priorityFlag.toNat ts tv m.registeredDelivery.toNat
      m.replaceIfPresent.toNat dc m.smDefaultMsgId.toNat [] (Gen.Tlv.messagePayload / 256 % 256 :: Gen.Tlv.messagePayload % 256 ::
      pbytes.length / 256 % 256 :: pbytes.length % 256 :: pbytes), enc') := by
    unfold smBody
    rw [htp]; simp only
    rw [hdcv]; simp only
    have : smParams m = [] := by unfold smParams; rw [w.noParams]; simp
    rw [this]
    simp only [List.map_nil, concatM]
    rw [hlay]
  have key : ∀ wrap : Sm → Msg, (wrap = Msg.submitSm ∨ wrap = Msg.deliverSm) → smPdu dflt wrap m = .ok (bytes, e) →
      decode bytes dflt = .ok (wrap (readBack m [] text schedT validT encD)) := by
    intro wrap hwrap hpdu
    unfold smPdu at hpdu
    rw [hbody] at hpdu
    simp only at hpdu
    cases hh : packHeader (16 + (mandatory m.serviceType m.source.ton m.source.npi m.source.number m.dest.ton m.dest.npi
      m.dest.number m.esmClass.toNat m.protocolId.toNat m.priorityFlag.toNat ts tv m.registeredDelivery.toNat
      m.replaceIfPresent.toNat dc m.smDefaultMsgId.toNat [] (Gen.Tlv.messagePayload / 256 % 256 :: Gen.Tlv.messagePayload % 256 ::
      pbytes.length / 256 % 256 :: pbytes.length % 256 :: pbytes)).length) (wrap m) with
    | error x => rw [hh] at hpdu; cases hpdu
    | ok hd =>
      rw [hh] at hpdu
      simp only [Except.map, Except.ok.injEq, Prod.mk.injEq] at hpdu
      obtain ⟨rfl, _⟩ := hpdu
      have h16 := (packHeader_spec _ _ hd hh).1
      have hs := seq_nonneg_of_packHeader _ _ hd hh
      have hstw : enumHas Gen.Enums.smppCommandStatus (wrap m).status = true := by
        rcases hwrap with rfl | rfl <;> exact hst
      have hph := parseHeader_of_packHeader _ (wrap m) hd (mandatory m.serviceType m.source.ton m.source.npi m.source.number
        m.dest.ton m.dest.npi m.dest.number m.esmClass.toNat m.protocolId.toNat m.priorityFlag.toNat ts tv
        m.registeredDelivery.toNat m.replaceIfPresent.toNat dc m.smDefaultMsgId.toNat [] (Gen.Tlv.messagePayload / 256 % 256 :: Gen.Tlv.messagePayload % 256 ::
      pbytes.length / 256 % 256 :: pbytes.length % 256 :: pbytes)) hh hstw
      unfold decode
      rw [hph]
      simp only
      have hrd := fun (hdr : Header) (hl : hdr.pduLength = (hd ++ mandatory m.serviceType m.source.ton m.source.npi
          m.source.number m.dest.ton m.dest.npi m.dest.number m.esmClass.toNat m.protocolId.toNat m.priorityFlag.toNat ts tv
          m.registeredDelivery.toNat m.replaceIfPresent.toNat dc m.smDefaultMsgId.toNat [] (Gen.Tlv.messagePayload / 256 % 256 :: Gen.Tlv.messagePayload % 256 ::
      pbytes.length / 256 % 256 :: pbytes.length % 256 :: pbytes)).length) =>
        smFromPdu_payload hd h16 hdr dflt encD
          m.serviceType m.source.ton m.source.npi m.source.number m.dest.ton m.dest.npi m.dest.number
          m.esmClass.toNat m.protocolId.toNat m.priorityFlag.toNat ts tv m.registeredDelivery.toNat m.replaceIfPresent.toNat
          dc m.smDefaultMsgId.toNat pbytes text (Gen.Tlv.messagePayload / 256 % 256) (Gen.Tlv.messagePayload % 256)
          (pbytes.length / 256 % 256) (pbytes.length % 256) schedT validT
          ⟨w.svc.1, w.snum, w.dnum, hcs.1, hcs.2, w.ston, w.snpi, w.dton, w.dnpi⟩ henc hdm0 hdm
          (by decide +kernel) (by omega) hfs hfv w.svc.2 htext hl
      have hsq : (((wrap m).seq.toNat : Nat) : Int) = m.seq := by
        rcases hwrap with rfl | rfl <;> exact Int.toNat_of_nonneg hs
      rcases hwrap with rfl | rfl
      · simp only [fromPdu, Msg.command]
        rw [hrd _ (by simp [h16])]
        simp only [Except.map, readBack, Msg.seq] at hsq ⊢
        rw [hsq]
      · simp only [fromPdu, Msg.command]
        rw [hrd _ (by simp [h16])]
        simp only [Except.map, readBack, Msg.seq] at hsq ⊢
        rw [hsq]
  cases deliver with
  | true => exact key Msg.deliverSm (Or.inr rfl) hp
  | false => exact key Msg.submitSm (Or.inl rfl) hp

set_option maxRecDepth 8000 in
/-- ROUND TRIP, default alphabet GSM 03.38, automatic encoding: every text over the alphabet
    (extension characters included) whose encoding fits short_message (≤ 254 octets), with every
    in-range mandatory field, no scheduling / validity time, no optional parameters.  No hypothesis
    about codecs is left: the GSM codec round trip is C10's theorem. -/
theorem sm_round_trip_gsm (deliver : Bool) (m : Sm) (w : SmRT m) (bytes : List Nat) (e : Option Enc)
    (hp : pdu encGsm (if deliver then Msg.deliverSm m else Msg.submitSm m) = .ok (bytes, e))
    (henc : m.encoding = none) (hpre : m.encoded = []) (hpay : m.messagePayload = [])
    (heh : m.errorHandling = .mode .strict)
    (htext : Gsm.isGsmText m.shortMessage = true) (hne : m.shortMessage ≠ [])
    (hlen : ∀ b, Gsm.encode .strict m.shortMessage = .ok b → b.length ≤ 254)
    (hudhi : m.esmClass.toNat % 128 < 64)
    (htime : m.schedule = .none ∧ m.validity = .none)
    (hst : enumHas Gen.Enums.smppCommandStatus m.status = true) :
    decode bytes encGsm = .ok (if deliver then Msg.deliverSm (readBack m m.shortMessage [] .none .none encGsm)
                               else Msg.submitSm (readBack m m.shortMessage [] .none .none encGsm)) := by
  obtain ⟨b, hb, hd, _⟩ := Lemmas.Gsm.decode_encode m.shortMessage htext
  have hbl := hlen b hb
  have hsne : m.shortMessage.isEmpty = false := by
    cases hm : m.shortMessage with
    | nil => exact absurd hm hne
    | cons _ _ => rfl
  have htp : smTextPart encGsm m = .ok (b, [], none) := by
    unfold smTextPart
    rw [hpre]
    simp only [List.isEmpty_nil, if_true, hsne, Bool.false_eq_true, if_false]
    unfold smppEncode
    rw [henc]
    simp only [if_true, encGsm, codecEncode, heh, hb]
    have h1 : ¬ (b.length > 254 ∧ ¬ false = true ∧ ¬ m.autoPayload = true) := by omega
    rw [hpay]
    simp only [List.isEmpty_nil]
    rw [if_neg (by omega), if_neg (by simp; omega)]
  have hcodec : decodeCodec encGsm = Codec.gsm := by decide
  have hdm : decodeMessage m.esmClass.toNat (decodeCodec encGsm) b = .ok (m.shortMessage, []) := by
    rw [hcodec]
    unfold decodeMessage
    rw [if_neg (by omega)]
    simp only [codecDecode, hd, Except.map]
  have hnil : CStrOK ([] : List Nat) := by intro c hc; simp at hc
  have hcs : CStrOK ([] : List Nat) ∧ CStrOK ([] : List Nat) := ⟨hnil, hnil⟩
  exact sm_round_trip_short encGsm deliver m w bytes e b [] [] m.shortMessage none encGsm 0 .none .none hp htp rfl
    (by decide) (by omega) (by rw [htime.1]; rfl) (by rw [htime.2]; rfl)
    hcs rfl rfl rfl hdm hne hst

open SmppVerif.Lemmas.SpecEncode SmppVerif.Spec.Smpp in
/-- the message_payload parameter as `pdu()` writes it: tag 0x0424, two-octet length, the octets -/
theorem payloadTlv_form (enc : List Nat) (h : enc.length < 65536) :
    concatM [packU 2 ↑Gen.Tlv.messagePayload, packU 2 ↑enc.length, Except.ok enc] =
      .ok (Gen.Tlv.messagePayload / 256 % 256 :: Gen.Tlv.messagePayload % 256 ::
           enc.length / 256 % 256 :: enc.length % 256 :: enc) := by
  rw [packU_nat_be 2 Gen.Tlv.messagePayload (by decide +kernel), packU_nat_be 2 enc.length (by simpa using h)]
  have := concatM_oks [be 2 Gen.Tlv.messagePayload, be 2 enc.length, enc]
  simp only [List.map_cons, List.map_nil] at this
  rw [this]
  have hr : List.range 2 = [0, 1] := rfl
  simp [be, hr]

set_option maxRecDepth 8000 in
/-- ROUND TRIP, default alphabet GSM 03.38, automatic encoding, text given as message_payload: every
    text over the alphabet up to 65535 octets. -/
theorem sm_round_trip_gsm_payload (deliver : Bool) (m : Sm) (w : SmRT m) (bytes : List Nat) (e : Option Enc)
    (hp : pdu encGsm (if deliver then Msg.deliverSm m else Msg.submitSm m) = .ok (bytes, e))
    (henc : m.encoding = none) (hpre : m.encoded = []) (hshort : m.shortMessage = [])
    (heh : m.errorHandling = .mode .strict)
    (htext : Gsm.isGsmText m.messagePayload = true) (hne : m.messagePayload ≠ [])
    (hlen : ∀ b, Gsm.encode .strict m.messagePayload = .ok b → b.length < 65536)
    (hudhi : m.esmClass.toNat % 128 < 64)
    (htime : m.schedule = .none ∧ m.validity = .none)
    (hst : enumHas Gen.Enums.smppCommandStatus m.status = true) :
    decode bytes encGsm = .ok (if deliver then Msg.deliverSm (readBack m [] m.messagePayload .none .none encGsm)
                               else Msg.submitSm (readBack m [] m.messagePayload .none .none encGsm)) := by
  obtain ⟨b, hb, hd, _⟩ := Lemmas.Gsm.decode_encode m.messagePayload htext
  have hbl := hlen b hb
  have hpne : m.messagePayload.isEmpty = false := by
    cases hm : m.messagePayload with
    | nil => exact absurd hm hne
    | cons _ _ => rfl
  have htp : smTextPart encGsm m = .ok ([], Gen.Tlv.messagePayload / 256 % 256 :: Gen.Tlv.messagePayload % 256 ::
      b.length / 256 % 256 :: b.length % 256 :: b, none) := by
    unfold smTextPart
    rw [hpre, hshort]
    simp only [List.isEmpty_nil, if_true]
    unfold smppEncode
    rw [henc]
    simp only [if_true, encGsm, codecEncode, heh, hb]
    rw [if_neg (by simp), if_pos (Or.inr (by simp [hpne])), payloadTlv_form b hbl]
  have hcodec : decodeCodec encGsm = Codec.gsm := by decide
  have hdm : decodeMessage m.esmClass.toNat (decodeCodec encGsm) b = .ok (m.messagePayload, []) := by
    rw [hcodec]
    unfold decodeMessage
    rw [if_neg (by omega)]
    simp only [codecDecode, hd, Except.map]
  have hdm0 : decodeMessage m.esmClass.toNat (decodeCodec encGsm) [] = .ok ([], []) := by
    rw [hcodec]
    unfold decodeMessage
    rw [if_neg (by omega)]
    rfl
  have hnil : CStrOK ([] : List Nat) := by intro c hc; simp at hc
  exact sm_round_trip_payload encGsm deliver m w bytes e b [] [] m.messagePayload none encGsm 0 .none .none hp htp rfl
    (by decide) hbl (by rw [htime.1]; rfl) (by rw [htime.2]; rfl) ⟨hnil, hnil⟩ rfl rfl rfl hdm0 hdm hne hst

/-! ### the time fields: what C17 proves is what the round trip needs -/

theorem dec2_ok (n : Nat) (h : n < 100) : CStrOK (Spec.TimeFormat.dec2 n) := by
  intro c hc
  simp only [Spec.TimeFormat.dec2, List.mem_cons, List.mem_nil_iff, or_false] at hc
  rcases hc with rfl | rfl <;> omega

theorem cstr_append {a b : List Nat} (ha : CStrOK a) (hb : CStrOK b) : CStrOK (a ++ b) := by
  intro c hc
  rcases List.mem_append.mp hc with h | h
  · exact ha c h
  · exact hb c h

open SmppVerif.Time SmppVerif.Lemmas.Time in
/-- TIME FACTS for an absolute time (2000–2099, quarter-hour offsets, any tenth): the string `pdu()` writes is a
    C-octet string and reads back to the same instant (C17). -/
theorem time_facts_abs (d : DateTime) (h : WFabs d) :
    ∃ ts, toSmpp (.abs d) = .ok ts ∧ CStrOK ts ∧
      fromSmpp ts = .ok (.abs { d with micro := d.micro / 100000 * 100000, offset := some (d.offset.getD 0) }) := by
  obtain ⟨s, hs, hf⟩ := abs_round_trip d h
  refine ⟨s, hs, ?_, hf⟩
  have hfmt := abs_format d h
  rw [hs] at hfmt
  cases hfmt
  have hmd := monthDays_le d.year d.month
  have ho : (d.offset.getD 0).natAbs / 900 < 100 := by
    cases hoo : d.offset with
    | none => simp
    | some x => have := h.offset x hoo; simp only [Option.getD_some]; omega
  unfold Spec.TimeFormat.renderAbs
  have hy := h.year; have hm := h.month; have hd := h.day
  refine cstr_append (cstr_append (cstr_append (cstr_append (cstr_append (cstr_append (cstr_append (cstr_append
    (dec2_ok _ (by omega)) (dec2_ok _ (by omega))) (dec2_ok _ (by omega))) (dec2_ok _ (by have := h.hour; omega)))
    (dec2_ok _ (by have := h.minute; omega))) (dec2_ok _ (by have := h.second; omega))) ?_) (dec2_ok _ ho)) ?_
  · intro c hc
    simp only [List.mem_singleton] at hc
    have := h.micro
    subst hc; omega
  · intro c hc
    simp only [List.mem_singleton] at hc
    subst hc
    split <;> omega

open SmppVerif.Time SmppVerif.Lemmas.Time in
/-- TIME FACTS for a relative time (up to 63 weeks). -/
theorem time_facts_rel (t : TimeDelta) (h : WFrel t) :
    ∃ ts, toSmpp (.rel t) = .ok ts ∧ CStrOK ts ∧ fromSmpp ts = .ok (.rel { t with micros := 0 }) := by
  obtain ⟨s, hs, hf⟩ := rel_round_trip t h
  refine ⟨s, hs, ?_, hf⟩
  have hfmt := rel_format t h
  rw [hs] at hfmt
  cases hfmt
  have hd := h.days; have hsec := h.seconds
  have hb : t.days * 86400 + (t.seconds : Int) ≤ maxRelSeconds := by
    have := h.bound
    unfold relTooLong at this
    simp only [Bool.or_eq_false_iff, decide_eq_false_iff_not] at this
    omega
  unfold maxRelSeconds at hb
  unfold Spec.TimeFormat.renderRel
  refine cstr_append (cstr_append (cstr_append (cstr_append (cstr_append (cstr_append
    (dec2_ok _ (by omega)) (dec2_ok _ (by omega))) (dec2_ok _ (by omega))) (dec2_ok _ (by omega)))
    (dec2_ok _ (by omega))) (dec2_ok _ (by omega))) ?_
  intro c hc
  simp only [List.mem_cons, List.mem_nil_iff, or_false] at hc
  rcases hc with rfl | rfl | rfl | rfl <;> omega

end SmppVerif.Lemmas.SmRead
