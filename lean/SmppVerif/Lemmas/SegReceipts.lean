/- C02, segmented messages: once every segment of a message has been accepted, the delivery receipts for its segments —
   in ANY order — yield placeholders until the last one, which hands over exactly one receipt carrying the message's
   identity: the last failing one if any reported an error, otherwise the first. -/
import SmppVerif.Lemmas.Ledger
import SmppVerif.Lemmas.Expiry

namespace SmppVerif.Lemmas.SegReceipts
open SmppVerif SmppVerif.Corr SmppVerif.Lemmas.Corr SmppVerif.Lemmas.Expiry SmppVerif.Lemmas.Ledger

/-- nothing to sweep and the delivery time-to-live not reached: `_remove_expired` changes nothing -/
theorem removeExpired_idle (s : CState) (now : Nat) (hs : s.store = []) (hn : now ≤ s.ttlDeliv) :
    removeExpired s now = (s, []) := by
  unfold removeExpired
  rw [hs]
  simp only [List.map_nil, sweepStore]
  have h1 : s.delivStore.filter (fun p => ¬ (now - p.2.1 > s.ttlDeliv)) = s.delivStore := by
    rw [List.filter_eq_self]; intro p _; simp; omega
  have h2 : s.delivSegStore.filter (fun p => ¬ (now - p.2.1 > s.ttlDeliv)) = s.delivSegStore := by
    rw [List.filter_eq_self]; intro p _; simp; omega
  rw [h1, h2]

/-- the receipt code `get_delivery` records -/
def codeOf (d : Msg) : Int := d.rcptErr.getD Gen.Consts.dlrErrorOtherError

/-- the segment status after the receipt `d` for segment `sseq` -/
def afterReceipt (st : SegStatus) (sseq : Nat) (d : Msg) : SegStatus :=
  { st with status := aset st.status sseq (codeOf d),
            lastReceipt := if codeOf d > 0 ∨ st.lastReceipt.isNone then some d else st.lastReceipt }

/-- the state after `get_delivery` found the submit and recorded the receipt code -/
def afterGet (s : CState) (id : List Nat) (ref : Nat) (st' : SegStatus) : CState :=
  { s with delivStore := adel s.delivStore id, segStatus := aset s.segStatus ref st' }

/-- … after `get_segmented(seq, remove=True)` while receipts are still missing / when the last one is in -/
def afterWait (s : CState) (id : List Nat) (q ref : Nat) (st' : SegStatus) : CState :=
  { s with delivStore := adel s.delivStore id, segStore := adel s.segStore q, segStatus := aset s.segStatus ref st' }

def afterDone (s : CState) (id : List Nat) (q ref : Nat) (st' : SegStatus) : CState :=
  { s with delivStore := adel s.delivStore id, segStore := adel s.segStore q,
           segStatus := adel (aset s.segStatus ref st') ref }

/-- are receipts still missing? (every receipt code ranks below SENT) -/
def Waiting (st' : SegStatus) : Prop := maxCode st'.status = sSending ∨ maxCode st'.status = sSent

instance (st' : SegStatus) : Decidable (Waiting st') := by unfold Waiting; infer_instance

theorem getDelivery_seg (s : CState) (now t : Nat) (d sub_ : Msg) (ref sseq : Nat) (st : SegStatus)
    (hstore : s.store = []) (hnow : now ≤ s.ttlDeliv)
    (hd : aget s.delivStore d.rcptId = some (t, sub_))
    (hseg : aget s.segStore sub_.seq = some (ref, sseq))
    (hst : aget s.segStatus ref = some st) :
    getDelivery s now d = (afterGet s d.rcptId ref (afterReceipt st sseq d), [], some sub_) := by
  unfold getDelivery
  simp only [hd, Option.map_some]
  have h1 : aget ({ s with delivStore := adel s.delivStore d.rcptId } : CState).segStore sub_.seq = some (ref, sseq) := hseg
  have h2 : aget ({ s with delivStore := adel s.delivStore d.rcptId } : CState).segStatus ref = some st := hst
  simp only [h1, h2]
  rw [removeExpired_idle]
  · rfl
  · exact hstore
  · exact hnow

theorem cumulated_after (s : CState) (id : List Nat) (q ref : Nat) (st' : SegStatus) (hne : st'.status.isEmpty = false) :
    cumulated (afterWait s id q ref st') ref =
      (if Waiting st' then afterWait s id q ref st' else afterDone s id q ref st', maxCode st'.status) := by
  unfold cumulated afterWait
  simp only [aget_aset_same, hne, Bool.false_eq_true, if_false]
  by_cases hw : Waiting st'
  · have : ¬ (maxCode st'.status ≠ sSending ∧ maxCode st'.status ≠ sSent) := by
      rcases hw with h | h <;> simp [h]
    rw [if_neg this, if_pos hw]
  · have : maxCode st'.status ≠ sSending ∧ maxCode st'.status ≠ sSent :=
      ⟨fun h => hw (Or.inl h), fun h => hw (Or.inr h)⟩
    rw [if_pos this, if_neg hw]
    rfl

theorem getSegmented_after (s : CState) (id : List Nat) (q ref sseq : Nat) (st' : SegStatus)
    (hseg : aget s.segStore q = some (ref, sseq)) :
    getSegmented (afterGet s id ref st') q true =
      ((cumulated (afterWait s id q ref st') ref).1, some st', (cumulated (afterWait s id q ref st') ref).2) := by
  unfold getSegmented afterGet
  simp only [hseg, if_true, aget_aset_same]
  rfl

/-- ONE RECEIPT for a segment of an accepted message, nothing outstanding in the request store: the state change and
    what the hook is handed, by the aggregated code -/
theorem receipt_step (s : CState) (now t : Nat) (d sub_ : Msg) (ref sseq : Nat) (st : SegStatus)
    (hr : d.isReceipt = true) (hid : d.rcptId.isEmpty = false)
    (hstore : s.store = []) (hnow : now ≤ s.ttlDeliv)
    (hd : aget s.delivStore d.rcptId = some (t, sub_))
    (hseg : aget s.segStore sub_.seq = some (ref, sseq))
    (hst : aget s.segStatus ref = some st)
    (hne : (afterReceipt st sseq d).status.isEmpty = false) :
    (handleDeliver s now d).2.2 =
      (if Waiting (afterReceipt st sseq d) then Handled.placeholder
       else .msg { ((afterReceipt st sseq d).lastReceipt.getD d) with logId := sub_.logId, extra := sub_.extra }) ∧
    (handleDeliver s now d).1 =
      (if Waiting (afterReceipt st sseq d) then afterWait s d.rcptId sub_.seq ref (afterReceipt st sseq d)
       else afterDone s d.rcptId sub_.seq ref (afterReceipt st sseq d)) ∧
    (handleDeliver s now d).2.1 = [] := by
  have hg := getDelivery_seg s now t d sub_ ref sseq st hstore hnow hd hseg hst
  have hgs := getSegmented_after s d.rcptId sub_.seq ref sseq (afterReceipt st sseq d) hseg
  have hcum := cumulated_after s d.rcptId sub_.seq ref (afterReceipt st sseq d) hne
  unfold handleDeliver
  simp only [hr, if_true, hid, Bool.false_eq_true, if_false, hg, hgs, hcum]
  refine ⟨?_, ?_, trivial⟩
  · by_cases hw : Waiting (afterReceipt st sseq d)
    · have hw' : maxCode (afterReceipt st sseq d).status = sSending ∨ maxCode (afterReceipt st sseq d).status = sSent := hw
      simp only [hw', if_true, hw]
    · have hw' : ¬ (maxCode (afterReceipt st sseq d).status = sSending ∨ maxCode (afterReceipt st sseq d).status = sSent) := hw
      simp only [hw', if_false, hw]
  · by_cases hw : Waiting (afterReceipt st sseq d) <;> simp [hw]

end SmppVerif.Lemmas.SegReceipts

/-! ### all receipts of a message, in any order -/

namespace SmppVerif.Lemmas.SegReceipts
open SmppVerif SmppVerif.Corr SmppVerif.Lemmas.Corr SmppVerif.Lemmas.Expiry SmppVerif.Lemmas.Ledger

/-- a message the library segmented into `n` parts which the SMSC accepted in full, and the receipts it will send -/
structure Accepted where
  n : Nat
  ref : Nat
  q : Nat → Nat              -- sequence number of segment i (1..n)
  ident : Nat → List Nat     -- SMSC message id of segment i
  sub : Nat → Msg            -- the segment's submit_sm as recorded with the id
  t : Nat → Nat              -- when the id was recorded
  rc : Nat → Msg             -- the delivery receipt for segment i
  L : Nat
  X : Nat
  hn : 1 ≤ n
  hq : ∀ i, (sub i).seq = q i
  hL : ∀ i, (sub i).logId = L ∧ (sub i).extra = X
  qinj : ∀ i j, q i = q j → i = j
  idinj : ∀ i j, ident i = ident j → i = j
  rcR : ∀ i, (rc i).isReceipt = true ∧ (rc i).rcptId = ident i ∧ (ident i).isEmpty = false
  rcC : ∀ i, 0 ≤ codeOf (rc i) ∧ codeOf (rc i) < sSent

def statusOf (A : Accepted) (D : List Nat) : List (Nat × Int) :=
  (List.range' 1 A.n).map fun i => (i, if i ∈ D then codeOf (A.rc i) else sSent)

/-- receipts for the segments in `D` are in; the others are still awaited -/
structure Inv (A : Accepted) (D : List Nat) (lastR : Option Msg) (s : CState) : Prop where
  store : s.store = []
  held : ∀ i, 1 ≤ i → i ≤ A.n → i ∉ D →
    aget s.delivStore (A.ident i) = some (A.t i, A.sub i) ∧ aget s.segStore (A.q i) = some (A.ref, i)
  status : ∃ orig lresp, aget s.segStatus A.ref = some ⟨statusOf A D, orig, lresp, lastR⟩

theorem aset_map_range (f : Nat → Int) (c : Int) (i : Nat) : ∀ (l : List Nat), i ∈ l → l.Nodup →
    aset (l.map fun j => (j, f j)) i c = l.map fun j => (j, if j = i then c else f j)
  | [], h, _ => by cases h
  | j :: l, h, hnd => by
    have hnd' := (List.nodup_cons.mp hnd)
    by_cases e : j = i
    · subst e
      simp only [List.map_cons, aset, if_true]
      congr 1
      apply List.map_congr_left
      intro k hk
      have : k ≠ j := fun ek => hnd'.1 (ek ▸ hk)
      simp [this]
    · have hi : i ∈ l := by
        rcases List.mem_cons.mp h with h | h
        · exact absurd h.symm e
        · exact h
      simp only [List.map_cons, aset, e, if_false]
      rw [aset_map_range f c i l hi hnd'.2]

theorem mem_range' (i n : Nat) : i ∈ List.range' 1 n ↔ 1 ≤ i ∧ i ≤ n := by
  rw [List.mem_range'_1]; omega

/-- recording the receipt of segment `i` -/
theorem aset_statusOf (A : Accepted) (D : List Nat) (i : Nat) (h1 : 1 ≤ i) (h2 : i ≤ A.n) :
    aset (statusOf A D) i (codeOf (A.rc i)) = statusOf A (i :: D) := by
  unfold statusOf
  rw [aset_map_range _ _ i _ ((mem_range' i A.n).mpr ⟨h1, h2⟩) (List.nodup_range' (s := 1) (n := A.n) 1)]
  apply List.map_congr_left
  intro j _
  by_cases e : j = i
  · subst e; simp
  · simp [e]

theorem statusOf_ne (A : Accepted) (D : List Nat) : (statusOf A D).isEmpty = false := by
  unfold statusOf
  have := A.hn
  cases hn : A.n with
  | zero => omega
  | succ k => simp [List.range'_succ]

/-- receipts are still missing iff some segment is not in `D` -/
theorem waiting_iff (A : Accepted) (D : List Nat) :
    (maxCode (statusOf A D) = sSending ∨ maxCode (statusOf A D) = sSent) ↔ ∃ j, 1 ≤ j ∧ j ≤ A.n ∧ j ∉ D := by
  have hne : statusOf A D ≠ [] := by
    intro h; have := statusOf_ne A D; rw [h] at this; simp at this
  have hle : maxCode (statusOf A D) ≤ sSent := by
    apply maxCode_le _ _ hne
    intro p hp
    unfold statusOf at hp
    obtain ⟨j, _, rfl⟩ := List.mem_map.mp hp
    dsimp only
    split
    · exact Int.le_of_lt (A.rcC j).2
    · exact Int.le_refl _
  have hss : sSent < sSending := by decide
  constructor
  · intro h
    by_contra hno
    have hall : ∀ j, 1 ≤ j → j ≤ A.n → j ∈ D := by
      intro j h1 h2
      by_contra hj
      exact hno ⟨j, h1, h2, hj⟩
    have hlt : maxCode (statusOf A D) ≤ sSent - 1 := by
      apply maxCode_le _ _ hne
      intro p hp
      unfold statusOf at hp
      obtain ⟨j, hj, rfl⟩ := List.mem_map.mp hp
      have hjr := (mem_range' j A.n).mp hj
      dsimp only
      rw [if_pos (hall j hjr.1 hjr.2)]
      have := (A.rcC j).2
      omega
    rcases h with h | h <;> omega
  · rintro ⟨j, h1, h2, hj⟩
    right
    have hmem : (j, sSent) ∈ statusOf A D := by
      unfold statusOf
      refine List.mem_map.mpr ⟨j, (mem_range' j A.n).mpr ⟨h1, h2⟩, ?_⟩
      simp [hj]
    have := maxCode_ge (statusOf A D) (j, sSent) hmem
    dsimp only at this
    omega

end SmppVerif.Lemmas.SegReceipts

namespace SmppVerif.Lemmas.SegReceipts
open SmppVerif SmppVerif.Corr SmppVerif.Lemmas.Corr SmppVerif.Lemmas.Expiry SmppVerif.Lemmas.Ledger

/-- `last_receipt` after the receipt of segment `i` -/
def nextLast (A : Accepted) (lastR : Option Msg) (i : Nat) : Option Msg :=
  if codeOf (A.rc i) > 0 ∨ lastR.isNone then some (A.rc i) else lastR

/-- ONE RECEIPT under the invariant: a placeholder while any other segment is still awaited, otherwise the message's one
    receipt; the invariant moves on -/
theorem inv_step (A : Accepted) (D : List Nat) (lastR : Option Msg) (s : CState) (now i : Nat)
    (hinv : Inv A D lastR s) (hnow : now ≤ s.ttlDeliv) (h1 : 1 ≤ i) (h2 : i ≤ A.n) (hi : i ∉ D) :
    ((∃ j, 1 ≤ j ∧ j ≤ A.n ∧ j ∉ i :: D) →
      (handleDeliver s now (A.rc i)).2.2 = .placeholder ∧ Inv A (i :: D) (nextLast A lastR i) (handleDeliver s now (A.rc i)).1 ∧
      (handleDeliver s now (A.rc i)).1.ttlDeliv = s.ttlDeliv) ∧
    ((¬ ∃ j, 1 ≤ j ∧ j ≤ A.n ∧ j ∉ i :: D) →
      (handleDeliver s now (A.rc i)).2.2 =
        .msg { ((nextLast A lastR i).getD (A.rc i)) with logId := A.L, extra := A.X }) := by
  obtain ⟨orig, lresp, hst⟩ := hinv.status
  obtain ⟨hd, hseg⟩ := hinv.held i h1 h2 hi
  have hrc := A.rcR i
  have hseg' : aget s.segStore (A.sub i).seq = some (A.ref, i) := by rw [A.hq i]; exact hseg
  have hd' : aget s.delivStore (A.rc i).rcptId = some (A.t i, A.sub i) := by rw [hrc.2.1]; exact hd
  have hafter : afterReceipt ⟨statusOf A D, orig, lresp, lastR⟩ i (A.rc i) =
      ⟨statusOf A (i :: D), orig, lresp, nextLast A lastR i⟩ := by
    unfold afterReceipt nextLast
    simp only [aset_statusOf A D i h1 h2]
  have hne : (afterReceipt ⟨statusOf A D, orig, lresp, lastR⟩ i (A.rc i)).status.isEmpty = false := by
    rw [hafter]; exact statusOf_ne A (i :: D)
  have hidne : (A.rc i).rcptId.isEmpty = false := by rw [hrc.2.1]; exact hrc.2.2
  obtain ⟨hres, hstate, _⟩ := receipt_step s now (A.t i) (A.rc i) (A.sub i) A.ref i _ hrc.1 hidne hinv.store hnow hd' hseg' hst hne
  rw [hafter] at hres hstate
  have hw : Waiting ⟨statusOf A (i :: D), orig, lresp, nextLast A lastR i⟩ ↔ ∃ j, 1 ≤ j ∧ j ≤ A.n ∧ j ∉ i :: D :=
    waiting_iff A (i :: D)
  constructor
  · intro hex
    have hwait := hw.mpr hex
    rw [if_pos hwait] at hres hstate
    refine ⟨hres, ?_, by rw [hstate]; rfl⟩
    rw [hstate]
    refine ⟨hinv.store, ?_, ⟨orig, lresp, ?_⟩⟩
    · intro j hj1 hj2 hjD
      have hji : j ≠ i := fun e => hjD (by simp [e])
      have hjD' : j ∉ D := fun h => hjD (by simp [h])
      obtain ⟨hdj, hsj⟩ := hinv.held j hj1 hj2 hjD'
      unfold afterWait
      dsimp only
      constructor
      · rw [aget_adel_other _ _ _ (by
          rw [hrc.2.1]; intro e; exact hji (A.idinj j i e))]
        exact hdj
      · rw [aget_adel_other _ _ _ (by
          rw [A.hq i]; intro e; exact hji (A.qinj j i e))]
        exact hsj
    · unfold afterWait
      dsimp only
      exact aget_aset_same _ _ _
  · intro hno
    have hnw : ¬ Waiting ⟨statusOf A (i :: D), orig, lresp, nextLast A lastR i⟩ := fun h => hno (hw.mp h)
    rw [if_neg hnw] at hres
    rw [hres, (A.hL i).1, (A.hL i).2]

/-- receipts handled one after the other -/
def runReceipts (A : Accepted) (now : Nat) : CState → List Nat → CState × List Handled
  | s, [] => (s, [])
  | s, i :: rest =>
    let h := handleDeliver s now (A.rc i)
    let r := runReceipts A now h.1 rest
    (r.1, h.2.2 :: r.2)

/-- the receipt that ends up being handed over: the last failing one, else the first -/
def pick (A : Accepted) : Option Msg → List Nat → Option Msg
  | lastR, [] => lastR
  | lastR, i :: rest => pick A (nextLast A lastR i) rest

/-- as long as some segment is still awaited after the whole list, every receipt yields a placeholder -/
theorem run_waiting (A : Accepted) (now : Nat) : ∀ (order D : List Nat) (lastR : Option Msg) (s : CState),
    Inv A D lastR s → now ≤ s.ttlDeliv → (∀ i ∈ order, 1 ≤ i ∧ i ≤ A.n) → (order ++ D).Nodup →
    (∃ j, 1 ≤ j ∧ j ≤ A.n ∧ j ∉ order ++ D) →
    (runReceipts A now s order).2 = order.map (fun _ => Handled.placeholder) ∧
    Inv A (order.reverse ++ D) (pick A lastR order) (runReceipts A now s order).1 ∧
    (runReceipts A now s order).1.ttlDeliv = s.ttlDeliv
  | [], D, lastR, s, hinv, _, _, _, _ => ⟨rfl, by simpa [runReceipts, pick] using hinv, rfl⟩
  | i :: rest, D, lastR, s, hinv, hnow, hr, hnd, hex => by
    have hir := hr i (by simp)
    have hnd' : i ∉ rest ++ D ∧ (rest ++ D).Nodup := List.nodup_cons.mp hnd
    have hiD : i ∉ D := fun h => hnd'.1 (List.mem_append_right _ h)
    obtain ⟨j, hj1, hj2, hjn⟩ := hex
    have hjn' : j ∉ i :: D := by
      intro h
      apply hjn
      rcases List.mem_cons.mp h with e | h
      · simp [e]
      · exact List.mem_append_right _ h
    obtain ⟨hph, hinv', httl⟩ := (inv_step A D lastR s now i hinv hnow hir.1 hir.2 hiD).1 ⟨j, hj1, hj2, hjn'⟩
    have hnd2 : (rest ++ i :: D).Nodup := by
      have : (rest ++ i :: D).Perm (i :: rest ++ D) := by
        simpa using (List.perm_middle (a := i) (l₁ := rest) (l₂ := D))
      exact this.nodup_iff.mpr hnd
    have hex2 : ∃ j, 1 ≤ j ∧ j ≤ A.n ∧ j ∉ rest ++ i :: D := by
      refine ⟨j, hj1, hj2, ?_⟩
      intro h
      apply hjn
      rcases List.mem_append.mp h with h | h
      · simp [h]
      · rcases List.mem_cons.mp h with e | h
        · simp [e]
        · exact List.mem_append_right _ h
    obtain ⟨ih1, ih2, ih3⟩ := run_waiting A now rest (i :: D) (nextLast A lastR i) _ hinv' (by rw [httl]; exact hnow)
      (fun k hk => hr k (by simp [hk])) hnd2 hex2
    refine ⟨?_, ?_, ?_⟩
    · simp only [runReceipts, List.map_cons, hph, ih1]
    · simp only [runReceipts, pick, List.reverse_cons, List.append_assoc, List.singleton_append]
      exact ih2
    · simp only [runReceipts]
      rw [ih3, httl]

end SmppVerif.Lemmas.SegReceipts

namespace SmppVerif.Lemmas.SegReceipts
open SmppVerif SmppVerif.Corr SmppVerif.Lemmas.Corr SmppVerif.Lemmas.Expiry SmppVerif.Lemmas.Ledger

theorem runReceipts_append (A : Accepted) (now : Nat) : ∀ (a b : List Nat) (s : CState),
    runReceipts A now s (a ++ b) =
      ((runReceipts A now (runReceipts A now s a).1 b).1, (runReceipts A now s a).2 ++ (runReceipts A now (runReceipts A now s a).1 b).2)
  | [], b, s => by simp [runReceipts]
  | i :: a, b, s => by
    simp only [List.cons_append, runReceipts]
    rw [runReceipts_append A now a b]

theorem pick_append (A : Accepted) : ∀ (a b : List Nat) (l : Option Msg), pick A l (a ++ b) = pick A (pick A l a) b
  | [], _, _ => rfl
  | i :: a, b, l => by simp only [List.cons_append, pick]; exact pick_append A a b _

theorem nextLast_some (A : Accepted) (l : Option Msg) (i : Nat) : ∃ r, nextLast A l i = some r := by
  unfold nextLast
  cases l with
  | none => exact ⟨A.rc i, by simp⟩
  | some x => by_cases h : codeOf (A.rc i) > 0 <;> simp [h]

/-- no receipt after the ones seen reports an error: what was picked stays -/
theorem pick_keep (A : Accepted) : ∀ (post : List Nat) (r : Msg), (∀ k ∈ post, ¬ codeOf (A.rc k) > 0) →
    pick A (some r) post = some r
  | [], _, _ => rfl
  | k :: post, r, h => by
    have hk := h k (by simp)
    simp only [pick, nextLast, hk, Option.isNone_some, Bool.false_eq_true, or_self, if_false]
    exact pick_keep A post r (fun x hx => h x (by simp [hx]))

/-- the receipt picked: the LAST failing one … -/
theorem pick_last_failing (A : Accepted) (pre post : List Nat) (j : Nat) (l : Option Msg)
    (hj : codeOf (A.rc j) > 0) (hpost : ∀ k ∈ post, ¬ codeOf (A.rc k) > 0) :
    pick A l (pre ++ j :: post) = some (A.rc j) := by
  rw [pick_append]
  simp only [pick, nextLast, hj, true_or, if_true]
  exact pick_keep A post _ hpost

/-- … and the FIRST receipt when none fails -/
theorem pick_first (A : Accepted) (i : Nat) (rest : List Nat) (h : ∀ k ∈ rest, ¬ codeOf (A.rc k) > 0) :
    pick A none (i :: rest) = some (A.rc i) := by
  simp only [pick, nextLast, Option.isNone_none, or_true, if_true]
  exact pick_keep A rest _ h

/-- ANY ORDER: the receipts for the `n` segments of a fully accepted message, handled in any order (any permutation of
    1..n), give `n - 1` placeholders and then exactly one receipt for the hook, carrying the message's log_id and
    extra_data — the one `pick` chooses. -/
theorem all_orders (A : Accepted) (now : Nat) (order : List Nat) (s : CState)
    (hperm : order.Perm (List.range' 1 A.n)) (hinv : Inv A [] none s) (hnow : now ≤ s.ttlDeliv) :
    ∃ r, pick A none order = some r ∧
      (runReceipts A now s order).2 =
        List.replicate (A.n - 1) Handled.placeholder ++ [.msg { r with logId := A.L, extra := A.X }] := by
  have hlen : order.length = A.n := by rw [hperm.length_eq]; simp
  have hnd : order.Nodup := hperm.nodup_iff.mpr (List.nodup_range' (s := 1) (n := A.n) 1)
  have hmem : ∀ i, i ∈ order ↔ 1 ≤ i ∧ i ≤ A.n := fun i => by rw [hperm.mem_iff]; exact mem_range' i A.n
  have hne : order ≠ [] := by
    intro h; rw [h] at hlen; have := A.hn; simp at hlen; omega
  obtain ⟨init, last, rfl⟩ : ∃ init last, order = init ++ [last] :=
    ⟨order.dropLast, order.getLast hne, (List.dropLast_append_getLast hne).symm⟩
  have hndi : (init ++ [last]).Nodup := hnd
  have hli : last ∉ init := by
    have := List.nodup_append.mp hndi
    intro h
    exact this.2.2 last h last (by simp) rfl
  have hlr := (hmem last).mp (by simp)
  obtain ⟨hph, hinv', httl⟩ := run_waiting A now init [] none s hinv hnow
    (fun i hi => (hmem i).mp (by simp [hi])) (by simpa using (List.nodup_append.mp hndi).1)
    ⟨last, hlr.1, hlr.2, by simpa using hli⟩
  have hiD : last ∉ init.reverse ++ [] := by simpa using hli
  have hall : ¬ ∃ j, 1 ≤ j ∧ j ≤ A.n ∧ j ∉ last :: (init.reverse ++ []) := by
    rintro ⟨j, h1, h2, hj⟩
    have := (hmem j).mpr ⟨h1, h2⟩
    apply hj
    rcases List.mem_append.mp this with h | h
    · simp [h]
    · simp at h; simp [h]
  have hfin := (inv_step A (init.reverse ++ []) (pick A none init) _ now last hinv' (by rw [httl]; exact hnow)
    hlr.1 hlr.2 hiD).2 hall
  obtain ⟨r, hr⟩ := nextLast_some A (pick A none init) last
  refine ⟨r, ?_, ?_⟩
  · rw [pick_append]; simp only [pick]; exact hr
  · rw [runReceipts_append]
    dsimp only
    rw [hph]
    simp only [runReceipts, hfin, hr, Option.getD_some]
    have hil : init.length = A.n - 1 := by simp at hlen; omega
    rw [← hil]
    simp [List.map_const']

end SmppVerif.Lemmas.SegReceipts
