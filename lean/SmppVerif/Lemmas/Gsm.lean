/- Helper lemmas for C10 (and reused by C11, C08). Core Lean only. -/
import SmppVerif.Model.Gsm
import SmppVerif.Spec.Gsm0338

namespace SmppVerif.Lemmas.Gsm
open SmppVerif SmppVerif.Gsm SmppVerif.Gen.Gsm

/-! ### Whole-table facts (kernel evaluation over the complete generated tables) -/

theorem basicEncode_facts : ∀ p ∈ basicEncode,
    p.2 < 128 ∧ p.2 ≠ escape ∧ alookup basicDecode p.2 = some p.1 ∧
    Spec.Gsm.encodeChar p.1 = some [p.2] := by decide +kernel

theorem extEncode_facts : ∀ p ∈ extEncode,
    p.2 < 128 ∧ p.2 ≠ escape ∧ alookup extDecode p.2 = some p.1 ∧
    (alookup basicEncode p.1 = none → Spec.Gsm.encodeChar p.1 = some [escape, p.2]) := by
  decide +kernel

theorem replaceEncode_facts : ∀ p ∈ replaceEncode,
    p.2 < 128 ∧ p.2 ≠ escape ∧ (alookup basicDecode p.2).isSome = true := by decide +kernel

theorem questionMark_facts :
    questionMark < 128 ∧ questionMark ≠ escape ∧ (alookup basicDecode questionMark).isSome = true := by
  decide +kernel

theorem basicDecode_keys : ∀ p ∈ basicDecode, p.1 < 128 ∧ p.1 ≠ escape := by decide +kernel

theorem extDecode_keys : ∀ p ∈ extDecode, p.1 < 128 ∧ p.1 ≠ escape := by decide +kernel

theorem escape_lt : escape < 128 := by decide

theorem table_eq_spec :
    (∀ k, k < 256 → alookup basicDecode k = Spec.Gsm.basic k) ∧
    extDecode = Spec.Gsm.ext ∧ escape = Spec.Gsm.esc := by
  refine ⟨?_, by decide +kernel, by decide⟩
  have h : ∀ k ∈ List.range 256, alookup basicDecode k = Spec.Gsm.basic k := by decide +kernel
  intro k hk
  exact h k (List.mem_range.mpr hk)

theorem alookup_none_of_keys {tbl : List (Nat × Nat)} {k : Nat}
    (h : ∀ p ∈ tbl, p.1 ≠ k) : alookup tbl k = none := by
  induction tbl with
  | nil => rfl
  | cons p rest ih =>
    obtain ⟨a, b⟩ := p
    unfold alookup
    have : a ≠ k := h (a, b) (by simp)
    simp [this]
    exact ih (fun q hq => h q (List.mem_cons_of_mem _ hq))

theorem basicDecode_high (b : Nat) (hb : 128 ≤ b) : alookup basicDecode b = none := by
  apply alookup_none_of_keys
  intro p hp
  have := (basicDecode_keys p hp).1
  omega

/-! ### encChar -/

theorem encChar_cost (c : Nat) :
    (∃ k, encChar .strict c = .ok [k] ∧ k < 128 ∧ k ≠ escape ∧ alookup basicDecode k = some c) ∨
    (∃ k, encChar .strict c = .ok [escape, k] ∧ k < 128 ∧ k ≠ escape ∧
          alookup extDecode k = some c ∧ alookup basicEncode c = none) ∨
    (encChar .strict c = .error .unicodeEncodeError ∧ inAlphabet c = false) := by
  unfold encChar inAlphabet
  cases hb : alookup basicEncode c with
  | some k =>
    left
    have := basicEncode_facts (c, k) (alookup_mem hb)
    exact ⟨k, rfl, this.1, this.2.1, this.2.2.1⟩
  | none =>
    right
    cases he : alookup extEncode c with
    | some k =>
      left
      have := extEncode_facts (c, k) (alookup_mem he)
      exact ⟨k, rfl, this.1, this.2.1, this.2.2.1, rfl⟩
    | none => right; simp

theorem encChar_eq_spec (c : Nat) (ks : List Nat) (h : encChar .strict c = .ok ks) :
    Spec.Gsm.encodeChar c = some ks := by
  unfold encChar at h
  cases hb : alookup basicEncode c with
  | some k =>
    rw [hb] at h; cases h
    exact (basicEncode_facts (c, k) (alookup_mem hb)).2.2.2
  | none =>
    rw [hb] at h
    cases he : alookup extEncode c with
    | some k =>
      rw [he] at h; cases h
      exact (extEncode_facts (c, k) (alookup_mem he)).2.2.2 hb
    | none => rw [he] at h; cases h

/-- strict and lenient modes agree on characters of the alphabet -/
theorem encChar_inAlphabet (m : Mode) (c : Nat) (h : inAlphabet c = true) :
    encChar m c = encChar .strict c := by
  unfold encChar inAlphabet at *
  cases hb : alookup basicEncode c with
  | some k => rfl
  | none =>
    cases he : alookup extEncode c with
    | some k => rfl
    | none => simp [hb, he] at h

theorem encChar_strict_ok_iff (c : Nat) :
    (∃ ks, encChar .strict c = .ok ks) ↔ inAlphabet c = true := by
  rcases encChar_cost c with ⟨k, h, _, _, _⟩ | ⟨k, h, _, _, _, _⟩ | ⟨h, hn⟩
  · constructor
    · intro _; unfold inAlphabet; unfold encChar at h
      cases hb : alookup basicEncode c <;> simp [hb] at h ⊢
      cases he : alookup extEncode c <;> simp [he] at h ⊢
    · intro _; exact ⟨_, h⟩
  · constructor
    · intro _; unfold inAlphabet; unfold encChar at h
      cases hb : alookup basicEncode c <;> simp [hb] at h ⊢
      cases he : alookup extEncode c <;> simp [he] at h ⊢
    · intro _; exact ⟨_, h⟩
  · constructor
    · rintro ⟨ks, hk⟩; rw [h] at hk; cases hk
    · intro h'; rw [hn] at h'; cases h'

theorem encChar_replace_unknown (c : Nat) (h : inAlphabet c = false) :
    ∃ k, encChar .replace c = .ok [k] ∧ k < 128 ∧ k ≠ escape ∧
         (alookup basicDecode k).isSome := by
  unfold inAlphabet at h
  have hb : alookup basicEncode c = none := by
    cases hb : alookup basicEncode c <;> simp [hb] at h ⊢
  have he : alookup extEncode c = none := by
    cases he : alookup extEncode c <;> simp [hb, he] at h ⊢
  unfold encChar
  simp only [hb, he]
  cases hr : alookup replaceEncode c with
  | some k =>
    have := replaceEncode_facts (c, k) (alookup_mem hr)
    exact ⟨k, rfl, this.1, this.2.1, this.2.2⟩
  | none =>
    exact ⟨questionMark, rfl, questionMark_facts.1, questionMark_facts.2.1, questionMark_facts.2.2⟩

/-! ### toGsmCodes / encode -/

theorem toGsmCodes_cons (m : Mode) (c : Nat) (cs : List Nat) :
    toGsmCodes m (c :: cs) =
      (match encChar m c with
       | .error e => .error e
       | .ok ks => match toGsmCodes m cs with
                   | .error e => .error e
                   | .ok rest => .ok (ks ++ rest)) := rfl

theorem encChar_lenient_ok (m : Mode) (hm : m ≠ .strict) (c : Nat) : ∃ ks, encChar m c = .ok ks := by
  unfold encChar
  cases alookup basicEncode c with
  | some k => exact ⟨_, rfl⟩
  | none =>
    cases alookup extEncode c with
    | some k => exact ⟨_, rfl⟩
    | none => cases m <;> simp at hm ⊢

theorem toGsmCodes_lenient_ok (m : Mode) (hm : m ≠ .strict) (t : List Nat) :
    ∃ ks, toGsmCodes m t = .ok ks := by
  induction t with
  | nil => exact ⟨[], rfl⟩
  | cons c cs ih =>
    obtain ⟨k1, h1⟩ := encChar_lenient_ok m hm c
    obtain ⟨k2, h2⟩ := ih
    exact ⟨k1 ++ k2, by rw [toGsmCodes_cons, h1, h2]⟩

theorem toGsmCodes_append_ok (m : Mode) (a b ka kb : List Nat)
    (ha : toGsmCodes m a = .ok ka) (hb : toGsmCodes m b = .ok kb) :
    toGsmCodes m (a ++ b) = .ok (ka ++ kb) := by
  induction a generalizing ka with
  | nil => simp [toGsmCodes] at ha; subst ha; simpa using hb
  | cons c cs ih =>
    rw [toGsmCodes_cons] at ha
    cases h1 : encChar m c with
    | error e => rw [h1] at ha; cases ha
    | ok k1 =>
      rw [h1] at ha
      cases h2 : toGsmCodes m cs with
      | error e => rw [h2] at ha; cases ha
      | ok k2 =>
        rw [h2] at ha; cases ha
        have := ih k2 h2
        show toGsmCodes m (c :: (cs ++ b)) = _
        rw [toGsmCodes_cons, h1, this]
        simp [List.append_assoc]

theorem toGsmCodes_append (m : Mode) (hm : m ≠ .strict) (a b : List Nat) :
    ∃ ka kb, toGsmCodes m a = .ok ka ∧ toGsmCodes m b = .ok kb ∧
             toGsmCodes m (a ++ b) = .ok (ka ++ kb) := by
  obtain ⟨ka, ha⟩ := toGsmCodes_lenient_ok m hm a
  obtain ⟨kb, hb⟩ := toGsmCodes_lenient_ok m hm b
  exact ⟨ka, kb, ha, hb, toGsmCodes_append_ok m a b ka kb ha hb⟩

theorem encChar_ignore_unknown (c : Nat) (h : inAlphabet c = false) : encChar .ignore c = .ok [] := by
  unfold inAlphabet at h
  unfold encChar
  cases hb : alookup basicEncode c <;> simp [hb] at h ⊢
  cases he : alookup extEncode c <;> simp [he] at h ⊢

theorem encode_ignore (t : List Nat) :
    toGsmCodes .ignore t = toGsmCodes .strict (t.filter inAlphabet) := by
  induction t with
  | nil => rfl
  | cons c cs ih =>
    cases hc : inAlphabet c with
    | true =>
      rw [List.filter_cons_of_pos (by simpa using hc), toGsmCodes_cons, toGsmCodes_cons, ih,
        encChar_inAlphabet .ignore c hc]
    | false =>
      rw [List.filter_cons_of_neg (by simp [hc]), toGsmCodes_cons, encChar_ignore_unknown c hc, ih]
      cases toGsmCodes .strict (cs.filter inAlphabet) <;> simp

/-- all septets produced in strict mode are < 128 -/
theorem toGsmCodes_strict_lt (t ks : List Nat) (h : toGsmCodes .strict t = .ok ks) : AllLt 128 ks := by
  induction t generalizing ks with
  | nil => simp [toGsmCodes] at h; subst h; intro x hx; cases hx
  | cons c cs ih =>
    rw [toGsmCodes_cons] at h
    rcases encChar_cost c with ⟨k, hk, hlt, _, _⟩ | ⟨k, hk, hlt, _, _, _⟩ | ⟨hk, _⟩
    · rw [hk] at h
      cases h2 : toGsmCodes .strict cs with
      | error e => rw [h2] at h; cases h
      | ok k2 =>
        rw [h2] at h; cases h
        intro x hx
        simp at hx
        rcases hx with rfl | hx
        · exact hlt
        · exact ih k2 h2 x hx
    · rw [hk] at h
      cases h2 : toGsmCodes .strict cs with
      | error e => rw [h2] at h; cases h
      | ok k2 =>
        rw [h2] at h; cases h
        intro x hx
        simp at hx
        rcases hx with rfl | rfl | hx
        · exact escape_lt
        · exact hlt
        · exact ih k2 h2 x hx
    · rw [hk] at h; cases h

theorem packOctets_of_lt (ks : List Nat) (h : AllLt 128 ks) : packOctets ks = .ok ks := by
  unfold packOctets
  have : ks.all (· < 256) = true := by
    rw [List.all_eq_true]; intro x hx; have := h x hx; simp; omega
  simp [this]

theorem toGsmCodes_strict_ok_iff (t : List Nat) :
    (∃ ks, toGsmCodes .strict t = .ok ks) ↔ isGsmText t = true := by
  induction t with
  | nil => simp [toGsmCodes, isGsmText]
  | cons c cs ih =>
    have hc := encChar_strict_ok_iff c
    simp only [isGsmText, List.all_cons, Bool.and_eq_true] at ih ⊢
    constructor
    · rintro ⟨ks, h⟩
      rw [toGsmCodes_cons] at h
      cases h1 : encChar .strict c with
      | error e => rw [h1] at h; cases h
      | ok k1 =>
        rw [h1] at h
        cases h2 : toGsmCodes .strict cs with
        | error e => rw [h2] at h; cases h
        | ok k2 => exact ⟨hc.mp ⟨_, h1⟩, ih.mp ⟨_, h2⟩⟩
    · rintro ⟨h1, h2⟩
      obtain ⟨k1, h1⟩ := hc.mpr h1
      obtain ⟨k2, h2⟩ := ih.mpr h2
      exact ⟨k1 ++ k2, by rw [toGsmCodes_cons, h1, h2]⟩

theorem toGsmCodes_strict_error (t : List Nat) (e : Exc) (h : toGsmCodes .strict t = .error e) :
    e = .unicodeEncodeError := by
  induction t with
  | nil => simp [toGsmCodes] at h
  | cons c cs ih =>
    rw [toGsmCodes_cons] at h
    cases h1 : encChar .strict c with
    | error e1 =>
      rw [h1] at h; cases h
      rcases encChar_cost c with ⟨k, hk, _⟩ | ⟨k, hk, _⟩ | ⟨hk, _⟩ <;> rw [hk] at h1 <;> cases h1
      rfl
    | ok k1 =>
      rw [h1] at h
      cases h2 : toGsmCodes .strict cs with
      | error e2 => rw [h2] at h; cases h; exact ih h2
      | ok k2 => rw [h2] at h; cases h

theorem isGsmText_iff_encodes (t : List Nat) :
    isGsmText t = true ↔ ∃ b, encode .strict t = .ok b := by
  rw [← toGsmCodes_strict_ok_iff]
  unfold encode
  constructor
  · rintro ⟨ks, h⟩
    rw [h]
    exact ⟨ks, packOctets_of_lt ks (toGsmCodes_strict_lt t ks h)⟩
  · rintro ⟨b, h⟩
    cases h1 : toGsmCodes .strict t with
    | error e => rw [h1] at h; cases h
    | ok ks => exact ⟨ks, rfl⟩

theorem encode_strict_rejects (t : List Nat) :
    encode .strict t = .error .unicodeEncodeError ↔ isGsmText t = false := by
  constructor
  · intro h
    cases hg : isGsmText t with
    | false => rfl
    | true =>
      obtain ⟨b, hb⟩ := (isGsmText_iff_encodes t).mp hg
      rw [hb] at h; cases h
  · intro h
    unfold encode
    cases h1 : toGsmCodes .strict t with
    | error e => rw [toGsmCodes_strict_error t e h1]
    | ok ks =>
      have := (toGsmCodes_strict_ok_iff t).mp ⟨ks, h1⟩
      rw [h] at this; cases this

/-! ### decode -/

theorem decodeLoop_basic (m : Mode) (k c : Nat) (rest : List Nat)
    (hk : k ≠ escape) (hd : alookup basicDecode k = some c) :
    decodeLoop m false (k :: rest) = (decodeLoop m false rest).map (c :: ·) := by
  rw [decodeLoop.eq_def]
  simp only [decodeChar, hk, if_false, hd]
  cases decodeLoop m false rest <;> rfl

theorem decodeLoop_ext (m : Mode) (k c : Nat) (rest : List Nat)
    (hk : k ≠ escape) (hd : alookup extDecode k = some c) :
    decodeLoop m false (escape :: k :: rest) = (decodeLoop m false rest).map (c :: ·) := by
  rw [decodeLoop.eq_def]
  simp only [decodeChar, if_true]
  rw [decodeLoop.eq_def]
  simp only [decodeChar, hk, if_false, hd, if_true, Option.getD]
  cases decodeLoop m false rest <;> rfl

theorem decode_esc_unknown (m : Mode) (k : Nat) (rest : List Nat)
    (hk : k ≠ escape) (hx : alookup extDecode k = none) :
    decodeLoop m false (escape :: k :: rest) =
      (decodeLoop m false rest).map (noBreakSpace :: ·) := by
  rw [decodeLoop.eq_def]
  simp only [decodeChar, if_true]
  rw [decodeLoop.eq_def]
  simp only [decodeChar, hk, if_false, hx, if_true, Option.getD]
  cases decodeLoop m false rest <;> rfl

theorem decode_trailing_esc :
    decodeLoop .strict false [escape] = .error .unicodeDecodeError ∧
    decodeLoop .ignore false [escape] = .ok [] ∧
    decodeLoop .replace false [escape] = .ok [noBreakSpace] := by
  refine ⟨?_, ?_, ?_⟩ <;> simp [decodeLoop, decodeChar]

theorem map_map_cons {ε : Type} (x : Except ε (List Nat)) (a b : List Nat) :
    (x.map (b ++ ·)).map (a ++ ·) = x.map ((a ++ b) ++ ·) := by
  cases x <;> simp [Except.map]

/-- Compositionality: the encoding of a GSM text as a prefix decodes to that text and
    leaves the decoding of what follows untouched (any mode). -/
theorem decode_prefix (m : Mode) (t ks rest : List Nat) (h : toGsmCodes .strict t = .ok ks) :
    decodeLoop m false (ks ++ rest) = (decodeLoop m false rest).map (t ++ ·) := by
  induction t generalizing ks with
  | nil =>
    simp [toGsmCodes] at h; subst h
    show decodeLoop m false rest = _
    cases decodeLoop m false rest <;> simp [Except.map]
  | cons c cs ih =>
    rw [toGsmCodes_cons] at h
    rcases encChar_cost c with ⟨k, hk, _, hne, hd⟩ | ⟨k, hk, _, hne, hd, _⟩ | ⟨hk, _⟩
    · rw [hk] at h
      cases h2 : toGsmCodes .strict cs with
      | error e => rw [h2] at h; cases h
      | ok k2 =>
        rw [h2] at h; cases h
        show decodeLoop m false (k :: (k2 ++ rest)) = _
        rw [decodeLoop_basic m k c _ hne hd, ih k2 h2]
        cases decodeLoop m false rest <;> simp [Except.map]
    · rw [hk] at h
      cases h2 : toGsmCodes .strict cs with
      | error e => rw [h2] at h; cases h
      | ok k2 =>
        rw [h2] at h; cases h
        show decodeLoop m false (escape :: k :: (k2 ++ rest)) = _
        rw [decodeLoop_ext m k c _ hne hd, ih k2 h2]
        cases decodeLoop m false rest <;> simp [Except.map]
    · rw [hk] at h; cases h

theorem decodeLoop_nil (m : Mode) : decodeLoop m false [] = .ok [] := by
  simp [decodeLoop]

theorem decode_encode_any_mode (m : Mode) (t : List Nat) (h : isGsmText t = true) :
    ∃ b, encode .strict t = .ok b ∧ decode m b = .ok t := by
  obtain ⟨ks, hks⟩ := (toGsmCodes_strict_ok_iff t).mpr h
  refine ⟨ks, ?_, ?_⟩
  · unfold encode; rw [hks]; exact packOctets_of_lt ks (toGsmCodes_strict_lt t ks hks)
  · have := decode_prefix m t ks [] hks
    simp only [List.append_nil, decodeLoop_nil] at this
    unfold decode; rw [this]; simp [Except.map]

theorem codes_length (t ks : List Nat) (h : toGsmCodes .strict t = .ok ks) :
    ks.length = (t.filter fun c => (alookup basicEncode c).isSome).length
              + 2 * (t.filter fun c => !(alookup basicEncode c).isSome).length := by
  induction t generalizing ks with
  | nil => simp [toGsmCodes] at h; subst h; rfl
  | cons c cs ih =>
    rw [toGsmCodes_cons] at h
    rcases encChar_cost c with ⟨k, hk, _, _, _⟩ | ⟨k, hk, _, _, _, hnone⟩ | ⟨hk, _⟩
    · rw [hk] at h
      have hb : (alookup basicEncode c).isSome = true := by
        unfold encChar at hk
        cases hb : alookup basicEncode c with
        | some _ => rfl
        | none =>
          rw [hb] at hk
          cases he : alookup extEncode c <;> rw [he] at hk <;> simp at hk
      cases h2 : toGsmCodes .strict cs with
      | error e => rw [h2] at h; cases h
      | ok k2 =>
        rw [h2] at h; cases h
        have := ih k2 h2
        simp only [List.filter_cons, hb, Bool.not_true, Bool.false_eq_true, if_true, if_false,
          List.length_cons, List.length_append, List.length_nil, this]
        omega
    · rw [hk] at h
      cases h2 : toGsmCodes .strict cs with
      | error e => rw [h2] at h; cases h
      | ok k2 =>
        rw [h2] at h; cases h
        have := ih k2 h2
        simp only [List.filter_cons, hnone, Option.isSome_none, Bool.not_false, Bool.false_eq_true,
          if_true, if_false, List.length_cons, List.length_append, List.length_nil, this]
        omega
    · rw [hk] at h; cases h

theorem decode_encode (t : List Nat) (h : isGsmText t = true) :
    ∃ b, encode .strict t = .ok b ∧ decode .strict b = .ok t ∧
         b.length = (t.filter fun c => (alookup basicEncode c).isSome).length
                  + 2 * (t.filter fun c => !(alookup basicEncode c).isSome).length := by
  obtain ⟨ks, hks⟩ := (toGsmCodes_strict_ok_iff t).mpr h
  obtain ⟨b, hb, hd⟩ := decode_encode_any_mode .strict t h
  have : b = ks := by
    simp only [encode, hks, packOctets_of_lt ks (toGsmCodes_strict_lt t ks hks)] at hb
    cases hb; rfl
  subst this
  exact ⟨b, hb, hd, codes_length t b hks⟩

theorem decode_high_octet (b : Nat) (hb : 128 ≤ b) (post : List Nat) :
    decodeLoop .strict false (b :: post) = .error .unicodeDecodeError ∧
    decodeLoop .ignore false (b :: post) = decodeLoop .ignore false post ∧
    decodeLoop .replace false (b :: post) = (decodeLoop .replace false post).map (questionMark :: ·) := by
  have hne : b ≠ escape := by have := escape_lt; omega
  have hnone := basicDecode_high b hb
  refine ⟨?_, ?_, ?_⟩
  · rw [decodeLoop]; simp [decodeChar, hne, hnone]
  · rw [decodeLoop]; simp [decodeChar, hne, hnone]
  · rw [decodeLoop]; simp only [decodeChar, hne, if_false, hnone]
    cases decodeLoop .replace false post <;> rfl

end SmppVerif.Lemmas.Gsm
