/- Helper lemmas for C08: the chunk loop never separates the two cells of a unit. -/
import SmppVerif.Model.Split
import SmppVerif.Lemmas.Gsm

namespace SmppVerif.Lemmas.Split
open SmppVerif SmppVerif.Split

/-- pointwise relation between two lists of equal length -/
inductive Forall2 {α β : Type} (R : α → β → Prop) : List α → List β → Prop
  | nil : Forall2 R [] []
  | cons {a b l m} : R a b → Forall2 R l m → Forall2 R (a :: l) (b :: m)

theorem forall2_self_map {α γ : Type} (f : α → γ) (R : γ → α → Prop) :
    ∀ (l : List α), (∀ a ∈ l, R (f a) a) → Forall2 R (l.map f) l
  | [], _ => .nil
  | a :: l, h => .cons (h a (by simp)) (forall2_self_map f R l (fun b hb => h b (by simp [hb])))

/-- A unit is what one character contributes: one non-lead cell, or a lead cell followed by
    a non-lead cell (escape + code; high + low surrogate). -/
def UnitOk (lead : Nat → Bool) (u : List Nat) : Prop :=
  (∃ x, u = [x] ∧ lead x = false) ∨ (∃ l x, u = [l, x] ∧ lead l = true ∧ lead x = false)

def UnitsOk (lead : Nat → Bool) (units : List (List Nat)) : Prop := ∀ u ∈ units, UnitOk lead u

theorem UnitsOk.tail {lead : Nat → Bool} {u : List Nat} {us : List (List Nat)}
    (h : UnitsOk lead (u :: us)) : UnitsOk lead us := fun v hv => h v (List.mem_cons_of_mem _ hv)

theorem UnitsOk.append_right {lead : Nat → Bool} {a b : List (List Nat)}
    (h : UnitsOk lead (a ++ b)) : UnitsOk lead b := fun v hv => h v (List.mem_append_right _ hv)

/-- Every cell position `n` either is a unit boundary (and the cell before it is not a lead)
    or lies inside a two-cell unit (and the cell before it is that unit's lead). -/
theorem splitPoint (lead : Nat → Bool) : ∀ (units : List (List Nat)) (n : Nat),
    UnitsOk lead units → n ≤ units.flatten.length →
    ∃ pre post, units = pre ++ post ∧
      ((pre.flatten.length = n ∧ (1 ≤ n → lead (units.flatten.getD (n - 1) 0) = false)) ∨
       (pre.flatten.length + 1 = n ∧ lead (units.flatten.getD (n - 1) 0) = true))
  | units, 0, _, _ => ⟨[], units, rfl, Or.inl ⟨rfl, fun h => absurd h (by omega)⟩⟩
  | [], n + 1, _, hn => by simp at hn
  | u :: us, n + 1, hok, hn => by
    have hus := hok.tail
    rcases hok u (by simp) with ⟨x, rfl, hx⟩ | ⟨l, x, rfl, hl, hx⟩
    · -- one-cell unit
      have hn' : n ≤ us.flatten.length := by
        simp only [List.flatten_cons, List.length_append, List.length_cons, List.length_nil] at hn; omega
      obtain ⟨pre, post, hsplit, hcase⟩ := splitPoint lead us n hus hn'
      refine ⟨[x] :: pre, post, by rw [hsplit]; rfl, ?_⟩
      rcases hcase with ⟨hlen, hlead⟩ | ⟨hlen, hlead⟩
      · left
        refine ⟨by simp only [List.flatten_cons, List.length_append, List.length_cons, List.length_nil]; omega, fun _ => ?_⟩
        cases n with
        | zero => simpa using hx
        | succ m =>
          have := hlead (by omega)
          simpa using this
      · right
        refine ⟨by simp only [List.flatten_cons, List.length_append, List.length_cons, List.length_nil]; omega, ?_⟩
        cases n with
        | zero => omega
        | succ m => simpa using hlead
    · -- two-cell unit
      cases n with
      | zero =>
        exact ⟨[], [l, x] :: us, rfl, Or.inr ⟨rfl, by simpa using hl⟩⟩
      | succ m =>
        have hn' : m ≤ us.flatten.length := by
          simp only [List.flatten_cons, List.length_append, List.length_cons, List.length_nil] at hn; omega
        obtain ⟨pre, post, hsplit, hcase⟩ := splitPoint lead us m hus hn'
        refine ⟨[l, x] :: pre, post, by rw [hsplit]; rfl, ?_⟩
        rcases hcase with ⟨hlen, hlead⟩ | ⟨hlen, hlead⟩
        · left
          refine ⟨by simp only [List.flatten_cons, List.length_append, List.length_cons, List.length_nil]; omega, fun _ => ?_⟩
          cases m with
          | zero => simpa using hx
          | succ k =>
            have := hlead (by omega)
            simpa using this
        · right
          refine ⟨by simp only [List.flatten_cons, List.length_append, List.length_cons, List.length_nil]; omega, ?_⟩
          cases m with
          | zero => omega
          | succ k => simpa using hlead

theorem flatten_ne_nil_of_unitsOk {lead : Nat → Bool} {g : List (List Nat)}
    (hok : UnitsOk lead g) (hne : g ≠ []) : g.flatten ≠ [] := by
  cases g with
  | nil => exact absurd rfl hne
  | cons u us =>
    rcases hok u (by simp) with ⟨x, rfl, _⟩ | ⟨l, x, rfl, _, _⟩ <;> simp

/-- The chunk loop cuts the cells only at unit boundaries: its chunks are the flattenings
    of consecutive groups of whole units, each non-empty and at most `L` cells. -/
theorem chunkRec_groups (lead : Nat → Bool) (L : Nat) (hL : 2 ≤ L) :
    ∀ (fuel : Nat) (units : List (List Nat)), UnitsOk lead units →
      units.flatten.length < fuel →
      ∃ groups : List (List (List Nat)), groups.flatten = units ∧
        chunkRec lead L fuel units.flatten = groups.map List.flatten ∧
        (∀ g ∈ groups, g ≠ [] ∧ g.flatten.length ≤ L)
  | 0, _, _, h => by omega
  | fuel + 1, units, hok, hfuel => by
    rw [chunkRec]
    by_cases hempty : units.flatten.isEmpty = true
    · -- nothing left: all units are… there are none (every unit is non-empty)
      have hnil : units = [] := by
        cases units with
        | nil => rfl
        | cons u us =>
          exfalso
          exact flatten_ne_nil_of_unitsOk hok (by simp) (List.isEmpty_iff.mp hempty)
      subst hnil
      exact ⟨[], rfl, by simp, by simp⟩
    · simp only [hempty, Bool.false_eq_true, if_false]
      have hune : units ≠ [] := by intro e; subst e; simp at hempty
      by_cases hshort : units.flatten.length < L
      · simp only [hshort, if_true]
        refine ⟨[units], by simp, by simp, ?_⟩
        intro g hg
        simp at hg; subst hg
        exact ⟨hune, by omega⟩
      · simp only [hshort, if_false]
        have hge : L ≤ units.flatten.length := by omega
        obtain ⟨pre, post, hsplit, hcase⟩ := splitPoint lead units L hok hge
        have hpost : UnitsOk lead post := by rw [hsplit] at hok; exact hok.append_right
        have hpre : UnitsOk lead pre := fun v hv => hok v (by rw [hsplit]; exact List.mem_append_left _ hv)
        have hflat : units.flatten = pre.flatten ++ post.flatten := by rw [hsplit]; simp
        rcases hcase with ⟨hlen, hlead⟩ | ⟨hlen, hlead⟩
        · have hk : (if lead (units.flatten.getD (L - 1) 0) = true then L - 1 else L) = L := by
            rw [hlead (by omega)]; simp
          rw [hk]
          have htake : units.flatten.take L = pre.flatten := by
            rw [hflat, ← hlen]; simp
          have hdrop : units.flatten.drop L = post.flatten := by
            rw [hflat, ← hlen]; simp
          rw [htake, hdrop]
          have hlt : post.flatten.length < fuel := by
            have : units.flatten.length = pre.flatten.length + post.flatten.length := by
              rw [hflat]; simp
            omega
          obtain ⟨gs, hgs, hrec, hbound⟩ := chunkRec_groups lead L hL fuel post hpost hlt
          refine ⟨pre :: gs, by simp [hgs, hsplit], by simp [hrec], ?_⟩
          intro g hg
          simp at hg
          rcases hg with rfl | hg
          · refine ⟨?_, by omega⟩
            intro e; subst e; simp at hlen; omega
          · exact hbound g hg
        · have hk : (if lead (units.flatten.getD (L - 1) 0) = true then L - 1 else L) = L - 1 := by
            rw [hlead]; simp
          rw [hk]
          have hlen' : pre.flatten.length = L - 1 := by omega
          have htake : units.flatten.take (L - 1) = pre.flatten := by
            rw [hflat, ← hlen']; simp
          have hdrop : units.flatten.drop (L - 1) = post.flatten := by
            rw [hflat, ← hlen']; simp
          rw [htake, hdrop]
          have hlt : post.flatten.length < fuel := by
            have : units.flatten.length = pre.flatten.length + post.flatten.length := by
              rw [hflat]; simp
            omega
          obtain ⟨gs, hgs, hrec, hbound⟩ := chunkRec_groups lead L hL fuel post hpost hlt
          refine ⟨pre :: gs, by simp [hgs, hsplit], by simp [hrec], ?_⟩
          intro g hg
          simp at hg
          rcases hg with rfl | hg
          · refine ⟨?_, by omega⟩
            intro e; subst e; simp at hlen'; omega
          · exact hbound g hg

/-- If groups of units flatten to the image of a text under a per-character map, the groups
    are the images of consecutive pieces of the text. -/
theorem groups_of_map {α : Type} (f : α → List Nat) :
    ∀ (groups : List (List (List Nat))) (text : List α), groups.flatten = text.map f →
      ∃ pieces : List (List α), pieces.flatten = text ∧ groups = pieces.map (List.map f)
  | [], text, h => by
    have : text = [] := by simpa using h.symm
    exact ⟨[], by simp [this], rfl⟩
  | g :: gs, text, h => by
    simp only [List.flatten_cons] at h
    obtain ⟨t1, t2, ht, h1, h2⟩ := List.map_eq_append_iff.mp h.symm
    obtain ⟨ps, hps, hgs⟩ := groups_of_map f gs t2 h2.symm
    exact ⟨t1 :: ps, by simp [hps, ht], by simp [h1, hgs]⟩

end SmppVerif.Lemmas.Split

namespace SmppVerif.Lemmas.Split
open SmppVerif SmppVerif.Split

/-! ### GSM path: units are the per-character septets -/

def gsmUnitOf (c : Nat) : List Nat :=
  match Gsm.encChar .strict c with
  | .ok ks => ks
  | .error _ => []

theorem gsm_units (t ks : List Nat) (h : Gsm.toGsmCodes .strict t = .ok ks) :
    ks = (t.map gsmUnitOf).flatten ∧ UnitsOk gsmLead (t.map gsmUnitOf) := by
  induction t generalizing ks with
  | nil => simp [Gsm.toGsmCodes] at h; subst h; exact ⟨rfl, fun u hu => by simp at hu⟩
  | cons c cs ih =>
    rw [Lemmas.Gsm.toGsmCodes_cons] at h
    cases h1 : Gsm.encChar .strict c with
    | error e => rw [h1] at h; cases h
    | ok k1 =>
      rw [h1] at h
      cases h2 : Gsm.toGsmCodes .strict cs with
      | error e => rw [h2] at h; cases h
      | ok k2 =>
        rw [h2] at h; cases h
        obtain ⟨e2, ok2⟩ := ih k2 h2
        have hu : gsmUnitOf c = k1 := by unfold gsmUnitOf; rw [h1]
        refine ⟨by simp [hu, e2], ?_⟩
        intro u hu'
        simp only [List.map_cons, List.mem_cons] at hu'
        rcases hu' with rfl | hu'
        · rw [hu]
          rcases Lemmas.Gsm.encChar_cost c with ⟨k, hk, _, hne, _⟩ | ⟨k, hk, _, hne, _, _⟩ | ⟨hk, _⟩
          · rw [hk] at h1; cases h1
            exact Or.inl ⟨k, rfl, by simp [gsmLead, hne]⟩
          · rw [hk] at h1; cases h1
            exact Or.inr ⟨_, k, rfl, by simp [gsmLead], by simp [gsmLead, hne]⟩
          · rw [hk] at h1; cases h1
        · exact ok2 u hu'

/-- every piece of an encodable text is encodable, to the flattening of its units -/
theorem gsm_piece (p : List Nat) (h : ∀ c ∈ p, Gsm.inAlphabet c = true) :
    Gsm.toGsmCodes .strict p = .ok ((p.map gsmUnitOf).flatten) := by
  have hg : Gsm.isGsmText p = true := by
    unfold Gsm.isGsmText; rw [List.all_eq_true]; exact h
  obtain ⟨ks, hks⟩ := (Lemmas.Gsm.toGsmCodes_strict_ok_iff p).mpr hg
  rw [hks, (gsm_units p ks hks).1]

theorem inAlphabet_of_codes (t ks : List Nat) (h : Gsm.toGsmCodes .strict t = .ok ks) :
    ∀ c ∈ t, Gsm.inAlphabet c = true := by
  have := (Lemmas.Gsm.toGsmCodes_strict_ok_iff t).mp ⟨ks, h⟩
  unfold Gsm.isGsmText at this
  rw [List.all_eq_true] at this
  exact this

/-- GSM segmentation: the chunks of the septets of a text are the septets of consecutive
    pieces of the text; each chunk is non-empty, at most `L` septets, and decodes on its own
    (strictly) to its piece. -/
theorem gsm_chunks (L : Nat) (hL : 2 ≤ L) (t ks : List Nat)
    (h : Gsm.toGsmCodes .strict t = .ok ks) :
    ∃ pieces : List (List Nat), pieces.flatten = t ∧
      chunks gsmLead L ks = pieces.map (fun p => (p.map gsmUnitOf).flatten) ∧
      (∀ p ∈ pieces, p ≠ [] ∧ ((p.map gsmUnitOf).flatten).length ≤ L ∧
        Gsm.toGsmCodes .strict p = .ok ((p.map gsmUnitOf).flatten) ∧
        Gsm.decode .strict ((p.map gsmUnitOf).flatten) = .ok p) := by
  obtain ⟨hks, hok⟩ := gsm_units t ks h
  unfold chunks
  subst hks
  obtain ⟨groups, hflat, hrec, hbound⟩ :=
    chunkRec_groups gsmLead L hL ((t.map gsmUnitOf).flatten.length + 1) (t.map gsmUnitOf) hok (by omega)
  obtain ⟨pieces, hp, hg⟩ := groups_of_map gsmUnitOf groups t hflat
  refine ⟨pieces, hp, ?_, ?_⟩
  · rw [hrec, hg]; simp [List.map_map]
  · intro p hpm
    have hin : ∀ c ∈ p, Gsm.inAlphabet c = true := by
      intro c hc
      apply inAlphabet_of_codes t _ h
      rw [← hp]; exact List.mem_flatten.mpr ⟨p, hpm, hc⟩
    have hgm : p.map gsmUnitOf ∈ groups := by rw [hg]; exact List.mem_map.mpr ⟨p, hpm, rfl⟩
    obtain ⟨hne, hlen⟩ := hbound _ hgm
    have hpc := gsm_piece p hin
    refine ⟨by intro e; subst e; simp at hne, hlen, hpc, ?_⟩
    have hg' : Gsm.isGsmText p = true := by
      unfold Gsm.isGsmText; rw [List.all_eq_true]; exact hin
    obtain ⟨b, hb, hd⟩ := Lemmas.Gsm.decode_encode_any_mode .strict p hg'
    have hlt := Lemmas.Gsm.toGsmCodes_strict_lt p _ hpc
    simp only [Gsm.encode, hpc, Lemmas.Gsm.packOctets_of_lt _ hlt] at hb
    cases hb
    exact hd

end SmppVerif.Lemmas.Split

namespace SmppVerif.Lemmas.Split
open SmppVerif SmppVerif.Split SmppVerif.Utf16

/-! ### UCS2 path: units are the per-character UTF-16 code units -/

def u16UnitOf (c : Nat) : List Nat :=
  match encUnits .strict c with
  | .ok us => us
  | .error _ => []

/-- a Python `str` element that strict UTF-16 accepts: a code point that is not a surrogate -/
def Scalar (c : Nat) : Prop := c < 0x110000 ∧ isSurrogate c = false

theorem encUnits_scalar (c : Nat) (h : Scalar c) :
    (c < 0x10000 ∧ encUnits .strict c = .ok [c] ∧ isHigh c = false ∧ isLow c = false) ∨
    (0x10000 ≤ c ∧ encUnits .strict c = .ok [0xD800 + (c - 0x10000) / 0x400, 0xDC00 + (c - 0x10000) % 0x400]) := by
  obtain ⟨hlt, hs⟩ := h
  unfold encUnits
  by_cases hb : c < 0x10000
  · left
    simp only [hb, if_true, hs, Bool.false_eq_true, if_false]
    refine ⟨trivial, trivial, ?_, ?_⟩
    · simp [isSurrogate] at hs; simp [isHigh]; omega
    · simp [isSurrogate] at hs; simp [isLow]; omega
  · right
    simp only [hb, if_false]
    exact ⟨by omega, trivial⟩

theorem encodeUnits_cons (m : Mode) (c : Nat) (cs : List Nat) :
    encodeUnits m (c :: cs) =
      (match encUnits m c with
       | .error e => .error e
       | .ok us => match encodeUnits m cs with
                   | .error e => .error e
                   | .ok rest => .ok (us ++ rest)) := rfl

theorem u16_piece (p : List Nat) (h : ∀ c ∈ p, Scalar c) :
    encodeUnits .strict p = .ok ((p.map u16UnitOf).flatten) ∧ UnitsOk isHigh (p.map u16UnitOf) := by
  induction p with
  | nil => exact ⟨rfl, fun u hu => by simp at hu⟩
  | cons c cs ih =>
    obtain ⟨ih1, ih2⟩ := ih (fun x hx => h x (by simp [hx]))
    have hc := h c (by simp)
    rw [encodeUnits_cons, ih1]
    rcases encUnits_scalar c hc with ⟨_, he, hh, _⟩ | ⟨hge, he⟩
    · have hu : u16UnitOf c = [c] := by unfold u16UnitOf; rw [he]
      refine ⟨by rw [he]; simp [hu], ?_⟩
      intro u hu'
      simp only [List.map_cons, List.mem_cons] at hu'
      rcases hu' with rfl | hu'
      · rw [hu]; exact Or.inl ⟨c, rfl, hh⟩
      · exact ih2 u hu'
    · have hu : u16UnitOf c = [0xD800 + (c - 0x10000) / 0x400, 0xDC00 + (c - 0x10000) % 0x400] := by
        unfold u16UnitOf; rw [he]
      refine ⟨by rw [he]; simp [hu], ?_⟩
      intro u hu'
      simp only [List.map_cons, List.mem_cons] at hu'
      rcases hu' with rfl | hu'
      · rw [hu]
        have := hc.1
        refine Or.inr ⟨_, _, rfl, ?_, ?_⟩
        · simp [isHigh]; omega
        · simp [isHigh]; omega
      · exact ih2 u hu'

theorem scalar_of_encodeUnits (t us : List Nat) (h : encodeUnits .strict t = .ok us)
    (hcp : ∀ c ∈ t, c < 0x110000) : ∀ c ∈ t, Scalar c := by
  induction t generalizing us with
  | nil => intro c hc; simp at hc
  | cons c cs ih =>
    rw [encodeUnits_cons] at h
    cases h1 : encUnits .strict c with
    | error e => rw [h1] at h; cases h
    | ok u1 =>
      rw [h1] at h
      cases h2 : encodeUnits .strict cs with
      | error e => rw [h2] at h; cases h
      | ok u2 =>
        intro x hx
        simp at hx
        rcases hx with rfl | hx
        · refine ⟨hcp _ (by simp), ?_⟩
          unfold encUnits at h1
          by_cases hb : x < 0x10000
          · cases hs : isSurrogate x with
            | false => rfl
            | true => simp [hb, hs] at h1
          · simp [isSurrogate]; omega
        · exact ih u2 h2 (fun y hy => hcp y (by simp [hy])) x hx

theorem unitsToBytes_append (a b : List Nat) : unitsToBytes (a ++ b) = unitsToBytes a ++ unitsToBytes b := by
  simp [unitsToBytes]

theorem unitsToBytes_length (a : List Nat) : (unitsToBytes a).length = 2 * a.length := by
  induction a with
  | nil => rfl
  | cons x xs ih => simp [unitsToBytes] at ih ⊢; omega

theorem unitsToBytes_cons (u : Nat) (us : List Nat) :
    unitsToBytes (u :: us) = u / 256 % 256 :: u % 256 :: unitsToBytes us := by
  simp [unitsToBytes]

theorem unitsToBytes_nil : unitsToBytes [] = [] := rfl

set_option maxRecDepth 4000 in
/-- strict UTF-16 round trip on scalar values, with anything following -/
theorem u16_decode_prefix (p : List Nat) (h : ∀ c ∈ p, Scalar c) (rest : List Nat) :
    Utf16.decode .strict (unitsToBytes ((p.map u16UnitOf).flatten) ++ rest)
      = (Utf16.decode .strict rest).map (p ++ ·) := by
  induction p with
  | nil => simp [unitsToBytes]; cases Utf16.decode .strict rest <;> simp [Except.map]
  | cons c cs ih =>
    have hc := h c (by simp)
    have ih' := ih (fun x hx => h x (by simp [hx]))
    simp only [List.map_cons, List.flatten_cons, unitsToBytes_append, List.append_assoc]
    rcases encUnits_scalar c hc with ⟨hlt, he, hh, hl⟩ | ⟨hge, he⟩
    · have hu : u16UnitOf c = [c] := by unfold u16UnitOf; rw [he]
      rw [hu]
      simp only [unitsToBytes_cons, unitsToBytes_nil, List.cons_append, List.nil_append]
      rw [Utf16.decode.eq_def]
      have hcv : c / 256 % 256 * 256 + c % 256 = c := by omega
      simp only [hcv, hh, hl, Bool.false_eq_true, if_false]
      rw [ih']
      cases Utf16.decode .strict rest <;> simp [Except.map]
    · have hu : u16UnitOf c = [0xD800 + (c - 0x10000) / 0x400, 0xDC00 + (c - 0x10000) % 0x400] := by
        unfold u16UnitOf; rw [he]
      rw [hu]
      have hlt := hc.1
      have hq : (c - 0x10000) / 0x400 < 0x400 := by omega
      have hr : (c - 0x10000) % 0x400 < 0x400 := by omega
      have hc' : c = 0x10000 + (c - 0x10000) / 0x400 * 0x400 + (c - 0x10000) % 0x400 := by omega
      generalize (c - 0x10000) / 0x400 = q at hq hc' ⊢
      generalize (c - 0x10000) % 0x400 = r at hr hc' ⊢
      simp only [unitsToBytes_cons, unitsToBytes_nil, List.cons_append, List.nil_append]
      rw [Utf16.decode.eq_def]
      have e1 : (0xD800 + q) / 256 % 256 * 256 + (0xD800 + q) % 256 = 0xD800 + q := by omega
      have e2 : (0xDC00 + r) / 256 % 256 * 256 + (0xDC00 + r) % 256 = 0xDC00 + r := by omega
      have h1 : isHigh (0xD800 + q) = true := by simp [isHigh]; omega
      have h2 : isLow (0xDC00 + r) = true := by simp [isLow]; omega
      simp only [e1, e2, h1, h2, if_true]
      have e3 : 0x10000 + (0xD800 + q - 0xD800) * 0x400 + (0xDC00 + r - 0xDC00) = c := by omega
      rw [e3, ih']
      cases Utf16.decode .strict rest <;> simp [Except.map]

theorem u16_decode_piece (p : List Nat) (h : ∀ c ∈ p, Scalar c) :
    Utf16.decode .strict (unitsToBytes ((p.map u16UnitOf).flatten)) = .ok p := by
  have := u16_decode_prefix p h []
  simp only [List.append_nil] at this
  rw [this, Utf16.decode.eq_def]; simp [Except.map]

/-- UCS2 segmentation: the chunks of the code units of a text are the code units of
    consecutive pieces of the text; each chunk is non-empty, at most `L` units, and its octets
    decode on their own (strictly) to its piece. -/
theorem u16_chunks (L : Nat) (hL : 2 ≤ L) (t us : List Nat)
    (h : encodeUnits .strict t = .ok us) (hcp : ∀ c ∈ t, c < 0x110000) :
    ∃ pieces : List (List Nat), pieces.flatten = t ∧
      chunks isHigh L us = pieces.map (fun p => (p.map u16UnitOf).flatten) ∧
      (∀ p ∈ pieces, p ≠ [] ∧ ((p.map u16UnitOf).flatten).length ≤ L ∧
        Utf16.decode .strict (unitsToBytes ((p.map u16UnitOf).flatten)) = .ok p) := by
  have hsc := scalar_of_encodeUnits t us h hcp
  obtain ⟨hus, hok⟩ := u16_piece t hsc
  rw [h] at hus
  cases hus
  unfold chunks
  obtain ⟨groups, hflat, hrec, hbound⟩ :=
    chunkRec_groups isHigh L hL ((t.map u16UnitOf).flatten.length + 1) (t.map u16UnitOf) hok (by omega)
  obtain ⟨pieces, hp, hg⟩ := groups_of_map u16UnitOf groups t hflat
  refine ⟨pieces, hp, ?_, ?_⟩
  · rw [hrec, hg]; simp [List.map_map]
  · intro p hpm
    have hin : ∀ c ∈ p, Scalar c := by
      intro c hc
      apply hsc
      rw [← hp]; exact List.mem_flatten.mpr ⟨p, hpm, hc⟩
    have hgm : p.map u16UnitOf ∈ groups := by rw [hg]; exact List.mem_map.mpr ⟨p, hpm, rfl⟩
    obtain ⟨hne, hlen⟩ := hbound _ hgm
    exact ⟨by intro e; subst e; simp at hne, hlen, u16_decode_piece p hin⟩

end SmppVerif.Lemmas.Split
