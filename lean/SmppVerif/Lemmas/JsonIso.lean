/- isoformat / fromisoformat and timedelta <-> float lemmas of the JSON model (C12). -/
import SmppVerif.Model.Json

namespace SmppVerif.Lemmas.JsonIso
open SmppVerif SmppVerif.Time SmppVerif.Json

theorem fmtW_length : ∀ (w n : Nat), (fmtW w n).length = w
  | 0, _ => rfl
  | w + 1, n => by simp [fmtW, fmtW_length w]

theorem parseW_snoc (l : List Nat) (c : Nat) :
    parseW (l ++ [c]) = (parseW l).bind fun a => if isDigit c then some (a * 10 + (c - 48)) else none := by
  unfold parseW
  rw [List.foldl_append]
  rfl

theorem isDigit_digit (k : Nat) (h : k < 10) : isDigit (48 + k) = true := by
  unfold isDigit
  simp
  omega

theorem parseW_fmtW : ∀ (w n : Nat), n < 10 ^ w → parseW (fmtW w n) = some n
  | 0, n, h => by
    have : n = 0 := by simpa using h
    subst this; rfl
  | w + 1, n, h => by
    have h1 : n / 10 < 10 ^ w := by
      rw [Nat.div_lt_iff_lt_mul (by decide)]
      rw [Nat.pow_succ] at h
      exact h
    unfold fmtW
    rw [parseW_snoc, parseW_fmtW w (n / 10) h1]
    simp only [Option.bind_some]
    rw [isDigit_digit _ (Nat.mod_lt _ (by decide))]
    simp only [if_true]
    congr 1
    omega

theorem fmtW2 (n : Nat) : fmtW 2 n = [48 + n / 10 % 10, 48 + n % 10] := by
  simp [fmtW]

theorem fmtW4 (n : Nat) : fmtW 4 n = [48 + n / 1000 % 10, 48 + n / 100 % 10, 48 + n / 10 % 10, 48 + n % 10] := by
  simp [fmtW, Nat.div_div_eq_div_mul]

/-- the six-field prefix of isoformat, as the literal 19 characters -/
def head19 (y mo d h mi s : Nat) : List Nat :=
  [48 + y / 1000 % 10, 48 + y / 100 % 10, 48 + y / 10 % 10, 48 + y % 10, 45,
   48 + mo / 10 % 10, 48 + mo % 10, 45, 48 + d / 10 % 10, 48 + d % 10, 84,
   48 + h / 10 % 10, 48 + h % 10, 58, 48 + mi / 10 % 10, 48 + mi % 10, 58,
   48 + s / 10 % 10, 48 + s % 10]

/-- fraction and offset suffix of isoformat -/
def tail (d : DateTime) : List Nat :=
  (if d.micro = 0 then [] else 46 :: fmtW 6 d.micro) ++ offStr d.offset

theorem iso_split (d : DateTime) : iso d = head19 d.year d.month d.day d.hour d.minute d.second ++ tail d := by
  unfold iso tail head19
  rw [fmtW4, fmtW2, fmtW2, fmtW2, fmtW2, fmtW2]
  simp

theorem parse2 (n : Nat) (h : n < 100) : parseW [48 + n / 10 % 10, 48 + n % 10] = some n := by
  rw [← fmtW2]; exact parseW_fmtW 2 n (by simpa using h)

theorem parse4 (n : Nat) (h : n < 10000) :
    parseW [48 + n / 1000 % 10, 48 + n / 100 % 10, 48 + n / 10 % 10, 48 + n % 10] = some n := by
  rw [← fmtW4]; exact parseW_fmtW 4 n (by simpa using h)

/-- offsets `utcoffset()` can return, in whole seconds -/
def offsetWF (o : Option Int) : Prop := ∀ v, o = some v → -86400 < v ∧ v < 86400

theorem parseOffset5 (sg h1 h0 m1 m0 hh mm : Nat) (hsg : sg = 43 ∨ sg = 45)
    (ph : parseW [h1, h0] = some hh) (pm : parseW [m1, m0] = some mm) (hb : hh < 24 ∧ mm < 60) :
    parseOffset [sg, h1, h0, 58, m1, m0] =
      .ok (some (if sg = 45 then -((hh : Int) * 3600 + mm * 60 + (0 : Nat)) else (hh : Int) * 3600 + mm * 60 + (0 : Nat))) := by
  rcases hsg with rfl | rfl <;> simp [parseOffset, ph, pm, hb]

theorem parseOffset8 (sg h1 h0 m1 m0 s1 s0 hh mm ss : Nat) (hsg : sg = 43 ∨ sg = 45)
    (ph : parseW [h1, h0] = some hh) (pm : parseW [m1, m0] = some mm) (ps : parseW [s1, s0] = some ss)
    (hb : hh < 24 ∧ mm < 60 ∧ ss < 60) :
    parseOffset [sg, h1, h0, 58, m1, m0, 58, s1, s0] =
      .ok (some (if sg = 45 then -((hh : Int) * 3600 + mm * 60 + ss) else (hh : Int) * 3600 + mm * 60 + ss)) := by
  rcases hsg with rfl | rfl <;> simp [parseOffset, ph, pm, ps, hb]

theorem parseOffset_iso (o : Int) (h : -86400 < o ∧ o < 86400) : parseOffset (isoOffset o) = .ok (some o) := by
  unfold isoOffset
  dsimp only
  generalize ha : o.natAbs = a
  have hlt : a < 86400 := by omega
  have hh : a / 3600 < 100 := by omega
  have hm : a % 3600 / 60 < 100 := by omega
  have hs : a % 60 < 100 := by omega
  have hsg : (if o < 0 then 45 else 43 : Nat) = 43 ∨ (if o < 0 then 45 else 43 : Nat) = 45 := by
    by_cases hn : o < 0 <;> simp [hn]
  rw [fmtW2, fmtW2]
  by_cases hz : a % 60 = 0
  · rw [if_pos hz]
    simp only [List.cons_append, List.nil_append, List.append_nil]
    rw [parseOffset5 _ _ _ _ _ _ _ hsg (parse2 _ hh) (parse2 _ hm) (by omega)]
    by_cases hn : o < 0
    · simp only [hn, if_true]
      congr 2
      omega
    · simp only [hn, if_false]
      rw [if_neg (by decide)]
      congr 2
      omega
  · rw [if_neg hz, fmtW2]
    simp only [List.cons_append, List.nil_append, List.append_nil]
    rw [parseOffset8 _ _ _ _ _ _ _ _ _ _ hsg (parse2 _ hh) (parse2 _ hm) (parse2 _ hs) (by omega)]
    by_cases hn : o < 0
    · simp only [hn, if_true]
      congr 2
      omega
    · simp only [hn, if_false]
      rw [if_neg (by decide)]
      congr 2
      omega

/-- what `datetime(...)` accepts, with a whole-second utcoffset -/
def IsoWF (d : DateTime) : Prop :=
  validDateTime d.year d.month d.day d.hour d.minute d.second d.micro = true ∧
  ∀ v, d.offset = some v → -86400 < v ∧ v < 86400

theorem parseOffset_tailOff (o : Option Int) (h : ∀ v, o = some v → -86400 < v ∧ v < 86400) :
    parseOffset (offStr o) = .ok o := by
  cases o with
  | none => rfl
  | some v => exact parseOffset_iso v (h v rfl)

theorem isoOffset_head (o : Int) : (isoOffset o).head? ≠ some 46 := by
  unfold isoOffset
  by_cases hn : o < 0 <;> simp [hn]

/-- `datetime.fromisoformat(d.isoformat()) == d`, fields and offset -/
theorem fromIso_iso (d : DateTime) (h : IsoWF d) : fromIso (iso d) = .ok d := by
  obtain ⟨hv, ho⟩ := h
  have hv' := hv
  unfold validDateTime at hv'
  simp only [Bool.and_eq_true, decide_eq_true_eq] at hv'
  have hy : d.year < 10000 := by omega
  have hmo : d.month < 100 := by omega
  have hd : d.day < 100 := by
    have : daysInMonth (d.year : Int) (d.month : Int) ≤ 31 := by
      unfold daysInMonth; split <;> (try split) <;> omega
    omega
  have hh : d.hour < 100 := by omega
  have hmi : d.minute < 100 := by omega
  have hs : d.second < 100 := by omega
  have hus : d.micro < 10 ^ 6 := by
    have : d.micro ≤ 999999 := by omega
    omega
  rw [iso_split]
  unfold fromIso
  have hlen : 19 ≤ (head19 d.year d.month d.day d.hour d.minute d.second ++ tail d).length := by
    simp [head19]
  rw [if_pos ⟨hlen, by simp [head19], by simp [head19], by simp [head19], by simp [head19], by simp [head19]⟩]
  have t4 : (head19 d.year d.month d.day d.hour d.minute d.second ++ tail d).take 4 =
      [48 + d.year / 1000 % 10, 48 + d.year / 100 % 10, 48 + d.year / 10 % 10, 48 + d.year % 10] := by simp [head19]
  have t5 : ((head19 d.year d.month d.day d.hour d.minute d.second ++ tail d).drop 5).take 2 =
      [48 + d.month / 10 % 10, 48 + d.month % 10] := by simp [head19]
  have t8 : ((head19 d.year d.month d.day d.hour d.minute d.second ++ tail d).drop 8).take 2 =
      [48 + d.day / 10 % 10, 48 + d.day % 10] := by simp [head19]
  have t11 : ((head19 d.year d.month d.day d.hour d.minute d.second ++ tail d).drop 11).take 2 =
      [48 + d.hour / 10 % 10, 48 + d.hour % 10] := by simp [head19]
  have t14 : ((head19 d.year d.month d.day d.hour d.minute d.second ++ tail d).drop 14).take 2 =
      [48 + d.minute / 10 % 10, 48 + d.minute % 10] := by simp [head19]
  have t17 : ((head19 d.year d.month d.day d.hour d.minute d.second ++ tail d).drop 17).take 2 =
      [48 + d.second / 10 % 10, 48 + d.second % 10] := by simp [head19]
  have t19 : (head19 d.year d.month d.day d.hour d.minute d.second ++ tail d).drop 19 = tail d := by simp [head19]
  rw [t4, t5, t8, t11, t14, t17, t19, parse4 _ hy, parse2 _ hmo, parse2 _ hd, parse2 _ hh, parse2 _ hmi, parse2 _ hs]
  dsimp only
  by_cases hz : d.micro = 0
  · have htail : tail d = offStr d.offset := by
      unfold tail; rw [if_pos hz]; rfl
    have hhead : (tail d).head? ≠ some 46 := by
      rw [htail]
      cases hoff : d.offset with
      | none => simp [offStr]
      | some o => exact isoOffset_head o
    rw [if_neg hhead]
    dsimp only
    rw [htail, parseOffset_tailOff d.offset ho]
    dsimp only
    rw [← hz] 
    rw [if_pos hv]
  · have htail : tail d = 46 :: (fmtW 6 d.micro ++ offStr d.offset) := by
      unfold tail; rw [if_neg hz]; rfl
    rw [htail]
    have l6 := fmtW_length 6 d.micro
    rw [if_pos (show (46 :: (fmtW 6 d.micro ++ offStr d.offset)).head? = some 46 from rfl),
      if_pos (show 7 ≤ (46 :: (fmtW 6 d.micro ++ offStr d.offset)).length by
        rw [List.length_cons, List.length_append, l6]; omega)]
    have tk : ((46 :: (fmtW 6 d.micro ++ offStr d.offset)).drop 1).take 6 = fmtW 6 d.micro := by
      rw [List.drop_succ_cons, List.drop_zero, List.take_append_of_le_length (by omega)]
      exact List.take_of_length_le (by omega)
    have dr : (46 :: (fmtW 6 d.micro ++ offStr d.offset)).drop 7 =
        offStr d.offset := by
      rw [show (7 : Nat) = 6 + 1 from rfl, List.drop_succ_cons]
      have := List.drop_left (l₁ := fmtW 6 d.micro) (l₂ := offStr d.offset)
      rw [l6] at this
      exact this
    rw [tk, parseW_fmtW 6 d.micro hus]
    dsimp only
    rw [dr, parseOffset_tailOff d.offset ho]
    dsimp only
    rw [if_pos hv]

/-- a timedelta as Python normalises it -/
def TdWF (t : TimeDelta) : Prop := t.seconds < 86400 ∧ t.micros < 1000000

theorem td_round_trip (t : TimeDelta) (h : TdWF t) : tdOfMicros (tdMicros t) = t := by
  obtain ⟨h1, h2⟩ := h
  unfold tdOfMicros tdMicros
  cases t with
  | mk days seconds micros =>
    simp only at h1 h2 ⊢
    congr 1
    · omega
    · omega
    · omega

end SmppVerif.Lemmas.JsonIso
