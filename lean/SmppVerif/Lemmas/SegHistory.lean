/- Helper lemmas for C01 at history level, segmented messages: a message the library split into n segments,
   amid arbitrary other traffic, gets at most one outcome. -/
import SmppVerif.Lemmas.History

namespace SmppVerif.Lemmas.SegHistory
open SmppVerif SmppVerif.Corr SmppVerif.Lemmas.Corr SmppVerif.Lemmas.Expiry SmppVerif.Lemmas.Ledger
open SmppVerif.Lemmas.History

/-! ### association lists, once more -/

section AList
variable {κ ν : Type} [DecidableEq κ]

theorem aset_keys (d : List (κ × ν)) (k : κ) (v : ν) (h : k ∈ d.map (·.1)) :
    (aset d k v).map (·.1) = d.map (·.1) := by
  induction d with
  | nil => cases h
  | cons p rest ih =>
    obtain ⟨k0, v0⟩ := p
    by_cases e : k0 = k
    · simp [aset, e]
    · have : k ∈ rest.map (·.1) := by
        simp only [List.map_cons, List.mem_cons] at h
        rcases h with h | h
        · exact absurd h.symm e
        · exact h
      simp [aset, e, ih this]

theorem aget_mem (d : List (κ × ν)) (k : κ) (v : ν) (h : aget d k = some v) : (k, v) ∈ d := by
  induction d with
  | nil => simp [aget] at h
  | cons p rest ih =>
    obtain ⟨k0, v0⟩ := p
    by_cases e : k0 = k
    · subst e; simp only [aget, if_true, Option.some.injEq] at h; subst h; simp
    · simp only [aget, e, if_false] at h
      exact List.mem_cons_of_mem _ (ih h)

theorem mem_aget (d : List (κ × ν)) (k : κ) (v : ν) (hn : (d.map (·.1)).Nodup) (h : (k, v) ∈ d) :
    aget d k = some v := by
  induction d with
  | nil => cases h
  | cons p rest ih =>
    obtain ⟨k0, v0⟩ := p
    simp only [List.map_cons, List.nodup_cons] at hn
    rcases List.mem_cons.mp h with e | h'
    · cases e; simp [aget]
    · have hne : k0 ≠ k := by
        intro e; subst e
        exact hn.1 (List.mem_map_of_mem (f := (·.1)) h')
      simp only [aget, hne, if_false]
      exact ih hn.2 h'

theorem aget_isSome_of_key (d : List (κ × ν)) (k : κ) (h : k ∈ d.map (·.1)) : ∃ v, aget d k = some v := by
  induction d with
  | nil => cases h
  | cons p rest ih =>
    obtain ⟨k0, v0⟩ := p
    by_cases e : k0 = k
    · exact ⟨v0, by simp [aget, e]⟩
    · simp only [List.map_cons, List.mem_cons] at h
      rcases h with h | h
      · exact absurd h.symm e
      · obtain ⟨v, hv⟩ := ih h
        exact ⟨v, by simp [aget, e, hv]⟩

end AList

theorem foldl_max_mem (l : List (Nat × Int)) (c : Int) :
    l.foldl (fun m p => if p.2 > m then p.2 else m) c = c ∨
      ∃ p ∈ l, p.2 = l.foldl (fun m p => if p.2 > m then p.2 else m) c := by
  induction l generalizing c with
  | nil => exact Or.inl rfl
  | cons q qs ih =>
    simp only [List.foldl_cons]
    split
    · rcases ih q.2 with h | ⟨p, hp, he⟩
      · exact Or.inr ⟨q, by simp, h.symm⟩
      · exact Or.inr ⟨p, by simp [hp], he⟩
    · rcases ih c with h | ⟨p, hp, he⟩
      · exact Or.inl h
      · exact Or.inr ⟨p, by simp [hp], he⟩

/-- the cumulated code is one of the segment codes -/
theorem maxCode_mem (l : List (Nat × Int)) (hne : l ≠ []) : ∃ p ∈ l, p.2 = maxCode l := by
  cases l with
  | nil => exact absurd rfl hne
  | cons q qs =>
    unfold maxCode
    rcases foldl_max_mem qs q.2 with h | ⟨p, hp, he⟩
    · exact ⟨q, by simp, h.symm⟩
    · exact ⟨p, by simp [hp], he⟩

/-! ### the message under observation -/

structure SegMsg where
  L : Nat
  r : Nat
  n : Nat
  /-- segment `i` (1-based) as it is stored -/
  x : Nat → Msg

structure SegMsg.WF (M : SegMsg) : Prop where
  npos : 0 < M.n
  kind : ∀ i, (M.x i).kind = .submitSm
  log : ∀ i, (M.x i).logId = M.L
  ref : ∀ i, (M.x i).sarRef = M.r
  sq : ∀ i, (M.x i).sarSeq = i
  tot : ∀ i, (M.x i).sarTotal = M.n
  inj : ∀ i j, (M.x i).seq = (M.x j).seq → i = j

/-- `k` is the sequence number of one of the segments -/
def SegMsg.IsSeq (M : SegMsg) (k : Nat) : Prop := ∃ i, 1 ≤ i ∧ i ≤ M.n ∧ (M.x i).seq = k

theorem SegMsg.WF.sub {M : SegMsg} (w : M.WF) (i : Nat) : (M.x i).isSubmitLike = true := by
  simp [Msg.isSubmitLike, w.kind i]

/-- nothing outside the message's own entries carries its log id or points to its reference -/
structure QuietM (M : SegMsg) (s : CState) : Prop where
  store : ∀ k v, ¬ M.IsSeq k → aget s.store k = some v → v.2.logId ≠ M.L ∧ v.2.seq = k
  seg : ∀ k p, ¬ M.IsSeq k → aget s.segStore k = some p → p.1 ≠ M.r
  stat : ∀ r' st, r' ≠ M.r → aget s.segStatus r' = some st →
    st.orig.logId ≠ M.L ∧ ∀ y, st.lastResponse = some y → y.logId ≠ M.L

/-- the message's own entries are the same in both states -/
structure SameM (M : SegMsg) (s s' : CState) : Prop where
  store : ∀ k, M.IsSeq k → aget s'.store k = aget s.store k
  seg : ∀ k, M.IsSeq k → aget s'.segStore k = aget s.segStore k
  stat : aget s'.segStatus M.r = aget s.segStatus M.r
  ttl : s'.ttlResp = s.ttlResp

theorem SameM.refl (M : SegMsg) (s : CState) : SameM M s s := ⟨fun _ _ => rfl, fun _ _ => rfl, rfl, rfl⟩

theorem SameM.trans {M : SegMsg} {a b c : CState} (h1 : SameM M a b) (h2 : SameM M b c) : SameM M a c :=
  ⟨fun k hk => (h2.store k hk).trans (h1.store k hk), fun k hk => (h2.seg k hk).trans (h1.seg k hk),
   h2.stat.trans h1.stat, h2.ttl.trans h1.ttl⟩

theorem nonL (M : SegMsg) (outs : List Out) (h : ∀ y, Out.sendError y ∈ outs → y.logId ≠ M.L) :
    countL M.L outs = 0 := countL_zero M.L outs h

/-! ### frame: operations on other messages -/

theorem cumulated_frame (M : SegMsg) (s : CState) (ref : Nat) (hr : ref ≠ M.r) (h : QuietM M s) :
    QuietM M (cumulated s ref).1 ∧ SameM M s (cumulated s ref).1 := by
  have hs := cumulated_store s ref
  have hg := cumulated_segStore s ref
  have hstat : ∀ r' st, aget (cumulated s ref).1.segStatus r' = some st → aget s.segStatus r' = some st := by
    intro r' st hst
    unfold cumulated at hst
    cases h0 : aget s.segStatus ref with
    | none => rw [h0] at hst; exact hst
    | some st0 =>
      rw [h0] at hst
      dsimp only at hst
      split at hst
      · exact hst
      · split at hst
        · exact aget_adel_some _ _ _ _ hst
        · exact hst
  have hr' : aget (cumulated s ref).1.segStatus M.r = aget s.segStatus M.r := by
    unfold cumulated
    cases h0 : aget s.segStatus ref with
    | none => rfl
    | some st0 =>
      dsimp only
      split
      · rfl
      · split
        · exact aget_adel_other _ _ _ (fun e => hr e.symm)
        · rfl
  refine ⟨⟨fun k v hk hv => h.store k v hk (by rw [← hs.1]; exact hv),
           fun k p hk hp => h.seg k p hk (by rw [← hg]; exact hp),
           fun r' st hr'' hst => h.stat r' st hr'' (hstat r' st hst)⟩,
          ⟨fun k _ => by rw [hs.1], fun k _ => by rw [hg], hr', hs.2⟩⟩

/-- expiry of a request of another message -/
theorem expired_frame (M : SegMsg) (s : CState) (m0 : Msg) (h : QuietM M s) (hm : m0.logId ≠ M.L)
    (hk : ¬ M.IsSeq m0.seq) :
    QuietM M (expired s m0).1 ∧ SameM M s (expired s m0).1 ∧
      (∀ y, Out.sendError y ∈ (expired s m0).2 → y.logId ≠ M.L) := by
  unfold expired
  by_cases hsub : m0.isSubmitLike = true
  · simp only [hsub, if_true]
    cases h1 : aget s.segStore m0.seq with
    | none =>
      refine ⟨h, SameM.refl M s, ?_⟩
      intro y hy
      simp only [List.mem_singleton, Out.sendError.injEq] at hy
      subst hy; exact hm
    | some pr =>
      obtain ⟨ref, sseq⟩ := pr
      dsimp only
      have href : ref ≠ M.r := h.seg m0.seq (ref, sseq) hk h1
      let s1 : CState := { s with segStore := adel s.segStore m0.seq }
      have hq1 : QuietM M s1 :=
        ⟨h.store, fun k p hk' hp => h.seg k p hk' (aget_adel_some _ _ _ _ hp), h.stat⟩
      have hs1 : SameM M s s1 :=
        ⟨fun _ _ => rfl, fun k hk' => aget_adel_other _ _ _ (fun e => hk (e ▸ hk')), rfl, rfl⟩
      cases h2 : aget s.segStatus ref with
      | none =>
        refine ⟨hq1, hs1, ?_⟩
        intro y hy; simp at hy
      | some st =>
        dsimp only
        have hst := h.stat ref st href h2
        let st1 : SegStatus := { st with status := aset st.status sseq sExpired }
        let s2 : CState := { s with segStore := adel s.segStore m0.seq, segStatus := aset s.segStatus ref st1 }
        have hq2 : QuietM M s2 := by
          refine ⟨h.store, hq1.seg, ?_⟩
          intro r' st' hr' hst0
          have hst' : aget (aset s.segStatus ref st1) r' = some st' := hst0
          by_cases e : r' = ref
          · subst e
            rw [aget_aset_same] at hst'
            cases hst'
            exact hst
          · rw [aget_aset_other _ _ _ _ e] at hst'
            exact h.stat r' st' hr' hst'
        have hs2 : SameM M s s2 :=
          ⟨fun _ _ => rfl, hs1.seg, aget_aset_other _ _ _ _ (fun e => href e.symm), rfl⟩
        obtain ⟨hc, hcs⟩ := cumulated_frame M s2 ref href hq2
        split
        · refine ⟨hc, hs2.trans hcs, ?_⟩
          intro y hy
          simp only [List.mem_singleton, Out.sendError.injEq] at hy
          subst hy; exact hst.1
        · refine ⟨hc, hs2.trans hcs, ?_⟩
          intro y hy; simp at hy
  · simp only [hsub]
    refine ⟨h, SameM.refl M s, ?_⟩
    intro y hy; simp at hy

theorem updateSeg_frame (M : SegMsg) (s0 : CState) (tr o : Msg) (h : QuietM M s0) (htr : tr.logId ≠ M.L)
    (hk : ¬ M.IsSeq tr.seq) :
    QuietM M (updateSegOnResponse s0 tr o) ∧ SameM M s0 (updateSegOnResponse s0 tr o) := by
  have h1 := updateSeg_store s0 tr o
  have h2 := updateSeg_segStore s0 tr o
  unfold updateSegOnResponse
  split
  · split
    · rename_i ref sseq hseg
      have href : ref ≠ M.r := h.seg tr.seq (ref, sseq) hk hseg
      split
      · rename_i st hst
        refine ⟨⟨h.store, h.seg, ?_⟩, ⟨fun _ _ => rfl, fun _ _ => rfl,
          aget_aset_other _ _ _ _ (fun e => href e.symm), rfl⟩⟩
        intro r' st' hr' hst'
        dsimp only at hst'
        by_cases e : r' = ref
        · subst e
          rw [aget_aset_same] at hst'
          cases hst'
          exact respStatus_quiet M.L st sseq tr htr (h.stat _ st hr' hst)
        · rw [aget_aset_other _ _ _ _ e] at hst'
          exact h.stat r' st' hr' hst'
      · exact ⟨h, SameM.refl M s0⟩
    · exact ⟨h, SameM.refl M s0⟩
  · exact ⟨h, SameM.refl M s0⟩

theorem fixLast_frame (M : SegMsg) (s : CState) (a b : Msg) (h : QuietM M s) (hb : b.logId ≠ M.L)
    (hk : ¬ M.IsSeq a.seq) :
    QuietM M (fixLast s a b) ∧ SameM M s (fixLast s a b) := by
  unfold fixLast
  split
  · rename_i ref sq hseg
    have href : ref ≠ M.r := h.seg a.seq (ref, sq) hk hseg
    split
    · rename_i st hst
      split
      · refine ⟨⟨h.store, h.seg, ?_⟩, ⟨fun _ _ => rfl, fun _ _ => rfl,
          aget_aset_other _ _ _ _ (fun e => href e.symm), rfl⟩⟩
        intro r' st' hr' hst'
        dsimp only at hst'
        by_cases e : r' = ref
        · subst e
          rw [aget_aset_same] at hst'
          cases hst'
          exact ⟨(h.stat _ st hr' hst).1, fun y hy => by cases hy; exact hb⟩
        · rw [aget_aset_other _ _ _ _ e] at hst'
          exact h.stat r' st' hr' hst'
      · exact ⟨h, SameM.refl M s⟩
    · exact ⟨h, SameM.refl M s⟩
  · exact ⟨h, SameM.refl M s⟩

theorem getSegmented_frame (M : SegMsg) (s : CState) (x : Nat) (h : QuietM M s) (hk : ¬ M.IsSeq x) :
    QuietM M (getSegmented s x false).1 ∧ SameM M s (getSegmented s x false).1 ∧
      (∀ st, (getSegmented s x false).2.1 = some st →
        st.orig.logId ≠ M.L ∧ ∀ y, st.lastResponse = some y → y.logId ≠ M.L) := by
  unfold getSegmented
  cases h1 : aget s.segStore x with
  | none => exact ⟨h, SameM.refl M s, fun st hst => by cases hst⟩
  | some pr =>
    obtain ⟨ref, sq⟩ := pr
    have href : ref ≠ M.r := h.seg x (ref, sq) hk h1
    dsimp only
    simp only [Bool.false_eq_true, if_false]
    cases h2 : aget s.segStatus ref with
    | none => exact ⟨h, SameM.refl M s, fun st hst => by cases hst⟩
    | some st0 =>
      dsimp only
      obtain ⟨a, b⟩ := cumulated_frame M s ref href h
      refine ⟨a, b, ?_⟩
      intro st hst
      cases hst
      exact h.stat ref st0 href h2

/-! ### phases -/

theorem mem_aset {κ ν : Type} [DecidableEq κ] (d : List (κ × ν)) (k : κ) (v : ν) (p : κ × ν)
    (h : p ∈ aset d k v) : p = (k, v) ∨ p ∈ d := by
  induction d with
  | nil => simp only [aset, List.mem_singleton] at h; exact Or.inl h
  | cons q rest ih =>
    obtain ⟨k0, v0⟩ := q
    by_cases e : k0 = k
    · simp only [aset, e, if_true, List.mem_cons] at h
      rcases h with h | h
      · exact Or.inl h
      · exact Or.inr (List.mem_cons_of_mem _ h)
    · simp only [aset, e, if_false, List.mem_cons] at h
      rcases h with h | h
      · exact Or.inr (by simp [h])
      · rcases ih h with h' | h'
        · exact Or.inl h'
        · exact Or.inr (List.mem_cons_of_mem _ h')

def IsCode (c : Int) : Prop := c = sSending ∨ c = sSent ∨ c = sFailed ∨ c = sExpired

theorem IsCode.le {c : Int} (h : IsCode c) : c ≤ sSending := by
  have := codes_order
  rcases h with h | h | h | h <;> omega

/-- the status entry of the message while no outcome has been reported; `k` segments stored so far -/
structure StatOK (G : Prop) (M : SegMsg) (k : Nat) (s : CState) (st : SegStatus) : Prop where
  /-- the entry carries the message's identity: `orig` always, the kept response as long as every response
      carrying one of the message's numbers had a proper type (`G`) -/
  orig : st.orig.logId = M.L
  last : G → ∀ y, st.lastResponse = some y → y.logId = M.L
  keys : st.status.map (·.1) = List.range' 1 M.n
  codes : ∀ p ∈ st.status, IsCode p.2
  sending : ∀ i, 1 ≤ i → i ≤ M.n →
    (aget st.status i = some sSending ↔ (k < i ∨ aget s.store (M.x i).seq ≠ none))

/-- the message's segment registrations, whenever present, are its own -/
def SegM (M : SegMsg) (s : CState) : Prop :=
  ∀ i p, 1 ≤ i → i ≤ M.n → aget s.segStore (M.x i).seq = some p → p = (M.r, i)

/-- open: `k` segments stored, no outcome reported yet -/
structure A (G : Prop) (M : SegMsg) (k : Nat) (s : CState) : Prop where
  quiet : QuietM M s
  segM : SegM M s
  ent : ∃ st, aget s.segStatus M.r = some st ∧ StatOK G M k s st
  live : ∀ i, 1 ≤ i → i ≤ k → ∀ v, aget s.store (M.x i).seq = some v →
    v.2 = M.x i ∧ aget s.segStore (M.x i).seq = some (M.r, i)
  unput : ∀ i, k < i → i ≤ M.n → aget s.store (M.x i).seq = none
  kle : k ≤ M.n

/-- something is still to be answered: a segment not stored yet, or one in the store -/
def Pend (M : SegMsg) (k : Nat) (s : CState) : Prop :=
  ∃ i, 1 ≤ i ∧ i ≤ M.n ∧ (k < i ∨ aget s.store (M.x i).seq ≠ none)

/-- closed (or not begun): no segment of the message is in the request store -/
structure D (M : SegMsg) (s : CState) : Prop where
  quiet : QuietM M s
  segM : SegM M s
  gone : ∀ k, M.IsSeq k → aget s.store k = none

variable {G : Prop}

theorem StatOK.ne {M : SegMsg} (w : M.WF) {k : Nat} {s : CState} {st : SegStatus} (h : StatOK G M k s st) :
    st.status ≠ [] := by
  intro e
  have := h.keys
  rw [e] at this
  have hn := w.npos
  simp at this
  omega

theorem StatOK.nodup {M : SegMsg} {k : Nat} {s : CState} {st : SegStatus} (h : StatOK G M k s st) :
    (st.status.map (·.1)).Nodup := by rw [h.keys]; exact List.nodup_range' 1

theorem StatOK.key {M : SegMsg} {k : Nat} {s : CState} {st : SegStatus} (h : StatOK G M k s st) (i : Nat) :
    i ∈ st.status.map (·.1) ↔ 1 ≤ i ∧ i ≤ M.n := by
  rw [h.keys, List.mem_range'_1]; omega

/-- still sending exactly while something is pending -/
theorem StatOK.max_sending {M : SegMsg} (w : M.WF) {k : Nat} {s : CState} {st : SegStatus} (h : StatOK G M k s st) :
    maxCode st.status = sSending ↔ Pend M k s := by
  rw [maxCode_sending_iff st.status (h.ne w) (fun p hp => (h.codes p hp).le)]
  constructor
  · rintro ⟨p, hp, he⟩
    obtain ⟨i, c⟩ := p
    have hk : 1 ≤ i ∧ i ≤ M.n := (h.key i).mp (List.mem_map_of_mem (f := (·.1)) hp)
    have hg : aget st.status i = some sSending := by
      have := mem_aget st.status i c h.nodup hp
      rw [this]; exact congrArg some he
    exact ⟨i, hk.1, hk.2, (h.sending i hk.1 hk.2).mp hg⟩
  · rintro ⟨i, h1, h2, hp⟩
    have hg := (h.sending i h1 h2).mpr hp
    exact ⟨(i, sSending), aget_mem _ _ _ hg, rfl⟩

theorem cumulated_eq (s : CState) (ref : Nat) (st : SegStatus) (h : aget s.segStatus ref = some st)
    (hne : st.status ≠ []) :
    cumulated s ref =
      if maxCode st.status ≠ sSending ∧ maxCode st.status ≠ sSent
      then ({ s with segStatus := adel s.segStatus ref }, maxCode st.status)
      else (s, maxCode st.status) := by
  unfold cumulated
  rw [h]
  have : st.status.isEmpty = false := by
    cases hh : st.status with
    | nil => exact absurd hh hne
    | cons _ _ => rfl
  simp only [this, Bool.false_eq_true, if_false]

theorem A.toD_of_not_pend {M : SegMsg} {k : Nat} {s : CState} (a : A G M k s) (hp : ¬ Pend M k s) :
    ∀ k', M.IsSeq k' → aget s.store k' = none := by
  rintro k' ⟨i, h1, h2, rfl⟩
  cases hq : aget s.store (M.x i).seq with
  | none => rfl
  | some v => exact absurd ⟨i, h1, h2, Or.inr (by rw [hq]; simp)⟩ hp

/-- a sub-step keeps what is registered for those segments of the message that are not in the request store -/
def KeepSeg (M : SegMsg) (s s' : CState) : Prop :=
  ∀ i, 1 ≤ i → i ≤ M.n → aget s.store (M.x i).seq = none →
    aget s'.store (M.x i).seq = none ∧ aget s'.segStore (M.x i).seq = aget s.segStore (M.x i).seq

theorem KeepSeg.refl (M : SegMsg) (s : CState) : KeepSeg M s s := fun _ _ _ h => ⟨h, rfl⟩

theorem KeepSeg.trans {M : SegMsg} {a b c : CState} (h1 : KeepSeg M a b) (h2 : KeepSeg M b c) : KeepSeg M a c := by
  intro i hi1 hi2 h
  obtain ⟨x, y⟩ := h1 i hi1 hi2 h
  obtain ⟨x', y'⟩ := h2 i hi1 hi2 x
  exact ⟨x', y'.trans y⟩

theorem SameM.keep {M : SegMsg} {s s' : CState} (h : SameM M s s') : KeepSeg M s s' := by
  intro i hi1 hi2 hn
  have hi : M.IsSeq (M.x i).seq := ⟨i, hi1, hi2, rfl⟩
  exact ⟨by rw [h.store _ hi]; exact hn, h.seg _ hi⟩

/-- the number of outcomes reported when the message is closed: at most one, and exactly one when every response
    carrying one of its numbers had a proper type -/
def Cl (G : Prop) (n : Nat) : Prop := n ≤ 1 ∧ (G → n = 1)

theorem Cl.one (G : Prop) : Cl G 1 := ⟨Nat.le_refl 1, fun _ => rfl⟩

/-! ### expiry of one of the message's own segments -/

theorem expireM (M : SegMsg) (w : M.WF) (k : Nat) (s : CState) (j t : Nat) (a : A G M k s)
    (h1 : 1 ≤ j) (h2 : j ≤ k) (hst : aget s.store (M.x j).seq = some (t, M.x j)) :
    ((A G M k (expired { s with store := adel s.store (M.x j).seq } (M.x j)).1 ∧
        (expired { s with store := adel s.store (M.x j).seq } (M.x j)).2 = [] ∧
        Pend M k (expired { s with store := adel s.store (M.x j).seq } (M.x j)).1) ∨
      (D M (expired { s with store := adel s.store (M.x j).seq } (M.x j)).1 ∧
        countL M.L (expired { s with store := adel s.store (M.x j).seq } (M.x j)).2 = 1 ∧
        aget (expired { s with store := adel s.store (M.x j).seq } (M.x j)).1.segStatus M.r = none ∧ M.n ≤ k)) ∧
    (expired { s with store := adel s.store (M.x j).seq } (M.x j)).1.ttlResp = s.ttlResp ∧
    KeepSeg M s (expired { s with store := adel s.store (M.x j).seq } (M.x j)).1 := by
  obtain ⟨st, hst0, hok⟩ := a.ent
  have hjn : j ≤ M.n := Nat.le_trans h2 a.kle
  have hseg : aget s.segStore (M.x j).seq = some (M.r, j) := (a.live j h1 h2 _ hst).2
  let st1 : SegStatus := { st with status := aset st.status j sExpired }
  let s2 : CState := { s with store := adel s.store (M.x j).seq, segStore := adel s.segStore (M.x j).seq,
                              segStatus := aset s.segStatus M.r st1 }
  have hjkey : j ∈ st.status.map (·.1) := (hok.key j).mpr ⟨h1, hjn⟩
  have hne1 : st1.status ≠ [] := by
    intro e
    have : (aset st.status j sExpired).map (·.1) = st.status.map (·.1) := aset_keys _ _ _ hjkey
    have e' : aset st.status j sExpired = [] := e
    rw [e'] at this
    exact hok.ne w (List.map_eq_nil_iff.mp this.symm)
  have hexp : expired { s with store := adel s.store (M.x j).seq } (M.x j) =
      (if (cumulated s2 M.r).2 = sExpired ∨ (cumulated s2 M.r).2 = sFailed
       then ((cumulated s2 M.r).1, [Out.sendError st1.orig]) else ((cumulated s2 M.r).1, [])) := by
    unfold expired
    rw [if_pos (w.sub j)]
    have : aget ({ s with store := adel s.store (M.x j).seq } : CState).segStore (M.x j).seq = some (M.r, j) := hseg
    rw [this]
    dsimp only
    rw [hst0]
  rw [hexp]
  -- facts about the updated entry
  have hother : ∀ i, i ≠ j → aget st1.status i = aget st.status i := fun i hi => aget_aset_other _ _ _ _ hi
  have hselfj : aget st1.status j = some sExpired := aget_aset_same _ _ _
  have hstore_other : ∀ i, i ≠ j → aget (adel s.store (M.x j).seq) (M.x i).seq = aget s.store (M.x i).seq :=
    fun i hi => aget_adel_other _ _ _ (fun e => hi (w.inj i j e))
  have hquiet2 : QuietM M s2 := by
    refine ⟨?_, ?_, ?_⟩
    · intro k' v hk' hv
      exact a.quiet.store k' v hk' (aget_adel_some _ _ _ _ hv)
    · intro k' p' hk' hp
      exact a.quiet.seg k' p' hk' (aget_adel_some _ _ _ _ hp)
    · intro r' st' hr' hst'
      have : aget (aset s.segStatus M.r st1) r' = some st' := hst'
      rw [aget_aset_other _ _ _ _ hr'] at this
      exact a.quiet.stat r' st' hr' this
  have hsegM2 : SegM M s2 := by
    intro i p' hi1 hi2 hp
    exact a.segM i p' hi1 hi2 (aget_adel_some _ _ _ _ hp)
  have hok1 : StatOK G M k s2 st1 := by
    refine ⟨hok.orig, hok.last, ?_, ?_, ?_⟩
    · show (aset st.status j sExpired).map (·.1) = _
      rw [aset_keys _ _ _ hjkey]; exact hok.keys
    · intro p' hp
      rcases mem_aset _ _ _ _ hp with e | hp'
      · rw [e]; exact Or.inr (Or.inr (Or.inr rfl))
      · exact hok.codes p' hp'
    · intro i hi1 hi2
      by_cases e : i = j
      · subst e
        rw [hselfj]
        have hne : sExpired ≠ sSending := by decide
        constructor
        · intro h; exact absurd (Option.some.inj h) hne
        · rintro (h | h)
          · omega
          · exact absurd (aget_adel_same _ _) h
      · rw [hother i e]
        show _ ↔ (k < i ∨ aget (adel s.store (M.x j).seq) (M.x i).seq ≠ none)
        rw [hstore_other i e]
        exact hok.sending i hi1 hi2
  have hkeep2 : ∀ i, 1 ≤ i → i ≤ M.n → aget s.store (M.x i).seq = none →
      aget (adel s.store (M.x j).seq) (M.x i).seq = none ∧
        aget (adel s.segStore (M.x j).seq) (M.x i).seq = aget s.segStore (M.x i).seq := by
    intro i _ _ hn
    have hij : i ≠ j := by
      intro e; subst e
      rw [hn] at hst; cases hst
    exact ⟨by rw [hstore_other i hij]; exact hn, aget_adel_other _ _ _ (fun e => hij (w.inj i j e))⟩
  have horig : st1.orig.logId = M.L := hok.orig
  have hcum := cumulated_eq s2 M.r st1 (aget_aset_same _ _ _) hne1
  have hmax := hok1.max_sending w
  by_cases hp : Pend M k s2
  · -- still pending: nothing is reported
    have hm : maxCode st1.status = sSending := hmax.mpr hp
    have hc : cumulated s2 M.r = (s2, sSending) := by
      rw [hcum, hm]; simp
    rw [hc]
    have h1' : ¬ (sSending = sExpired ∨ sSending = sFailed) := by decide
    rw [if_neg h1']
    refine ⟨Or.inl ⟨⟨hquiet2, hsegM2, ⟨st1, aget_aset_same _ _ _, hok1⟩, ?_, ?_, a.kle⟩, rfl, hp⟩, rfl,
      fun i a b c => hkeep2 i a b c⟩
    · intro i hi1 hi2 v hv
      have hij : i ≠ j := by
        intro e; subst e
        have : aget (adel s.store (M.x i).seq) (M.x i).seq = some v := hv
        rw [aget_adel_same] at this; cases this
      have hv' : aget s.store (M.x i).seq = some v := by
        have : aget (adel s.store (M.x j).seq) (M.x i).seq = some v := hv
        rwa [hstore_other i hij] at this
      obtain ⟨e1, e2⟩ := a.live i hi1 hi2 v hv'
      refine ⟨e1, ?_⟩
      show aget (adel s.segStore (M.x j).seq) (M.x i).seq = _
      rw [aget_adel_other _ _ _ (fun e => hij (w.inj i j e))]; exact e2
    · intro i hi1 hi2
      show aget (adel s.store (M.x j).seq) (M.x i).seq = none
      rw [hstore_other i (by omega)]
      exact a.unput i hi1 hi2
  · -- nothing pending any more: the message is reported and its entry removed
    have hm : maxCode st1.status ≠ sSending := fun e => hp (hmax.mp e)
    obtain ⟨pm, hpm, hpe⟩ := maxCode_mem st1.status hne1
    have hcode : IsCode (maxCode st1.status) := hpe ▸ hok1.codes pm hpm
    have hge : sExpired ≤ maxCode st1.status := maxCode_ge st1.status (j, sExpired) (aget_mem _ _ _ hselfj)
    have hfin : maxCode st1.status = sExpired ∨ maxCode st1.status = sFailed := by
      have := codes_order
      rcases hcode with h | h | h | h
      · exact absurd h hm
      · omega
      · exact Or.inr h
      · exact Or.inl h
    have hns : maxCode st1.status ≠ sSent := by
      have := codes_order
      rcases hfin with h | h <;> omega
    have hc : cumulated s2 M.r = ({ s2 with segStatus := adel s2.segStatus M.r }, maxCode st1.status) := by
      rw [hcum, if_pos ⟨hm, hns⟩]
    rw [hc]
    rw [if_pos hfin]
    have hnk : M.n ≤ k := by
      by_contra hc
      exact hp ⟨M.n, w.npos, Nat.le_refl _, Or.inl (by omega)⟩
    refine ⟨Or.inr ⟨⟨?_, hsegM2, ?_⟩, ?_, aget_adel_same _ _, hnk⟩, rfl, fun i a b c => hkeep2 i a b c⟩
    · refine ⟨hquiet2.store, hquiet2.seg, ?_⟩
      intro r' st' hr' hst'
      exact hquiet2.stat r' st' hr' (aget_adel_some _ _ _ _ hst')
    · have a2 : A G M k s2 := ⟨hquiet2, hsegM2, ⟨st1, aget_aset_same _ _ _, hok1⟩,
        (by
          intro i hi1 hi2 v hv
          have hij : i ≠ j := by
            intro e; subst e
            have : aget (adel s.store (M.x i).seq) (M.x i).seq = some v := hv
            rw [aget_adel_same] at this; cases this
          have hv' : aget s.store (M.x i).seq = some v := by
            have : aget (adel s.store (M.x j).seq) (M.x i).seq = some v := hv
            rwa [hstore_other i hij] at this
          obtain ⟨e1, e2⟩ := a.live i hi1 hi2 v hv'
          refine ⟨e1, ?_⟩
          show aget (adel s.segStore (M.x j).seq) (M.x i).seq = _
          rw [aget_adel_other _ _ _ (fun e => hij (w.inj i j e))]; exact e2),
        (by
          intro i hi1 hi2
          show aget (adel s.store (M.x j).seq) (M.x i).seq = none
          rw [hstore_other i (by omega)]
          exact a.unput i hi1 hi2), a.kle⟩
      exact a2.toD_of_not_pend hp
    · simp [countL, isL, horig]

/-! ### transfer along frames -/

theorem QuietM.congr {M : SegMsg} {s s' : CState} (h : QuietM M s) (h1 : s'.store = s.store)
    (h2 : s'.segStore = s.segStore) (h3 : s'.segStatus = s.segStatus) : QuietM M s' :=
  ⟨by rw [h1]; exact h.store, by rw [h2]; exact h.seg, by rw [h3]; exact h.stat⟩

theorem SameM.of_eq {M : SegMsg} {s s' : CState} (h1 : s'.store = s.store) (h2 : s'.segStore = s.segStore)
    (h3 : s'.segStatus = s.segStatus) (h4 : s'.ttlResp = s.ttlResp) : SameM M s s' :=
  ⟨fun _ _ => by rw [h1], fun _ _ => by rw [h2], by rw [h3], h4⟩

theorem D.of_same {M : SegMsg} {s s' : CState} (d : D M s) (hq : QuietM M s') (hs : SameM M s s') : D M s' := by
  refine ⟨hq, ?_, ?_⟩
  · intro i p h1 h2 hp
    rw [hs.seg _ ⟨i, h1, h2, rfl⟩] at hp
    exact d.segM i p h1 h2 hp
  · intro k hk
    rw [hs.store k hk]; exact d.gone k hk

theorem A.of_same {M : SegMsg} {k : Nat} {s s' : CState} (a : A G M k s) (hq : QuietM M s') (hs : SameM M s s') :
    A G M k s' := by
  obtain ⟨st, hst, hok⟩ := a.ent
  refine ⟨hq, ?_, ⟨st, by rw [hs.stat]; exact hst, ⟨hok.orig, hok.last, hok.keys, hok.codes, ?_⟩⟩, ?_, ?_, a.kle⟩
  · intro i p h1 h2 hp
    rw [hs.seg _ ⟨i, h1, h2, rfl⟩] at hp
    exact a.segM i p h1 h2 hp
  · intro i h1 h2
    rw [hs.store _ ⟨i, h1, h2, rfl⟩]
    exact hok.sending i h1 h2
  · intro i h1 h2 v hv
    have hi : M.IsSeq (M.x i).seq := ⟨i, h1, Nat.le_trans h2 a.kle, rfl⟩
    rw [hs.store _ hi] at hv
    rw [hs.seg _ hi]
    exact a.live i h1 h2 v hv
  · intro i h1 h2
    have hi : M.IsSeq (M.x i).seq := ⟨i, by omega, h2, rfl⟩
    rw [hs.store _ hi]
    exact a.unput i h1 h2

theorem Pend.of_same {M : SegMsg} {k : Nat} {s s' : CState} (hs : SameM M s s') (h : Pend M k s) : Pend M k s' := by
  obtain ⟨i, h1, h2, hp⟩ := h
  refine ⟨i, h1, h2, ?_⟩
  rw [hs.store _ ⟨i, h1, h2, rfl⟩]; exact hp

/-- dropping a request of another message from the store -/
theorem drop_other (M : SegMsg) (s : CState) (k0 : Nat) (h : QuietM M s) (hk : ¬ M.IsSeq k0) :
    QuietM M { s with store := adel s.store k0 } ∧ SameM M s { s with store := adel s.store k0 } := by
  refine ⟨⟨?_, h.seg, h.stat⟩, ⟨?_, fun _ _ => rfl, rfl, rfl⟩⟩
  · intro k v hk' hv
    exact h.store k v hk' (aget_adel_some _ _ _ _ hv)
  · intro k hk'
    exact aget_adel_other _ _ _ (fun e => hk (e ▸ hk'))

/-! ### the sweep -/

theorem sweepD (M : SegMsg) (now : Nat) : ∀ (ks : List Nat) (s : CState), D M s →
    D M (sweepStore now ks s).1 ∧ SameM M s (sweepStore now ks s).1 ∧ countL M.L (sweepStore now ks s).2 = 0
  | [], s, d => ⟨d, SameM.refl M s, by simp [sweepStore, countL]⟩
  | k0 :: ks, s, d => by
    rw [sweepStore_cons]
    cases h1 : aget s.store k0 with
    | none => exact sweepD M now ks s d
    | some pr =>
      obtain ⟨at0, m0⟩ := pr
      dsimp only
      by_cases h2 : now - at0 > s.ttlResp
      · rw [if_pos h2]; dsimp only
        have hk : ¬ M.IsSeq k0 := by
          intro hk
          have := d.gone k0 hk
          rw [this] at h1; cases h1
        obtain ⟨hl, hsq⟩ := d.quiet.store k0 (at0, m0) hk h1
        obtain ⟨q1, s1⟩ := drop_other M s k0 d.quiet hk
        obtain ⟨q2, s2, o2⟩ := expired_frame M _ m0 q1 hl (by rw [hsq]; exact hk)
        have d2 : D M (expired { s with store := adel s.store k0 } m0).1 := d.of_same q2 (s1.trans s2)
        obtain ⟨d3, s3, c3⟩ := sweepD M now ks _ d2
        refine ⟨d3, (s1.trans s2).trans s3, ?_⟩
        rw [countL_append, c3, nonL M _ o2]
      · rw [if_neg h2]; exact sweepD M now ks s d

theorem sweepA (M : SegMsg) (w : M.WF) (k : Nat) (now : Nat) : ∀ (ks : List Nat) (s : CState), A G M k s →
    (sweepStore now ks s).1.ttlResp = s.ttlResp ∧ KeepSeg M s (sweepStore now ks s).1 ∧
    ((A G M k (sweepStore now ks s).1 ∧ countL M.L (sweepStore now ks s).2 = 0 ∧
       (Pend M k s → Pend M k (sweepStore now ks s).1)) ∨
     (D M (sweepStore now ks s).1 ∧ countL M.L (sweepStore now ks s).2 = 1 ∧
       aget (sweepStore now ks s).1.segStatus M.r = none ∧ M.n ≤ k))
  | [], s, a => ⟨rfl, KeepSeg.refl M s, Or.inl ⟨a, by simp [sweepStore, countL], fun h => h⟩⟩
  | k0 :: ks, s, a => by
    rw [sweepStore_cons]
    cases h1 : aget s.store k0 with
    | none => exact sweepA M w k now ks s a
    | some pr =>
      obtain ⟨at0, m0⟩ := pr
      dsimp only
      by_cases h2 : now - at0 > s.ttlResp
      · rw [if_pos h2]; dsimp only
        by_cases hk : M.IsSeq k0
        · obtain ⟨j, hj1, hj2, rfl⟩ := hk
          have hjk : j ≤ k := by
            by_contra hc
            have := a.unput j (by omega) hj2
            rw [this] at h1; cases h1
          have hm0 : m0 = M.x j := (a.live j hj1 hjk _ h1).1
          subst hm0
          obtain ⟨hcase, httl, hkeep⟩ := expireM M w k s j at0 a hj1 hjk h1
          rcases hcase with ⟨a2, ho, hp2⟩ | ⟨d2, hc, hgone, hnk⟩
          · obtain ⟨t3, k3, r3⟩ := sweepA M w k now ks _ a2
            refine ⟨t3.trans httl, hkeep.trans k3, ?_⟩
            rw [ho, List.nil_append]
            rcases r3 with ⟨x, y, z⟩ | r3
            · exact Or.inl ⟨x, y, fun _ => z hp2⟩
            · exact Or.inr r3
          · obtain ⟨d3, s3, c3⟩ := sweepD M now ks _ d2
            refine ⟨s3.ttl.trans httl, hkeep.trans s3.keep, Or.inr ⟨d3, ?_, by rw [s3.stat]; exact hgone, hnk⟩⟩
            rw [countL_append, c3, hc]
        · obtain ⟨hl, hsq⟩ := a.quiet.store k0 (at0, m0) hk h1
          obtain ⟨q1, s1⟩ := drop_other M s k0 a.quiet hk
          obtain ⟨q2, s2, o2⟩ := expired_frame M _ m0 q1 hl (by rw [hsq]; exact hk)
          have a2 : A G M k (expired { s with store := adel s.store k0 } m0).1 := a.of_same q2 (s1.trans s2)
          obtain ⟨t3, k3, r3⟩ := sweepA M w k now ks _ a2
          refine ⟨t3.trans (s1.trans s2).ttl, (s1.trans s2).keep.trans k3, ?_⟩
          rw [countL_append, nonL M _ o2, Nat.zero_add]
          rcases r3 with ⟨x, y, z⟩ | r3
          · exact Or.inl ⟨x, y, fun hp => z (Pend.of_same (s1.trans s2) hp)⟩
          · exact Or.inr r3
      · rw [if_neg h2]; exact sweepA M w k now ks s a

theorem removeExpiredD (M : SegMsg) (s : CState) (now : Nat) (d : D M s) :
    D M (removeExpired s now).1 ∧ SameM M s (removeExpired s now).1 ∧ countL M.L (removeExpired s now).2 = 0 := by
  unfold removeExpired
  dsimp only
  obtain ⟨d1, s1, c1⟩ := sweepD M now (s.store.map (·.1)) s d
  exact ⟨d1.of_same (d1.quiet.congr rfl rfl rfl) (SameM.of_eq rfl rfl rfl rfl),
    s1.trans (SameM.of_eq rfl rfl rfl rfl), c1⟩

theorem removeExpiredA (M : SegMsg) (w : M.WF) (k : Nat) (s : CState) (now : Nat) (a : A G M k s) :
    (removeExpired s now).1.ttlResp = s.ttlResp ∧ KeepSeg M s (removeExpired s now).1 ∧
    ((A G M k (removeExpired s now).1 ∧ countL M.L (removeExpired s now).2 = 0 ∧
       (Pend M k s → Pend M k (removeExpired s now).1)) ∨
     (D M (removeExpired s now).1 ∧ countL M.L (removeExpired s now).2 = 1 ∧
       aget (removeExpired s now).1.segStatus M.r = none ∧ M.n ≤ k)) := by
  unfold removeExpired
  dsimp only
  obtain ⟨t1, k1, r1⟩ := sweepA M w k now (s.store.map (·.1)) s a
  refine ⟨t1, k1, ?_⟩
  rcases r1 with ⟨a1, c1, p1⟩ | ⟨d1, c1, g1, n1⟩
  · exact Or.inl ⟨a1.of_same (a1.quiet.congr rfl rfl rfl) (SameM.of_eq rfl rfl rfl rfl), c1, p1⟩
  · exact Or.inr ⟨d1.of_same (d1.quiet.congr rfl rfl rfl) (SameM.of_eq rfl rfl rfl rfl), c1, g1, n1⟩

/-! ### storing a request -/

/-- what `put` does after its sweep -/
def putTail (s1 : CState) (now : Nat) (m : Msg) : CState :=
  let s2 := { s1 with store := aset s1.store m.seq (now, m) }
  if m.isSubmitLike ∧ m.sarTotal > 0 then
    let s3 := { s2 with segStore := aset s2.segStore m.seq (m.sarRef, m.sarSeq) }
    let st := match aget s3.segStatus m.sarRef with
      | some st => st
      | none => { status := (List.range' 1 m.sarTotal).map fun q => (q, sSending), orig := m }
    let st' := { st with status := aset st.status m.sarSeq sSending }
    { s3 with segStatus := aset s3.segStatus m.sarRef st' }
  else s2

theorem put_eq (s : CState) (now : Nat) (m : Msg) :
    put s now m = (putTail (removeExpired s now).1 now m, (removeExpired s now).2) := by
  unfold put putTail
  generalize removeExpired s now = r
  obtain ⟨s1, outs⟩ := r
  dsimp only
  split <;> rfl

theorem putTail_ttl (s1 : CState) (now : Nat) (m : Msg) : (putTail s1 now m).ttlResp = s1.ttlResp := by
  unfold putTail; dsimp only; split <;> rfl

/-- storing a request of another message -/
theorem putTail_frame (M : SegMsg) (s1 : CState) (now : Nat) (m' : Msg) (h : QuietM M s1)
    (hk : ¬ M.IsSeq m'.seq) (hl : m'.logId ≠ M.L) (hr : m'.sarTotal > 0 → m'.sarRef ≠ M.r) :
    QuietM M (putTail s1 now m') ∧ SameM M s1 (putTail s1 now m') := by
  have hstore : ∀ k v, ¬ M.IsSeq k → aget (aset s1.store m'.seq (now, m')) k = some v →
      v.2.logId ≠ M.L ∧ v.2.seq = k := by
    intro k v hk' hv
    by_cases e : k = m'.seq
    · subst e; rw [aget_aset_same] at hv; cases hv; exact ⟨hl, rfl⟩
    · rw [aget_aset_other _ _ _ _ e] at hv; exact h.store k v hk' hv
  have hsame : ∀ k, M.IsSeq k → aget (aset s1.store m'.seq (now, m')) k = aget s1.store k :=
    fun k hk' => aget_aset_other _ _ _ _ (fun e => hk (e ▸ hk'))
  unfold putTail
  dsimp only
  split
  · rename_i hseg
    have href : m'.sarRef ≠ M.r := hr hseg.2
    refine ⟨⟨hstore, ?_, ?_⟩, ⟨hsame, ?_, ?_, rfl⟩⟩
    · intro k p hk' hp
      dsimp only at hp
      by_cases e : k = m'.seq
      · subst e; rw [aget_aset_same] at hp; cases hp; exact href
      · rw [aget_aset_other _ _ _ _ e] at hp; exact h.seg k p hk' hp
    · intro r' st hr' hst
      dsimp only at hst
      by_cases e : r' = m'.sarRef
      · subst e
        rw [aget_aset_same] at hst
        cases hst
        dsimp only
        cases h0 : aget s1.segStatus m'.sarRef with
        | some st0 => exact h.stat _ st0 hr' h0
        | none => exact ⟨hl, fun y hy => by cases hy⟩
      · rw [aget_aset_other _ _ _ _ e] at hst
        exact h.stat r' st hr' hst
    · intro k hk'
      exact aget_aset_other _ _ _ _ (fun e => hk (e ▸ hk'))
    · exact aget_aset_other _ _ _ _ (fun e => href e.symm)
  · exact ⟨⟨hstore, h.seg, h.stat⟩, ⟨hsame, fun _ _ => rfl, rfl, rfl⟩⟩

theorem putOtherD (M : SegMsg) (s : CState) (now : Nat) (m' : Msg) (d : D M s)
    (hk : ¬ M.IsSeq m'.seq) (hl : m'.logId ≠ M.L) (hr : m'.sarTotal > 0 → m'.sarRef ≠ M.r) :
    D M (put s now m').1 ∧ SameM M s (put s now m').1 ∧ countL M.L (put s now m').2 = 0 := by
  rw [put_eq]
  obtain ⟨d1, s1, c1⟩ := removeExpiredD M s now d
  obtain ⟨q2, s2⟩ := putTail_frame M _ now m' d1.quiet hk hl hr
  exact ⟨d1.of_same q2 s2, s1.trans s2, c1⟩

theorem putOtherA (M : SegMsg) (w : M.WF) (k : Nat) (s : CState) (now : Nat) (m' : Msg) (a : A G M k s)
    (hk : ¬ M.IsSeq m'.seq) (hl : m'.logId ≠ M.L) (hr : m'.sarTotal > 0 → m'.sarRef ≠ M.r) :
    (put s now m').1.ttlResp = s.ttlResp ∧
    ((A G M k (put s now m').1 ∧ countL M.L (put s now m').2 = 0 ∧ (Pend M k s → Pend M k (put s now m').1)) ∨
     (D M (put s now m').1 ∧ countL M.L (put s now m').2 = 1 ∧ M.n ≤ k)) := by
  rw [put_eq]
  obtain ⟨t1, _, r1⟩ := removeExpiredA M w k s now a
  refine ⟨by rw [putTail_ttl]; exact t1, ?_⟩
  rcases r1 with ⟨a1, c1, p1⟩ | ⟨d1, c1, _, hnk⟩
  · obtain ⟨q2, s2⟩ := putTail_frame M _ now m' a1.quiet hk hl hr
    exact Or.inl ⟨a1.of_same q2 s2, c1, fun hp => Pend.of_same s2 (p1 hp)⟩
  · obtain ⟨q2, s2⟩ := putTail_frame M _ now m' d1.quiet hk hl hr
    exact Or.inr ⟨d1.of_same q2 s2, c1, hnk⟩

/-- storing a segment of the message: the state it leaves, given the status entry it finds or creates -/
theorem putTail_M (M : SegMsg) (w : M.WF) (s1 : CState) (now j : Nat) :
    putTail s1 now (M.x j) =
      { s1 with store := aset s1.store (M.x j).seq (now, M.x j),
                segStore := aset s1.segStore (M.x j).seq (M.r, j),
                segStatus := aset s1.segStatus M.r
                  { (match aget s1.segStatus M.r with
                     | some st => st
                     | none => { status := (List.range' 1 M.n).map fun q => (q, sSending), orig := M.x j }) with
                    status := aset (match aget s1.segStatus M.r with
                     | some st => st
                     | none => { status := (List.range' 1 M.n).map fun q => (q, sSending), orig := M.x j }).status
                      j sSending } } := by
  unfold putTail
  dsimp only
  have h : (M.x j).isSubmitLike = true ∧ (M.x j).sarTotal > 0 := ⟨w.sub j, by rw [w.tot]; exact w.npos⟩
  rw [if_pos h, w.ref, w.sq, w.tot]

theorem aget_range_sending (n i : Nat) (h1 : 1 ≤ i) (h2 : i ≤ n) :
    aget ((List.range' 1 n).map fun q => (q, sSending)) i = some sSending := by
  have hmem : (i, sSending) ∈ (List.range' 1 n).map fun q => (q, sSending) :=
    List.mem_map.mpr ⟨i, List.mem_range'_1.mpr ⟨h1, by omega⟩, rfl⟩
  apply mem_aget _ _ _ _ hmem
  rw [List.map_map]
  have : ((fun x : Nat × Int => x.1) ∘ fun q => (q, sSending)) = id := rfl
  rw [this, List.map_id]
  exact List.nodup_range' 1

/-- the next segment of the message is stored -/
theorem putNext (M : SegMsg) (w : M.WF) (k : Nat) (s : CState) (now : Nat) (a : A G M k s) (hk1 : 1 ≤ k) (hkn : k < M.n) :
    A G M (k + 1) (put s now (M.x (k + 1))).1 ∧ countL M.L (put s now (M.x (k + 1))).2 = 0 ∧
      (put s now (M.x (k + 1))).1.ttlResp = s.ttlResp := by
  rw [put_eq]
  obtain ⟨t1, _, r1⟩ := removeExpiredA M w k s now a
  rcases r1 with ⟨a1, c1, _⟩ | ⟨_, _, _, hn⟩
  swap
  · omega
  refine ⟨?_, c1, by rw [putTail_ttl]; exact t1⟩
  generalize (removeExpired s now).1 = s1 at a1
  obtain ⟨st, hst, hok⟩ := a1.ent
  rw [putTail_M M w, hst]
  dsimp only
  have hjkey : (k + 1) ∈ st.status.map (·.1) := (hok.key (k + 1)).mpr ⟨by omega, by omega⟩
  have hq : ∀ i, i ≠ k + 1 → (M.x i).seq ≠ (M.x (k + 1)).seq := fun i hi e => hi (w.inj _ _ e)
  refine ⟨⟨?_, ?_, ?_⟩, ?_, ⟨_, aget_aset_same _ _ _, ⟨hok.orig, hok.last, ?_, ?_, ?_⟩⟩, ?_, ?_, by omega⟩
  · intro k' v hk' hv
    dsimp only at hv
    have : k' ≠ (M.x (k + 1)).seq := fun e => hk' ⟨k + 1, by omega, by omega, e.symm⟩
    rw [aget_aset_other _ _ _ _ this] at hv
    exact a1.quiet.store k' v hk' hv
  · intro k' p' hk' hp
    dsimp only at hp
    have : k' ≠ (M.x (k + 1)).seq := fun e => hk' ⟨k + 1, by omega, by omega, e.symm⟩
    rw [aget_aset_other _ _ _ _ this] at hp
    exact a1.quiet.seg k' p' hk' hp
  · intro r' st' hr' hst'
    dsimp only at hst'
    rw [aget_aset_other _ _ _ _ hr'] at hst'
    exact a1.quiet.stat r' st' hr' hst'
  · intro i p' hi1 hi2 hp
    dsimp only at hp
    by_cases e : i = k + 1
    · subst e; rw [aget_aset_same] at hp; cases hp; rfl
    · rw [aget_aset_other _ _ _ _ (hq i e)] at hp
      exact a1.segM i p' hi1 hi2 hp
  · show (aset st.status (k + 1) sSending).map (·.1) = _
    rw [aset_keys _ _ _ hjkey]; exact hok.keys
  · intro p' hp
    rcases mem_aset _ _ _ _ hp with e | hp'
    · rw [e]; exact Or.inl rfl
    · exact hok.codes p' hp'
  · intro i hi1 hi2
    dsimp only
    by_cases e : i = k + 1
    · subst e
      rw [aget_aset_same, aget_aset_same]
      constructor
      · intro _; exact Or.inr (by simp)
      · intro _; rfl
    · rw [aget_aset_other _ _ _ _ e, aget_aset_other _ _ _ _ (hq i e)]
      rw [hok.sending i hi1 hi2]
      constructor
      · rintro (h | h)
        · exact Or.inl (by omega)
        · exact Or.inr h
      · rintro (h | h)
        · exact Or.inl (by omega)
        · exact Or.inr h
  · intro i hi1 hi2 v hv
    dsimp only at hv ⊢
    by_cases e : i = k + 1
    · subst e
      rw [aget_aset_same] at hv; cases hv
      exact ⟨rfl, aget_aset_same _ _ _⟩
    · rw [aget_aset_other _ _ _ _ (hq i e)] at hv
      rw [aget_aset_other _ _ _ _ (hq i e)]
      exact a1.live i hi1 (by omega) v hv
  · intro i hi1 hi2
    dsimp only
    rw [aget_aset_other _ _ _ _ (hq i (by omega))]
    exact a1.unput i (by omega) hi2

/-- the first segment of the message is stored: all its segments are registered as being sent -/
theorem putFirst (M : SegMsg) (w : M.WF) (s : CState) (now : Nat) (d : D M s) (hnone : aget s.segStatus M.r = none) :
    A G M 1 (put s now (M.x 1)).1 ∧ countL M.L (put s now (M.x 1)).2 = 0 ∧
      (put s now (M.x 1)).1.ttlResp = s.ttlResp := by
  rw [put_eq]
  obtain ⟨d1, s1e, c1⟩ := removeExpiredD M s now d
  have hn1 : aget (removeExpired s now).1.segStatus M.r = none := by rw [s1e.stat]; exact hnone
  refine ⟨?_, c1, by rw [putTail_ttl]; exact s1e.ttl⟩
  generalize (removeExpired s now).1 = s1 at d1 hn1
  rw [putTail_M M w, hn1]
  dsimp only
  have hn := w.npos
  have hq : ∀ i, i ≠ 1 → (M.x i).seq ≠ (M.x 1).seq := fun i hi e => hi (w.inj _ _ e)
  have hkeys : ((List.range' 1 M.n).map fun q => ((q, sSending) : Nat × Int)).map (·.1) = List.range' 1 M.n := by
    rw [List.map_map]
    have : ((fun x : Nat × Int => x.1) ∘ fun q => (q, sSending)) = id := rfl
    rw [this, List.map_id]
  have h1key : 1 ∈ ((List.range' 1 M.n).map fun q => ((q, sSending) : Nat × Int)).map (·.1) := by
    rw [hkeys, List.mem_range'_1]; omega
  refine ⟨⟨?_, ?_, ?_⟩, ?_, ⟨_, aget_aset_same _ _ _, ⟨w.log 1, (fun _ y hy => by cases hy), ?_, ?_, ?_⟩⟩, ?_, ?_, hn⟩
  · intro k' v hk' hv
    dsimp only at hv
    have : k' ≠ (M.x 1).seq := fun e => hk' ⟨1, by omega, by omega, e.symm⟩
    rw [aget_aset_other _ _ _ _ this] at hv
    exact d1.quiet.store k' v hk' hv
  · intro k' p' hk' hp
    dsimp only at hp
    have : k' ≠ (M.x 1).seq := fun e => hk' ⟨1, by omega, by omega, e.symm⟩
    rw [aget_aset_other _ _ _ _ this] at hp
    exact d1.quiet.seg k' p' hk' hp
  · intro r' st' hr' hst'
    dsimp only at hst'
    rw [aget_aset_other _ _ _ _ hr'] at hst'
    exact d1.quiet.stat r' st' hr' hst'
  · intro i p' hi1 hi2 hp
    dsimp only at hp
    by_cases e : i = 1
    · subst e; rw [aget_aset_same] at hp; cases hp; rfl
    · rw [aget_aset_other _ _ _ _ (hq i e)] at hp
      exact d1.segM i p' hi1 hi2 hp
  · show (aset _ 1 sSending).map (·.1) = _
    rw [aset_keys _ _ _ h1key]; exact hkeys
  · intro p' hp
    rcases mem_aset _ _ _ _ hp with e | hp'
    · rw [e]; exact Or.inl rfl
    · obtain ⟨q0, _, rfl⟩ := List.mem_map.mp hp'
      exact Or.inl rfl
  · intro i hi1 hi2
    dsimp only
    have hs : aget (aset ((List.range' 1 M.n).map fun q => ((q, sSending) : Nat × Int)) 1 sSending) i = some sSending := by
      by_cases e : i = 1
      · subst e; exact aget_aset_same _ _ _
      · rw [aget_aset_other _ _ _ _ e]; exact aget_range_sending M.n i hi1 hi2
    constructor
    · intro _
      by_cases e : i = 1
      · subst e; exact Or.inr (by rw [aget_aset_same]; simp)
      · exact Or.inl (by omega)
    · intro _; exact hs
  · intro i hi1 hi2 v hv
    have e : i = 1 := by omega
    subst e
    dsimp only at hv ⊢
    rw [aget_aset_same] at hv; cases hv
    exact ⟨rfl, aget_aset_same _ _ _⟩
  · intro i hi1 hi2
    dsimp only
    rw [aget_aset_other _ _ _ _ (hq i (by omega))]
    exact d1.gone _ ⟨i, by omega, hi2, rfl⟩

/-! ### a response is looked up -/

/-- the response to one of the message's segments: its status leaves SENDING, nothing is reported yet -/
theorem respM (M : SegMsg) (w : M.WF) (k : Nat) (s : CState) (j t : Nat) (tr : Msg) (a : A G M k s)
    (h1 : 1 ≤ j) (h2 : j ≤ k) (hst : aget s.store (M.x j).seq = some (t, M.x j)) (htr : tr.seq = (M.x j).seq)
    (htl : G → tr.logId = M.L) :
    A G M k (updateSegOnResponse { s with store := adel s.store (M.x j).seq } tr (M.x j)) ∧
      (updateSegOnResponse { s with store := adel s.store (M.x j).seq } tr (M.x j)).ttlResp = s.ttlResp := by
  obtain ⟨st, hst0, hok⟩ := a.ent
  have hjn : j ≤ M.n := Nat.le_trans h2 a.kle
  have hseg : aget s.segStore (M.x j).seq = some (M.r, j) := (a.live j h1 h2 _ hst).2
  have hjkey : j ∈ st.status.map (·.1) := (hok.key j).mpr ⟨h1, hjn⟩
  have hstore_other : ∀ i, i ≠ j → aget (adel s.store (M.x j).seq) (M.x i).seq = aget s.store (M.x i).seq :=
    fun i hi => aget_adel_other _ _ _ (fun e => hi (w.inj i j e))
  -- the new status entry: code c ≠ SENDING for segment j, some last response
  have hrs : ∃ c lr, respStatus st j tr = { st with status := aset st.status j c, lastResponse := lr } ∧
      (c = sSent ∨ c = sFailed) ∧ (∀ y, lr = some y → y = tr ∨ st.lastResponse = some y) := by
    unfold respStatus
    split
    · exact ⟨sFailed, some tr, rfl, Or.inr rfl, fun y hy => Or.inl (Option.some.inj hy).symm⟩
    · split
      · refine ⟨sSent, _, rfl, Or.inl rfl, ?_⟩
        intro y hy
        split at hy
        · exact Or.inr hy
        · exact Or.inl (Option.some.inj hy).symm
      · exact ⟨sFailed, some tr, rfl, Or.inr rfl, fun y hy => Or.inl (Option.some.inj hy).symm⟩
  obtain ⟨c, lr, hrs, hc, hlr⟩ := hrs
  have hcne : c ≠ sSending := by
    have := codes_order
    rcases hc with h | h <;> omega
  have hu : updateSegOnResponse { s with store := adel s.store (M.x j).seq } tr (M.x j) =
      { s with store := adel s.store (M.x j).seq,
               segStatus := aset s.segStatus M.r { st with status := aset st.status j c, lastResponse := lr } } := by
    unfold updateSegOnResponse
    rw [if_pos (w.sub j)]
    have : aget ({ s with store := adel s.store (M.x j).seq } : CState).segStore tr.seq = some (M.r, j) := by
      rw [htr]; exact hseg
    rw [this]
    dsimp only
    rw [hst0]
    dsimp only
    rw [hrs]
  rw [hu]
  have hlast : G → ∀ y, lr = some y → y.logId = M.L := by
    intro g y hy
    rcases hlr y hy with e | e
    · rw [e]; exact htl g
    · exact hok.last g y e
  refine ⟨⟨⟨?_, a.quiet.seg, ?_⟩, a.segM, ⟨_, aget_aset_same _ _ _, ⟨hok.orig, hlast, ?_, ?_, ?_⟩⟩, ?_, ?_, a.kle⟩, rfl⟩
  · intro k' v hk' hv
    exact a.quiet.store k' v hk' (aget_adel_some _ _ _ _ hv)
  · intro r' st' hr' hst'
    dsimp only at hst'
    rw [aget_aset_other _ _ _ _ hr'] at hst'
    exact a.quiet.stat r' st' hr' hst'
  · show (aset st.status j c).map (·.1) = _
    rw [aset_keys _ _ _ hjkey]; exact hok.keys
  · intro p' hp
    rcases mem_aset _ _ _ _ hp with e | hp'
    · rw [e]
      rcases hc with h | h
      · exact Or.inr (Or.inl h)
      · exact Or.inr (Or.inr (Or.inl h))
    · exact hok.codes p' hp'
  · intro i hi1 hi2
    dsimp only
    by_cases e : i = j
    · subst e
      rw [aget_aset_same]
      constructor
      · intro h; exact absurd (Option.some.inj h) hcne
      · rintro (h | h)
        · omega
        · exact absurd (aget_adel_same _ _) h
    · rw [aget_aset_other _ _ _ _ e, hstore_other i e]
      exact hok.sending i hi1 hi2
  · intro i hi1 hi2 v hv
    dsimp only at hv ⊢
    have hij : i ≠ j := by
      intro e; subst e
      rw [aget_adel_same] at hv; cases hv
    rw [hstore_other i hij] at hv
    exact a.live i hi1 hi2 v hv
  · intro i hi1 hi2
    dsimp only
    rw [hstore_other i (by omega)]
    exact a.unput i hi1 hi2

theorem get_eq (s : CState) (now : Nat) (resp : Msg) :
    Corr.get s now resp =
      match aget s.store resp.seq with
      | none => ((removeExpired s now).1, (removeExpired s now).2, none)
      | some (_, m) =>
        ((removeExpired (updateSegOnResponse { s with store := adel s.store resp.seq } (track resp m) m) now).1,
         (removeExpired (updateSegOnResponse { s with store := adel s.store resp.seq } (track resp m) m) now).2,
         some m) := by
  unfold Corr.get; rfl

/-- `get` in a closed state: a frame step -/
theorem getD (M : SegMsg) (s : CState) (now : Nat) (resp : Msg) (d : D M s) (hl : resp.logId ≠ M.L) :
    D M (Corr.get s now resp).1 ∧ SameM M s (Corr.get s now resp).1 ∧ countL M.L (Corr.get s now resp).2.1 = 0 ∧
      (∀ o, (Corr.get s now resp).2.2 = some o → o.logId ≠ M.L ∧ ¬ M.IsSeq resp.seq) := by
  rw [get_eq]
  cases h1 : aget s.store resp.seq with
  | none =>
    dsimp only
    obtain ⟨a, b, c⟩ := removeExpiredD M s now d
    exact ⟨a, b, c, fun o ho => by cases ho⟩
  | some pr =>
    obtain ⟨t0, o⟩ := pr
    dsimp only
    have hk : ¬ M.IsSeq resp.seq := by
      intro hk
      have := d.gone _ hk
      rw [this] at h1; cases h1
    obtain ⟨hol, hos⟩ := d.quiet.store _ (t0, o) hk h1
    obtain ⟨q1, s1⟩ := drop_other M s resp.seq d.quiet hk
    obtain ⟨q2, s2⟩ := updateSeg_frame M _ (track resp o) o q1 (track_logId M.L resp o hl hol)
      (by rw [track_seq]; exact hk)
    have d2 := d.of_same q2 (s1.trans s2)
    obtain ⟨a, b, c⟩ := removeExpiredD M _ now d2
    refine ⟨a, (s1.trans s2).trans b, c, ?_⟩
    intro o' ho'
    cases ho'
    exact ⟨hol, hk⟩

/-- `get` in an open state -/
theorem getA (M : SegMsg) (w : M.WF) (k : Nat) (s : CState) (now : Nat) (resp : Msg) (a : A G M k s)
    (hl : resp.logId ≠ M.L) (hg : G → M.IsSeq resp.seq → resp.kind = .submitSmResp ∨ resp.kind = .genericNack) :
    (Corr.get s now resp).1.ttlResp = s.ttlResp ∧
    ((A G M k (Corr.get s now resp).1 ∧ countL M.L (Corr.get s now resp).2.1 = 0 ∧
       (((Corr.get s now resp).2.2 = none ∨ ¬ M.IsSeq resp.seq) → Pend M k s → Pend M k (Corr.get s now resp).1)) ∨
     (D M (Corr.get s now resp).1 ∧ countL M.L (Corr.get s now resp).2.1 = 1 ∧
       aget (Corr.get s now resp).1.segStatus M.r = none ∧ M.n ≤ k)) ∧
    (∀ o, (Corr.get s now resp).2.2 = some o →
      (¬ M.IsSeq resp.seq ∧ o.logId ≠ M.L) ∨
      (∃ j, 1 ≤ j ∧ j ≤ M.n ∧ resp.seq = (M.x j).seq ∧ o = M.x j ∧
        aget (Corr.get s now resp).1.store (M.x j).seq = none ∧
        aget (Corr.get s now resp).1.segStore (M.x j).seq = some (M.r, j))) := by
  rw [get_eq]
  cases h1 : aget s.store resp.seq with
  | none =>
    dsimp only
    obtain ⟨t, _, r⟩ := removeExpiredA M w k s now a
    refine ⟨t, ?_, fun o ho => by cases ho⟩
    rcases r with ⟨x, y, z⟩ | r
    · exact Or.inl ⟨x, y, fun _ => z⟩
    · exact Or.inr r
  | some pr =>
    obtain ⟨t0, o⟩ := pr
    dsimp only
    by_cases hk : M.IsSeq resp.seq
    · obtain ⟨j, hj1, hj2, hjs⟩ := hk
      have hjk : j ≤ k := by
        by_contra hc
        have := a.unput j (by omega) hj2
        rw [hjs, h1] at this; cases this
      have h1' : aget s.store (M.x j).seq = some (t0, o) := by rw [hjs]; exact h1
      have ho : o = M.x j := (a.live j hj1 hjk _ h1').1
      have hsegj : aget s.segStore (M.x j).seq = some (M.r, j) := (a.live j hj1 hjk _ h1').2
      subst ho
      have htl : G → (track resp (M.x j)).logId = M.L := by
        intro g
        have hk' := hg g ⟨j, hj1, hj2, hjs⟩
        unfold track
        have : resp.isTrackable = true := by
          rcases hk' with h | h <;> simp [Msg.isTrackable, h]
        rw [if_pos this]
        exact w.log j
      obtain ⟨a2, t2⟩ := respM M w k s j t0 (track resp (M.x j)) a hj1 hjk h1' (by rw [track_seq, hjs]) htl
      -- after the update the segment is out of the store and still registered
      have hu1 := updateSeg_store { s with store := adel s.store (M.x j).seq } (track resp (M.x j)) (M.x j)
      have hu2 := updateSeg_segStore { s with store := adel s.store (M.x j).seq } (track resp (M.x j)) (M.x j)
      have hnone2 : aget (updateSegOnResponse { s with store := adel s.store (M.x j).seq }
          (track resp (M.x j)) (M.x j)).store (M.x j).seq = none := by
        rw [hu1.1]; exact aget_adel_same _ _
      have hseg2 : aget (updateSegOnResponse { s with store := adel s.store (M.x j).seq }
          (track resp (M.x j)) (M.x j)).segStore (M.x j).seq = some (M.r, j) := by
        rw [hu2]; exact hsegj
      rw [← hjs] at *
      obtain ⟨t, kp, r⟩ := removeExpiredA M w k _ now a2
      obtain ⟨e1, e2⟩ := kp j hj1 hj2 hnone2
      refine ⟨t.trans t2, ?_, fun o' ho' => by
        cases ho'
        exact Or.inr ⟨j, hj1, hj2, rfl, rfl, e1, e2.trans hseg2⟩⟩
      rcases r with ⟨x, y, _⟩ | r
      · refine Or.inl ⟨x, y, ?_⟩
        rintro (h | h)
        · cases h
        · exact absurd ⟨j, hj1, hj2, rfl⟩ h
      · exact Or.inr r
    · obtain ⟨hol, hos⟩ := a.quiet.store _ (t0, o) hk h1
      obtain ⟨q1, s1⟩ := drop_other M s resp.seq a.quiet hk
      obtain ⟨q2, s2⟩ := updateSeg_frame M _ (track resp o) o q1 (track_logId M.L resp o hl hol)
        (by rw [track_seq]; exact hk)
      have a2 := a.of_same q2 (s1.trans s2)
      obtain ⟨t, _, r⟩ := removeExpiredA M w k _ now a2
      refine ⟨t.trans (s1.trans s2).ttl, ?_, fun o' ho' => by cases ho'; exact Or.inl ⟨hk, hol⟩⟩
      rcases r with ⟨x, y, z⟩ | r
      · exact Or.inl ⟨x, y, fun _ hp => z (Pend.of_same (s1.trans s2) hp)⟩
      · exact Or.inr r

/-! ### the attributable branch of `_handle_response` -/

theorem hL_le (L : Nat) (h : Handled) : hL L h ≤ 1 := by
  cases h with
  | msg x => simp only [hL]; split <;> omega
  | placeholder => simp [hL]
  | dropped => simp [hL]

theorem countL_single_le (L : Nat) (o : Out) : countL L [o] ≤ 1 := by
  simp only [countL, List.countP_cons, List.countP_nil]; split <;> omega

theorem putDeliveryD (M : SegMsg) (s : CState) (now : Nat) (id : List Nat) (o : Msg) (d : D M s) :
    D M (putDelivery s now id o).1 ∧ SameM M s (putDelivery s now id o).1 ∧
      countL M.L (putDelivery s now id o).2 = 0 := by
  obtain ⟨d1, s1, c1⟩ := removeExpiredD M s now d
  unfold putDelivery
  exact ⟨d1.of_same (d1.quiet.congr rfl rfl rfl) (SameM.of_eq rfl rfl rfl rfl),
    s1.trans (SameM.of_eq rfl rfl rfl rfl), c1⟩

theorem putDeliveryA (M : SegMsg) (w : M.WF) (k : Nat) (s : CState) (now : Nat) (id : List Nat) (o : Msg) (a : A G M k s) :
    (putDelivery s now id o).1.ttlResp = s.ttlResp ∧ KeepSeg M s (putDelivery s now id o).1 ∧
    ((A G M k (putDelivery s now id o).1 ∧ countL M.L (putDelivery s now id o).2 = 0 ∧
       (Pend M k s → Pend M k (putDelivery s now id o).1)) ∨
     (D M (putDelivery s now id o).1 ∧ countL M.L (putDelivery s now id o).2 = 1 ∧
       aget (putDelivery s now id o).1.segStatus M.r = none ∧ M.n ≤ k)) := by
  obtain ⟨t1, k1, r1⟩ := removeExpiredA M w k s now a
  unfold putDelivery
  refine ⟨t1, k1, ?_⟩
  rcases r1 with ⟨a1, c1, p1⟩ | ⟨d1, c1, g1, hnk⟩
  · exact Or.inl ⟨a1.of_same (a1.quiet.congr rfl rfl rfl) (SameM.of_eq rfl rfl rfl rfl), c1, p1⟩
  · exact Or.inr ⟨d1.of_same (d1.quiet.congr rfl rfl rfl) (SameM.of_eq rfl rfl rfl rfl), c1, g1, hnk⟩

/-- the segment status looked up for one of the message's segments when its entry is gone -/
theorem gs_gone (M : SegMsg) (s : CState) (j : Nat) (h1 : 1 ≤ j) (h2 : j ≤ M.n) (hs : SegM M s)
    (hn : aget s.segStatus M.r = none) : getSegmented s (M.x j).seq false = (s, none, 0) := by
  unfold getSegmented
  cases hq : aget s.segStore (M.x j).seq with
  | none => rfl
  | some p =>
    have := hs j p h1 h2 hq
    subst this
    dsimp only
    simp only [Bool.false_eq_true, if_false]
    rw [hn]

theorem fixLast_gone (M : SegMsg) (s : CState) (a b : Msg) (j : Nat) (h1 : 1 ≤ j) (h2 : j ≤ M.n)
    (ha : a.seq = (M.x j).seq) (hs : SegM M s) (hn : aget s.segStatus M.r = none) : fixLast s a b = s := by
  unfold fixLast
  rw [ha]
  cases hq : aget s.segStore (M.x j).seq with
  | none => rfl
  | some p =>
    have := hs j p h1 h2 hq
    subst this
    dsimp only
    rw [hn]

/-- `fixLast` on one of the message's segments only replaces the stored last response -/
theorem fixLastM (M : SegMsg) (k : Nat) (s : CState) (a b : Msg) (j : Nat) (h1 : 1 ≤ j) (h2 : j ≤ M.n)
    (ha : a.seq = (M.x j).seq) (hb : b.logId = M.L) (ak : A G M k s) :
    A G M k (fixLast s a b) ∧ (fixLast s a b).ttlResp = s.ttlResp := by
  unfold fixLast
  rw [ha]
  cases hq : aget s.segStore (M.x j).seq with
  | none => exact ⟨ak, rfl⟩
  | some p =>
    have := ak.segM j p h1 h2 hq
    subst this
    dsimp only
    cases hst : aget s.segStatus M.r with
    | none => exact ⟨ak, rfl⟩
    | some st =>
      dsimp only
      split
      · refine ⟨?_, rfl⟩
        obtain ⟨st0, hst0, hok⟩ := ak.ent
        rw [hst] at hst0; cases hst0
        refine ⟨⟨ak.quiet.store, ak.quiet.seg, ?_⟩, ak.segM,
          ⟨_, aget_aset_same _ _ _, ⟨hok.orig, (fun _ y hy => by cases hy; exact hb), hok.keys, hok.codes, hok.sending⟩⟩,
          ak.live, ak.unput, ak.kle⟩
        intro r' st' hr' hst'
        dsimp only at hst'
        rw [aget_aset_other _ _ _ _ hr'] at hst'
        exact ak.quiet.stat r' st' hr' hst'
      · exact ⟨ak, rfl⟩

/-- the cumulated status looked up after a response to one of the message's segments -/
theorem gsA (M : SegMsg) (w : M.WF) (k : Nat) (s : CState) (j : Nat) (h1 : 1 ≤ j) (h2 : j ≤ M.n) (a : A G M k s) :
    (getSegmented s (M.x j).seq false).1.ttlResp = s.ttlResp ∧
    ((aget s.segStore (M.x j).seq = none ∧ getSegmented s (M.x j).seq false = (s, none, 0)) ∨
     (∃ st, (getSegmented s (M.x j).seq false).2.1 = some st ∧ StatOK G M k s st ∧
       (((getSegmented s (M.x j).seq false).1 = s ∧ (getSegmented s (M.x j).seq false).2.2 = sSending ∧ Pend M k s) ∨
        (D M (getSegmented s (M.x j).seq false).1 ∧
          ((getSegmented s (M.x j).seq false).2.2 = sSent ∨ (getSegmented s (M.x j).seq false).2.2 = sFailed ∨
           (getSegmented s (M.x j).seq false).2.2 = sExpired) ∧ M.n ≤ k)))) := by
  unfold getSegmented
  cases hq : aget s.segStore (M.x j).seq with
  | none => exact ⟨rfl, Or.inl ⟨rfl, rfl⟩⟩
  | some p =>
    have := a.segM j p h1 h2 hq
    subst this
    dsimp only
    simp only [Bool.false_eq_true, if_false]
    obtain ⟨st, hst, hok⟩ := a.ent
    rw [hst]
    dsimp only
    rw [cumulated_eq s M.r st hst (hok.ne w)]
    by_cases hp : Pend M k s
    · have hm : maxCode st.status = sSending := (hok.max_sending w).mpr hp
      rw [hm]
      have hnot : ¬ (sSending ≠ sSending ∧ sSending ≠ sSent) := fun h => h.1 rfl
      rw [if_neg hnot]
      exact ⟨rfl, Or.inr ⟨st, rfl, hok, Or.inl ⟨rfl, rfl, hp⟩⟩⟩
    · have hm : maxCode st.status ≠ sSending := fun e => hp ((hok.max_sending w).mp e)
      obtain ⟨pm, hpm, hpe⟩ := maxCode_mem st.status (hok.ne w)
      have hcode : IsCode (maxCode st.status) := hpe ▸ hok.codes pm hpm
      have hfin : maxCode st.status = sSent ∨ maxCode st.status = sFailed ∨ maxCode st.status = sExpired := by
        rcases hcode with h | h | h | h
        · exact absurd h hm
        · exact Or.inl h
        · exact Or.inr (Or.inl h)
        · exact Or.inr (Or.inr h)
      have hgone := a.toD_of_not_pend hp
      have hnk : M.n ≤ k := by
        by_contra hc
        exact hp ⟨M.n, w.npos, Nat.le_refl _, Or.inl (by omega)⟩
      by_cases hs : maxCode st.status = sSent
      · rw [if_neg (by simp [hs])]
        exact ⟨rfl, Or.inr ⟨st, rfl, hok, Or.inr ⟨⟨a.quiet, a.segM, hgone⟩, hfin, hnk⟩⟩⟩
      · rw [if_pos ⟨hm, hs⟩]
        refine ⟨rfl, Or.inr ⟨st, rfl, hok, Or.inr ⟨⟨⟨a.quiet.store, a.quiet.seg, ?_⟩, a.segM, hgone⟩, hfin, hnk⟩⟩⟩
        intro r' st' hr' hst'
        exact a.quiet.stat r' st' hr' (aget_adel_some _ _ _ _ hst')

/-- the branch on a response to another message, closed state -/
theorem attrOtherD (M : SegMsg) (g1 : CState) (now : Nat) (resp o : Msg) (d : D M g1)
    (hk : ¬ M.IsSeq resp.seq) (ho : o.logId ≠ M.L) :
    D M (attrBranch g1 now resp o).1 ∧ SameM M g1 (attrBranch g1 now resp o).1 ∧
      countL M.L (attrBranch g1 now resp o).2.1 = 0 ∧ hL M.L (attrBranch g1 now resp o).2.2 = 0 := by
  have hr' : ({ resp with logId := o.logId, extra := o.extra } : Msg).logId ≠ M.L := ho
  generalize hrd : ({ resp with logId := o.logId, extra := o.extra } : Msg) = resp' at hr'
  obtain ⟨q1, s1⟩ := fixLast_frame M g1 resp resp' d.quiet hr' hk
  have d1 : D M (fixLast g1 resp resp') := d.of_same q1 s1
  have hpd : ∃ pd : CState × List Out,
      pd = (if resp.kind = .submitSmResp ∧ resp.status = 0 then putDelivery (fixLast g1 resp resp') now resp.msgId o
            else (fixLast g1 resp resp', [])) ∧
      D M pd.1 ∧ SameM M g1 pd.1 ∧ countL M.L pd.2 = 0 := by
    refine ⟨_, rfl, ?_⟩
    split
    · obtain ⟨a, b, c⟩ := putDeliveryD M _ now resp.msgId o d1
      exact ⟨a, s1.trans b, c⟩
    · exact ⟨d1, s1, by simp [countL]⟩
  obtain ⟨pd, hpdeq, dp, sp, cp⟩ := hpd
  obtain ⟨qg, sg, hstg⟩ := getSegmented_frame M pd.1 resp.seq dp.quiet hk
  unfold attrBranch
  rw [hrd]
  dsimp only
  rw [← hpdeq]
  refine ⟨dp.of_same qg sg, sp.trans sg, ?_, ?_⟩
  · rw [countL_append, cp, Nat.zero_add]
    apply nonL
    intro y hy
    cases hgs : (getSegmented pd.1 resp.seq false).2.1 with
    | none => rw [hgs] at hy; simp at hy
    | some st =>
      rw [hgs] at hy
      dsimp only at hy
      split at hy
      · simp only [List.mem_singleton, Out.sendError.injEq] at hy
        subst hy; exact (hstg st hgs).1
      · simp at hy
  · cases hgs : (getSegmented pd.1 resp.seq false).2.1 with
    | none =>
      dsimp only
      split
      · rfl
      · simp [hL, hr']
    | some st =>
      dsimp only
      split
      · rfl
      · split
        · rfl
        · have : (st.lastResponse.getD resp').logId ≠ M.L := by
            cases hlr : st.lastResponse with
            | none => exact hr'
            | some y => exact (hstg st hgs).2 y hlr
          simp [hL, this]

/-- the branch on a response to another message, open state -/
theorem attrOtherA (M : SegMsg) (w : M.WF) (k : Nat) (g1 : CState) (now : Nat) (resp o : Msg) (a : A G M k g1)
    (hk : ¬ M.IsSeq resp.seq) (ho : o.logId ≠ M.L) :
    (attrBranch g1 now resp o).1.ttlResp = g1.ttlResp ∧
    ((A G M k (attrBranch g1 now resp o).1 ∧ countL M.L (attrBranch g1 now resp o).2.1 = 0 ∧
       (Pend M k g1 → Pend M k (attrBranch g1 now resp o).1)) ∨
     (D M (attrBranch g1 now resp o).1 ∧ countL M.L (attrBranch g1 now resp o).2.1 = 1 ∧ M.n ≤ k)) ∧
    hL M.L (attrBranch g1 now resp o).2.2 = 0 := by
  have hr' : ({ resp with logId := o.logId, extra := o.extra } : Msg).logId ≠ M.L := ho
  generalize hrd : ({ resp with logId := o.logId, extra := o.extra } : Msg) = resp' at hr'
  obtain ⟨q1, s1⟩ := fixLast_frame M g1 resp resp' a.quiet hr' hk
  have a1 : A G M k (fixLast g1 resp resp') := a.of_same q1 s1
  have hpd : ∃ pd : CState × List Out,
      pd = (if resp.kind = .submitSmResp ∧ resp.status = 0 then putDelivery (fixLast g1 resp resp') now resp.msgId o
            else (fixLast g1 resp resp', [])) ∧
      pd.1.ttlResp = g1.ttlResp ∧
      ((A G M k pd.1 ∧ countL M.L pd.2 = 0 ∧ (Pend M k g1 → Pend M k pd.1)) ∨
       (D M pd.1 ∧ countL M.L pd.2 = 1 ∧ M.n ≤ k)) := by
    refine ⟨_, rfl, ?_⟩
    split
    · obtain ⟨t, _, r⟩ := putDeliveryA M w k _ now resp.msgId o a1
      refine ⟨t.trans s1.ttl, ?_⟩
      rcases r with ⟨x, y, z⟩ | ⟨x, y, _, z⟩
      · exact Or.inl ⟨x, y, fun hp => z (Pend.of_same s1 hp)⟩
      · exact Or.inr ⟨x, y, z⟩
    · exact ⟨s1.ttl, Or.inl ⟨a1, by simp [countL], fun hp => Pend.of_same s1 hp⟩⟩
  obtain ⟨pd, hpdeq, tp, rp⟩ := hpd
  have hqp : QuietM M pd.1 := by
    rcases rp with ⟨x, _⟩ | ⟨x, _⟩
    · exact x.quiet
    · exact x.quiet
  obtain ⟨qg, sg, hstg⟩ := getSegmented_frame M pd.1 resp.seq hqp hk
  unfold attrBranch
  rw [hrd]
  dsimp only
  rw [← hpdeq]
  have rp' : (A G M k (getSegmented pd.1 resp.seq false).1 ∧ countL M.L pd.2 = 0 ∧
        (Pend M k g1 → Pend M k (getSegmented pd.1 resp.seq false).1)) ∨
      (D M (getSegmented pd.1 resp.seq false).1 ∧ countL M.L pd.2 = 1 ∧ M.n ≤ k) := by
    rcases rp with ⟨x, y, z⟩ | ⟨x, y, z⟩
    · exact Or.inl ⟨x.of_same qg sg, y, fun hp => Pend.of_same sg (z hp)⟩
    · exact Or.inr ⟨x.of_same qg sg, y, z⟩
  refine ⟨sg.ttl.trans tp, ?_, ?_⟩
  · cases hgs : (getSegmented pd.1 resp.seq false).2.1 with
    | none =>
      dsimp only
      rw [List.append_nil]
      exact rp'
    | some st =>
      dsimp only
      have hz : countL M.L (if (getSegmented pd.1 resp.seq false).2.2 = sExpired then [Out.sendError st.orig] else []) = 0 := by
        apply nonL
        intro y hy
        split at hy
        · simp only [List.mem_singleton, Out.sendError.injEq] at hy
          subst hy; exact (hstg st hgs).1
        · simp at hy
      rw [countL_append, hz, Nat.add_zero]
      exact rp'
  · cases hgs : (getSegmented pd.1 resp.seq false).2.1 with
    | none =>
      dsimp only
      split
      · rfl
      · simp [hL, hr']
    | some st =>
      dsimp only
      split
      · rfl
      · split
        · rfl
        · have : (st.lastResponse.getD resp').logId ≠ M.L := by
            cases hlr : st.lastResponse with
            | none => exact hr'
            | some y => exact (hstg st hgs).2 y hlr
          simp [hL, this]

/-- the branch on the response to one of the message's segments after the message was closed within the same
    operation (its siblings timed out in the sweep): nothing more is reported -/
theorem attrM_D (M : SegMsg) (w : M.WF) (g1 : CState) (now : Nat) (resp : Msg) (j : Nat) (h1 : 1 ≤ j) (h2 : j ≤ M.n)
    (hs : resp.seq = (M.x j).seq) (d : D M g1) (hn : aget g1.segStatus M.r = none) :
    D M (attrBranch g1 now resp (M.x j)).1 ∧ (attrBranch g1 now resp (M.x j)).1.ttlResp = g1.ttlResp ∧
      countL M.L (attrBranch g1 now resp (M.x j)).2.1 = 0 ∧ hL M.L (attrBranch g1 now resp (M.x j)).2.2 = 0 := by
  generalize hrd : ({ resp with logId := (M.x j).logId, extra := (M.x j).extra } : Msg) = resp'
  have hf : fixLast g1 resp resp' = g1 := fixLast_gone M g1 resp resp' j h1 h2 hs d.segM hn
  have hpd : ∃ pd : CState × List Out,
      pd = (if resp.kind = .submitSmResp ∧ resp.status = 0 then putDelivery g1 now resp.msgId (M.x j) else (g1, [])) ∧
      D M pd.1 ∧ SameM M g1 pd.1 ∧ countL M.L pd.2 = 0 := by
    refine ⟨_, rfl, ?_⟩
    split
    · exact putDeliveryD M g1 now resp.msgId (M.x j) d
    · exact ⟨d, SameM.refl M g1, by simp [countL]⟩
  obtain ⟨pd, hpdeq, dp, sp, cp⟩ := hpd
  have hgs : getSegmented pd.1 resp.seq false = (pd.1, none, 0) := by
    rw [hs]; exact gs_gone M pd.1 j h1 h2 dp.segM (by rw [sp.stat]; exact hn)
  unfold attrBranch
  rw [hrd]
  dsimp only
  rw [hf, ← hpdeq, hgs]
  dsimp only
  refine ⟨dp, sp.ttl, ?_, ?_⟩
  · rw [countL_append, cp]; simp [countL]
  · have : (M.x j).sarTotal > 0 := by rw [w.tot]; exact w.npos
    rw [if_pos this]; rfl

/-- the branch on the response to one of the message's segments, message still open -/
theorem attrM_A (M : SegMsg) (w : M.WF) (k : Nat) (g1 : CState) (now : Nat) (resp : Msg) (j : Nat)
    (h1 : 1 ≤ j) (h2 : j ≤ M.n) (hs : resp.seq = (M.x j).seq) (a : A G M k g1)
    (hsj : aget g1.store (M.x j).seq = none) (hgj : aget g1.segStore (M.x j).seq = some (M.r, j)) :
    (attrBranch g1 now resp (M.x j)).1.ttlResp = g1.ttlResp ∧
    ((A G M k (attrBranch g1 now resp (M.x j)).1 ∧
        countL M.L (attrBranch g1 now resp (M.x j)).2.1 + hL M.L (attrBranch g1 now resp (M.x j)).2.2 = 0 ∧
        Pend M k (attrBranch g1 now resp (M.x j)).1) ∨
     (D M (attrBranch g1 now resp (M.x j)).1 ∧
        Cl G (countL M.L (attrBranch g1 now resp (M.x j)).2.1 + hL M.L (attrBranch g1 now resp (M.x j)).2.2) ∧
        M.n ≤ k)) := by
  have hr'L : ({ resp with logId := (M.x j).logId, extra := (M.x j).extra } : Msg).logId = M.L := w.log j
  generalize hrd : ({ resp with logId := (M.x j).logId, extra := (M.x j).extra } : Msg) = resp' at hr'L
  obtain ⟨a1, t1⟩ := fixLastM M k g1 resp resp' j h1 h2 hs hr'L a
  have hf1 := fixLast_store g1 resp resp'
  have hf2 := fixLast_segStore g1 resp resp'
  have hpd : ∃ pd : CState × List Out,
      pd = (if resp.kind = .submitSmResp ∧ resp.status = 0 then putDelivery (fixLast g1 resp resp') now resp.msgId (M.x j)
            else (fixLast g1 resp resp', [])) ∧
      pd.1.ttlResp = g1.ttlResp ∧ aget pd.1.segStore (M.x j).seq = some (M.r, j) ∧
      ((A G M k pd.1 ∧ countL M.L pd.2 = 0) ∨
       (D M pd.1 ∧ countL M.L pd.2 = 1 ∧ aget pd.1.segStatus M.r = none ∧ M.n ≤ k)) := by
    refine ⟨_, rfl, ?_⟩
    split
    · obtain ⟨t, kp, r⟩ := putDeliveryA M w k _ now resp.msgId (M.x j) a1
      obtain ⟨_, e2⟩ := kp j h1 h2 (by rw [hf1.1]; exact hsj)
      refine ⟨t.trans t1, by rw [e2, hf2]; exact hgj, ?_⟩
      rcases r with ⟨x, y, _⟩ | r
      · exact Or.inl ⟨x, y⟩
      · exact Or.inr r
    · exact ⟨t1, by rw [hf2]; exact hgj, Or.inl ⟨a1, by simp [countL]⟩⟩
  obtain ⟨pd, hpdeq, tp, hsegp, rp⟩ := hpd
  have hpos : (M.x j).sarTotal > 0 := by rw [w.tot]; exact w.npos
  unfold attrBranch
  rw [hrd]
  dsimp only
  rw [← hpdeq, hs]
  rcases rp with ⟨ap, cp⟩ | ⟨dp, cp, np, hnk⟩
  · obtain ⟨tg, rg⟩ := gsA M w k pd.1 j h1 h2 ap
    rcases rg with ⟨hnone, _⟩ | ⟨st, hst, hok, hg⟩
    · rw [hsegp] at hnone; cases hnone
    · rcases hg with ⟨e1, e2, hp⟩ | ⟨dg, hfin, hnk⟩
      · refine ⟨tg.trans tp, Or.inl ⟨by rw [e1]; exact ap, ?_, by rw [e1]; exact hp⟩⟩
        rw [hst]
        dsimp only
        rw [e2]
        have hne : ¬ (sSending = sExpired) := by decide
        rw [if_neg hne, if_pos rfl, countL_append, cp]
        simp [countL, hL]
      · refine ⟨tg.trans tp, Or.inr ⟨dg, ?_, hnk⟩⟩
        rw [hst]
        dsimp only
        rw [countL_append, cp, Nat.zero_add]
        by_cases he : (getSegmented pd.1 (M.x j).seq false).2.2 = sExpired
        · rw [if_pos he]
          have hne : ¬ (sExpired = sSending) := by decide
          rw [he, if_neg hne, if_pos rfl]
          have : countL M.L [Out.sendError st.orig] = 1 := by simp [countL, isL, hok.orig]
          rw [this]
          simpa [hL] using Cl.one G
        · rw [if_neg he]
          have hns : ¬ ((getSegmented pd.1 (M.x j).seq false).2.2 = sSending) := by
            have := codes_order
            rcases hfin with h | h | h <;> (rw [h]; omega)
          rw [if_neg hns, if_neg he]
          have hle := hL_le M.L (Handled.msg (st.lastResponse.getD resp'))
          refine ⟨by simp only [countL, List.countP_nil]; omega, ?_⟩
          intro g
          have : (st.lastResponse.getD resp').logId = M.L := by
            cases hlr : st.lastResponse with
            | none => exact hr'L
            | some y => exact hok.last g y hlr
          simp [countL, hL, this]
  · have hgs : getSegmented pd.1 (M.x j).seq false = (pd.1, none, 0) := gs_gone M pd.1 j h1 h2 dp.segM np
    rw [hgs]
    dsimp only
    refine ⟨tp, Or.inr ⟨dp, ?_, hnk⟩⟩
    rw [if_pos hpos, countL_append]
    simp only [countL, List.countP_nil, hL, Nat.add_zero]
    have : List.countP (isL M.L) pd.2 = 1 := cp
    rw [this]; exact Cl.one G

/-! ### `_handle_response` as a whole -/

theorem handleResponseD (M : SegMsg) (s : CState) (now : Nat) (resp : Msg) (d : D M s) (hl : resp.logId ≠ M.L) :
    D M (handleResponse s now resp).1 ∧ SameM M s (handleResponse s now resp).1 ∧
      countL M.L (handleResponse s now resp).2.1 + hL M.L (handleResponse s now resp).2.2.2 = 0 := by
  obtain ⟨dg, sg, cg, hog⟩ := getD M s now resp d hl
  rw [handleResponse_eq]
  have hmsg : hL M.L (Handled.msg resp) = 0 := by simp [hL, hl]
  cases hres : (Corr.get s now resp).2.2 with
  | none =>
    dsimp only
    exact ⟨dg, sg, by rw [cg, hmsg]⟩
  | some o =>
    dsimp only
    obtain ⟨hol, hk⟩ := hog o hres
    by_cases hmm : mismatch resp o = true
    · rw [if_pos hmm]
      exact ⟨dg, sg, by rw [cg]; rfl⟩
    · rw [if_neg hmm]
      by_cases hat : attributable resp o = true
      · rw [if_pos hat]
        dsimp only
        obtain ⟨a, b, c, e⟩ := attrOtherD M (Corr.get s now resp).1 now resp o dg hk hol
        exact ⟨a, sg.trans b, by rw [countL_append, cg, c, e]⟩
      · rw [if_neg hat]
        exact ⟨dg, sg, by rw [cg, hmsg]⟩

theorem handleResponseA (M : SegMsg) (w : M.WF) (k : Nat) (s : CState) (now : Nat) (resp : Msg) (a : A G M k s)
    (hl : resp.logId ≠ M.L) (hg : G → M.IsSeq resp.seq → resp.kind = .submitSmResp ∨ resp.kind = .genericNack) :
    (handleResponse s now resp).1.ttlResp = s.ttlResp ∧
    ((A G M k (handleResponse s now resp).1 ∧
        countL M.L (handleResponse s now resp).2.1 + hL M.L (handleResponse s now resp).2.2.2 = 0 ∧
        (G → Pend M k s → Pend M k (handleResponse s now resp).1)) ∨
     (D M (handleResponse s now resp).1 ∧
        Cl G (countL M.L (handleResponse s now resp).2.1 + hL M.L (handleResponse s now resp).2.2.2) ∧ M.n ≤ k)) := by
  obtain ⟨tg, rg, hog⟩ := getA M w k s now resp a hl hg
  rw [handleResponse_eq]
  have hmsg : hL M.L (Handled.msg resp) = 0 := by simp [hL, hl]
  have hdrop : hL M.L Handled.dropped = 0 := rfl
  -- when the hook gets the response as it is, or nothing: the outcome count is that of `get`
  have hplain : ∀ h : Handled, hL M.L h = 0 → (G → ((Corr.get s now resp).2.2 = none ∨ ¬ M.IsSeq resp.seq)) →
      ((A G M k (Corr.get s now resp).1 ∧ countL M.L (Corr.get s now resp).2.1 + hL M.L h = 0 ∧
          (G → Pend M k s → Pend M k (Corr.get s now resp).1)) ∨
       (D M (Corr.get s now resp).1 ∧ Cl G (countL M.L (Corr.get s now resp).2.1 + hL M.L h) ∧ M.n ≤ k)) := by
    intro h hh hcase
    rw [hh, Nat.add_zero]
    rcases rg with ⟨x, y, z⟩ | ⟨x, y, _, z⟩
    · exact Or.inl ⟨x, y, fun g hp => z (hcase g) hp⟩
    · exact Or.inr ⟨x, by rw [y]; exact Cl.one G, z⟩
  cases hres : (Corr.get s now resp).2.2 with
  | none =>
    dsimp only
    exact ⟨tg, hplain _ hmsg (fun _ => Or.inl hres)⟩
  | some o =>
    dsimp only
    -- under `G` a response carrying one of the message's numbers is attributable and not mismatched
    have hgood : G → M.IsSeq resp.seq → mismatch resp o = false ∧ attributable resp o = true := by
      intro g hk
      rcases hog o hres with ⟨hk', _⟩ | ⟨j, _, _, _, hoj, _⟩
      · exact absurd hk hk'
      · subst hoj
        rcases hg g hk with h | h
        · simp [mismatch, attributable, h, requestKindOf, w.kind j, Msg.isSubmitLike]
        · simp [mismatch, attributable, h, w.kind j, Msg.isSubmitLike]
    by_cases hmm : mismatch resp o = true
    · rw [if_pos hmm]
      refine ⟨tg, hplain _ hdrop (fun g => Or.inr (fun hk => ?_))⟩
      rw [(hgood g hk).1] at hmm; cases hmm
    · rw [if_neg hmm]
      by_cases hat : attributable resp o = true
      swap
      · rw [if_neg hat]
        refine ⟨tg, hplain _ hmsg (fun g => Or.inr (fun hk => ?_))⟩
        exact hat (hgood g hk).2
      rw [if_pos hat]
      dsimp only
      rcases hog o hres with ⟨hk, hol⟩ | ⟨j, hj1, hj2, hjs, hoj, hsj, hgj⟩
      · -- a response to another message
        rcases rg with ⟨ag, cg, pg⟩ | ⟨dg, cg, _, hnk⟩
        · obtain ⟨t, r, e⟩ := attrOtherA M w k (Corr.get s now resp).1 now resp o ag hk hol
          refine ⟨t.trans tg, ?_⟩
          rw [countL_append, cg, e, Nat.zero_add, Nat.add_zero]
          rcases r with ⟨x, y, z⟩ | ⟨x, y, z⟩
          · exact Or.inl ⟨x, y, fun _ hp => z (pg (Or.inr hk) hp)⟩
          · exact Or.inr ⟨x, by rw [y]; exact Cl.one G, z⟩
        · obtain ⟨x, y, c, e⟩ := attrOtherD M (Corr.get s now resp).1 now resp o dg hk hol
          refine ⟨y.ttl.trans tg, Or.inr ⟨x, ?_, hnk⟩⟩
          rw [countL_append, c, e, cg]; exact Cl.one G
      · -- the response to one of the message's own segments
        subst hoj
        rcases rg with ⟨ag, cg, _⟩ | ⟨dg, cg, ng, hnk⟩
        · obtain ⟨t, r⟩ := attrM_A M w k (Corr.get s now resp).1 now resp j hj1 hj2 hjs ag hsj hgj
          refine ⟨t.trans tg, ?_⟩
          rw [countL_append, cg, Nat.zero_add]
          rcases r with ⟨x, y, z⟩ | r
          · exact Or.inl ⟨x, y, fun _ _ => z⟩
          · exact Or.inr r
        · obtain ⟨x, t, c, e⟩ := attrM_D M w (Corr.get s now resp).1 now resp j hj1 hj2 hjs dg ng
          refine ⟨t.trans tg, Or.inr ⟨x, ?_, hnk⟩⟩
          rw [countL_append, c, e, cg]; exact Cl.one G

/-! ### inbound deliver_sm that is not a receipt (it runs the same sweeps) -/

theorem handleDeliverD (M : SegMsg) (s : CState) (now : Nat) (dm : Msg) (d : D M s) (hr : dm.isReceipt = false) :
    D M (handleDeliver s now dm).1 ∧ SameM M s (handleDeliver s now dm).1 ∧
      countL M.L (handleDeliver s now dm).2.1 = 0 := by
  unfold handleDeliver
  rw [hr]
  simp only [Bool.false_eq_true, if_false]
  split
  · dsimp only
    unfold putDeliverySegmented
    split
    · have d0 : D M (dropSeg s dm.sarRef) := d.of_same (d.quiet.congr rfl rfl rfl) (SameM.of_eq rfl rfl rfl rfl)
      obtain ⟨a, b, c⟩ := removeExpiredD M _ now d0
      exact ⟨a, (SameM.of_eq (M := M) (s := s) (s' := dropSeg s dm.sarRef) rfl rfl rfl rfl).trans b, c⟩
    · have d0 : D M (storeSeg s dm.sarRef now (nextSegs s dm)) :=
        d.of_same (d.quiet.congr rfl rfl rfl) (SameM.of_eq rfl rfl rfl rfl)
      obtain ⟨a, b, c⟩ := removeExpiredD M _ now d0
      exact ⟨a, (SameM.of_eq (M := M) (s := s) (s' := storeSeg s dm.sarRef now (nextSegs s dm)) rfl rfl rfl rfl).trans b, c⟩
  · exact ⟨d, SameM.refl M s, by simp [countL]⟩

theorem handleDeliverA (M : SegMsg) (w : M.WF) (k : Nat) (s : CState) (now : Nat) (dm : Msg) (a : A G M k s)
    (hr : dm.isReceipt = false) :
    (handleDeliver s now dm).1.ttlResp = s.ttlResp ∧
    ((A G M k (handleDeliver s now dm).1 ∧ countL M.L (handleDeliver s now dm).2.1 = 0 ∧
       (Pend M k s → Pend M k (handleDeliver s now dm).1)) ∨
     (D M (handleDeliver s now dm).1 ∧ countL M.L (handleDeliver s now dm).2.1 = 1 ∧ M.n ≤ k)) := by
  unfold handleDeliver
  rw [hr]
  simp only [Bool.false_eq_true, if_false]
  split
  · dsimp only
    unfold putDeliverySegmented
    split
    · have s0 : SameM M s (dropSeg s dm.sarRef) := SameM.of_eq rfl rfl rfl rfl
      have a0 : A G M k (dropSeg s dm.sarRef) := a.of_same (a.quiet.congr rfl rfl rfl) s0
      obtain ⟨t, _, r⟩ := removeExpiredA M w k _ now a0
      refine ⟨t, ?_⟩
      rcases r with ⟨x, y, z⟩ | ⟨x, y, _, z⟩
      · exact Or.inl ⟨x, y, fun hp => z (Pend.of_same s0 hp)⟩
      · exact Or.inr ⟨x, y, z⟩
    · have s0 : SameM M s (storeSeg s dm.sarRef now (nextSegs s dm)) := SameM.of_eq rfl rfl rfl rfl
      have a0 : A G M k (storeSeg s dm.sarRef now (nextSegs s dm)) := a.of_same (a.quiet.congr rfl rfl rfl) s0
      obtain ⟨t, _, r⟩ := removeExpiredA M w k _ now a0
      refine ⟨t, ?_⟩
      rcases r with ⟨x, y, z⟩ | ⟨x, y, _, z⟩
      · exact Or.inl ⟨x, y, fun hp => z (Pend.of_same s0 hp)⟩
      · exact Or.inr ⟨x, y, z⟩
  · exact ⟨rfl, Or.inl ⟨a, by simp [countL], fun hp => hp⟩⟩

/-! ### histories -/

theorem putTail_store (s1 : CState) (now : Nat) (m : Msg) : aget (putTail s1 now m).store m.seq = some (now, m) := by
  unfold putTail
  dsimp only
  split <;> exact aget_aset_same _ _ _

theorem pend_after_put (M : SegMsg) (s : CState) (now j : Nat) (h1 : 1 ≤ j) (h2 : j ≤ M.n) :
    Pend M j (put s now (M.x j)).1 := by
  refine ⟨j, h1, h2, Or.inr ?_⟩
  rw [put_eq]
  dsimp only
  rw [putTail_store]
  simp

/-- the rest of the traffic as seen from the message: requests with other sequence numbers, other log ids and —
    when they are segments — another reference number; PDUs from the wire carry no log id; deliver_sm that are
    not delivery receipts (receipts are C02's subject) -/
def CleanS (M : SegMsg) : Op → Prop
  | .put _ m' => ¬ M.IsSeq m'.seq ∧ m'.logId ≠ M.L ∧ (m'.sarTotal > 0 → m'.sarRef ≠ M.r)
  | .resp _ r => r.logId ≠ M.L
  | .deliver _ d => d.isReceipt = false

/-- a response carrying the number of one of the message's segments is a submit_sm_resp or a generic_nack -/
def GoodS (M : SegMsg) : Op → Prop
  | .resp _ r => M.IsSeq r.seq → r.kind = .submitSmResp ∨ r.kind = .genericNack
  | _ => True

/-- `ops` is other traffic into which the message's segments `j, j+1, …, n` are woven in this order, each stored
    at any time -/
inductive Weave (M : SegMsg) : Nat → List Op → Prop
  | done (j : Nat) (ops : List Op) : M.n < j → (∀ op ∈ ops, CleanS M op) → Weave M j ops
  | other (j : Nat) (op : Op) (ops : List Op) : CleanS M op → Weave M j ops → Weave M j (op :: ops)
  | seg (j t : Nat) (ops : List Op) : j ≤ M.n → Weave M (j + 1) ops → Weave M j (Op.put t (M.x j) :: ops)

theorem stepD (M : SegMsg) (s : CState) (op : Op) (d : D M s) (hc : CleanS M op) :
    D M (stepOp s op).1 ∧ SameM M s (stepOp s op).1 ∧ outcomes M.L (stepOp s op).2 = 0 := by
  cases op with
  | put now m' =>
    obtain ⟨a, b, c⟩ := putOtherD M s now m' d hc.1 hc.2.1 hc.2.2
    exact ⟨a, b, by simpa [stepOp, outcomes] using c⟩
  | resp now r =>
    obtain ⟨a, b, c⟩ := handleResponseD M s now r d hc
    exact ⟨a, b, by simpa [stepOp, outcomes] using c⟩
  | deliver now dm =>
    obtain ⟨a, b, c⟩ := handleDeliverD M s now dm d hc
    exact ⟨a, b, by simpa [stepOp, outcomes] using c⟩

theorem stepA (M : SegMsg) (w : M.WF) (k : Nat) (s : CState) (op : Op) (a : A G M k s) (hc : CleanS M op)
    (hg : G → GoodS M op) :
    (A G M k (stepOp s op).1 ∧ outcomes M.L (stepOp s op).2 = 0 ∧ (G → Pend M k s → Pend M k (stepOp s op).1)) ∨
    (D M (stepOp s op).1 ∧ Cl G (outcomes M.L (stepOp s op).2) ∧ M.n ≤ k) := by
  cases op with
  | put now m' =>
    obtain ⟨_, r⟩ := putOtherA M w k s now m' a hc.1 hc.2.1 hc.2.2
    rcases r with ⟨x, y, z⟩ | ⟨x, y, z⟩
    · exact Or.inl ⟨x, by simpa [stepOp, outcomes] using y, fun _ => z⟩
    · refine Or.inr ⟨x, ?_, z⟩
      have : outcomes M.L (stepOp s (Op.put now m')).2 = 1 := by simpa [stepOp, outcomes] using y
      rw [this]; exact Cl.one G
  | resp now r =>
    obtain ⟨_, r'⟩ := handleResponseA M w k s now r a hc hg
    rcases r' with ⟨x, y, z⟩ | ⟨x, y, z⟩
    · exact Or.inl ⟨x, by simpa [stepOp, outcomes] using y, z⟩
    · exact Or.inr ⟨x, by simpa [stepOp, outcomes] using y, z⟩
  | deliver now dm =>
    obtain ⟨_, r⟩ := handleDeliverA M w k s now dm a hc
    rcases r with ⟨x, y, z⟩ | ⟨x, y, z⟩
    · exact Or.inl ⟨x, by simpa [stepOp, outcomes] using y, fun _ => z⟩
    · refine Or.inr ⟨x, ?_, z⟩
      have : outcomes M.L (stepOp s (Op.deliver now dm)).2 = 1 := by simpa [stepOp, outcomes] using y
      rw [this]; exact Cl.one G

/-- after the message is closed nothing more is reported for it -/
theorem runD (M : SegMsg) : ∀ (ops : List Op) (s : CState), D M s → (∀ op ∈ ops, CleanS M op) →
    (runOps M.L s ops).2 = 0
  | [], _, _, _ => rfl
  | op :: ops, s, d, hc => by
    obtain ⟨d1, _, c1⟩ := stepD M s op d (hc op (by simp))
    have := runD M ops _ d1 (fun o ho => hc o (by simp [ho]))
    simp only [runOps, c1, this]

theorem weave_clean_of_done (M : SegMsg) : ∀ (j : Nat) (ops : List Op), Weave M j ops → M.n < j →
    ∀ op ∈ ops, CleanS M op := by
  intro j ops hw
  induction hw with
  | done j ops _ h => intro _; exact h
  | other j op ops hc _ ih =>
    intro hj o ho
    rcases List.mem_cons.mp ho with rfl | h
    · exact hc
    · exact ih hj o h
  | seg j t ops hjn _ _ => intro hj; omega

/-- none of the message's segments is in the request store -/
def AllGone (M : SegMsg) (s : CState) : Prop := ∀ i, 1 ≤ i → i ≤ M.n → aget s.store (M.x i).seq = none

/-- what a history reports for the message: at most one outcome, and exactly one if at its end no segment is
    outstanding (given proper response types) -/
def Ledger (G : Prop) (M : SegMsg) (r : CState × Nat) : Prop := r.2 ≤ 1 ∧ (G → AllGone M r.1 → r.2 = 1)

theorem Ledger.shift {M : SegMsg} {r : CState × Nat} (h : Ledger G M r) (c : Nat) (hc : c = 0) :
    Ledger G M (r.1, c + r.2) := by
  subst hc
  simpa [Ledger] using h

/-- open phase: `k` segments stored, the rest of the history weaves in segments `k+1 …` -/
theorem runA (M : SegMsg) (w : M.WF) : ∀ (ops : List Op) (k : Nat) (s : CState), 1 ≤ k → A G M k s →
    (G → Pend M k s) → Weave M (k + 1) ops → (G → ∀ op ∈ ops, GoodS M op) → Ledger G M (runOps M.L s ops)
  | [], k, s, _, _, hp, hw, _ => by
    refine ⟨by simp [runOps], ?_⟩
    intro g hall
    exfalso
    have hnk : M.n ≤ k := by
      cases hw with
      | done _ _ hj _ => omega
    obtain ⟨i, hi1, hi2, hi⟩ := hp g
    rcases hi with hi | hi
    · omega
    · exact hi (hall i hi1 hi2)
  | op :: ops, k, s, hk, a, hp, hw, hg => by
    have hg' : G → ∀ o ∈ ops, GoodS M o := fun g o ho => hg g o (by simp [ho])
    have hgo : G → GoodS M op := fun g => hg g op (by simp)
    cases hw with
    | done _ _ hj h =>
      rcases stepA M w k s op a (h op (by simp)) hgo with ⟨a1, c1, p1⟩ | ⟨d1, c1, _⟩
      · have := runA M w ops k _ hk a1 (fun g => p1 g (hp g)) (Weave.done (k + 1) ops hj (fun o ho => h o (by simp [ho]))) hg'
        simpa only [runOps, c1, Nat.zero_add] using this
      · have h0 := runD M ops _ d1 (fun o ho => h o (by simp [ho]))
        refine ⟨?_, fun g _ => ?_⟩
        · simp only [runOps, h0]; have := c1.1; omega
        · simp only [runOps, h0]; have := c1.2 g; omega
    | other _ _ _ hc hrest =>
      rcases stepA M w k s op a hc hgo with ⟨a1, c1, p1⟩ | ⟨d1, c1, hnk⟩
      · have := runA M w ops k _ hk a1 (fun g => p1 g (hp g)) hrest hg'
        simpa only [runOps, c1, Nat.zero_add] using this
      · have hcl := weave_clean_of_done M (k + 1) ops hrest (by omega)
        have h0 := runD M ops _ d1 hcl
        refine ⟨?_, fun g _ => ?_⟩
        · simp only [runOps, h0]; have := c1.1; omega
        · simp only [runOps, h0]; have := c1.2 g; omega
    | seg _ t _ hjn hrest =>
      obtain ⟨a1, c1, _⟩ := putNext M w k s t a hk (by omega)
      have hp1 : Pend M (k + 1) (put s t (M.x (k + 1))).1 := pend_after_put M s t (k + 1) (by omega) hjn
      have := runA M w ops (k + 1) _ (by omega) a1 (fun _ => hp1) hrest hg'
      have hc : outcomes M.L (stepOp s (Op.put t (M.x (k + 1)))).2 = 0 := by
        simpa [stepOp, outcomes] using c1
      simp only [runOps]
      exact Ledger.shift this _ hc

/-- before the first segment is stored -/
theorem runB (G : Prop) (M : SegMsg) (w : M.WF) : ∀ (ops : List Op) (s : CState), D M s → aget s.segStatus M.r = none →
    Weave M 1 ops → (G → ∀ op ∈ ops, GoodS M op) → Ledger G M (runOps M.L s ops)
  | [], _, _, _, hw, _ => by
    exfalso
    have := w.npos
    cases hw with
    | done _ _ hj _ => omega
  | op :: ops, s, d, hn, hw, hg => by
    have hg' : G → ∀ o ∈ ops, GoodS M o := fun g o ho => hg g o (by simp [ho])
    cases hw with
    | done _ _ hj h =>
      exfalso
      have := w.npos
      omega
    | other _ _ _ hc hrest =>
      obtain ⟨d1, s1, c1⟩ := stepD M s op d hc
      have := runB G M w ops _ d1 (by rw [s1.stat]; exact hn) hrest hg'
      simpa only [runOps, c1, Nat.zero_add] using this
    | seg _ t _ hjn hrest =>
      obtain ⟨a1, c1, _⟩ := putFirst (G := G) M w s t d hn
      have hp1 : Pend M 1 (put s t (M.x 1)).1 := pend_after_put M s t 1 (Nat.le_refl 1) hjn
      have := runA M w ops 1 _ (Nat.le_refl 1) a1 (fun _ => hp1) hrest hg'
      have hc : outcomes M.L (stepOp s (Op.put t (M.x 1))).2 = 0 := by
        simpa [stepOp, outcomes] using c1
      simp only [runOps]
      exact Ledger.shift this _ hc

theorem init_D (M : SegMsg) (ttlR ttlD : Nat) : D M (initState ttlR ttlD) ∧ aget (initState ttlR ttlD).segStatus M.r = none :=
  ⟨⟨⟨fun k v _ hv => by simp [initState, aget] at hv, fun k p _ hp => by simp [initState, aget] at hp,
     fun r' st _ hst => by simp [initState, aget] at hst⟩,
    fun i p _ _ hp => by simp [initState, aget] at hp, fun _ _ => rfl⟩, rfl⟩

/-- HISTORY-LEVEL LEDGER for a segmented message. -/
theorem seg_ledger (M : SegMsg) (w : M.WF) (ttlR ttlD : Nat) (ops : List Op) (hw : Weave M 1 ops) :
    (runOps M.L (initState ttlR ttlD) ops).2 ≤ 1 ∧
    ((∀ op ∈ ops, GoodS M op) → AllGone M (runOps M.L (initState ttlR ttlD) ops).1 →
      (runOps M.L (initState ttlR ttlD) ops).2 = 1) :=
  runB (∀ op ∈ ops, GoodS M op) M w ops _ (init_D M ttlR ttlD).1 (init_D M ttlR ttlD).2 hw (fun g => g)

end SmppVerif.Lemmas.SegHistory
