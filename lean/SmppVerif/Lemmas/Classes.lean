/- Which exception classes the decoder model can raise (C05): every error of `decode` is one the
   receive handlers catch.  Compositional: `Safe x` = every error of `x` is caught. -/
import SmppVerif.Model.PduDecode
import SmppVerif.Model.Receipt
import SmppVerif.Model.Receiver

namespace SmppVerif.Lemmas.Classes
open SmppVerif SmppVerif.Pdu

/-- classes caught by `except (ValueError, LookupError, StructError)` in _handle_request /
    _handle_response (UnicodeError ⊂ ValueError; KeyError, IndexError ⊂ LookupError).
    `runtimeError` is the model's stand-in for a text codec outside the model (CJK, ISO-8859-x …):
    CPython codecs raise UnicodeDecodeError there, a ValueError. -/
def Caught : Exc → Prop
  | .valueError | .unicodeEncodeError | .unicodeDecodeError | .structError
  | .keyError | .indexError | .lookupError | .runtimeError => True
  | _ => False

instance : DecidablePred Caught := fun e => by cases e <;> unfold Caught <;> infer_instance

def Safe {α : Type} (x : Except Exc α) : Prop := ∀ e, x = .error e → Caught e

theorem safe_ok {α} (a : α) : Safe (Except.ok a : Except Exc α) := fun _ h => by cases h
theorem safe_pure {α} (a : α) : Safe (pure a : Except Exc α) := fun _ h => by cases h
theorem safe_err {α} (e : Exc) (h : Caught e) : Safe (Except.error e : Except Exc α) :=
  fun e' h' => by cases h'; exact h

theorem safe_bind {α β} (x : Except Exc α) (f : α → Except Exc β) (hx : Safe x) (hf : ∀ a, Safe (f a)) :
    Safe (x >>= f) := by
  intro e h
  cases x with
  | error e' => exact hx e (by simpa [bind, Except.bind] using h)
  | ok a => exact hf a e (by simpa [bind, Except.bind] using h)

theorem safe_map {α β} (x : Except Exc α) (f : α → β) (hx : Safe x) : Safe (x.map f) := by
  intro e h
  cases x with
  | error e' => exact hx e (by simpa [Except.map] using h)
  | ok a => simp [Except.map] at h

theorem safe_fmap {α β} (x : Except Exc α) (f : α → β) (hx : Safe x) : Safe (f <$> x) :=
  safe_map x f hx

theorem safe_unpackU (w : Nat) (b : List Nat) (o : Nat) : Safe (unpackU w b o) := by
  unfold unpackU; split
  · exact safe_ok _
  · exact safe_err _ trivial

theorem safe_decodeAscii (b : List Nat) : Safe (decodeAsciiStrict b) := by
  unfold decodeAsciiStrict; split
  · exact safe_ok _
  · exact safe_err _ trivial

theorem safe_parseHeader (b : List Nat) : Safe (parseHeader b) := by
  unfold parseHeader
  split
  · split
    · exact safe_err _ trivial
    · split
      · exact safe_err _ trivial
      · exact safe_ok _
  · exact safe_err _ trivial

theorem safe_indexNul (p : List Nat) (i : Nat) : Safe (indexNul p i) := by
  unfold indexNul
  split
  · split
    · exact safe_ok _
    · exact safe_err _ trivial
  · exact safe_err _ trivial

theorem safe_getCStr (p : List Nat) (i : Nat) : Safe (getCStr p i) := by
  unfold getCStr
  split
  · rename_i e he; exact safe_err _ (safe_indexNul p i e he)
  · split
    · rename_i x hx; exact safe_err _ (safe_decodeAscii _ x hx)
    · exact safe_ok _

theorem safe_getInt (p : List Nat) (i c : Nat) : Safe (getInt p i c) := by
  unfold getInt
  split
  · exact safe_map _ _ (safe_unpackU _ _ _)
  · exact safe_err _ trivial

theorem safe_getOctetStr (p : List Nat) (i c : Nat) : Safe (getOctetStr p i c) := by
  unfold getOctetStr
  split
  · rename_i e he; exact safe_err _ (safe_decodeAscii _ e he)
  · exact safe_ok _

theorem safe_checkLen (s : List Nat) (m : Nat) : Safe (checkLen s m) := by
  unfold checkLen; split
  · exact safe_ok _
  · exact safe_err _ trivial

theorem safe_enumVal (t : List (String × Nat)) (v : Nat) : Safe (enumVal t v) := by
  unfold enumVal; split
  · exact safe_ok _
  · exact safe_err _ trivial

theorem safe_encOfDataCoding (v : Nat) : Safe (encOfDataCoding v) := by
  unfold encOfDataCoding
  repeat' split
  all_goals first | exact safe_ok _ | exact safe_err _ trivial

/-! ### text codecs -/

theorem safe_gsm_decodeLoop (mode : Mode) : ∀ (bs : List Nat) (esc : Bool), Safe (Gsm.decodeLoop mode esc bs)
  | [], esc => by
    unfold Gsm.decodeLoop
    split
    · cases mode
      · exact safe_err _ trivial
      · exact safe_ok _
      · exact safe_ok _
    · exact safe_ok _
  | b :: bs, esc => by
    rw [Gsm.decodeLoop.eq_def]
    simp only
    split
    · exact safe_gsm_decodeLoop mode bs true
    · split
      · have ih := safe_gsm_decodeLoop mode bs false
        split
        · rename_i e he; exact safe_err _ (ih e he)
        · exact safe_ok _
      · cases mode
        · exact safe_err _ trivial
        · simp only
          exact safe_gsm_decodeLoop .ignore bs false
        · simp only
          have ih := safe_gsm_decodeLoop .replace bs false
          split
          · rename_i e he; exact safe_err _ (ih e he)
          · exact safe_ok _

theorem safe_packed_decodeSeptets (mode : Mode) : ∀ (ss : List Nat) (esc : Bool), Safe (Packed.decodeSeptets mode esc ss)
  | [], esc => by
    unfold Packed.decodeSeptets
    split
    · cases mode
      · exact safe_err _ trivial
      · exact safe_ok _
      · exact safe_ok _
    · exact safe_ok _
  | s :: ss, esc => by
    rw [Packed.decodeSeptets.eq_def]
    simp only
    split
    · exact safe_packed_decodeSeptets mode ss true
    · have ih := safe_packed_decodeSeptets mode ss false
      split
      · rename_i e he; exact safe_err _ (ih e he)
      · exact safe_ok _
    · exact safe_packed_decodeSeptets mode ss false

theorem safe_utf16_decode (mode : Mode) (b : List Nat) : Safe (Utf16.decode mode b) := by
  fun_induction Utf16.decode mode b <;> (try subst_vars) <;>
    first
      | exact safe_ok _
      | exact safe_err _ trivial
      | (apply safe_map; assumption)
      | assumption

theorem safe_codecDecode (c : Codec) (b : List Nat) : Safe (codecDecode c b) := by
  cases c <;> simp only [codecDecode]
  · exact safe_gsm_decodeLoop .strict b false
  · exact safe_packed_decodeSeptets .strict _ false
  · exact safe_utf16_decode .strict b
  · exact safe_decodeAscii b
  · exact safe_ok _
  · exact safe_err _ trivial
  · exact safe_err _ trivial

/-! ### message text with a user data header, optional parameters -/

theorem safe_udhLoop (raw : List Nat) (udhLen : Nat) : ∀ (fuel ind : Nat) (acc : Option (Nat × Nat × Nat)),
    Safe (udhLoop raw udhLen fuel ind acc)
  | 0, _, _ => safe_ok _
  | fuel + 1, ind, acc => by
    unfold udhLoop
    repeat' (first | split | (dsimp only; split))
    all_goals first
      | exact safe_udhLoop raw udhLen fuel _ _
      | exact safe_ok _
      | exact safe_err .structError trivial

theorem safe_decodeMessage (esm : Nat) (codec : Codec) (raw : List Nat) : Safe (decodeMessage esm codec raw) := by
  unfold decodeMessage
  split
  · split
    · rename_i e he; exact safe_err _ (safe_unpackU _ _ _ e he)
    · split
      · rename_i e he; exact safe_err _ (safe_udhLoop _ _ _ _ _ e he)
      · split
        · rename_i e he; exact safe_err _ (safe_codecDecode _ _ e he)
        · split <;> exact safe_ok _
  · exact safe_map _ _ (safe_codecDecode _ _)

theorem safe_tlvLoop (pdu : List Nat) (pl esm : Nat) (codec : Codec) :
    ∀ (fuel index : Nat) (payload : List Nat) (acc : List Tlv), Safe (tlvLoop pdu pl esm codec fuel index payload acc)
  | 0, _, _, _ => safe_ok _
  | fuel + 1, index, payload, acc => by
    unfold tlvLoop
    split
    · split
      · rename_i e he; exact safe_err _ (safe_getInt _ _ _ e he)
      · split
        · rename_i e he; exact safe_err _ (safe_getInt _ _ _ e he)
        · split
          · split
            · rename_i e he; exact safe_err _ (safe_decodeMessage _ _ _ e he)
            · exact safe_tlvLoop pdu pl esm codec fuel _ _ _
          · split
            · split
              · rename_i e he; exact safe_err _ (safe_getInt _ _ _ e he)
              · exact safe_tlvLoop pdu pl esm codec fuel _ _ _
            · exact safe_tlvLoop pdu pl esm codec fuel _ _ _
            · split
              · rename_i e he; exact safe_err _ (safe_getOctetStr _ _ _ e he)
              · exact safe_tlvLoop pdu pl esm codec fuel _ _ _
    · exact safe_ok _

/-! ### SMPP time strings -/

open SmppVerif.Time in
theorem parseDigits_bound : ∀ (l : List Nat) (acc v : Nat), parseDigits l acc = some v →
    v < (acc + 1) * 10 ^ l.length
  | [], acc, v, h => by simp [parseDigits] at h; subst h; simp
  | c :: rest, acc, v, h => by
    unfold parseDigits at h
    split at h
    · rename_i hd
      have := parseDigits_bound rest _ v h
      have hc : c - 48 ≤ 9 := by simp [isDigit] at hd; omega
      calc v < (acc * 10 + (c - 48) + 1) * 10 ^ rest.length := this
        _ ≤ ((acc + 1) * 10) * 10 ^ rest.length := Nat.mul_le_mul_right _ (by omega)
        _ = (acc + 1) * 10 ^ (c :: rest).length := by rw [List.length_cons, Nat.pow_succ, Nat.mul_assoc, Nat.mul_comm 10]
    · split at h
      · cases rest with
        | nil => simp at h
        | cons d rest' =>
          simp only at h
          split at h
          · rename_i hd
            have := parseDigits_bound rest' _ v h
            have hc : d - 48 ≤ 9 := by simp [isDigit] at hd; omega
            calc v < (acc * 10 + (d - 48) + 1) * 10 ^ rest'.length := this
              _ ≤ ((acc + 1) * 10) * 10 ^ rest'.length := Nat.mul_le_mul_right _ (by omega)
              _ = (acc + 1) * 10 ^ (rest'.length + 1) := by rw [Nat.pow_succ, Nat.mul_assoc, Nat.mul_comm 10]
              _ ≤ (acc + 1) * 10 ^ (c :: d :: rest').length := by
                  apply Nat.mul_le_mul_left
                  apply Nat.pow_le_pow_right (by decide)
                  simp
          · cases h
      · cases h

open SmppVerif.Time in
theorem stripLeft_length (s : List Nat) : (stripLeft s).length ≤ s.length := by
  induction s with
  | nil => simp [stripLeft]
  | cons c rest ih => unfold stripLeft; split <;> simp <;> omega

open SmppVerif.Time in
theorem strip_length (s : List Nat) : (strip s).length ≤ s.length := by
  unfold strip
  rw [List.length_reverse]
  exact Nat.le_trans (stripLeft_length _) (by rw [List.length_reverse]; exact stripLeft_length s)

open SmppVerif.Time in
theorem safe_pyInt (s : List Nat) : Safe (pyInt s) := by
  unfold pyInt pyIntBody
  repeat' split
  all_goals first | exact safe_ok _ | exact safe_err .valueError trivial

open SmppVerif.Time in
theorem body_bound (body : List Nat) (neg : Bool) (v : Int) (h : pyIntBody neg body = .ok v) :
    v.natAbs < 10 ^ body.length := by
  unfold pyIntBody at h
  cases body with
  | nil => simp at h
  | cons c rest =>
    simp only at h
    split at h
    · rename_i hd
      split at h
      · rename_i v' hv
        have hb := parseDigits_bound rest _ v' hv
        have hc : c - 48 ≤ 9 := by simp [isDigit] at hd; omega
        have : v' < 10 ^ (c :: rest).length := by
          calc v' < (c - 48 + 1) * 10 ^ rest.length := hb
            _ ≤ 10 * 10 ^ rest.length := Nat.mul_le_mul_right _ (by omega)
            _ = 10 ^ (c :: rest).length := by rw [List.length_cons, Nat.pow_succ, Nat.mul_comm]
        cases h
        cases neg <;> simp <;> omega
      · cases h
    · cases h

open SmppVerif.Time in
theorem signSplit_len (t : List Nat) : (signSplit t).2.length ≤ t.length := by
  unfold signSplit; split <;> simp

open SmppVerif.Time in
theorem pyInt_bound (s : List Nat) (v : Int) (h : pyInt s = .ok v) : v.natAbs < 10 ^ s.length := by
  unfold pyInt at h
  have := body_bound _ _ v h
  exact Nat.lt_of_lt_of_le this
    (Nat.pow_le_pow_right (by decide) (Nat.le_trans (signSplit_len _) (strip_length s)))

open SmppVerif.Time in
theorem slice_len (s : List Nat) (i j : Nat) : (Time.slice s i j).length ≤ j - i := by
  unfold Time.slice; simp; omega

open SmppVerif.Time in
theorem pyInt2 (s : List Nat) (i : Nat) (v : Int) (h : pyInt (Time.slice s i (i + 2)) = .ok v) : v.natAbs < 100 := by
  have := pyInt_bound _ v h
  have hl := slice_len s i (i + 2)
  have : (10 : Nat) ^ (Time.slice s i (i + 2)).length ≤ 10 ^ 2 := Nat.pow_le_pow_right (by decide) (by omega)
  omega

open SmppVerif.Time in
theorem safe_mkDelta (days secs : Int) (hd : days.natAbs ≤ 100000) (hs : secs.natAbs ≤ 1000000) :
    Safe (mkDelta days secs) := by
  unfold mkDelta
  dsimp only
  split
  · rename_i h
    exfalso
    omega
  · exact safe_ok _

open SmppVerif.Time in
theorem safe_fromTimezone (s : List Nat) : Safe (fromTimezone s) := by
  unfold fromTimezone
  split
  · exact safe_ok _
  · dsimp only
    split
    · rename_i e he; exact safe_err _ (safe_pyInt _ e he)
    · split
      · rename_i e he; exact safe_err _ (safe_pyInt _ e he)
      · exact safe_ok _

open SmppVerif.Time in
theorem safe_fromSmpp (s : List Nat) : Safe (fromSmpp s) := by
  unfold fromSmpp
  split
  · exact safe_ok _
  · split
    · rename_i y mo d h mi sc hy hmo hd hh hmi hsc
      split
      · have b1 := pyInt2 s 0 y hy
        have b2 := pyInt2 s 2 mo hmo
        have b3 := pyInt2 s 4 d hd
        have b4 := pyInt2 s 6 h hh
        have b5 := pyInt2 s 8 mi hmi
        have b6 := pyInt2 s 10 sc hsc
        apply safe_mkDelta <;> omega
      · split
        · rename_i e he; exact safe_err _ (safe_pyInt _ e he)
        · split
          · rename_i e he; exact safe_err _ (safe_pyInt _ e he)
          · dsimp only
            split
            · rename_i e he; exact safe_err _ (safe_fromTimezone _ e he)
            · split
              · exact safe_ok _
              · exact safe_err _ trivial
    all_goals (intro e' h'; cases h'; exact safe_pyInt _ _ (by assumption))

/-! ### from_pdu -/

theorem safe_smValidate (m : Sm) : Safe (smValidate m) := by
  unfold smValidate
  repeat' split
  all_goals first | exact safe_ok _ | exact safe_err .valueError trivial

theorem safe_ite {α} (c : Prop) [Decidable c] (a b : Except Exc α) (ha : Safe a) (hb : Safe b) :
    Safe (if c then a else b) := by split <;> assumption

macro "safe_step" : tactic => `(tactic| first
  | exact safe_pure _
  | exact safe_ok _
  | exact safe_getCStr _ _
  | exact safe_getInt _ _ _
  | exact safe_enumVal _ _
  | exact safe_checkLen _ _
  | exact safe_encOfDataCoding _
  | exact safe_decodeMessage _ _ _
  | exact safe_tlvLoop _ _ _ _ _ _ _ _
  | exact safe_fromSmpp _
  | exact safe_smValidate _
  | exact safe_unpackU _ _ _
  | exact safe_indexNul _ _
  | exact safe_decodeAscii _
  | exact safe_err _ trivial
  | apply safe_bind
  | apply safe_map
  | apply safe_fmap
  | apply safe_ite
  | intro _
  | split)

theorem safe_smFromPdu (pdu : List Nat) (h : Header) (dflt : Enc) : Safe (smFromPdu pdu h dflt) := by
  unfold smFromPdu
  repeat' safe_step

theorem safe_bindFromPdu (pdu : List Nat) (h : Header) : Safe (bindFromPdu pdu h) := by
  unfold bindFromPdu
  repeat' safe_step

theorem safe_bindRespFromPdu (pdu : List Nat) (h : Header) : Safe (bindRespFromPdu pdu h) := by
  unfold bindRespFromPdu
  repeat' safe_step

theorem safe_smRespFromPdu (pdu : List Nat) (h : Header) : Safe (smRespFromPdu pdu h) := by
  unfold smRespFromPdu
  repeat' safe_step

theorem safe_fromPdu (pdu : List Nat) (h : Header) (dflt : Enc) : Safe (fromPdu pdu h dflt) := by
  unfold fromPdu
  split <;> first
    | exact safe_map _ _ (safe_smFromPdu _ _ _)
    | exact safe_map _ _ (safe_smRespFromPdu _ _)
    | exact safe_map _ _ (safe_bindFromPdu _ _)
    | exact safe_map _ _ (safe_bindRespFromPdu _ _)
    | exact safe_ok _
    | exact safe_err _ trivial

theorem safe_decode (pdu : List Nat) (dflt : Enc) : Safe (decode pdu dflt) := by
  unfold decode
  split
  · rename_i e he; exact safe_err _ (safe_parseHeader _ e he)
  · exact safe_fromPdu _ _ _

/-! ### receipt text -/

theorem safe_strptime (v : List Nat) : Safe (Receipt.strptime v) := by
  unfold Receipt.strptime
  repeat' (first | split | (dsimp only; split))
  all_goals first | exact safe_ok _ | exact safe_err .valueError trivial

theorem safe_convert (k v : List Nat) : Safe (Receipt.convert k v) := by
  unfold Receipt.convert
  split
  · exact safe_map _ _ (safe_pyInt _)
  · split
    · exact safe_strptime _
    · exact safe_ok _

theorem safe_scanLoop : ∀ (fuel : Nat) (rest : List Nat) (acc : Receipt.RDict), Safe (Receipt.scanLoop fuel rest acc)
  | 0, _, _ => safe_ok _
  | fuel + 1, rest, acc => by
    unfold Receipt.scanLoop
    split
    · exact safe_ok _
    · split
      · rename_i e he; exact safe_err _ (safe_convert _ _ e he)
      · exact safe_scanLoop fuel _ _

theorem safe_receipt_parse (esm : Nat) (text : List Nat) (tlv : Option (List Nat)) : Safe (Receipt.parse esm text tlv) := by
  unfold Receipt.parse
  split
  · exact safe_ok _
  · split
    · rename_i e he; exact safe_err _ (safe_scanLoop _ _ _ e he)
    · exact safe_ok _

open SmppVerif.Receiver in
theorem safe_parseBody (pdu : List Nat) (h : Header) (dflt : Enc) : Safe (parseBody pdu h dflt) := by
  unfold parseBody
  split
  · rename_i e he; exact safe_err _ (safe_fromPdu _ _ _ e he)
  · split
    · rename_i e he; exact safe_err _ (safe_receipt_parse _ _ _ e he)
    · exact safe_ok _
  · exact safe_ok _

/-! ### the handlers absorb every class the decoder can raise -/

open SmppVerif.Receiver in
/-- every class the decoder model raises — apart from the stand-in for codecs outside the model —
    is an instance of a class named in the handlers' except clauses (regenerated from esme.py) -/
theorem caught_by_handlers : ∀ e : Exc, Caught e → e ≠ .runtimeError →
    caughtBy Gen.Catch.handleRequest e = true ∧ caughtBy Gen.Catch.handleResponse e = true := by
  intro e h hne
  cases e <;> simp only [Caught] at h <;> first | exact absurd rfl hne | decide +kernel

open SmppVerif.Receiver in
/-- `_get_pdu` hands parse_header exactly the 16 octets readexactly returned: the only failure is
    ValueError (unknown command id or status), which `_end_task` tolerates and the connect cycle of
    start() turns into a reconnect -/
theorem header_errors_tolerated (b : List Nat) (hb : 16 ≤ b.length) (e : Exc) (h : parseHeader b = .error e) :
    e = .valueError ∧ caughtBy Gen.Catch.endTask e = true ∧ caughtBy Gen.Catch.startCycle e = true := by
  unfold parseHeader at h
  split at h
  · split at h
    · cases h; exact ⟨rfl, by decide +kernel⟩
    · split at h
      · cases h; exact ⟨rfl, by decide +kernel⟩
      · cases h
  · rename_i hno
    exfalso
    have u : ∀ o, o + 4 ≤ 16 → ∃ v, unpackU 4 b o = .ok v := by
      intro o ho
      unfold unpackU
      rw [if_pos (by omega)]
      exact ⟨_, rfl⟩
    obtain ⟨v0, h0⟩ := u 0 (by decide)
    obtain ⟨v4, h4⟩ := u 4 (by decide)
    obtain ⟨v8, h8⟩ := u 8 (by decide)
    obtain ⟨v12, h12⟩ := u 12 (by decide)
    exact hno v0 v4 v8 v12 h0 h4 h8 h12

end SmppVerif.Lemmas.Classes
