/- Reading optional parameters back from a buffer laid out as SMPP 3.4 §5.3 prescribes (tag, length, value):
   the TLV loop of `from_pdu`, for any list of conformant parameters (C04 decoding direction, C03). -/
import SmppVerif.Lemmas.SmRead

namespace SmppVerif.Lemmas.TlvRead
open SmppVerif SmppVerif.Pdu SmppVerif.Lemmas.Pdu SmppVerif.Lemmas.PduRead SmppVerif.Lemmas.SmRead

/-- one optional parameter on the wire: two octets tag, two octets length, the value -/
def tlvWire (tag : Nat) (val : List Nat) : List Nat :=
  tag / 256 :: tag % 256 :: val.length / 256 :: val.length % 256 :: val

def wire : List (Nat × List Nat) → List Nat
  | [] => []
  | p :: ps => tlvWire p.1 p.2 ++ wire ps

/-- `get_octet_string` strips one trailing NUL -/
def stripNul (s : List Nat) : List Nat := if s.getLast? = some 0 then s.dropLast else s

/-- what `from_pdu` makes of a parameter, by the kind the tag table gives its tag; `none` = not a value the
    specification allows for that tag (wrong width, non-ASCII text, a flag with a value) or message_payload,
    which is not an optional parameter of the message object -/
def readBack (tag : Nat) (val : List Nat) : Option Tlv :=
  if tag = Gen.Tlv.messagePayload then none
  else if (tagInfo tag).1 = 0 then
    (if val.length = 1 ∨ val.length = 2 ∨ val.length = 4 then some ⟨tag, .int (beVal val)⟩ else none)
  else if (tagInfo tag).1 = 2 then (if val = [] then some ⟨tag, .bool true⟩ else none)
  else (if val.all (· < 128) then some ⟨tag, .str (stripNul val)⟩ else none)

/-- a parameter the loop reads back as `t` -/
def ParamOK (p : Nat × List Nat) (t : Tlv) : Prop :=
  p.1 < 65536 ∧ p.2.length < 65536 ∧ readBack p.1 p.2 = some t

theorem cur_int {buf : List Nat} {i n : Nat} {val post : List Nat} (c : Cur buf i (val ++ post))
    (hl : val.length = n) (hn : n = 1 ∨ n = 2 ∨ n = 4) :
    getInt buf i n = .ok (beVal val, i + n) ∧ Cur buf (i + n) post := by
  obtain ⟨pre, rfl, rfl⟩ := c
  refine ⟨?_, pre ++ val, by simp, by simp [hl]⟩
  unfold getInt
  rw [if_pos hn]
  unfold unpackU
  have : pre.length + n ≤ (pre ++ (val ++ post)).length := by simp [hl]
  rw [if_pos this, List.drop_left]
  have : (val ++ post).take n = val := List.take_left' hl
  rw [this]
  rfl

theorem cur_octets {buf : List Nat} {i : Nat} {val post : List Nat} (c : Cur buf i (val ++ post))
    (ha : val.all (· < 128) = true) :
    getOctetStr buf i val.length = .ok (stripNul val, i + val.length) ∧ Cur buf (i + val.length) post := by
  obtain ⟨hs, c'⟩ := cur_slice c
  refine ⟨?_, c'⟩
  unfold getOctetStr
  rw [hs]
  unfold decodeAsciiStrict
  rw [if_pos ha]
  rfl

theorem split_be (x : Nat) (h : x < 65536) : x / 256 * 256 + x % 256 = x := by omega

/-- THE TLV LOOP on conformant parameters: every parameter is read back, in order, and the message text found
    before is left alone. -/
theorem tlvLoop_wire (esm : Nat) (codec : Codec) (g : Nat × List Nat → Tlv) : ∀ (ps : List (Nat × List Nat)),
    (∀ p ∈ ps, ParamOK p (g p)) →
    ∀ (buf : List Nat) (i fuel : Nat) (payload : List Nat) (acc : List Tlv),
      Cur buf i (wire ps) → ps.length < fuel →
      tlvLoop buf buf.length esm codec fuel i payload acc = .ok (payload, acc ++ ps.map g)
  | [], _, buf, i, fuel, payload, acc, c, hf => by
    have hend := cur_end c
    cases fuel with
    | zero => simp at hf
    | succ f =>
      rw [tlvLoop, if_neg (by omega)]
      simp
  | p :: ps, h, buf, i, fuel, payload, acc, c, hf => by
      have hp := h p (by simp)
      have hrest : ∀ q ∈ ps, ParamOK q (g q) := fun q hq => h q (by simp [hq])
      generalize hgp : g p = t at hp
      obtain ⟨tag, val⟩ := p
      obtain ⟨htag, hlen, hrb⟩ := hp
      dsimp only at htag hlen hrb
      cases fuel with
      | zero => simp at hf
      | succ f =>
        have hf' : ps.length < f := by simp at hf; omega
        have c0 : Cur buf i (tag / 256 :: tag % 256 :: val.length / 256 :: val.length % 256 :: (val ++ wire ps)) := by
          simpa [wire, tlvWire] using c
        have hlt : i < buf.length := by
          obtain ⟨pre, hb, hl⟩ := c0
          rw [hb, ← hl]; simp
        obtain ⟨r1, c1⟩ := cur_int2 c0
        obtain ⟨r2, c2⟩ := cur_int2 c1
        rw [split_be tag htag] at r1
        rw [split_be val.length hlen] at r2
        rw [tlvLoop, if_pos hlt, r1]
        dsimp only
        rw [r2]
        dsimp only
        unfold readBack at hrb
        by_cases hmp : tag = Gen.Tlv.messagePayload
        · rw [if_pos hmp] at hrb; cases hrb
        · rw [if_neg hmp] at hrb
          rw [if_neg hmp]
          -- by kind
          by_cases h0 : (tagInfo tag).1 = 0
          · rw [if_pos h0] at hrb
            rw [h0]
            split at hrb
            · rename_i hw
              cases hrb
              obtain ⟨r3, c3⟩ := cur_int c2 rfl hw
              rw [r3]
              dsimp only
              have := tlvLoop_wire esm codec g ps hrest buf _ f payload (acc ++ [⟨tag, .int (beVal val)⟩]) c3 hf'
              rw [this]
              simp [hgp]
            · cases hrb
          · rw [if_neg h0] at hrb
            by_cases h2 : (tagInfo tag).1 = 2
            · rw [if_pos h2] at hrb
              rw [h2]
              split at hrb
              · rename_i hv
                cases hrb
                subst hv
                have c3 : Cur buf (i + 2 + 2) (wire ps) := by simpa using c2
                have := tlvLoop_wire esm codec g ps hrest buf _ f payload (acc ++ [⟨tag, .bool true⟩]) c3 hf'
                rw [this]
                simp [hgp]
              · cases hrb
            · rw [if_neg h2] at hrb
              split at hrb
              · rename_i ha
                cases hrb
                obtain ⟨r3, c3⟩ := cur_octets c2 ha
                have := tlvLoop_wire esm codec g ps hrest buf _ f payload (acc ++ [⟨tag, .str (stripNul val)⟩]) c3 hf'
                rcases hk : (tagInfo tag).1 with _ | _ | _ | k
                · exact absurd hk h0
                · simp only [r3, this]
                  simp [hgp]
                · exact absurd hk h2
                · simp only [r3, this]
                  simp [hgp]
              · cases hrb

theorem wire_length_ge : ∀ (ps : List (Nat × List Nat)), ps.length ≤ (wire ps).length
  | [] => by simp [wire]
  | p :: ps => by
    have := wire_length_ge ps
    simp only [wire, tlvWire, List.length_cons, List.length_append]
    omega

/-- MANDATORY FIELDS AND OPTIONAL PARAMETERS READ BACK, text in short_message: `from_pdu` on a body laid out as the
    specification prescribes, followed by any list of conformant optional parameters, returns the field values and
    the parameters it was built from. -/
theorem smFromPdu_short_params (hd : List Nat) (h16 : hd.length = 16) (h : Header) (dflt enc : Enc)
    (svc : List Nat) (ston snpi : Nat) (snum : List Nat) (dton dnpi : Nat) (dnum : List Nat)
    (esm pid prio : Nat) (sched valid : List Nat) (reg repl dc defId : Nat) (sm text : List Nat)
    (schedT validT : Time.TimeObj) (ps : List (Nat × List Nat)) (g : Nat × List Nat → Tlv)
    (hps : ∀ p ∈ ps, ParamOK p (g p))
    (w : FieldsOK svc ston snpi snum dton dnpi dnum sched valid)
    (henc : (if dc = 0 then Except.ok dflt else encOfDataCoding dc) = .ok enc)
    (hdm : decodeMessage esm (decodeCodec enc) sm = .ok (text, []))
    (hts : Time.fromSmpp sched = .ok schedT) (htv : Time.fromSmpp valid = .ok validT)
    (hsvc : svc.length ≤ 5) (htext : text ≠ [])
    (hlen : h.pduLength = (hd ++ mandatory svc ston snpi snum dton dnpi dnum esm pid prio sched valid reg repl dc defId sm (wire ps)).length) :
    smFromPdu (hd ++ mandatory svc ston snpi snum dton dnpi dnum esm pid prio sched valid reg repl dc defId sm (wire ps)) h dflt =
      .ok { seq := h.seq, status := 0, shortMessage := text,
            source := ⟨snum, ston, snpi⟩, dest := ⟨dnum, dton, dnpi⟩, serviceType := svc,
            esmClass := esm, protocolId := pid, priorityFlag := prio, schedule := schedT, validity := validT,
            registeredDelivery := reg, replaceIfPresent := repl,
            encoding := if enc.name = str Gen.Consts.defaultEncoding then none else some enc,
            smDefaultMsgId := defId, messagePayload := [], optionalParams := ps.map g } := by
  have c0 := cur_start hd (mandatory svc ston snpi snum dton dnpi dnum esm pid prio sched valid reg repl dc defId sm (wire ps))
  rw [h16] at c0
  generalize hbuf : hd ++ mandatory svc ston snpi snum dton dnpi dnum esm pid prio sched valid reg repl dc defId sm (wire ps) = buf at *
  unfold mandatory at c0
  obtain ⟨r1, c1⟩ := cur_cstr c0 w.svc
  obtain ⟨r2, c2⟩ := cur_int1 c1
  obtain ⟨r3, c3⟩ := cur_int1 c2
  obtain ⟨r4, c4⟩ := cur_cstr c3 w.snum.1
  obtain ⟨r5, c5⟩ := cur_int1 c4
  obtain ⟨r6, c6⟩ := cur_int1 c5
  obtain ⟨r7, c7⟩ := cur_cstr c6 w.dnum.1
  obtain ⟨r8, c8⟩ := cur_int1 c7
  obtain ⟨r9, c9⟩ := cur_int1 c8
  obtain ⟨r10, c10⟩ := cur_int1 c9
  obtain ⟨r11, c11⟩ := cur_cstr c10 w.sched
  obtain ⟨r12, c12⟩ := cur_cstr c11 w.valid
  obtain ⟨r13, c13⟩ := cur_int1 c12
  obtain ⟨r14, c14⟩ := cur_int1 c13
  obtain ⟨r15, c15⟩ := cur_int1 c14
  obtain ⟨r16, c16⟩ := cur_int1 c15
  obtain ⟨r17, c17⟩ := cur_int1 c16
  obtain ⟨hsl, c18⟩ := cur_slice c17
  unfold smFromPdu
  simp only [bind, Except.bind, pure, Except.pure]
  rw [r1]; simp only
  rw [r2]; simp only [enumVal, w.ston, if_true]
  rw [r3]; simp only [w.snpi, if_true]
  rw [r4]; simp only [checkLen, w.snum.2, if_true]
  rw [r5]; simp only [w.dton, if_true]
  rw [r6]; simp only [w.dnpi, if_true]
  rw [r7]; simp only [w.dnum.2, if_true]
  rw [r8]; simp only
  rw [r9]; simp only
  rw [r10]; simp only
  rw [r11]; simp only
  rw [r12]; simp only
  rw [r13]; simp only
  rw [r14]; simp only
  rw [r15]; simp only
  rw [henc]; simp only
  rw [r16]; simp only
  rw [r17]; simp only
  rw [hsl, hdm]; simp only
  -- the optional parameters
  have hbl : h.pduLength = buf.length := hlen
  have hfuel : ps.length < buf.length + 1 := by
    obtain ⟨pre, hb, _⟩ := c18
    have := wire_length_ge ps
    rw [hb, List.length_append]; omega
  rw [hbl, tlvLoop_wire esm (decodeCodec enc) g ps hps buf _ (buf.length + 1) [] [] c18 hfuel]
  simp only
  rw [hts, htv]
  simp only [smValidate]
  have h5 : ¬ svc.length > 5 := by omega
  have hte : text.isEmpty = false := by
    cases text with
    | nil => exact absurd rfl htext
    | cons _ _ => rfl
  simp [h5, hte]


end SmppVerif.Lemmas.TlvRead
