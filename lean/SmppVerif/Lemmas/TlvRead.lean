/- Reading optional parameters back from a buffer laid out as SMPP 3.4 §5.3 prescribes (tag, length, value):
   the TLV loop of `from_pdu`, for any list of conformant parameters (C04 decoding direction, C03). -/
import SmppVerif.Lemmas.SmRead

namespace SmppVerif.Lemmas.TlvRead
open SmppVerif SmppVerif.Pdu SmppVerif.Lemmas.Pdu SmppVerif.Lemmas.PduRead SmppVerif.Lemmas.SmRead

/-- one optional parameter on the wire: two octets tag, two octets length, the value -/
def tlvWire (tag : Nat) (val : List Nat) : List Nat :=
  tag / 256 :: tag % 256 :: val.length / 256 :: val.length % 256 :: val

def wire : List (Nat × List Nat) → List Nat
  | [] => []
  | p :: ps => tlvWire p.1 p.2 ++ wire ps

/-- `get_octet_string` strips one trailing NUL -/
def stripNul (s : List Nat) : List Nat := if s.getLast? = some 0 then s.dropLast else s

/-- what `from_pdu` makes of a parameter, by the kind the tag table gives its tag; `none` = not a value the
    specification allows for that tag (wrong width, non-ASCII text, a flag with a value) or message_payload,
    which is not an optional parameter of the message object -/
def readBack (tag : Nat) (val : List Nat) : Option Tlv :=
  if tag = Gen.Tlv.messagePayload then none
  else match (tagInfo tag).1 with
    | 0 => if val.length = 1 ∨ val.length = 2 ∨ val.length = 4 then some ⟨tag, .int (beVal val)⟩ else none
    | 2 => if val = [] then some ⟨tag, .bool true⟩ else none
    | _ => if val.all (· < 128) then some ⟨tag, .str (stripNul val)⟩ else none

/-- a parameter the loop reads back as `t` -/
def ParamOK (p : Nat × List Nat) (t : Tlv) : Prop :=
  p.1 < 65536 ∧ p.2.length < 65536 ∧ readBack p.1 p.2 = some t

theorem cur_int {buf : List Nat} {i n : Nat} {val post : List Nat} (c : Cur buf i (val ++ post))
    (hl : val.length = n) (hn : n = 1 ∨ n = 2 ∨ n = 4) :
    getInt buf i n = .ok (beVal val, i + n) ∧ Cur buf (i + n) post := by
  obtain ⟨pre, rfl, rfl⟩ := c
  refine ⟨?_, pre ++ val, by simp, by simp [hl]⟩
  unfold getInt
  rw [if_pos hn]
  unfold unpackU
  have : pre.length + n ≤ (pre ++ (val ++ post)).length := by simp [hl]; omega
  rw [if_pos this, List.drop_left]
  have : (val ++ post).take n = val := by rw [← hl]; simp
  rw [this]
  rfl

theorem cur_octets {buf : List Nat} {i : Nat} {val post : List Nat} (c : Cur buf i (val ++ post))
    (ha : val.all (· < 128) = true) :
    getOctetStr buf i val.length = .ok (stripNul val, i + val.length) ∧ Cur buf (i + val.length) post := by
  obtain ⟨hs, c'⟩ := cur_slice c
  refine ⟨?_, c'⟩
  unfold getOctetStr
  rw [hs]
  unfold decodeAsciiStrict
  rw [if_pos ha]
  rfl

theorem split_be (x : Nat) (h : x < 65536) : x / 256 * 256 + x % 256 = x := by omega

/-- THE TLV LOOP on conformant parameters: every parameter is read back, in order, and the message text found
    before is left alone. -/
theorem tlvLoop_wire (esm : Nat) (codec : Codec) : ∀ (ps : List (Nat × List Nat)) (ts : List Tlv),
    List.Forall₂ ParamOK ps ts →
    ∀ (buf : List Nat) (i fuel : Nat) (payload : List Nat) (acc : List Tlv),
      Cur buf i (wire ps) → ps.length < fuel →
      tlvLoop buf buf.length esm codec fuel i payload acc = .ok (payload, acc ++ ts)
  | [], _, h, buf, i, fuel, payload, acc, c, hf => by
    cases h
    have hend := cur_end c
    cases fuel with
    | zero => simp at hf
    | succ f =>
      rw [tlvLoop, if_neg (by omega)]
      simp
  | p :: ps, _, h, buf, i, fuel, payload, acc, c, hf => by
    cases h with
    | cons hp hrest =>
      rename_i t ts
      obtain ⟨tag, val⟩ := p
      obtain ⟨htag, hlen, hrb⟩ := hp
      dsimp only at htag hlen hrb
      cases fuel with
      | zero => simp at hf
      | succ f =>
        have hf' : ps.length < f := by simp at hf; omega
        have c0 : Cur buf i (tag / 256 :: tag % 256 :: val.length / 256 :: val.length % 256 :: (val ++ wire ps)) := by
          simpa [wire, tlvWire] using c
        have hlt : i < buf.length := by
          obtain ⟨pre, hb, hl⟩ := c0
          rw [hb, ← hl]; simp
        obtain ⟨r1, c1⟩ := cur_int2 c0
        obtain ⟨r2, c2⟩ := cur_int2 c1
        rw [split_be tag htag] at r1
        rw [split_be val.length hlen] at r2
        rw [tlvLoop, if_pos hlt, r1]
        dsimp only
        rw [r2]
        dsimp only
        unfold readBack at hrb
        by_cases hmp : tag = Gen.Tlv.messagePayload
        · rw [if_pos hmp] at hrb; cases hrb
        · rw [if_neg hmp] at hrb
          rw [if_neg hmp]
          -- by kind
          rcases hk : (tagInfo tag).1 with _ | _ | _ | k
          · -- integer
            rw [hk] at hrb
            dsimp only at hrb ⊢
            split at hrb
            · rename_i hw
              cases hrb
              obtain ⟨r3, c3⟩ := cur_int c2 rfl hw
              rw [r3]
              dsimp only
              have := tlvLoop_wire esm codec ps ts hrest buf _ f payload (acc ++ [⟨tag, .int (beVal val)⟩]) c3 hf'
              rw [this]
              simp
            · cases hrb
          · -- string (kind 1)
            rw [hk] at hrb
            dsimp only at hrb ⊢
            split at hrb
            · rename_i ha
              cases hrb
              obtain ⟨r3, c3⟩ := cur_octets c2 ha
              rw [r3]
              dsimp only
              have := tlvLoop_wire esm codec ps ts hrest buf _ f payload (acc ++ [⟨tag, .str (stripNul val)⟩]) c3 hf'
              rw [this]
              simp
            · cases hrb
          · -- flag
            rw [hk] at hrb
            dsimp only at hrb ⊢
            split at hrb
            · rename_i hv
              cases hrb
              subst hv
              have c3 : Cur buf (i + 2 + 2) (wire ps) := by simpa using c2
              have := tlvLoop_wire esm codec ps ts hrest buf _ f payload (acc ++ [⟨tag, .bool true⟩]) c3 hf'
              rw [this]
              simp
            · cases hrb
          · -- any other kind is read as a string
            rw [hk] at hrb
            dsimp only at hrb ⊢
            split at hrb
            · rename_i ha
              cases hrb
              obtain ⟨r3, c3⟩ := cur_octets c2 ha
              rw [r3]
              dsimp only
              have := tlvLoop_wire esm codec ps ts hrest buf _ f payload (acc ++ [⟨tag, .str (stripNul val)⟩]) c3 hf'
              rw [this]
              simp
            · cases hrb

end SmppVerif.Lemmas.TlvRead
