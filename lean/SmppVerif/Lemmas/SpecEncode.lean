/- C04: the model's encoders equal the table-driven specification encoder. -/
import SmppVerif.Lemmas.Pdu
import SmppVerif.Spec.Smpp34

namespace SmppVerif.Lemmas.SpecEncode
open SmppVerif SmppVerif.Pdu SmppVerif.Lemmas.Pdu SmppVerif.Spec.Smpp

theorem be_eq_beDigits (w v : Nat) : be w v = beDigits w v := rfl

theorem packU_nat_be (w v : Nat) (hv : v < 256 ^ w) : packU w (v : Int) = .ok (be w v) :=
  packU_nat w v hv

theorem concatM_oks : ∀ (ls : List (List Nat)), concatM (ls.map Except.ok) = .ok ls.flatten
  | [] => rfl
  | l :: ls => by
    simp only [List.map_cons, concatM, concatM_oks ls, Except.map, List.flatten_cons]

theorem cstr_ascii (s : List Nat) (h : ∀ c ∈ s, c < 128) : cstr s = .ok (s ++ [0]) := by
  unfold cstr
  have : encodeBounded 128 .strict s = .ok s := by
    induction s with
    | nil => rfl
    | cons c cs ih =>
      unfold encodeBounded
      have hc : c < 128 := h c (by simp)
      simp only [hc, if_true, ih (fun x hx => h x (by simp [hx])), Except.map]
  rw [this]; rfl

/-- the header the model writes is the specification's -/
theorem packHeader_eq_spec (len : Nat) (m : Msg) (hl : len < 256 ^ 4) (hs : m.status < 256 ^ 4)
    (hq : 0 ≤ m.seq ∧ m.seq < (256 : Int) ^ 4) (hc : m.command < 256 ^ 4) :
    packHeader len m = .ok (be 4 len ++ be 4 m.command ++ be 4 m.status ++ be 4 m.seq.toNat) := by
  unfold packHeader
  have e4 : packU 4 m.seq = .ok (be 4 m.seq.toNat) := by
    have := packU_nat_be 4 m.seq.toNat (toNat_lt_pow 4 m.seq hq.1 hq.2)
    rwa [Int.toNat_of_nonneg hq.1] at this
  rw [packU_nat_be 4 len hl, packU_nat_be 4 m.command hc, packU_nat_be 4 m.status hs, e4]
  have := concatM_oks [be 4 len, be 4 m.command, be 4 m.status, be 4 m.seq.toNat]
  simpa [List.append_assoc] using this

theorem command_lt (m : Msg) : m.command < 256 ^ 4 := by
  cases m with
  | bind k b => cases k <;> simp [Msg.command, bindCmd]
  | bindResp k b => cases k <;> simp [Msg.command, bindCmd]
  | _ => simp [Msg.command]

/-- Body-less PDUs and submit_sm_resp / deliver_sm_resp: the bytes `pdu()` produces are those
    of the generic encoder applied to the fields of SMPP 3.4 §4 (header layout, C-octet
    termination). -/
theorem simple_eq_spec (dflt : Enc) (m : Msg) (hst : m.status < 256 ^ 4)
    (hq : 0 ≤ m.seq ∧ m.seq < (256 : Int) ^ 4)
    (hm : (∃ s st, m = .enquireLink s st) ∨ (∃ s st, m = .enquireLinkResp s st) ∨
          (∃ s st, m = .unbind s st) ∨ (∃ s st, m = .unbindResp s st) ∨
          (∃ s st l x, m = .genericNack s st l x)) :
    pdu dflt m = .ok (encodePdu m.command m.status m.seq.toNat [] [], none) := by
  have hh := packHeader_eq_spec 16 m (by decide) hst hq (command_lt m)
  rcases hm with ⟨s, st, rfl⟩ | ⟨s, st, rfl⟩ | ⟨s, st, rfl⟩ | ⟨s, st, rfl⟩ | ⟨s, st, l, x, rfl⟩ <;>
  · unfold pdu
    dsimp only
    rw [hh]
    simp [Except.map, encodePdu, List.append_assoc]

theorem smResp_eq_spec (dflt : Enc) (r : SmResp) (deliver : Bool) (hst : r.status < 256 ^ 4)
    (hq : 0 ≤ r.seq ∧ r.seq < (256 : Int) ^ 4) (hid : ∀ c ∈ r.messageId, c < 128)
    (hlen : r.messageId.length ≤ 64) :
    pdu dflt (if deliver then .deliverSmResp r else .submitSmResp r) =
      .ok (encodePdu (if deliver then 0x80000005 else 0x80000004) r.status r.seq.toNat
            [.cstr r.messageId] [], none) := by
  have key : ∀ m : Msg, (m = .submitSmResp r ∨ m = .deliverSmResp r) →
      pdu dflt m = .ok (encodePdu m.command r.status r.seq.toNat [.cstr r.messageId] [], none) := by
    intro m hm
    have hms : m.status = r.status ∧ m.seq = r.seq := by rcases hm with rfl | rfl <;> exact ⟨rfl, rfl⟩
    have hh := packHeader_eq_spec (16 + (r.messageId ++ [0]).length) m
      (by simp; have : (256 : Nat) ^ 4 = 4294967296 := by decide
          omega) (by rw [hms.1]; exact hst) (by rw [hms.2]; exact hq) (command_lt m)
    rcases hm with rfl | rfl <;>
    · unfold pdu
      dsimp only
      rw [cstr_ascii _ hid]
      dsimp only
      rw [hh]
      simp [Except.map, encodePdu, Field.bytes, List.append_assoc, Msg.status, Msg.seq]
  cases deliver with
  | true => exact key _ (Or.inr rfl)
  | false => exact key _ (Or.inl rfl)



theorem packU1 (v : Int) (h0 : 0 ≤ v) (h1 : v < 256) : packU 1 v = .ok (be 1 v.toNat) := by
  have := packU_nat_be 1 v.toNat (by
    have : v.toNat < 256 := by omega
    simpa using this)
  rwa [Int.toNat_of_nonneg h0] at this

theorem packU1n (v : Nat) (h1 : v < 256) : packU 1 (v : Int) = .ok (be 1 v) :=
  packU_nat_be 1 v (by simpa using h1)

/-- what SMPP 3.4 allows for the mandatory fields of submit_sm / deliver_sm -/
structure SmWF (m : Sm) : Prop where
  serviceType : ∀ c ∈ m.serviceType, c < 128
  source : (∀ c ∈ m.source.number, c < 128) ∧ m.source.ton < 256 ∧ m.source.npi < 256
  dest : (∀ c ∈ m.dest.number, c < 128) ∧ m.dest.ton < 256 ∧ m.dest.npi < 256
  esm : 0 ≤ m.esmClass ∧ m.esmClass < 256
  pid : 0 ≤ m.protocolId ∧ m.protocolId < 256
  prio : 0 ≤ m.priorityFlag ∧ m.priorityFlag < 256
  reg : 0 ≤ m.registeredDelivery ∧ m.registeredDelivery < 256
  repl : 0 ≤ m.replaceIfPresent ∧ m.replaceIfPresent < 256
  defId : 0 ≤ m.smDefaultMsgId ∧ m.smDefaultMsgId < 256

set_option maxRecDepth 8000 in
/-- Mandatory-field order, widths and C-octet termination: for every message whose fields
    are in range, the body expression of `pdu()` lays out exactly the field list of SMPP 3.4
    §4.4.1 / §4.6.1, followed by message_payload and the optional parameters. -/
theorem smLayout_eq_spec (m : Sm) (w : SmWF m) (sm payloadTlv paramBytes ts tv : List Nat) (dc : Nat)
    (hdc : dc < 256) (hsm : sm.length < 256)
    (hts : Time.toSmpp m.schedule = .ok ts) (htv : Time.toSmpp m.validity = .ok tv)
    (hta : (∀ c ∈ ts, c < 128) ∧ (∀ c ∈ tv, c < 128)) :
    smLayout m sm payloadTlv dc paramBytes =
      .ok ((SmFields.fields {
              serviceType := m.serviceType, sourceTon := m.source.ton, sourceNpi := m.source.npi,
              sourceAddr := m.source.number, destTon := m.dest.ton, destNpi := m.dest.npi,
              destAddr := m.dest.number, esmClass := m.esmClass.toNat, protocolId := m.protocolId.toNat,
              priorityFlag := m.priorityFlag.toNat, scheduleDeliveryTime := ts, validityPeriod := tv,
              registeredDelivery := m.registeredDelivery.toNat, replaceIfPresent := m.replaceIfPresent.toNat,
              dataCoding := dc, smDefaultMsgId := m.smDefaultMsgId.toNat, shortMessage := sm }).flatMap Field.bytes
           ++ payloadTlv ++ paramBytes) := by
  unfold smLayout timeField
  rw [hts, htv]
  dsimp only
  rw [cstr_ascii _ w.serviceType, cstr_ascii _ w.source.1, cstr_ascii _ w.dest.1,
    cstr_ascii _ hta.1, cstr_ascii _ hta.2,
    packU1n _ w.source.2.1, packU1n _ w.source.2.2, packU1n _ w.dest.2.1, packU1n _ w.dest.2.2,
    packU1 _ w.esm.1 w.esm.2, packU1 _ w.pid.1 w.pid.2, packU1 _ w.prio.1 w.prio.2,
    packU1 _ w.reg.1 w.reg.2, packU1 _ w.repl.1 w.repl.2, packU1n _ hdc, packU1 _ w.defId.1 w.defId.2,
    packU1n _ hsm]
  have := concatM_oks [m.serviceType ++ [0], be 1 m.source.ton, be 1 m.source.npi, m.source.number ++ [0],
    be 1 m.dest.ton, be 1 m.dest.npi, m.dest.number ++ [0], be 1 m.esmClass.toNat, be 1 m.protocolId.toNat,
    be 1 m.priorityFlag.toNat, ts ++ [0], tv ++ [0], be 1 m.registeredDelivery.toNat,
    be 1 m.replaceIfPresent.toNat, be 1 dc, be 1 m.smDefaultMsgId.toNat, be 1 sm.length, sm, payloadTlv, paramBytes]
  simp only [List.map_cons, List.map_nil] at this
  rw [this]
  simp only [SmFields.fields, Field.bytes, List.flatMap_cons, List.flatMap_nil, List.flatten_cons,
    List.flatten_nil, List.append_assoc, List.append_nil, List.cons_append, List.nil_append]

set_option maxRecDepth 8000 in
/-- An integer optional parameter in range is written as tag, length, value of SMPP 3.4
    §5.3.2 (2 + 2 + width octets, big endian). -/
theorem tlvBytes_int_eq_spec (tag : Nat) (v : Nat) (w : Nat) (htag : tag < 65536)
    (hk : tagInfo tag = (0, w)) (hw : w = 1 ∨ w = 2 ∨ w = 4) (hv : v < 256 ^ w) :
    tlvBytes ⟨tag, .int v⟩ = .ok (OptParam.bytes ⟨tag, be w v⟩) := by
  have hkind : tagKind (tag : Int) = (0, w) := by
    unfold tagKind
    have : (0 : Int) ≤ (tag : Int) ∧ (tag : Int) < 65536 := ⟨Int.natCast_nonneg _, by omega⟩
    rw [if_pos this, Int.toNat_natCast, hk]
  unfold tlvBytes
  rw [hkind]
  dsimp only
  have hlen : tlvLength ⟨tag, .int v⟩ = w := by unfold tlvLength; rw [hkind]; rfl
  rw [hlen]
  rw [packU_nat_be 2 tag (by simpa using htag), packU_nat_be w v hv,
    packU_nat_be 2 w (by rcases hw with rfl | rfl | rfl <;> decide)]
  have := concatM_oks [be 2 tag, be 2 w, be w v]
  simp only [List.map_cons, List.map_nil] at this
  rw [this]
  have hbl : (be w v).length = w := beDigits_length w v
  simp [OptParam.bytes, hbl, List.append_assoc]

end SmppVerif.Lemmas.SpecEncode
