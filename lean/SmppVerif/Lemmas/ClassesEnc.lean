/- Exception classes of the encoder / splitter / sender models (C06). -/
import SmppVerif.Lemmas.Classes
import SmppVerif.Model.Sender

namespace SmppVerif.Lemmas.ClassesEnc
open SmppVerif SmppVerif.Pdu SmppVerif.Lemmas.Classes

theorem safe_match {α β} (x : Except Exc α) (f : α → Except Exc β) (hx : Safe x) (hf : ∀ a, Safe (f a)) :
    Safe (match x with | .error e => .error e | .ok a => f a) := by
  cases x with
  | error e => exact safe_err _ (hx e rfl)
  | ok a => exact hf a

theorem safe_encChar (mode : Mode) (c : Nat) : Safe (Gsm.encChar mode c) := by
  unfold Gsm.encChar
  repeat' split
  all_goals first | exact safe_ok _ | exact safe_err .unicodeEncodeError trivial

theorem safe_toGsmCodes (mode : Mode) : ∀ t : List Nat, Safe (Gsm.toGsmCodes mode t)
  | [] => safe_ok _
  | c :: cs => by
    unfold Gsm.toGsmCodes
    split
    · rename_i e he; exact safe_err _ (safe_encChar _ _ e he)
    · split
      · rename_i e he; exact safe_err _ (safe_toGsmCodes mode cs e he)
      · exact safe_ok _

theorem safe_packOctets (c : List Nat) : Safe (Gsm.packOctets c) := by
  unfold Gsm.packOctets; split
  · exact safe_ok _
  · exact safe_err _ trivial

theorem safe_gsm_encode (mode : Mode) (t : List Nat) : Safe (Gsm.encode mode t) := by
  unfold Gsm.encode
  split
  · rename_i e he; exact safe_err _ (safe_toGsmCodes _ _ e he)
  · exact safe_packOctets _

theorem safe_packLoop (codes : List Nat) : ∀ (n index count : Nat), Safe (Packed.packLoop codes n index count)
  | 0, _, _ => safe_ok _
  | n + 1, index, count => by
    unfold Packed.packLoop
    dsimp only
    split
    · split
      · split
        · exact safe_ok _
        · rename_i e he; exact safe_err _ (safe_packLoop codes n _ _ e he)
      · exact safe_err _ trivial
    · exact safe_err _ trivial

theorem safe_packed_encode (mode : Mode) (t : List Nat) : Safe (Packed.encode mode t) := by
  unfold Packed.encode
  split
  · rename_i e he; exact safe_err _ (safe_toGsmCodes _ _ e he)
  · exact safe_packLoop _ _ _ _

theorem safe_encUnits (mode : Mode) (c : Nat) : Safe (Utf16.encUnits mode c) := by
  unfold Utf16.encUnits
  repeat' split
  all_goals first | exact safe_ok _ | exact safe_err .unicodeEncodeError trivial

theorem safe_encodeUnits (mode : Mode) : ∀ t : List Nat, Safe (Utf16.encodeUnits mode t)
  | [] => safe_ok _
  | c :: cs => by
    unfold Utf16.encodeUnits
    split
    · rename_i e he; exact safe_err _ (safe_encUnits _ _ e he)
    · split
      · rename_i e he; exact safe_err _ (safe_encodeUnits mode cs e he)
      · exact safe_ok _

theorem safe_utf16_encode (mode : Mode) (t : List Nat) : Safe (Utf16.encode mode t) :=
  safe_map _ _ (safe_encodeUnits mode t)

theorem safe_encodeBounded (limit : Nat) (mode : Mode) : ∀ t : List Nat, Safe (encodeBounded limit mode t)
  | [] => safe_ok _
  | c :: cs => by
    unfold encodeBounded
    split
    · exact safe_map _ _ (safe_encodeBounded limit mode cs)
    · cases mode
      · exact safe_err _ trivial
      · exact safe_encodeBounded limit .ignore cs
      · exact safe_map _ _ (safe_encodeBounded limit .replace cs)

theorem safe_codecEncode (c : Codec) (eh : ErrH) (t : List Nat) : Safe (codecEncode c eh t) := by
  unfold codecEncode
  split
  all_goals first
    | exact safe_err .lookupError trivial
    | exact safe_err .runtimeError trivial
    | exact safe_err .valueError trivial
    | exact safe_gsm_encode _ _
    | exact safe_packed_encode _ _
    | exact safe_utf16_encode _ _
    | exact safe_encodeBounded _ _ _
    | (split <;> first | exact safe_ok _ | exact safe_err .lookupError trivial)

theorem safe_packU (w : Nat) (v : Int) : Safe (packU w v) := by
  unfold packU; split
  · exact safe_ok _
  · exact safe_err _ trivial

theorem safe_concatM : ∀ l : List (Except Exc (List Nat)), (∀ x ∈ l, Safe x) → Safe (concatM l)
  | [], _ => safe_ok _
  | x :: xs, h => by
    unfold concatM
    split
    · rename_i e; exact safe_err _ (h _ (by simp) e rfl)
    · exact safe_map _ _ (safe_concatM xs (fun y hy => h y (by simp [hy])))

theorem safe_concatM_nil : Safe (concatM []) := safe_ok _

theorem safe_concatM_cons (x : Except Exc (List Nat)) (xs : List (Except Exc (List Nat)))
    (hx : Safe x) (hxs : Safe (concatM xs)) : Safe (concatM (x :: xs)) := by
  unfold concatM
  split
  · rename_i e; exact safe_err _ (hx e rfl)
  · exact safe_map _ _ hxs

macro "safe_cat" : tactic => `(tactic| repeat (first
  | exact safe_concatM_nil
  | exact safe_packU _ _
  | exact safe_ok _
  | (refine safe_concatM_cons _ _ ?_ ?_)))

theorem safe_cstr (s : List Nat) : Safe (cstr s) := safe_map _ _ (safe_encodeBounded _ _ _)

/-- a parameter the OptionalParam constructor accepts is written without AttributeError -/
theorem safe_tlvBytes (t : Tlv) (hv : tlvValid t = true) : Safe (tlvBytes t) := by
  unfold tlvBytes
  split
  · exact safe_concatM_cons _ _ (safe_packU _ _) (safe_concatM_cons _ _ (safe_packU _ _)
      (safe_concatM_cons _ _ (safe_packU _ _) safe_concatM_nil))
  · rename_i hk
    split
    · split
      · rename_i e he; exact safe_err _ (safe_encodeBounded _ _ _ e he)
      · exact safe_concatM_cons _ _ (safe_packU _ _) (safe_concatM_cons _ _ (safe_packU _ _)
          (safe_concatM_cons _ _ (safe_ok _) safe_concatM_nil))
    · -- a string tag with a non-string value: excluded by the constructor
      exfalso
      unfold tlvValid at hv
      rw [hk] at hv
      cases hval : t.val <;> simp_all
  · split
    · exact safe_concatM_cons _ _ (safe_packU _ _) (safe_concatM_cons _ _ (safe_packU _ _) safe_concatM_nil)
    · exact safe_ok _


/-- closes `Safe (.error e)` when a hypothesis says that `e` came out of a call already known to be safe -/
macro "safe_prop" : tactic => `(tactic| (intro e' h'; cases h'; first
  | exact safe_codecEncode _ _ _ _ (by assumption)
  | exact safe_encodeBounded _ _ _ _ (by assumption)
  | exact safe_gsm_encode _ _ _ (by assumption)
  | exact safe_encodeUnits _ _ _ (by assumption)
  | exact safe_packU _ _ _ (by assumption)))

macro "safe_leaf" : tactic => `(tactic| first
  | exact safe_ok _
  | exact safe_err .valueError trivial
  | exact safe_err .runtimeError trivial
  | exact safe_err .keyError trivial
  | exact safe_err .structError trivial
  | exact safe_map _ _ (safe_codecEncode _ _ _)
  | exact safe_map _ _ (safe_gsm_encode _ _)
  | exact safe_map _ _ (safe_encodeUnits _ _)
  | exact safe_map _ _ (safe_packU _ _)
  | safe_prop)

theorem safe_toSmpp (t : Time.TimeObj) : Safe (Time.toSmpp t) := by
  unfold Time.toSmpp
  split
  · exact safe_ok _
  · exact safe_ok _
  · split
    · exact safe_err _ trivial
    · exact safe_ok _

theorem safe_timeField (t : Time.TimeObj) : Safe (timeField t) := by
  unfold timeField
  split
  · rename_i e he; exact safe_err _ (safe_toSmpp _ e he)
  · exact safe_cstr _

theorem safe_smppEncode (dflt : Enc) (m : Sm) (text : List Nat) : Safe (smppEncode dflt m text) := by
  unfold smppEncode
  repeat' split
  all_goals safe_leaf

theorem safe_payloadTlv (enc : List Nat) :
    Safe (concatM [packU 2 ↑Gen.Tlv.messagePayload, packU 2 ↑enc.length, Except.ok enc]) :=
  safe_concatM_cons _ _ (safe_packU _ _) (safe_concatM_cons _ _ (safe_packU _ _)
    (safe_concatM_cons _ _ (safe_ok _) safe_concatM_nil))

theorem safe_smTextPart (dflt : Enc) (m : Sm) : Safe (smTextPart dflt m) := by
  unfold smTextPart
  split
  · split
    · rename_i e he; exact safe_err _ (safe_smppEncode _ _ _ e he)
    · rename_i enc encoding _
      split
      · exact safe_err _ trivial
      · split
        · split
          · exact safe_ok _
          · rename_i e he
            exact safe_err _ (safe_payloadTlv enc e he)
        · exact safe_ok _
  · exact safe_ok _

theorem safe_smDataCoding (e : Option Enc) : Safe (smDataCoding e) := by
  unfold smDataCoding
  repeat' split
  all_goals first | exact safe_ok _ | exact safe_err .keyError trivial

theorem safe_smLayout (m : Sm) (sm p : List Nat) (dc : Nat) (pb : List Nat) : Safe (smLayout m sm p dc pb) := by
  unfold smLayout
  refine safe_concatM_cons _ _ (safe_cstr _) ?_
  refine safe_concatM_cons _ _ (safe_packU _ _) ?_
  refine safe_concatM_cons _ _ (safe_packU _ _) ?_
  refine safe_concatM_cons _ _ (safe_cstr _) ?_
  refine safe_concatM_cons _ _ (safe_packU _ _) ?_
  refine safe_concatM_cons _ _ (safe_packU _ _) ?_
  refine safe_concatM_cons _ _ (safe_cstr _) ?_
  refine safe_concatM_cons _ _ (safe_packU _ _) ?_
  refine safe_concatM_cons _ _ (safe_packU _ _) ?_
  refine safe_concatM_cons _ _ (safe_packU _ _) ?_
  refine safe_concatM_cons _ _ (safe_timeField _) ?_
  refine safe_concatM_cons _ _ (safe_timeField _) ?_
  refine safe_concatM_cons _ _ (safe_packU _ _) ?_
  refine safe_concatM_cons _ _ (safe_packU _ _) ?_
  refine safe_concatM_cons _ _ (safe_packU _ _) ?_
  refine safe_concatM_cons _ _ (safe_packU _ _) ?_
  refine safe_concatM_cons _ _ (safe_packU _ _) ?_
  refine safe_concatM_cons _ _ (safe_ok _) ?_
  refine safe_concatM_cons _ _ (safe_ok _) ?_
  exact safe_concatM_cons _ _ (safe_ok _) safe_concatM_nil

/-- every optional parameter is one the OptionalParam constructor accepts -/
def ParamsOK (m : Sm) : Prop := ∀ t ∈ m.optionalParams, tlvValid t = true

theorem safe_params (l : List Tlv) (h : ∀ t ∈ l, tlvValid t = true) : Safe (concatM (l.map tlvBytes)) := by
  induction l with
  | nil => exact safe_concatM_nil
  | cons t ts ih =>
    rw [List.map_cons]
    exact safe_concatM_cons _ _ (safe_tlvBytes t (h t (by simp))) (ih (fun x hx => h x (by simp [hx])))

theorem smParams_ok (m : Sm) (h : ParamsOK m) : ∀ t ∈ smParams m, tlvValid t = true := by
  unfold smParams
  split
  · intro t ht; exact h t (List.mem_filter.mp ht).1
  · exact h

theorem safe_smBody (dflt : Enc) (m : Sm) (h : ParamsOK m) : Safe (smBody dflt m) := by
  unfold smBody
  split
  · rename_i e he; exact safe_err _ (safe_smTextPart _ _ e he)
  · split
    · rename_i e he; exact safe_err _ (safe_smDataCoding _ e he)
    · split
      · rename_i e he; exact safe_err _ (safe_params _ (smParams_ok m h) e he)
      · split
        · rename_i e he; exact safe_err _ (safe_smLayout _ _ _ _ _ e he)
        · exact safe_ok _

set_option maxRecDepth 8000 in
theorem safe_packHeader (len : Nat) (m : Msg) : Safe (packHeader len m) := by
  unfold packHeader
  exact safe_concatM_cons _ _ (safe_packU _ _) (safe_concatM_cons _ _ (safe_packU _ _)
    (safe_concatM_cons _ _ (safe_packU _ _) (safe_concatM_cons _ _ (safe_packU _ _) safe_concatM_nil)))

set_option maxRecDepth 8000 in
theorem safe_smPdu (dflt : Enc) (wrap : Sm → Msg) (m : Sm) (h : ParamsOK m) : Safe (smPdu dflt wrap m) := by
  unfold smPdu
  split
  · rename_i e he; exact safe_err _ (safe_smBody _ _ h e he)
  · exact safe_map _ _ (safe_packHeader _ _)

set_option maxRecDepth 8000 in
theorem safe_submit_pdu (dflt : Enc) (m : Sm) (h : ParamsOK m) : Safe (pdu dflt (Msg.submitSm m)) := by
  show Safe (smPdu dflt Msg.submitSm m)
  exact safe_smPdu dflt _ m h

/-! ### splitters and the sender iteration -/

theorem safe_encodeUserData (d : List Nat) (n : Nat) : Safe (Split.encodeUserData d n) := by
  unfold Split.encodeUserData; split
  · exact safe_ok _
  · exact safe_err _ trivial

theorem safe_cellsOf (e : Split.Enc) (t : List Nat) : Safe (Split.cellsOf e t) := by
  unfold Split.cellsOf; split
  · exact safe_map _ _ (safe_gsm_encode _ _)
  · exact safe_map _ _ (safe_encodeUnits _ _)

theorem safe_splitSms (e : Split.Enc) (t : List Nat) : Safe (Split.splitSms e t) := by
  unfold Split.splitSms
  split
  · rename_i x hx; exact safe_err _ (safe_cellsOf _ _ x hx)
  · dsimp only
    split
    · exact safe_map _ _ (safe_encodeUserData _ _)
    · exact safe_ok _

theorem safe_splitSmsUdh (e : Split.Enc) (r : Nat) (t : List Nat) : Safe (Split.splitSmsUdh e r t) := by
  unfold Split.splitSmsUdh
  split
  · rename_i x hx; exact safe_err _ (safe_cellsOf _ _ x hx)
  · dsimp only
    repeat' split
    all_goals first
      | exact safe_map _ _ (safe_encodeUserData _ _)
      | exact safe_ok _
      | exact safe_err .valueError trivial

theorem tlvValid_int (tag v : Int) (h1 : byteLen tag ≤ 2) (h2 : (tagKind tag).1 = 0) :
    tlvValid ⟨tag, .int v⟩ = true := by
  unfold tlvValid
  simp only [h1, h2, decide_true, Bool.true_and]
  decide

theorem sar_tags : (byteLen (Gen.Tlv.sarMsgRefNum : Int) ≤ 2 ∧ (tagKind (Gen.Tlv.sarMsgRefNum : Int)).1 = 0) ∧
    (byteLen (Gen.Tlv.sarSegmentSeqnum : Int) ≤ 2 ∧ (tagKind (Gen.Tlv.sarSegmentSeqnum : Int)).1 = 0) ∧
    (byteLen (Gen.Tlv.sarTotalSegments : Int) ≤ 2 ∧ (tagKind (Gen.Tlv.sarTotalSegments : Int)).1 = 0) := by
  decide +kernel

theorem sar_valid (ref seq total : Nat) :
    tlvValid ⟨Gen.Tlv.sarMsgRefNum, .int ref⟩ = true ∧ tlvValid ⟨Gen.Tlv.sarSegmentSeqnum, .int seq⟩ = true ∧
    tlvValid ⟨Gen.Tlv.sarTotalSegments, .int total⟩ = true :=
  ⟨tlvValid_int _ _ sar_tags.1.1 sar_tags.1.2, tlvValid_int _ _ sar_tags.2.1.1 sar_tags.2.1.2,
   tlvValid_int _ _ sar_tags.2.2.1 sar_tags.2.2.2⟩

open SmppVerif.Sender in
theorem segment_ok (m : Sm) (h : ParamsOK m) (ref total : Nat) (ip : Nat × List Nat) :
    ParamsOK (segment m ref total ip) := by
  intro t ht
  simp only [segment, List.mem_append, List.mem_cons, List.mem_nil_iff, or_false] at ht
  rcases ht with ht | rfl | rfl | rfl
  · exact h t ht
  · exact (sar_valid ref 0 0).1
  · exact (sar_valid 0 (ip.1 + 1) 0).2.1
  · exact (sar_valid 0 0 total).2.2

open SmppVerif.Sender in
/-- whatever `prepare` returns, each message to send still carries only acceptable parameters -/
theorem prepare_ok (dflt : Enc) (ref : Nat) (m : Sm) (h : ParamsOK m) (ms : List Sm)
    (hp : prepare dflt ref m = .ok ms) : ∀ x ∈ ms, ParamsOK x := by
  have upd : ∀ (m' : Sm), m'.optionalParams = m.optionalParams → ParamsOK m' := fun m' e => by
    unfold ParamsOK; rw [e]; exact h
  have segs : ∀ (m' : Sm) (parts : List (List Nat)), ParamsOK m' → ∀ x ∈ segments m' ref parts, ParamsOK x := by
    intro m' parts hm' x hx
    simp only [segments, List.mem_map] at hx
    obtain ⟨ip, _, rfl⟩ := hx
    exact segment_ok m' hm' ref _ ip
  unfold prepare at hp
  split at hp
  · cases hp; intro x hx; simp at hx; subst hx; exact h
  · split at hp
    · dsimp only at hp
      split at hp
      · cases hp
      · split at hp
        · cases hp; intro x hx; simp at hx; subst hx; exact upd _ rfl
        · split at hp
          · cases hp; exact segs _ _ (upd _ rfl)
          · cases hp; intro x hx; simp at hx; subst hx; exact upd _ rfl
    · split at hp
      · cases hp
      · dsimp only at hp
        split at hp
        · cases hp
        · split at hp
          · cases hp; intro x hx; simp at hx; subst hx; exact upd _ rfl
          · split at hp
            · cases hp; exact segs _ _ (upd _ rfl)
            · cases hp; intro x hx; simp at hx; subst hx; exact upd _ rfl

open SmppVerif.Sender in
theorem safe_prepare (dflt : Enc) (ref : Nat) (m : Sm) : Safe (prepare dflt ref m) := by
  unfold prepare
  split
  · exact safe_ok _
  · split
    · dsimp only
      split
      · rename_i e he; exact safe_err _ (safe_splitSmsUdh _ _ _ e he)
      · repeat' split
        all_goals exact safe_ok _
    · split
      · rename_i e he; exact safe_err _ (safe_smppEncode _ _ _ e he)
      · dsimp only
        split
        · rename_i e he; exact safe_err _ (safe_splitSms _ _ e he)
        · repeat' split
          all_goals exact safe_ok _

open SmppVerif.Sender in
theorem sendAll_classes (dflt : Enc) : ∀ (ms : List Sm) (seq : Int) (acc ps : List (List Nat)) (e : Exc),
    (∀ x ∈ ms, ParamsOK x) → sendAll dflt seq ms acc = .failed ps e → Caught e
  | [], _, _, _, _, _, h => by simp [sendAll] at h
  | m :: rest, seq, acc, ps, e, hok, h => by
    unfold sendAll at h
    split at h
    · rename_i e' he
      cases h
      exact safe_submit_pdu dflt { m with seq := seq } (by
        have := hok m (by simp)
        exact this) e he
    · exact sendAll_classes dflt rest _ _ ps e (fun x hx => hok x (by simp [hx])) h

open SmppVerif.Sender in
/-- Whatever goes wrong in one sender iteration is of a class the decoder / encoder models raise … -/
theorem iteration_classes (dflt : Enc) (ref : Nat) (seq : Int) (m : Sm) (h : ParamsOK m)
    (ps : List (List Nat)) (e : Exc) (hf : iteration dflt ref seq m = .failed ps e) : Caught e := by
  unfold iteration at hf
  split at hf
  · rename_i e' he
    cases hf
    exact safe_prepare dflt ref m e he
  · rename_i ms hms
    exact sendAll_classes dflt ms seq [] ps e (prepare_ok dflt ref m h ms hms) hf

open SmppVerif.Receiver in
/-- … and each of these classes lets the sender loop go on (the isinstance tuple of esme.py) -/
theorem sender_continues (e : Exc) (h : Caught e) (hne : e ≠ .runtimeError) :
    caughtBy Gen.Catch.senderContinues e = true := by
  cases e <;> simp only [Caught] at h <;> first | exact absurd rfl hne | decide +kernel

end SmppVerif.Lemmas.ClassesEnc
