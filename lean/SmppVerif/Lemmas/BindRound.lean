/- Round trip of bind_transmitter / bind_receiver / bind_transceiver and their responses (C03). -/
import SmppVerif.Lemmas.PduRead
import SmppVerif.Lemmas.SpecEncode

namespace SmppVerif.Lemmas.BindRound
open SmppVerif SmppVerif.Pdu SmppVerif.Lemmas.Pdu SmppVerif.Lemmas.PduRead SmppVerif.Lemmas.SpecEncode
open SmppVerif.Spec.Smpp (be)

/-- field values SMPP 3.4 allows for a bind request -/
structure BindWF (b : BindReq) : Prop where
  sid : CStrOK b.systemId ∧ b.systemId.length ≤ 15
  pw : CStrOK b.password ∧ b.password.length ≤ 8
  sty : CStrOK b.systemType ∧ b.systemType.length ≤ 12
  range : CStrOK b.addressRange ∧ b.addressRange.length ≤ 40
  iv : 0 ≤ b.interfaceVersion ∧ b.interfaceVersion < 256
  ton : enumHas Gen.Enums.ton b.addrTon = true
  npi : enumHas Gen.Enums.npi b.addrNpi = true

theorem be1 (v : Nat) (h : v < 256) : be 1 v = [v] := by
  simp [be, Nat.mod_eq_of_lt h]

theorem enum_lt_256_ton : ∀ v, enumHas Gen.Enums.ton v = true → v < 256 := by
  intro v h
  simp only [enumHas, List.any_eq_true, decide_eq_true_eq] at h
  obtain ⟨p, hp, rfl⟩ := h
  revert p
  decide +kernel

theorem enum_lt_256_npi : ∀ v, enumHas Gen.Enums.npi v = true → v < 256 := by
  intro v h
  simp only [enumHas, List.any_eq_true, decide_eq_true_eq] at h
  obtain ⟨p, hp, rfl⟩ := h
  revert p
  decide +kernel

theorem cstr_ok (s : List Nat) (h : CStrOK s) : cstr s = .ok (s ++ [0]) :=
  cstr_ascii s (fun c hc => (h c hc).1)

/-- the body `pdu()` writes for a bind request -/
theorem bind_body (b : BindReq) (w : BindWF b) :
    concatM [cstr b.systemId, cstr b.password, cstr b.systemType, packU 1 b.interfaceVersion,
      packU 1 ↑b.addrTon, packU 1 ↑b.addrNpi, cstr b.addressRange] =
    .ok (b.systemId ++ 0 :: (b.password ++ 0 :: (b.systemType ++ 0 ::
      (b.interfaceVersion.toNat :: b.addrTon :: b.addrNpi :: (b.addressRange ++ [0]))))) := by
  rw [cstr_ok _ w.sid.1, cstr_ok _ w.pw.1, cstr_ok _ w.sty.1, cstr_ok _ w.range.1,
    packU1 _ w.iv.1 w.iv.2, packU1n _ (enum_lt_256_ton _ w.ton), packU1n _ (enum_lt_256_npi _ w.npi)]
  have hiv : b.interfaceVersion.toNat < 256 := by have := w.iv; omega
  rw [be1 _ hiv, be1 _ (enum_lt_256_ton _ w.ton), be1 _ (enum_lt_256_npi _ w.npi)]
  have := concatM_oks [b.systemId ++ [0], b.password ++ [0], b.systemType ++ [0], [b.interfaceVersion.toNat],
    [b.addrTon], [b.addrNpi], b.addressRange ++ [0]]
  simp only [List.map_cons, List.map_nil] at this
  rw [this]
  simp

/-- what `from_pdu` reads back from such a buffer, whatever precedes it -/
theorem bindFromPdu_reads (hd : List Nat) (h16 : hd.length = 16) (h : Header) (b : BindReq) (w : BindWF b) :
    bindFromPdu (hd ++ (b.systemId ++ 0 :: (b.password ++ 0 :: (b.systemType ++ 0 ::
      (b.interfaceVersion.toNat :: b.addrTon :: b.addrNpi :: (b.addressRange ++ [0])))))) h =
    .ok { b with seq := h.seq, status := 0, interfaceVersion := b.interfaceVersion.toNat } := by
  unfold bindFromPdu
  simp only [bind, Except.bind, pure, Except.pure]
  -- system_id
  have r1 := getCStr_at hd b.systemId (b.password ++ 0 :: (b.systemType ++ 0 ::
      (b.interfaceVersion.toNat :: b.addrTon :: b.addrNpi :: (b.addressRange ++ [0])))) w.sid.1
  rw [h16] at r1
  rw [r1]
  simp only
  -- password
  have e2 : hd ++ (b.systemId ++ 0 :: (b.password ++ 0 :: (b.systemType ++ 0 ::
      (b.interfaceVersion.toNat :: b.addrTon :: b.addrNpi :: (b.addressRange ++ [0]))))) =
      (hd ++ b.systemId ++ [0]) ++ (b.password ++ 0 :: (b.systemType ++ 0 ::
      (b.interfaceVersion.toNat :: b.addrTon :: b.addrNpi :: (b.addressRange ++ [0])))) := by simp
  have l2 : (hd ++ b.systemId ++ [0]).length = 16 + b.systemId.length + 1 := by simp [h16]; try omega
  have r2 := getCStr_at (hd ++ b.systemId ++ [0]) b.password (b.systemType ++ 0 ::
      (b.interfaceVersion.toNat :: b.addrTon :: b.addrNpi :: (b.addressRange ++ [0]))) w.pw.1
  rw [l2, ← e2] at r2
  rw [r2]
  simp only
  -- system_type
  have e3 : hd ++ (b.systemId ++ 0 :: (b.password ++ 0 :: (b.systemType ++ 0 ::
      (b.interfaceVersion.toNat :: b.addrTon :: b.addrNpi :: (b.addressRange ++ [0]))))) =
      (hd ++ b.systemId ++ [0] ++ b.password ++ [0]) ++ (b.systemType ++ 0 ::
      (b.interfaceVersion.toNat :: b.addrTon :: b.addrNpi :: (b.addressRange ++ [0]))) := by simp
  have l3 : (hd ++ b.systemId ++ [0] ++ b.password ++ [0]).length =
      16 + b.systemId.length + 1 + b.password.length + 1 := by simp [h16]; try omega
  have r3 := getCStr_at (hd ++ b.systemId ++ [0] ++ b.password ++ [0]) b.systemType
      (b.interfaceVersion.toNat :: b.addrTon :: b.addrNpi :: (b.addressRange ++ [0])) w.sty.1
  rw [l3, ← e3] at r3
  rw [r3]
  simp only
  -- the three octets
  have e4 : hd ++ (b.systemId ++ 0 :: (b.password ++ 0 :: (b.systemType ++ 0 ::
      (b.interfaceVersion.toNat :: b.addrTon :: b.addrNpi :: (b.addressRange ++ [0]))))) =
      (hd ++ b.systemId ++ [0] ++ b.password ++ [0] ++ b.systemType ++ [0]) ++
      (b.interfaceVersion.toNat :: b.addrTon :: b.addrNpi :: (b.addressRange ++ [0])) := by simp
  have l4 : (hd ++ b.systemId ++ [0] ++ b.password ++ [0] ++ b.systemType ++ [0]).length =
      16 + b.systemId.length + 1 + b.password.length + 1 + b.systemType.length + 1 := by simp [h16]; try omega
  have u1 := unpackU1_at (hd ++ b.systemId ++ [0] ++ b.password ++ [0] ++ b.systemType ++ [0])
      b.interfaceVersion.toNat (b.addrTon :: b.addrNpi :: (b.addressRange ++ [0]))
  rw [l4, ← e4] at u1
  rw [u1]
  simp only
  have e5 : hd ++ (b.systemId ++ 0 :: (b.password ++ 0 :: (b.systemType ++ 0 ::
      (b.interfaceVersion.toNat :: b.addrTon :: b.addrNpi :: (b.addressRange ++ [0]))))) =
      (hd ++ b.systemId ++ [0] ++ b.password ++ [0] ++ b.systemType ++ [0] ++ [b.interfaceVersion.toNat]) ++
      (b.addrTon :: b.addrNpi :: (b.addressRange ++ [0])) := by simp
  have l5 : (hd ++ b.systemId ++ [0] ++ b.password ++ [0] ++ b.systemType ++ [0] ++ [b.interfaceVersion.toNat]).length =
      16 + b.systemId.length + 1 + b.password.length + 1 + b.systemType.length + 1 + 1 := by simp [h16]; try omega
  have u2 := unpackU1_at (hd ++ b.systemId ++ [0] ++ b.password ++ [0] ++ b.systemType ++ [0] ++ [b.interfaceVersion.toNat])
      b.addrTon (b.addrNpi :: (b.addressRange ++ [0]))
  rw [l5, ← e5] at u2
  rw [u2]
  simp only [enumVal, w.ton, if_true]
  have e6 : hd ++ (b.systemId ++ 0 :: (b.password ++ 0 :: (b.systemType ++ 0 ::
      (b.interfaceVersion.toNat :: b.addrTon :: b.addrNpi :: (b.addressRange ++ [0]))))) =
      (hd ++ b.systemId ++ [0] ++ b.password ++ [0] ++ b.systemType ++ [0] ++ [b.interfaceVersion.toNat] ++ [b.addrTon]) ++
      (b.addrNpi :: (b.addressRange ++ [0])) := by simp
  have l6 : (hd ++ b.systemId ++ [0] ++ b.password ++ [0] ++ b.systemType ++ [0] ++ [b.interfaceVersion.toNat] ++ [b.addrTon]).length =
      16 + b.systemId.length + 1 + b.password.length + 1 + b.systemType.length + 1 + 2 := by simp [h16]; try omega
  have u3 := unpackU1_at (hd ++ b.systemId ++ [0] ++ b.password ++ [0] ++ b.systemType ++ [0] ++ [b.interfaceVersion.toNat] ++ [b.addrTon])
      b.addrNpi (b.addressRange ++ [0])
  rw [l6, ← e6] at u3
  rw [u3]
  simp only [w.npi, if_true]
  have e7 : hd ++ (b.systemId ++ 0 :: (b.password ++ 0 :: (b.systemType ++ 0 ::
      (b.interfaceVersion.toNat :: b.addrTon :: b.addrNpi :: (b.addressRange ++ [0]))))) =
      (hd ++ b.systemId ++ [0] ++ b.password ++ [0] ++ b.systemType ++ [0] ++ [b.interfaceVersion.toNat] ++ [b.addrTon] ++ [b.addrNpi]) ++
      (b.addressRange ++ 0 :: []) := by simp
  have l7 : (hd ++ b.systemId ++ [0] ++ b.password ++ [0] ++ b.systemType ++ [0] ++ [b.interfaceVersion.toNat] ++ [b.addrTon] ++ [b.addrNpi]).length =
      16 + b.systemId.length + 1 + b.password.length + 1 + b.systemType.length + 1 + 3 := by simp [h16]; try omega
  have r4 := getCStr_at (hd ++ b.systemId ++ [0] ++ b.password ++ [0] ++ b.systemType ++ [0] ++ [b.interfaceVersion.toNat] ++ [b.addrTon] ++ [b.addrNpi])
      b.addressRange [] w.range.1
  rw [l7, ← e7] at r4
  rw [r4]
  simp only [checkLen, w.sid.2, w.pw.2, w.sty.2, w.range.2, if_true]

set_option maxRecDepth 8000 in
/-- ROUND TRIP of the three bind requests: every field comes back; the command_status of a request
    is not read (it is null on the wire by SMPP 3.4). -/
theorem bind_round_trip (dflt : Enc) (k : BindKind) (b : BindReq) (w : BindWF b) (bytes : List Nat) (e : Option Enc)
    (hst : enumHas Gen.Enums.smppCommandStatus b.status = true)
    (h : pdu dflt (Msg.bind k b) = .ok (bytes, e)) :
    decode bytes dflt = .ok (Msg.bind k { b with status := 0 }) := by
  have hp : pdu dflt (Msg.bind k b) =
      match concatM [cstr b.systemId, cstr b.password, cstr b.systemType, packU 1 b.interfaceVersion,
          packU 1 ↑b.addrTon, packU 1 ↑b.addrNpi, cstr b.addressRange] with
      | .error e => .error e
      | .ok body => (packHeader (16 + body.length) (Msg.bind k b)).map fun h => (h ++ body, none) := rfl
  rw [hp, bind_body b w] at h
  simp only at h
  cases hh : packHeader (16 + (b.systemId ++ 0 :: (b.password ++ 0 :: (b.systemType ++ 0 ::
      (b.interfaceVersion.toNat :: b.addrTon :: b.addrNpi :: (b.addressRange ++ [0]))))).length) (Msg.bind k b) with
  | error x => rw [hh] at h; cases h
  | ok hd =>
    rw [hh] at h
    simp only [Except.map, Except.ok.injEq, Prod.mk.injEq] at h
    obtain ⟨rfl, _⟩ := h
    have h16 := (packHeader_spec _ _ hd hh).1
    have hs := seq_nonneg_of_packHeader _ _ hd hh
    have hph := parseHeader_of_packHeader _ (Msg.bind k b) hd (b.systemId ++ 0 :: (b.password ++ 0 :: (b.systemType ++ 0 ::
      (b.interfaceVersion.toNat :: b.addrTon :: b.addrNpi :: (b.addressRange ++ [0]))))) hh hst
    unfold decode
    rw [hph]
    simp only
    have hiv : ((b.interfaceVersion.toNat : Nat) : Int) = b.interfaceVersion := Int.toNat_of_nonneg w.iv.1
    have hsq : (((Msg.bind k b).seq.toNat : Nat) : Int) = b.seq := Int.toNat_of_nonneg hs
    cases k <;>
    · simp only [fromPdu, Msg.command, bindCmd]
      rw [bindFromPdu_reads hd h16 _ b w]
      simp only [Except.map, Msg.seq, Msg.status] at hsq ⊢
      rw [hsq, hiv]

/-! ### bind responses -/

structure BindRespWF (b : BindResp) : Prop where
  sid : CStrOK b.systemId ∧ b.systemId.length ≤ 15
  sc : ∀ v, b.scVersion = some v → 0 ≤ v ∧ v < 256

theorem sc_tag_info : tagInfo Gen.Tlv.scInterfaceVersion = (0, 1) ∧ Gen.Tlv.scInterfaceVersion < 65536 := by
  decide +kernel

theorem sc_tlv_nat (n : Nat) (h : n < 256) :
    tlvBytes ⟨Gen.Tlv.scInterfaceVersion, .int n⟩ =
      .ok [Gen.Tlv.scInterfaceVersion / 256 % 256, Gen.Tlv.scInterfaceVersion % 256, 0, 1, n] := by
  rw [tlvBytes_int_eq_spec Gen.Tlv.scInterfaceVersion n 1 sc_tag_info.2 sc_tag_info.1 (Or.inl rfl) (by omega)]
  have hr : List.range 2 = [0, 1] := rfl
  have hr1 : List.range 1 = [0] := rfl
  simp [Spec.Smpp.OptParam.bytes, be, hr, hr1, Nat.mod_eq_of_lt h]

/-- the sc_interface_version parameter as written: tag, length 1, value -/
theorem sc_tlv (v : Int) (h : 0 ≤ v ∧ v < 256) :
    tlvBytes ⟨Gen.Tlv.scInterfaceVersion, .int v⟩ =
      .ok [Gen.Tlv.scInterfaceVersion / 256 % 256, Gen.Tlv.scInterfaceVersion % 256, 0, 1, v.toNat] := by
  have hv : v = ((v.toNat : Nat) : Int) := (Int.toNat_of_nonneg h.1).symm
  have := sc_tlv_nat v.toNat (by have := h.2; omega)
  rw [← hv] at this
  exact this

theorem bindRespFromPdu_reads (hd : List Nat) (h16 : hd.length = 16) (h : Header) (b : BindResp) (w : BindRespWF b)
    (tl : List Nat) (htl : (b.scVersion = none ∧ tl = []) ∨
      ∃ v, b.scVersion = some v ∧ tl = [Gen.Tlv.scInterfaceVersion / 256 % 256, Gen.Tlv.scInterfaceVersion % 256, 0, 1, v.toNat])
    (hlen : h.pduLength = 16 + b.systemId.length + 1 + tl.length) :
    bindRespFromPdu (hd ++ (b.systemId ++ 0 :: tl)) h =
      .ok { seq := h.seq, status := h.status, systemId := b.systemId,
            scVersion := b.scVersion.map fun v => ((v.toNat : Nat) : Int) } := by
  unfold bindRespFromPdu
  rw [if_neg (by omega)]
  simp only [bind, Except.bind, pure, Except.pure]
  have r1 := indexNul_at hd b.systemId tl (fun c hc => (w.sid.1 c hc).2)
  rw [h16] at r1
  rw [r1]
  simp only
  have hsl : slice (hd ++ (b.systemId ++ 0 :: tl)) 16 (16 + b.systemId.length) = b.systemId := by
    have := slice_mid hd b.systemId (0 :: tl)
    rwa [List.append_assoc, h16] at this
  rw [hsl, decodeAscii_of_lt _ (fun c hc => (w.sid.1 c hc).1)]
  simp only
  rcases htl with ⟨hn, rfl⟩ | ⟨v, hsv, rfl⟩
  · simp only [List.length_nil, Nat.add_zero] at hlen
    rw [if_neg (by omega)]
    simp only [checkLen, w.sid.2, if_true, hn, Option.map_none]
  · simp only [List.length_cons, List.length_nil] at hlen
    rw [if_pos (by omega), if_pos (by omega)]
    have e5 : hd ++ (b.systemId ++ 0 :: [Gen.Tlv.scInterfaceVersion / 256 % 256, Gen.Tlv.scInterfaceVersion % 256, 0, 1, v.toNat]) =
        (hd ++ b.systemId ++ [0] ++ [Gen.Tlv.scInterfaceVersion / 256 % 256, Gen.Tlv.scInterfaceVersion % 256, 0, 1]) ++ (v.toNat :: []) := by simp
    have l5 : (hd ++ b.systemId ++ [0] ++ [Gen.Tlv.scInterfaceVersion / 256 % 256, Gen.Tlv.scInterfaceVersion % 256, 0, 1]).length =
        16 + b.systemId.length + 1 + 4 := by simp [h16]; try omega
    have u := unpackU1_at (hd ++ b.systemId ++ [0] ++ [Gen.Tlv.scInterfaceVersion / 256 % 256, Gen.Tlv.scInterfaceVersion % 256, 0, 1]) v.toNat []
    rw [l5, ← e5] at u
    rw [u]
    simp only [Except.map, checkLen, w.sid.2, if_true, hsv, Option.map_some]

set_option maxRecDepth 8000 in
/-- ROUND TRIP of the three bind responses: status, sequence number, system_id and the optional
    sc_interface_version (absent, or any value 0..255) come back. -/
theorem bindResp_round_trip (dflt : Enc) (k : BindKind) (b : BindResp) (w : BindRespWF b) (bytes : List Nat) (e : Option Enc)
    (hst : enumHas Gen.Enums.smppCommandStatus b.status = true)
    (h : pdu dflt (Msg.bindResp k b) = .ok (bytes, e)) :
    decode bytes dflt = .ok (Msg.bindResp k b) := by
  have hp : pdu dflt (Msg.bindResp k b) =
      match concatM [cstr b.systemId,
          (match b.scVersion with
           | none => .ok []
           | some v => tlvBytes ⟨Gen.Tlv.scInterfaceVersion, .int v⟩)] with
      | .error e => .error e
      | .ok body => (packHeader (16 + body.length) (Msg.bindResp k b)).map fun h => (h ++ body, none) := rfl
  obtain ⟨tl, htl, hbody⟩ : ∃ tl, ((b.scVersion = none ∧ tl = []) ∨
      ∃ v, b.scVersion = some v ∧ tl = [Gen.Tlv.scInterfaceVersion / 256 % 256, Gen.Tlv.scInterfaceVersion % 256, 0, 1, v.toNat]) ∧
      concatM [cstr b.systemId,
          (match b.scVersion with
           | none => .ok []
           | some v => tlvBytes ⟨Gen.Tlv.scInterfaceVersion, .int v⟩)] = .ok (b.systemId ++ 0 :: tl) := by
    cases hsc : b.scVersion with
    | none =>
      refine ⟨[], Or.inl ⟨rfl, rfl⟩, ?_⟩
      simp only [cstr_ok _ w.sid.1]
      have := concatM_oks [b.systemId ++ [0], []]
      simp only [List.map_cons, List.map_nil] at this
      rw [this]; simp
    | some v =>
      refine ⟨_, Or.inr ⟨v, rfl, rfl⟩, ?_⟩
      simp only [cstr_ok _ w.sid.1, sc_tlv v (w.sc v hsc)]
      have := concatM_oks [b.systemId ++ [0], [Gen.Tlv.scInterfaceVersion / 256 % 256, Gen.Tlv.scInterfaceVersion % 256, 0, 1, v.toNat]]
      simp only [List.map_cons, List.map_nil] at this
      rw [this]; simp
  rw [hp, hbody] at h
  simp only at h
  cases hh : packHeader (16 + (b.systemId ++ 0 :: tl).length) (Msg.bindResp k b) with
  | error x => rw [hh] at h; cases h
  | ok hd =>
    rw [hh] at h
    simp only [Except.map, Except.ok.injEq, Prod.mk.injEq] at h
    obtain ⟨rfl, _⟩ := h
    have h16 := (packHeader_spec _ _ hd hh).1
    have hs := seq_nonneg_of_packHeader _ _ hd hh
    have hph := parseHeader_of_packHeader _ (Msg.bindResp k b) hd (b.systemId ++ 0 :: tl) hh hst
    unfold decode
    rw [hph]
    simp only
    have hsq : (((Msg.bindResp k b).seq.toNat : Nat) : Int) = b.seq := Int.toNat_of_nonneg hs
    have hscm : (b.scVersion.map fun v => ((v.toNat : Nat) : Int)) = b.scVersion := by
      cases hsc : b.scVersion with
      | none => rfl
      | some v => simp only [Option.map_some]; rw [Int.toNat_of_nonneg (w.sc v hsc).1]
    cases k <;>
    · simp only [fromPdu, Msg.command, bindCmd]
      rw [bindRespFromPdu_reads hd h16 _ b w tl htl (by simp; omega)]
      simp only [Except.map, Msg.seq, Msg.status] at hsq ⊢
      rw [hsq, hscm]

end SmppVerif.Lemmas.BindRound
