/- Helper lemmas for C11: the pack/unpack loops equal the radix-change specification. -/
import SmppVerif.Model.Packed
import SmppVerif.Spec.Packing
import SmppVerif.Lemmas.Gsm

namespace SmppVerif.Lemmas.Packed
open SmppVerif SmppVerif.Packed SmppVerif.Spec.Packing

/-! ### pack -/

theorem and_ff (x : Nat) : x &&& 0xFF = x % 256 := by
  have := Nat.and_two_pow_sub_one_eq_mod x 8
  simpa using this

theorem byte_eq (a b V k : Nat) (ha : a < 128) (hb : b < 128) (hk : k ≤ 6) :
    (a >>> k) + ((b <<< (7 - k)) &&& 0xFF) = ((a + 128 * (b + 128 * V)) / 2 ^ k) % 256 := by
  rw [and_ff, Nat.shiftLeft_eq, Nat.shiftRight_eq_div_pow]
  have : k = 0 ∨ k = 1 ∨ k = 2 ∨ k = 3 ∨ k = 4 ∨ k = 5 ∨ k = 6 := by omega
  rcases this with rfl | rfl | rfl | rfl | rfl | rfl | rfl <;> simp <;> omega

theorem byte_lt (a b k : Nat) (ha : a < 128) (hb : b < 128) (hk : k ≤ 6) :
    (a >>> k) + ((b <<< (7 - k)) &&& 0xFF) < 256 := by
  rw [byte_eq a b 0 k ha hb hk]; omega

theorem val128_div (a V k : Nat) (ha : a < 128) (hk : k ≤ 5) :
    (a + 128 * V) / 2 ^ k / 256 = V / 2 ^ (k + 1) := by
  have : k = 0 ∨ k = 1 ∨ k = 2 ∨ k = 3 ∨ k = 4 ∨ k = 5 := by omega
  rcases this with rfl | rfl | rfl | rfl | rfl | rfl <;> simp <;> omega

theorem val128_div6 (a b V : Nat) (ha : a < 128) (hb : b < 128) :
    (a + 128 * (b + 128 * V)) / 2 ^ 6 / 256 = V := by
  simp; omega

theorem drop_two {l : List Nat} {c a b : Nat} {rest : List Nat} (h : l.drop c = a :: b :: rest) :
    l[c]? = some a ∧ l[c + 1]? = some b ∧ l.drop (c + 1) = b :: rest ∧ l.drop (c + 2) = rest := by
  have h0 : (l.drop c)[0]? = some a := by rw [h]; rfl
  have h1 : (l.drop c)[1]? = some b := by rw [h]; rfl
  rw [List.getElem?_drop] at h0 h1
  have d1 : l.drop (c + 1) = (l.drop c).drop 1 := by rw [List.drop_drop]
  have d2 : l.drop (c + 2) = (l.drop c).drop 2 := by rw [List.drop_drop]
  refine ⟨by simpa using h0, by simpa using h1, ?_, ?_⟩
  · rw [d1, h]; rfl
  · rw [d2, h]; rfl

/-- The loop invariant: with `k = index % 7` and enough septets left, the remaining output is
    the base-256 digits of the remaining base-128 value shifted by `k` bits. -/
theorem packLoop_eq (codes : List Nat) (hlt : AllLt 128 codes) :
    ∀ (n index count : Nat), 8 * n + index % 7 ≤ 7 * (codes.length - count) →
      packLoop codes n index count
        = .ok (bytesOf n (val128 (codes.drop count) / 2 ^ (index % 7)))
  | 0, _, _, _ => by simp [packLoop, bytesOf]
  | n + 1, index, count, hlen => by
    have hk : index % 7 ≤ 6 := by omega
    -- at least two codes are left
    have hl2 : 2 ≤ (codes.drop count).length := by rw [List.length_drop]; omega
    match hd : codes.drop count, hl2 with
    | a :: b :: rest, _ =>
      obtain ⟨g0, g1, d1, d2⟩ := drop_two hd
      have hmem : ∀ x ∈ a :: b :: rest, x < 128 := by
        intro x hx; rw [← hd] at hx; exact hlt x (List.mem_of_mem_drop hx)
      have ha : a < 128 := hmem a (by simp)
      have hb : b < 128 := hmem b (by simp)
      have hrl : rest.length + 2 = codes.length - count := by
        have := congrArg List.length hd; simp at this; omega
      rw [packLoop]
      simp only [g0, g1, byte_lt a b (index % 7) ha hb hk, if_true]
      by_cases h6 : index % 7 = 6
      · have hi : (index + 1) % 7 = 0 := by omega
        have ih := packLoop_eq codes hlt n (index + 1) (count + 2) (by omega)
        simp only [h6, if_true] at ih ⊢
        rw [ih, d2, hi]
        simp only [bytesOf, val128]
        have e := byte_eq a b (val128 rest) 6 ha hb (by omega)
        have e2 := val128_div6 a b (val128 rest) ha hb
        simp only [Nat.pow_zero, Nat.div_one]
        rw [e, e2]
      · have hi : (index + 1) % 7 = index % 7 + 1 := by omega
        have ih := packLoop_eq codes hlt n (index + 1) (count + 1) (by omega)
        simp only [h6, if_false] at ih ⊢
        rw [ih, d1, hi]
        simp only [bytesOf, val128]
        have e := byte_eq a b (val128 rest) (index % 7) ha hb hk
        have e2 := val128_div a (b + 128 * val128 rest) (index % 7) ha (by omega)
        rw [e, e2]

theorem msgLen_eq (n : Nat) : msgLen n = octetCount n := by
  unfold msgLen octetCount; split <;> omega

theorem val128_append_zero (s : List Nat) : val128 (s ++ [0]) = val128 s := by
  induction s with
  | nil => rfl
  | cons a t ih => simp [val128, ih]

theorem allLt_append_zero {s : List Nat} (h : AllLt 128 s) : AllLt 128 (s ++ [0]) := by
  intro x hx
  rcases List.mem_append.mp hx with h1 | h1
  · exact h x h1
  · simp at h1; omega

theorem packCodes_eq_spec (s : List Nat) (h : AllLt 128 s) : packCodes s = .ok (pack s) := by
  unfold packCodes pack
  have := packLoop_eq (s ++ [0]) (allLt_append_zero h) (msgLen s.length) 0 0
    (by rw [msgLen_eq]; unfold octetCount; simp; omega)
  rw [this, msgLen_eq]
  simp [val128_append_zero]

/-! ### unpack -/

theorem and_mask (byte k : Nat) (hk : k ≤ 6) : byte &&& (0x7F >>> k) = byte % 2 ^ (7 - k) := by
  have : k = 0 ∨ k = 1 ∨ k = 2 ∨ k = 3 ∨ k = 4 ∨ k = 5 ∨ k = 6 := by omega
  rcases this with rfl | rfl | rfl | rfl | rfl | rfl | rfl
  · exact Nat.and_two_pow_sub_one_eq_mod byte 7
  · exact Nat.and_two_pow_sub_one_eq_mod byte 6
  · exact Nat.and_two_pow_sub_one_eq_mod byte 5
  · exact Nat.and_two_pow_sub_one_eq_mod byte 4
  · exact Nat.and_two_pow_sub_one_eq_mod byte 3
  · exact Nat.and_two_pow_sub_one_eq_mod byte 2
  · exact Nat.and_two_pow_sub_one_eq_mod byte 1

theorem out_eq (byte last W k : Nat) (hl : last < 2 ^ k) (hk : k ≤ 6) :
    ((byte &&& (0x7F >>> k)) <<< k) + last = (last + 2 ^ k * (byte + 256 * W)) % 128 ∧
    (last + 2 ^ k * (byte + 256 * W)) / 128 = byte >>> (7 - k) + 2 ^ (k + 1) * W ∧
    byte >>> (7 - k) < 2 ^ (k + 1) * (byte / 256 + 1) := by
  rw [and_mask byte k hk, Nat.shiftLeft_eq, Nat.shiftRight_eq_div_pow]
  have : k = 0 ∨ k = 1 ∨ k = 2 ∨ k = 3 ∨ k = 4 ∨ k = 5 ∨ k = 6 := by omega
  rcases this with rfl | rfl | rfl | rfl | rfl | rfl | rfl <;> simp at hl ⊢ <;> omega

/-- number of septets the loop emits from state `count` on `n` octets -/
def emitted (count n : Nat) : Nat := (count + 8 * n) / 7

theorem unpackLoop_eq : ∀ (bytes : List Nat) (count last : Nat), count ≤ 6 → last < 2 ^ count →
    AllLt 256 bytes →
    unpackLoop count last bytes
      = septetsOf (emitted count bytes.length) (last + 2 ^ count * val256 bytes)
  | [], count, last, hc, _, _ => by
    have : emitted count 0 = 0 := by unfold emitted; omega
    simp [unpackLoop, this, septetsOf]
  | byte :: rest, count, last, hc, hl, hb => by
    have hbyte : byte < 256 := hb byte (by simp)
    have hrest : AllLt 256 rest := fun x hx => hb x (by simp [hx])
    obtain ⟨e1, e2, e3⟩ := out_eq byte last (val256 rest) count hl hc
    have hlast' : byte >>> (7 - count) < 2 ^ (count + 1) := by
      have : byte / 256 = 0 := by omega
      rw [this] at e3; simpa using e3
    rw [unpackLoop]
    by_cases h6 : count = 6
    · subst h6
      have hem : emitted 6 (rest.length + 1) = emitted 0 rest.length + 2 := by
        unfold emitted; omega
      have ih := unpackLoop_eq rest 0 0 (by omega) (by simp) hrest
      simp only [if_true, List.length_cons, hem, septetsOf, val256]
      rw [ih, e1, e2]
      have hl7 : byte >>> (7 - 6) < 128 := by simpa using hlast'
      have m1 : (byte >>> (7 - 6) + 2 ^ (6 + 1) * val256 rest) % 128 = byte >>> (7 - 6) := by
        simp; omega
      have m2 : (byte >>> (7 - 6) + 2 ^ (6 + 1) * val256 rest) / 128 = val256 rest := by
        simp; omega
      rw [m1, m2]; simp
    · have hc' : (count + 1) % 7 = count + 1 := by omega
      have hem : emitted count (rest.length + 1) = emitted (count + 1) rest.length + 1 := by
        unfold emitted; omega
      have ih := unpackLoop_eq rest (count + 1) (byte >>> (7 - count)) (by omega) hlast' hrest
      simp only [h6, if_false, List.length_cons, hem, septetsOf, val256, hc']
      rw [ih, e1, e2]

theorem unpack_eq_spec (b : List Nat) (h : AllLt 256 b) : Packed.unpack b = Spec.Packing.unpack b := by
  unfold Packed.unpack Spec.Packing.unpack
  rw [unpackLoop_eq b 0 0 (by omega) (by simp) h]
  simp [emitted, septetCount]

/-! ### radix lemmas and the round trip -/

theorem bytesOf_lt (n v : Nat) : AllLt 256 (bytesOf n v) := by
  induction n generalizing v with
  | zero => intro x hx; cases hx
  | succ n ih =>
    intro x hx
    simp [bytesOf] at hx
    rcases hx with rfl | hx
    · omega
    · exact ih _ x hx

theorem bytesOf_length (n v : Nat) : (bytesOf n v).length = n := by
  induction n generalizing v with
  | zero => rfl
  | succ n ih => simp [bytesOf, ih]

theorem val256_bytesOf (n v : Nat) : val256 (bytesOf n v) = v % 256 ^ n := by
  induction n generalizing v with
  | zero => simp [bytesOf, val256, Nat.mod_one]
  | succ n ih =>
    simp only [bytesOf, val256, ih]
    rw [Nat.pow_succ, Nat.mul_comm (256 ^ n) 256, Nat.mod_mul]

theorem val128_lt (s : List Nat) (h : AllLt 128 s) : val128 s < 128 ^ s.length := by
  induction s with
  | nil => simp [val128]
  | cons a t ih =>
    have ha : a < 128 := h a (by simp)
    have := ih (fun x hx => h x (by simp [hx]))
    simp only [val128, List.length_cons, Nat.pow_succ]
    omega

theorem septetsOf_val128 (s : List Nat) (h : AllLt 128 s) (m : Nat) :
    septetsOf (s.length + m) (val128 s) = s ++ List.replicate m 0 := by
  induction s with
  | nil =>
    simp only [List.length_nil, Nat.zero_add, val128, List.nil_append]
    induction m with
    | zero => rfl
    | succ m ih => simp [septetsOf, List.replicate_succ, ih]
  | cons a t ih =>
    have ha : a < 128 := h a (by simp)
    have := ih (fun x hx => h x (by simp [hx]))
    have e : t.length + 1 + m = (t.length + m) + 1 := by omega
    simp only [List.length_cons, e, septetsOf, val128, List.cons_append]
    have m1 : (a + 128 * val128 t) % 128 = a := by omega
    have m2 : (a + 128 * val128 t) / 128 = val128 t := by omega
    rw [m1, m2, this]

theorem pow_bound (L : Nat) : 128 ^ L ≤ 256 ^ octetCount L := by
  have h1 : (128 : Nat) ^ L = 2 ^ (7 * L) := by
    rw [show (128 : Nat) = 2 ^ 7 from rfl, ← Nat.pow_mul]
  have h2 : (256 : Nat) ^ octetCount L = 2 ^ (8 * octetCount L) := by
    rw [show (256 : Nat) = 2 ^ 8 from rfl, ← Nat.pow_mul]
  rw [h1, h2]
  apply Nat.pow_le_pow_right (by omega)
  unfold octetCount; omega

theorem septetCount_octetCount (L : Nat) :
    septetCount (octetCount L) = L + (if L % 8 = 7 then 1 else 0) := by
  unfold septetCount octetCount
  have hL := Nat.div_add_mod L 8
  have hr := Nat.mod_lt L (show 8 > 0 by omega)
  generalize L / 8 = q at hL
  generalize L % 8 = r at hL hr
  subst hL
  have : r = 0 ∨ r = 1 ∨ r = 2 ∨ r = 3 ∨ r = 4 ∨ r = 5 ∨ r = 6 ∨ r = 7 := by omega
  rcases this with rfl | rfl | rfl | rfl | rfl | rfl | rfl | rfl <;> simp <;> omega

/-- Unpacking what packing produced recovers the septets; the only difference is the
    standard's own ambiguity: one extra zero septet when 8n-1 septets leave seven pad bits. -/
theorem unpack_pack (s : List Nat) (h : AllLt 128 s) :
    Spec.Packing.unpack (pack s) = s ++ (if s.length % 8 = 7 then [0] else []) := by
  unfold Spec.Packing.unpack pack
  rw [val256_bytesOf, bytesOf_length]
  have hv := val128_lt s h
  have hb := pow_bound s.length
  rw [Nat.mod_eq_of_lt (by omega)]
  rw [septetCount_octetCount]
  by_cases h7 : s.length % 8 = 7
  · simp only [h7, if_true]
    rw [septetsOf_val128 s h 1]; rfl
  · simp only [h7, if_false]
    rw [septetsOf_val128 s h 0]; simp

theorem pack_lt (s : List Nat) : AllLt 256 (pack s) := bytesOf_lt _ _

/-! ### text level -/

theorem basicDecode_total : ∀ k ∈ List.range 128, k ≠ Gen.Gsm.escape →
    (alookup Gen.Gsm.basicDecode k).isSome = true := by decide +kernel

/-- On septets (< 128) the packed decoder's character assembly coincides with the unpacked
    decoder's loop: its missing error handling is unreachable. -/
theorem decodeSeptets_eq (m : Mode) : ∀ (ss : List Nat) (e : Bool), AllLt 128 ss →
    decodeSeptets m e ss = Gsm.decodeLoop m e ss
  | [], e, _ => by rw [decodeSeptets.eq_def, Gsm.decodeLoop.eq_def]; cases e <;> cases m <;> rfl
  | s :: ss, e, h => by
    have hs : s < 128 := h s (by simp)
    have hss : AllLt 128 ss := fun x hx => h x (by simp [hx])
    rw [decodeSeptets.eq_def, Gsm.decodeLoop.eq_def]
    simp only
    by_cases hesc : s = Gen.Gsm.escape
    · simp only [Gsm.decodeChar, hesc, if_true]
      exact decodeSeptets_eq m ss true hss
    · cases e with
      | true =>
        simp only [Gsm.decodeChar, hesc, if_false, if_true]
        rw [decodeSeptets_eq m ss false hss]
        cases Gsm.decodeLoop m false ss <;> rfl
      | false =>
        have hsome := basicDecode_total s (List.mem_range.mpr hs) hesc
        simp only [Gsm.decodeChar, hesc, if_false, Bool.false_eq_true]
        cases hd : alookup Gen.Gsm.basicDecode s with
        | none => rw [hd] at hsome; cases hsome
        | some c =>
          simp only
          rw [decodeSeptets_eq m ss false hss]
          cases Gsm.decodeLoop m false ss <;> rfl

theorem zero_decodes : alookup Gen.Gsm.basicDecode 0 = some 0x40 ∧ (0 : Nat) ≠ Gen.Gsm.escape := by
  decide +kernel

/-- Text round trip of the packed codec, every length and alignment. -/
theorem decode_encode (m : Mode) (t : List Nat) (h : Gsm.isGsmText t = true) :
    ∃ b, Packed.encode .strict t = .ok b ∧
      Packed.decode m b = .ok (t ++ (if (Gsm.septetLength t) % 8 = 7 then [0x40] else [])) := by
  obtain ⟨ks, hks⟩ := (Lemmas.Gsm.toGsmCodes_strict_ok_iff t).mpr h
  have hlt := Lemmas.Gsm.toGsmCodes_strict_lt t ks hks
  have hlen : ks.length = Gsm.septetLength t := by
    rw [Lemmas.Gsm.codes_length t ks hks]; rfl
  refine ⟨pack ks, ?_, ?_⟩
  · unfold Packed.encode; rw [hks]; exact packCodes_eq_spec ks hlt
  · unfold Packed.decode
    rw [unpack_eq_spec _ (pack_lt ks), unpack_pack ks hlt, hlen]
    have hall : AllLt 128 (ks ++ if Gsm.septetLength t % 8 = 7 then [0] else []) := by
      intro x hx
      rcases List.mem_append.mp hx with h1 | h1
      · exact hlt x h1
      · split at h1 <;> simp at h1; omega
    rw [decodeSeptets_eq m _ false hall, Lemmas.Gsm.decode_prefix m t ks _ hks]
    split
    · rw [Lemmas.Gsm.decodeLoop_basic m 0 0x40 [] zero_decodes.2 zero_decodes.1,
        Lemmas.Gsm.decodeLoop_nil]; rfl
    · rw [Lemmas.Gsm.decodeLoop_nil]; simp [Except.map]

end SmppVerif.Lemmas.Packed
