/- Helper lemmas for C02 at history level (unsegmented messages): the delivery store entry under a message id
   is created exactly by the acceptance of a request under that id and stays until it is used or too old. -/
import SmppVerif.Lemmas.History

namespace SmppVerif.Lemmas.RcptHistory
open SmppVerif SmppVerif.Corr SmppVerif.Lemmas.Corr SmppVerif.Lemmas.Expiry SmppVerif.Lemmas.Ledger
open SmppVerif.Lemmas.History

/-! ### filtered dictionaries -/

section AList
variable {κ ν : Type} [DecidableEq κ]

theorem aget_none_iff (d : List (κ × ν)) (k : κ) : aget d k = none ↔ ∀ p ∈ d, p.1 ≠ k := by
  induction d with
  | nil => simp [aget]
  | cons p rest ih =>
    obtain ⟨k0, v0⟩ := p
    by_cases e : k0 = k
    · simp [aget, e]
    · simp [aget, e, ih]

theorem aget_filter_none (d : List (κ × ν)) (f : κ × ν → Bool) (k : κ) (h : aget d k = none) :
    aget (d.filter f) k = none := by
  rw [aget_none_iff] at h ⊢
  intro p hp
  exact h p (List.mem_filter.mp hp).1

theorem aget_filter_some (d : List (κ × ν)) (f : κ × ν → Bool) (k : κ) (v : ν) (h : aget d k = some v)
    (hf : f (k, v) = true) : aget (d.filter f) k = some v := by
  induction d with
  | nil => simp [aget] at h
  | cons p rest ih =>
    obtain ⟨k0, v0⟩ := p
    by_cases e : k0 = k
    · subst e
      simp only [aget, if_true, Option.some.injEq] at h
      subst h
      simp [List.filter, hf, aget]
    · simp only [aget, e, if_false] at h
      by_cases hp : f (k0, v0) = true
      · simp [List.filter, hp, aget, e, ih h]
      · simp [List.filter, hp, ih h]

end AList

/-! ### what each step does to the delivery store -/

/-- the delivery store and its time-to-live are the same -/
def SameDS (a b : CState) : Prop := a.delivStore = b.delivStore ∧ a.ttlDeliv = b.ttlDeliv

theorem SameDS.refl (a : CState) : SameDS a a := ⟨rfl, rfl⟩
theorem SameDS.trans {a b c : CState} (h1 : SameDS a b) (h2 : SameDS b c) : SameDS a c :=
  ⟨h1.1.trans h2.1, h1.2.trans h2.2⟩
theorem SameDS.of {a b : CState} (h : SameDeliv a b) : SameDS a b := ⟨h.2.1, h.2.2.1⟩

theorem updateSeg_ds (s0 : CState) (tr o : Msg) : SameDS (updateSegOnResponse s0 tr o) s0 := by
  unfold updateSegOnResponse
  split
  · split
    · split <;> exact ⟨rfl, rfl⟩
    · exact ⟨rfl, rfl⟩
  · exact ⟨rfl, rfl⟩

theorem fixLast_ds (s : CState) (a b : Msg) : SameDS (fixLast s a b) s := by
  unfold fixLast
  split
  · split
    · split <;> exact ⟨rfl, rfl⟩
    · exact ⟨rfl, rfl⟩
  · exact ⟨rfl, rfl⟩

theorem getSegmented_ds (s : CState) (x : Nat) (rm : Bool) : SameDS (getSegmented s x rm).1 s := by
  unfold getSegmented
  cases aget s.segStore x with
  | none => exact ⟨rfl, rfl⟩
  | some pr =>
    dsimp only
    cases rm with
    | false =>
      simp only [Bool.false_eq_true, if_false]
      split
      · exact ⟨rfl, rfl⟩
      · exact SameDS.of (Lemmas.Corr.cumulated_frame s pr.1)
    | true =>
      simp only [if_true]
      split
      · exact ⟨rfl, rfl⟩
      · exact (SameDS.of (Lemmas.Corr.cumulated_frame { s with segStore := adel s.segStore x } pr.1)).trans ⟨rfl, rfl⟩

/-- the sweep drops from the delivery store exactly what is older than the delivery time-to-live -/
theorem removeExpired_ds (s : CState) (now : Nat) :
    (removeExpired s now).1.delivStore = s.delivStore.filter (fun p => ¬ (now - p.2.1 > s.ttlDeliv)) ∧
      (removeExpired s now).1.ttlDeliv = s.ttlDeliv := by
  unfold removeExpired
  dsimp only
  obtain ⟨_, h2, h3, _⟩ := sweepStore_frame now (s.store.map (·.1)) s
  rw [h2, h3]
  exact ⟨rfl, rfl⟩

/-- the entry under `id` is absent -/
def Absent (id : List Nat) (s : CState) : Prop := aget s.delivStore id = none

/-- the entry under `id` is the request `m`, recorded at `t1` -/
def Held (id : List Nat) (t1 : Nat) (m : Msg) (s : CState) : Prop := aget s.delivStore id = some (t1, m)

theorem Absent.of_same {id : List Nat} {s s' : CState} (h : Absent id s) (e : SameDS s' s) : Absent id s' := by
  unfold Absent; rw [e.1]; exact h

theorem Held.of_same {id : List Nat} {t1 : Nat} {m : Msg} {s s' : CState} (h : Held id t1 m s) (e : SameDS s' s) :
    Held id t1 m s' := by
  unfold Held; rw [e.1]; exact h

theorem removeExpired_absent (id : List Nat) (s : CState) (now : Nat) (h : Absent id s) :
    Absent id (removeExpired s now).1 := by
  unfold Absent
  rw [(removeExpired_ds s now).1]
  exact aget_filter_none _ _ _ h

theorem removeExpired_held (id : List Nat) (t1 : Nat) (m : Msg) (s : CState) (now : Nat) (h : Held id t1 m s)
    (hn : now - t1 ≤ s.ttlDeliv) : Held id t1 m (removeExpired s now).1 := by
  unfold Held
  rw [(removeExpired_ds s now).1]
  apply aget_filter_some _ _ _ _ h
  simp; omega

/-- an operation that is not the acceptance of a request under `id` -/
def NotAccept (id : List Nat) : Op → Prop
  | .resp _ r => ¬ (r.kind = .submitSmResp ∧ r.status = 0 ∧ r.msgId = id)
  | _ => True

/-- … and not a receipt naming `id` either, and not later than the delivery time-to-live after `t1` -/
def Keeps (id : List Nat) (t1 ttlD : Nat) : Op → Prop
  | .put now _ => now - t1 ≤ ttlD
  | .resp now r => now - t1 ≤ ttlD ∧ ¬ (r.kind = .submitSmResp ∧ r.status = 0 ∧ r.msgId = id)
  | .deliver now d => now - t1 ≤ ttlD ∧ ¬ (d.isReceipt = true ∧ d.rcptId = id)

theorem put_ds (s : CState) (now : Nat) (m : Msg) :
    (put s now m).1.delivStore = (removeExpired s now).1.delivStore ∧ (put s now m).1.ttlDeliv = s.ttlDeliv := by
  have ht := (removeExpired_ds s now).2
  unfold put
  generalize removeExpired s now = r at ht ⊢
  obtain ⟨s1, outs⟩ := r
  dsimp only at ht ⊢
  split <;> exact ⟨rfl, ht⟩

theorem get_ds (s : CState) (now : Nat) (resp : Msg) :
    ∃ u, SameDS u s ∧ (Corr.get s now resp).1 = (removeExpired u now).1 := by
  unfold Corr.get
  cases aget s.store resp.seq with
  | none => exact ⟨s, SameDS.refl s, rfl⟩
  | some pr =>
    obtain ⟨t0, o⟩ := pr
    exact ⟨updateSegOnResponse { s with store := adel s.store resp.seq } (track resp o) o,
      (updateSeg_ds _ _ _).trans ⟨rfl, rfl⟩, rfl⟩

theorem ttlDeliv_removeExpired (s : CState) (now : Nat) : (removeExpired s now).1.ttlDeliv = s.ttlDeliv :=
  (removeExpired_ds s now).2

/-- the state of `handleResponse`: the one `get` left, or that of the attributable branch -/
theorem handleResponse_state (s : CState) (now : Nat) (resp : Msg) :
    (handleResponse s now resp).1 = (Corr.get s now resp).1 ∨
    ∃ o, (Corr.get s now resp).2.2 = some o ∧ attributable resp o = true ∧
      (handleResponse s now resp).1 = (attrBranch (Corr.get s now resp).1 now resp o).1 := by
  rw [handleResponse_eq]
  cases hres : (Corr.get s now resp).2.2 with
  | none => exact Or.inl rfl
  | some o =>
    dsimp only
    split
    · exact Or.inl rfl
    · split
      · rename_i h
        exact Or.inr ⟨o, rfl, h, rfl⟩
      · exact Or.inl rfl

/-- the delivery store after the attributable branch -/
theorem attrBranch_ds (g1 : CState) (now : Nat) (resp o : Msg) :
    ((resp.kind = .submitSmResp ∧ resp.status = 0) ∧
      (attrBranch g1 now resp o).1.delivStore = aset (removeExpired (fixLast g1 resp { resp with logId := o.logId, extra := o.extra }) now).1.delivStore resp.msgId (now, o) ∧
      (attrBranch g1 now resp o).1.ttlDeliv = g1.ttlDeliv) ∨
    (¬ (resp.kind = .submitSmResp ∧ resp.status = 0) ∧ SameDS (attrBranch g1 now resp o).1 g1) := by
  unfold attrBranch
  dsimp only
  by_cases h : resp.kind = .submitSmResp ∧ resp.status = 0
  · rw [if_pos h]
    refine Or.inl ⟨h, ?_, ?_⟩
    · rw [(getSegmented_ds _ _ _).1]; rfl
    · rw [(getSegmented_ds _ _ _).2]
      unfold putDelivery
      dsimp only
      rw [ttlDeliv_removeExpired, (fixLast_ds _ _ _).2]
  · rw [if_neg h]
    exact Or.inr ⟨h, (getSegmented_ds _ _ _).trans (fixLast_ds _ _ _)⟩

/-- `rcptState` only pops the entry named by the receipt -/
theorem rcptState_ds (s : CState) (d : Msg) : (rcptState s d).delivStore = adel s.delivStore d.rcptId := by
  unfold rcptState
  dsimp only
  split
  · split
    · split <;> rfl
    · rfl
  · rfl

theorem rcptState_ttl (s : CState) (d : Msg) : (rcptState s d).ttlDeliv = s.ttlDeliv := by
  unfold rcptState
  dsimp only
  split
  · split
    · split <;> rfl
    · rfl
  · rfl

theorem rcptState_inv_store (s : CState) (d : Msg) : (rcptState s d).store = s.store ∧ (rcptState s d).ttlResp = s.ttlResp := by
  unfold rcptState
  dsimp only
  split
  · split
    · split <;> exact ⟨rfl, rfl⟩
    · exact ⟨rfl, rfl⟩
  · exact ⟨rfl, rfl⟩

/-! ### absence is kept by everything but an acceptance under that id -/

theorem step_absent (id : List Nat) (s : CState) (op : Op) (h : Absent id s) (hn : NotAccept id op) :
    Absent id (stepOp s op).1 := by
  cases op with
  | put now m =>
    show Absent id (put s now m).1
    unfold Absent
    rw [(put_ds s now m).1]
    exact removeExpired_absent id s now h
  | resp now r =>
    show Absent id (handleResponse s now r).1
    obtain ⟨u, hu, hg⟩ := get_ds s now r
    have hga : Absent id (Corr.get s now r).1 := by
      rw [hg]; exact removeExpired_absent id u now (h.of_same hu)
    rcases handleResponse_state s now r with e | ⟨o, _, _, e⟩
    · rw [e]; exact hga
    · rw [e]
      rcases attrBranch_ds (Corr.get s now r).1 now r o with ⟨hacc, hd, _⟩ | ⟨_, hd⟩
      · unfold Absent
        rw [hd]
        have hne : id ≠ r.msgId := fun e' => hn ⟨hacc.1, hacc.2, e'.symm⟩
        rw [aget_aset_other _ _ _ _ hne]
        exact removeExpired_absent id _ now (hga.of_same (fixLast_ds _ _ _))
      · exact hga.of_same hd
  | deliver now d =>
    show Absent id (handleDeliver s now d).1
    unfold handleDeliver
    split
    · split
      · exact h
      · dsimp only
        have hgd : Absent id (getDelivery s now d).1 := by
          rw [getDelivery_eq]
          apply removeExpired_absent
          have hr := rcptState_ds s d
          unfold Absent
          rw [hr]
          by_cases e : id = d.rcptId
          · rw [e]; exact aget_adel_same _ _
          · rw [aget_adel_other _ _ _ e]; exact h
        cases (getDelivery s now d).2.2 with
        | none => exact hgd
        | some o => exact hgd.of_same (getSegmented_ds _ _ _)
    · split
      · dsimp only
        unfold putDeliverySegmented
        split
        · exact removeExpired_absent id _ now h
        · exact removeExpired_absent id _ now h
      · exact h

theorem run_absent (L : Nat) (id : List Nat) : ∀ (ops : List Op) (s : CState), Absent id s →
    (∀ op ∈ ops, NotAccept id op) → Absent id (runOps L s ops).1
  | [], _, h, _ => h
  | op :: ops, s, h, hn => by
    have h1 := step_absent id s op h (hn op (by simp))
    exact run_absent L id ops _ h1 (fun o ho => hn o (by simp [ho]))

/-! ### the delivery time-to-live never changes -/

theorem step_ttlDeliv (s : CState) (op : Op) : (stepOp s op).1.ttlDeliv = s.ttlDeliv := by
  cases op with
  | put now m => exact (put_ds s now m).2
  | resp now r =>
    show (handleResponse s now r).1.ttlDeliv = s.ttlDeliv
    obtain ⟨u, hu, hg⟩ := get_ds s now r
    have hgt : (Corr.get s now r).1.ttlDeliv = s.ttlDeliv := by
      rw [hg, ttlDeliv_removeExpired]; exact hu.2
    rcases handleResponse_state s now r with e | ⟨o, _, _, e⟩
    · rw [e]; exact hgt
    · rw [e]
      rcases attrBranch_ds (Corr.get s now r).1 now r o with ⟨_, _, ht⟩ | ⟨_, hd⟩
      · rw [ht]; exact hgt
      · rw [hd.2]; exact hgt
  | deliver now d =>
    show (handleDeliver s now d).1.ttlDeliv = s.ttlDeliv
    unfold handleDeliver
    split
    · split
      · rfl
      · dsimp only
        have hgd : (getDelivery s now d).1.ttlDeliv = s.ttlDeliv := by
          rw [getDelivery_eq, ttlDeliv_removeExpired, rcptState_ttl]
        cases (getDelivery s now d).2.2 with
        | none => exact hgd
        | some o => exact ((getSegmented_ds _ _ _).2).trans hgd
    · split
      · dsimp only
        unfold putDeliverySegmented
        split <;> (dsimp only; rw [ttlDeliv_removeExpired]; rfl)
      · rfl

/-! ### the entry stays until it is used, replaced or too old -/

theorem step_held (id : List Nat) (t1 : Nat) (m : Msg) (s : CState) (op : Op) (h : Held id t1 m s)
    (hk : Keeps id t1 s.ttlDeliv op) : Held id t1 m (stepOp s op).1 := by
  cases op with
  | put now m' =>
    show Held id t1 m (put s now m').1
    unfold Held
    rw [(put_ds s now m').1]
    exact removeExpired_held id t1 m s now h hk
  | resp now r =>
    show Held id t1 m (handleResponse s now r).1
    obtain ⟨u, hu, hg⟩ := get_ds s now r
    have hga : Held id t1 m (Corr.get s now r).1 := by
      rw [hg]; exact removeExpired_held id t1 m u now (h.of_same hu) (by rw [hu.2]; exact hk.1)
    have hgt : (Corr.get s now r).1.ttlDeliv = s.ttlDeliv := by
      rw [hg, ttlDeliv_removeExpired]; exact hu.2
    rcases handleResponse_state s now r with e | ⟨o, _, _, e⟩
    · rw [e]; exact hga
    · rw [e]
      rcases attrBranch_ds (Corr.get s now r).1 now r o with ⟨hacc, hd, _⟩ | ⟨_, hd⟩
      · unfold Held
        rw [hd]
        have hne : id ≠ r.msgId := fun e' => hk.2 ⟨hacc.1, hacc.2, e'.symm⟩
        rw [aget_aset_other _ _ _ _ hne]
        exact removeExpired_held id t1 m _ now (hga.of_same (fixLast_ds _ _ _))
          (by rw [(fixLast_ds _ _ _).2, hgt]; exact hk.1)
      · exact hga.of_same hd
  | deliver now d =>
    show Held id t1 m (handleDeliver s now d).1
    unfold handleDeliver
    split
    · rename_i hrc
      split
      · exact h
      · dsimp only
        have hgd : Held id t1 m (getDelivery s now d).1 := by
          rw [getDelivery_eq]
          apply removeExpired_held _ _ _ _ _ _ (by rw [rcptState_ttl]; exact hk.1)
          unfold Held
          rw [rcptState_ds]
          have hne : id ≠ d.rcptId := fun e => hk.2 ⟨hrc, e.symm⟩
          rw [aget_adel_other _ _ _ hne]; exact h
        cases (getDelivery s now d).2.2 with
        | none => exact hgd
        | some o => exact hgd.of_same (getSegmented_ds _ _ _)
    · split
      · dsimp only
        unfold putDeliverySegmented
        split
        · exact removeExpired_held id t1 m _ now h hk.1
        · exact removeExpired_held id t1 m _ now h hk.1
      · exact h

theorem run_held (L : Nat) (id : List Nat) (t1 : Nat) (m : Msg) : ∀ (ops : List Op) (s : CState), Held id t1 m s →
    (∀ op ∈ ops, Keeps id t1 s.ttlDeliv op) → Held id t1 m (runOps L s ops).1
  | [], _, h, _ => h
  | op :: ops, s, h, hk => by
    have h1 := step_held id t1 m s op h (hk op (by simp))
    exact run_held L id t1 m ops _ h1 (fun o ho => by rw [step_ttlDeliv]; exact hk o (by simp [ho]))

/-! ### a request that is neither answered nor overdue stays in the request store -/

theorem sweepStore_keeps (now : Nat) : ∀ (ks : List Nat) (s : CState) (k at_ : Nat) (m : Msg),
    aget s.store k = some (at_, m) → ¬ (now - at_ > s.ttlResp) →
    aget (sweepStore now ks s).1.store k = some (at_, m)
  | [], _, _, _, _, h, _ => h
  | k0 :: ks, s, k, at_, m, h, hn => by
    rw [sweepStore_cons]
    cases h1 : aget s.store k0 with
    | none => exact sweepStore_keeps now ks s k at_ m h hn
    | some pr =>
      obtain ⟨at0, m0⟩ := pr
      dsimp only
      by_cases h2 : now - at0 > s.ttlResp
      · rw [if_pos h2]; dsimp only
        have hne : k ≠ k0 := by
          intro e; subst e
          rw [h] at h1; cases h1
          exact hn h2
        have hsame := expired_store { s with store := adel s.store k0 } m0
        apply sweepStore_keeps now ks _ k at_ m
        · rw [hsame.1]; dsimp only; rw [aget_adel_other _ _ _ hne]; exact h
        · rw [hsame.2]; exact hn
      · rw [if_neg h2]; exact sweepStore_keeps now ks s k at_ m h hn

theorem removeExpired_keeps (s : CState) (now k at_ : Nat) (m : Msg) (h : aget s.store k = some (at_, m))
    (hn : ¬ (now - at_ > s.ttlResp)) : aget (removeExpired s now).1.store k = some (at_, m) := by
  unfold removeExpired
  dsimp only
  exact sweepStore_keeps now _ s k at_ m h hn

theorem ttlResp_removeExpired (s : CState) (now : Nat) : (removeExpired s now).1.ttlResp = s.ttlResp := by
  unfold removeExpired
  dsimp only
  exact (sweepStore_sub now _ s).2

theorem getSegmented_store (s : CState) (x : Nat) (rm : Bool) :
    (getSegmented s x rm).1.store = s.store ∧ (getSegmented s x rm).1.ttlResp = s.ttlResp := by
  unfold getSegmented
  cases aget s.segStore x with
  | none => exact ⟨rfl, rfl⟩
  | some pr =>
    dsimp only
    cases rm with
    | false =>
      simp only [Bool.false_eq_true, if_false]
      split
      · exact ⟨rfl, rfl⟩
      · exact cumulated_store s pr.1
    | true =>
      simp only [if_true]
      split
      · exact ⟨rfl, rfl⟩
      · exact cumulated_store { s with segStore := adel s.segStore x } pr.1

theorem attrBranch_keeps (g1 : CState) (now : Nat) (resp o : Msg) (k at_ : Nat) (m : Msg)
    (h : aget g1.store k = some (at_, m)) (hn : ¬ (now - at_ > g1.ttlResp)) :
    aget (attrBranch g1 now resp o).1.store k = some (at_, m) := by
  unfold attrBranch
  dsimp only
  rw [(getSegmented_store _ _ _).1]
  have hf := fixLast_store g1 resp { resp with logId := o.logId, extra := o.extra }
  split
  · unfold putDelivery
    dsimp only
    apply removeExpired_keeps
    · rw [hf.1]; exact h
    · rw [hf.2]; exact hn
  · dsimp only
    rw [hf.1]; exact h

/-- the operation neither answers the request under `q` nor comes after its time-to-live -/
def Calm (q t ttl : Nat) : Op → Prop
  | .put now _ => now - t ≤ ttl
  | .resp now r => now - t ≤ ttl ∧ r.seq ≠ q
  | .deliver now _ => now - t ≤ ttl

theorem step_alive (L q : Nat) (m : Msg) (s : CState) (op : Op) (t : Nat)
    (hl : aget s.store q = some (t, m)) (hc : Clean L q op) (hcalm : Calm q t s.ttlResp op) :
    aget (stepOp s op).1.store q = some (t, m) := by
  cases op with
  | put now m' =>
    show aget (put s now m').1.store q = some (t, m)
    have hk := removeExpired_keeps s now q t m hl (by have : now - t ≤ s.ttlResp := hcalm; omega)
    unfold put
    generalize removeExpired s now = r at hk ⊢
    obtain ⟨s1, outs⟩ := r
    dsimp only at hk ⊢
    have hne : q ≠ m'.seq := fun e => hc.1 e.symm
    split
    · dsimp only; rw [aget_aset_other _ _ _ _ hne]; exact hk
    · dsimp only; rw [aget_aset_other _ _ _ _ hne]; exact hk
  | resp now r =>
    show aget (handleResponse s now r).1.store q = some (t, m)
    obtain ⟨hnow, hsq⟩ := hcalm
    have hnot : ¬ (now - t > s.ttlResp) := by omega
    have hg : aget (Corr.get s now r).1.store q = some (t, m) ∧ (Corr.get s now r).1.ttlResp = s.ttlResp := by
      unfold Corr.get
      cases aget s.store r.seq with
      | none => exact ⟨removeExpired_keeps s now q t m hl hnot, ttlResp_removeExpired s now⟩
      | some pr =>
        obtain ⟨t0, o⟩ := pr
        dsimp only
        have hu := updateSeg_store { s with store := adel s.store r.seq } (track r o) o
        refine ⟨removeExpired_keeps _ now q t m ?_ (by rw [hu.2]; exact hnot), ?_⟩
        · rw [hu.1]; dsimp only; rw [aget_adel_other _ _ _ (fun e => hsq e.symm)]; exact hl
        · rw [ttlResp_removeExpired, hu.2]
    rcases handleResponse_state s now r with e | ⟨o, _, _, e⟩
    · rw [e]; exact hg.1
    · rw [e]; exact attrBranch_keeps _ now r o q t m hg.1 (by rw [hg.2]; exact hnot)
  | deliver now d =>
    show aget (handleDeliver s now d).1.store q = some (t, m)
    have hnot : ¬ (now - t > s.ttlResp) := by have : now - t ≤ s.ttlResp := hcalm; omega
    unfold handleDeliver
    split
    · split
      · exact hl
      · dsimp only
        have hgd : aget (getDelivery s now d).1.store q = some (t, m) := by
          rw [getDelivery_eq]
          have hr := rcptState_inv_store s d
          exact removeExpired_keeps _ now q t m (by rw [hr.1]; exact hl) (by rw [hr.2]; exact hnot)
        cases (getDelivery s now d).2.2 with
        | none => exact hgd
        | some o => dsimp only; rw [(getSegmented_store _ _ _).1]; exact hgd
    · split
      · dsimp only
        unfold putDeliverySegmented
        split
        · exact removeExpired_keeps _ now q t m hl hnot
        · exact removeExpired_keeps _ now q t m hl hnot
      · exact hl

/-! ### the acceptance records the request under the SMSC's message id -/

theorem accept_held (L q : Nat) (m : Msg) (pm : Plain L q m) (s : CState) (now t : Nat) (resp : Msg)
    (h : Inv L q m s) (hl : aget s.store q = some (t, m)) (hs : resp.seq = q) (hk : resp.kind = .submitSmResp)
    (h0 : resp.status = 0) (hlog : resp.logId ≠ L) :
    Held resp.msgId now m (handleResponse s now resp).1 := by
  obtain ⟨_, _, _, heq, _⟩ := get_step False L q m pm s now resp h hlog
  obtain ⟨_, _, hres⟩ := heq hs
  rw [hl] at hres
  simp only [Option.map_some] at hres
  have hmm : mismatch resp m = false := by simp [mismatch, hk, requestKindOf, pm.kind]
  have hat : attributable resp m = true := by simp [attributable, hk, pm.sub]
  have hstate : (handleResponse s now resp).1 = (attrBranch (Corr.get s now resp).1 now resp m).1 := by
    rw [handleResponse_eq, hres]
    dsimp only
    rw [hmm]
    simp only [Bool.false_eq_true, if_false]
    rw [if_pos hat]
  rw [hstate]
  rcases attrBranch_ds (Corr.get s now resp).1 now resp m with ⟨_, hd, _⟩ | ⟨hn, _⟩
  · unfold Held
    rw [hd]
    exact aget_aset_same _ _ _
  · exact absurd ⟨hk, h0⟩ hn

theorem run_alive (L q : Nat) (m : Msg) (pm : Plain L q m) (t : Nat) : ∀ (ops : List Op) (s : CState),
    Inv L q m s → aget s.store q = some (t, m) → (∀ op ∈ ops, Clean L q op) → (∀ op ∈ ops, Calm q t s.ttlResp op) →
    Inv L q m (runOps L s ops).1 ∧ aget (runOps L s ops).1.store q = some (t, m) ∧
      (runOps L s ops).1.ttlResp = s.ttlResp ∧ (runOps L s ops).1.ttlDeliv = s.ttlDeliv
  | [], _, h, hl, _, _ => ⟨h, hl, rfl, rfl⟩
  | op :: ops, s, h, hl, hc, hcalm => by
    obtain ⟨a, b, _, _⟩ := step_any False L q m pm s op h (hc op (by simp)) (fun g => g.elim)
    have hl1 := step_alive L q m s op t hl (hc op (by simp)) (hcalm op (by simp))
    obtain ⟨x, y, z, w⟩ := run_alive L q m pm t ops _ a hl1 (fun o ho => hc o (by simp [ho]))
      (fun o ho => by rw [b]; exact hcalm o (by simp [ho]))
    exact ⟨x, y, z.trans b, w.trans (step_ttlDeliv s op)⟩

theorem run_ttlDeliv (L : Nat) : ∀ (ops : List Op) (s : CState), (runOps L s ops).1.ttlDeliv = s.ttlDeliv
  | [], _ => rfl
  | op :: ops, s => (run_ttlDeliv L ops _).trans (step_ttlDeliv s op)

/-- HISTORY-LEVEL attribution of a delivery receipt, unsegmented message: after any history in which the message
    was stored, accepted under an id while still outstanding, and the id was neither reused nor consumed nor
    outlived since, the delivery store holds the message under that id and the message is still unsegmented. -/
theorem receipt_state (L q : Nat) (m : Msg) (pm : Plain L q m) (ttlR ttlD t t1 : Nat) (pre mid post : List Op) (r : Msg)
    (hc : ∀ op ∈ pre ++ mid ++ post, Clean L q op) (hcalm : ∀ op ∈ mid, Calm q t ttlR op)
    (hs : r.seq = q) (hk : r.kind = .submitSmResp) (h0 : r.status = 0) (hlog : r.logId ≠ L)
    (hkeep : ∀ op ∈ post, Keeps r.msgId t1 ttlD op) :
    Held r.msgId t1 m (runOps L (initState ttlR ttlD) (pre ++ Op.put t m :: (mid ++ Op.resp t1 r :: post))).1 ∧
    aget (runOps L (initState ttlR ttlD) (pre ++ Op.put t m :: (mid ++ Op.resp t1 r :: post))).1.segStore q = none := by
  have hcpre : ∀ op ∈ pre, Clean L q op := fun o ho => hc o (by simp [ho])
  have hcmid : ∀ op ∈ mid, Clean L q op := fun o ho => hc o (by simp [ho])
  have hcpost : ∀ op ∈ post, Clean L q op := fun o ho => hc o (by simp [ho])
  -- up to the put
  obtain ⟨a, b, c⟩ := run_any False L q m pm pre _ (init_inv L q m ttlR ttlD) hcpre (fun g => g.elim)
  obtain ⟨hd, _⟩ := c.dead (by rfl)
  have hd0 : (runOps L (initState ttlR ttlD) pre).1.ttlDeliv = ttlD := run_ttlDeliv L pre _
  rw [runOps_append]
  dsimp only
  generalize (runOps L (initState ttlR ttlD) pre).1 = s1 at a b hd hd0
  obtain ⟨a2, b2, _, d2⟩ := put_self False L q m pm s1 t a hd
  have hput : (runOps L s1 (Op.put t m :: (mid ++ Op.resp t1 r :: post))).1 =
      (runOps L (put s1 t m).1 (mid ++ Op.resp t1 r :: post)).1 := by simp [runOps, stepOp]
  rw [hput, runOps_append]
  dsimp only
  have hd2 : (put s1 t m).1.ttlDeliv = ttlD := ((put_ds s1 t m).2).trans hd0
  -- up to the response
  obtain ⟨a3, b3, c3, d3⟩ := run_alive L q m pm t mid _ a2 b2 hcmid (fun o ho => by rw [d2, b]; exact hcalm o ho)
  generalize (runOps L (put s1 t m).1 mid).1 = s3 at a3 b3 c3 d3
  have hresp : (runOps L s3 (Op.resp t1 r :: post)).1 = (runOps L (handleResponse s3 t1 r).1 post).1 := by
    simp [runOps, stepOp]
  rw [hresp]
  have hheld := accept_held L q m pm s3 t1 t r a3 b3 hs hk h0 hlog
  obtain ⟨a4, _, _, _, _⟩ := handleResponse_step False L q m pm s3 t1 r a3 hlog (fun g => g.elim)
  have hd4 : (handleResponse s3 t1 r).1.ttlDeliv = ttlD := by
    have := step_ttlDeliv s3 (Op.resp t1 r)
    simp only [stepOp] at this
    rw [this, d3, hd2]
  -- afterwards
  obtain ⟨a5, _, _⟩ := run_any False L q m pm post _ a4 hcpost (fun g => g.elim)
  exact ⟨run_held L r.msgId t1 m post _ hheld (fun o ho => by rw [hd4]; exact hkeep o ho), a5.quiet.segq⟩

/-! ### nothing is reported for a request while it is neither answered nor overdue (C14, history level) -/

theorem run_quiet_while_calm (L q : Nat) (m : Msg) (pm : Plain L q m) (t : Nat) : ∀ (ops : List Op) (s : CState),
    Inv L q m s → aget s.store q = some (t, m) → (∀ op ∈ ops, Clean L q op) → (∀ op ∈ ops, Calm q t s.ttlResp op) →
    (runOps L s ops).2 = 0
  | [], _, _, _, _, _ => rfl
  | op :: ops, s, h, hl, hc, hcalm => by
    obtain ⟨a, b, c, _⟩ := step_any False L q m pm s op h (hc op (by simp)) (fun g => g.elim)
    have hl1 := step_alive L q m s op t hl (hc op (by simp)) (hcalm op (by simp))
    have h0 : outcomes L (stepOp s op).2 = 0 := by
      rcases c with ⟨_, e⟩ | ⟨_, e, _⟩
      · exact e
      · rw [e] at hl1; cases hl1
    have := run_quiet_while_calm L q m pm t ops _ a hl1 (fun o ho => hc o (by simp [ho]))
      (fun o ho => by rw [b]; exact hcalm o (by simp [ho]))
    simp only [runOps, h0, this]

theorem never_early (L q : Nat) (m : Msg) (pm : Plain L q m) (ttlR ttlD t : Nat) (pre post : List Op)
    (hc : ∀ op ∈ pre ++ post, Clean L q op) (hcalm : ∀ op ∈ post, Calm q t ttlR op) :
    (runOps L (initState ttlR ttlD) (pre ++ Op.put t m :: post)).2 = 0 := by
  obtain ⟨a, b, c⟩ := run_any False L q m pm pre _ (init_inv L q m ttlR ttlD)
    (fun o ho => hc o (by simp [ho])) (fun g => g.elim)
  obtain ⟨hd, h0⟩ := c.dead (by rfl)
  rw [runOps_append]
  dsimp only
  generalize (runOps L (initState ttlR ttlD) pre).1 = s1 at a b hd
  obtain ⟨a2, b2, c2, d2⟩ := put_self False L q m pm s1 t a hd
  have hrun : (runOps L s1 (Op.put t m :: post)).2 = countL L (put s1 t m).2 + (runOps L (put s1 t m).1 post).2 := by
    simp [runOps, stepOp, outcomes]
  rw [hrun, h0, c2]
  have := run_quiet_while_calm L q m pm t post _ a2 b2 (fun o ho => hc o (by simp [ho]))
    (fun o ho => by rw [d2, b]; exact hcalm o ho)
  omega

end SmppVerif.Lemmas.RcptHistory
