/- `pdu()` called again on the same object produces the same bytes (C03 / C04): the changes the first call makes to the
   object (`encoding` chosen by `smpp_encode`, `_encoded_message` kept or cleared) lead the second call to the same
   text octets, data_coding and layout. -/
import SmppVerif.Lemmas.Pdu

namespace SmppVerif.Lemmas.PduAgain
open SmppVerif SmppVerif.Pdu

/-- the automatic branch of `smpp_encode` (encoding None or the empty string) -/
theorem auto_branch (dflt : Enc) (eh : ErrH) (text enc : List Nat) (e0 e : Option Enc)
    (h : (match codecEncode dflt.codec eh text with
          | .ok b => Except.ok (b, e0)
          | .error .unicodeEncodeError => (codecEncode .ucs2 eh text).map fun b => (b, some encUcs2)
          | .error x => .error x) = .ok (enc, e)) :
    (e = e0 ∧ codecEncode dflt.codec eh text = .ok enc) ∨
    (e = some encUcs2 ∧ codecEncode .ucs2 eh text = .ok enc) := by
  cases hc : codecEncode dflt.codec eh text with
  | ok b =>
    rw [hc] at h
    simp only [Except.ok.injEq, Prod.mk.injEq] at h
    obtain ⟨rfl, rfl⟩ := h
    exact Or.inl ⟨rfl, rfl⟩
  | error ex =>
    rw [hc] at h
    cases ex <;> simp only at h <;> try (cases h)
    cases hu : codecEncode .ucs2 eh text with
    | error _ => rw [hu] at h; cases h
    | ok b =>
      rw [hu] at h
      simp only [Except.map, Except.ok.injEq, Prod.mk.injEq] at h
      obtain ⟨rfl, rfl⟩ := h
      exact Or.inr ⟨rfl, rfl⟩

/-- `smpp_encode` is stable under the encoding it chose itself -/
theorem smppEncode_stable (dflt : Enc) (m : Sm) (text enc : List Nat) (e : Option Enc) (x : List Nat)
    (h : smppEncode dflt m text = .ok (enc, e)) :
    smppEncode dflt { m with encoding := e, encoded := x } text = .ok (enc, e) := by
  unfold smppEncode at h ⊢
  dsimp only
  have hucs : ∀ (b : List Nat), codecEncode .ucs2 m.errorHandling text = .ok b →
      (if (match (some encUcs2 : Option Enc) with | none => true | some e => e.name.isEmpty) = true then
        (match codecEncode dflt.codec m.errorHandling text with
          | .ok b => Except.ok (b, (some encUcs2 : Option Enc))
          | .error .unicodeEncodeError => (codecEncode .ucs2 m.errorHandling text).map fun b => (b, some encUcs2)
          | .error x => .error x)
       else (match (some encUcs2 : Option Enc) with
          | some enc => (codecEncode enc.codec m.errorHandling text).map fun b => (b, some enc)
          | none => .error .runtimeError)) = .ok (b, some encUcs2) := by
    intro b hb
    have hne : ¬ (encUcs2.name.isEmpty = true) := by decide
    simp only [hne]
    simp [encUcs2, hb, Except.map]
  cases hm : m.encoding with
  | none =>
    rw [hm] at h
    simp only [if_true] at h
    rcases auto_branch dflt m.errorHandling text enc none e h with ⟨rfl, hc⟩ | ⟨rfl, hu⟩
    · simp only [if_true, hc]
    · exact hucs enc hu
  | some en =>
    rw [hm] at h
    simp only at h
    by_cases hn : en.name.isEmpty = true
    · rw [if_pos hn] at h
      rcases auto_branch dflt m.errorHandling text enc (some en) e h with ⟨rfl, hc⟩ | ⟨rfl, hu⟩
      · simp only [hn, if_true, hc]
      · exact hucs enc hu
    · rw [if_neg hn] at h
      cases hc : codecEncode en.codec m.errorHandling text with
      | error _ => rw [hc] at h; cases h
      | ok b =>
        rw [hc] at h
        simp only [Except.map, Except.ok.injEq, Prod.mk.injEq] at h
        obtain ⟨rfl, rfl⟩ := h
        simp only [hn, Bool.false_eq_true, if_false, hc, Except.map]

/-- the text part of the second `pdu()` is the text part of the first -/
theorem smTextPart_again (dflt : Enc) (m : Sm) (sm ptlv : List Nat) (e : Option Enc)
    (h : smTextPart dflt m = .ok (sm, ptlv, e)) :
    smTextPart dflt (smAfter dflt m e) = .ok (sm, ptlv, e) := by
  unfold smTextPart at h
  by_cases hpre : m.encoded.isEmpty = true
  · rw [if_pos hpre] at h
    cases hs : smppEncode dflt m (if m.shortMessage.isEmpty then m.messagePayload else m.shortMessage) with
    | error _ => rw [hs] at h; cases h
    | ok r =>
      obtain ⟨enc, encoding⟩ := r
      rw [hs] at h
      simp only at h
      have hea : smEncodedAfter dflt m = if enc.length > 254 ∨ ¬ m.messagePayload.isEmpty then [] else enc := by
        unfold smEncodedAfter
        rw [if_pos hpre, hs]
      by_cases hlong : enc.length > 254 ∧ ¬ m.shortMessage.isEmpty ∧ ¬ m.autoPayload
      · rw [if_pos hlong] at h; cases h
      · rw [if_neg hlong] at h
        by_cases hpay : enc.length > 254 ∨ ¬ m.messagePayload.isEmpty
        · rw [if_pos hpay] at h
          cases hc : concatM [packU 2 Gen.Tlv.messagePayload, packU 2 enc.length, .ok enc] with
          | error _ => rw [hc] at h; cases h
          | ok tlv =>
            rw [hc] at h
            simp only [Except.ok.injEq, Prod.mk.injEq] at h
            obtain ⟨rfl, rfl, rfl⟩ := h
            have hst := smppEncode_stable dflt m _ enc encoding [] hs
            unfold smTextPart smAfter
            rw [hea, if_pos hpay]
            simp only [List.isEmpty_nil, if_true]
            rw [hst]
            simp only
            rw [if_neg hlong, if_pos hpay, hc]
        · rw [if_neg hpay] at h
          simp only [Except.ok.injEq, Prod.mk.injEq] at h
          obtain ⟨rfl, rfl, rfl⟩ := h
          unfold smTextPart smAfter
          rw [hea, if_neg hpay]
          by_cases hem : enc.isEmpty = true
          · have hst := smppEncode_stable dflt m _ enc encoding enc hs
            simp only [hem, if_true]
            rw [hst]
            simp only
            rw [if_neg hlong, if_neg hpay]
          · simp only [hem, Bool.false_eq_true, if_false]
  · rw [if_neg hpre] at h
    simp only [Except.ok.injEq, Prod.mk.injEq] at h
    obtain ⟨rfl, rfl, rfl⟩ := h
    unfold smTextPart smAfter smEncodedAfter
    simp only [hpre, Bool.false_eq_true, if_false]

theorem smBody_again (dflt : Enc) (m : Sm) (b : List Nat) (e : Option Enc) (h : smBody dflt m = .ok (b, e)) :
    smBody dflt (smAfter dflt m e) = .ok (b, e) := by
  unfold smBody at h
  cases ht : smTextPart dflt m with
  | error _ => rw [ht] at h; cases h
  | ok r =>
    obtain ⟨sm, ptlv, enc⟩ := r
    rw [ht] at h
    simp only at h
    cases hd : smDataCoding enc with
    | error _ => rw [hd] at h; cases h
    | ok dc =>
      rw [hd] at h
      simp only at h
      cases hp : concatM ((smParams m).map tlvBytes) with
      | error _ => rw [hp] at h; cases h
      | ok pb =>
        rw [hp] at h
        simp only at h
        cases hl : smLayout m sm ptlv dc pb with
        | error _ => rw [hl] at h; cases h
        | ok body =>
          rw [hl] at h
          simp only [Except.ok.injEq, Prod.mk.injEq] at h
          obtain ⟨rfl, rfl⟩ := h
          have h2 := smTextPart_again dflt m sm ptlv enc ht
          unfold smBody
          rw [h2]
          simp only
          rw [hd]
          simp only
          have hpar : smParams (smAfter dflt m enc) = smParams m := rfl
          have hlay : smLayout (smAfter dflt m enc) sm ptlv dc pb = smLayout m sm ptlv dc pb := rfl
          rw [hpar, hp]
          simp only
          rw [hlay, hl]

theorem smPdu_again (dflt : Enc) (wrap : Sm → Msg) (hw : wrap = Msg.submitSm ∨ wrap = Msg.deliverSm)
    (m : Sm) (b : List Nat) (e : Option Enc) (h : smPdu dflt wrap m = .ok (b, e)) :
    smPdu dflt wrap (smAfter dflt m e) = .ok (b, e) := by
  unfold smPdu at h
  cases hb : smBody dflt m with
  | error _ => rw [hb] at h; cases h
  | ok r =>
    obtain ⟨body, enc⟩ := r
    rw [hb] at h
    simp only at h
    cases hh : packHeader (16 + body.length) (wrap m) with
    | error _ => rw [hh] at h; cases h
    | ok hd =>
      rw [hh] at h
      simp only [Except.map, Except.ok.injEq, Prod.mk.injEq] at h
      obtain ⟨rfl, rfl⟩ := h
      have h2 := smBody_again dflt m body enc hb
      have hhdr : packHeader (16 + body.length) (wrap (smAfter dflt m enc)) = packHeader (16 + body.length) (wrap m) := by
        rcases hw with rfl | rfl <;> rfl
      unfold smPdu
      rw [h2]
      simp only
      rw [hhdr, hh]
      rfl

/-- SENDING AGAIN GIVES THE SAME BYTES: for every message of every class for which `pdu()` succeeds, a second call on
    the same object returns the same bytes and leaves the same encoding. -/
theorem pduAgain_eq (dflt : Enc) (m : Msg) (b : List Nat) (e : Option Enc) (h : pdu dflt m = .ok (b, e)) :
    pduAgain dflt m = .ok (b, e) := by
  unfold pduAgain
  rw [h]
  cases m with
  | submitSm s => exact smPdu_again dflt Msg.submitSm (Or.inl rfl) s b e h
  | deliverSm s => exact smPdu_again dflt Msg.deliverSm (Or.inr rfl) s b e h
  | _ => rfl

end SmppVerif.Lemmas.PduAgain
