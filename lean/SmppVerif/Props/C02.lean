/-
C02 — Delivery receipts are attributed to the message they report on.
Tier 2, PARTIAL in the same sense as C01: single-step theorems over the model of
get_delivery / get_segmented / the receipt branch of `_handle_request`; history-level attribution for unsegmented
messages; and, for segmented messages, the ALL-ORDERS theorem `segmented_receipts_any_order` (Lemmas/SegReceipts.lean):
from the state in which every segment of a message has been accepted, the receipts for its n segments in ANY order give
n-1 placeholders and then exactly one receipt with the message's identity — the last failing one, or the first when none
fails.  Not a theorem: other traffic interleaved between those receipts (frame property), and that the accepted state is
reached from the empty store by the responses (shown for a concrete message by kernel evaluation, tied by the
correspondence in general).
-/
import SmppVerif.Lemmas.Ledger
import SmppVerif.Lemmas.RcptHistory
import SmppVerif.Lemmas.SegReceipts
import SmppVerif.Lemmas.SegResponses
import SmppVerif.Gen.Site

namespace SmppVerif.Props.C02
open SmppVerif SmppVerif.Corr SmppVerif.Lemmas.Corr SmppVerif.Lemmas.Expiry SmppVerif.Lemmas.Ledger

theorem getDelivery_result (s : CState) (now : Nat) (d : Msg) :
    (getDelivery s now d).2.2 = (aget s.delivStore d.rcptId).map (·.2) := by
  unfold getDelivery; rfl

/-- the segment registration of an unsegmented submit stays absent through `get_delivery` -/
theorem getDelivery_segStore_none (s : CState) (now : Nat) (d : Msg) (x : Nat)
    (h : aget s.segStore x = none) : aget (getDelivery s now d).1.segStore x = none := by
  unfold getDelivery
  dsimp only
  apply removeExpired_segStore_none
  cases aget s.delivStore d.rcptId with
  | none => exact h
  | some pr =>
    dsimp only
    cases aget s.segStore pr.2.seq with
    | none => exact h
    | some q =>
      dsimp only
      cases aget s.segStatus q.1 <;> exact h

/-- Unknown id: a receipt naming an id the delivery store does not hold is handed over with
    empty log_id and extra_data — it never borrows another message's identity. -/
theorem unknown_id_empty (s : CState) (now : Nat) (d : Msg) (hr : d.isReceipt = true)
    (hid : d.rcptId.isEmpty = false) (hunk : aget s.delivStore d.rcptId = none) :
    (handleDeliver s now d).2.2 = .msg { d with logId := 0, extra := 0 } := by
  unfold handleDeliver
  simp only [hr, if_true, hid, Bool.false_eq_true, if_false]
  rw [getDelivery_result, hunk]
  rfl

/-- Receipt attribution, unsegmented message: a receipt naming the id under which an
    unsegmented submit was accepted is handed over carrying that submit's log_id and
    extra_data (and the correlation is consumed). -/
theorem receipt_attribution_plain (s : CState) (now at_ : Nat) (d o : Msg) (hr : d.isReceipt = true)
    (hid : d.rcptId.isEmpty = false) (hst : aget s.delivStore d.rcptId = some (at_, o))
    (hplain : aget s.segStore o.seq = none) :
    (handleDeliver s now d).2.2 = .msg { d with logId := o.logId, extra := o.extra } := by
  unfold handleDeliver
  simp only [hr, if_true, hid, Bool.false_eq_true, if_false]
  rw [getDelivery_result, hst]
  simp only [Option.map_some]
  rw [getSegmented_none _ _ _ (getDelivery_segStore_none s now d o.seq hplain)]

/-! ### history level (unsegmented messages) -/

open SmppVerif.Lemmas.History SmppVerif.Lemmas.RcptHistory in
/-- RECEIPT ATTRIBUTION over histories, unsegmented message.  Take any history from the empty state in which the
    unsegmented submit_sm `m` (log id `L`, number `q`) is stored at `t`, then — while it is outstanding: no
    response carrying `q`, no sweep after its time-to-live (`Calm`) — the SMSC accepts it with a submit_sm_resp
    carrying the message id `id`, handled at `t1`; afterwards any traffic follows (requests, responses, receipts
    for other ids, inbound messages) as long as the id is not handed out again, not named by an earlier receipt and
    the delivery time-to-live is not exceeded (`Keeps`); the rest of the traffic never reuses `q` or `L`.
    Then a delivery receipt naming `id` (in its text or in receipted_message_id — `rcptId` is what the parser
    found) is handed to the hook carrying `m`'s log_id and extra_data. -/
theorem receipt_attributed_after_any_history (L q : Nat) (m : Msg) (pm : Plain L q m) (ttlR ttlD t t1 t2 : Nat)
    (pre mid post : List Op) (r d : Msg)
    (hc : ∀ op ∈ pre ++ mid ++ post, Clean L q op) (hcalm : ∀ op ∈ mid, Calm q t ttlR op)
    (hs : r.seq = q) (hk : r.kind = .submitSmResp) (h0 : r.status = 0) (hlog : r.logId ≠ L)
    (hkeep : ∀ op ∈ post, Keeps r.msgId t1 ttlD op)
    (hr : d.isReceipt = true) (hid : d.rcptId = r.msgId) (hne : d.rcptId.isEmpty = false) :
    (handleDeliver (runOps L (initState ttlR ttlD) (pre ++ Op.put t m :: (mid ++ Op.resp t1 r :: post))).1 t2 d).2.2 =
      .msg { d with logId := L, extra := m.extra } := by
  obtain ⟨hheld, hseg⟩ := receipt_state L q m pm ttlR ttlD t t1 pre mid post r hc hcalm hs hk h0 hlog hkeep
  have := receipt_attribution_plain _ t2 t1 d m hr hne (by rw [hid]; exact hheld) (by rw [pm.seq]; exact hseg)
  rw [this, pm.log]

open SmppVerif.Lemmas.History SmppVerif.Lemmas.RcptHistory in
/-- UNKNOWN ID over histories: after any history in which no request was accepted under the id `id`, a receipt
    naming `id` is handed over with empty log_id and extra_data — whatever else is outstanding, it never borrows
    another message's identity. -/
theorem unknown_receipt_after_any_history (ttlR ttlD t2 : Nat) (ops : List Op) (d : Msg)
    (hn : ∀ op ∈ ops, NotAccept d.rcptId op) (hr : d.isReceipt = true) (hne : d.rcptId.isEmpty = false) :
    (handleDeliver (runOps 0 (initState ttlR ttlD) ops).1 t2 d).2.2 = .msg { d with logId := 0, extra := 0 } :=
  unknown_id_empty _ t2 d hr hne (run_absent 0 d.rcptId ops _ (by rfl) hn)

open SmppVerif.Lemmas.History SmppVerif.Lemmas.RcptHistory in
/-- Non-vacuity (a test): message 10 accepted under id [65] between other traffic, receipt later. -/
example :
    let m : Msg := { kind := .submitSm, seq := 5, logId := 10, extra := 11 }
    let r : Msg := { kind := .submitSmResp, seq := 5, msgId := [65] }
    let other : Msg := { kind := .submitSm, seq := 6, logId := 20 }
    let d : Msg := { kind := .deliverSm, seq := 900, isReceipt := true, rcptId := [65], rcptErr := some 0 }
    (handleDeliver (runOps 10 (initState 1000 100000)
      ([Op.put 1 other] ++ Op.put 2 m :: ([Op.resp 3 { kind := .submitSmResp, seq := 6, msgId := [66] }] ++
        Op.resp 4 r :: [Op.put 50 { kind := .enquireLink, seq := 7 }]))).1 60 d).2.2 =
      .msg { d with logId := 10, extra := 11 } := by
  decide +kernel

/-- A receipt without id (neither in the text nor in receipted_message_id) is handed over as
    it is. -/
theorem no_id_untouched (s : CState) (now : Nat) (d : Msg) (hr : d.isReceipt = true)
    (hid : d.rcptId.isEmpty = true) : (handleDeliver s now d).2.2 = .msg d ∧ (handleDeliver s now d).1 = s := by
  unfold handleDeliver
  simp [hr, hid]

/-- Segmented message: the hook gets nothing for a segment receipt while any sibling is
    still SENDING or SENT (no receipt yet) — "only after receipts for all segments". -/
theorem segment_receipt_waits (s : CState) (now at_ : Nat) (d o : Msg) (hr : d.isReceipt = true)
    (hid : d.rcptId.isEmpty = false) (hst : aget s.delivStore d.rcptId = some (at_, o))
    (st : SegStatus)
    (hgs : (getSegmented (getDelivery s now d).1 o.seq true).2.1 = some st)
    (hcode : (getSegmented (getDelivery s now d).1 o.seq true).2.2 = sSending ∨
             (getSegmented (getDelivery s now d).1 o.seq true).2.2 = sSent) :
    (handleDeliver s now d).2.2 = .placeholder := by
  unfold handleDeliver
  simp only [hr, if_true, hid, Bool.false_eq_true, if_false]
  rw [getDelivery_result, hst]
  simp only [Option.map_some]
  rw [hgs]
  dsimp only
  rw [if_pos hcode]

/-- … and when the last one is in, exactly that call hands over one receipt carrying the
    message's identity: the last failing receipt if any segment's receipt reported an error,
    otherwise the first receipt. -/
theorem segment_receipt_final (s : CState) (now at_ : Nat) (d o : Msg) (hr : d.isReceipt = true)
    (hid : d.rcptId.isEmpty = false) (hst : aget s.delivStore d.rcptId = some (at_, o))
    (st : SegStatus)
    (hgs : (getSegmented (getDelivery s now d).1 o.seq true).2.1 = some st)
    (hcode : ¬ ((getSegmented (getDelivery s now d).1 o.seq true).2.2 = sSending ∨
                (getSegmented (getDelivery s now d).1 o.seq true).2.2 = sSent)) :
    (handleDeliver s now d).2.2
      = .msg { (st.lastReceipt.getD d) with logId := o.logId, extra := o.extra } := by
  unfold handleDeliver
  simp only [hr, if_true, hid, Bool.false_eq_true, if_false]
  rw [getDelivery_result, hst]
  simp only [Option.map_some]
  rw [hgs]
  dsimp only
  rw [if_neg hcode]

/-- Receipt codes aggregate by maximum: every error code ranks below SENT, so the message
    stays "waiting" while any segment has no receipt, and the final code is an error iff some
    receipt reported one. -/
theorem receipts_aggregate (l : List (Nat × Int)) (hne : l ≠ []) (hl : ∀ p ∈ l, 0 ≤ p.2 ∧ p.2 < sSent) :
    maxCode l < sSent ∧ (maxCode l > 0 ↔ ∃ p ∈ l, p.2 > 0) := by
  have hle : maxCode l ≤ sSent - 1 := maxCode_le l _ hne (fun p hp => by have := (hl p hp).2; omega)
  refine ⟨by omega, ?_⟩
  constructor
  · intro h
    by_contra hno
    have h0 : ∀ p ∈ l, p.2 ≤ 0 := by
      intro p hp
      by_contra hc
      exact hno ⟨p, hp, by omega⟩
    have := maxCode_le l 0 hne h0
    omega
  · rintro ⟨p, hp, h⟩
    have := maxCode_ge l p hp
    omega

/-! ### segmented messages: any order of the receipts -/

open SmppVerif.Lemmas.SegReceipts in
/-- EXACTLY ONE RECEIPT, ONLY AFTER ALL SEGMENTS, IN WHATEVER ORDER: let a message of `n` segments be accepted in full
    (`Inv A [] none s`: nothing outstanding in the request store, every segment's SMSC id recorded with its submit_sm, every
    segment registered under the message's reference with status SENT).  Then for EVERY permutation `order` of 1..n, handling
    the receipts of the segments in that order hands the hook `n - 1` placeholders (nothing) and then exactly one receipt,
    carrying the message's log_id and extra_data. -/
theorem segmented_receipts_any_order (A : Accepted) (now : Nat) (order : List Nat) (s : CState)
    (hperm : order.Perm (List.range' 1 A.n)) (hinv : Inv A [] none s) (hnow : now ≤ s.ttlDeliv) :
    ∃ r, pick A none order = some r ∧
      (runReceipts A now s order).2 =
        List.replicate (A.n - 1) Handled.placeholder ++ [.msg { r with logId := A.L, extra := A.X }] :=
  all_orders A now order s hperm hinv hnow

open SmppVerif.Lemmas.SegReceipts SmppVerif.Lemmas.SegResponses in
/-- THE ACCEPTED STATE IS REACHED, IN WHATEVER ORDER THE RESPONSES COME: let the `n` segments of a message be stored and
    awaiting their responses (`PInv A [] s`).  Then for EVERY permutation `order` of 1..n, handling the accepting
    responses in that order calls no hook from a sweep, hands the hook `n - 1` placeholders and then exactly one response
    carrying the message's log_id and extra_data, records each segment's SMSC id with its submit_sm, and ends in the state
    `Inv A [] none` that `segmented_receipts_any_order` starts from. -/
theorem segmented_responses_any_order (A : Sent) (order : List Nat) (s : CState)
    (hperm : order.Perm (List.range' 1 A.n)) (hinv : PInv A [] s) :
    (∃ m, (runResponses A s order).2.2 = List.replicate (A.n - 1) Handled.placeholder ++ [.msg m] ∧
      m.logId = A.L ∧ m.extra = A.X) ∧
    (runResponses A s order).2.1 = [] ∧
    Inv A.toAccepted [] none (runResponses A s order).1 ∧
    (runResponses A s order).1.ttlDeliv = A.TD :=
  all_orders_resp A order s hperm hinv

open SmppVerif.Lemmas.SegReceipts SmppVerif.Lemmas.SegResponses in
/-- FROM THE EMPTY CORRELATOR TO THE ONE RECEIPT: the Sender stores the `n` segments of a message in turn, the SMSC
    accepts them — responses in ANY order `ro` — and reports on them — receipts in ANY order `co` —, nothing reaching a
    time-to-live meanwhile.  Then no time-out is reported, the hook is handed exactly one response and exactly one receipt
    (after `n - 1` placeholders each), both carrying the message's log_id and extra_data. -/
theorem segmented_message_end_to_end (A : Queued) (s0 : CState) (ro co : List Nat) (now : Nat)
    (httl : s0.ttlResp = A.TR ∧ s0.ttlDeliv = A.TD) (hs : s0.store = []) (hd : s0.delivStore = [])
    (hds : s0.delivSegStore = []) (hst : aget s0.segStatus A.ref = none)
    (hro : ro.Perm (List.range' 1 A.n)) (hco : co.Perm (List.range' 1 A.n)) (hnow : now ≤ A.TD) :
    (runPuts A s0 A.n).2 = [] ∧
    (runResponses A.toSent (runPuts A s0 A.n).1 ro).2.1 = [] ∧
    (∃ m, (runResponses A.toSent (runPuts A s0 A.n).1 ro).2.2 =
        List.replicate (A.n - 1) Handled.placeholder ++ [.msg m] ∧ m.logId = A.L ∧ m.extra = A.X) ∧
    (∃ r, pick A.toAccepted none co = some r ∧
      (runReceipts A.toAccepted now (runResponses A.toSent (runPuts A s0 A.n).1 ro).1 co).2 =
        List.replicate (A.n - 1) Handled.placeholder ++ [.msg { r with logId := A.L, extra := A.X }]) := by
  obtain ⟨hp, hpo⟩ := runPuts_inv A s0 (putInv_empty A s0 httl hs hd hds hst) A.n (Nat.le_refl _)
  obtain ⟨hm, ho, hinv, htd⟩ := all_orders_resp A.toSent ro _ hro (putInv_all A _ hp)
  exact ⟨hpo, ho, hm, all_orders A.toAccepted now co _ hco hinv (by rw [htd]; exact hnow)⟩

open SmppVerif.Lemmas.SegReceipts SmppVerif.Lemmas.SegResponses in
/-- non-vacuity: such a message exists (3 segments, sequence numbers 1..3, SMSC ids [1]..[3], receipts without error) -/
example : ∃ A : Queued, A.n = 3 ∧ A.L = 7 :=
  ⟨{ n := 3, ref := 4, q := id, ident := fun i => [i],
     sub := fun i => { kind := .submitSm, seq := i, logId := 7, extra := 8, hasSar := true, sarRef := 4, sarSeq := i, sarTotal := 3 },
     t := fun _ => 2, rc := fun i => { kind := .deliverSm, seq := 100 + i, isReceipt := true, rcptId := [i], rcptErr := some 0 },
     L := 7, X := 8, hn := by decide, hq := fun _ => rfl, hL := fun _ => ⟨rfl, rfl⟩,
     qinj := fun _ _ h => h, idinj := fun _ _ h => by simpa using h,
     rcR := fun _ => ⟨rfl, rfl, rfl⟩, rcC := fun _ => ⟨by simp [codeOf], by simp [codeOf, sSent, Gen.Consts.statusSent]⟩,
     TR := 1000, TD := 100000, tq := fun _ => 1, resp := fun i => { kind := .submitSmResp, seq := i, msgId := [i] },
     hsub := fun _ => rfl, hresp := fun _ => ⟨rfl, rfl, rfl, rfl⟩, hR := fun _ _ => by decide, hD := fun _ _ => by decide,
     hsar := fun _ => ⟨rfl, rfl, rfl⟩, hQ := fun _ _ => by decide }, rfl, rfl⟩

open SmppVerif.Lemmas.SegReceipts in
/-- … and it is a failing receipt if any segment's receipt reports an error: the LAST failing one in arrival order … -/
theorem picked_is_last_failing (A : Accepted) (pre post : List Nat) (j : Nat)
    (hj : codeOf (A.rc j) > 0) (hpost : ∀ k ∈ post, ¬ codeOf (A.rc k) > 0) :
    pick A none (pre ++ j :: post) = some (A.rc j) :=
  pick_last_failing A pre post j none hj hpost

open SmppVerif.Lemmas.SegReceipts in
/-- … otherwise the first receipt that arrived. -/
theorem picked_is_first_when_none_fails (A : Accepted) (i : Nat) (rest : List Nat)
    (h : ∀ k ∈ rest, ¬ codeOf (A.rc k) > 0) : pick A none (i :: rest) = some (A.rc i) :=
  pick_first A i rest h

open SmppVerif.Lemmas.SegReceipts in
/-- non-vacuity: the state reached from the empty correlator by storing the three segments of a message and handling their
    three accepted responses satisfies the hypothesis (kernel evaluation of the model) -/
example :
    let seg (sq sseq : Nat) : Msg :=
      { kind := .submitSm, seq := sq, logId := 7, extra := 8, hasSar := true, sarRef := 4, sarSeq := sseq, sarTotal := 3 }
    let ok (sq : Nat) : Msg := { kind := .submitSmResp, seq := sq, msgId := [sq] }
    let s0 : CState := { ttlResp := 1000, ttlDeliv := 100000 }
    let s1 := (put (put (put s0 1 (seg 1 1)).1 1 (seg 2 2)).1 1 (seg 3 3)).1
    let s2 := (handleResponse (handleResponse (handleResponse s1 2 (ok 1)).1 2 (ok 2)).1 2 (ok 3)).1
    s2.store = [] ∧
    (∀ i ∈ [1, 2, 3], aget s2.delivStore [i] = some (2, seg i i) ∧ aget s2.segStore i = some (4, i)) ∧
    (aget s2.segStatus 4).map (fun st => (st.status, st.lastReceipt)) = some ([(1, sSent), (2, sSent), (3, sSent)], none) := by
  decide +kernel

/-! ### tests (finite, labelled as tests): a 3-segment message fully accepted; receipts in all
    6 orders with an error on segment 2: placeholder, placeholder, then the failing receipt
    with the message's identity. -/
example :
    let seg (sq sseq : Nat) : Msg :=
      { kind := .submitSm, seq := sq, logId := 7, extra := 8, hasSar := true, sarRef := 4, sarSeq := sseq, sarTotal := 3 }
    let ok (sq : Nat) : Msg := { kind := .submitSmResp, seq := sq, msgId := [sq] }
    let rc (sq : Nat) (e : Int) : Msg :=
      { kind := .deliverSm, seq := 100 + sq, isReceipt := true, rcptId := [sq], rcptErr := some e }
    let s0 : CState := { ttlResp := 1000, ttlDeliv := 100000 }
    let s1 := (put (put (put s0 1 (seg 1 1)).1 1 (seg 2 2)).1 1 (seg 3 3)).1
    let s2 := (handleResponse (handleResponse (handleResponse s1 2 (ok 1)).1 2 (ok 2)).1 2 (ok 3)).1
    [[1, 2, 3], [1, 3, 2], [2, 1, 3], [2, 3, 1], [3, 1, 2], [3, 2, 1]].all fun order =>
      let step (acc : CState × List Handled) (q : Nat) :=
        let h := handleDeliver acc.1 3 (rc q (if q = 2 then 9 else 0))
        (h.1, acc.2 ++ [h.2.2])
      (order.foldl step (s2, [])).2 =
        [.placeholder, .placeholder, .msg { (rc 2 9) with logId := 7, extra := 8 }] := by
  decide +kernel

/-- TIE TO THE SOURCE (regenerated on every run, Gen/Site.lean): `_handle_request` in source order: decode and parse the receipt inside the guarded region, reassembly of segmented inbound messages, then parse (cached) and correlate the receipt (`get_delivery`) and aggregate the segments (`get_segmented`) - the order of Model/Corr.lean `handleDeliver` -/
theorem handle_request_step_order :
    Gen.Site.handleRequest = ["from_pdu", "parse_receipt", "put_delivery_segmented", "parse_receipt", "get_delivery", "get_segmented"] := by
  decide

/-- TIE TO THE SOURCE (regenerated on every run, Gen/Site.lean): `get_delivery` pops the submit_sm recorded under the id, updates the status of its segment and WRITES IT BACK to the persisted store, then sweeps; `put_delivery` sweeps before it records -/
theorem get_delivery_step_order :
    Gen.Site.getDelivery = ["pop:_delivery_store", "get:_segment_status_store", "set:status", "set:_segment_status_store", "_remove_expired"] ∧
    Gen.Site.putDelivery = ["_remove_expired", "monotonic", "set:_delivery_store"] := by
  decide

/-- TIE TO THE SOURCE (regenerated on every run, Gen/Site.lean): `_handle_response` awaits `put_delivery` directly (no task, time-out or shield): the SMSC id is recorded before the Receiver reads the next PDU, which may be the receipt naming it -/
theorem response_handler_awaits_directly :
    Gen.Site.handleResponse.filter (fun x => x ∈ ["put_delivery", "_socket_operation", "wait_for", "create_task", "shield"]) = ["put_delivery"] := by
  decide

/-- TIE TO THE SOURCE (regenerated on every run, Gen/Site.lean): `put_delivery` and `get_delivery` each contain one `await`,
    that of the sweep; the id is recorded after it, resp. popped (and the segment status updated) before it - recording
    and consuming an SMSC message id are atomic steps, as in the model's `c.hresp` / `c.hdel` steps. -/
theorem delivery_operations_await_only_the_sweep :
    Gen.Site.putDeliveryAwaits = ["_remove_expired", "await", "set:_delivery_store"] ∧
    Gen.Site.getDeliveryAwaits = ["pop:_delivery_store", "_remove_expired", "await"] := by decide

end SmppVerif.Props.C02

#print axioms SmppVerif.Props.C02.unknown_id_empty
#print axioms SmppVerif.Props.C02.receipt_attribution_plain
#print axioms SmppVerif.Props.C02.no_id_untouched
#print axioms SmppVerif.Props.C02.segment_receipt_waits
#print axioms SmppVerif.Props.C02.segment_receipt_final
#print axioms SmppVerif.Props.C02.receipts_aggregate
#print axioms SmppVerif.Props.C02.receipt_attributed_after_any_history
#print axioms SmppVerif.Props.C02.unknown_receipt_after_any_history
#print axioms SmppVerif.Props.C02.segmented_receipts_any_order
#print axioms SmppVerif.Props.C02.segmented_responses_any_order
#print axioms SmppVerif.Props.C02.segmented_message_end_to_end
#print axioms SmppVerif.Props.C02.picked_is_last_failing
#print axioms SmppVerif.Props.C02.picked_is_first_when_none_fails
#print axioms SmppVerif.Props.C02.handle_request_step_order
#print axioms SmppVerif.Props.C02.get_delivery_step_order
#print axioms SmppVerif.Props.C02.response_handler_awaits_directly
#print axioms SmppVerif.Props.C02.delivery_operations_await_only_the_sweep
