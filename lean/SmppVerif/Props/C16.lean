/-
C16 — keep-alive: idle links are probed, dead peers are detected, live peers are kept.

Model (Model/Keeper.lean): `_connection_keeper` as a function of the (re)start time and the
arrival times of inbound PDUs, in quanta of the virtual clock; interval I and time-out T arbitrary.
Tied to esme.py by sessions on the virtual-time loop: the scripted SMSC answers each enquire_link
after chosen delays (below / above T, never) and sends unsolicited traffic at chosen times; the
observed probe times and the time the keeper gives up are compared with the model fed with the
observed arrival times.

Outside the theorems: exact ties (a PDU arriving in the very loop iteration in which a timer
fires) — the model decides them one way, the code's outcome depends on callback order; tie cases
are generated, judged by the property predicate only (no drop of a live peer, probe or no probe
both acceptable) and excluded from the comparison.  That the supervisor reconnects after the keeper
returns is C07.
-/
import SmppVerif.Lemmas.Keeper
import SmppVerif.Gen.Site

namespace SmppVerif.Props.C16
open SmppVerif.Keeper SmppVerif.Lemmas.Keeper

/-- As soon as nothing was received for the interval, an enquire_link is sent. -/
theorem probe_on_idle (I T s a : Nat) (rest : List Nat) (hI : 0 < I) (h : s + I ≤ a) :
    s + I ∈ (keeper I T s (a :: rest)).1 :=
  Lemmas.Keeper.probe_on_idle I T s a rest hI h

/-- … and only then: while PDUs arrive less than I apart no probe is sent until I after the last. -/
theorem no_probe_while_busy (I T : Nat) (arr : List Nat) (s : Nat) (h : Gaps I s arr) :
    (keeper I T s arr).1 = [lastOr s arr + I] :=
  Lemmas.Keeper.no_probe_while_busy I T arr s h

/-- every probe is sent exactly I after the start or after some arrival -/
theorem probes_at_restarts (I T : Nat) (arr : List Nat) (s : Nat) :
    ∀ p ∈ (keeper I T s arr).1, p = s + I ∨ ∃ a ∈ arr, p = a + I :=
  Lemmas.Keeper.probes_at_restarts I T arr s

/-- A peer that stays silent for I + T is dropped exactly then (and was probed at I). -/
theorem dead_peer_dropped (I T s : Nat) (arr : List Nat) (h : ∀ a ∈ arr, s + I + T ≤ a) (hT : 0 < I + T) :
    keeper I T s arr = ([s + I], some (s + I + T)) :=
  Lemmas.Keeper.dead_peer_dropped I T s arr h hT

/-- A peer whose PDUs (answers or any other traffic) arrive less than I + T apart is never dropped
    by the keep-alive logic: the keeper can give up only I + T after the last of them. -/
theorem live_peer_kept (I T : Nat) (arr : List Nat) (s : Nat) (h : Gaps (I + T) s arr) :
    (keeper I T s arr).2 = some (lastOr s arr + I + T) :=
  Lemmas.Keeper.live_peer_kept I T arr s h

/-- non-vacuity and a worked example: I = 10, T = 5, start at 0; answers at 10 (immediately), an
    unsolicited PDU at 14, an answer 4 late at 28, then silence -/
example : Gaps (10 + 5) 0 [10, 14, 28] := by simp [Gaps]
example : keeper 10 5 0 [10, 14, 28] = ([10, 24, 38], some 43) := by decide

/-- tie to the source (Gen/Site.lean): the Receiver signals the keeper (`_data_received.set()`) right after `_get_pdu`
    returned, before the PDU is handed to a handler or a hook -/
theorem receive_step_order :
    Gen.Site.receiveData = ["_get_pdu", "set", "pdu_handler", "received", "received", "_send_data"] := by decide

/-- TIE TO THE SOURCE (regenerated on every run, Gen/Site.lean): the keeper `_connection_keeper` in source order: two waiter tasks, then the probe is built and sent as a task of its own (not awaited inline, not queued behind application traffic), the answer is awaited with the time-out, the data event is cleared, the time-out is raised - what the keeper model (Model/Keeper.lean) assumes -/
theorem keeper_step_order :
    Gen.Site.keeper = ["create_task", "create_task", "EnquireLink", "_send_data", "create_task", "wait_for", "clear", "raise"] := by
  decide

end SmppVerif.Props.C16

#print axioms SmppVerif.Props.C16.probe_on_idle
#print axioms SmppVerif.Props.C16.no_probe_while_busy
#print axioms SmppVerif.Props.C16.probes_at_restarts
#print axioms SmppVerif.Props.C16.dead_peer_dropped
#print axioms SmppVerif.Props.C16.live_peer_kept
#print axioms SmppVerif.Props.C16.receive_step_order
#print axioms SmppVerif.Props.C16.keeper_step_order
