/-
C09 — Inbound segmented messages reassemble correctly for any arrival order.
Tier 2: the correlation part of `_handle_request` + `put_delivery_segmented`, each handler
run taken atomically (the session model owns interleavings of handlers with other tasks).
-/
import SmppVerif.Lemmas.Corr
import SmppVerif.Gen.Site

namespace SmppVerif.Props.C09
open SmppVerif SmppVerif.Corr SmppVerif.Lemmas.Corr

/-- Any arrival order, any interleaving with other traffic, any number of segments: starting
    with nothing collected for reference `r`, if the `n` segments of a message arrive each
    exactly once in the order `arr` (any permutation of 1..n), mixed with arbitrary other
    deliver_sm (other references, unsegmented messages, receipts), then — as long as the
    delivery time-to-live `T` is not exceeded — the received hook is handed a placeholder for
    the first n-1 of them and exactly one message, at the last one, whose text is the parts
    in numeric order; in particular never a partial text. -/
theorem reassemble_any_order (r n : Nat) (p : Nat → List Nat) (ops : List (Nat × Msg)) (s : CState)
    (arr : List Nat) (hperm : arr.Perm (List.range' 1 n)) (hn : 1 ≤ n)
    (hnow : ∀ op ∈ ops, op.1 ≤ s.ttlDeliv)
    (hinit : aget s.delivSegStore r = none)
    (hM : ∀ op ∈ ops, IsSegOf r op.2 = true → op.2.sarTotal = n ∧ op.2.text = p op.2.sarSeq)
    (harr : (ops.filter fun op => IsSegOf r op.2).map (·.2.sarSeq) = arr) :
    ∃ dl, resultsFor r (runDelivers s ops).2
            = List.replicate (n - 1) Handled.placeholder ++ [Handled.msg dl] ∧
          dl.text = (List.range' 1 n).flatMap p := by
  have hlen : arr.length = n := by rw [hperm.length_eq]; simp
  have hne : arr ≠ [] := by intro e; rw [e] at hlen; simp at hlen; omega
  have := reassemble r n p s.ttlDeliv ops s [] arr rfl hnow (by simpa using hperm) hinit hM harr hne
  rw [hlen] at this
  exact this

/-- Every segment is acknowledged: the handler never drops a parsed deliver_sm (it yields
    the message or the placeholder, and `_receive_data` answers both with deliver_sm_resp). -/
theorem ack_every_segment (s : CState) (now : Nat) (d : Msg) :
    (handleDeliver s now d).2.2 ≠ Handled.dropped := by
  unfold handleDeliver
  split
  · split
    · simp
    · dsimp only
      split
      · simp
      · dsimp only
        split
        · split <;> simp
        · simp
  · split
    · dsimp only; split <;> simp
    · simp

/-- Segments of other references never disturb what is collected for `r`. -/
theorem no_cross_interference (s : CState) (now : Nat) (d : Msg) (r : Nat)
    (hseg : IsSegOf r d = false) (hnow : now ≤ s.ttlDeliv) :
    aget (handleDeliver s now d).1.delivSegStore r = aget s.delivSegStore r :=
  (other_op s now d r hseg hnow).1

/-- Sorting by numeric sequence (repair 035d175): ten or more segments come out as 1,2,…,n. -/
theorem numeric_order (p : Nat → List Nat) (n : Nat) (arr : List Nat)
    (hperm : arr.Perm (List.range' 1 n)) :
    sortSegs (arr.map fun i => (i, p i)) = (List.range' 1 n).map fun i => (i, p i) :=
  sortSegs_perm p n arr hperm

/-- Non-vacuity: three segments arriving as 3,1,2 interleaved with a segment of another
    reference. -/
example :
    let seg (ref i tot : Nat) (t : List Nat) : Msg :=
      { kind := .deliverSm, seq := 0, hasSar := true, sarRef := ref, sarSeq := i, sarTotal := tot, text := t }
    resultsFor 7 (runDelivers { ttlResp := 100, ttlDeliv := 100 }
        [(1, seg 7 3 3 [99]), (2, seg 8 1 2 [120]), (3, seg 7 1 3 [97]), (4, seg 7 2 3 [98])]).2
      = [.placeholder, .placeholder,
         .msg { kind := .deliverSm, seq := 0, hasSar := true, sarRef := 7, sarSeq := 2, sarTotal := 3,
                text := [97, 98, 99] }] := by
  decide +kernel

/-- TIE TO THE SOURCE (regenerated on every run, Gen/Site.lean): an inbound segment is handed to `put_delivery_segmented` after it was decoded, before any receipt handling -/
theorem handle_request_step_order :
    Gen.Site.handleRequest.filter (fun x => x ∈ ["from_pdu", "put_delivery_segmented", "get_delivery"]) = ["from_pdu", "put_delivery_segmented", "get_delivery"] := by
  decide

/-- TIE TO THE SOURCE (regenerated on every run, Gen/Site.lean): `_handle_request` awaits the correlator directly: no time-out, task or shield is put around reassembly or receipt correlation (a cancelled `put_delivery_segmented` would lose the message it had just completed) -/
theorem request_handler_awaits_directly :
    Gen.Site.handleRequest.filter (fun x => x ∈ ["_socket_operation", "wait_for", "create_task", "shield"]) = [] := by
  decide

/-- TIE TO THE SOURCE (regenerated on every run, Gen/Site.lean): `put_delivery_segmented` reads and updates the store of
    inbound parts without giving up control - the part is kept, or the message completed and its entry dropped, in one atomic
    step, which is what the model's `c.hdel` step is; the only `await` on either path is the sweep AFTER the update. -/
theorem reassembly_step_is_atomic :
    Gen.Site.putDeliverySegmentedAwaits =
      ["get:_delivery_segment_store", "pop:_delivery_segment_store", "_remove_expired", "await",
       "set:_delivery_segment_store", "_remove_expired", "await"] := by decide

end SmppVerif.Props.C09

#print axioms SmppVerif.Props.C09.reassemble_any_order
#print axioms SmppVerif.Props.C09.ack_every_segment
#print axioms SmppVerif.Props.C09.no_cross_interference
#print axioms SmppVerif.Props.C09.numeric_order
#print axioms SmppVerif.Props.C09.handle_request_step_order
#print axioms SmppVerif.Props.C09.request_handler_awaits_directly
#print axioms SmppVerif.Props.C09.reassembly_step_is_atomic
