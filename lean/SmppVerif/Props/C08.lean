/-
C08 — Segmentation is lossless and every segment fits a single short message.
(splitters of utils.py after repair c0f1520; PDU-level cloning is covered with C03's model)
-/
import SmppVerif.Lemmas.Split
import SmppVerif.Gen.Site

namespace SmppVerif.Props.C08
open SmppVerif SmppVerif.Split SmppVerif.Lemmas.Split SmppVerif.Gen.Consts

/-- the independent receiver's view of one segment payload: strict decoding under the
    alphabet the data_coding announces -/
def decodeAs (gsm : Bool) (octets : List Nat) : Except Exc (List Nat) :=
  if gsm then Gsm.decode .strict octets else Utf16.decode .strict octets

/-- The constants the proofs rely on, as the running module holds them; chunk sizes on the
    UCS2 path are even (so no chunk boundary can fall inside a 16-bit unit). -/
theorem consts_ok :
    maxSmSize = 254 ∧ maxOctetSize = 140 ∧ maxSeptetSize = 160 ∧ ieId8 = 0 ∧ ieId16 = 8 ∧
    maxSmSize % 2 = 0 ∧ (maxOctetSize - 5 - 1 - ((5 + 1) % 2)) % 2 = 0 ∧
    (maxOctetSize - 6 - 1 - ((6 + 1) % 2)) % 2 = 0 := by decide

/-- what a list of payloads must satisfy: they decode, each on its own, to consecutive
    non-empty pieces of the text, and respect the size limit in octets -/
def Reassembles (gsm : Bool) (limit : Nat) (text : List Nat) (payloads : List (List Nat)) : Prop :=
  ∃ pieces : List (List Nat), pieces.flatten = text ∧
    Forall2 (fun payload piece => piece ≠ [] ∧ payload.length ≤ limit ∧
                    decodeAs gsm payload = .ok piece) payloads pieces

/-- chunks of the encoded text on either path reassemble, with `L` cells per chunk -/
theorem chunks_reassemble (enc : Enc) (text : List Nat) (hcp : ∀ c ∈ text, c < 0x110000)
    (cells : List Nat) (lead : Nat → Bool) (toBytes : List Nat → List Nat)
    (h : cellsOf enc text = .ok (cells, lead, toBytes)) (L : Nat) (hL : 2 ≤ L) :
    Reassembles (useGsm enc text) (if useGsm enc text then L else 2 * L) text
      ((chunks lead L cells).map toBytes) := by
  unfold cellsOf at h
  cases hg : useGsm enc text with
  | true =>
    simp only [hg, if_true] at h ⊢
    cases he : Gsm.encode .strict text with
    | error e => rw [he] at h; cases h
    | ok b =>
      rw [he] at h; cases h
      unfold Gsm.encode at he
      cases hk : Gsm.toGsmCodes .strict text with
      | error e => rw [hk] at he; cases he
      | ok ks =>
        have hlt := Lemmas.Gsm.toGsmCodes_strict_lt text ks hk
        simp only [hk, Lemmas.Gsm.packOctets_of_lt ks hlt] at he
        cases he
        obtain ⟨pieces, hp, hch, hall⟩ := gsm_chunks L hL text cells hk
        refine ⟨pieces, hp, ?_⟩
        rw [hch, List.map_map]
        apply forall2_self_map
        intro p hpm
        obtain ⟨hne, hlen, _, hd⟩ := hall p hpm
        exact ⟨hne, by simpa using hlen, by simpa [decodeAs] using hd⟩
  | false =>
    simp only [hg, Bool.false_eq_true, if_false] at h ⊢
    cases he : Utf16.encodeUnits .strict text with
    | error e => rw [he] at h; cases h
    | ok us =>
      rw [he] at h; cases h
      obtain ⟨pieces, hp, hch, hall⟩ := u16_chunks L hL text cells he hcp
      refine ⟨pieces, hp, ?_⟩
      rw [hch, List.map_map]
      apply forall2_self_map
      intro p hpm
      obtain ⟨hne, hlen, hd⟩ := hall p hpm
      refine ⟨hne, ?_, by simpa [decodeAs] using hd⟩
      simp only [Function.comp]
      rw [unitsToBytes_length]; omega

/-- the whole text, as one payload, decodes to the text -/
theorem whole_decodes (enc : Enc) (text : List Nat) (hcp : ∀ c ∈ text, c < 0x110000)
    (cells : List Nat) (lead : Nat → Bool) (toBytes : List Nat → List Nat)
    (h : cellsOf enc text = .ok (cells, lead, toBytes)) :
    decodeAs (useGsm enc text) (toBytes cells) = .ok text := by
  unfold cellsOf at h
  cases hg : useGsm enc text with
  | true =>
    simp only [hg, if_true] at h
    cases he : Gsm.encode .strict text with
    | error e => rw [he] at h; cases h
    | ok b =>
      rw [he] at h; cases h
      have hgt := (Lemmas.Gsm.isGsmText_iff_encodes text).mpr ⟨_, he⟩
      obtain ⟨b', hb', hd⟩ := Lemmas.Gsm.decode_encode_any_mode .strict text hgt
      rw [he] at hb'; cases hb'
      simpa [decodeAs] using hd
  | false =>
    simp only [hg, Bool.false_eq_true, if_false] at h
    cases he : Utf16.encodeUnits .strict text with
    | error e => rw [he] at h; cases h
    | ok us =>
      rw [he] at h; cases h
      have hsc := scalar_of_encodeUnits text _ he hcp
      have hus := (u16_piece text hsc).1
      rw [he] at hus; cases hus
      simpa [decodeAs] using u16_decode_piece text hsc

/-- SAR method (`split_sms`): either the text fits one short message (at most 254 octets, and
    they decode to the text), or the segments, decoded one by one by an independent receiver
    and concatenated in order, reproduce the text exactly; every segment has at most 254
    octets and decodes on its own — so no boundary lies inside a GSM escape pair or a UTF-16
    surrogate pair. Holds for every text (any length, any mix of characters). -/
theorem sar_segments (enc : Enc) (text : List Nat) (hcp : ∀ c ∈ text, c < 0x110000)
    (parts : List (List Nat)) (h : splitSms enc text = .ok parts) :
    (∃ octets, parts = [octets.length :: octets] ∧ octets.length ≤ 254 ∧
        decodeAs (useGsm enc text) octets = .ok text) ∨
    Reassembles (useGsm enc text) 254 text parts := by
  unfold splitSms at h
  cases hc : cellsOf enc text with
  | error e => rw [hc] at h; cases h
  | ok triple =>
    obtain ⟨cells, lead, toBytes⟩ := triple
    rw [hc] at h
    simp only at h
    by_cases hfit : (toBytes cells).length ≤ maxSmSize
    · left
      simp only [hfit, if_true] at h
      unfold encodeUserData at h
      have : (toBytes cells).length < 256 := by have := consts_ok.1; omega
      simp only [this, if_true, Except.map] at h
      cases h
      exact ⟨_, rfl, by have := consts_ok.1; omega, whole_decodes enc text hcp cells lead toBytes hc⟩
    · right
      simp only [hfit, if_false] at h
      cases h
      have hms := consts_ok.1
      have := chunks_reassemble enc text hcp cells lead toBytes hc
        (if useGsm enc text then maxSmSize else maxSmSize / 2) (by rw [hms]; split <;> omega)
      cases hg : useGsm enc text with
      | true => simpa [hg, hms] using this
      | false => simpa [hg, hms] using this

/-- UDH method (`split_sms_udh`): either one short message, or at most 255 segments, each
    `05 00 03 ref tot seq` (8-bit reference) or `06 08 04 hi lo tot seq` (16-bit) followed by a
    payload; same reference and total on all, sequence numbers 1..total in order; payloads
    reassemble to the text and decode on their own; a GSM segment has at most 153 (152) septets
    after a 6 (7) octet header — 160 septets in all — and a UCS2 segment at most 134 (132)
    octets after it — at most 140 octets in all. -/
theorem udh_segments (enc : Enc) (ref : Nat) (text : List Nat) (hcp : ∀ c ∈ text, c < 0x110000)
    (parts : List (List Nat)) (h : splitSmsUdh enc ref text = .ok parts) :
    (∃ octets, parts = [octets.length :: octets] ∧
        octets.length ≤ (if useGsm enc text then 160 else 140) ∧
        decodeAs (useGsm enc text) octets = .ok text) ∨
    (∃ payloads : List (List Nat), payloads.length ≤ 255 ∧
        parts = (List.range payloads.length).zipWith
                  (fun i p => udhFor ref payloads.length (i + 1) ++ p) payloads ∧
        Reassembles (useGsm enc text)
          (if useGsm enc text then (if ref > 0xFF then 152 else 153)
           else (if ref > 0xFF then 132 else 134)) text payloads) := by
  unfold splitSmsUdh at h
  obtain ⟨c1, c2, c3, _, _, _, _, _⟩ := consts_ok
  cases hc : cellsOf enc text with
  | error e => rw [hc] at h; cases h
  | ok triple =>
    obtain ⟨cells, lead, toBytes⟩ := triple
    rw [hc] at h
    simp only at h
    by_cases hfit : (toBytes cells).length ≤ (if useGsm enc text then maxSeptetSize else maxOctetSize)
    · left
      simp only [hfit, if_true] at h
      unfold encodeUserData at h
      have h256 : (toBytes cells).length < 256 := by
        rw [c2, c3] at hfit; split at hfit <;> omega
      simp only [h256, if_true, Except.map] at h
      cases h
      refine ⟨_, rfl, ?_, whole_decodes enc text hcp cells lead toBytes hc⟩
      rw [c2, c3] at hfit; exact hfit
    · right
      simp only [hfit, if_false] at h
      by_cases hbad : ref > 0xFF ∧ ref >>> 8 ≥ 256
      · simp only [hbad, and_self, if_true] at h; cases h
      · simp only [hbad, if_false] at h
        generalize hch : chunks lead (udhChunkSize (useGsm enc text) ref) cells = chs at h
        by_cases hn : chs.length ≥ 256
        · simp only [hn, if_true] at h; cases h
        · simp only [hn, if_false] at h
          cases h
          refine ⟨chs.map toBytes, by simp; omega, by simp [List.zipWith_map_right], ?_⟩
          have hL : 2 ≤ udhChunkSize (useGsm enc text) ref := by
            unfold udhChunkSize udhLenOf; rw [c2, c3]; split <;> split <;> omega
          have := chunks_reassemble enc text hcp cells lead toBytes hc _ hL
          rw [hch] at this
          cases hg : useGsm enc text <;> by_cases hr : ref > 0xFF <;>
            simpa [hg, hr, c2, c3, udhChunkSize, udhLenOf] using this

/-- The UDH header fields, read back by position. -/
theorem udh_fields (ref total seq : Nat) :
    (ref ≤ 0xFF → udhFor ref total seq = [5, 0, 3, ref, total, seq]) ∧
    (0xFF < ref → udhFor ref total seq = [6, 8, 4, ref >>> 8, ref &&& 0xFF, total, seq]) := by
  unfold udhFor
  have h8 : ieId8 = 0 := consts_ok.2.2.2.1
  have h16 : ieId16 = 8 := consts_ok.2.2.2.2.1
  constructor
  · intro h; have : ¬ ref > 0xFF := by omega
    simp [this, h8]
  · intro h; simp [h, h16]

/-- 160 septets including the header: a 6-octet header occupies 7 septets, a 7-octet one 8. -/
theorem gsm_udh_septets : (6 * 8 + 6) / 7 + 153 = 160 ∧ (7 * 8 + 6) / 7 + 152 = 160 ∧
    6 + 134 = 140 ∧ 7 + 132 ≤ 140 := by decide

/-- Non-vacuity: 200 euro signs (400 septets) are split by SAR into two segments of 254 and
    146 septets — before the repair this was one 400-octet "segment". -/
example : (splitSms .auto (List.replicate 200 0x20AC)).map (·.map List.length) = .ok [254, 146] := by
  decide +kernel

/-- TIE TO THE SOURCE (regenerated on every run, Gen/Site.lean): in the Sender loop the segments of a message are made (`clone()` of the message, in a loop of its own) BEFORE the loop that sends them starts: what another task does to the message object while a segment is being sent cannot reach the segments still to come -/
theorem segments_cloned_before_sending :
    Gen.Site.dequeueLoop.filter (fun x => x ∈ ["for", "clone", "end-for", "_send_data", "def", "end-def"]) =
      ["for", "clone", "end-for", "for", "_send_data", "end-for"] := by
  decide

end SmppVerif.Props.C08

#print axioms SmppVerif.Props.C08.consts_ok
#print axioms SmppVerif.Props.C08.sar_segments
#print axioms SmppVerif.Props.C08.udh_segments
#print axioms SmppVerif.Props.C08.udh_fields
#print axioms SmppVerif.Props.C08.gsm_udh_septets
#print axioms SmppVerif.Props.C08.segments_cloned_before_sending
