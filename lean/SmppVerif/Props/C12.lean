/-
C12 — JSON serialisation round trip preserves every message completely.

The model (Model/Json.lean) is an interpreter over `Gen/Shape.lean`, which is regenerated from
the source on every run: the dataclass fields of the fifteen message classes with their declared
types and defaults, the argument expressions of each class's `from_json` (read from its AST),
the type key `_json_default` writes and `dict_to_smpp_message` reads, MESSAGE_TYPE_MAP.  The
theorems are therefore re-checked against what the code says now: dropping a field from a
`from_json`, reading it under another key, adding a public attribute that is not restored,
or changing the type key makes `shape_ok` (a kernel computation over the regenerated table) fail.

Trusted / modelled, not verified: json.dumps / json.loads (the model works on the tree between
them), `isoformat` / `fromisoformat` (modelled on the format isoformat emits; round trip proved
for that model), exactness of `total_seconds()` / `timedelta(seconds=…)` on the float (a float
is the number of microseconds it denotes), the extractor's five AST patterns.
-/
import SmppVerif.Lemmas.Json

namespace SmppVerif.Props.C12
open SmppVerif SmppVerif.Time SmppVerif.Json SmppVerif.Lemmas.Json SmppVerif.Lemmas.JsonIso

/-- Obligation on the regenerated shapes: for each of the fifteen classes the type name resolves
    back to the class, attribute names are distinct, public and different from the type key, and
    every constructor argument that `from_json` passes is an expression that restores a value of
    the field's declared type from the key the encoder wrote it under. -/
theorem shape_ok : ∀ c ∈ Gen.Shape.classes, classOK c = true := by decide +kernel

theorem type_key : Gen.Shape.typeKeyWritten = Gen.Shape.typeKeyRead := by decide +kernel

/-- all fifteen message types are covered -/
theorem fifteen : (Gen.Shape.classes.map (·.command)).length = 15 ∧ (Gen.Shape.classes.map (·.command)).Nodup := by
  decide +kernel

/-- The only fields no `from_json` restores: command_status of the three bind *requests*
    (SMPP 3.4: null in requests, which is the constructor default). -/
theorem unrestored_fields :
    (Gen.Shape.classes.flatMap fun c =>
      (c.fields.filter fun f => (jget c.recipe f.name).isNone).map fun f => (c.name, f.name)) =
    [("BindTransceiver", "command_status"), ("BindTransmitter", "command_status"),
     ("BindReceiver", "command_status")] := by decide +kernel

/-- MAIN THEOREM.  For every message class and every assignment of admissible values to its
    fields (any strings for log_id / extra_data / texts, any integers, every enum member, aware
    and naive datetimes, timedeltas with fractional seconds, any list of optional parameters),
    json_decode(json_encode(m)) = m — class, every public attribute, in order. -/
theorem json_round_trip (c : ClassInfo) (hc : c ∈ Gen.Shape.classes) (vs : List PyVal)
    (hlen : c.fields.length = vs.length) (hv : ∀ p ∈ List.zip c.fields vs, FieldOK c p.1 p.2) :
    (toJson ⟨c.name, attrsOf c.fields vs⟩).bind fromJson = .ok ⟨c.name, attrsOf c.fields vs⟩ :=
  class_round_trip c (shape_ok c hc) type_key vs hlen hv

/-- The encoded form names the message type. -/
theorem names_type (c : ClassInfo) (hc : c ∈ Gen.Shape.classes) (attrs : List (String × PyVal)) (j : JTop)
    (h : toJson ⟨c.name, attrs⟩ = .ok j) :
    jget j Gen.Shape.typeKeyWritten = some (.leaf (.str (codes c.command))) ∧ !(codes c.command).isEmpty := by
  have hok := shape_ok c hc
  simp only [classOK, Bool.and_eq_true, decide_eq_true_eq] at hok
  obtain ⟨⟨⟨⟨⟨hne, _⟩, _⟩, hfc⟩, _⟩, _⟩ := hok
  unfold toJson at h
  simp only [hfc] at h
  cases h
  exact ⟨jget_cons_self _ _ _, hne⟩

/-- both kinds of time value -/
theorem datetime_round_trip (d : DateTime) (h : IsoWF d) : fromIso (iso d) = .ok d := fromIso_iso d h
theorem timedelta_round_trip (t : TimeDelta) (h : TdWF t) : tdOfMicros (tdMicros t) = t := td_round_trip t h

/-- Non-vacuity: a SubmitSm with tracking fields, a non-zero status, an aware datetime with
    microseconds and a negative offset, a fractional timedelta and three kinds of optional parameter
    is admissible, and the model computes its round trip (kernel evaluation). -/
def sample : List PyVal :=
  [.int 7, .enum 88, .str [108, 34, 92], .str [0x1F600], .str [104, 105], .phone [49, 50] 1 1, .phone [] 0 0,
   .str [], .int 3, .int 0, .int 0, .dt ⟨2024, 2, 29, 23, 59, 58, 250000, some (-12600)⟩, .td ⟨-1, 86399, 999999⟩,
   .int 1, .int 0, .str [117, 99, 115, 50], .int 0, .str [], .params [(0x0204, .int 513), (0x001E, .str [97]), (0x130C, .bool true)],
   .bool false, .str [115]]

def sampleClass : ClassInfo := (findClass "SubmitSm").getD default

example : sampleClass ∈ Gen.Shape.classes ∧ sampleClass.fields.length = sample.length ∧
    (toJson ⟨sampleClass.name, attrsOf sampleClass.fields sample⟩).bind fromJson
      = .ok ⟨"SubmitSm", attrsOf sampleClass.fields sample⟩ := by
  decide +kernel

example : IsoWF ⟨2024, 2, 29, 23, 59, 58, 250000, some (-12600)⟩ ∧ TdWF ⟨-1, 86399, 999999⟩ := by
  refine ⟨⟨by decide +kernel, ?_⟩, by unfold TdWF; decide⟩
  intro v hv; cases hv; decide

end SmppVerif.Props.C12

#print axioms SmppVerif.Props.C12.shape_ok
#print axioms SmppVerif.Props.C12.type_key
#print axioms SmppVerif.Props.C12.fifteen
#print axioms SmppVerif.Props.C12.unrestored_fields
#print axioms SmppVerif.Props.C12.json_round_trip
#print axioms SmppVerif.Props.C12.names_type
#print axioms SmppVerif.Props.C12.datetime_round_trip
#print axioms SmppVerif.Props.C12.timedelta_round_trip
