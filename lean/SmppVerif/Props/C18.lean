/-
C18 — Rate limiter and throttle handler bound the send rate without starving it.
(decision objects; the gate in the sender loop is part of the session model)
-/
import SmppVerif.Lemmas.Limiter
import SmppVerif.Lemmas.Gate
import SmppVerif.Gen.Site

namespace SmppVerif.Props.C18
open SmppVerif SmppVerif.Policy SmppVerif.Lemmas.Limiter

/-- Token bucket, window bound: from any reachable state, of the `limit()` attempts made at
    times `t0 ≤ t1 ≤ … ≤ tn` at most `rate·(tn − t0) + rate + 1` are let through — for every
    positive rate, every arrival pattern, every window. -/
theorem passes_window (b : Bucket) (t t0 : Rat) (ts : List Rat) (h : Inv b t) (ht : t ≤ t0)
    (hasc : Ascending t0 ts) :
    ((b.run (t0 :: ts)).2 : Rat) ≤ b.rate * (lastTime t0 ts - t0) + b.rate + 1 :=
  Lemmas.Limiter.passes_window b t t0 ts h ht hasc

/-- The invariant holds initially and after every attempt, so the bound applies to every
    window of every history. -/
theorem inv_reachable (r now : Rat) (h : 0 < r) : Inv (Bucket.init r now) now ∧
    ∀ (b : Bucket) (t t' : Rat), Inv b t → t ≤ t' → Inv (b.attempt t').1 t' :=
  ⟨init_inv r now h, fun b t t' hb ht => (attempt_step b t t' hb ht).1⟩

/-- Progress, PARTIAL (rates of at least 1/s): a refused caller that retries after sleeps of
    at least one second is let through at the first or second retry. -/
theorem progress_partial (b : Bucket) (t t1 t2 : Rat) (h : Inv b t) (hr : 1 ≤ b.rate)
    (h1 : t + 1 ≤ t1) (h2 : t1 + 1 ≤ t2) :
    (b.attempt t1).2 = true ∨ ((b.attempt t1).1.attempt t2).2 = true :=
  Lemmas.Limiter.progress b t t1 t2 h hr h1 h2

/-- The full progress claim ("all positive rates, including below 1/s") is FALSE of the code:
    below one message per second no attempt ever passes (known finding
    `limiter-rate-below-one`; witness replayed on the real SimpleRateLimiter by the check). -/
theorem starves_below_one (b : Bucket) (t t' : Rat) (h : Inv b t) (hr : b.rate < 1) :
    (b.attempt t').2 = false ∧ Inv (b.attempt t').1 (max t t') :=
  Lemmas.Limiter.starves b t t' h hr

/-- Throttle handler: a request is denied exactly when at least `sample_size` responses of
    the current window are in and the percentage of throttled ones (at the 0.01 resolution of
    `round(·, 2)`) exceeds `deny_request_at`; sending is never suspended otherwise. -/
theorem deny_iff (t : Throttle) (now : Rat) (hd : 0 ≤ t.denyAt) :
    (t.allow now).2 = false ↔
      (t.sampleSize ≤ ((t.nonThrottle + t.throttle : Nat) : Rat) ∧
       round2 ((t.throttle : Rat) / ((t.nonThrottle + t.throttle : Nat) : Rat) * 100) > t.denyAt) :=
  Lemmas.Limiter.deny_iff t now hd

/-- The rounded percentage is within 0.005 of the exact one. -/
theorem round2_close (x : Rat) : x - 1 / 200 ≤ round2 x ∧ round2 x ≤ x + 1 / 200 :=
  Lemmas.Limiter.round2_close x

/-- The window resets exactly after `sampling_period`, and only then. -/
theorem window_reset (t : Throttle) (now : Rat) :
    (now - t.updatedAt > t.samplingPeriod →
        (t.allow now).1.nonThrottle = 0 ∧ (t.allow now).1.throttle = 0 ∧ (t.allow now).1.updatedAt = now) ∧
    (¬ now - t.updatedAt > t.samplingPeriod → (t.allow now).1 = t) :=
  Lemmas.Limiter.window_reset t now

/-- After the reset sending resumes. -/
theorem allowed_after_reset (t : Throttle) (now now' : Rat) (hs : 0 < t.sampleSize) (hd : 0 ≤ t.denyAt)
    (h : now - t.updatedAt > t.samplingPeriod) : ((t.allow now).1.allow now').2 = true :=
  Lemmas.Limiter.allowed_after_reset t now now' hs hd h

/-! ### the gate in the session: consulted before each PDU, fed by submit responses -/

open SmppVerif.Gate in
/-- In every event trace the gate monitor accepts (the session harness feeds it what it observes of
    the real ESME: handler feeds, consultations with their answers, submit_sm writes), a written
    submit_sm was let through by a consultation of its own, answered True on window counters that
    did not meet the denial condition, with nothing but response feeds between the two. -/
theorem gate_write_not_denied (th : Throttle) (hd : 0 ≤ th.denyAt) (m' : Mon) (pre post : List Ev)
    (h : run ⟨th, false⟩ (pre ++ Ev.write :: post) = some m') :
    ∃ p1 now p2 mm, pre = p1 ++ Ev.consult now true :: p2 ∧ (∀ e ∈ p2, Lemmas.Gate.IsFeed e) ∧
      run ⟨th, false⟩ p1 = some mm ∧ ¬ Denied mm.th := by
  obtain ⟨p1, now, p2, mm, he, hf, hr, hal⟩ := Lemmas.Gate.write_gated ⟨th, false⟩ m' pre post rfl h
  refine ⟨p1, now, p2, mm, he, hf, hr, ?_⟩
  have hd' : 0 ≤ mm.th.denyAt := by rw [Lemmas.Gate.denyAt_run _ _ _ hr]; exact hd
  intro hden
  have := (Lemmas.Limiter.deny_iff mm.th now hd').mpr hden
  rw [hal] at this; cases this

open SmppVerif.Gate in
/-- Every behaviour of the Sender at the gate — any schedule of responses and turns, any clock
    readings — is accepted by the monitor, and it never writes more PDUs than it had. -/
theorem sender_accepted (th : Throttle) (n : Nat) (inps : List Inp) :
    (run ⟨th, false⟩ (sender th n inps)).isSome = true ∧ Lemmas.Gate.writes (sender th n inps) ≤ n :=
  ⟨Lemmas.Gate.sender_accepted th false n inps, Lemmas.Gate.sender_writes_le th n inps⟩

open SmppVerif.Gate in
/-- When nothing suspends between consultation and write (no rate-limiter wait, no suspending hook)
    no PDU is written on denied counters: the consultation is the event right before the write. -/
theorem sender_never_writes_denied (th : Throttle) (hd : 0 ≤ th.denyAt) (n : Nat) (inps : List Inp)
    (pre post : List Ev) (h : sender th n inps = pre ++ Ev.write :: post) :
    ∃ p1 now mm, pre = p1 ++ [Ev.consult now true] ∧ run ⟨th, false⟩ p1 = some mm ∧ ¬ Denied mm.th := by
  have hacc := Lemmas.Gate.sender_accepted th false n inps
  rw [h] at hacc
  obtain ⟨m', hm'⟩ := Option.isSome_iff_exists.mp hacc
  obtain ⟨p1, now, p2, mm, he, hf, hr, hnd⟩ := gate_write_not_denied th hd m' pre post hm'
  obtain ⟨q1, now', hq⟩ := Lemmas.Gate.sender_write_immediate th n inps pre post h
  rcases List.eq_nil_or_concat p2 with rfl | ⟨L, b, rfl⟩
  · exact ⟨p1, now, mm, he, hr, hnd⟩
  · exfalso
    have hb := hf b (by simp)
    have : pre = (p1 ++ Ev.consult now true :: L) ++ [b] := by simp [he]
    rw [this] at hq
    have := List.append_inj_right' hq (by simp)
    simp only [List.cons.injEq, and_true] at this
    subst this
    exact hb

open SmppVerif.Gate in
/-- Sending is never suspended otherwise: on its turn with a PDU pending and counters that do not
    meet the denial condition, the Sender writes. -/
theorem sender_progress (th : Throttle) (hd : 0 ≤ th.denyAt) (n : Nat) (now : Rat) (rest : List Inp)
    (h : ¬ Denied th) :
    sender th (n + 1) (Inp.turn now :: rest) =
      Ev.consult now true :: Ev.write :: sender (th.allow now).1 n rest := by
  have : (th.allow now).2 = true := by
    cases hal : (th.allow now).2 with
    | true => rfl
    | false => exact absurd ((Lemmas.Limiter.deny_iff th now hd).mp hal) h
  simp [sender, this]

/-- Non-vacuity: two throttled answers of two (sample 2, deny at 50 %) stop the third segment until the
    window is over; the monitor rejects a write that no consultation let through. -/
example : Gate.sender ⟨60, 2, 50, 0, 0, 0⟩ 3 [.turn 1, .resp true, .turn 2, .resp true, .turn 3, .turn 6, .turn 62, .turn 63] =
    [.consult 1 true, .write, .feed true, .consult 2 true, .write, .feed true, .consult 3 false, .consult 6 false,
     .consult 62 false, .consult 63 true, .write] := by decide +kernel
example : Gate.firstReject ⟨⟨60, 2, 50, 0, 0, 0⟩, false⟩ 0 [.consult 1 true, .write, .write] = some 2 := by decide +kernel

/-- Non-vacuity: rate 2/s, six back-to-back attempts then one 1 s later: 2 + 0 … passes. -/
example : ((Bucket.init 2 0).run [1/4, 1/4, 1/4, 1/4, 5/4]).2 = 3 := by decide +kernel
example : ((⟨180, 50, 1, 49, 1, 0⟩ : Throttle).allow 10).2 = false := by decide +kernel
example : ((⟨180, 50, 1, 49, 0, 0⟩ : Throttle).allow 10).2 = true := by decide +kernel

/-- TIE TO THE SOURCE (regenerated on every run, Gen/Site.lean): in the Sender loop the throttle handler and the rate limiter are consulted INSIDE the loop over the PDUs of a message, each PDU on its own, in this order, before `_send_data` - what the gate model (Model/Gate.lean) assumes -/
theorem gate_step_order :
    Gen.Site.dequeueLoop.filter (fun x => x ∈ ["for", "allow_request", "limit", "_send_data", "end-for"]) =
      ["for", "end-for", "for", "allow_request", "limit", "_send_data", "end-for"] := by
  decide

end SmppVerif.Props.C18

#print axioms SmppVerif.Props.C18.passes_window
#print axioms SmppVerif.Props.C18.inv_reachable
#print axioms SmppVerif.Props.C18.progress_partial
#print axioms SmppVerif.Props.C18.starves_below_one
#print axioms SmppVerif.Props.C18.deny_iff
#print axioms SmppVerif.Props.C18.round2_close
#print axioms SmppVerif.Props.C18.window_reset
#print axioms SmppVerif.Props.C18.allowed_after_reset
#print axioms SmppVerif.Props.C18.gate_write_not_denied
#print axioms SmppVerif.Props.C18.sender_accepted
#print axioms SmppVerif.Props.C18.sender_never_writes_denied
#print axioms SmppVerif.Props.C18.sender_progress
#print axioms SmppVerif.Props.C18.gate_step_order
