/-
C20 — Delivery-receipt text parses back to the data it was built from.
-/
import SmppVerif.Lemmas.Receipt

namespace SmppVerif.Props.C20
open SmppVerif SmppVerif.Receipt SmppVerif.Lemmas.Receipt

/-- Parsing the text built from a receipt dictionary returns that dictionary: id, counts,
    both dates to the minute, state, error code, and the text up to its padding — for every
    id and state without blanks (colons allowed), every text (blanks and colons allowed),
    counts/err 0..999, valid dates 1969..2068.  When the text carries no id the
    receipted_message_id parameter supplies it. -/
theorem parse_build (r : ReceiptData) (sd dd : Nat × Nat × Nat × Nat × Nat) (w : WFr r sd dd)
    (esm : Nat) (hesm : isReceipt esm = true) (tlv : Option (List Nat)) :
    parse esm (build r) tlv
      = .ok (expected r sd dd (if r.id.isEmpty then tlv.getD [] else r.id)) := by
  rw [build_eq_nested]
  exact parse_nested libNames libNames_ok r sd dd w esm hesm tlv

/-- Field names are matched case-insensitively: any ASCII casing of the eight names gives
    the same dictionary. -/
theorem key_case_insensitive (n : Names) (hn : n.Ok) (r : ReceiptData)
    (sd dd : Nat × Nat × Nat × Nat × Nat) (w : WFr r sd dd)
    (esm : Nat) (hesm : isReceipt esm = true) (tlv : Option (List Nat)) :
    parse esm (nested n r) tlv = parse esm (build r) tlv := by
  rw [parse_build r sd dd w esm hesm tlv]
  exact parse_nested n hn r sd dd w esm hesm tlv

/-- The text field may itself contain blanks and colons: it is taken verbatim to the end. -/
theorem text_is_last (k v : List Nat) (hk : 58 ∉ k) (hkt : lowerAscii k = kText) :
    getParam (k ++ 58 :: v) = some (kText, v, []) :=
  getParam_text k v hk hkt

/-- For any scanned dictionary: an id in the text wins; without one (absent or empty) the
    receipted_message_id parameter is used. -/
theorem tlv_fallback (d : RDict) (v : List Nat) :
    (idMissing d = true → withTlv d (some v) = dictSet d kId (.str v)) ∧
    (idMissing d = false → withTlv d (some v) = d) ∧ withTlv d none = d := by
  unfold withTlv
  refine ⟨fun h => by simp [h], fun h => by simp [h], by split <;> rfl⟩

/-- Fields the library does not know are kept as strings. -/
theorem unknown_kept (key v : List Nat)
    (h1 : ¬ (key = kSub ∨ key = kDlvrd ∨ key = kErr)) (h2 : ¬ (key = kSubmitDate ∨ key = kDoneDate)) :
    convert key v = .ok (.str v) :=
  convert_str key v h1 h2

/-- A DeliverSm that is not a receipt parses to an empty dictionary. -/
theorem not_receipt_empty (esm : Nat) (text : List Nat) (tlv : Option (List Nat))
    (h : isReceipt esm = false) : parse esm text tlv = .ok [] :=
  not_receipt esm text tlv h

/-- Non-vacuity: the suite's receipt shape with a colon in the id and a text with blanks. -/
example : WFr ⟨[65, 58, 49], 1, 1, some (2025, 3, 4, 12, 1), some (2068, 2, 29, 23, 59), [68, 69, 76],
    0, [97, 32, 98, 58, 99]⟩ (2025, 3, 4, 12, 1) (2068, 2, 29, 23, 59) :=
  ⟨by decide, by decide, by decide, by decide, by decide,
   ⟨rfl, ⟨by decide, by decide, by decide, by decide, by decide⟩⟩,
   ⟨rfl, ⟨by decide, by decide, by decide, by decide, by decide⟩⟩⟩
example : isReceipt 4 = true := by decide

end SmppVerif.Props.C20

#print axioms SmppVerif.Props.C20.parse_build
#print axioms SmppVerif.Props.C20.key_case_insensitive
#print axioms SmppVerif.Props.C20.text_is_last
#print axioms SmppVerif.Props.C20.tlv_fallback
#print axioms SmppVerif.Props.C20.unknown_kept
#print axioms SmppVerif.Props.C20.not_receipt_empty
