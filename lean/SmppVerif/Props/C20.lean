import SmppVerif.Model.Receipt
namespace SmppVerif.Props.C20
theorem placeholder : True := trivial
end SmppVerif.Props.C20
#print axioms SmppVerif.Props.C20.placeholder
