/-
C15 — wire discipline: whole PDUs, bind first, echoed sequence numbers, mode respected.

Model (Model/Discipline.lean): a monitor over what the environment observes of a session — calls of
the sending hook with their bytes, every writer.write call, the PDUs the peer delivered, calls and
returns of the received hook, successful binds, new connections.  The monitor accepts a run iff:
every write call carries exactly one whole PDU whose very bytes were handed to the sending hook
before and not yet written; on each connection the first write is the bind request of the
configured mode and nothing follows before the bind succeeded; a response echoes the sequence
number (and command) of a request read on that connection, each request answered at most once, a
deliver_sm_resp only after the received hook returned; a PDU reaches the received hook only if
the peer delivered it, at most once; a receiver never writes submit_sm.

Theorems: what acceptance implies for the wire (`wire_is_whole_pdus`, `writes_were_announced`), and
that EVERY interleaving of any number of concurrent `_send_data` invocations — each suspended in
the sending hook for as long as it likes — is accepted (`all_interleavings_accepted`); the abstraction
of `_send_data` used there (hook call; on return one write of the same bytes in the same turn) is
what esme.py 393-397 does, and is tied to the code by the correspondence: the event traces of real
sessions on the virtual-time loop (hooks suspending for random times, concurrent sender / receiver
responses / keep-alive / stop(), all three bind modes, reconnects) must be accepted by the monitor.
Exactly-once delivery to the received hook of PDUs that were read, and the session state per mode,
are checked by predicates on the traces.
-/
import SmppVerif.Lemmas.Discipline
import SmppVerif.Lemmas.ReceiverDiscipline
import SmppVerif.Gen.Site

namespace SmppVerif.Props.C15
open SmppVerif SmppVerif.Discipline SmppVerif.Lemmas.Discipline

/-- what is written on a connection in an accepted run is a concatenation of whole PDUs: an
    independent framer splits it into exactly the PDUs of the write calls -/
theorem wire_is_whole_pdus (evs : List Ev) (m m' : Mon) (c : Nat) (h : run m evs = some m') :
    frame (writesOf c evs).length (writesOf c evs).flatten = some (writesOf c evs) :=
  accepted_stream_frames evs m m' c h

/-- each write call carries exactly the bytes announced to the sending hook beforehand -/
theorem writes_were_announced (evs : List Ev) (m m' : Mon) (h : run m evs = some m')
    (pre post : List Ev) (c : Nat) (b : Bytes) (he : evs = pre ++ .write c b :: post) :
    wholePdu b = true ∧ (b ∈ m.announced ∨ b ∈ announcesOf pre) :=
  accepted_writes evs m m' h pre post c b he

/-- the framer is right: concatenated whole PDUs come apart again -/
theorem framing (pdus : List Bytes) (h : ∀ p ∈ pdus, wholePdu p = true) :
    frame pdus.length pdus.flatten = some pdus := frame_concat pdus _ (Nat.le_refl _) h

/-- whichever of its tasks are sending concurrently: every interleaving is accepted -/
theorem all_interleavings_accepted (c : Nat) (pdus : List Bytes) (hd : pdus.Nodup) (sched started : List Nat) (m : Mon)
    (hs : ∀ b ∈ pdus, Sendable m.bindCmd b) (inv : Inv c pdus started m) :
    ∃ m', run m (senderEvents c pdus started sched) = some m' :=
  interleavings_accepted c pdus hd sched started m hs inv

/-- non-vacuity: two enquire_links sent concurrently, the second announced while the first is still in
    its hook and written first; and two violations the monitor rejects (a PDU written in two pieces,
    a submit_sm before the bind succeeded) -/
def enq (seq : Nat) : Bytes := [0,0,0,16, 0,0,0,0x15, 0,0,0,0, 0,0,0,seq]
def bindTrx : Bytes := [0,0,0,16, 0,0,0,9, 0,0,0,0, 0,0,0,1]
example : (run { bindCmd := 9 } ([.connect 0, .announce bindTrx, .write 0 bindTrx, .bound 0] ++
    senderEvents 0 [enq 2, enq 3] [] [0, 1, 1, 0])).isSome = true := by decide +kernel
example : run { bindCmd := 9 } [.connect 0, .announce bindTrx, .write 0 (bindTrx.take 8), .write 0 (bindTrx.drop 8)] = none := by
  decide +kernel
example : run { bindCmd := 9 } [.connect 0, .announce bindTrx, .write 0 bindTrx, .announce (enq 2), .write 0 (enq 2)] = none := by
  decide +kernel

open SmppVerif.Lemmas.ReceiverDiscipline in
/-- THE RECEIVER OBEYS THE DISCIPLINE, FOR EVERY INPUT: on a bound connection, whatever whole PDUs (octet strings of at
    least 16 octets) the peer delivers, the events of the Receiver model (Model/Receiver.lean, the model of C05: PDU read,
    handed to the received hook, hook returned, response announced to the sending hook and written in one call - or
    nothing written for a response / an unknown command - until an exception leaves the loop) are accepted by the
    monitor: every response is a whole PDU, echoes the sequence number of a request read on this connection, answers that
    request's command or is a generic_nack, each request is answered at most once, and a deliver_sm only after its hook
    returned.  `body` is whatever body the response class writes (any length that fits the length field). -/
theorem receiver_reactions_accepted (c : Nat) (dflt : Pdu.Enc) (body : Bytes → Bytes) (ps : List Bytes) (m : Mon)
    (hr : Ready c m)
    (hps : ∀ p ∈ ps, 16 ≤ p.length ∧ (∀ x ∈ p, x < 256) ∧ 16 + (body p).length < 4294967296) :
    ∃ m', run m (receiverEvents c dflt body ps) = some m' :=
  receiver_accepted c dflt body ps m hr hps

open SmppVerif.Lemmas.ReceiverDiscipline in
/-- non-vacuity: a bound session is `Ready`; an enquire_link from the peer is answered with enquire_link_resp echoing 5 -/
example : Ready 0 { bindCmd := 9, conns := [{ id := 0, writes := 1, bound := true }] } :=
  ⟨⟨_, rfl, rfl, rfl, by decide, by intro q hq; cases hq⟩⟩
example : Receiver.receive (enq 5) Pdu.encGsm = .respond 0x80000015 0 5 := by decide +kernel

/-- TIE TO THE SOURCE (regenerated on every run, Gen/Site.lean): the primitive steps of `ESME._send_data` in source order are
    the ones the monitor and the interleaving model assume — wait for the bound state, build the PDU, announce it to the
    sending hook, write it, drain (the steps this property does not depend on are projected away). -/
theorem send_data_step_order :
    Gen.Site.sendData.filter (fun x => x ∈ ["wait", "pdu", "sending", "write", "drain"]) =
      ["wait", "pdu", "sending", "write", "drain"] := by
  decide

end SmppVerif.Props.C15

#print axioms SmppVerif.Props.C15.wire_is_whole_pdus
#print axioms SmppVerif.Props.C15.writes_were_announced
#print axioms SmppVerif.Props.C15.framing
#print axioms SmppVerif.Props.C15.all_interleavings_accepted
#print axioms SmppVerif.Props.C15.send_data_step_order
#print axioms SmppVerif.Props.C15.receiver_reactions_accepted
