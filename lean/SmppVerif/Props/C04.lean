/-
C04 — the bytes on the wire are those SMPP 3.4 prescribes, in both directions.

The reference is `Spec/Smpp34.lean`: a transcription of the specification's tables and PDU
layouts written without looking at the code (field lists of §4.1, §4.4, §4.6, TLV registry of
§5.3.2, command ids of §5.1.2.1, data_coding of §5.2.19).  The theorems state that the model of
the code's encoder — the one the driver runs and the correspondence compares with `pdu()` octet
for octet — produces the reference bytes.

PARTIAL.  Proved for every input: the tables; the header; all body-less classes; submit_sm_resp
and deliver_sm_resp; the mandatory-field layout of submit_sm / deliver_sm (order, widths, C-octet
termination) for every in-range field assignment; integer TLVs.  Not proved, decided by the
correspondence and the independent encoder of tools/spec/smpp.py only: bind / bind_resp bodies,
string TLVs, the choice of data_coding and text bytes inside `smBody`, and — in the decoding direction —
everything beyond the mandatory fields and message_payload (`decode_mandatory_fields`,
`decode_message_payload`): TLV permutations, omitted response bodies, sc_interface_version, UDH, NUL-terminated
octet strings (the model's decoder is run on such PDUs by the correspondence).  One such shape was decoded wrongly by the code (a UDH whose
first element is not the concatenation element); repaired, see `udh_port_first_decoded`.
-/
import SmppVerif.Lemmas.SpecTables
import SmppVerif.Lemmas.SpecEncode
import SmppVerif.Model.PduDecode
import SmppVerif.Lemmas.SmRead
import SmppVerif.Lemmas.TlvRead
import SmppVerif.Lemmas.PduAgain

namespace SmppVerif.Props.C04
open SmppVerif SmppVerif.Pdu SmppVerif.Spec.Smpp SmppVerif.Lemmas

/-- Every one of the 65,536 tags: value type and width the code's table (regenerated from
    `state.py` on every run) assigns are those of SMPP 3.4 §5.3.2. -/
theorem tlv_table (tag : Nat) : SpecTables.agree tag = true := SpecTables.tlv_table_eq_spec tag

/-- command ids (§5.1.2.1) and data_coding values (§5.2.19) of the regenerated enums -/
theorem command_ids : ∀ p ∈ commandIds,
    (Gen.Enums.smppCommand.find? (fun q => q.1.toLower = p.1)).map (·.2) = some p.2 :=
  SpecTables.command_ids_eq_spec

theorem data_coding : ∀ p ∈ dataCoding,
    (Gen.Enums.smppDataCoding.find? (fun q => q.1 = p.1)).map (·.2) = some p.2 :=
  SpecTables.data_coding_eq_spec

/-- header layout (§3.2): four big-endian 32-bit integers -/
theorem header (len : Nat) (m : Msg) (hl : len < 256 ^ 4) (hs : m.status < 256 ^ 4)
    (hq : 0 ≤ m.seq ∧ m.seq < (256 : Int) ^ 4) :
    packHeader len m = .ok (be 4 len ++ be 4 m.command ++ be 4 m.status ++ be 4 m.seq.toNat) :=
  SpecEncode.packHeader_eq_spec len m hl hs hq (SpecEncode.command_lt m)

/-- enquire_link, enquire_link_resp, unbind, unbind_resp, generic_nack: exactly the reference PDU -/
theorem bodyless (dflt : Enc) (m : Msg) (hst : m.status < 256 ^ 4)
    (hq : 0 ≤ m.seq ∧ m.seq < (256 : Int) ^ 4)
    (hm : (∃ s st, m = .enquireLink s st) ∨ (∃ s st, m = .enquireLinkResp s st) ∨
          (∃ s st, m = .unbind s st) ∨ (∃ s st, m = .unbindResp s st) ∨
          (∃ s st l x, m = .genericNack s st l x)) :
    pdu dflt m = .ok (encodePdu m.command m.status m.seq.toNat [] [], none) :=
  SpecEncode.simple_eq_spec dflt m hst hq hm

/-- submit_sm_resp / deliver_sm_resp with an ASCII id of at most 64 characters -/
theorem sm_resp (dflt : Enc) (r : SmResp) (deliver : Bool) (hst : r.status < 256 ^ 4)
    (hq : 0 ≤ r.seq ∧ r.seq < (256 : Int) ^ 4)
    (hid : ∀ c ∈ r.messageId, c < 128) (hlen : r.messageId.length ≤ 64) :
    pdu dflt (if deliver then .deliverSmResp r else .submitSmResp r) =
      .ok (encodePdu (if deliver then 0x80000005 else 0x80000004) r.status r.seq.toNat [.cstr r.messageId] [], none) :=
  SpecEncode.smResp_eq_spec dflt r deliver hst hq hid hlen

/-- submit_sm / deliver_sm: mandatory-field order, widths and C-octet termination (§4.4.1, §4.6.1) -/
theorem sm_mandatory_layout (m : Sm) (w : SpecEncode.SmWF m) (sm payloadTlv paramBytes ts tv : List Nat) (dc : Nat)
    (hdc : dc < 256) (hsm : sm.length < 256)
    (hts : Time.toSmpp m.schedule = .ok ts) (htv : Time.toSmpp m.validity = .ok tv)
    (hta : (∀ c ∈ ts, c < 128) ∧ (∀ c ∈ tv, c < 128)) :
    smLayout m sm payloadTlv dc paramBytes =
      .ok ((SmFields.fields {
              serviceType := m.serviceType, sourceTon := m.source.ton, sourceNpi := m.source.npi,
              sourceAddr := m.source.number, destTon := m.dest.ton, destNpi := m.dest.npi,
              destAddr := m.dest.number, esmClass := m.esmClass.toNat, protocolId := m.protocolId.toNat,
              priorityFlag := m.priorityFlag.toNat, scheduleDeliveryTime := ts, validityPeriod := tv,
              registeredDelivery := m.registeredDelivery.toNat, replaceIfPresent := m.replaceIfPresent.toNat,
              dataCoding := dc, smDefaultMsgId := m.smDefaultMsgId.toNat, shortMessage := sm }).flatMap Field.bytes
           ++ payloadTlv ++ paramBytes) :=
  SpecEncode.smLayout_eq_spec m w sm payloadTlv paramBytes ts tv dc hdc hsm hts htv hta

/-- integer optional parameters: tag, length, value (§5.3.1) -/
theorem tlv_int (tag v w : Nat) (htag : tag < 65536) (hk : tagInfo tag = (0, w))
    (hw : w = 1 ∨ w = 2 ∨ w = 4) (hv : v < 256 ^ w) :
    tlvBytes ⟨tag, .int v⟩ = .ok (OptParam.bytes ⟨tag, be w v⟩) :=
  SpecEncode.tlvBytes_int_eq_spec tag v w htag hk hw hv

/-- DECODING DIRECTION, mandatory fields: a submit_sm / deliver_sm body laid out as §4.4.1 / §4.6.1
    prescribe (whoever built it), text in short_message, is decoded to the field values it was built
    from — for every in-range value of every field. -/
theorem decode_mandatory_fields (hd : List Nat) (h16 : hd.length = 16) (h : Header) (dflt enc : Enc)
    (svc : List Nat) (ston snpi : Nat) (snum : List Nat) (dton dnpi : Nat) (dnum : List Nat)
    (esm pid prio : Nat) (sched valid : List Nat) (reg repl dc defId : Nat) (sm text : List Nat)
    (schedT validT : Time.TimeObj)
    (w : Lemmas.SmRead.FieldsOK svc ston snpi snum dton dnpi dnum sched valid)
    (henc : (if dc = 0 then Except.ok dflt else encOfDataCoding dc) = .ok enc)
    (hdm : decodeMessage esm (decodeCodec enc) sm = .ok (text, []))
    (hts : Time.fromSmpp sched = .ok schedT) (htv : Time.fromSmpp valid = .ok validT)
    (hsvc : svc.length ≤ 5) (htext : text ≠ [])
    (hlen : h.pduLength = (hd ++ Lemmas.SmRead.mandatory svc ston snpi snum dton dnpi dnum esm pid prio sched valid reg repl dc defId sm []).length) :
    smFromPdu (hd ++ Lemmas.SmRead.mandatory svc ston snpi snum dton dnpi dnum esm pid prio sched valid reg repl dc defId sm []) h dflt =
      .ok { seq := h.seq, status := 0, shortMessage := text,
            source := ⟨snum, ston, snpi⟩, dest := ⟨dnum, dton, dnpi⟩, serviceType := svc,
            esmClass := esm, protocolId := pid, priorityFlag := prio, schedule := schedT, validity := validT,
            registeredDelivery := reg, replaceIfPresent := repl,
            encoding := if enc.name = str Gen.Consts.defaultEncoding then none else some enc,
            smDefaultMsgId := defId, messagePayload := [], optionalParams := [] } :=
  Lemmas.SmRead.smFromPdu_short hd h16 h dflt enc svc ston snpi snum dton dnpi dnum esm pid prio sched valid reg repl dc
    defId sm text schedT validT w henc hdm hts htv hsvc htext hlen

/-- DECODING DIRECTION, optional parameters: the same body followed by ANY list of optional parameters laid out
    as §5.3 prescribes (two octets tag, two octets length, value) — integer parameters of width 1, 2 or 4, ASCII
    strings with or without terminating NUL, flags without value, any of the 65,536 tags except message_payload,
    in any order and number — is decoded to the mandatory fields and to exactly those parameters, in order, each
    with the value type the (regenerated) tag table gives its tag (`TlvRead.readBack`). -/
theorem decode_optional_params (hd : List Nat) (h16 : hd.length = 16) (h : Header) (dflt enc : Enc)
    (svc : List Nat) (ston snpi : Nat) (snum : List Nat) (dton dnpi : Nat) (dnum : List Nat)
    (esm pid prio : Nat) (sched valid : List Nat) (reg repl dc defId : Nat) (sm text : List Nat)
    (schedT validT : Time.TimeObj) (ps : List (Nat × List Nat)) (g : Nat × List Nat → Tlv)
    (hps : ∀ p ∈ ps, Lemmas.TlvRead.ParamOK p (g p))
    (w : Lemmas.SmRead.FieldsOK svc ston snpi snum dton dnpi dnum sched valid)
    (henc : (if dc = 0 then Except.ok dflt else encOfDataCoding dc) = .ok enc)
    (hdm : decodeMessage esm (decodeCodec enc) sm = .ok (text, []))
    (hts : Time.fromSmpp sched = .ok schedT) (htv : Time.fromSmpp valid = .ok validT)
    (hsvc : svc.length ≤ 5) (htext : text ≠ [])
    (hlen : h.pduLength = (hd ++ Lemmas.SmRead.mandatory svc ston snpi snum dton dnpi dnum esm pid prio sched valid reg repl dc defId sm
      (Lemmas.TlvRead.wire ps)).length) :
    smFromPdu (hd ++ Lemmas.SmRead.mandatory svc ston snpi snum dton dnpi dnum esm pid prio sched valid reg repl dc defId sm
        (Lemmas.TlvRead.wire ps)) h dflt =
      .ok { seq := h.seq, status := 0, shortMessage := text,
            source := ⟨snum, ston, snpi⟩, dest := ⟨dnum, dton, dnpi⟩, serviceType := svc,
            esmClass := esm, protocolId := pid, priorityFlag := prio, schedule := schedT, validity := validT,
            registeredDelivery := reg, replaceIfPresent := repl,
            encoding := if enc.name = str Gen.Consts.defaultEncoding then none else some enc,
            smDefaultMsgId := defId, messagePayload := [], optionalParams := ps.map g } :=
  Lemmas.TlvRead.smFromPdu_short_params hd h16 h dflt enc svc ston snpi snum dton dnpi dnum esm pid prio sched valid reg repl dc
    defId sm text schedT validT ps g hps w henc hdm hts htv hsvc htext hlen

/-- Non-vacuity (a test): three parameters of the three kinds satisfy `ParamOK`: sar_msg_ref_num (two-octet
    integer), receipted_message_id (C-octet string) and alert_on_message_delivery (flag). -/
example : Lemmas.TlvRead.ParamOK (0x020C, [0x12, 0x34]) ⟨0x020C, .int 0x1234⟩ ∧
    Lemmas.TlvRead.ParamOK (0x001E, [65, 66, 0]) ⟨0x001E, .str [65, 66]⟩ ∧
    Lemmas.TlvRead.ParamOK (0x130C, []) ⟨0x130C, .bool true⟩ := by
  refine ⟨⟨by decide, by decide, ?_⟩, ⟨by decide, by decide, ?_⟩, ⟨by decide, by decide, ?_⟩⟩ <;> decide +kernel

/-- DECODING DIRECTION, message_payload: the same body with an empty short_message and the text in a
    message_payload parameter (tag 0x0424, two-octet length). -/
theorem decode_message_payload (hd : List Nat) (h16 : hd.length = 16) (h : Header) (dflt enc : Enc)
    (svc : List Nat) (ston snpi : Nat) (snum : List Nat) (dton dnpi : Nat) (dnum : List Nat)
    (esm pid prio : Nat) (sched valid : List Nat) (reg repl dc defId : Nat) (pbytes text : List Nat)
    (thi tlo lhi llo : Nat) (schedT validT : Time.TimeObj)
    (w : Lemmas.SmRead.FieldsOK svc ston snpi snum dton dnpi dnum sched valid)
    (henc : (if dc = 0 then Except.ok dflt else encOfDataCoding dc) = .ok enc)
    (hdm0 : decodeMessage esm (decodeCodec enc) [] = .ok ([], []))
    (hdm : decodeMessage esm (decodeCodec enc) pbytes = .ok (text, []))
    (htag : thi * 256 + tlo = Gen.Tlv.messagePayload) (hl : lhi * 256 + llo = pbytes.length)
    (hts : Time.fromSmpp sched = .ok schedT) (htv : Time.fromSmpp valid = .ok validT)
    (hsvc : svc.length ≤ 5) (htext : text ≠ [])
    (hlen : h.pduLength = (hd ++ Lemmas.SmRead.mandatory svc ston snpi snum dton dnpi dnum esm pid prio sched valid reg repl dc defId []
        (thi :: tlo :: lhi :: llo :: pbytes)).length) :
    smFromPdu (hd ++ Lemmas.SmRead.mandatory svc ston snpi snum dton dnpi dnum esm pid prio sched valid reg repl dc defId []
        (thi :: tlo :: lhi :: llo :: pbytes)) h dflt =
      .ok { seq := h.seq, status := 0, shortMessage := [],
            source := ⟨snum, ston, snpi⟩, dest := ⟨dnum, dton, dnpi⟩, serviceType := svc,
            esmClass := esm, protocolId := pid, priorityFlag := prio, schedule := schedT, validity := validT,
            registeredDelivery := reg, replaceIfPresent := repl,
            encoding := if enc.name = str Gen.Consts.defaultEncoding then none else some enc,
            smDefaultMsgId := defId, messagePayload := text, optionalParams := [] } :=
  Lemmas.SmRead.smFromPdu_payload hd h16 h dflt enc svc ston snpi snum dton dnpi dnum esm pid prio sched valid reg repl dc
    defId pbytes text thi tlo lhi llo schedT validT w henc hdm0 hdm htag hl hts htv hsvc htext hlen

/-- non-vacuity: a default SubmitSm is in range; sar_msg_ref_num is a 2-octet integer tag -/
example : SpecEncode.SmWF ({ shortMessage := [72, 105], source := ⟨[49], 1, 1⟩ } : Sm) := by
  constructor <;> simp
example : tagInfo 0x020C = (0, 2) := by decide +kernel

/-- A conformant deliver_sm segment whose user data header carries 16-bit port addressing
    (IE 0x05) before the concatenation element (IE 0x00: reference 183, 8 parts, part 1).  -/
def portFirstPdu : List Nat :=
  encodePdu 0x05 0 7 (SmFields.fields {
    serviceType := [], sourceTon := 0, sourceNpi := 0, sourceAddr := [], destTon := 0, destNpi := 0,
    destAddr := [], esmClass := 0x40, protocolId := 0, priorityFlag := 0, scheduleDeliveryTime := [],
    validityPeriod := [], registeredDelivery := 0, replaceIfPresent := 0, dataCoding := 0, smDefaultMsgId := 0,
    shortMessage := [0x0B, 0x05, 0x04, 0x15, 0x8A, 0x00, 0x00, 0x00, 0x03, 183, 8, 1, 97, 98] }) []

/-- Regression witness for the repaired defect udh-other-ie-first (kernel-checked on the model
    of the element walk): the decoder reports (reference, part, total) = (183, 1, 8), not the port
    numbers. -/
theorem udh_port_first_decoded :
    (decode portFirstPdu encGsm).map (fun m => match m with
      | .deliverSm s => (s.optionalParams, s.shortMessage)
      | _ => ([], [])) = .ok ([⟨0x020C, .int 183⟩, ⟨0x020F, .int 1⟩, ⟨0x020E, .int 8⟩], [97, 98]) := by decide +kernel

/-- Sent again, the same bytes: `pdu()` changes the object it serialises (`encoding` as chosen by `smpp_encode`,
    `_encoded_message` kept for short_message or cleared for message_payload); for every message of every class for
    which it succeeds, a second call on the same object returns the same bytes and leaves the same encoding — so what the
    conformance theorems say about the first serialisation holds for every later one. -/
theorem resend_same_bytes (dflt : Enc) (m : Msg) (b : List Nat) (e : Option Enc) (h : pdu dflt m = .ok (b, e)) :
    pduAgain dflt m = .ok (b, e) :=
  PduAgain.pduAgain_eq dflt m b e h

/-- non-vacuity: a text that goes to message_payload (300 octets), serialised twice -/
example :
    let m : Sm := { seq := 3, shortMessage := List.replicate 300 97, source := ⟨[49], 1, 1⟩, dest := ⟨[50], 1, 1⟩ }
    (pdu encGsm (.submitSm m)).isOk = true ∧ pduAgain encGsm (.submitSm m) = pdu encGsm (.submitSm m) := by
  decide +kernel

end SmppVerif.Props.C04

#print axioms SmppVerif.Props.C04.tlv_table
#print axioms SmppVerif.Props.C04.command_ids
#print axioms SmppVerif.Props.C04.data_coding
#print axioms SmppVerif.Props.C04.header
#print axioms SmppVerif.Props.C04.bodyless
#print axioms SmppVerif.Props.C04.sm_resp
#print axioms SmppVerif.Props.C04.sm_mandatory_layout
#print axioms SmppVerif.Props.C04.tlv_int
#print axioms SmppVerif.Props.C04.decode_mandatory_fields
#print axioms SmppVerif.Props.C04.decode_message_payload
#print axioms SmppVerif.Props.C04.udh_port_first_decoded
#print axioms SmppVerif.Props.C04.decode_optional_params
#print axioms SmppVerif.Props.C04.resend_same_bytes
