/-
C17 — Schedule and validity times convert to SMPP time format and back unchanged.
An instant is (calendar fields, UTC offset); the format carries the fields verbatim, so the
instant is preserved iff the fields and the offset are.  A naive datetime is written with
offset 00+ and therefore reads back as the same fields at UTC.
-/
import SmppVerif.Lemmas.Time

namespace SmppVerif.Props.C17
open SmppVerif SmppVerif.Time SmppVerif.Lemmas.Time

/-- The absolute format is exactly SMPP 3.4 §7.1.1 'YYMMDDhhmmsstnnp' (nn quarter hours, p sign). -/
theorem abs_format (d : DateTime) (h : WFabs d) :
    toSmpp (.abs d) = .ok (Spec.TimeFormat.renderAbs d.year d.month d.day d.hour d.minute d.second
      (d.micro / 100000) (d.offset.getD 0)) :=
  Lemmas.Time.abs_format d h

/-- Absolute times of 2000–2099 with any quarter-hour offset in ±12 h (or naive) and any
    tenth of a second read back with the same fields and the same offset: only the
    sub-tenth part of the microseconds is dropped. -/
theorem abs_round_trip (d : DateTime) (h : WFabs d) :
    ∃ s, toSmpp (.abs d) = .ok s ∧
      fromSmpp s = .ok (.abs { d with
        micro := d.micro / 100000 * 100000, offset := some (d.offset.getD 0) }) :=
  Lemmas.Time.abs_round_trip d h

/-- The relative format is 'YYMMDDhhmmss000R' with the 365/30-day decomposition. -/
theorem rel_format (t : TimeDelta) (h : WFrel t) :
    toSmpp (.rel t) = .ok (Spec.TimeFormat.renderRel (t.days.toNat / 365) (t.days.toNat % 365 / 30)
      (t.days.toNat % 365 % 30) (t.seconds / 3600) (t.seconds % 3600 / 60) (t.seconds % 3600 % 60)) :=
  Lemmas.Time.rel_format t h

/-- Durations from 0 to 63 weeks read back unchanged to the whole second. -/
theorem rel_round_trip (t : TimeDelta) (h : WFrel t) :
    ∃ s, toSmpp (.rel t) = .ok s ∧ fromSmpp s = .ok (.rel { t with micros := 0 }) :=
  Lemmas.Time.rel_round_trip t h

/-- Durations beyond 63 weeks are rejected with ValueError. -/
theorem rel_reject (t : TimeDelta) (h : relTooLong t = true) :
    toSmpp (.rel t) = .error .valueError :=
  Lemmas.Time.rel_reject t h

/-- An unset time is the empty string and back. -/
theorem none_round_trip : toSmpp .none = .ok [] ∧ fromSmpp [] = .ok .none := ⟨rfl, rfl⟩

/-- Non-vacuity: a leap day at -03:45 with 0.87 s, and the 63-week maximum. -/
example : WFabs { year := 2024, month := 2, day := 29, hour := 23, minute := 59, second := 58,
                  micro := 870000, offset := some (-13500) } :=
  ⟨by decide, by decide, by decide, by decide, by decide, by decide, by decide,
   by intro o h; cases h; decide⟩
example : WFrel { days := 441, seconds := 0, micros := 0 } := ⟨by decide, by decide, by decide⟩
example : toSmpp (.abs { year := 2024, month := 2, day := 29, hour := 23, minute := 59, second := 58,
                         micro := 870000, offset := some (-13500) })
    = .ok [50, 52, 48, 50, 50, 57, 50, 51, 53, 57, 53, 56, 56, 49, 53, 45] := by decide +kernel

end SmppVerif.Props.C17

#print axioms SmppVerif.Props.C17.abs_format
#print axioms SmppVerif.Props.C17.abs_round_trip
#print axioms SmppVerif.Props.C17.rel_format
#print axioms SmppVerif.Props.C17.rel_round_trip
#print axioms SmppVerif.Props.C17.rel_reject
#print axioms SmppVerif.Props.C17.none_round_trip
