/-
C14 — An unanswered submit times out exactly once, never early.
Tier 2 (correlator operations taken atomically; the clock is the virtual time passed to
each operation), and TURN LEVEL (Model/SweepTasks.lean): the operations as coroutines that give up control in the
send_error hook of their sweep, other operations starting and resuming in between in any order —
`exactly_once_under_interleaving`, `interleaved_never_early`, `interleaved_nothing_passed_over`.
-/
import SmppVerif.Lemmas.Expiry
import SmppVerif.Lemmas.RcptHistory
import SmppVerif.Lemmas.SweepTasks
import SmppVerif.Gen.Site

namespace SmppVerif.Props.C14
open SmppVerif SmppVerif.Corr SmppVerif.Lemmas.Corr SmppVerif.Lemmas.Expiry

/-- `put` = sweep, then store under the sequence number with the current time. -/
theorem put_is_sweep_then_store (s : CState) (now : Nat) (m : Msg) :
    (put s now m).2 = (removeExpired s now).2 ∧
    (∀ k, k ≠ m.seq → aget (put s now m).1.store k = aget (removeExpired s now).1.store k) ∧
    aget (put s now m).1.store m.seq = some (now, m) := by
  unfold put
  dsimp only
  split <;> refine ⟨rfl, fun k hk => ?_, ?_⟩ <;> dsimp only <;>
    first | exact aget_aset_other _ _ _ _ hk | exact aget_aset_same _ _ _

/-- Never early: whenever a sweep (hence any correlator operation) calls
    `send_error(…, TimeoutError)`, that call is produced by the expiry of a stored request
    whose age strictly exceeds the response time-to-live. -/
theorem never_early (s : CState) (now : Nat) (o : Out) (h : o ∈ (removeExpired s now).2) :
    ∃ k at_ m s', aget s.store k = some (at_, m) ∧ now - at_ > s.ttlResp ∧ o ∈ (expired s' m).2 :=
  removeExpired_never_early s now o h

/-- … and for an unsegmented request the call reports exactly that request. -/
theorem plain_expiry_reports_it (s : CState) (m : Msg) (h1 : m.isSubmitLike = true)
    (h2 : aget s.segStore m.seq = none) : (expired s m).2 = [.sendError m] :=
  (expired_plain s m h1 h2).1

/-- By the next request: after any sweep at time `now` every request still stored is within
    its time-to-live, so a time-out is never pending longer than until the next sweep … -/
theorem fresh_after_sweep (s : CState) (now k at_ : Nat) (m : Msg)
    (h : aget (removeExpired s now).1.store k = some (at_, m)) : now - at_ ≤ s.ttlResp :=
  removeExpired_fresh s now k at_ m h

/-- … every request the ESME sends (`put`, keep-alive probes included) performs that sweep
    and reports each overdue unsegmented request that is still in the store. -/
theorem reported_by_next_put (s : CState) (now k at_ : Nat) (m new : Msg)
    (hget : aget s.store k = some (at_, m)) (hov : now - at_ > s.ttlResp)
    (hsub : m.isSubmitLike = true) (hseg : aget s.segStore m.seq = none) :
    Out.sendError m ∈ (put s now new).2 := by
  rw [(put_is_sweep_then_store s now new).1]
  exact removeExpired_emits s now k at_ m hget hov hsub hseg

/-- Exactly once: an overdue request does not survive the sweep (so it cannot be reported by
    a later one), and a sweep never re-inserts anything. -/
theorem expired_is_removed (s : CState) (now k at_ : Nat) (m : Msg)
    (hget : aget s.store k = some (at_, m)) (hov : now - at_ > s.ttlResp) :
    aget (removeExpired s now).1.store k = none := by
  cases h : aget (removeExpired s now).1.store k with
  | none => rfl
  | some v =>
    obtain ⟨at', m'⟩ := v
    have hfresh := removeExpired_fresh s now k at' m' h
    have hsub := (sweepStore_sub now (s.store.map (·.1)) s).1 k (at', m')
    unfold removeExpired at h
    dsimp only at h
    have := hsub h
    rw [hget] at this
    cases this
    omega

/-- A message answered in time is never reported as timed out: `get` takes the request out
    of the store before it sweeps, so none of its `send_error` calls is triggered by it. -/
theorem answered_not_timed_out (s : CState) (now : Nat) (resp : Msg) (o : Out)
    (h : o ∈ (Corr.get s now resp).2.1) :
    ∃ k at_ m s', k ≠ resp.seq ∧ aget s.store k = some (at_, m) ∧ now - at_ > s.ttlResp ∧
      o ∈ (expired s' m).2 := by
  unfold Corr.get at h
  cases hs : aget s.store resp.seq with
  | none =>
    rw [hs] at h; dsimp only at h
    obtain ⟨k, at_, m, s', hk, hov, ho⟩ := removeExpired_never_early s now o h
    refine ⟨k, at_, m, s', ?_, hk, hov, ho⟩
    intro e; rw [e, hs] at hk; cases hk
  | some pr =>
    obtain ⟨at0, m0⟩ := pr
    rw [hs] at h; dsimp only at h
    obtain ⟨k, at_, m, s', hk, hov, ho⟩ := removeExpired_never_early _ now o h
    have hstore : ∀ s1 : CState, s1.store = adel s.store resp.seq → s1.ttlResp = s.ttlResp →
        aget s1.store k = some (at_, m) → now - at_ > s1.ttlResp →
        k ≠ resp.seq ∧ aget s.store k = some (at_, m) ∧ now - at_ > s.ttlResp := by
      intro s1 e1 e2 hk1 hov1
      rw [e1] at hk1; rw [e2] at hov1
      by_cases e : k = resp.seq
      · rw [e, aget_adel_same] at hk1; cases hk1
      · rw [aget_adel_other _ _ _ e] at hk1; exact ⟨e, hk1, hov1⟩
    have hu := updateSeg_store { s with store := adel s.store resp.seq } (track resp m0) m0
    have := hstore _ hu.1 hu.2 hk hov
    exact ⟨k, at_, m, s', this.1, this.2.1, this.2.2, ho⟩

/-- Non-vacuity: ttl 15 s (15360 quanta), a submit stored at 100; a probe put at 15460 does
    not report it (age = ttl exactly), the one at 15461 does, and only once. -/
example :
    let m : Msg := { kind := .submitSm, seq := 5, logId := 7 }
    let e : Msg := { kind := .enquireLink, seq := 6 }
    let s0 : CState := (put { ttlResp := 15360, ttlDeliv := 1000000 } 100 m).1
    (put s0 15460 e).2 = [] ∧ (put s0 15461 e).2 = [.sendError m] ∧
    (put (put s0 15461 e).1 15470 { e with seq := 7 }).2 = [] := by
  decide +kernel

/-! ### history level (unsegmented requests amid arbitrary traffic) -/

open SmppVerif.Lemmas.History SmppVerif.Lemmas.RcptHistory in
/-- NEVER EARLY over histories: from the moment an unsegmented submit_sm is stored, whatever requests are stored,
    responses to other requests handled and deliver_sm handled — every one of them running the sweep — nothing
    is reported for it (no time-out, no outcome at all) as long as no operation comes later than its time-to-live
    and its own response has not arrived. -/
theorem nothing_reported_before_ttl (L q : Nat) (m : Msg) (pm : Plain L q m) (ttlR ttlD t : Nat) (pre post : List Op)
    (hc : ∀ op ∈ pre ++ post, Clean L q op) (hcalm : ∀ op ∈ post, Calm q t ttlR op) :
    (runOps L (initState ttlR ttlD) (pre ++ Op.put t m :: post)).2 = 0 :=
  Lemmas.RcptHistory.never_early L q m pm ttlR ttlD t pre post hc hcalm

open SmppVerif.Lemmas.History in
/-- EXACTLY ONCE, BY THE NEXT REQUEST over histories: if no response carrying its number ever arrives, the request
    is reported exactly once as soon as any request is stored (a keep-alive probe included) or any response handled
    after its time-to-live — and never again, however long the history goes on. -/
theorem unanswered_reported_exactly_once (L q : Nat) (m : Msg) (pm : Plain L q m) (ttlR ttlD t : Nat)
    (pre post : List Op) (hc : ∀ op ∈ pre ++ post, Clean L q op)
    (hno : ∀ op ∈ post, GoodResp q op) (hsettle : ∃ op ∈ post, Settles q t ttlR op) :
    (runOps L (initState ttlR ttlD) (pre ++ Op.put t m :: post)).2 = 1 :=
  (plain_ledger (∀ op ∈ post, GoodResp q op) L q m pm ttlR ttlD t pre post hc (fun g => g)).2 hno hsettle

/-! ### turn level: operations interleaved at the send_error hook -/

open SmppVerif.SweepTasks SmppVerif.Lemmas.SweepTasks in
/-- Exactly once, safety half, under EVERY interleaving: take any schedule of operation starts (put of a request or a
    probe, get for a response), resumptions of operations suspended in the send_error hook and cancellations of suspended
    operations, in any order, with any clock values.  A request that was not in the store and is stored at most once leaves the store at most once over the
    whole run: it is reported as timed out at most once, and never both reported and matched by a response. -/
theorem exactly_once_under_interleaving (k : Nat) (evs : List Ev) (w : World) (hnew : aget w.cs.store k = none)
    (hput : inserted k (run w evs).2 ≤ 1) : removed k (run w evs).2 ≤ 1 :=
  at_most_once k evs w hnew hput

open SmppVerif.SweepTasks in
/-- CANCELLATION LOSES NOTHING: a schedule may also cancel a suspended operation (its session ends while the application's
    hook has not returned): the operation takes no more turns, and that is all - the store is what it was, so every request
    the cancelled sweep had not reached yet is still there for the next sweep, and nothing is reported for it.  The theorems
    over schedules (`exactly_once_under_interleaving`, `removals_bounded_by_insertions`) quantify over cancellations too. -/
theorem cancellation_loses_nothing (w : World) (i : Nat) :
    (step w (.cancel i)).1.cs = w.cs ∧ (step w (.cancel i)).2 = [] ∧
    (step w (.cancel i)).1.tasks = w.tasks.eraseIdx i :=
  ⟨rfl, rfl, rfl⟩

open SmppVerif.SweepTasks SmppVerif.Lemmas.SweepTasks in
/-- the counting law behind it, for every key and every schedule -/
theorem removals_bounded_by_insertions (k : Nat) (evs : List Ev) (w : World) :
    removed k (run w evs).2 + live (run w evs).1.cs k ≤ inserted k (run w evs).2 + live w.cs k :=
  run_bal k evs w

open SmppVerif.SweepTasks SmppVerif.Lemmas.SweepTasks in
/-- Never early, whoever sweeps: a turn of any sweep removes a request only if that sweep's clock value — read when the
    sweep started, so not later than the present — is more than the time-to-live past the moment the request was stored. -/
theorem interleaved_never_early (now : Nat) (ks : List Nat) (s : CState) (k : Nat) (o : List Out)
    (h : Obs.timeout k o ∈ (sweepTurn now ks s).2.1) :
    ∃ at_ m, aget s.store k = some (at_, m) ∧ now - at_ > s.ttlResp :=
  timeout_never_early now ks s k o h

open SmppVerif.SweepTasks SmppVerif.Lemmas.SweepTasks in
/-- By the next request: a sweep never passes over an overdue request of its snapshot that is still stored — it reports
    it in this turn or keeps it among the keys to visit; so once the sweep is through, every overdue request of its
    snapshot has left the store. -/
theorem interleaved_nothing_passed_over (now : Nat) (ks : List Nat) (s : CState) (k at_ : Nat) (m : Msg)
    (hk : k ∈ ks) (hg : aget s.store k = some (at_, m)) (hexp : now - at_ > s.ttlResp) :
    (∃ o, Obs.timeout k o ∈ (sweepTurn now ks s).2.1) ∨
    (∃ rest, (sweepTurn now ks s).2.2 = some rest ∧ k ∈ rest.keys) :=
  overdue_not_skipped now ks s k at_ m hk hg hexp

open SmppVerif.SweepTasks SmppVerif.Lemmas.SweepTasks in
/-- The two models agree where they overlap: the atomic sweep of the tier 2 model (on which the history-level theorems
    above rest) is what the turn-level sweep does when it is resumed at once every time it suspends — same final stores,
    same hook calls in the same order. -/
theorem atomic_sweep_is_uninterrupted_turns (s : CState) (now : Nat) :
    (removeExpired s now).1 = (sweepAll now (s.store.length + 1) (s.store.map (·.1)) s).1 ∧
    (removeExpired s now).2 = (sweepAll now (s.store.length + 1) (s.store.map (·.1)) s).2.flatMap outsOf :=
  removeExpired_eq_sweepAll s now

open SmppVerif.SweepTasks SmppVerif.Lemmas.SweepTasks in
/-- Where a sweep gives up control: ONLY where it awaits the hook.  A turn that ends with the sweep through called no
    hook; a turn that ends with the sweep suspended ends with a removal that called the hook, and no removal before it
    in that turn did (a probe that outlived its time-to-live, a segment whose message has other segments open: swept out
    silently, the sweep goes on).  So no other task can run between two silent removals — the schedules the theorems
    above quantify over are exactly those the event loop can produce. -/
theorem control_given_up_only_at_hook (now : Nat) (ks : List Nat) (s : CState) :
    ((sweepTurn now ks s).2.2 = none → ∀ x ∈ (sweepTurn now ks s).2.1, outsOf x = []) ∧
    (∀ rest, (sweepTurn now ks s).2.2 = some rest →
      ∃ pre k o, (sweepTurn now ks s).2.1 = pre ++ [Obs.timeout k o] ∧ o ≠ [] ∧ ∀ x ∈ pre, outsOf x = []) :=
  ⟨turn_through_no_hook now ks s, turn_suspended_at_hook now ks s⟩

open SmppVerif.SweepTasks SmppVerif.Lemmas.SweepTasks in
/-- The same for whole operations: a turn of `put` / `get` either leaves the operation in flight - then it ended in a hook
    call (the time-out report of some request), and what remains to be done is unchanged - or completes it: a `put` has
    then stored its request, with the clock value of that turn, as the last thing it did.  So the by-the-next-request
    clause is a matter of hook calls returning, nothing else: a request stored by `put` is in the store as soon as every
    hook call of the sweep in front of it has returned. -/
theorem operation_suspended_only_in_hook (t : Task) (clock : Nat) (s : CState) :
    (∀ t', (taskTurn t clock s).2.2 = some t' →
      (∃ pre k o, (taskTurn t clock s).2.1 = pre ++ [Obs.timeout k o] ∧ o ≠ [] ∧ ∀ x ∈ pre, outsOf x = []) ∧
      t'.after = t.after) ∧
    ((taskTurn t clock s).2.2 = none →
      match t.after with
      | .store m => ∃ pre, (taskTurn t clock s).2.1 = pre ++ [Obs.stored m.seq clock] ∧ ∀ x ∈ pre, outsOf x = []
      | .nothing => ∀ x ∈ (taskTurn t clock s).2.1, outsOf x = []) :=
  ⟨taskTurn_suspended_at_hook t clock s, taskTurn_through t clock s⟩

/-- non-vacuity: an overdue probe in front of an overdue submit_sm - one turn removes both, the first silently, and
    suspends in the hook call for the second with the third key still to visit -/
example :
    let p : Msg := { kind := .enquireLink, seq := 1 }
    let m2 : Msg := { kind := .submitSm, seq := 2, logId := 52 }
    let m3 : Msg := { kind := .submitSm, seq := 3, logId := 53 }
    let s : CState := { ttlResp := 10, ttlDeliv := 1000, store := [(1, (100, p)), (2, (100, m2)), (3, (100, m3))] }
    (SmppVerif.SweepTasks.sweepTurn 120 [1, 2, 3] s).2 =
      ([.timeout 1 [], .timeout 2 [.sendError m2]], some ⟨120, [3]⟩) := by
  decide +kernel

/-- non-vacuity (kernel evaluation of the turn-level model): two overdue requests; the probe's sweep reports the first and is
    suspended in the hook; meanwhile a late response for the second starts its own operation (found: matched), whose sweep
    finds nothing left to report; the probe's sweep resumes, skips the second (gone) and stores the probe.  One outcome each. -/
example :
    let m1 : Msg := { kind := .submitSm, seq := 1, logId := 51 }
    let m2 : Msg := { kind := .submitSm, seq := 2, logId := 52 }
    let w : SmppVerif.SweepTasks.World := ⟨{ ttlResp := 10, ttlDeliv := 1000, store := [(1, (100, m1)), (2, (100, m2))] }, []⟩
    let r := SmppVerif.SweepTasks.run w [.start (.put { kind := .enquireLink, seq := 7 }) 120,
                   .start (.get { kind := .submitSmResp, seq := 2 }) 120, .resume 0 121]
    r.2 = [.timeout 1 [.sendError m1], .matched 2 m2, .stored 7 121] ∧ r.1.tasks = [] ∧ r.1.cs.store.map (·.1) = [7] := by
  decide +kernel

/-- TIE TO THE SOURCE (regenerated on every run, Gen/Site.lean): the step order the turn-level model rests on — the sweep reads
    the clock once, looks each key of its snapshot up again, DELETES the request and only then awaits `expired` (the hook);
    `put` sweeps first, reads the clock again, then stores; `get` pops the request before it sweeps. -/
theorem correlator_step_order :
    Gen.Site.removeExpired = ["monotonic", "get:_store", "del:_store", "expired"] ∧
    Gen.Site.corrPut = ["_remove_expired", "monotonic", "set:_store"] ∧
    Gen.Site.corrGet = ["pop:_store", "_remove_expired"] := by decide

/-- every `await` of a step list comes directly after the step `what` -/
def awaitsOnlyAfter (what : String) : List String → Bool
  | a :: b :: rest => (b != "await" || a == what) && awaitsOnlyAfter what (b :: rest)
  | _ => true

/-- TIE TO THE SOURCE for `control_given_up_only_at_hook` (regenerated on every run, Gen/Site.lean): in `expired` every
    `await` is the await of a `hook.send_error` call, and a branch without that call awaits nothing; in `_remove_expired`
    the only `await` is that of `expired`, inside the first loop, after the request was deleted; the two loops over the
    delivery stores await nothing.  So the sweep can give up control exactly where the turn-level model suspends it. -/
theorem sweep_awaits_only_the_hook :
    awaitsOnlyAfter "send_error" Gen.Site.expiredAwaits = true ∧ Gen.Site.expiredAwaits.head? ≠ some "await" ∧
    "send_error" ∈ Gen.Site.expiredAwaits ∧
    awaitsOnlyAfter "expired" Gen.Site.removeExpiredAwaits = true ∧
    Gen.Site.removeExpiredAwaits.filter (· == "await") = ["await"] ∧
    Gen.Site.removeExpiredAwaits.take 5 = ["for", "del:_store", "expired", "await", "end-for"] := by decide

/-- TIE TO THE SOURCE for the turn-level model's premise (Model/SweepTasks.lean: "the only place where the operations give
    up control is the hook awaited by the sweep"): `put`, `get`, `put_delivery` and `get_delivery` each contain exactly one
    `await`, that of `_remove_expired`; `put` / `put_delivery` store after it, `get` / `get_delivery` have popped before it. -/
theorem operations_await_only_the_sweep :
    Gen.Site.corrPutAwaits = ["_remove_expired", "await", "set:_store"] ∧
    Gen.Site.corrGetAwaits = ["pop:_store", "_remove_expired", "await"] ∧
    Gen.Site.putDeliveryAwaits = ["_remove_expired", "await", "set:_delivery_store"] ∧
    Gen.Site.getDeliveryAwaits = ["pop:_delivery_store", "_remove_expired", "await"] := by decide

end SmppVerif.Props.C14

#print axioms SmppVerif.Props.C14.put_is_sweep_then_store
#print axioms SmppVerif.Props.C14.never_early
#print axioms SmppVerif.Props.C14.plain_expiry_reports_it
#print axioms SmppVerif.Props.C14.fresh_after_sweep
#print axioms SmppVerif.Props.C14.reported_by_next_put
#print axioms SmppVerif.Props.C14.expired_is_removed
#print axioms SmppVerif.Props.C14.answered_not_timed_out
#print axioms SmppVerif.Props.C14.nothing_reported_before_ttl
#print axioms SmppVerif.Props.C14.unanswered_reported_exactly_once
#print axioms SmppVerif.Props.C14.exactly_once_under_interleaving
#print axioms SmppVerif.Props.C14.cancellation_loses_nothing
#print axioms SmppVerif.Props.C14.removals_bounded_by_insertions
#print axioms SmppVerif.Props.C14.interleaved_never_early
#print axioms SmppVerif.Props.C14.interleaved_nothing_passed_over
#print axioms SmppVerif.Props.C14.atomic_sweep_is_uninterrupted_turns
#print axioms SmppVerif.Props.C14.control_given_up_only_at_hook
#print axioms SmppVerif.Props.C14.operation_suspended_only_in_hook
#print axioms SmppVerif.Props.C14.sweep_awaits_only_the_hook
#print axioms SmppVerif.Props.C14.operations_await_only_the_sweep
#print axioms SmppVerif.Props.C14.correlator_step_order
