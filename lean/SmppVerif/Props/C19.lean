/-
C19 — persisted correlation data survives restarts and crashes during writes.

Model (Model/Persist.lean): a file system as a finite map; `_save` as the system calls it
performs (create/truncate the temporary, write — possibly in pieces —, atomic os.replace); a
crash leaves any prefix of them, including a partial write; PersistingDict as memory + file with
assignment, deletion, pop (each followed by `_save`) and *in-place change* (no `_save`).
What is serialised and read back (`ser` / `parse`) is a parameter: its round-trip law for
messages is C12's theorem; for the containers around them (lists for tuples, SegmentStatus) it
is tied by the correspondence, which reloads a new correlator from the directory after every
operation of generated histories and compares it with the live one.

Proved here for every history / crash point.  Tied to correlator.py by (1) the traced system
calls of the real `_save`, (2) the reload comparison, (3) crash injection into the real code at
every traced system call and at partial writes.  NOT a theorem: that each correlator operation
re-assigns every entry it changes in place (repairs 090b314 / a97f9c4 made it so; checked by (2)).
-/
import SmppVerif.Lemmas.Persist
import SmppVerif.Gen.Site
import SmppVerif.Gen.AssignBack

namespace SmppVerif.Props.C19
open SmppVerif SmppVerif.Persist SmppVerif.Lemmas.Persist

/-- A crash at any point of `_save` — before the temporary exists, after its truncation, after
    any partial write, before or after the rename — leaves the store file with its old content or
    with the complete new content, and leaves every other file untouched. -/
theorem save_crash_atomic (fs : FS) (file : Path) (text : Bytes) (fs' : FS)
    (h : fs' ∈ crashStates fs (saveTrace file text)) :
    (fs'.read file = fs.read file ∨ fs'.read file = some text) ∧
    ∀ q, q ≠ file → q ≠ tmpOf file → fs'.read q = fs.read q :=
  crash_atomic fs file text fs' h

/-- Dictionary level: a crash during any operation leaves a file that loads as the dictionary
    before or after that operation, never as an empty or unreadable store. -/
theorem op_crash_consistent {V} (ser : Mem V → Bytes) (parse : Bytes → Option (Mem V))
    (hrt : ∀ m, parse (ser m) = some m) (file : Path) (m : Mem V) (fs : FS) (op : Op V)
    (fs' : FS) (h : fs' ∈ crashStates fs (opStep ser file m op).2.1) :
    load parse fs' file = load parse fs file ∨ load parse fs' file = (opStep ser file m op).1 :=
  op_crash_atomic ser parse hrt file m fs op fs' h

/-- Restart: after any history of assignments, deletions and pops (found or not), a new instance
    on the same file holds exactly what the old instance held. -/
theorem restart_sees_everything {V} (ser : Mem V → Bytes) (parse : Bytes → Option (Mem V))
    (hrt : ∀ m, parse (ser m) = some m) (file : Path) (hf : file ≠ [])
    (ops : List (Op V)) (m : Mem V) (fs : FS) (hops : ∀ op ∈ ops, isMutate op = false)
    (hs : load parse fs file = m) :
    load parse (runOps ser file (m, fs) ops).2 file = (runOps ser file (m, fs) ops).1 :=
  restart_sees_all ser parse hrt file hf ops m fs hops hs

/-- An operation that saves re-synchronises the file with memory whatever was changed in place
    before it (the shape of the repaired correlator operations: change, then assign back). -/
theorem assign_back_resyncs {V} (ser : Mem V → Bytes) (parse : Bytes → Option (Mem V))
    (hrt : ∀ m, parse (ser m) = some m) (file : Path) (m : Mem V) (fs : FS) (op : Op V)
    (h : (opStep ser file m op).2.1 ≠ []) :
    load parse (fs.run (opStep ser file m op).2.1) file = (opStep ser file m op).1 :=
  save_resyncs ser parse hrt file m fs op h

/-- The five store files of a correlator and their temporaries are pairwise different paths,
    for every directory and correlator name: a save of one store cannot disturb another. -/
theorem store_files_distinct (dir name : Path) :
    ∀ s ∈ storeSuffixes, ∀ t ∈ storeSuffixes,
      (storeFile dir name s = storeFile dir name t → s = t) ∧
      tmpOf (storeFile dir name s) ≠ storeFile dir name t :=
  Lemmas.Persist.store_files_distinct dir name

/-! ### why the repairs were needed: kernel-checked counter-examples on the model -/

def idSer (m : Mem Nat) : Bytes := m.flatMap fun kv => kv.1.length :: (kv.1 ++ [kv.2])
def idParse (b : Bytes) : Option (Mem Nat) := if b.isEmpty then none else some [([1], b.getD 2 0)]

/-- fc383ea: writing the store file in place (truncate, then write) is not crash-atomic — after
    the truncation the file is empty, which loads as the empty dictionary. -/
theorem inplace_write_not_atomic :
    let fs : FS := ⟨[([102], [1, 1, 5])]⟩
    ∃ fs' ∈ crashStates fs [.openTrunc [102], .append [102] [1, 1, 6]],
      load idParse fs' [102] ≠ [([1], 5)] ∧ load idParse fs' [102] ≠ [([1], 6)] := by
  decide +kernel

/-- a97f9c4: a change made in place is not on disk — a restart sees the old value. -/
theorem inplace_change_lost :
    let r := runOps idSer [102] ([], {}) [.set [1] 5, .mutate [1] 6]
    r.1 = [([1], 6)] ∧ load idParse r.2 [102] = [([1], 5)] := by
  decide +kernel

/-- non-vacuity: the round-trip hypothesis is satisfiable (single-entry dictionaries of the toy
    serialiser) and a crash sequence is non-trivial -/
example : (crashStates ({} : FS) (saveTrace [102] [1, 1, 5])).length = 8 := by decide +kernel

/-- TIE TO THE SOURCE (regenerated on every run, Gen/Site.lean): `_save` opens the temporary file, serialises and writes, leaves
    the `with` block (flush and close) and only then renames — the system-call order `saveTrace` models -/
theorem save_step_order : Gen.Site.save = ["open", "json_encode", "write", "end-with", "replace"] := by decide

/-- TIE TO THE SOURCE (regenerated on every run, Gen/AssignBack.lean): every statement of SimpleCorrelator that changes an object taken from a persisted store in place (status of a segment, last response / receipt, the collected inbound segments) is followed, in the same method, by an assignment back to that store which is not nested in a conditional the change is not in - PersistingDict saves on assignment only, so a change without it would reach the memory copy but not the file -/
theorem in_place_changes_assigned_back :
    Gen.AssignBack.sites.all (fun s => s.2.2.2) = true ∧ 5 ≤ Gen.AssignBack.sites.length ∧
    (["expired", "get", "get_delivery", "put", "put_delivery_segmented"].all fun f => (Gen.AssignBack.sites.map (·.1)).contains f) = true := by
  decide

end SmppVerif.Props.C19

#print axioms SmppVerif.Props.C19.save_crash_atomic
#print axioms SmppVerif.Props.C19.op_crash_consistent
#print axioms SmppVerif.Props.C19.restart_sees_everything
#print axioms SmppVerif.Props.C19.assign_back_resyncs
#print axioms SmppVerif.Props.C19.store_files_distinct
#print axioms SmppVerif.Props.C19.inplace_write_not_atomic
#print axioms SmppVerif.Props.C19.inplace_change_lost
#print axioms SmppVerif.Props.C19.save_step_order
#print axioms SmppVerif.Props.C19.in_place_changes_assigned_back
