import SmppVerif.Model.PduDecode
namespace SmppVerif.Props.C03
theorem placeholder : True := trivial
end SmppVerif.Props.C03
#print axioms SmppVerif.Props.C03.placeholder
